/-
  Edn.Proofs.AllocLedgerAux7 — the parts of `edn_read_with_options` around the recursive reader:
  `edn_arena_create` (two `malloc`s; the record is freed when the first block is refused),
  `edn_arena_destroy`, and the error-position code with its temporary arena (`lineIndexA`).
-/
import Edn.Proofs.AllocLedgerAux6

namespace Edn.Proofs.AllocLedger
open Edn.Model Edn.Proofs.AllocBasic
open Edn.Generated

/-- several more events -/
theorem Sync.pushes {a a' : ASt} (es : List Ev) (h : Sync a) (ht : a'.trace = es.reverse ++ a.trace)
    (hs : run es (led a) = some (led a')) : Sync a' := by
  unfold Sync at h ⊢
  rw [ht, List.reverse_append, List.reverse_reverse, run_append, h]
  exact hs

/-- `edn_arena_create` for a slot that is empty: no raw block is left behind, whether it succeeds
    or not; the slot is alive exactly when it succeeds; the other slot is untouched -/
theorem arenaCreate_spec (orc : Nat → Bool) (tmp : Bool) (a : ASt) (hs : Sync a)
    (hslot : (if tmp then a.tmp else a.arena) = .none) :
    Sync (a.arenaCreate orc tmp).2 ∧ (a.arenaCreate orc tmp).2.live = a.live ∧
    (if tmp then (a.arenaCreate orc tmp).2.arena = a.arena else (a.arenaCreate orc tmp).2.tmp = a.tmp) ∧
    (if tmp then (a.arenaCreate orc tmp).2.tmp else (a.arenaCreate orc tmp).2.arena) =
      (if (a.arenaCreate orc tmp).1 then .alive else .none) ∧
    (a.arenaCreate orc tmp).1 = (!orc (a.reqs + 1) && !orc (a.reqs + 2)) := by
  cases h1 : orc (a.reqs + 1)
  · cases h2 : orc (a.reqs + 2)
    · -- both granted
      cases tmp
      · have e : a.arenaCreate orc false = (true,
            { a with reqs := a.reqs + 2, trace := .req .arenaNew (a.reqs + 2) false 0 :: .req .arenaNew (a.reqs + 1) false 0 :: a.trace, arena := .alive }) := by
          simp [ASt.arenaCreate, ASt.rawAlloc, ASt.request, h1, h2]
        rw [e]
        simp only [Bool.false_eq_true, ↓reduceIte] at hslot
        refine ⟨?_, rfl, rfl, rfl, rfl⟩
        refine hs.pushes [.req .arenaNew (a.reqs + 1) false 0, .req .arenaNew (a.reqs + 2) false 0] rfl ?_
        simp [run, Led.step, led, hslot, aliveN]
        omega
      · have e : a.arenaCreate orc true = (true,
            { a with reqs := a.reqs + 2, trace := .req .arenaNew (a.reqs + 2) false 0 :: .req .arenaNew (a.reqs + 1) false 0 :: a.trace, tmp := .alive }) := by
          simp [ASt.arenaCreate, ASt.rawAlloc, ASt.request, h1, h2]
        rw [e]
        simp only [↓reduceIte] at hslot
        refine ⟨?_, rfl, rfl, rfl, rfl⟩
        refine hs.pushes [.req .arenaNew (a.reqs + 1) false 0, .req .arenaNew (a.reqs + 2) false 0] rfl ?_
        simp [run, Led.step, led, hslot, aliveN]
    · -- the first block is refused: the record is freed
      have e : a.arenaCreate orc tmp = (false,
          { a with reqs := a.reqs + 2, trace := .free (a.reqs + 1) :: .req .arenaNew (a.reqs + 2) true 0 :: .req .arenaNew (a.reqs + 1) false 0 :: a.trace }) := by
        simp [ASt.arenaCreate, ASt.rawAlloc, ASt.request, ASt.free, h1, h2]
      rw [e]
      refine ⟨?_, rfl, by cases tmp <;> rfl, by cases tmp <;> simpa using hslot, rfl⟩
      refine hs.pushes [.req .arenaNew (a.reqs + 1) false 0, .req .arenaNew (a.reqs + 2) true 0, .free (a.reqs + 1)] rfl ?_
      simp [run, Led.step, led]
  · -- the record is refused
    have e : a.arenaCreate orc tmp = (false,
        { a with reqs := a.reqs + 1, trace := .req .arenaNew (a.reqs + 1) true 0 :: a.trace }) := by
      simp [ASt.arenaCreate, ASt.rawAlloc, ASt.request, h1]
    rw [e]
    refine ⟨?_, rfl, by cases tmp <;> rfl, by cases tmp <;> simpa using hslot, by simp⟩
    refine hs.pushes [.req .arenaNew (a.reqs + 1) true 0] rfl ?_
    simp [run, Led.step, led]

/-- `edn_arena_destroy` of the parser's arena while it exists -/
theorem arenaDestroy_parser (a : ASt) (hs : Sync a) (h : a.arena = .alive) :
    Sync (a.arenaDestroy false) ∧ (a.arenaDestroy false).live = a.live ∧
    (a.arenaDestroy false).arena = .destroyed ∧ (a.arenaDestroy false).tmp = a.tmp := by
  refine ⟨?_, rfl, rfl, rfl⟩
  refine hs.push (.destroy false) rfl ?_
  simp [Led.step, led, ASt.arenaDestroy, h, aliveN]

/-- `edn_arena_destroy` of the temporary arena while it exists -/
theorem arenaDestroy_tmp (a : ASt) (hs : Sync a) (h : a.tmp = .alive) :
    Sync (a.arenaDestroy true) ∧ (a.arenaDestroy true).live = a.live ∧
    (a.arenaDestroy true).tmp = .destroyed ∧ (a.arenaDestroy true).arena = a.arena := by
  refine ⟨?_, rfl, rfl, rfl⟩
  refine hs.push (.destroy true) rfl ?_
  simp [Led.step, led, ASt.arenaDestroy, h, aliveN]

/-- growth of the offsets array: requests on the temporary arena only -/
theorem lineGrowA_good (orc : Nat → Bool) (n count cap : Nat) (a : ASt) (h : a.tmp = .alive) :
    Good a (lineGrowA orc n count cap a).2 := by
  induction n generalizing count cap a with
  | zero => exact Good.refl a
  | succ n ih =>
    unfold lineGrowA
    split
    · have g := requestTmp_good orc a 0 h
      rcases hq : a.request orc .arenaTmp with ⟨ok, a1⟩
      rw [hq] at g
      cases ok
      · exact g
      · exact Good.trans g (ih _ _ a1 (g.tmp.trans h))
    · exact ih _ _ a h

/-- the error-position code: its temporary arena is created and destroyed again (or could not be
    created); nothing else changes -/
theorem lineIndexA_spec (orc : Nat → Bool) (input : Bytes) (a : ASt) (hs : Sync a) (ht : a.tmp = .none) :
    Sync (lineIndexA orc input a).2 ∧ (lineIndexA orc input a).2.live = a.live ∧
    (lineIndexA orc input a).2.arena = a.arena ∧
    ((lineIndexA orc input a).2.tmp = .none ∨ (lineIndexA orc input a).2.tmp = .destroyed) := by
  unfold lineIndexA
  obtain ⟨s1, l1, ar1, t1, _⟩ := arenaCreate_spec orc true a hs ht
  simp only [↓reduceIte] at ar1 t1
  rcases hq : a.arenaCreate orc true with ⟨okA, a1⟩
  rw [hq] at s1 l1 ar1 t1
  cases okA
  · exact ⟨s1, l1, ar1, Or.inl t1⟩
  · have t1 : a1.tmp = .alive := t1
    dsimp only
    simp only [Bool.not_true, Bool.false_eq_true, ↓reduceIte]
    have g2 := requestTmp_good orc a1 0 t1
    rcases hq2 : a1.request orc .arenaTmp with ⟨okP, a2⟩
    rw [hq2] at g2
    have t2 : a2.tmp = .alive := g2.tmp.trans t1
    have key : ∀ a4 : ASt, Good a2 a4 →
        Sync (a4.arenaDestroy true) ∧ (a4.arenaDestroy true).live = a.live ∧
        (a4.arenaDestroy true).arena = a.arena ∧
        ((a4.arenaDestroy true).tmp = .none ∨ (a4.arenaDestroy true).tmp = .destroyed) := by
      intro a4 g4
      have g := Good.trans g2 g4
      obtain ⟨s, l, t, ar⟩ := arenaDestroy_tmp a4 (g.sync s1) (g.tmp.trans t1)
      exact ⟨s, l.trans (g.live.trans l1), ar.trans (g.arena.trans ar1), Or.inr t⟩
    cases okP
    · exact key a2 (Good.refl a2)
    · dsimp only
      simp only [Bool.not_true, Bool.false_eq_true, ↓reduceIte]
      have g3 := requestTmp_good orc a2 0 t2
      rcases hq3 : a2.request orc .arenaTmp with ⟨okO, a3⟩
      rw [hq3] at g3
      cases okO
      · exact key a3 g3
      · dsimp only
        simp only [Bool.not_true, Bool.false_eq_true, ↓reduceIte]
        exact key _ (Good.trans g3 (lineGrowA_good orc _ _ _ a3 (g3.tmp.trans t2)))

end Edn.Proofs.AllocLedger
