/-
  Edn.Proofs.CljNumberSoundAux2 — the number reader with the Clojure flag: payload facts and
  the stages of `edn_read_number` (radix test, zero path, non-zero path) as separate functions.
-/
import Edn.Spec.CljNumLit
import Edn.Proofs.NumberReader
import Edn.Proofs.CljNumberSoundAux1

namespace Edn.Proofs.CljN
open Edn.Model Edn.Spec Edn.Proofs Edn.Proofs.CNum

/-! ## payloads -/

theorem digRun_valid {exp : Bool} {radix : Nat} {ds : Bytes} (h : DigRun exp (isRadixDigit radix) ds) :
    (∀ c ∈ ds, (digitValue c radix).isSome = true ∨ (exp = true ∧ c = 0x5F)) ∧
      ∃ c ∈ ds, (digitValue c radix).isSome = true := by
  obtain ⟨d, t, rfl, hd, ht⟩ := h
  refine ⟨?_, d, by simp, hd⟩
  intro c hc
  rcases List.mem_cons.mp hc with rfl | hc
  · exact Or.inl hd
  · exact ht c hc

theorem parseInt64_run (cfg : Cfg) (radix : Nat) (hr : 2 ≤ radix ∧ radix ≤ 36) (ds : Bytes) (neg : Bool)
    (h : DigRun cfg.exp (isRadixDigit radix) ds) :
    parseInt64 cfg ds radix neg = inRange neg (radixNat radix ds) := by
  obtain ⟨hv, hne⟩ := digRun_valid h
  rw [parseInt64_spec cfg radix hr ds neg hv hne]
  rfl

theorem intOrBig_run (cfg : Cfg) (radix : Nat) (hr : 2 ≤ radix ∧ radix ≤ 36) (ds : Bytes) (neg : Bool)
    (h : DigRun cfg.exp (isRadixDigit radix) ds) :
    intOrBig cfg ds radix neg = intPayload neg radix ds := by
  unfold intOrBig
  rw [parseInt64_run cfg radix hr ds neg h]
  unfold inRange intPayload
  cases neg <;> simp only [Bool.false_eq_true, ↓reduceIte]
  · by_cases h : radixNat radix ds ≤ 9223372036854775807 <;> simp only [h, ↓reduceIte]
  · by_cases h : radixNat radix ds ≤ 9223372036854775808 <;> simp only [h, ↓reduceIte]

theorem digRun_ten {exp : Bool} {ds : Bytes} (h : DigRun exp is09 ds) : DigRun exp (isRadixDigit 10) ds := by
  obtain ⟨d, t, rfl, hd, ht⟩ := h
  refine ⟨d, t, rfl, by rw [isRadixDigit_ten]; exact hd, ?_⟩
  intro c hc
  rcases ht c hc with h | h
  · exact Or.inl (by rw [isRadixDigit_ten]; exact h)
  · exact Or.inr h

theorem zeroRun_all09 {zs : Bytes} (h : ZeroRun zs) : ∀ c ∈ zs, is09 c = true := by
  intro c hc
  rw [h.2 c hc]
  decide

theorem zeroRun_noU {zs : Bytes} (h : ZeroRun zs) : (0x5F : UInt8) ∉ zs := by
  intro hm
  exact absurd (h.2 _ hm) (by decide)

theorem zeroRun_cons {zs : Bytes} (h : ZeroRun zs) : ∃ t, zs = 0x30 :: t ∧ ∀ c ∈ t, c = 0x30 := by
  obtain ⟨hne, hall⟩ := h
  cases zs with
  | nil => exact absurd rfl hne
  | cons z t =>
    have : z = 0x30 := hall z (by simp)
    subst this
    exact ⟨t, rfl, fun c hc => hall c (by simp [hc])⟩

theorem radixNat_zeros (zs : Bytes) (h : ∀ c ∈ zs, c = 0x30) : radixNat 10 zs = 0 := by
  unfold radixNat
  have hf : zs.filter (· != 0x5F) = zs := by
    rw [List.filter_eq_self]
    intro c hc
    rw [h c hc]
    decide
  rw [hf]
  suffices hh : ∀ zs : Bytes, (∀ c ∈ zs, c = 0x30) →
      List.foldl (fun a c => a * 10 + (digitValue c 10).getD 0) 0 zs = 0 from hh zs h
  intro zs
  induction zs with
  | nil => intro _; rfl
  | cons z t ih =>
    intro h
    have : z = 0x30 := h z (by simp)
    subst this
    simp only [List.foldl_cons]
    have e : (0 : Nat) * 10 + (digitValue 0x30 10).getD 0 = 0 := by decide
    rw [e]
    exact ih (fun c hc => h c (by simp [hc]))

theorem intPayload_zeros (neg : Bool) (zs : Bytes) (h : ZeroRun zs) : intPayload neg 10 zs = .int 0 := by
  unfold intPayload
  rw [radixNat_zeros zs h.2]
  cases neg <;> rfl

theorem zeroNorm_zeros {zs : Bytes} (h : ZeroRun zs) : zeroNorm zs = [0x30] := by
  unfold zeroNorm
  have : zs.all (· == 0x30) = true := by
    rw [List.all_eq_true]
    intro c hc
    simp [h.2 c hc]
  simp only [this, ↓reduceIte]

theorem zeroNorm_of_mem {t : Bytes} {c : UInt8} (hc : c ∈ t) (h0 : c ≠ 0x30) : zeroNorm t = t := by
  unfold zeroNorm
  have : t.all (· == 0x30) = false := by
    cases h : t.all (· == 0x30)
    · rfl
    · rw [List.all_eq_true] at h
      have := h c hc
      simp only [beq_iff_eq] at this
      exact absurd this h0
  simp only [this, Bool.false_eq_true, ↓reduceIte]

/-! ## parts of tokens never contain certain bytes -/

theorem nzRun_cons {exp : Bool} {ip : Bytes} (h : NzRun exp ip) :
    ∃ d t, ip = d :: t ∧ is09 d = true ∧ d ≠ 0x30 ∧ URun exp is09 t := by
  obtain ⟨⟨d, t, rfl, hd, ht⟩, h0, -⟩ := h
  refine ⟨d, t, rfl, hd, ?_, ht⟩
  intro e
  apply h0
  simp [e]

theorem nzRun_uRun {exp : Bool} {ip : Bytes} (h : NzRun exp ip) : URun exp is09 ip := by
  obtain ⟨d, t, rfl, hd, -, ht⟩ := nzRun_cons h
  exact uRun_cons (Or.inl hd) ht

theorem cljInt_peek {exp : Bool} {ip : Bytes} (h : CljInt exp ip) (X : Bytes) : is09 (peek (ip ++ X)) = true := by
  rcases h with h | h
  · obtain ⟨t, rfl, -⟩ := zeroRun_cons h
    rfl
  · obtain ⟨d, t, rfl, hd, -, -⟩ := nzRun_cons h
    exact hd

theorem cljInt_noTrail {exp : Bool} {ip : Bytes} (h : CljInt exp ip) : NoTrailU ip := by
  rcases h with h | h
  · exact noTrailU_of_not_mem (zeroRun_noU h)
  · exact h.2.2

theorem cljInt_ne {exp : Bool} {ip : Bytes} (h : CljInt exp ip) : ip ≠ [] := by
  rcases h with h | h
  · exact h.1
  · obtain ⟨d, t, rfl, -⟩ := nzRun_cons h
    simp

/-! ## the stages of `numBody` -/

/-- the radix-form test and everything behind it -/
def radixPart (cfg : Cfg) (neg : Bool) (s : Bytes) : Option NumOut :=
  let c := peek s
  if cfg.clj && is09 c then
    let rpos := s.dropWhile is09
    match rpos with
    | r :: rrest =>
      if r == 0x72 || r == 0x52 then
        let rv := radixPrefixValue 0 (slice s rpos)
        if 2 ≤ rv && rv ≤ 36 then
          let ds := rrest
          if !(digitValue (peek ds) rv).isSome then some (.err ds)
          else match radixDigitsLoop cfg.exp rv true (ds.length + 1) ds with
            | .error cur => some (.err cur)
            | .ok s' => some (radixTail cfg neg rv false ds s')
        else some (.err s)
      else none
    | [] => none
  else none

/-- the tail of the zero path: after the zeros, no hexadecimal or octal form -/
def zeroRest (cfg : Cfg) (s0 : Bytes) (neg : Bool) (digitsStart s2 : Bytes) : NumOut :=
  let c2 := peek s2
  if c2 == 0x2E then decimalPart cfg s0 neg digitsStart s2
  else if c2 == 0x4E then finishNum (.bigint neg 10 [0x30]) (adv s2)
  else if c2 == 0x4D then finishNum (.bigdec neg [0x30]) (adv s2)
  else if c2 == 0x65 || c2 == 0x45 then exponentPart cfg s0 neg false digitsStart s2
  else if cfg.clj && c2 == 0x2F then
    match ratioDenominator (adv s2) with
    | .error cur => .err cur
    | .ok s' => .ok (.int 0) s'
  else finishNum (.int 0) s2

/-- the zero path -/
def zeroPart (cfg : Cfg) (s0 : Bytes) (neg : Bool) (s : Bytes) : NumOut :=
  let digitsStart := s
  let s1 := adv s
  let c1 := peek s1
  let cljBranch : Option NumOut × Bytes :=
    if cfg.clj then
      let s2 := s1.dropWhile (· == 0x30)
      let c2 := peek s2
      if c2 == 0x78 || c2 == 0x58 then
        let ds := adv s2
        if !(digitValue (peek ds) 16).isSome then (some (.err ds), s2)
        else match radixDigitsLoop cfg.exp 16 false (ds.length + 1) ds with
          | .error cur => (some (.err cur), s2)
          | .ok s' => (some (radixTail cfg neg 16 true ds s'), s2)
      else if 0x31 ≤ c2 && c2 ≤ 0x37 then
        match radixDigitsLoop cfg.exp 8 false (s2.length + 1) s2 with
        | .error cur => (some (.err cur), s2)
        | .ok s' => (some (radixTail cfg neg 8 true digitsStart s'), s2)
      else if c2 == 0x38 || c2 == 0x39 then (some (.err s2), s2)
      else (none, s2)
    else
      if is09 c1 then (some (.err s1), s1) else (none, s1)
  match cljBranch with
  | (some r, _) => r
  | (none, s2) => zeroRest cfg s0 neg digitsStart s2

/-- after the integer part -/
def afterIp (cfg : Cfg) (s0 : Bytes) (neg : Bool) (digitsStart s1 : Bytes) : NumOut :=
  if peek s1 == 0x2E then decimalPart cfg s0 neg digitsStart s1
  else afterMantissa cfg s0 neg false digitsStart s1

/-- the non-zero path -/
def nonzeroPart (cfg : Cfg) (s0 : Bytes) (neg : Bool) (s : Bytes) : NumOut :=
  match decDigitsLoop cfg.exp (s.length + 1) s with
  | .error cur => .err cur
  | .ok s1 => afterIp cfg s0 neg s s1

theorem numBody_stages (cfg : Cfg) (s0 : Bytes) (neg : Bool) (s : Bytes) :
    numBody cfg s0 neg s =
      match radixPart cfg neg s with
      | some r => r
      | none => if peek s == 0x30 then zeroPart cfg s0 neg s else nonzeroPart cfg s0 neg s := rfl

/-! ## stage equations with the Clojure flag -/

/-- digit loop followed by the suffix handling of the radix / hex / octal forms -/
def loopTail (cfg : Cfg) (neg : Bool) (radix : Nat) (strict allowN : Bool) (dS ds : Bytes) : NumOut :=
  match radixDigitsLoop cfg.exp radix strict (ds.length + 1) ds with
  | .error cur => .err cur
  | .ok s' => radixTail cfg neg radix allowN dS s'

theorem radixPart_none (cfg : Cfg) (neg : Bool) (rp X : Bytes) (hall : AllDigits rp)
    (hX : is09 (peek X) = false) (hXr : (peek X == 0x72 || peek X == 0x52) = false) :
    radixPart cfg neg (rp ++ X) = none := by
  have hdw : (rp ++ X).dropWhile is09 = X := dropWhile_digits X hX rp hall
  unfold radixPart
  simp only [hdw]
  cases X with
  | nil => simp
  | cons r t =>
    have : (r == 0x72 || r == 0x52) = false := hXr
    simp [this]

theorem radixPart_some (cfg : Cfg) (hc : cfg.clj = true) (neg : Bool) (rp : Bytes) (r : UInt8) (Y : Bytes)
    (hne : rp ≠ []) (hall : AllDigits rp) (hr : r = 0x72 ∨ r = 0x52) :
    radixPart cfg neg (rp ++ r :: Y) = some (
      if 2 ≤ radixPrefixValue 0 rp ∧ radixPrefixValue 0 rp ≤ 36 then
        (if (digitValue (peek Y) (radixPrefixValue 0 rp)).isSome then
          loopTail cfg neg (radixPrefixValue 0 rp) true false Y Y
         else .err Y)
      else .err (rp ++ r :: Y)) := by
  have hr1 : is09 r = false := by rcases hr with rfl | rfl <;> decide
  have hr2 : (r == 0x72 || r == 0x52) = true := by rcases hr with rfl | rfl <;> decide
  have hpk : is09 (peek (rp ++ r :: Y)) = true := by
    cases rp with
    | nil => exact absurd rfl hne
    | cons d t => exact hall d (by simp)
  have hdw : (rp ++ r :: Y).dropWhile is09 = r :: Y := dropWhile_digits (r :: Y) hr1 rp hall
  have hsl : slice (rp ++ r :: Y) (r :: Y) = rp := slice_append _ _
  unfold radixPart loopTail
  simp only [hc, hpk, Bool.and_self, ↓reduceIte, hdw, hr2, hsl]
  by_cases hrange : 2 ≤ radixPrefixValue 0 rp ∧ radixPrefixValue 0 rp ≤ 36
  · have hb : (decide (2 ≤ radixPrefixValue 0 rp) && decide (radixPrefixValue 0 rp ≤ 36)) = true := by
      simp [hrange.1, hrange.2]
    simp only [hrange, and_self, ↓reduceIte]
    cases hdg : (digitValue (peek Y) (radixPrefixValue 0 rp)).isSome
    · simp
    · simp only [Bool.not_true, Bool.false_eq_true, ↓reduceIte]
      cases radixDigitsLoop cfg.exp (radixPrefixValue 0 rp) true (Y.length + 1) Y <;> rfl
  · have hb : (decide (2 ≤ radixPrefixValue 0 rp) && decide (radixPrefixValue 0 rp ≤ 36)) = false := by
      cases h : (decide (2 ≤ radixPrefixValue 0 rp) && decide (radixPrefixValue 0 rp ≤ 36))
      · rfl
      · simp only [Bool.and_eq_true, decide_eq_true_eq] at h
        exact absurd h hrange
    simp only [hb, hrange, Bool.false_eq_true, ↓reduceIte]

/-- the saturating prefix value is the value of the prefix whenever either is at most 36 -/
theorem radixPrefixValue_sat (ds : Bytes) : ∀ v : Nat, 36 < v → radixPrefixValue v ds = v := by
  induction ds with
  | nil => intro v _; rfl
  | cons d ds ih =>
    intro v hv
    unfold radixPrefixValue
    have : ¬ v ≤ 36 := by omega
    simp only [this, ↓reduceIte]
    exact ih v hv

theorem radixPrefixValue_le (ds : Bytes) :
    ∀ v : Nat, radixPrefixValue v ds ≤ 36 →
      radixPrefixValue v ds = ds.foldl (fun a c => a * 10 + (c.toNat - 48)) v := by
  induction ds with
  | nil => intro v _; rfl
  | cons d ds ih =>
    intro v h
    by_cases hv : v ≤ 36
    · unfold radixPrefixValue at h ⊢
      simp only [hv, ↓reduceIte, List.foldl_cons] at h ⊢
      exact ih _ h
    · exfalso
      rw [radixPrefixValue_sat _ v (by omega)] at h
      exact hv h

theorem radixPrefix_of_range {rp : Bytes}
    (h : 2 ≤ radixPrefixValue 0 rp ∧ radixPrefixValue 0 rp ≤ 36) : radixPrefixValue 0 rp = natOfDigits rp :=
  radixPrefixValue_le rp 0 h.2

theorem radixPrefix_of_nat {rp : Bytes} (h : natOfDigits rp ≤ 36) : radixPrefixValue 0 rp = natOfDigits rp :=
  NRd.radixPrefixValue_eq rp 0 h

theorem zeroPart_eq (cfg : Cfg) (hc : cfg.clj = true) (s0 : Bytes) (neg : Bool) (zs X : Bytes) (hz : ZeroRun zs)
    (hX : (peek X == 0x30) = false) :
    zeroPart cfg s0 neg (zs ++ X) =
      if peek X == 0x78 || peek X == 0x58 then
        (if (digitValue (peek (adv X)) 16).isSome then loopTail cfg neg 16 false true (adv X) (adv X)
         else .err (adv X))
      else if 0x31 ≤ peek X && peek X ≤ 0x37 then loopTail cfg neg 8 false true (zs ++ X) X
      else if peek X == 0x38 || peek X == 0x39 then .err X
      else zeroRest cfg s0 neg (zs ++ X) X := by
  obtain ⟨t, rfl, ht⟩ := zeroRun_cons hz
  have hadv : adv (0x30 :: t ++ X) = t ++ X := rfl
  have hdz : (t ++ X).dropWhile (· == 0x30) = X := NRd.dropWhile_zeros X hX t ht
  unfold zeroPart loopTail
  simp only [hc, ↓reduceIte, hadv, hdz]
  by_cases h1 : (peek X == 0x78 || peek X == 0x58) = true
  · simp only [h1, ↓reduceIte]
    cases hdg : (digitValue (peek (adv X)) 16).isSome
    · simp
    · simp only [Bool.not_true, Bool.false_eq_true, ↓reduceIte]
      cases radixDigitsLoop cfg.exp 16 false ((adv X).length + 1) (adv X) <;> rfl
  · simp only [h1, Bool.false_eq_true, ↓reduceIte]
    by_cases h2 : (decide (0x31 ≤ peek X) && decide (peek X ≤ 0x37)) = true
    · simp only [h2, ↓reduceIte]
      cases radixDigitsLoop cfg.exp 8 false (X.length + 1) X <;> rfl
    · simp only [h2, Bool.false_eq_true, ↓reduceIte]
      by_cases h3 : (peek X == 0x38 || peek X == 0x39) = true
      · simp only [h3, ↓reduceIte]
      · simp only [h3, Bool.false_eq_true, ↓reduceIte]

theorem nonzeroPart_eq (cfg : Cfg) (s0 : Bytes) (neg : Bool) (s X : Bytes)
    (h : decDigitsLoop cfg.exp (s.length + 1) s = .ok X) :
    nonzeroPart cfg s0 neg s = afterIp cfg s0 neg s X := by
  unfold nonzeroPart
  rw [h]

/-! ## the suffix of radix / hex / octal literals -/

/-- what `radixTail` makes of the digits, before the 64-bit conversion is rewritten -/
def radixOut (cfg : Cfg) (suf : NumSuffix) (neg : Bool) (radix : Nat) (digits : Bytes) : NumVal :=
  match suf with
  | .none => intOrBig cfg digits radix neg
  | .N => .bigint neg radix digits
  | .M => .bigdec neg digits

theorem radixOut_run (cfg : Cfg) (suf : NumSuffix) (neg : Bool) (radix : Nat) (hr : 2 ≤ radix ∧ radix ≤ 36)
    (ds : Bytes) (h : DigRun cfg.exp (isRadixDigit radix) ds) :
    radixOut cfg suf neg radix ds = radixPayload suf neg radix ds := by
  cases suf
  · exact intOrBig_run cfg radix hr ds neg h
  · rfl
  · rfl

theorem ite_err_ok {c : Prop} [Decidable c] {x : Bytes} {y : NumOut} {v : NumVal} {r : Bytes}
    (h : (if c then NumOut.err x else y) = .ok v r) : y = .ok v r := by
  by_cases hc : c
  · rw [if_pos hc] at h
    exact NumOut.noConfusion h
  · rw [if_neg hc] at h
    exact h

theorem radixTail_inv (cfg : Cfg) (neg : Bool) (radix : Nat) (allowN : Bool) (digits T : Bytes) (v : NumVal)
    (rest : Bytes) (h : radixTail cfg neg radix allowN (digits ++ T) T = .ok v rest) :
    ∃ suf : NumSuffix, T = suf.bytes ++ rest ∧ TermStart rest ∧ (suf = .N → allowN = true) ∧
      v = radixOut cfg suf neg radix digits := by
  unfold radixTail at h
  rw [slice_append] at h
  by_cases hN : (allowN && peek T == 0x4E) = true
  · simp only [hN, ↓reduceIte] at h
    simp only [Bool.and_eq_true, beq_iff_eq] at hN
    obtain ⟨t, rfl⟩ := NSnd.of_peek hN.2 (by decide)
    have h := ite_err_ok h
    obtain ⟨rfl, rfl, ht⟩ := NSnd.finishNum_ok h
    exact ⟨.N, rfl, ht, fun _ => hN.1, rfl⟩
  · simp only [hN, Bool.false_eq_true, ↓reduceIte] at h
    by_cases hM : (peek T == 0x4D) = true
    · simp only [hM, ↓reduceIte] at h
      simp only [beq_iff_eq] at hM
      obtain ⟨t, rfl⟩ := NSnd.of_peek hM (by decide)
      have h := ite_err_ok h
      obtain ⟨rfl, rfl, ht⟩ := NSnd.finishNum_ok h
      exact ⟨.M, rfl, ht, fun h => NumSuffix.noConfusion h, rfl⟩
    · simp only [hM, Bool.false_eq_true, ↓reduceIte] at h
      have h := ite_err_ok h
      obtain ⟨rfl, rfl, ht⟩ := NSnd.finishNum_ok h
      exact ⟨.none, rfl, ht, fun h => NumSuffix.noConfusion h, rfl⟩

theorem radixTail_fwd (cfg : Cfg) (neg : Bool) (radix : Nat) (allowN : Bool) (digits rest : Bytes)
    (suf : NumSuffix) (ht : TermStart rest) (hs : suf = .N → allowN = true) :
    radixTail cfg neg radix allowN (digits ++ (suf.bytes ++ rest)) (suf.bytes ++ rest) =
      .ok (radixOut cfg suf neg radix digits) rest := by
  have hst := term_props (peek_term ht)
  have h2 := stopProps2_unpack hst
  unfold radixTail
  rw [slice_append]
  cases suf with
  | none =>
    simp only [NumSuffix.bytes, List.nil_append, h2.2.1, h2.2.2.1, h2.2.2.2, Bool.and_false,
      Bool.false_eq_true, ↓reduceIte, ite_self, radixOut]
    exact finishNum_term _ ht
  | N =>
    have hN := hs rfl
    have hpk : peek ([0x4E] ++ rest) = 0x4E := rfl
    have hadv : adv ([0x4E] ++ rest) = rest := rfl
    simp only [NumSuffix.bytes, hN, hpk, hadv, BEq.rfl, Bool.and_self, ↓reduceIte, h2.2.2.2,
      Bool.false_eq_true, radixOut]
    exact finishNum_term _ ht
  | M =>
    have hpk : peek ([0x4D] ++ rest) = 0x4D := rfl
    have hadv : adv ([0x4D] ++ rest) = rest := rfl
    have e1 : ((0x4D : UInt8) == 0x4E) = false := by decide
    have e2 : ((0x4D : UInt8) == 0x2F) = false := by decide
    have e3 : ((if allowN = true then peek rest else 0x4D) == 0x2F) = false := by
      cases allowN
      · exact e2
      · exact h2.2.2.2
    simp only [NumSuffix.bytes, hpk, hadv, e1, BEq.rfl, Bool.and_false, ↓reduceIte, e3,
      Bool.false_eq_true, radixOut]
    exact finishNum_term _ ht

/-- inversion of the loop + suffix stage; `pre` are digit bytes in front of the run that belong
    to the digit text (the zeros of an octal literal) -/
theorem loopTail_inv (cfg : Cfg) (neg : Bool) (radix : Nat) (hr : radix ≤ 36) (strict allowN : Bool)
    (pre ds : Bytes) (v : NumVal) (rest : Bytes)
    (h : loopTail cfg neg radix strict allowN (pre ++ ds) ds = .ok v rest) :
    ∃ (run : Bytes) (suf : NumSuffix), ds = run ++ (suf.bytes ++ rest) ∧ URun cfg.exp (isRadixDigit radix) run ∧
      (strict = true → NoTrailU run) ∧ TermStart rest ∧ (suf = .N → allowN = true) ∧
      (suf = .M → isRadixDigit radix 0x4D = false) ∧
      isRadixDigit radix (peek (suf.bytes ++ rest)) = false ∧
      v = radixOut cfg suf neg radix (pre ++ run) := by
  unfold loopTail at h
  rcases radixLoop_split cfg.exp radix strict hr ds (ds.length + 1) (Nat.le_refl _) with
    ⟨cur, he⟩ | ⟨run, T, rfl, hrun, hnt, hT, -, hl⟩
  · rw [he] at h
    exact NumOut.noConfusion h
  · rw [hl] at h
    have h' : radixTail cfg neg radix allowN ((pre ++ run) ++ T) T = .ok v rest := by
      rw [List.append_assoc]
      exact h
    obtain ⟨suf, rfl, ht, hs, hv⟩ := radixTail_inv cfg neg radix allowN (pre ++ run) T v rest h'
    refine ⟨run, suf, rfl, hrun, hnt, ht, hs, ?_, hT, hv⟩
    intro hm
    subst hm
    exact hT

theorem loopTail_fwd (cfg : Cfg) (neg : Bool) (radix : Nat) (hr : radix ≤ 36) (strict allowN : Bool)
    (pre run rest : Bytes) (suf : NumSuffix) (hrun : URun cfg.exp (isRadixDigit radix) run)
    (hnt : strict = true → NoTrailU run) (ht : TermStart rest) (hs : suf = .N → allowN = true)
    (hm : suf = .M → isRadixDigit radix 0x4D = false) (hn : suf = .N → isRadixDigit radix 0x4E = false) :
    loopTail cfg neg radix strict allowN (pre ++ (run ++ (suf.bytes ++ rest))) (run ++ (suf.bytes ++ rest)) =
      .ok (radixOut cfg suf neg radix (pre ++ run)) rest := by
  have hstop : isRadixDigit radix (peek (suf.bytes ++ rest)) = false ∧
      (peek (suf.bytes ++ rest) == 0x5F) = false := by
    cases suf with
    | none =>
      have hd := delim_props (c := peek rest) (by
        rcases peek_term ht with h | h
        · exact Or.inl h
        · right
          have := numTerm_isDelim (peek rest)
          simpa [numTermIsDelim, h] using this)
      exact ⟨not_radix_of_not36 hr hd.1, by simpa [NumSuffix.bytes] using hd.2.2.1⟩
    | N => exact ⟨hn rfl, rfl⟩
    | M => exact ⟨hm rfl, rfl⟩
  unfold loopTail
  rw [radixLoop_run cfg.exp radix strict hr _ hstop.1 (fun _ => hstop.2) run _ hrun hnt (by simp)]
  have := radixTail_fwd cfg neg radix allowN (pre ++ run) rest suf ht hs
  rw [List.append_assoc] at this
  exact this

end Edn.Proofs.CljN
