/-
  Edn.Proofs.ReReadAux9 — "re-readable" values: every value in the tree that has a source
  range is read again, at top level, from the bytes of that range.  Vocabulary, the closure
  properties of the predicate under the value-rewriting steps of the reader, and the
  statement for a value the reader has just returned.
-/
import Edn.Proofs.ReReadAux6
import Edn.Proofs.ReReadAux7
import Edn.Proofs.ReReadAux8

namespace Edn.Proofs
open Edn.Model Edn.Spec
open Edn.Generated

/-! ## sub-values -/

/-- immediate operands, metadata included -/
def kidsOf (v : Val) : List Val := children v ++ v.md.toList

theorem subVal_of_kid {w c v : Val} (hc : c ∈ kidsOf v) (h : SubVal w c) : SubVal w v := by
  simp only [kidsOf, List.mem_append, Option.mem_toList] at hc
  rcases hc with hc | hc
  · cases v <;> simp only [children, List.not_mem_nil] at hc
    case list hh md xs => exact SubVal.list w hh md xs c hc h
    case vec hh md xs => exact SubVal.vec w hh md xs c hc h
    case set hh md xs => exact SubVal.set w hh md xs c hc h
    case map hh md ks vs =>
      rcases List.mem_append.1 hc with hc | hc
      · exact SubVal.mapKey w hh md ks vs c hc h
      · exact SubVal.mapVal w hh md ks vs c hc h
    case tagged hh md tg x =>
      simp only [List.mem_cons, List.not_mem_nil, or_false] at hc
      subst hc
      exact SubVal.tagged w hh md tg c h
  · exact SubVal.mdata w v c hc h

theorem subVal_cases_kid {w v : Val} (h : SubVal w v) : w = v ∨ ∃ c ∈ kidsOf v, SubVal w c := by
  cases h with
  | refl => exact Or.inl rfl
  | list hh md xs x hx hs => exact Or.inr ⟨x, by simp [kidsOf, children, hx], hs⟩
  | vec hh md xs x hx hs => exact Or.inr ⟨x, by simp [kidsOf, children, hx], hs⟩
  | set hh md xs x hx hs => exact Or.inr ⟨x, by simp [kidsOf, children, hx], hs⟩
  | mapKey hh md ks vs x hx hs => exact Or.inr ⟨x, by simp [kidsOf, children, hx], hs⟩
  | mapVal hh md ks vs x hx hs => exact Or.inr ⟨x, by simp [kidsOf, children, hx], hs⟩
  | tagged hh md tg x hs => exact Or.inr ⟨x, by simp [kidsOf, children], hs⟩
  | mdata _ m hm hs => exact Or.inr ⟨m, by simp [kidsOf, hm], hs⟩

/-! ## the predicate -/

/-- `w` (if it has a source range) is read again from the bytes of its range -/
def RR (ctx : Ctx) (inp : Bytes) (w : Val) : Prop :=
  w.hdr.synth = false → ∃ f w', readValue ctx f 0 false { rest := sliceOf inp w.hdr, calls := [] }
      = .ok w' { rest := [], calls := [] } ∧ eraseCache (shiftV w.hdr.e w') = eraseCache w

/-- hereditarily -/
def HRR (ctx : Ctx) (inp : Bytes) (v : Val) : Prop := ∀ w, SubVal w v → RR ctx inp w

def HRRL (ctx : Ctx) (inp : Bytes) (xs : List Val) : Prop := ∀ x ∈ xs, HRR ctx inp x

/-- all immediate operands are hereditarily re-readable -/
def HK (ctx : Ctx) (inp : Bytes) (v : Val) : Prop := HRRL ctx inp (kidsOf v)

theorem HRR.intro {ctx : Ctx} {inp : Bytes} {v : Val} (h0 : RR ctx inp v) (hk : HK ctx inp v) : HRR ctx inp v := by
  intro w hw
  rcases subVal_cases_kid hw with rfl | ⟨c, hc, hs⟩
  · exact h0
  · exact hk c hc w hs

theorem HRR.kids {ctx : Ctx} {inp : Bytes} {v : Val} (h : HRR ctx inp v) : HK ctx inp v :=
  fun _ hc w hw => h w (subVal_of_kid hc hw)

theorem HRR.of_synth_leaf {ctx : Ctx} {inp : Bytes} {v : Val} (hs : v.hdr.synth = true) (hk : kidsOf v = []) :
    HRR ctx inp v := by
  apply HRR.intro
  · intro h; rw [hs] at h; cases h
  · intro c hc; rw [hk] at hc; cases hc

theorem HRR.of_synth {ctx : Ctx} {inp : Bytes} {v : Val} (hs : v.hdr.synth = true) (hk : HK ctx inp v) :
    HRR ctx inp v := by
  apply HRR.intro _ hk
  intro h; rw [hs] at h; cases h

theorem HK.of_nil {ctx : Ctx} {inp : Bytes} {v : Val} (hk : kidsOf v = []) : HK ctx inp v := by
  intro c hc; rw [hk] at hc; cases hc

/-! ## cache cells do not matter -/

theorem eraseCache_setHc (x : Val) (c : UInt64) : eraseCache (x.setHdr { x.hdr with hc := c }) = eraseCache x := by
  cases x <;> simp [eraseCache, Val.setHdr, Val.hdr]

theorem kidsOf_setHdr (x : Val) (h : Hdr) : kidsOf (x.setHdr h) = kidsOf x := by
  cases x <;> rfl

theorem HRR.setHc {ctx : Ctx} {inp : Bytes} {x : Val} (h : HRR ctx inp x) (c : UInt64) :
    HRR ctx inp (x.setHdr { x.hdr with hc := c }) := by
  apply HRR.intro
  · intro hs
    rw [hdr_setHdr] at hs
    obtain ⟨f, w', h1, h2⟩ := h x (SubVal.refl x) hs
    refine ⟨f, w', ?_, ?_⟩
    · rw [hdr_setHdr]; exact h1
    · rw [hdr_setHdr, eraseCache_setHc]; exact h2
  · unfold HK; rw [kidsOf_setHdr]; exact h.kids

theorem hasDuplicates_mem (cfg : Cfg) (xs : List Val) (y : Val) (hy : y ∈ (hasDuplicates cfg xs).2) :
    ∃ x ∈ xs, y = x ∨ ∃ c, y = x.setHdr { x.hdr with hc := c } := by
  unfold hasDuplicates at hy
  split at hy
  · exact ⟨y, hy, Or.inl rfl⟩
  · split at hy
    · exact ⟨y, hy, Or.inl rfl⟩
    · simp only [List.mem_map] at hy
      obtain ⟨x, hx, rfl⟩ := hy
      refine ⟨x, hx, ?_⟩
      unfold hashOp
      simp only []
      split
      · exact Or.inl rfl
      · exact Or.inr ⟨_, rfl⟩

theorem HRRL.hasDuplicates {ctx : Ctx} {inp : Bytes} {xs : List Val} (h : HRRL ctx inp xs) :
    HRRL ctx inp (hasDuplicates ctx.cfg xs).2 := by
  intro y hy
  obtain ⟨x, hx, h1 | ⟨c, h1⟩⟩ := hasDuplicates_mem _ _ _ hy
  · rw [h1]; exact h x hx
  · rw [h1]; exact (h x hx).setHc c

theorem HRRL.reverse {ctx : Ctx} {inp : Bytes} {xs : List Val} (h : HRRL ctx inp xs) : HRRL ctx inp xs.reverse :=
  fun x hx => h x (List.mem_reverse.1 hx)

theorem HRRL.cons {ctx : Ctx} {inp : Bytes} {x : Val} {xs : List Val} (hx : HRR ctx inp x) (h : HRRL ctx inp xs) :
    HRRL ctx inp (x :: xs) := by
  intro y hy
  rcases List.mem_cons.1 hy with rfl | hy
  · exact hx
  · exact h y hy

theorem HRRL.nil {ctx : Ctx} {inp : Bytes} : HRRL ctx inp [] := fun _ h => by cases h

theorem HRRL.append {ctx : Ctx} {inp : Bytes} {xs ys : List Val} (hx : HRRL ctx inp xs) (hy : HRRL ctx inp ys) :
    HRRL ctx inp (xs ++ ys) := by
  intro y h
  rcases List.mem_append.1 h with h | h
  · exact hx y h
  · exact hy y h

/-! ## the value-rewriting steps -/

theorem HRR.qualifyKey {ctx : Ctx} {inp : Bytes} {k : Val} (n : Bytes) (h : HRR ctx inp k) :
    HRR ctx inp (qualifyKey n k) := by
  unfold Edn.Model.qualifyKey
  split
  · split
    · exact HRR.of_synth_leaf rfl rfl
    · split
      · exact HRR.of_synth_leaf rfl rfl
      · exact h
  · split
    · exact HRR.of_synth_leaf rfl rfl
    · split
      · exact HRR.of_synth_leaf rfl rfl
      · exact h
  · exact h

theorem HRR.qkey {ctx : Ctx} {inp : Bytes} {k : Val} (ns : Option Bytes) (h : HRR ctx inp k) :
    HRR ctx inp (qkey ns k) := by
  cases ns with
  | none => exact h
  | some n => exact h.qualifyKey n

theorem metaEntries_hrr {ctx : Ctx} {inp : Bytes} {m : Val} {nks nvs : List Val} (h : HRR ctx inp m)
    (he : metaEntries m = some (nks, nvs)) : HRRL ctx inp nks ∧ HRRL ctx inp nvs := by
  have hsyn1 : HRR ctx inp (.bool synthHdr true) := HRR.of_synth_leaf rfl rfl
  have hsyn2 : ∀ nm, HRR ctx inp (.kw synthHdr none nm) := fun nm => HRR.of_synth_leaf rfl rfl
  cases m <;> simp only [metaEntries] at he <;> cases he
  case map =>
    have hk := h.kids
    exact ⟨fun x hx => hk x (by simp [kidsOf, children, hx]), fun x hx => hk x (by simp [kidsOf, children, hx])⟩
  case kw => exact ⟨HRRL.cons h HRRL.nil, HRRL.cons hsyn1 HRRL.nil⟩
  case vec => exact ⟨HRRL.cons (hsyn2 _) HRRL.nil, HRRL.cons h HRRL.nil⟩
  case str => exact ⟨HRRL.cons (hsyn2 _) HRRL.nil, HRRL.cons h HRRL.nil⟩
  case sym => exact ⟨HRRL.cons (hsyn2 _) HRRL.nil, HRRL.cons h HRRL.nil⟩

theorem kidsOf_setMd (x : Val) (m : Val) (ht : x.metaTarget = true) : kidsOf (x.setMd (some m)) = children x ++ [m] := by
  cases x <;> first | rfl | cases ht

theorem children_mem_kids {x c : Val} (h : c ∈ children x) : c ∈ kidsOf x := by
  simp [kidsOf, h]

/-- the value `readMeta` returns: its operands are those of the form plus the merged metadata map -/
theorem attachMeta_hk {ctx : Ctx} {inp : Bytes} {m form : Val} {nks nvs : List Val} {n : Nat} {st'' : St} (start : Nat)
    (hf : HRR ctx inp form) (hpost : OkPost n form st'') (hk : HRRL ctx inp nks) (hv : HRRL ctx inp nvs)
    (ht : form.metaTarget = true) :
    HK ctx inp ((attachMeta ctx.cfg m form nks nvs).setHdr { (attachMeta ctx.cfg m form nks nvs).hdr with s := start }) := by
  unfold HK
  rw [kidsOf_setHdr, attachMeta_eq, kidsOf_setMd _ _ ht]
  apply HRRL.append
  · exact fun c hc => hf.kids c (children_mem_kids hc)
  · apply HRRL.cons _ HRRL.nil
    unfold newMd
    split
    · rename_i mh mmd ks vs hmd
      obtain ⟨hsy, -⟩ := hpost.mdtop mh mmd ks vs hmd
      have hold : HRR ctx inp (.map mh mmd ks vs) := hf.kids _ (by simp [kidsOf, hmd])
      have hok := hold.kids
      obtain ⟨s1, s2, -⟩ := keepOld_sublist ctx.cfg nks ks vs
      apply HRR.of_synth (v := .map mh mmd _ _) hsy
      intro c hc
      simp only [kidsOf, children, Val.md, List.mem_append, Option.mem_toList] at hc
      rcases hc with ((hc | hc) | (hc | hc)) | hc
      · exact hk c hc
      · exact hok c (by simp [kidsOf, children, s1.subset hc])
      · exact hv c hc
      · exact hok c (by simp [kidsOf, children, s2.subset hc])
      · exact hok c (by simp [kidsOf, Val.md, hc])
    · apply HRR.of_synth (v := .map synthHdr none nks nvs) rfl
      intro c hc
      simp only [kidsOf, children, Val.md, Option.toList_none, List.append_nil, List.mem_append] at hc
      rcases hc with hc | hc
      · exact hk c hc
      · exact hv c hc

/-! ## a value the reader has just returned is read again from its own bytes -/

theorem sliceOf_eq (p t r : Bytes) (a : Nat) (ha : a ≤ t.length) (h : Hdr) (hs : h.s = a + r.length)
    (he : h.e = r.length) : sliceOf (p ++ (t ++ r)) h = t.drop (t.length - a) := by
  unfold sliceOf
  rw [hs, he]
  have e1 : (p ++ (t ++ r)).length - (a + r.length) = p.length + (t.length - a) := by
    simp only [List.length_append]; omega
  rw [e1, ← List.drop_drop, List.drop_left, List.drop_append_of_le_length (by omega)]
  have e2 : a + r.length - r.length = (t.drop (t.length - a)).length := by
    simp only [List.length_drop]; omega
  rw [e2, List.take_left' rfl]

theorem rr_self (ctx : Ctx) (hreg : ctx.opts.registry = none) (inp : Bytes) (f d : Nat) (dm : Bool) (st st' : St) (v : Val)
    (hsuf : st.rest <:+ inp) (hcl : st.calls = []) (h : readValue ctx f d dm st = .ok v st') : RR ctx inp v := by
  intro _
  obtain ⟨s, cl⟩ := st
  simp only [] at hsuf hcl
  subst hcl
  obtain ⟨hsuf', hcl'⟩ := readValue_rest_suffix ctx hreg f d dm _ _ _ h
  obtain ⟨r, cl'⟩ := st'
  simp only [] at hsuf' hcl'
  subst hcl'
  obtain ⟨t, rfl⟩ := hsuf'
  obtain ⟨p, rfl⟩ := hsuf
  obtain ⟨t', v', hst, hsmall, hshift⟩ := readValue_cut_gen ctx hreg f d dm t r [] v _ h (Nat.le_refl _)
  have ht' : t' = [] := by
    simp only [St.mk.injEq, and_true] at hst
    have := congrArg List.length hst
    simp only [List.length_append] at this
    exact List.eq_nil_of_length_eq_zero (by omega)
  subst ht'
  have h0 := readValue_depth_le ctx hreg f d 0 dm false _ _ _ (Nat.zero_le _) hsmall
  have hsk := readValue_skip_to_start ctx hreg
    (fun f d dm st st' v h => (readValue_rest_suffix ctx hreg f d dm st st' v h).1) f 0 false _ _ _ h0
  obtain ⟨-, hns, he, -, hs⟩ := readValue_ranges ctx hreg f 0 false _ _ _ h0
  simp only [List.length_nil] at he hs
  have hv : v.hdr = shiftHdr r.length v'.hdr := by rw [← hshift, hdr_shiftV]
  rw [shiftHdr_of_nsynth hns] at hv
  refine ⟨f, v', ?_, ?_⟩
  · rw [sliceOf_eq p t r v'.hdr.s hs v.hdr (by rw [hv]) (by rw [hv]; simp only [he, Nat.zero_add])]
    exact hsk
  · have : v.hdr.e = r.length := by rw [hv]; simp only [he, Nat.zero_add]
    rw [this, hshift]

end Edn.Proofs
