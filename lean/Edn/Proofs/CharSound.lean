/-
  Edn.Proofs.CharSound — character literals, exactly: `edn_read_character` accepts `\body`
  followed by the end of the input or a delimiter precisely when `body` is a spelling of
  the grammar `CharTokX` (Edn.Spec.CharLit) with a code point ≤ 0x10FFFF, and the value is
  that code point; every failure is `invalidCharacter` and leaves the state unchanged.
-/
import Edn.Proofs.CharSoundAux2

namespace Edn.Proofs
open Edn.Model Edn.Spec

/-! ### the single-byte table, spelled out -/

def validSingleSpec (cfg : Cfg) (c : UInt8) : Bool :=
  isValidSingleChar cfg c ==
    (c != 0x09 && c != 0x0A && c != 0x0D && c != 0x20 && !(cfg.clj && (c == 0x08 || c == 0x0C)))

theorem validSingleSpec_all (cfg : Cfg) : ∀ c, validSingleSpec cfg c = true := by
  obtain ⟨clj, exp⟩ := cfg
  cases clj <;> cases exp <;> exact forall_u8_bool _ (by decide +kernel)

/-- the single bytes allowed after the backslash: every byte except tab, line feed,
    carriage return and space, and with the Clojure flag except backspace and form feed
    (the experimental flag does not matter) -/
theorem validSingleChar_iff (cfg : Cfg) (c : UInt8) :
    isValidSingleChar cfg c = true ↔
      (c ≠ 0x09 ∧ c ≠ 0x0A ∧ c ≠ 0x0D ∧ c ≠ 0x20 ∧ (cfg.clj = true → c ≠ 0x08 ∧ c ≠ 0x0C)) := by
  have := validSingleSpec_all cfg c
  simp only [validSingleSpec, beq_iff_eq] at this
  rw [this]
  cases cfg.clj <;> simp [and_assoc]

/-! ### soundness -/

theorem delimStart_of_check {r : Bytes} (h : ¬ ((!r.isEmpty && !isDelim (peek r)) = true)) : DelimStart r := by
  cases r with
  | nil => exact .inl rfl
  | cons c t =>
    right
    refine ⟨c, t, rfl, ?_⟩
    simpa [peek] using h

/-- **Soundness.**  Whatever `readCharacter` accepts is: one byte (the backslash the
    dispatcher saw), a spelling `body` of the grammar denoting a code point `cp ≤ 0x10FFFF`,
    and then the end of the input or a delimiter, where the reader stops; the value is the
    character `cp` spanning exactly that text, and the call log is untouched. -/
theorem readCharacter_sound (ctx : Ctx) (st st' : St) (v : Val) (h : readCharacter ctx st = .ok v st') :
    ∃ c0 body cp, st.rest = c0 :: (body ++ st'.rest) ∧ st'.calls = st.calls ∧
      CharTokX ctx.cfg body cp ∧ cp ≤ 0x10FFFF ∧ DelimStart st'.rest ∧
      v = .char (mkHdr st.rest.length st'.rest.length) cp := by
  rw [readCharacter_eq] at h
  split at h
  · cases h
  · rename_i hne
    cases hb : charBody ctx st.rest.tail with
    | error ee => simp [hb] at h
    | ok x =>
      obtain ⟨cp, r⟩ := x
      simp only [hb] at h
      split at h
      · cases h
      · rename_i hcp
        split at h
        · cases h
        · rename_i hd
          simp only [Res.ok.injEq] at h
          obtain ⟨rfl, rfl⟩ := h
          have hp : st.rest.tail ≠ [] := by
            intro e; rw [e] at hne; exact hne rfl
          obtain ⟨body, hbody, htok⟩ := charBody_sound ctx _ r cp hp hb
          cases hs : st.rest with
          | nil => rw [hs] at hp; exact absurd rfl hp
          | cons c0 t =>
            rw [hs, List.tail_cons] at hbody
            exact ⟨c0, body, cp, by rw [hbody], rfl, htok, Nat.le_of_not_gt hcp, delimStart_of_check hd,
              by simp [Ctx.pos]⟩

/-- the same for an input that starts with the backslash, with the content of the value -/
theorem readCharacter_sound' (ctx : Ctx) (p : Bytes) (cl : List Call) (st' : St) (v : Val)
    (h : readCharacter ctx { rest := 0x5C :: p, calls := cl } = .ok v st') :
    ∃ body cp, p = body ++ st'.rest ∧ st'.calls = cl ∧ CharTokX ctx.cfg body cp ∧ cp ≤ 0x10FFFF ∧
      DelimStart st'.rest ∧ strip v = .char hdr0 cp := by
  obtain ⟨c0, body, cp, hs, hc, htok, hcp, hd, rfl⟩ := readCharacter_sound ctx _ st' v h
  simp only [List.cons.injEq] at hs
  exact ⟨body, cp, hs.2, hc, htok, hcp, hd, by simp [strip]⟩

/-- every failure of `readCharacter` is `invalidCharacter`, reported from the backslash, and
    leaves the state where it was -/
theorem readCharacter_err (ctx : Ctx) (st st' : St) (e : ErrInfo) (h : readCharacter ctx st = .err e st') :
    e.code = .invalidCharacter ∧ e.es = some st.rest.length ∧ st' = st := by
  rw [readCharacter_eq] at h
  split at h
  · simp only [Res.err.injEq] at h
    obtain ⟨rfl, rfl⟩ := h
    exact ⟨rfl, rfl, rfl⟩
  · cases hb : charBody ctx st.rest.tail with
    | error ee =>
      simp only [hb, Res.err.injEq] at h
      obtain ⟨rfl, rfl⟩ := h
      exact ⟨rfl, rfl, rfl⟩
    | ok x =>
      obtain ⟨cp, r⟩ := x
      simp only [hb] at h
      split at h
      · simp only [Res.err.injEq] at h
        obtain ⟨rfl, rfl⟩ := h
        exact ⟨rfl, rfl, rfl⟩
      · split at h
        · simp only [Res.err.injEq] at h
          obtain ⟨rfl, rfl⟩ := h
          exact ⟨rfl, rfl, rfl⟩
        · cases h

/-- `readCharacter` never returns "closing delimiter" -/
theorem readCharacter_not_closer (ctx : Ctx) (st st' : St) : readCharacter ctx st ≠ .closer st' := by
  intro h
  rw [readCharacter_eq] at h
  split at h
  · cases h
  · cases hb : charBody ctx st.rest.tail with
    | error ee => simp [hb] at h
    | ok x =>
      obtain ⟨cp, r⟩ := x
      simp only [hb] at h
      split at h
      · cases h
      · split at h <;> cases h

/-! ### completeness -/

theorem charTokX_nonempty {cfg : Cfg} {body : Bytes} {cp : Nat} (h : CharTokX cfg body cp) (rest : Bytes) :
    (body ++ rest).isEmpty = false := by
  cases h with
  | newline => show (strBytes "newline" ++ rest).isEmpty = false; rw [strBytes_newline]; rfl
  | ret => show (strBytes "return" ++ rest).isEmpty = false; rw [strBytes_return]; rfl
  | space => show (strBytes "space" ++ rest).isEmpty = false; rw [strBytes_space]; rfl
  | tab => show (strBytes "tab" ++ rest).isEmpty = false; rw [strBytes_tab]; rfl
  | formfeed _ => show (strBytes "formfeed" ++ rest).isEmpty = false; rw [strBytes_formfeed]; rfl
  | backspace _ => show (strBytes "backspace" ++ rest).isEmpty = false; rw [strBytes_backspace]; rfl
  | octal _ ds _ => rfl
  | unicode ds _ _ => rfl
  | single c _ => rfl

/-- **Completeness.**  Every spelling of the grammar with a code point ≤ 0x10FFFF, followed
    by the end of the input or a delimiter, is read as that character, consuming exactly
    the backslash and the spelling. -/
theorem readCharacter_complete (ctx : Ctx) (body rest : Bytes) (cl : List Call) (cp : Nat)
    (h : CharTokX ctx.cfg body cp) (hcp : cp ≤ 0x10FFFF) (hr : DelimStart rest) :
    readCharacter ctx { rest := 0x5C :: (body ++ rest), calls := cl } =
      .ok (.char (mkHdr (body.length + rest.length + 1) rest.length) cp) { rest := rest, calls := cl } := by
  rw [readCharacter_eq]
  simp only [List.tail_cons, charTokX_nonempty h rest, Bool.false_eq_true, if_false,
    charBody_complete ctx body rest cp h hr, show ¬ cp > 0x10FFFF from by omega, delim_ok hr,
    Ctx.pos, List.length_cons, List.length_append]

/-! ### the theorem -/

/-- **Character literals are exact.**  For `rest` empty or starting with a delimiter: the
    reader turns `\` `body` `rest` into a character `cp` and stops at `rest` iff `body` is a
    spelling of the grammar denoting `cp` and `cp ≤ 0x10FFFF`.  (No maximality side
    condition is needed: a delimiter byte extends no spelling, so the split is unique.) -/
theorem readCharacter_iff (ctx : Ctx) (body rest : Bytes) (cl : List Call) (cp : Nat) (hr : DelimStart rest) :
    (∃ v, readCharacter ctx { rest := 0x5C :: (body ++ rest), calls := cl } = .ok v { rest := rest, calls := cl } ∧
        strip v = .char hdr0 cp)
      ↔ (CharTokX ctx.cfg body cp ∧ cp ≤ 0x10FFFF) := by
  constructor
  · rintro ⟨v, hv, hs⟩
    obtain ⟨body', cp', hp, _, htok, hcp, _, hs'⟩ := readCharacter_sound' ctx _ cl _ v hv
    simp only [] at hp
    have hb : body = body' := List.append_cancel_right hp
    rw [hs] at hs'
    simp only [Val.char.injEq, true_and] at hs'
    subst hb; subst hs'
    exact ⟨htok, hcp⟩
  · rintro ⟨htok, hcp⟩
    exact ⟨_, readCharacter_complete ctx body rest cl cp htok hcp hr, by simp [strip]⟩

/-- a spelling denotes one code point only -/
theorem charTokX_functional {cfg : Cfg} {body : Bytes} {cp cp' : Nat}
    (h : CharTokX cfg body cp) (h' : CharTokX cfg body cp') : cp = cp' := by
  have e1 := charBody_complete { cfg := cfg } body [] cp h (.inl rfl)
  have e2 := charBody_complete { cfg := cfg } body [] cp' h' (.inl rfl)
  rw [e1] at e2
  simpa using e2

/-- the spellings of the rendering relation (`CharBody`, Edn.Spec.Renders) are spellings of
    the full grammar, in every configuration -/
theorem charBody_toX (cfg : Cfg) {body : Bytes} {cp : Nat} (h : CharBody body cp) : CharTokX cfg body cp := by
  cases h with
  | newline => exact .newline
  | ret => exact .ret
  | space => exact .space
  | tab => exact .tab
  | unicode a b c d cp hx =>
    obtain ⟨w, x, y, z, hw, hx', hy, hz, hv, _⟩ := hex4?_cons_some hx
    have := CharTokX.unicode (cfg := cfg) [a, b, c, d] (by
      intro e he
      simp only [List.mem_cons, List.mem_nil_iff, or_false] at he
      rcases he with rfl | rfl | rfl | rfl <;> simp [hw, hx', hy, hz]) (.inl rfl)
    rwa [hexValue_four hw hx' hy hz [], List.foldl_nil, ← hv] at this
  | single c hc => exact .single c (printable_valid cfg hc)

/-! ### examples -/

/-- a surrogate is accepted as a character … -/
example : (match readCharacter { cfg := Cfg.core } { rest := [0x5C, 0x75, 0x64, 0x38, 0x30, 0x30] } with
    | .ok (.char _ cp) st => cp == 0xD800 && st.rest.isEmpty
    | _ => false) = true := by decide +kernel

/-- … whereas the string decoder rejects `"\ud800"` -/
example : stringGet ⟨true, false⟩ [0x5C, 0x75, 0x64, 0x38, 0x30, 0x30] true = none := by decide +kernel

/-- `\é` (two bytes) is rejected: the first byte is a valid single character, the second is
    not a delimiter -/
example : (match readCharacter { cfg := Cfg.core } { rest := [0x5C, 0xC3, 0xA9] } with
    | .err e st => e.es == some 3 && e.ee == some 1 && st.rest.length == 3
    | _ => false) = true := by decide +kernel

/-- `\o400` is an error (no back-off to `\o40`), `\o377` is 255 -/
example : (match readCharacter { cfg := ⟨true, false⟩ } { rest := [0x5C, 0x6F, 0x34, 0x30, 0x30] } with
    | .err _ _ => true
    | _ => false) = true := by decide +kernel

example : CharTokX ⟨true, false⟩ [0x6F, 0x33, 0x37, 0x37] 255 :=
  .octal rfl [0x33, 0x37, 0x37] ⟨by decide, by decide, by decide, by decide⟩

end Edn.Proofs
