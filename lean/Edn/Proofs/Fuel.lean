/-
  Edn.Proofs.Fuel — the recursive reader terminates: progress (every successfully read
  form consumes at least one byte and the position never moves backwards), fuel
  monotonicity (more fuel never changes a result that is not "out of fuel"), and fuel
  sufficiency (`readFuel input` is always enough), for every input, configuration and
  option set.  This is the termination half of property C02 and the lemma that lets
  reader-level theorems move between fuels.
-/
import Edn.Model.Reader

namespace Edn.Proofs
open Edn.Model

def _root_.Edn.Model.Res.isFuelOut : Res → Bool
  | .err e _ => e.fuelOut
  | _ => false

/-- the state a result carries -/
def _root_.Edn.Model.Res.st : Res → St
  | .ok _ st | .closer st | .err _ st => st

/-- progress: a value consumes at least one byte; no result moves the position backwards -/
def Progress (before : St) (r : Res) : Prop :=
  match r with
  | .ok _ st' => st'.rest.length < before.rest.length
  | .closer st' => st'.rest.length ≤ before.rest.length
  | .err _ st' => st'.rest.length ≤ before.rest.length

/-! ## leaf readers -/

theorem readString_progress (ctx : Ctx) (st : St) (h : st.rest ≠ []) : Progress st (readString ctx st) := by
  sorry
theorem readCharacter_progress (ctx : Ctx) (st : St) (h : st.rest ≠ []) : Progress st (readCharacter ctx st) := by
  sorry
theorem readIdentifier_progress (ctx : Ctx) (st : St) : Progress st (readIdentifier ctx st) := by
  sorry
theorem readSymbolic_progress (ctx : Ctx) (st : St) (h : 2 ≤ st.rest.length) : Progress st (readSymbolic ctx st) := by
  sorry
theorem readNumberRes_progress (ctx : Ctx) (st : St) (c : UInt8) (cs : Bytes) (h : st.rest = c :: cs)
    (hc : is09 c = true ∨ ((c == 0x2B || c == 0x2D) = true ∧ ∃ d t, cs = d :: t ∧ is09 d = true)) :
    Progress st (readNumberRes ctx st) := by
  sorry
theorem leaf_not_fuelOut (ctx : Ctx) (st : St) :
    (readString ctx st).isFuelOut = false ∧ (readCharacter ctx st).isFuelOut = false ∧
    (readIdentifier ctx st).isFuelOut = false ∧ (readSymbolic ctx st).isFuelOut = false ∧
    (readNumberRes ctx st).isFuelOut = false := by
  sorry
theorem skipWs_length_le (s : Bytes) : (skipWs s).length ≤ s.length := by
  sorry

/-! ## the recursive reader -/

/-- progress for all six mutually recursive functions, for every fuel -/
theorem reader_progress (ctx : Ctx) : ∀ (f : Nat),
    (∀ d dm st, Progress st (readValue ctx f d dm st)) ∧
    (∀ d dm kind start st acc, (readSeq ctx f d dm kind start st acc).st.rest.length ≤ st.rest.length) ∧
    (∀ d dm start ns st ks vs, (readMap ctx f d dm start ns st ks vs).st.rest.length ≤ st.rest.length) ∧
    (∀ d dm start st, (readNsMap ctx f d dm start st).st.rest.length ≤ st.rest.length) ∧
    (∀ d dm start st, (readTagged ctx f d dm start st).st.rest.length ≤ st.rest.length) ∧
    (∀ d dm start st, (readMeta ctx f d dm start st).st.rest.length ≤ st.rest.length) := by
  sorry

/-- monotonicity: one more unit of fuel does not change any result that is not "out of fuel" -/
theorem reader_fuel_mono (ctx : Ctx) : ∀ (f : Nat),
    (∀ d dm st, (readValue ctx f d dm st).isFuelOut = false →
        readValue ctx (f + 1) d dm st = readValue ctx f d dm st) ∧
    (∀ d dm kind start st acc, (readSeq ctx f d dm kind start st acc).isFuelOut = false →
        readSeq ctx (f + 1) d dm kind start st acc = readSeq ctx f d dm kind start st acc) ∧
    (∀ d dm start ns st ks vs, (readMap ctx f d dm start ns st ks vs).isFuelOut = false →
        readMap ctx (f + 1) d dm start ns st ks vs = readMap ctx f d dm start ns st ks vs) ∧
    (∀ d dm start st, (readNsMap ctx f d dm start st).isFuelOut = false →
        readNsMap ctx (f + 1) d dm start st = readNsMap ctx f d dm start st) ∧
    (∀ d dm start st, (readTagged ctx f d dm start st).isFuelOut = false →
        readTagged ctx (f + 1) d dm start st = readTagged ctx f d dm start st) ∧
    (∀ d dm start st, (readMeta ctx f d dm start st).isFuelOut = false →
        readMeta ctx (f + 1) d dm start st = readMeta ctx f d dm start st) := by
  sorry

theorem readValue_fuel_le (ctx : Ctx) (f f' d : Nat) (dm : Bool) (st : St) (hle : f ≤ f')
    (h : (readValue ctx f d dm st).isFuelOut = false) :
    readValue ctx f' d dm st = readValue ctx f d dm st := by
  sorry

/-- sufficiency: `2 * remaining + 2` units are always enough for `readValue`
    (`2 * remaining + 3` for the loops entered after an opening delimiter) -/
theorem reader_fuel_sufficient (ctx : Ctx) : ∀ (f : Nat),
    (∀ d dm st, 2 * st.rest.length + 2 ≤ f → (readValue ctx f d dm st).isFuelOut = false) ∧
    (∀ d dm kind start st acc, 2 * st.rest.length + 3 ≤ f → (readSeq ctx f d dm kind start st acc).isFuelOut = false) ∧
    (∀ d dm start ns st ks vs, 2 * st.rest.length + 3 ≤ f → (readMap ctx f d dm start ns st ks vs).isFuelOut = false) ∧
    (∀ d dm start st, 2 * st.rest.length + 3 ≤ f → (readNsMap ctx f d dm start st).isFuelOut = false) ∧
    (∀ d dm start st, 2 * st.rest.length + 3 ≤ f → (readTagged ctx f d dm start st).isFuelOut = false) ∧
    (∀ d dm start st, 2 * st.rest.length + 3 ≤ f → (readMeta ctx f d dm start st).isFuelOut = false) := by
  sorry

/-- C02 (termination): reading never runs out of fuel — the model's `read` always returns a
    value, the end-of-input value, or an error -/
theorem read_terminates (cfg : Cfg) (opts : Opts) (input : Bytes) :
    (match (read cfg opts input).out with | .fuelOut => false | _ => true) = true := by
  sorry

/-- the result of `readValue` does not depend on the fuel once it is sufficient -/
theorem readValue_fuel_irrelevant (ctx : Ctx) (f f' d : Nat) (dm : Bool) (st : St)
    (h : 2 * st.rest.length + 2 ≤ f) (h' : 2 * st.rest.length + 2 ≤ f') :
    readValue ctx f d dm st = readValue ctx f' d dm st := by
  sorry

/-- C02 (bounded recursion): at the nesting limit the reader does not descend any further:
    whatever the fuel, the answer is the one obtained with a single unit of fuel, i.e.
    without any recursive call.  Since every recursive call into a collection, tagged
    literal, discard or metadata form increases `d` by one, the recursion depth is bounded
    by the limit independently of the input. -/
theorem no_recursion_at_limit (ctx : Ctx) (f d : Nat) (dm : Bool) (st : St)
    (hd : Edn.Generated.Tables.maxNestingDepth ≤ d) :
    readValue ctx (f + 1) d dm st = readValue ctx 1 d dm st := by
  sorry

end Edn.Proofs
