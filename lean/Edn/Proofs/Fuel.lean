/-
  Edn.Proofs.Fuel — the recursive reader terminates: progress (every successfully read
  form consumes at least one byte and the position never moves backwards), fuel
  monotonicity (more fuel never changes a result that is not "out of fuel"), and fuel
  sufficiency (`readFuel input` is always enough), for every input, configuration and
  option set.  This is the termination half of property C02 and the lemma that lets
  reader-level theorems move between fuels.

  The helper definitions `Res.isFuelOut`, `Res.st` and `Progress` live in
  `Edn.Proofs.FuelAux1`; the proofs are organised as follows:
    FuelAux1  cursor lemmas for `readNumber`
    FuelAux2  progress of the leaf readers
    FuelAux3  the six reader functions as non-recursive step functions
    FuelAux4  progress,  FuelAux5  monotonicity,  FuelAux6  sufficiency
    FuelAux7  no "closer" answer at depth 0; the dispatch at the nesting limit
-/
import Edn.Proofs.FuelAux5
import Edn.Proofs.FuelAux6
import Edn.Proofs.FuelAux7

namespace Edn.Proofs
open Edn.Model

/-! ## leaf readers -/

theorem readString_progress (ctx : Ctx) (st : St) (h : st.rest ≠ []) : Progress st (readString ctx st) :=
  readString_progress' ctx st h
theorem readCharacter_progress (ctx : Ctx) (st : St) (h : st.rest ≠ []) : Progress st (readCharacter ctx st) :=
  readCharacter_progress' ctx st h
theorem readIdentifier_progress (ctx : Ctx) (st : St) : Progress st (readIdentifier ctx st) :=
  readIdentifier_progress' ctx st
theorem readSymbolic_progress (ctx : Ctx) (st : St) (h : 2 ≤ st.rest.length) : Progress st (readSymbolic ctx st) :=
  readSymbolic_progress' ctx st h
theorem readNumberRes_progress (ctx : Ctx) (st : St) (c : UInt8) (cs : Bytes) (h : st.rest = c :: cs)
    (hc : is09 c = true ∨ ((c == 0x2B || c == 0x2D) = true ∧ ∃ d t, cs = d :: t ∧ is09 d = true)) :
    Progress st (readNumberRes ctx st) :=
  readNumberRes_progress' ctx st c cs h hc
theorem leaf_not_fuelOut (ctx : Ctx) (st : St) :
    (readString ctx st).isFuelOut = false ∧ (readCharacter ctx st).isFuelOut = false ∧
    (readIdentifier ctx st).isFuelOut = false ∧ (readSymbolic ctx st).isFuelOut = false ∧
    (readNumberRes ctx st).isFuelOut = false :=
  leaf_not_fuelOut' ctx st
theorem skipWs_length_le (s : Bytes) : (skipWs s).length ≤ s.length :=
  skipWs_length_le' s

/-! ## the recursive reader -/

/-- progress for all six mutually recursive functions, for every fuel -/
theorem reader_progress (ctx : Ctx) : ∀ (f : Nat),
    (∀ d dm st, Progress st (readValue ctx f d dm st)) ∧
    (∀ d dm kind start st acc, (readSeq ctx f d dm kind start st acc).st.rest.length ≤ st.rest.length) ∧
    (∀ d dm start ns st ks vs, (readMap ctx f d dm start ns st ks vs).st.rest.length ≤ st.rest.length) ∧
    (∀ d dm start st, (readNsMap ctx f d dm start st).st.rest.length ≤ st.rest.length) ∧
    (∀ d dm start st, (readTagged ctx f d dm start st).st.rest.length ≤ st.rest.length) ∧
    (∀ d dm start st, (readMeta ctx f d dm start st).st.rest.length ≤ st.rest.length) :=
  fun f => reader_progress' ctx f

/-- monotonicity: one more unit of fuel does not change any result that is not "out of fuel" -/
theorem reader_fuel_mono (ctx : Ctx) : ∀ (f : Nat),
    (∀ d dm st, (readValue ctx f d dm st).isFuelOut = false →
        readValue ctx (f + 1) d dm st = readValue ctx f d dm st) ∧
    (∀ d dm kind start st acc, (readSeq ctx f d dm kind start st acc).isFuelOut = false →
        readSeq ctx (f + 1) d dm kind start st acc = readSeq ctx f d dm kind start st acc) ∧
    (∀ d dm start ns st ks vs, (readMap ctx f d dm start ns st ks vs).isFuelOut = false →
        readMap ctx (f + 1) d dm start ns st ks vs = readMap ctx f d dm start ns st ks vs) ∧
    (∀ d dm start st, (readNsMap ctx f d dm start st).isFuelOut = false →
        readNsMap ctx (f + 1) d dm start st = readNsMap ctx f d dm start st) ∧
    (∀ d dm start st, (readTagged ctx f d dm start st).isFuelOut = false →
        readTagged ctx (f + 1) d dm start st = readTagged ctx f d dm start st) ∧
    (∀ d dm start st, (readMeta ctx f d dm start st).isFuelOut = false →
        readMeta ctx (f + 1) d dm start st = readMeta ctx f d dm start st) :=
  fun f => reader_fuel_mono' ctx f

theorem readValue_fuel_le (ctx : Ctx) (f f' d : Nat) (dm : Bool) (st : St) (hle : f ≤ f')
    (h : (readValue ctx f d dm st).isFuelOut = false) :
    readValue ctx f' d dm st = readValue ctx f d dm st := by
  obtain ⟨k, rfl⟩ := Nat.exists_eq_add_of_le hle
  induction k with
  | zero => rfl
  | succ k ih =>
    have hk := ih (Nat.le_add_right _ _)
    have := (reader_fuel_mono ctx (f + k)).1 d dm st (by rw [hk]; exact h)
    rw [← Nat.add_assoc, this, hk]

/-- sufficiency: `2 * remaining + 2` units are always enough for `readValue`
    (`2 * remaining + 3` for the loops entered after an opening delimiter) -/
theorem reader_fuel_sufficient (ctx : Ctx) : ∀ (f : Nat),
    (∀ d dm st, 2 * st.rest.length + 2 ≤ f → (readValue ctx f d dm st).isFuelOut = false) ∧
    (∀ d dm kind start st acc, 2 * st.rest.length + 3 ≤ f → (readSeq ctx f d dm kind start st acc).isFuelOut = false) ∧
    (∀ d dm start ns st ks vs, 2 * st.rest.length + 3 ≤ f → (readMap ctx f d dm start ns st ks vs).isFuelOut = false) ∧
    (∀ d dm start st, 2 * st.rest.length + 3 ≤ f → (readNsMap ctx f d dm start st).isFuelOut = false) ∧
    (∀ d dm start st, 2 * st.rest.length + 3 ≤ f → (readTagged ctx f d dm start st).isFuelOut = false) ∧
    (∀ d dm start st, 2 * st.rest.length + 3 ≤ f → (readMeta ctx f d dm start st).isFuelOut = false) :=
  fun f => reader_fuel_sufficient' ctx f

/-- C02 (termination): reading never runs out of fuel — the model's `read` always returns a
    value, the end-of-input value, or an error -/
theorem read_terminates (cfg : Cfg) (opts : Opts) (input : Bytes) :
    (match (read cfg opts input).out with | .fuelOut => false | _ => true) = true := by
  unfold Edn.Model.read
  simp only []
  have hs := (reader_fuel_sufficient { cfg := cfg, opts := opts } (readFuel input)).1 0 false
    { rest := input } (by simp only [readFuel]; omega)
  have hc := (reader_noCloser { cfg := cfg, opts := opts } (readFuel input)).1 false { rest := input }
  cases hr : readValue { cfg := cfg, opts := opts } (readFuel input) 0 false { rest := input } with
  | ok v st => rfl
  | closer st => rw [hr] at hc; cases hc
  | err e st =>
    rw [hr] at hs
    simp only [Res.isFuelOut] at hs
    simp only [hs, Bool.false_eq_true, ↓reduceIte]
    by_cases hq : (e.code == Err.unexpectedEof && e.eofTop && opts.eofValue) = true
    · simp only [hq, ↓reduceIte]
    · simp only [hq, Bool.false_eq_true, ↓reduceIte]

/-- the result of `readValue` does not depend on the fuel once it is sufficient -/
theorem readValue_fuel_irrelevant (ctx : Ctx) (f f' d : Nat) (dm : Bool) (st : St)
    (h : 2 * st.rest.length + 2 ≤ f) (h' : 2 * st.rest.length + 2 ≤ f') :
    readValue ctx f d dm st = readValue ctx f' d dm st := by
  rcases Nat.le_total f f' with hle | hle
  · exact (readValue_fuel_le ctx f f' d dm st hle ((reader_fuel_sufficient ctx f).1 d dm st h)).symm
  · exact readValue_fuel_le ctx f' f d dm st hle ((reader_fuel_sufficient ctx f').1 d dm st h')

/-- C02 (bounded recursion): at the nesting limit the reader does not descend any further:
    whatever the fuel, the answer is the one obtained with a single unit of fuel, i.e.
    without any recursive call.  Since every recursive call into a collection, tagged
    literal, discard or metadata form increases `d` by one, the recursion depth is bounded
    by the limit independently of the input.

    STATEMENT CHANGE: the hypothesis `hne` was added.  Without it the statement is false:
    when the form at the cursor is a lone `#` that ends the input, `readValue` calls
    `readTagged` (on the empty rest) *before* any depth test, so with a single unit of fuel
    the answer is "out of fuel" whereas with two or more it is UNEXPECTED_EOF.  Checked:
      #eval (readValue { cfg := ⟨false, false⟩ } 1 100 false { rest := [0x23] }).isFuelOut  -- true
      #eval (readValue { cfg := ⟨false, false⟩ } 2 100 false { rest := [0x23] }).isFuelOut  -- false
    `hne` excludes exactly that input (`skipWs st.rest` is the byte sequence at which
    `readValue` dispatches); `no_recursion_at_limit₂` below is the hypothesis-free variant
    with two units of fuel (`readTagged` on the empty rest makes no further call). -/
theorem no_recursion_at_limit (ctx : Ctx) (f d : Nat) (dm : Bool) (st : St)
    (hd : Edn.Generated.Tables.maxNestingDepth ≤ d)
    (hne : skipWs st.rest ≠ [0x23]) :
    readValue ctx (f + 1) d dm st = readValue ctx 1 d dm st := by
  rw [readValue_succ ctx f, readValue_succ ctx 0]
  exact rvOuter_deep ctx d dm st hd (fun h => absurd h hne)

/-- hypothesis-free variant of `no_recursion_at_limit`: two units of fuel (the second one
    is only ever used by `readTagged` to report the end of input after a final `#`) -/
theorem no_recursion_at_limit₂ (ctx : Ctx) (f d : Nat) (dm : Bool) (st : St)
    (hd : Edn.Generated.Tables.maxNestingDepth ≤ d) :
    readValue ctx (f + 2) d dm st = readValue ctx 2 d dm st := by
  rw [readValue_succ ctx (f + 1), readValue_succ ctx 1]
  apply rvOuter_deep ctx d dm st hd
  intro _ start
  rw [readTagged_succ, readTagged_succ]
  rfl

end Edn.Proofs
