/-
  Edn.Proofs.CljNumberSoundAux1 — the number reader with the Clojure flag: byte facts, the
  digit loops (what they consume, in both directions), payload facts.
-/
import Edn.Spec.CljNumLit
import Edn.Proofs.NumberReader
import Edn.Proofs.NumberSoundAux1

namespace Edn.Proofs.CljN
open Edn.Model Edn.Spec Edn.Proofs Edn.Proofs.CNum

/-! ## byte facts -/

/-- what a digit of any radix up to 36 is not -/
def radixFacts (c : UInt8) : Bool :=
  !(digitValue c 36).isSome ||
    (c != 0 && !isDelim c && c != 0x5F && c != 0x2F && c != 0x2E && c != 0x2B && c != 0x2D)
theorem radixFacts_all : ∀ c, radixFacts c = true := forall_u8_bool _ (by decide +kernel)

/-- what a decimal digit is not -/
def decFacts (c : UInt8) : Bool :=
  !is09 c ||
    ((digitValue c 10).isSome && (digitValue c 36).isSome && c != 0x72 && c != 0x52 && c != 0x78 && c != 0x58 &&
     c != 0x65 && c != 0x45 && c != 0x4E && c != 0x4D)
theorem decFacts_all : ∀ c, decFacts c = true := forall_u8_bool _ (by decide +kernel)

def hexFacts (c : UInt8) : Bool :=
  !(digitValue c 16).isSome || (c != 0x72 && c != 0x52 && c != 0x78 && c != 0x58 && c != 0x4E && c != 0x4D)
theorem hexFacts_all : ∀ c, hexFacts c = true := forall_u8_bool _ (by decide +kernel)

def ten09 (c : UInt8) : Bool := (digitValue c 10).isSome == is09 c
theorem ten09_all : ∀ c, ten09 c = true := forall_u8_bool _ (by decide +kernel)

/-- delimiters and NUL are no digits, separators or suffix letters -/
def delimFacts (c : UInt8) : Bool :=
  !(c == 0 || isDelim c) ||
    (!(digitValue c 36).isSome && !is09 c && c != 0x5F && c != 0x4E && c != 0x4D && c != 0x2F)
theorem delimFacts_all : ∀ c, delimFacts c = true := forall_u8_bool _ (by decide +kernel)

theorem isRadixDigit_ten (c : UInt8) : isRadixDigit 10 c = is09 c := by
  have := ten09_all c
  simpa [ten09, isRadixDigit] using this

theorem radix_props {c : UInt8} {r : Nat} (hr : r ≤ 36) (h : isRadixDigit r c = true) :
    c ≠ 0 ∧ isDelim c = false ∧ c ≠ 0x5F ∧ c ≠ 0x2F ∧ c ≠ 0x2E ∧ c ≠ 0x2B ∧ c ≠ 0x2D := by
  have := radixFacts_all c
  have h36 : (digitValue c 36).isSome = true := NRd.digitValue_mono h hr
  simpa [radixFacts, h36, and_assoc] using this

theorem dec_props {c : UInt8} (h : is09 c = true) :
    (digitValue c 10).isSome = true ∧ (digitValue c 36).isSome = true ∧ c ≠ 0x72 ∧ c ≠ 0x52 ∧ c ≠ 0x78 ∧ c ≠ 0x58 ∧
      c ≠ 0x65 ∧ c ≠ 0x45 ∧ c ≠ 0x4E ∧ c ≠ 0x4D := by
  have := decFacts_all c
  simpa [decFacts, h, and_assoc] using this

theorem hex_props {c : UInt8} (h : isRadixDigit 16 c = true) :
    c ≠ 0x72 ∧ c ≠ 0x52 ∧ c ≠ 0x78 ∧ c ≠ 0x58 ∧ c ≠ 0x4E ∧ c ≠ 0x4D := by
  have := hexFacts_all c
  have h' : (digitValue c 16).isSome = true := h
  simpa [hexFacts, h', and_assoc] using this

theorem delim_props {c : UInt8} (h : c = 0 ∨ isDelim c = true) :
    (digitValue c 36).isSome = false ∧ is09 c = false ∧ c ≠ 0x5F ∧ c ≠ 0x4E ∧ c ≠ 0x4D ∧ c ≠ 0x2F := by
  have := delimFacts_all c
  rcases h with h | h <;> simpa [delimFacts, h, and_assoc] using this

theorem isRadixDigit_of_le {c : UInt8} {r r' : Nat} (h : isRadixDigit r c = true) (hr : r ≤ r') :
    isRadixDigit r' c = true := NRd.digitValue_mono h hr

theorem not_radix_of_not36 {c : UInt8} {r : Nat} (hr : r ≤ 36) (h : (digitValue c 36).isSome = false) :
    isRadixDigit r c = false := by
  cases h' : isRadixDigit r c
  · rfl
  · rw [NRd.digitValue_mono h' hr] at h
    exact Bool.noConfusion h

/-! ## list facts -/

theorem peek_cons (c : UInt8) (t : Bytes) : peek (c :: t) = c := rfl
theorem adv_cons (c : UInt8) (t : Bytes) : adv (c :: t) = t := rfl
theorem peek_nil : peek ([] : Bytes) = 0 := rfl

theorem peek_append_ne {a : Bytes} (h : a ≠ []) (b : Bytes) : peek (a ++ b) = peek a := by
  cases a with
  | nil => exact absurd rfl h
  | cons c t => rfl

theorem noTrailU_nil : NoTrailU [] := by
  simp [NoTrailU]

theorem noTrailU_cons {c : UInt8} {t : Bytes} (ht : t ≠ []) : NoTrailU (c :: t) ↔ NoTrailU t := by
  unfold NoTrailU
  rw [List.getLast?_cons_of_ne_nil ht]

theorem noTrailU_single {c : UInt8} (h : c ≠ 0x5F) : NoTrailU [c] := by
  simp [NoTrailU, h]

theorem noTrailU_append {a b : Bytes} (hb : b ≠ []) : NoTrailU (a ++ b) ↔ NoTrailU b := by
  unfold NoTrailU
  have : (a ++ b).getLast? = b.getLast? := by
    rw [List.getLast?_append]
    cases h : b.getLast? with
    | none => simp_all
    | some x => simp
  rw [this]

theorem noTrailU_of_not_mem {l : Bytes} (h : (0x5F : UInt8) ∉ l) : NoTrailU l := by
  unfold NoTrailU
  intro hl
  exact h (List.mem_of_getLast? hl)

theorem lastIsUnderscore_iff (body T : Bytes) : lastIsUnderscore (body ++ T) T = false ↔ NoTrailU body := by
  unfold lastIsUnderscore NoTrailU
  rw [slice_append]
  cases body.getLast? with
  | none => simp
  | some x => simp

theorem uRun_nil (exp : Bool) (p : UInt8 → Bool) : URun exp p [] := by
  intro c hc
  simp at hc

theorem uRun_cons {exp : Bool} {p : UInt8 → Bool} {c : UInt8} {t : Bytes}
    (hc : p c = true ∨ (exp = true ∧ c = 0x5F)) (ht : URun exp p t) : URun exp p (c :: t) := by
  intro x hx
  rcases List.mem_cons.mp hx with rfl | hx
  · exact hc
  · exact ht x hx

theorem uRun_tail {exp : Bool} {p : UInt8 → Bool} {c : UInt8} {t : Bytes} (h : URun exp p (c :: t)) :
    URun exp p t := fun x hx => h x (List.mem_cons_of_mem _ hx)

theorem uRun_false_all {p : UInt8 → Bool} {l : Bytes} (h : URun false p l) : ∀ c ∈ l, p c = true := by
  intro c hc
  rcases h c hc with h | ⟨h, -⟩
  · exact h
  · exact Bool.noConfusion h

theorem uRun_of_all {exp : Bool} {p : UInt8 → Bool} {l : Bytes} (h : ∀ c ∈ l, p c = true) : URun exp p l :=
  fun c hc => Or.inl (h c hc)

theorem uRun_false_noU {p : UInt8 → Bool} {l : Bytes} (hp : p 0x5F = false) (h : URun false p l) :
    (0x5F : UInt8) ∉ l := by
  intro hm
  have := uRun_false_all h _ hm
  rw [hp] at this
  exact Bool.noConfusion this

/-! ## `dropWhile` -/

theorem dropWhile_split (p : UInt8 → Bool) (hp0 : p 0 = false) (s : Bytes) :
    ∃ run T, s = run ++ T ∧ (∀ c ∈ run, p c = true) ∧ p (peek T) = false ∧ s.dropWhile p = T := by
  induction s with
  | nil => exact ⟨[], [], rfl, by simp, hp0, rfl⟩
  | cons c t ih =>
    by_cases hc : p c = true
    · obtain ⟨run, T, rfl, hr, hT, hd⟩ := ih
      refine ⟨c :: run, T, rfl, ?_, hT, ?_⟩
      · intro x hx
        rcases List.mem_cons.mp hx with rfl | hx
        · exact hc
        · exact hr x hx
      · simp only [List.dropWhile_cons, hc, ↓reduceIte]
        exact hd
    · have hc' : p c = false := by simpa using hc
      refine ⟨[], c :: t, rfl, by simp, hc', ?_⟩
      simp only [List.dropWhile_cons, hc', Bool.false_eq_true, ↓reduceIte]

theorem dropWhile_run (p : UInt8 → Bool) (T : Bytes) (hT : p (peek T) = false) :
    ∀ run : Bytes, (∀ c ∈ run, p c = true) → (run ++ T).dropWhile p = T := by
  intro run
  induction run with
  | nil =>
    intro _
    exact dropWhile_peek_false p T hT
  | cons d ds ih =>
    intro hd
    have h1 : p d = true := hd d (by simp)
    simp only [List.cons_append, List.dropWhile_cons, h1, ↓reduceIte]
    exact ih (fun c hc => hd c (by simp [hc]))

/-- `fracDigits` written with `URun` -/
theorem fracDigits_split (exp : Bool) (s : Bytes) :
    ∃ run T, s = run ++ T ∧ URun exp is09 run ∧ is09 (peek T) = false ∧
      (exp = true → (peek T == 0x5F) = false) ∧ fracDigits exp s = T := by
  obtain ⟨run, T, rfl, hr, hT, hd⟩ :=
    dropWhile_split (fun c => is09 c || (exp && c == 0x5F)) (by cases exp <;> decide) s
  refine ⟨run, T, rfl, ?_, ?_, ?_, hd⟩
  · intro c hc
    have := hr c hc
    simp only [Bool.or_eq_true, Bool.and_eq_true, beq_iff_eq] at this
    exact this
  · simp only [Bool.or_eq_false_iff] at hT
    exact hT.1
  · intro he
    subst he
    simp only [Bool.or_eq_false_iff, Bool.true_and] at hT
    exact hT.2

theorem fracDigits_run (exp : Bool) (run T : Bytes) (hr : URun exp is09 run) (hT : is09 (peek T) = false)
    (hT2 : exp = true → (peek T == 0x5F) = false) : fracDigits exp (run ++ T) = T := by
  unfold fracDigits
  apply dropWhile_run
  · cases exp
    · simp [hT]
    · simp [hT, hT2 rfl]
  · intro c hc
    rcases hr c hc with h | ⟨h1, h2⟩
    · simp [h]
    · simp [h1, h2]

/-! ## the digit loops -/

/-- the decimal loop is the strict radix loop for radix 10 -/
theorem decLoop_eq_radixLoop (exp : Bool) : ∀ (f : Nat) (s : Bytes),
    decDigitsLoop exp f s = radixDigitsLoop exp 10 true f s := by
  intro f
  induction f with
  | zero => intro s; rfl
  | succ f ih =>
    intro s
    unfold decDigitsLoop radixDigitsLoop
    have e1 : ∀ c, (digitValue c 10).isSome = is09 c := isRadixDigit_ten
    simp only [e1, ih, Bool.true_and]
    by_cases h1 : (peek s != 0 && !isDelim (peek s)) = true
    · simp only [h1, ↓reduceIte]
      by_cases h2 : is09 (peek s) = true
      · simp only [h2, ↓reduceIte]
      · simp only [h2, Bool.false_eq_true, ↓reduceIte]
        by_cases h3 : (exp && peek s == 0x5F) = true
        · simp only [h3, ↓reduceIte]
          rw [Bool.and_comm]
        · simp only [h3, Bool.false_eq_true, ↓reduceIte]
    · simp only [h1, Bool.false_eq_true, ↓reduceIte]

theorem radixLoop_split (exp : Bool) (radix : Nat) (strict : Bool) (hr : radix ≤ 36) :
    ∀ (s : Bytes) (f : Nat), s.length + 1 ≤ f →
      (∃ cur, radixDigitsLoop exp radix strict f s = .error cur) ∨
      ∃ run T, s = run ++ T ∧ URun exp (isRadixDigit radix) run ∧ (strict = true → NoTrailU run) ∧
        isRadixDigit radix (peek T) = false ∧ (exp = true → (peek T == 0x5F) = false) ∧
        radixDigitsLoop exp radix strict f s = .ok T := by
  intro s
  induction s with
  | nil =>
    intro f hf
    obtain ⟨f, rfl⟩ : ∃ f', f = f' + 1 := ⟨f - 1, by omega⟩
    right
    refine ⟨[], [], rfl, uRun_nil _ _, fun _ => noTrailU_nil, ?_, fun _ => by decide, ?_⟩
    · exact not_radix_of_not36 hr (by decide)
    · unfold radixDigitsLoop
      simp [peek_nil]
  | cons c t ih =>
    intro f hf
    obtain ⟨f, rfl⟩ : ∃ f', f = f' + 1 := ⟨f - 1, by simp at hf; omega⟩
    have hf' : t.length + 1 ≤ f := by simp at hf; omega
    unfold radixDigitsLoop
    simp only [peek_cons, adv_cons]
    by_cases hd : isRadixDigit radix c = true
    · -- a digit
      have hp := radix_props hr hd
      have h1 : (c != 0 && !isDelim c) = true := by simp [hp.1, hp.2.1]
      have hd' : (digitValue c radix).isSome = true := hd
      simp only [h1, hd', ↓reduceIte]
      rcases ih f hf' with ⟨cur, he⟩ | ⟨run, T, rfl, hrun, hnt, hT, hT2, hl⟩
      · exact Or.inl ⟨cur, he⟩
      · right
        refine ⟨c :: run, T, rfl, uRun_cons (Or.inl hd) hrun, ?_, hT, hT2, hl⟩
        intro hs
        by_cases hrn : run = []
        · subst hrn
          exact noTrailU_single hp.2.2.1
        · exact (noTrailU_cons hrn).mpr (hnt hs)
    · have hd' : (digitValue c radix).isSome = false := by
        have : isRadixDigit radix c = false := by simpa using hd
        exact this
      by_cases hu : (exp && c == 0x5F) = true
      · -- a separator
        simp only [Bool.and_eq_true, beq_iff_eq] at hu
        obtain ⟨he, rfl⟩ := hu
        subst he
        have h1 : ((0x5F : UInt8) != 0 && !isDelim 0x5F) = true := by decide
        simp only [h1, hd', Bool.false_eq_true, ↓reduceIte, Bool.true_and, BEq.rfl]
        by_cases herr : (strict && !(digitValue (peek t) radix).isSome && peek t != 0x5F) = true
        · simp only [herr, ↓reduceIte]
          exact Or.inl ⟨_, rfl⟩
        · simp only [herr, Bool.false_eq_true, ↓reduceIte]
          rcases ih f hf' with ⟨cur, he⟩ | ⟨run, T, rfl, hrun, hnt, hT, hT2, hl⟩
          · exact Or.inl ⟨cur, he⟩
          · right
            refine ⟨0x5F :: run, T, rfl, uRun_cons (Or.inr ⟨rfl, rfl⟩) hrun, ?_, hT, fun _ => hT2 rfl, hl⟩
            intro hs
            by_cases hrn : run = []
            · subst hrn
              exfalso
              have hT' : (digitValue (peek T) radix).isSome = false := hT
              have hT3 : peek T ≠ 0x5F := by simpa using hT2 rfl
              simp only [List.nil_append] at herr
              simp [hs, hT', hT3] at herr
            · exact (noTrailU_cons hrn).mpr (hnt hs)
      · -- anything else stops the loop
        right
        refine ⟨[], c :: t, rfl, uRun_nil _ _, fun _ => noTrailU_nil, by simpa [peek_cons] using hd, ?_, ?_⟩
        · intro he
          subst he
          simpa [peek_cons] using hu
        · simp only [hd', hu, Bool.false_eq_true, ↓reduceIte, ite_self]

theorem radixLoop_run (exp : Bool) (radix : Nat) (strict : Bool) (hr : radix ≤ 36) (T : Bytes)
    (hT : isRadixDigit radix (peek T) = false) (hT2 : exp = true → (peek T == 0x5F) = false) :
    ∀ (run : Bytes) (f : Nat), URun exp (isRadixDigit radix) run → (strict = true → NoTrailU run) →
      run.length + 1 ≤ f → radixDigitsLoop exp radix strict f (run ++ T) = .ok T := by
  intro run
  induction run with
  | nil =>
    intro f _ _ hf
    obtain ⟨f, rfl⟩ : ∃ f', f = f' + 1 := ⟨f - 1, by simp at hf; omega⟩
    have hT' : (digitValue (peek T) radix).isSome = false := hT
    have hu : (exp && peek T == 0x5F) = false := by
      cases exp
      · rfl
      · simp [hT2 rfl]
    simp only [List.nil_append]
    unfold radixDigitsLoop
    simp only [hT', hu, Bool.false_eq_true, ↓reduceIte, ite_self]
  | cons c t ih =>
    intro f hrun hnt hf
    obtain ⟨f, rfl⟩ : ∃ f', f = f' + 1 := ⟨f - 1, by simp at hf; omega⟩
    have hf' : t.length + 1 ≤ f := by simp at hf; omega
    have hnt' : t ≠ [] → strict = true → NoTrailU t := fun h hs => (noTrailU_cons h).mp (hnt hs)
    unfold radixDigitsLoop
    simp only [List.cons_append, peek_cons, adv_cons]
    rcases hrun c (by simp) with hd | ⟨he, rfl⟩
    · have hp := radix_props hr hd
      have h1 : (c != 0 && !isDelim c) = true := by simp [hp.1, hp.2.1]
      have hd' : (digitValue c radix).isSome = true := hd
      simp only [h1, hd', ↓reduceIte]
      refine ih f (uRun_tail hrun) ?_ hf'
      intro hs
      by_cases htn : t = []
      · subst htn; exact noTrailU_nil
      · exact hnt' htn hs
    · subst he
      have h1 : ((0x5F : UInt8) != 0 && !isDelim 0x5F) = true := by decide
      have hd' : (digitValue 0x5F radix).isSome = false := not_radix_of_not36 hr (by decide)
      simp only [h1, hd', Bool.false_eq_true, ↓reduceIte, Bool.true_and, BEq.rfl]
      have herr : (strict && !(digitValue (peek (t ++ T)) radix).isSome && peek (t ++ T) != 0x5F) = false := by
        cases hs : strict
        · rfl
        · cases t with
          | nil =>
            exfalso
            exact hnt hs (by simp)
          | cons d t' =>
            simp only [List.cons_append, peek_cons, Bool.true_and]
            rcases hrun d (by simp) with hdd | ⟨-, rfl⟩
            · have : (digitValue d radix).isSome = true := hdd
              simp [this]
            · simp
      simp only [herr, Bool.false_eq_true, ↓reduceIte]
      refine ih f (uRun_tail hrun) ?_ hf'
      intro hs
      by_cases htn : t = []
      · subst htn; exact noTrailU_nil
      · exact hnt' htn hs

/-- the decimal loop, both directions -/
theorem decLoop_split (exp : Bool) (s : Bytes) (f : Nat) (hf : s.length + 1 ≤ f) :
    (∃ cur, decDigitsLoop exp f s = .error cur) ∨
    ∃ run T, s = run ++ T ∧ URun exp is09 run ∧ NoTrailU run ∧ is09 (peek T) = false ∧
      (exp = true → (peek T == 0x5F) = false) ∧ decDigitsLoop exp f s = .ok T := by
  rw [decLoop_eq_radixLoop]
  rcases radixLoop_split exp 10 true (by omega) s f hf with h | ⟨run, T, rfl, hrun, hnt, hT, hT2, hl⟩
  · exact Or.inl h
  · right
    refine ⟨run, T, rfl, ?_, hnt rfl, ?_, hT2, hl⟩
    · intro c hc
      rcases hrun c hc with h | h
      · exact Or.inl (by rw [← isRadixDigit_ten]; exact h)
      · exact Or.inr h
    · rw [← isRadixDigit_ten]; exact hT

theorem decLoop_run (exp : Bool) (T : Bytes) (hT : is09 (peek T) = false)
    (hT2 : exp = true → (peek T == 0x5F) = false) (run : Bytes) (f : Nat) (hrun : URun exp is09 run)
    (hnt : NoTrailU run) (hf : run.length + 1 ≤ f) : decDigitsLoop exp f (run ++ T) = .ok T := by
  rw [decLoop_eq_radixLoop]
  refine radixLoop_run exp 10 true (by omega) T (by rw [isRadixDigit_ten]; exact hT) hT2 run f ?_ (fun _ => hnt) hf
  intro c hc
  rcases hrun c hc with h | h
  · exact Or.inl (by rw [isRadixDigit_ten]; exact h)
  · exact Or.inr h

end Edn.Proofs.CljN
