/-
  Edn.Proofs.CompleteFloat — C03 token lemmas for floats and big decimals: the reader reads the
  token in every context and returns the payload `Renders` prescribes.
-/
import Edn.Proofs.NumberReader

namespace Edn.Proofs
open Edn.Model Edn.Spec

theorem reads_float (cfg : Cfg) (opts : Opts) (d : Nat) (tok : Bytes) (h : FloatTok tok) :
    Reads cfg opts d (.float hdr0 (let p := decimalParts tok; withSign p.1 (ofDec p.2.1 p.2.2))) tok := by
  obtain ⟨sg, ip, fr, ex, neg, rfl, hs, hip, hfr, hex, hne⟩ := h
  have h1 := CNum.tok_first hs hip (fr ++ ex)
  have htok : sg ++ ip ++ (fr ++ ex) = sg ++ ip ++ fr ++ ex := by simp only [List.append_assoc]
  rw [htok] at h1
  refine CNum.reads_number cfg opts d (sg ++ ip ++ fr ++ ex)
    (.float (let p := decimalParts (sg ++ ip ++ fr ++ ex); withSign p.1 (ofDec p.2.1 p.2.2))) _ h1 ?_ (fun _ => rfl)
  intro rest ht
  exact readNumber_float_value cfg _ rest ⟨sg, ip, fr, ex, neg, rfl, hs, hip, hfr, hex, hne⟩ ht

theorem reads_bigdec (cfg : Cfg) (opts : Opts) (d : Nat) (sg body : Bytes) (neg : Bool) (hs : SignTok sg neg)
    (hb : DecDigits body ∨ FloatTok body) (hnosign : ∀ c, body.head? = some c → c ≠ 0x2B ∧ c ≠ 0x2D) :
    Reads cfg opts d (.bigdec hdr0 neg body) (sg ++ body ++ [0x4D]) := by
  have h1 : ∃ c t, sg ++ body ++ [0x4D] = c :: t ∧ (is09 c = true ∨
      ((c = 0x2B ∨ c = 0x2D) ∧ ∃ nx t', t = nx :: t' ∧ is09 nx = true)) := by
    rcases hb with hd | ⟨sg', ip, fr, ex, neg', rfl, hs', hip, _, _, _⟩
    · exact CNum.tok_first hs hd [0x4D]
    · -- the body carries no sign of its own
      have hsg' : sg' = [] := by
        rcases hs' with ⟨rfl, _⟩ | ⟨rfl, _⟩ | ⟨rfl, _⟩
        · rfl
        · exact absurd rfl (hnosign 0x2B (by simp)).1
        · exact absurd rfl (hnosign 0x2D (by simp)).2
      subst hsg'
      have := CNum.tok_first hs hip (fr ++ ex ++ [0x4D])
      simpa only [List.nil_append, List.append_assoc] using this
  refine CNum.reads_number cfg opts d (sg ++ body ++ [0x4D]) (.bigdec neg body) _ h1 ?_ (fun _ => rfl)
  intro rest ht
  exact readNumber_bigdec cfg sg body rest neg hs hb hnosign ht

end Edn.Proofs
