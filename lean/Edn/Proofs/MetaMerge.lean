/-
  Edn.Proofs.MetaMerge — C19 (metadata half): a chain of metadata markers attaches one map
  with unique keys equal to the merge of the expanded annotations with outer ones winning;
  attaching metadata leaves the target's own value, equality and hash unchanged.
-/
import Edn.Proofs.Equal
import Edn.Model.Reader

namespace Edn.Proofs
open Edn.Model Edn.Spec

/-- metadata never participates in equality, hashing or depth -/
theorem setMd_transparent (cfg : Cfg) (v : Val) (m : Option Val) :
    hashV cfg (v.setMd m) = hashV cfg v ∧ depth (v.setMd m) = depth v ∧
    (∀ f b, eqvF cfg f (v.setMd m) b = eqvF cfg f v b) ∧ (∀ f b, eqvF cfg f b (v.setMd m) = eqvF cfg f b v) := by
  sorry

/-- changing only the start of the source range (as `edn_read_metadata` does) is invisible too -/
theorem setHdr_transparent (cfg : Cfg) (v : Val) (h : Hdr) (hc : h.hc = v.hdr.hc) :
    hashV cfg (v.setHdr h) = hashV cfg v ∧ depth (v.setHdr h) = depth v ∧
    (∀ f b, eqvF cfg f (v.setHdr h) b = eqvF cfg f v b) ∧ (∀ f b, eqvF cfg f b (v.setHdr h) = eqvF cfg f b v) := by
  sorry

/-- hypotheses on annotation keys: what the reader guarantees for them -/
def KeysOK (cfg : Cfg) (ks : List Val) : Prop := Elems cfg ks ∧ pairwiseDistinct cfg ks

/-- `keepOld` keeps exactly the old entries whose key is equal to no new key, in order -/
theorem keepOld_spec (cfg : Cfg) (newKs : List Val) : ∀ (ks vs : List Val), ks.length = vs.length →
    Elems cfg newKs → Elems cfg ks →
    (keepOld cfg newKs ks vs).1.length = (keepOld cfg newKs ks vs).2.length ∧
    (∀ k ∈ (keepOld cfg newKs ks vs).1, k ∈ ks ∧ ∀ nk ∈ newKs, ¬ Eqv cfg k nk) ∧
    (∀ k ∈ ks, (∀ nk ∈ newKs, ¬ Eqv cfg k nk) → k ∈ (keepOld cfg newKs ks vs).1) ∧
    (keepOld cfg newKs ks vs).1.Sublist ks := by
  sorry

/-- the merged key list is duplicate-free again: new keys first (outer annotation wins), then
    the surviving old ones -/
theorem merged_keys_distinct (cfg : Cfg) (newKs newVs ks vs : List Val) (hl : ks.length = vs.length)
    (hn : KeysOK cfg newKs) (ho : KeysOK cfg ks) :
    pairwiseDistinct cfg (newKs ++ (keepOld cfg newKs ks vs).1) := by
  sorry

/-- looking a key up in the merged map: the new annotation's value if it has the key,
    otherwise the old one's (outer wins) -/
theorem merged_lookup (cfg : Cfg) (newKs newVs ks vs : List Val) (probe : Val)
    (hln : newKs.length = newVs.length) (hl : ks.length = vs.length)
    (hn : KeysOK cfg newKs) (ho : KeysOK cfg ks)
    (hp : WF cfg probe) (hpd : depth probe < maxDepthFuel) (hpc : cacheOK cfg probe = true) :
    findKey (fun k' k => equal cfg k' k) probe (newKs ++ (keepOld cfg newKs ks vs).1) (newVs ++ (keepOld cfg newKs ks vs).2)
      = match findKey (fun k' k => equal cfg k' k) probe newKs newVs with
        | some v => some v
        | none => findKey (fun k' k => equal cfg k' k) probe ks vs := by
  sorry

end Edn.Proofs
