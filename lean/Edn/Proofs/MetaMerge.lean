/-
  Edn.Proofs.MetaMerge — C19 (metadata half): a chain of metadata markers attaches one map
  with unique keys equal to the merge of the expanded annotations with outer ones winning;
  attaching metadata leaves the target's own value, equality and hash unchanged.
-/
import Edn.Proofs.Equal
import Edn.Model.Reader

namespace Edn.Proofs
open Edn.Model Edn.Spec

/-! ### helpers -/

theorem hashV_setMd (cfg : Cfg) (v : Val) (m : Option Val) : hashV cfg (v.setMd m) = hashV cfg v := by
  cases v <;> rfl
theorem depth_setMd (v : Val) (m : Option Val) : depth (v.setMd m) = depth v := by cases v <;> rfl
theorem body_setMd_left (cfg : Cfg) (p : Val → Val → Bool) (v b : Val) (m : Option Val) :
    body cfg p (v.setMd m) b = body cfg p v b := by cases v <;> rfl
theorem body_setMd_right (cfg : Cfg) (p : Val → Val → Bool) (v b : Val) (m : Option Val) :
    body cfg p b (v.setMd m) = body cfg p b v := by cases b <;> cases v <;> rfl

theorem eqvF_setMd_left (cfg : Cfg) (f : Nat) (v b : Val) (m : Option Val) :
    eqvF cfg f (v.setMd m) b = eqvF cfg f v b := by
  cases f with
  | zero => rfl
  | succ f => rw [eqvF_succ, eqvF_succ, body_setMd_left]

theorem eqvF_setMd_right (cfg : Cfg) (f : Nat) (v b : Val) (m : Option Val) :
    eqvF cfg f b (v.setMd m) = eqvF cfg f b v := by
  cases f with
  | zero => rfl
  | succ f => rw [eqvF_succ, eqvF_succ, body_setMd_right]

theorem keepOld_cons (cfg : Cfg) (newKs : List Val) (k v : Val) (ks vs : List Val) :
    keepOld cfg newKs (k :: ks) (v :: vs) =
      if newKs.any (fun nk => equal cfg k nk) then keepOld cfg newKs ks vs
      else (k :: (keepOld cfg newKs ks vs).1, v :: (keepOld cfg newKs ks vs).2) := by
  rw [keepOld]

theorem findKey_cons (p : Val → Val → Bool) (k k' v' : Val) (ks vs : List Val) :
    findKey p k (k' :: ks) (v' :: vs) = if p k k' then some v' else findKey p k ks vs := rfl

theorem findKey_append (p : Val → Val → Bool) (k : Val) (ks2 vs2 : List Val) :
    ∀ (ks vs : List Val), ks.length = vs.length →
    findKey p k (ks ++ ks2) (vs ++ vs2) =
      match findKey p k ks vs with
      | some v => some v
      | none => findKey p k ks2 vs2 := by
  intro ks
  induction ks with
  | nil =>
    intro vs hl
    cases vs with
    | nil => rfl
    | cons v vs => simp at hl
  | cons k' ks ih =>
    intro vs hl
    cases vs with
    | nil => simp at hl
    | cons v' vs =>
      have hl' : ks.length = vs.length := by simpa using hl
      show findKey p k (k' :: (ks ++ ks2)) (v' :: (vs ++ vs2)) = _
      rw [findKey_cons, findKey_cons]
      cases hp : p k k' with
      | true => rfl
      | false => exact ih vs hl'

theorem findKey_none_all (p : Val → Val → Bool) (k : Val) :
    ∀ (ks vs : List Val), ks.length = vs.length → findKey p k ks vs = none →
    ∀ k' ∈ ks, p k k' = false := by
  intro ks
  induction ks with
  | nil => intro vs _ _ k' hk'; cases hk'
  | cons k0 ks ih =>
    intro vs hl hf k' hk'
    cases vs with
    | nil => simp at hl
    | cons v0 vs =>
      have hl' : ks.length = vs.length := by simpa using hl
      rw [findKey_cons] at hf
      cases hp : p k k0 with
      | true => rw [hp] at hf; cases hf
      | false =>
        rw [hp] at hf
        rcases List.mem_cons.mp hk' with h | h
        · rw [h]; exact hp
        · exact ih vs hl' hf k' h

/-- metadata never participates in equality, hashing or depth -/
theorem setMd_transparent (cfg : Cfg) (v : Val) (m : Option Val) :
    hashV cfg (v.setMd m) = hashV cfg v ∧ depth (v.setMd m) = depth v ∧
    (∀ f b, eqvF cfg f (v.setMd m) b = eqvF cfg f v b) ∧ (∀ f b, eqvF cfg f b (v.setMd m) = eqvF cfg f b v) := by
  exact ⟨hashV_setMd cfg v m, depth_setMd v m, fun f b => eqvF_setMd_left cfg f v b m,
    fun f b => eqvF_setMd_right cfg f v b m⟩

/-- changing only the start of the source range (as `edn_read_metadata` does) is invisible too -/
theorem setHdr_transparent (cfg : Cfg) (v : Val) (h : Hdr) (hc : h.hc = v.hdr.hc) :
    hashV cfg (v.setHdr h) = hashV cfg v ∧ depth (v.setHdr h) = depth v ∧
    (∀ f b, eqvF cfg f (v.setHdr h) b = eqvF cfg f v b) ∧ (∀ f b, eqvF cfg f b (v.setHdr h) = eqvF cfg f b v) := by
  exact ⟨hashV_setHdr cfg v h, depth_setHdr v h, fun f b => eqvF_setHdr_left cfg f v b h,
    fun f b => eqvF_setHdr_right cfg f v b h⟩

/-- hypotheses on annotation keys: what the reader guarantees for them -/
def KeysOK (cfg : Cfg) (ks : List Val) : Prop := Elems cfg ks ∧ pairwiseDistinct cfg ks

/-- `keepOld` keeps exactly the old entries whose key is equal to no new key, in order -/
theorem keepOld_spec (cfg : Cfg) (newKs : List Val) : ∀ (ks vs : List Val), ks.length = vs.length →
    Elems cfg newKs → Elems cfg ks →
    (keepOld cfg newKs ks vs).1.length = (keepOld cfg newKs ks vs).2.length ∧
    (∀ k ∈ (keepOld cfg newKs ks vs).1, k ∈ ks ∧ ∀ nk ∈ newKs, ¬ Eqv cfg k nk) ∧
    (∀ k ∈ ks, (∀ nk ∈ newKs, ¬ Eqv cfg k nk) → k ∈ (keepOld cfg newKs ks vs).1) ∧
    (keepOld cfg newKs ks vs).1.Sublist ks := by
  intro ks
  induction ks with
  | nil =>
    intro vs _ _ _
    have e : keepOld cfg newKs [] vs = ([], []) := by rw [keepOld]; intros; contradiction
    rw [e]
    exact ⟨rfl, fun k hk => (by cases hk), fun k hk => (by cases hk), List.Sublist.refl _⟩
  | cons k ks ih =>
    intro vs hl hn ho
    cases vs with
    | nil => simp at hl
    | cons v vs =>
      have hl' : ks.length = vs.length := by simpa using hl
      obtain ⟨i1, i2, i3, i4⟩ := ih vs hl' hn ho.tail
      have hk := ho k List.mem_cons_self
      have heq : ∀ nk ∈ newKs, (equal cfg k nk = true ↔ Eqv cfg k nk) := fun nk hnk =>
        equal_iff_Eqv cfg k nk hk.1 (hn nk hnk).1 hk.2.1 (hn nk hnk).2.1 hk.2.2 (hn nk hnk).2.2
      rw [keepOld_cons]
      cases hany : newKs.any (fun nk => equal cfg k nk) with
      | true =>
        rw [if_pos rfl]
        obtain ⟨nk0, hnk0, he0⟩ := List.any_eq_true.mp hany
        refine ⟨i1, ?_, ?_, i4.trans (List.sublist_cons_self _ _)⟩
        · intro k' hk'
          exact ⟨List.mem_cons_of_mem _ (i2 k' hk').1, (i2 k' hk').2⟩
        · intro k' hk' hno
          rcases List.mem_cons.mp hk' with h | h
          · subst h
            exact absurd ((heq nk0 hnk0).mp he0) (hno nk0 hnk0)
          · exact i3 k' h hno
      | false =>
        rw [if_neg (by simp)]
        have hall := List.any_eq_false.mp hany
        refine ⟨by simp [i1], ?_, ?_, i4.cons_cons _⟩
        · intro k' hk'
          rcases List.mem_cons.mp hk' with h | h
          · subst h
            exact ⟨List.mem_cons_self, fun nk hnk he => hall nk hnk ((heq nk hnk).mpr he)⟩
          · exact ⟨List.mem_cons_of_mem _ (i2 k' h).1, (i2 k' h).2⟩
        · intro k' hk' hno
          rcases List.mem_cons.mp hk' with h | h
          · subst h; exact List.mem_cons_self
          · exact List.mem_cons_of_mem _ (i3 k' h hno)

/-- the merged key list is duplicate-free again: new keys first (outer annotation wins), then
    the surviving old ones -/
theorem merged_keys_distinct (cfg : Cfg) (newKs newVs ks vs : List Val) (hl : ks.length = vs.length)
    (hn : KeysOK cfg newKs) (ho : KeysOK cfg ks) :
    pairwiseDistinct cfg (newKs ++ (keepOld cfg newKs ks vs).1) := by
  obtain ⟨_, s2, _, s4⟩ := keepOld_spec cfg newKs ks vs hl hn.1 ho.1
  unfold pairwiseDistinct
  rw [List.pairwise_append]
  refine ⟨hn.2, List.Pairwise.sublist s4 ho.2, ?_⟩
  intro a ha b hb
  have hb' := s2 b hb
  have hnab : ¬ Eqv cfg b a := hb'.2 a ha
  exact ⟨fun he => hnab (Eqv_symm cfg a b (hn.1 a ha).2.1 (ho.1 b hb'.1).2.1 he), hnab⟩

/-- searching the surviving old entries is the same as searching all old entries, for a probe
    that is equal to no new key -/
theorem keepOld_findKey (cfg : Cfg) (newKs : List Val) (probe : Val) (hn : Elems cfg newKs)
    (hp : WF cfg probe) (hpd : depth probe < maxDepthFuel) (hpc : cacheOK cfg probe = true)
    (hnone : ∀ nk ∈ newKs, equal cfg probe nk = false) :
    ∀ (ks vs : List Val), ks.length = vs.length → Elems cfg ks →
    findKey (fun k' k => equal cfg k' k) probe (keepOld cfg newKs ks vs).1 (keepOld cfg newKs ks vs).2
      = findKey (fun k' k => equal cfg k' k) probe ks vs := by
  intro ks
  induction ks with
  | nil =>
    intro vs _ _
    have e : keepOld cfg newKs [] vs = ([], []) := by rw [keepOld]; intros; contradiction
    rw [e]; rfl
  | cons k ks ih =>
    intro vs hl ho
    cases vs with
    | nil => simp at hl
    | cons v vs =>
      have hl' : ks.length = vs.length := by simpa using hl
      have ih' := ih vs hl' ho.tail
      have hk := ho k List.mem_cons_self
      rw [keepOld_cons, findKey_cons]
      cases hany : newKs.any (fun nk => equal cfg k nk) with
      | true =>
        rw [if_pos rfl, ih']
        obtain ⟨nk0, hnk0, he0⟩ := List.any_eq_true.mp hany
        have hnk := hn nk0 hnk0
        have e1 : Eqv cfg k nk0 :=
          (equal_iff_Eqv cfg k nk0 hk.1 hnk.1 hk.2.1 hnk.2.1 hk.2.2 hnk.2.2).mp he0
        cases hpk : equal cfg probe k with
        | false => simp
        | true =>
          exfalso
          have e2 : Eqv cfg probe k :=
            (equal_iff_Eqv cfg probe k hpd hk.1 hp hk.2.1 hpc hk.2.2).mp hpk
          have e3 := Eqv_trans cfg probe k nk0 hp hk.2.1 hnk.2.1 e2 e1
          have := (equal_iff_Eqv cfg probe nk0 hpd hnk.1 hp hnk.2.1 hpc hnk.2.2).mpr e3
          rw [hnone nk0 hnk0] at this
          cases this
      | false =>
        rw [if_neg (by simp)]
        show findKey _ probe (k :: _) (v :: _) = _
        rw [findKey_cons, ih']

/-- looking a key up in the merged map: the new annotation's value if it has the key,
    otherwise the old one's (outer wins) -/
theorem merged_lookup (cfg : Cfg) (newKs newVs ks vs : List Val) (probe : Val)
    (hln : newKs.length = newVs.length) (hl : ks.length = vs.length)
    (hn : KeysOK cfg newKs) (ho : KeysOK cfg ks)
    (hp : WF cfg probe) (hpd : depth probe < maxDepthFuel) (hpc : cacheOK cfg probe = true) :
    findKey (fun k' k => equal cfg k' k) probe (newKs ++ (keepOld cfg newKs ks vs).1) (newVs ++ (keepOld cfg newKs ks vs).2)
      = match findKey (fun k' k => equal cfg k' k) probe newKs newVs with
        | some v => some v
        | none => findKey (fun k' k => equal cfg k' k) probe ks vs := by
  have hlk := (keepOld_spec cfg newKs ks vs hl hn.1 ho.1).1
  rw [findKey_append _ _ _ _ newKs newVs hln]
  cases hf : findKey (fun k' k => equal cfg k' k) probe newKs newVs with
  | some v => rfl
  | none =>
    show findKey _ probe (keepOld cfg newKs ks vs).1 (keepOld cfg newKs ks vs).2 = findKey _ probe ks vs
    have hnone := findKey_none_all _ probe newKs newVs hln hf
    exact keepOld_findKey cfg newKs probe hn.1 hp hpd hpc hnone ks vs hl ho.1

end Edn.Proofs
