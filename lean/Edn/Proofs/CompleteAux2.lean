/-
  Edn.Proofs.CompleteAux2 — reader-side structure for the completeness theorem: blanks,
  terminators, the dispatch on opening and closing delimiters, and the element loops
  (`readSeq`, `readMap`) driven by a fuel-independent description of "the forms up to the
  closing delimiter are read as `ws`".
-/
import Edn.Spec.Renders
import Edn.Proofs.Trivia
import Edn.Proofs.ReaderInv
import Edn.Proofs.CompleteAux1

namespace Edn.Proofs.Cmpl
open Edn.Model Edn.Spec Edn.Generated Edn.Proofs

/-! ### blanks and terminators -/

theorem blank_toPlain {tr : Bytes} (h : Blank tr) : PlainTrivia tr := by
  induction h with
  | nil => exact .nil
  | ws c t hw _ ih => exact .ws c t hw ih
  | comment body t hb _ ih => exact .comment body t hb ih

theorem ws_or_semi_term {c : UInt8} (h : (isWs c || c == 0x3B) = true) :
    isNumTerm c = true ∧ isDelim c = true := by
  have := ws_terminates c
  simp only [wsTerminates, h, Bool.not_true, Bool.false_or, Bool.and_eq_true] at this
  exact this

theorem blank_head_term {c : UInt8} {t : Bytes} (h : Blank (c :: t)) :
    isNumTerm c = true ∧ isDelim c = true := by
  apply ws_or_semi_term
  cases h with
  | ws _ _ hw _ => simp [hw]
  | comment body t' hb _ => simp

/-- the three closing delimiters -/
def IsCloser (c : UInt8) : Prop := c = 0x29 ∨ c = 0x5D ∨ c = 0x7D

theorem IsCloser.term {c : UInt8} (h : IsCloser c) : isNumTerm c = true := by
  rcases h with rfl | rfl | rfl <;> decide +kernel

theorem TermStart_cons {c : UInt8} {t : Bytes} (h : isNumTerm c = true) : TermStart (c :: t) :=
  Or.inr ⟨c, t, rfl, h⟩

theorem TermStart_blank {sep : Bytes} (x : Bytes) (h : Blank sep) (hne : sep ≠ []) : TermStart (sep ++ x) := by
  cases sep with
  | nil => exact absurd rfl hne
  | cons c t => exact TermStart_cons (blank_head_term h).1

theorem TermStart_blank_closer {tr : Bytes} {c : UInt8} (rest : Bytes) (h : Blank tr) (hc : IsCloser c) :
    TermStart (tr ++ c :: rest) := by
  cases tr with
  | nil => exact TermStart_cons hc.term
  | cons c0 t => exact TermStart_cons (blank_head_term h).1

/-! ### `Reads` -/

theorem reads_blank_aux (cfg : Cfg) (opts : Opts) (d : Nat) (a : Val) (tr s : Bytes) (ht : Blank tr)
    (h : Reads cfg opts d a s) : Reads cfg opts d a (tr ++ s) := by
  intro dm rest cl f hT hf
  cases f with
  | zero => omega
  | succ f =>
    rw [List.append_assoc, readValue_trivia_prefix _ f d dm tr (s ++ rest) cl (blank_toPlain ht)]
    apply h dm rest cl (f + 1) hT
    rw [List.length_append] at hf
    omega

/-- a successfully read form is not empty -/
theorem reads_consumes {cfg : Cfg} {opts : Opts} {d : Nat} {a : Val} {s : Bytes} (h : Reads cfg opts d a s) :
    0 < s.length := by
  obtain ⟨v, hv, -⟩ := h false [] [] (2 * (s.length + 0) + 2) (Or.inl rfl) (Nat.le_refl _)
  have := (reader_progress { cfg := cfg, opts := opts } (2 * (s.length + 0) + 2)).1 d false
    { rest := s ++ [], calls := [] }
  rw [hv] at this
  simp only [Progress, List.append_nil, List.length_nil] at this
  omega

/-! ### the dispatch on delimiters -/

theorem dispatch_closer (cfg : Cfg) {c : UInt8} (h : IsCloser c) : dispatch cfg c = .delimiter := by
  obtain ⟨clj, exp⟩ := cfg
  rcases h with rfl | rfl | rfl <;> cases clj <;> cases exp <;> decide +kernel

theorem IsCloser.notPreWs {c : UInt8} (h : IsCloser c) : isPreWs c = false := by
  rcases h with rfl | rfl | rfl <;> decide +kernel

/-- inside a collection a closing delimiter is reported to the caller -/
theorem readValue_closer (ctx : Ctx) (f d : Nat) (dm : Bool) (c : UInt8) (rest : Bytes) (cl : List Call)
    (hc : IsCloser c) :
    readValue ctx (f + 1) (d + 1) dm { rest := c :: rest, calls := cl } = .closer { rest := c :: rest, calls := cl } := by
  rw [readValue_succ]
  unfold rvOuter
  simp only [hc.notPreWs, Bool.false_eq_true, ↓reduceIte]
  unfold rvStep
  simp only [dispatch_closer ctx.cfg hc]
  rw [if_neg (by simp)]

theorem readValue_listOpen (ctx : Ctx) (f d : Nat) (dm : Bool) (cs : Bytes) (cl : List Call)
    (hd : d < Tables.maxNestingDepth) :
    readValue ctx (f + 1) d dm { rest := 0x28 :: cs, calls := cl } =
      readSeq ctx f d dm 0 (cs.length + 1) { rest := cs, calls := cl } [] := by
  have hdisp : dispatch ctx.cfg 0x28 = .listOpen := by
    obtain ⟨clj, exp⟩ := ctx.cfg
    cases clj <;> cases exp <;> decide +kernel
  have hp : isPreWs 0x28 = false := by decide +kernel
  have hnd : ¬ (d ≥ Tables.maxNestingDepth) := by omega
  rw [readValue_succ]
  unfold rvOuter
  simp only [hp, Bool.false_eq_true, ↓reduceIte]
  unfold rvStep
  simp only [hdisp]
  simp only [hnd, decide_false, Bool.false_eq_true, ↓reduceIte]
  rfl

theorem readValue_vecOpen (ctx : Ctx) (f d : Nat) (dm : Bool) (cs : Bytes) (cl : List Call)
    (hd : d < Tables.maxNestingDepth) :
    readValue ctx (f + 1) d dm { rest := 0x5B :: cs, calls := cl } =
      readSeq ctx f d dm 1 (cs.length + 1) { rest := cs, calls := cl } [] := by
  have hdisp : dispatch ctx.cfg 0x5B = .vectorOpen := by
    obtain ⟨clj, exp⟩ := ctx.cfg
    cases clj <;> cases exp <;> decide +kernel
  have hp : isPreWs 0x5B = false := by decide +kernel
  have hnd : ¬ (d ≥ Tables.maxNestingDepth) := by omega
  rw [readValue_succ]
  unfold rvOuter
  simp only [hp, Bool.false_eq_true, ↓reduceIte]
  unfold rvStep
  simp only [hdisp]
  simp only [hnd, decide_false, Bool.false_eq_true, ↓reduceIte]
  rfl

theorem readValue_mapOpen (ctx : Ctx) (f d : Nat) (dm : Bool) (cs : Bytes) (cl : List Call)
    (hd : d < Tables.maxNestingDepth) :
    readValue ctx (f + 1) d dm { rest := 0x7B :: cs, calls := cl } =
      readMap ctx f d dm (cs.length + 1) none { rest := cs, calls := cl } [] [] := by
  have hdisp : dispatch ctx.cfg 0x7B = .mapOpen := by
    obtain ⟨clj, exp⟩ := ctx.cfg
    cases clj <;> cases exp <;> decide +kernel
  have hp : isPreWs 0x7B = false := by decide +kernel
  have hnd : ¬ (d ≥ Tables.maxNestingDepth) := by omega
  rw [readValue_succ]
  unfold rvOuter
  simp only [hp, Bool.false_eq_true, ↓reduceIte]
  unfold rvStep
  simp only [hdisp]
  simp only [hnd, decide_false, Bool.false_eq_true, ↓reduceIte]
  rfl

theorem dispatch_hash (cfg : Cfg) : dispatch cfg 0x23 = .hash := by
  obtain ⟨clj, exp⟩ := cfg
  cases clj <;> cases exp <;> decide +kernel

theorem readValue_setOpen (ctx : Ctx) (f d : Nat) (dm : Bool) (cs : Bytes) (cl : List Call)
    (hd : d < Tables.maxNestingDepth) :
    readValue ctx (f + 1) d dm { rest := 0x23 :: 0x7B :: cs, calls := cl } =
      readSeq ctx f d dm 2 (cs.length + 2) { rest := cs, calls := cl } [] := by
  have hp : isPreWs 0x23 = false := by decide +kernel
  have hnd : ¬ (d ≥ Tables.maxNestingDepth) := by omega
  rw [readValue_succ]
  unfold rvOuter
  simp only [hp, Bool.false_eq_true, ↓reduceIte]
  unfold rvStep
  simp only [dispatch_hash]
  simp only [hnd, decide_false, Bool.false_eq_true, ↓reduceIte]
  have e1 : ((0x7B : UInt8) == 0x23) = false := by decide
  simp only [e1, Bool.false_eq_true, ↓reduceIte, beq_self_eq_true]
  rfl

/-- `#` followed by a byte that starts a tag -/
theorem readValue_tagOpen (ctx : Ctx) (f d : Nat) (dm : Bool) (c : UInt8) (cs : Bytes) (cl : List Call)
    (hd : d < Tables.maxNestingDepth)
    (h1 : c ≠ 0x23) (h2 : c ≠ 0x7B) (h3 : c ≠ 0x5F) (h4 : c ≠ 0x3A) :
    readValue ctx (f + 1) d dm { rest := 0x23 :: c :: cs, calls := cl } =
      readTagged ctx f d dm (cs.length + 2) { rest := c :: cs, calls := cl } := by
  have hp : isPreWs 0x23 = false := by decide +kernel
  have hnd : ¬ (d ≥ Tables.maxNestingDepth) := by omega
  rw [readValue_succ]
  unfold rvOuter
  simp only [hp, Bool.false_eq_true, ↓reduceIte]
  unfold rvStep
  simp only [dispatch_hash]
  simp only [hnd, decide_false, Bool.false_eq_true, ↓reduceIte]
  have e1 : (c == 0x23) = false := by simpa using h1
  have e2 : (c == 0x7B) = false := by simpa using h2
  have e3 : (c == 0x5F) = false := by simpa using h3
  have e4 : (c == 0x3A) = false := by simpa using h4
  simp only [e1, e2, e3, e4, Bool.false_eq_true, ↓reduceIte, Bool.and_false]
  rfl

/-! ### the forms up to the closing delimiter -/

/-- `ReadsSeq ctx d dm st ws st'`: starting at `st`, inside a collection opened at depth `d`,
    `readValue` returns the values `ws` one after the other and then reports a closing
    delimiter at `st'` — with any sufficient fuel -/
inductive ReadsSeq (ctx : Ctx) (d : Nat) (dm : Bool) : St → List Val → St → Prop
  | done (st st' : St)
      (h : ∀ f, 2 * st.rest.length + 2 ≤ f → readValue ctx f (d + 1) dm st = .closer st') :
      ReadsSeq ctx d dm st [] st'
  | step (st st1 st' : St) (v : Val) (vs : List Val)
      (h : ∀ f, 2 * st.rest.length + 2 ≤ f → readValue ctx f (d + 1) dm st = .ok v st1)
      (hlt : st1.rest.length < st.rest.length)
      (hr : ReadsSeq ctx d dm st1 vs st') :
      ReadsSeq ctx d dm st (v :: vs) st'

theorem ReadsSeq.blank {ctx : Ctx} {d : Nat} {dm : Bool} {s : Bytes} {cl : List Call} {ws : List Val} {st' : St}
    (tr : Bytes) (ht : Blank tr)
    (h : ReadsSeq ctx d dm { rest := s, calls := cl } ws st') :
    ReadsSeq ctx d dm { rest := tr ++ s, calls := cl } ws st' := by
  have key : ∀ f, 2 * (tr ++ s).length + 2 ≤ f →
      readValue ctx f (d + 1) dm { rest := tr ++ s, calls := cl } = readValue ctx f (d + 1) dm { rest := s, calls := cl } := by
    intro f hf
    cases f with
    | zero => omega
    | succ f => exact readValue_trivia_prefix ctx f (d + 1) dm tr s cl (blank_toPlain ht)
  cases h with
  | done _ _ h1 =>
    refine .done _ _ ?_
    intro f hf
    rw [key f hf]
    apply h1
    simp only [List.length_append] at hf ⊢
    omega
  | step _ st1 _ v vs h1 hlt hr =>
    refine .step _ st1 _ v vs ?_ ?_ hr
    · intro f hf
      rw [key f hf]
      apply h1
      simp only [List.length_append] at hf ⊢
      omega
    · simp only [List.length_append] at hlt ⊢
      omega

/-- every element was returned by `readValue` one level below the collection -/
theorem ReadsSeq.mem_read {ctx : Ctx} {d : Nat} {dm : Bool} {st st' : St} {ws : List Val}
    (h : ReadsSeq ctx d dm st ws st') :
    ∀ w ∈ ws, ∃ f st0 st1, readValue ctx f (d + 1) dm st0 = .ok w st1 := by
  induction h with
  | done => intro w hw; cases hw
  | step st st1 st' v vs h1 _ _ ih =>
    intro w hw
    rcases List.mem_cons.mp hw with rfl | hw
    · exact ⟨_, st, st1, h1 _ (Nat.le_refl _)⟩
    · exact ih w hw

theorem ReadsSeq.elems {ctx : Ctx} {d : Nat} {dm : Bool} {st st' : St} {ws : List Val}
    (hreg : ctx.opts.registry = none) (hd : d + 1 ≤ Tables.maxNestingDepth)
    (h : ReadsSeq ctx d dm st ws st') : Elems ctx.cfg ws := by
  intro w hw
  obtain ⟨f, st0, st1, hr⟩ := h.mem_read w hw
  obtain ⟨h1, h2, h3⟩ := readValue_inv ctx hreg f (d + 1) dm st0 st1 w hd hr
  refine ⟨?_, h2, h3⟩
  have := nest_le_rec
  show depth w < Tables.maxRecursionDepth + 1
  omega

/-! ### the loops -/

/-- what `readSeq` does once the closing delimiter has been reported at `st'` -/
def closeSeq (ctx : Ctx) (kind start : Nat) (st' : St) (acc : List Val) : Res :=
  match st'.rest with
  | [] => .err (mkErr .unmatchedDelimiter (some start) (some (st'.rest.length - 1))) st'
  | c :: r =>
    if c != closerByte kind then
      .err (mkErr .unmatchedDelimiter (some start) (some (st'.rest.length - 1))) st'
    else
      let st'' := { st' with rest := r }
      let stop := ctx.pos r
      let xs := acc.reverse
      let h : Hdr := (mkHdr (start) (stop))
      if kind == 0 then .ok (.list h none xs) st''
      else if kind == 1 then .ok (.vec h none xs) st''
      else
        let (dup, ys) := hasDuplicates ctx.cfg xs
        if dup then .err (mkErr .duplicateElement (some start) (some stop)) st''
        else .ok (.set h none ys) st''

theorem readSeq_of_ReadsSeq {ctx : Ctx} {d : Nat} {dm : Bool} {st st' : St} {ws : List Val}
    (kind start : Nat) (h : ReadsSeq ctx d dm st ws st') :
    ∀ (f : Nat) (acc : List Val), 2 * st.rest.length + 3 ≤ f →
      readSeq ctx f d dm kind start st acc = closeSeq ctx kind start st' (ws.reverse ++ acc) := by
  induction h with
  | done st st' h1 =>
    intro f acc hf
    cases f with
    | zero => omega
    | succ f =>
      rw [readSeq_succ]
      unfold rsStep
      rw [h1 f (by omega)]
      rfl
  | step st st1 st' v vs h1 hlt _ ih =>
    intro f acc hf
    cases f with
    | zero => omega
    | succ f =>
      rw [readSeq_succ]
      unfold rsStep
      rw [h1 f (by omega)]
      simp only []
      rw [ih f (v :: acc) (by omega)]
      rw [List.reverse_cons, List.append_assoc]
      rfl

/-- what `readMap` does once the closing delimiter has been reported at `st'` -/
def closeMap (ctx : Ctx) (start : Nat) (st' : St) (ks vs : List Val) : Res :=
  match st'.rest with
  | [] => .err (mkErr .unexpectedEof (some start) (some (ctx.pos st'.rest))) st'
  | c :: r =>
    if c != 0x7D then .err (mkErr .unmatchedDelimiter (some start) (some (st'.rest.length - 1))) st'
    else
      let st'' := { st' with rest := r }
      let stop := ctx.pos r
      let keys := ks.reverse
      let vals := vs.reverse
      let (dup, keys') := hasDuplicates ctx.cfg keys
      if dup then .err (mkErr .duplicateKey (some start) (some stop)) st''
      else .ok (.map (mkHdr (start) (stop)) none keys' vals) st''

theorem readMap_of_ReadsSeq {ctx : Ctx} {d : Nat} {dm : Bool} {st' : St} (start : Nat) :
    ∀ (ks vs : List Val), ks.length = vs.length → ∀ (st : St),
      ReadsSeq ctx d dm st (interleaveKV ks vs) st' →
      ∀ (f : Nat) (aks avs : List Val), 2 * st.rest.length + 3 ≤ f →
        readMap ctx f d dm start none st aks avs =
          closeMap ctx start st' (ks.reverse ++ aks) (vs.reverse ++ avs) := by
  intro ks
  induction ks with
  | nil =>
    intro vs hl st h f aks avs hf
    cases vs with
    | cons _ _ => cases hl
    | nil =>
      cases h with
      | done _ _ h1 =>
        cases f with
        | zero => omega
        | succ f =>
          rw [readMap_succ]
          unfold rmStep
          simp only []
          rw [h1 f (by omega)]
          rfl
  | cons k ks ih =>
    intro vs hl st h f aks avs hf
    cases vs with
    | nil => cases hl
    | cons v vs =>
      have hl' : ks.length = vs.length := by simpa using hl
      have hi : interleaveKV (k :: ks) (v :: vs) = k :: v :: interleaveKV ks vs := rfl
      rw [hi] at h
      cases h with
      | step _ st1 _ _ _ h1 hlt1 hr1 =>
        cases hr1 with
        | step _ st2 _ _ _ h2 hlt2 hr2 =>
          cases f with
          | zero => omega
          | succ f =>
            rw [readMap_succ]
            unfold rmStep
            simp only []
            rw [h1 f (by omega)]
            simp only []
            rw [h2 f (by omega)]
            simp only []
            rw [ih vs hl' st2 hr2 f (k :: aks) (v :: avs) (by omega)]
            rw [List.reverse_cons, List.append_assoc, List.reverse_cons, List.append_assoc]
            rfl

/-- splitting the read forms of a map body into keys and values -/
theorem interleave_split : ∀ (ks vs : List Val), ks.length = vs.length → ∀ (ws : List Val),
    stripL ws = interleaveKV ks vs →
    ∃ ks' vs', ws = interleaveKV ks' vs' ∧ stripL ks' = ks ∧ stripL vs' = vs ∧ ks'.length = vs'.length := by
  intro ks
  induction ks with
  | nil =>
    intro vs hl ws h
    cases vs with
    | cons _ _ => cases hl
    | nil =>
      cases ws with
      | nil => exact ⟨[], [], rfl, stripL_nil, stripL_nil, rfl⟩
      | cons w ws => rw [stripL_cons] at h; cases h
  | cons k ks ih =>
    intro vs hl ws h
    cases vs with
    | nil => cases hl
    | cons v vs =>
      have hl' : ks.length = vs.length := by simpa using hl
      have hi : interleaveKV (k :: ks) (v :: vs) = k :: v :: interleaveKV ks vs := rfl
      rw [hi] at h
      cases ws with
      | nil => rw [stripL_nil] at h; cases h
      | cons w1 ws =>
        cases ws with
        | nil => rw [stripL_cons, stripL_nil] at h; cases h
        | cons w2 ws =>
          rw [stripL_cons, stripL_cons] at h
          injection h with e1 h
          injection h with e2 h
          obtain ⟨ks', vs', e, hk, hv, hlen⟩ := ih vs hl' ws h
          refine ⟨w1 :: ks', w2 :: vs', ?_, ?_, ?_, ?_⟩
          · rw [e]; rfl
          · rw [stripL_cons, e1, hk]
          · rw [stripL_cons, e2, hv]
          · simp [hlen]

end Edn.Proofs.Cmpl
