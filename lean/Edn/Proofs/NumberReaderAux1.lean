/-
  Edn.Proofs.NumberReaderAux1 — walking `readNumber` through the decimal forms: integer part,
  fraction, exponent, up to `decimalTail` (floats, big decimals, ratios).
-/
import Edn.Spec.NumberLit
import Edn.Proofs.CompleteNum

namespace Edn.Proofs.NRd
open Edn.Model Edn.Spec Edn.Proofs Edn.Proofs.CNum

/-! ## byte facts -/

/-- what the integer-part walk needs to know about the byte after the digits (`.`, `e`, `E`
    allowed) -/
def stopA (c : UInt8) : Bool :=
  !is09 c && c != 0x5F && c != 0x72 && c != 0x52 &&
  c != 0x78 && c != 0x58 && c != 0x30 && !(0x31 ≤ c && c ≤ 0x37) && c != 0x38 && c != 0x39

theorem stopA_unpack {c : UInt8} (h : stopA c = true) :
    is09 c = false ∧ (c == 0x5F) = false ∧ (c == 0x72) = false ∧ (c == 0x52) = false ∧
    (c == 0x78) = false ∧ (c == 0x58) = false ∧ (c == 0x30) = false ∧
    (decide (0x31 ≤ c) && decide (c ≤ 0x37)) = false ∧ (c == 0x38) = false ∧ (c == 0x39) = false := by
  simp only [stopA, bne, Bool.and_eq_true, Bool.not_eq_true', and_assoc] at h
  exact h

def stopPropsA (c : UInt8) : Bool := !stopProps c || stopA c
theorem stopPropsA_all : ∀ c, stopPropsA c = true := forall_u8_bool _ (by decide +kernel)

theorem stopA_of_stopProps {c : UInt8} (h : stopProps c = true) : stopA c = true := by
  have := stopPropsA_all c
  simpa [stopPropsA, h] using this

/-! ## the integer part -/

theorem numBody_nonzero' (cfg : Cfg) (s0 : Bytes) (neg : Bool) (d : UInt8) (ds X : Bytes)
    (hd : ∀ c ∈ d :: ds, is09 c = true) (hnz : d ≠ 0x30) (hstop : stopA (peek X) = true) :
    numBody cfg s0 neg (d :: ds ++ X) =
      (if peek X == 0x2E then decimalPart cfg s0 neg (d :: ds ++ X) X
       else afterMantissa cfg s0 neg false (d :: ds ++ X) X) := by
  have hsp := stopA_unpack hstop
  have hdw : (d :: ds ++ X).dropWhile is09 = X := dropWhile_digits X hsp.1 (d :: ds) hd
  have hloop := decDigitsLoop_digits cfg.exp X hsp.1 hsp.2.1 (d :: ds) ((d :: ds ++ X).length + 1) hd
    (by simp)
  have hpk : peek (d :: ds ++ X) = d := rfl
  have hd0 : (d == 0x30) = false := by simpa using hnz
  unfold numBody
  simp only [hdw, hpk, hd0, hloop, Bool.false_eq_true, ↓reduceIte]
  cases X with
  | nil => simp
  | cons r t =>
    have h1 : (r == 0x72) = false := hsp.2.2.1
    have h2 : (r == 0x52) = false := hsp.2.2.2.1
    simp [h1, h2]

theorem numBody_zero' (cfg : Cfg) (s0 : Bytes) (neg : Bool) (X : Bytes)
    (hstop : stopA (peek X) = true) :
    numBody cfg s0 neg (0x30 :: X) =
      (if peek X == 0x2E then decimalPart cfg s0 neg (0x30 :: X) X
       else if peek X == 0x4E then finishNum (.bigint neg 10 [0x30]) (adv X)
       else if peek X == 0x4D then finishNum (.bigdec neg [0x30]) (adv X)
       else if peek X == 0x65 || peek X == 0x45 then exponentPart cfg s0 neg false (0x30 :: X) X
       else if cfg.clj && peek X == 0x2F then
        match ratioDenominator (adv X) with
        | .error cur => .err cur
        | .ok s' => .ok (.int 0) s'
       else finishNum (.int 0) X) := by
  have hsp := stopA_unpack hstop
  have hdw : (0x30 :: X).dropWhile is09 = X :=
    dropWhile_digits X hsp.1 [0x30] (by intro c hc; simp at hc; subst hc; decide)
  have hdz : X.dropWhile (· == 0x30) = X :=
    dropWhile_peek_false _ X hsp.2.2.2.2.2.2.1
  have hpk : peek (0x30 :: X) = 0x30 := rfl
  have hadv : adv (0x30 :: X) = X := rfl
  have h00 : ((0x30 : UInt8) == 0x30) = true := rfl
  unfold numBody
  simp only [hdw, hpk, hadv, h00, ↓reduceIte]
  cases hclj : cfg.clj
  · simp only [Bool.false_and, Bool.false_eq_true, ↓reduceIte, hsp.1]
  · simp only [Bool.true_and, hdz, hsp.2.2.2.2.1, hsp.2.2.2.2.2.1, hsp.2.2.2.2.2.2.2.1,
      hsp.2.2.2.2.2.2.2.2.1, hsp.2.2.2.2.2.2.2.2.2,
      Bool.or_self, Bool.false_eq_true, ↓reduceIte]
    cases X with
    | nil => rfl
    | cons r t =>
      have h1 : (r == 0x72) = false := hsp.2.2.1
      have h2 : (r == 0x52) = false := hsp.2.2.2.1
      simp only [h1, h2, Bool.or_self, Bool.false_eq_true, ↓reduceIte]
      rfl

/-! ## fraction and exponent -/

theorem fracDigits_digits (exp : Bool) (Y : Bytes) (h1 : is09 (peek Y) = false)
    (h2 : (peek Y == 0x5F) = false) (ds : Bytes) (hd : AllDigits ds) :
    fracDigits exp (ds ++ Y) = Y := by
  unfold fracDigits
  induction ds with
  | nil =>
    cases Y with
    | nil => rfl
    | cons c t =>
      have e1 : is09 c = false := h1
      have e2 : (c == 0x5F) = false := h2
      simp [e1, e2]
  | cons d ds ih =>
    have hd1 : is09 d = true := hd d (by simp)
    simp only [List.cons_append, List.dropWhile_cons, hd1, Bool.true_or, ↓reduceIte]
    exact ih (fun c hc => hd c (by simp [hc]))

theorem lastIsUnderscore_no (ds rest : Bytes) (hd : (0x5F : UInt8) ∉ ds) :
    lastIsUnderscore (ds ++ rest) rest = false := by
  unfold lastIsUnderscore
  rw [slice_append]
  cases h : ds.getLast? with
  | none => rfl
  | some x =>
    have hx : x ∈ ds := List.mem_of_getLast? h
    have : x ≠ 0x5F := fun e => hd (e ▸ hx)
    simp [this]

/-- `s` at the point, `fd` the fraction digits -/
theorem decimalPart_walk (cfg : Cfg) (start : Bytes) (neg : Bool) (dS fd Y : Bytes)
    (hfd : AllDigits fd) (h1 : is09 (peek Y) = false) (h2 : (peek Y == 0x5F) = false) :
    decimalPart cfg start neg dS (0x2E :: (fd ++ Y)) = afterMantissa cfg start neg true dS Y := by
  unfold decimalPart
  have hadv : adv (0x2E :: (fd ++ Y)) = fd ++ Y := rfl
  have hpk : (peek (fd ++ Y) == 0x5F) = false := by
    cases fd with
    | nil => exact h2
    | cons d t =>
      have := (is09_props (hfd d (by simp))).2.2.2.2.1
      show (d == 0x5F) = false
      simpa using this
  simp only [hadv, hpk, Bool.and_false, Bool.false_eq_true, ↓reduceIte,
    fracDigits_digits cfg.exp Y h1 h2 fd hfd]

/-- `s` at the `e` / `E` -/
theorem exponentPart_walk (cfg : Cfg) (start : Bytes) (neg hasDec : Bool) (dS : Bytes)
    (e : UInt8) (es ed T : Bytes) (hes : es = [] ∨ es = [0x2B] ∨ es = [0x2D]) (hne : ed ≠ [])
    (hed : AllDigits ed) (h1 : is09 (peek T) = false) (h2 : (peek T == 0x5F) = false) :
    exponentPart cfg start neg hasDec dS (e :: (es ++ ed) ++ T) =
      decimalTail cfg start neg hasDec true dS T := by
  obtain ⟨d, t, rfl⟩ : ∃ d t, ed = d :: t := by
    cases ed with
    | nil => exact absurd rfl hne
    | cons d t => exact ⟨d, t, rfl⟩
  have hd1 : is09 d = true := hed d (by simp)
  have hp := is09_props hd1
  have e1 : (d == 0x2B) = false := by simpa using hp.2.2.2.1
  have e2 : (d == 0x2D) = false := by simpa using hp.2.2.1
  have hfr := fracDigits_digits cfg.exp T h1 h2 (d :: t) hed
  unfold exponentPart
  rcases hes with rfl | rfl | rfl
  · have hadv : adv (e :: ([] ++ d :: t) ++ T) = d :: t ++ T := rfl
    have hpk : peek (d :: t ++ T) = d := rfl
    simp only [hadv, hpk, e1, e2, Bool.or_self, Bool.false_eq_true, ↓reduceIte, hd1, Bool.not_true, hfr]
  · have hadv : adv (e :: ([0x2B] ++ d :: t) ++ T) = 0x2B :: (d :: t ++ T) := rfl
    have hpk : peek (0x2B :: (d :: t ++ T)) = 0x2B := rfl
    have hadv2 : adv (0x2B :: (d :: t ++ T)) = d :: t ++ T := rfl
    have hpk2 : peek (d :: t ++ T) = d := rfl
    have e3 : ((0x2B : UInt8) == 0x2B) = true := rfl
    simp only [hadv, hpk, e3, Bool.true_or, ↓reduceIte, hadv2, hpk2, hd1, Bool.not_true,
      Bool.false_eq_true, hfr]
  · have hadv : adv (e :: ([0x2D] ++ d :: t) ++ T) = 0x2D :: (d :: t ++ T) := rfl
    have hpk : peek (0x2D :: (d :: t ++ T)) = 0x2D := rfl
    have hadv2 : adv (0x2D :: (d :: t ++ T)) = d :: t ++ T := rfl
    have hpk2 : peek (d :: t ++ T) = d := rfl
    have e3 : ((0x2D : UInt8) == 0x2D) = true := rfl
    simp only [hadv, hpk, e3, Bool.or_true, ↓reduceIte, hadv2, hpk2, hd1, Bool.not_true,
      Bool.false_eq_true, hfr]

/-- the exponent (possibly absent) after the mantissa -/
theorem afterMantissa_walk (cfg : Cfg) (start : Bytes) (neg hasDec : Bool) (pre ex T : Bytes)
    (hpre : (0x5F : UInt8) ∉ pre) (hex : ExpPart ex) (hT : stopProps (peek T) = true) :
    afterMantissa cfg start neg hasDec (pre ++ (ex ++ T)) (ex ++ T) =
      decimalTail cfg start neg hasDec (!ex.isEmpty) (pre ++ (ex ++ T)) T := by
  have hsp := stopProps_unpack hT
  rcases hex with rfl | ⟨e, es, ed, rfl, he, hes, hne, hed⟩
  · unfold afterMantissa
    simp only [List.nil_append, hsp.2.2.2.2.2.1, hsp.2.2.2.2.2.2.1, Bool.or_self, Bool.false_eq_true,
      ↓reduceIte, List.isEmpty_nil, Bool.not_true]
  · unfold afterMantissa
    have hpk : peek (e :: (es ++ ed) ++ T) = e := rfl
    have hee : (e == 0x65 || e == 0x45) = true := by
      rcases he with rfl | rfl <;> decide
    simp only [hpk, hee, ↓reduceIte, lastIsUnderscore_no pre _ hpre, Bool.and_false,
      Bool.false_eq_true]
    rw [exponentPart_walk cfg start neg hasDec _ e es ed T hes hne hed hsp.1 hsp.2.1]
    rfl

/-! ## the whole mantissa -/

theorem allDigits_no_underscore {ds : Bytes} (hd : ∀ c ∈ ds, is09 c = true) : (0x5F : UInt8) ∉ ds := by
  intro h
  exact (is09_props (hd _ h)).2.2.2.2.1 rfl

theorem numBody_ip (cfg : Cfg) (s0 : Bytes) (neg : Bool) (ip X : Bytes) (hip : DecDigits ip)
    (hstop : stopA (peek X) = true)
    (h : peek X = 0x2E ∨ peek X = 0x65 ∨ peek X = 0x45 ∨ ip ≠ [0x30]) :
    numBody cfg s0 neg (ip ++ X) =
      (if peek X == 0x2E then decimalPart cfg s0 neg (ip ++ X) X
       else afterMantissa cfg s0 neg false (ip ++ X) X) := by
  obtain ⟨hall, hz | ⟨d, t, rfl, hnz⟩⟩ := decDigits_cases hip
  · subst hz
    have hz' : ([0x30] : Bytes) ++ X = 0x30 :: X := rfl
    rw [hz', numBody_zero' cfg s0 neg X hstop]
    rcases h with h | h | h | h
    · simp only [h, BEq.rfl, ↓reduceIte]
    · have e1 : ((0x65 : UInt8) == 0x2E) = false := by decide
      have e2 : ((0x65 : UInt8) == 0x4E) = false := by decide
      have e3 : ((0x65 : UInt8) == 0x4D) = false := by decide
      have hl := lastIsUnderscore_no [0x30] X (by decide)
      rw [hz'] at hl
      unfold afterMantissa
      simp only [h, e1, e2, e3, BEq.rfl, Bool.true_or, Bool.false_eq_true, ↓reduceIte, hl,
        Bool.and_false]
    · have e1 : ((0x45 : UInt8) == 0x2E) = false := by decide
      have e2 : ((0x45 : UInt8) == 0x4E) = false := by decide
      have e3 : ((0x45 : UInt8) == 0x4D) = false := by decide
      have hl := lastIsUnderscore_no [0x30] X (by decide)
      rw [hz'] at hl
      unfold afterMantissa
      simp only [h, e1, e2, e3, BEq.rfl, Bool.or_true, Bool.false_eq_true, ↓reduceIte, hl,
        Bool.and_false]
    · exact absurd rfl h
  · exact numBody_nonzero' cfg s0 neg d t X hall hnz hstop

theorem numBody_mantissa (cfg : Cfg) (s0 : Bytes) (neg : Bool) (ip fr ex T : Bytes)
    (hip : DecDigits ip) (hfr : FracPart fr) (hex : ExpPart ex)
    (hne : fr ≠ [] ∨ ex ≠ [] ∨ ip ≠ [0x30]) (hT : stopProps (peek T) = true) :
    numBody cfg s0 neg (ip ++ (fr ++ (ex ++ T))) =
      decimalTail cfg s0 neg (!fr.isEmpty) (!ex.isEmpty) (ip ++ (fr ++ (ex ++ T))) T := by
  have hall := (decDigits_cases hip).1
  have hipu := allDigits_no_underscore hall
  have hsp := stopProps_unpack hT
  -- the byte at the start of `ex ++ T`
  have hexT : stopA (peek (ex ++ T)) = true ∧ (peek (ex ++ T) == 0x2E) = false ∧
      (ex ≠ [] → peek (ex ++ T) = 0x65 ∨ peek (ex ++ T) = 0x45) := by
    rcases hex with rfl | ⟨e, es, ed, rfl, he, -⟩
    · exact ⟨stopA_of_stopProps hT, hsp.2.2.2.2.1, fun h => absurd rfl h⟩
    · rcases he with rfl | rfl
      · exact ⟨(by decide : stopA 0x65 = true), (by decide : ((0x65 : UInt8) == 0x2E) = false),
          fun _ => Or.inl rfl⟩
      · exact ⟨(by decide : stopA 0x45 = true), (by decide : ((0x45 : UInt8) == 0x2E) = false),
          fun _ => Or.inr rfl⟩
  rcases hfr with rfl | ⟨fd, rfl, hfd⟩
  · simp only [List.nil_append, List.isEmpty_nil, Bool.not_true]
    rw [numBody_ip cfg s0 neg ip (ex ++ T) hip hexT.1 (by
      rcases hne with h | h | h
      · exact absurd rfl h
      · rcases hexT.2.2 h with h | h
        · exact Or.inr (Or.inl h)
        · exact Or.inr (Or.inr (Or.inl h))
      · exact Or.inr (Or.inr (Or.inr h)))]
    simp only [hexT.2.1, Bool.false_eq_true, ↓reduceIte]
    exact afterMantissa_walk cfg s0 neg false ip ex T hipu hex hT
  · have hpk : peek (0x2E :: fd ++ (ex ++ T)) = 0x2E := rfl
    rw [numBody_ip cfg s0 neg ip _ hip (by rw [hpk]; decide) (Or.inl hpk)]
    simp only [hpk, BEq.rfl, ↓reduceIte]
    have hY := stopA_unpack hexT.1
    rw [List.cons_append, decimalPart_walk cfg s0 neg _ fd (ex ++ T) hfd hY.1 hY.2.1]
    have hpre : (0x5F : UInt8) ∉ ip ++ 0x2E :: fd := by
      intro h
      rcases List.mem_append.mp h with h | h
      · exact hipu h
      · rcases List.mem_cons.mp h with h | h
        · exact absurd h (by decide)
        · exact allDigits_no_underscore hfd h
    have hassoc : ip ++ 0x2E :: (fd ++ (ex ++ T)) = (ip ++ 0x2E :: fd) ++ (ex ++ T) := by simp
    rw [hassoc]
    exact afterMantissa_walk cfg s0 neg true _ ex T hpre hex hT

/-! ## `decimalTail` -/

theorem decimalTail_float (cfg : Cfg) (start : Bytes) (neg hd he : Bool) (dS T : Bytes)
    (hT : stopProps2 (peek T) = true) (h : (hd || he) = true) :
    decimalTail cfg start neg hd he dS T = finishNum (.float (parseDouble cfg (slice start T))) T := by
  have h2 := stopProps2_unpack hT
  unfold decimalTail
  simp only [h2.2.1, h2.2.2.1, h2.2.2.2, Bool.or_self, Bool.false_and, Bool.and_false,
    Bool.false_eq_true, ↓reduceIte, h]

theorem decimalTail_M (cfg : Cfg) (start : Bytes) (neg hd he : Bool) (body rest : Bytes)
    (hu : lastIsUnderscore (body ++ 0x4D :: rest) (0x4D :: rest) = false) :
    decimalTail cfg start neg hd he (body ++ 0x4D :: rest) (0x4D :: rest) =
      finishNum (.bigdec neg body) rest := by
  have hpk : peek (0x4D :: rest) = 0x4D := rfl
  have hadv : adv (0x4D :: rest) = rest := rfl
  have e1 : ((0x4D : UInt8) == 0x4E) = false := by decide
  have e3 : ((0x4D : UInt8) == 0x4D) = true := by decide
  unfold decimalTail
  simp only [hpk, hadv, e1, e3, hu, Bool.and_false, Bool.false_and, Bool.false_eq_true, ↓reduceIte,
    slice_append]

theorem fracPart_no_underscore {fr : Bytes} (h : FracPart fr) : (0x5F : UInt8) ∉ fr := by
  rcases h with rfl | ⟨fd, rfl, hfd⟩
  · simp
  · intro h
    rcases List.mem_cons.mp h with h | h
    · exact absurd h (by decide)
    · exact allDigits_no_underscore hfd h

theorem expPart_no_underscore {ex : Bytes} (h : ExpPart ex) : (0x5F : UInt8) ∉ ex := by
  rcases h with rfl | ⟨e, es, ed, rfl, he, hes, -, hed⟩
  · simp
  · intro h
    rcases List.mem_cons.mp h with h | h
    · rcases he with rfl | rfl <;> exact absurd h (by decide)
    · rcases List.mem_append.mp h with h | h
      · rcases hes with rfl | rfl | rfl
        · simp at h
        · simp at h
        · simp at h
      · exact allDigits_no_underscore hed h

theorem signTok_no_underscore {sg : Bytes} {neg : Bool} (h : SignTok sg neg) : (0x5F : UInt8) ∉ sg := by
  rcases h with ⟨rfl, -⟩ | ⟨rfl, -⟩ | ⟨rfl, -⟩ <;> simp

theorem floatTok_no_underscore {tok : Bytes} (h : FloatTok tok) : (0x5F : UInt8) ∉ tok := by
  obtain ⟨sg, ip, fr, ex, neg, rfl, hs, hip, hfr, hex, -⟩ := h
  intro hm
  simp only [List.mem_append] at hm
  rcases hm with ((hm | hm) | hm) | hm
  · exact signTok_no_underscore hs hm
  · exact allDigits_no_underscore (decDigits_cases hip).1 hm
  · exact fracPart_no_underscore hfr hm
  · exact expPart_no_underscore hex hm

theorem decDigits_peek {ip : Bytes} (hip : DecDigits ip) (X : Bytes) : is09 (peek (ip ++ X)) = true := by
  obtain ⟨hall, -⟩ := decDigits_cases hip
  obtain ⟨hne, -, -⟩ := hip
  cases ip with
  | nil => exact absurd rfl hne
  | cons d t => exact hall d (by simp)

/-! ## big decimals -/

theorem numBody_bigdec (cfg : Cfg) (s0 : Bytes) (neg : Bool) (ip fr ex rest : Bytes)
    (hip : DecDigits ip) (hfr : FracPart fr) (hex : ExpPart ex) (ht : TermStart rest) :
    numBody cfg s0 neg (ip ++ fr ++ ex ++ 0x4D :: rest) = .ok (.bigdec neg (ip ++ fr ++ ex)) rest := by
  have hM : stopProps (peek (0x4D :: rest)) = true := by
    show stopProps 0x4D = true
    decide
  by_cases hz : fr = [] ∧ ex = [] ∧ ip = [0x30]
  · obtain ⟨rfl, rfl, rfl⟩ := hz
    have e : ([0x30] : Bytes) ++ [] ++ [] ++ 0x4D :: rest = 0x30 :: 0x4D :: rest := rfl
    rw [e, numBody_zero_aux cfg s0 neg _ hM]
    have hpk : peek (0x4D :: rest) = 0x4D := rfl
    have hadv : adv (0x4D :: rest) = rest := rfl
    have e1 : ((0x4D : UInt8) == 0x4E) = false := by decide
    simp only [hpk, hadv, e1, BEq.rfl, Bool.false_eq_true, ↓reduceIte]
    exact finishNum_term _ ht
  · have hne : fr ≠ [] ∨ ex ≠ [] ∨ ip ≠ [0x30] := by
      by_cases h1 : fr = []
      · by_cases h2 : ex = []
        · by_cases h3 : ip = [0x30]
          · exact absurd ⟨h1, h2, h3⟩ hz
          · exact Or.inr (Or.inr h3)
        · exact Or.inr (Or.inl h2)
      · exact Or.inl h1
    have hassoc : ip ++ fr ++ ex ++ 0x4D :: rest = ip ++ (fr ++ (ex ++ 0x4D :: rest)) := by
      simp only [List.append_assoc]
    have hu : (0x5F : UInt8) ∉ ip ++ fr ++ ex := by
      intro hm
      simp only [List.mem_append] at hm
      rcases hm with (hm | hm) | hm
      · exact allDigits_no_underscore (decDigits_cases hip).1 hm
      · exact fracPart_no_underscore hfr hm
      · exact expPart_no_underscore hex hm
    rw [hassoc, numBody_mantissa cfg s0 neg ip fr ex _ hip hfr hex hne hM, ← hassoc,
      decimalTail_M cfg s0 neg _ _ _ rest (lastIsUnderscore_no _ _ hu)]
    exact finishNum_term _ ht

end Edn.Proofs.NRd
