/-
  Edn.Proofs.EqualAux7 — the cached-hash short circuit (`equalF` against `eqvF`) and the
  effect of `edn_value_hash` filling the top cache cell.
-/
import Edn.Proofs.EqualAux6

namespace Edn.Proofs
open Edn.Model Edn.Spec

theorem equalF_eq_eqvF_aux (cfg : Cfg) : ∀ (f : Nat) (a b : Val), Good cfg f a → Good cfg f b →
    cacheOK cfg a = true → cacheOK cfg b = true → equalF cfg f a b = eqvF cfg f a b := by
  intro f
  induction f with
  | zero => intro a b _ _ _ _; rfl
  | succ f ih =>
    intro a b ha hb hca hcb
    have hbody : body cfg (equalF cfg f) a b = body cfg (eqvF cfg f) a b :=
      body_congr cfg a b fun x hx y hy =>
        ih x y (ha.child hx) (hb.child hy) (cacheOK_child cfg hca hx) (cacheOK_child cfg hcb hy)
    rw [equalF_succ, hbody]
    by_cases hk : kindCompatible a b = true
    · rw [hk]
      by_cases hcc : (a.hdr.hc != 0 && b.hdr.hc != 0 && a.hdr.hc != b.hdr.hc) = true
      · rw [if_pos hcc]
        cases he : eqvF cfg (f + 1) a b with
        | false => simp
        | true =>
          exfalso
          have hh := hash_at cfg (f + 1) a b ha hb he
          rw [Bool.and_eq_true, Bool.and_eq_true, bne_iff_ne, bne_iff_ne, bne_iff_ne] at hcc
          rcases cacheOK_top cfg hca with h0 | h1
          · exact hcc.1.1 h0
          · rcases cacheOK_top cfg hcb with h0' | h1'
            · exact hcc.1.2 h0'
            · exact hcc.2 (by rw [h1, h1', hh])
      · rw [if_neg hcc, eqvF_succ]; simp
    · have hb' : body cfg (eqvF cfg f) a b = false := by
        cases hbb : body cfg (eqvF cfg f) a b with
        | false => rfl
        | true => exact absurd (body_kind cfg _ a b hbb) hk
      rw [eqvF_succ, hb']
      simp [hk]

/-! ### replacing the header -/

theorem hdr_setHdr (v : Val) (h' : Hdr) : (v.setHdr h').hdr = h' := by cases v <;> rfl
theorem hashV_setHdr (cfg : Cfg) (v : Val) (h' : Hdr) : hashV cfg (v.setHdr h') = hashV cfg v := by
  cases v <;> rfl
theorem depth_setHdr (v : Val) (h' : Hdr) : depth (v.setHdr h') = depth v := by cases v <;> rfl
theorem WF_setHdr (cfg : Cfg) (v : Val) (h' : Hdr) : WF cfg (v.setHdr h') = WF cfg v := by
  cases v <;> rfl
theorem body_setHdr_left (cfg : Cfg) (p : Val → Val → Bool) (v b : Val) (h' : Hdr) :
    body cfg p (v.setHdr h') b = body cfg p v b := by cases v <;> rfl
theorem body_setHdr_right (cfg : Cfg) (p : Val → Val → Bool) (v b : Val) (h' : Hdr) :
    body cfg p b (v.setHdr h') = body cfg p b v := by cases b <;> cases v <;> rfl

theorem eqvF_setHdr_left (cfg : Cfg) (f : Nat) (v b : Val) (h' : Hdr) :
    eqvF cfg f (v.setHdr h') b = eqvF cfg f v b := by
  cases f with
  | zero => rfl
  | succ f => rw [eqvF_succ, eqvF_succ, body_setHdr_left]

theorem eqvF_setHdr_right (cfg : Cfg) (f : Nat) (v b : Val) (h' : Hdr) :
    eqvF cfg f b (v.setHdr h') = eqvF cfg f b v := by
  cases f with
  | zero => rfl
  | succ f => rw [eqvF_succ, eqvF_succ, body_setHdr_right]

theorem cacheOK_setHdr (cfg : Cfg) (v : Val) (h' : Hdr) (hc : cacheOK cfg v = true)
    (hh : h'.hc = 0 ∨ h'.hc = cacheOf (hashV cfg v)) : cacheOK cfg (v.setHdr h') = true := by
  have key : ∀ (y : UInt64), (h'.hc = 0 ∨ h'.hc = y) → (h'.hc == 0 || h'.hc == y) = true := by
    intro y h
    rcases h with h | h
    · rw [h]; rfl
    · rw [h, Bool.or_eq_true]; exact Or.inr (beq_self_eq_true _)
  cases v
  case list hd m xs =>
    have := cacheOKL_of_mem cfg xs fun x hx => cacheOK_child cfg hc (a := .list hd m xs) hx
    show ((h'.hc == 0 || h'.hc == cacheOf (hashV cfg (.list hd m xs))) && cacheOKL cfg xs) = true
    rw [key _ hh, this]; rfl
  case vec hd m xs =>
    have := cacheOKL_of_mem cfg xs fun x hx => cacheOK_child cfg hc (a := .vec hd m xs) hx
    show ((h'.hc == 0 || h'.hc == cacheOf (hashV cfg (.vec hd m xs))) && cacheOKL cfg xs) = true
    rw [key _ hh, this]; rfl
  case set hd m xs =>
    have := cacheOKL_of_mem cfg xs fun x hx => cacheOK_child cfg hc (a := .set hd m xs) hx
    show ((h'.hc == 0 || h'.hc == cacheOf (hashV cfg (.set hd m xs))) && cacheOKL cfg xs) = true
    rw [key _ hh, this]; rfl
  case map hd m ks vs =>
    have h1 := cacheOKL_of_mem cfg ks fun x hx =>
      cacheOK_child cfg hc (a := .map hd m ks vs) (List.mem_append_left _ hx)
    have h2 := cacheOKL_of_mem cfg vs fun x hx =>
      cacheOK_child cfg hc (a := .map hd m ks vs) (List.mem_append_right _ hx)
    show ((h'.hc == 0 || h'.hc == cacheOf (hashV cfg (.map hd m ks vs))) && cacheOKL cfg ks
      && cacheOKL cfg vs) = true
    rw [key _ hh, h1, h2]; rfl
  case tagged hd m t x =>
    have := cacheOK_child cfg hc (a := .tagged hd m t x) (x := x) (List.mem_singleton.mpr rfl)
    show ((h'.hc == 0 || h'.hc == cacheOf (hashV cfg (.tagged hd m t x))) && cacheOK cfg x) = true
    rw [key _ hh, this]; rfl
  all_goals exact key _ hh

/-! ### `edn_value_hash` -/

theorem hashOp_snd (cfg : Cfg) (v : Val) :
    (hashOp cfg v).2 = v ∨
      (hashOp cfg v).2 = v.setHdr { v.hdr with hc := cacheOf (hashV cfg v) } := by
  unfold hashOp
  by_cases h : (v.hdr.hc != 0) = true
  · left; simp only [h, if_true]
  · right; simp only [h]; rfl

theorem cacheOf_ne_zero (h : UInt64) : cacheOf h ≠ 0 := by
  unfold cacheOf
  by_cases h0 : (h == 0) = true
  · rw [if_pos h0]; decide
  · rw [if_neg h0]; intro h1; rw [h1] at h0; exact h0 rfl

/-- after `edn_value_hash` the top cache cell holds the hash -/
theorem hashOp_hc (cfg : Cfg) (v : Val) (hc : cacheOK cfg v = true) :
    (hashOp cfg v).2.hdr.hc = cacheOf (hashV cfg v) := by
  unfold hashOp
  by_cases h : (v.hdr.hc != 0) = true
  · simp only [h, if_true]
    rcases cacheOK_top cfg hc with h0 | h1
    · rw [bne_iff_ne] at h; exact absurd h0 h
    · exact h1
  · simp only [h]
    show (v.setHdr _).hdr.hc = _
    rw [hdr_setHdr]

theorem hashOp_facts (cfg : Cfg) (v : Val) (h : cacheOK cfg v = true) :
    cacheOK cfg (hashOp cfg v).2 = true ∧ depth (hashOp cfg v).2 = depth v ∧
    (WF cfg v → WF cfg (hashOp cfg v).2) ∧
    (∀ f b, eqvF cfg f (hashOp cfg v).2 b = eqvF cfg f v b) ∧
    (∀ f b, eqvF cfg f b (hashOp cfg v).2 = eqvF cfg f b v) ∧
    hashV cfg (hashOp cfg v).2 = hashV cfg v := by
  rcases hashOp_snd cfg v with e | e
  · rw [e]
    exact ⟨h, rfl, id, fun _ _ => rfl, fun _ _ => rfl, rfl⟩
  · rw [e]
    refine ⟨cacheOK_setHdr cfg v _ h (Or.inr rfl), depth_setHdr v _, ?_,
      fun f b => eqvF_setHdr_left cfg f v b _, fun f b => eqvF_setHdr_right cfg f v b _,
      hashV_setHdr cfg v _⟩
    rw [WF_setHdr]; exact id

end Edn.Proofs
