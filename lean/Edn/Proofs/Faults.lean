/-
  Edn.Proofs.Faults — C16, the part that is logic: under *every* schedule of failing
  allocation requests the collection builder hands back either NULL or a heap copy of exactly
  the elements added (never its own in-frame storage, never a partial array), and duplicate
  detection gives the same verdict whichever of its scratch allocations fail.
-/
import Edn.Model.Builder
import Edn.Model.Uniq
import Edn.Proofs.Equal
import Edn.Proofs.FaultsAux1

namespace Edn.Proofs
open Edn.Model Edn.Spec

/-- every outcome of a builder's life, for every element list and every allocation schedule -/
theorem builder_outcome {α : Type} (grow : Nat → Nat) (initCap : Nat) (xs : List α) (sched : List Bool) :
    match Builder.run grow initCap xs sched with
    | .addFailed i => i < xs.length ∧ false ∈ sched
    | .finished n none => n = xs.length ∧ (xs = [] ∨ false ∈ sched)
    | .finished n (some (st, ys)) => st = .heap ∧ ys = xs ∧ n = xs.length := by
  obtain ⟨hi1, hi2, -⟩ := init_spec (α := α) initCap sched
  unfold Builder.run
  cases hini : Builder.init (α := α) initCap sched with
  | mk b s1 =>
    rw [hini] at hi1 hi2
    simp only at hi1 hi2 ⊢
    cases hall : Builder.addAll grow b xs 0 s1 with
    | mk o s2 =>
      cases o with
      | inl i =>
        obtain ⟨h1, h2⟩ := addAll_inl grow xs b 0 s1 i s2 hall
        simp only
        exact ⟨by omega, hi2 h2⟩
      | inr b' =>
        obtain ⟨h1, h2⟩ := addAll_inr grow xs b 0 s1 b' s2 hall
        rw [hi1, List.nil_append] at h1
        obtain ⟨f1, f2, f3, -⟩ := finish_spec b' s2
        rw [h1] at f1 f2 f3
        simp only
        generalize (b'.finish s2).1 = n at f1 ⊢
        generalize (b'.finish s2).2.1 = arr at f2 f3 ⊢
        cases arr with
        | none =>
          refine ⟨f1, ?_⟩
          cases f3 rfl with
          | inl h => exact Or.inl h
          | inr h => exact Or.inr (hi2 (h2 h))
        | some p =>
          obtain ⟨st, zs⟩ := p
          obtain ⟨g1, g2⟩ := f2 st zs rfl
          exact ⟨g1, g2, f1⟩

/-- the array is never the builder's in-frame storage -/
theorem builder_never_returns_stack {α : Type} (grow : Nat → Nat) (initCap : Nat) (xs ys : List α) (sched : List Bool) (n : Nat) (st : Store)
    (h : Builder.run grow initCap xs sched = .finished n (some (st, ys))) : st = .heap := by
  have := builder_outcome grow initCap xs sched
  rw [h] at this
  exact this.1

/-- without failing requests the builder always delivers all elements -/
theorem builder_no_faults {α : Type} (grow : Nat → Nat) (initCap : Nat) (xs : List α) (sched : List Bool) (hs : false ∉ sched) :
    Builder.run grow initCap xs sched =
      .finished xs.length (if xs = [] ∧ initCap ≤ 8 then none else some (.heap, xs)) := by
  obtain ⟨hi1, hi2, hi3⟩ := init_spec (α := α) initCap sched
  unfold Builder.run
  cases hini : Builder.init (α := α) initCap sched with
  | mk b s1 =>
    rw [hini] at hi1 hi2 hi3
    simp only at hi1 hi2 hi3 ⊢
    have hs1 : false ∉ s1 := fun hm => hs (hi2 hm)
    cases hall : Builder.addAll grow b xs 0 s1 with
    | mk o s2 =>
      cases o with
      | inl i => exact absurd (addAll_inl grow xs b 0 s1 i s2 hall).2 hs1
      | inr b' =>
        obtain ⟨h1, h2⟩ := addAll_inr grow xs b 0 s1 b' s2 hall
        rw [hi1, List.nil_append] at h1
        have hs2 : false ∉ s2 := fun hm => hs1 (h2 hm)
        obtain ⟨f1, -, -, f4⟩ := finish_spec b' s2
        simp only
        rw [f1, f4 hs2, h1]
        congr 1
        cases xs with
        | nil =>
          simp only [Builder.addAll, Prod.mk.injEq, Sum.inr.injEq] at hall
          rw [← hall.1, hi3 hs]
          by_cases hc : initCap ≤ 8 <;> simp [hc]
        | cons x t => simp

/-- the hash-restricted strategies on the elements with filled-in caches -/
theorem hashedStrategy_spec (cfg : Cfg) (xs : List Val) (h : Elems cfg xs) :
    (hasDupHashed cfg (xs.map fun x => (hashOp cfg x).2) = false ↔ pairwiseDistinct cfg xs) ∧
    Elems cfg (xs.map fun x => (hashOp cfg x).2) ∧
    (xs.map fun x => (hashOp cfg x).2).length = xs.length := by
  have hE := Elems_hashOp cfg xs h
  have hh : ∀ y ∈ xs.map (fun x => (hashOp cfg x).2), y.hdr.hc = cacheOf (hashV cfg y) := by
    intro y hy
    obtain ⟨x, hx, rfl⟩ := List.mem_map.mp hy
    rw [hashOp_hc cfg x (h x hx).2.2, (hashOp_cacheOK cfg x (h x hx).2.2).2.2.2.2.2]
  refine ⟨?_, hE, List.length_map _⟩
  rw [hasDupHashed_eq_linear cfg _ hE hh, hasDupLinear_iff cfg _ hE,
    pairwiseDistinct_hashOp cfg xs h]

theorem hasDupSortedF_spec (cfg : Cfg) (mallocOk : Bool) (xs : List Val) (h : Elems cfg xs) :
    ((hasDupSortedF cfg mallocOk xs).1 = false ↔ pairwiseDistinct cfg xs) ∧
    Elems cfg (hasDupSortedF cfg mallocOk xs).2 ∧
    (hasDupSortedF cfg mallocOk xs).2.length = xs.length := by
  unfold hasDupSortedF
  cases mallocOk with
  | true => exact hashedStrategy_spec cfg xs h
  | false => exact ⟨hasDupLinear_iff cfg xs h, h, rfl⟩

theorem hasDuplicatesF_spec (cfg : Cfg) (callocOk mallocOk : Bool) (xs : List Val) (h : Elems cfg xs) :
    ((hasDuplicatesF cfg callocOk mallocOk xs).1 = false ↔ pairwiseDistinct cfg xs) ∧
    Elems cfg (hasDuplicatesF cfg callocOk mallocOk xs).2 ∧
    (hasDuplicatesF cfg callocOk mallocOk xs).2.length = xs.length := by
  unfold hasDuplicatesF
  by_cases h1 : xs.length ≤ 1
  · rw [if_pos h1]
    exact ⟨⟨fun _ => pairwiseDistinct_small cfg xs h1, fun _ => rfl⟩, h, rfl⟩
  · rw [if_neg h1]
    by_cases h2 : xs.length ≤ Generated.Tables.linearThreshold
    · rw [if_pos h2]
      exact ⟨hasDupLinear_iff cfg xs h, h, rfl⟩
    · rw [if_neg h2]
      by_cases h3 : xs.length ≤ Generated.Tables.sortedThreshold
      · rw [if_pos h3]
        exact hasDupSortedF_spec cfg mallocOk xs h
      · rw [if_neg h3]
        cases callocOk with
        | true => exact hashedStrategy_spec cfg xs h
        | false => exact hasDupSortedF_spec cfg mallocOk xs h

/-- duplicate detection: the verdict does not depend on which scratch allocations fail, and the
    elements come back unchanged up to cache cells (same length, still well-formed) -/
theorem hasDuplicatesF_verdict (cfg : Cfg) (callocOk mallocOk : Bool) (xs : List Val) (h : Elems cfg xs) :
    ((hasDuplicatesF cfg callocOk mallocOk xs).1 = (hasDuplicates cfg xs).1) ∧
    ((hasDuplicatesF cfg callocOk mallocOk xs).1 = false ↔ pairwiseDistinct cfg xs) ∧
    Elems cfg (hasDuplicatesF cfg callocOk mallocOk xs).2 ∧
    (hasDuplicatesF cfg callocOk mallocOk xs).2.length = xs.length := by
  obtain ⟨e1, e2, e3⟩ := hasDuplicatesF_spec cfg callocOk mallocOk xs h
  have e0 := (hasDuplicates_iff cfg xs h).1
  refine ⟨?_, e1, e2, e3⟩
  have e : (hasDuplicatesF cfg callocOk mallocOk xs).1 = false ↔ (hasDuplicates cfg xs).1 = false :=
    e1.trans e0.symm
  cases hx : (hasDuplicatesF cfg callocOk mallocOk xs).1 <;> cases hy : (hasDuplicates cfg xs).1 <;> simp_all

/-- with both allocations succeeding this is the function the reader model uses -/
theorem hasDuplicatesF_nofault (cfg : Cfg) (xs : List Val) : hasDuplicatesF cfg true true xs = hasDuplicates cfg xs := by
  unfold hasDuplicatesF hasDuplicates hasDupSortedF
  by_cases h1 : xs.length ≤ 1
  · rw [if_pos h1, if_pos h1]
  · rw [if_neg h1, if_neg h1]
    by_cases h2 : xs.length ≤ Generated.Tables.linearThreshold
    · rw [if_pos h2, if_pos h2]
    · rw [if_neg h2, if_neg h2]
      simp

end Edn.Proofs
