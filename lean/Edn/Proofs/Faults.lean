/-
  Edn.Proofs.Faults — C16, the part that is logic: under *every* schedule of failing
  allocation requests the collection builder hands back either NULL or a heap copy of exactly
  the elements added (never its own in-frame storage, never a partial array), and duplicate
  detection gives the same verdict whichever of its scratch allocations fail.
-/
import Edn.Model.Builder
import Edn.Model.Uniq
import Edn.Proofs.Equal

namespace Edn.Proofs
open Edn.Model Edn.Spec

/-- every outcome of a builder's life, for every element list and every allocation schedule -/
theorem builder_outcome {α : Type} (initCap : Nat) (xs : List α) (sched : List Bool) :
    match Builder.run initCap xs sched with
    | .addFailed i => i < xs.length ∧ false ∈ sched
    | .finished n none => n = xs.length ∧ (xs = [] ∨ false ∈ sched)
    | .finished n (some (st, ys)) => st = .heap ∧ ys = xs ∧ n = xs.length := by
  sorry

/-- the array is never the builder's in-frame storage -/
theorem builder_never_returns_stack {α : Type} (initCap : Nat) (xs ys : List α) (sched : List Bool) (n : Nat) (st : Store)
    (h : Builder.run initCap xs sched = .finished n (some (st, ys))) : st = .heap := by
  sorry

/-- without failing requests the builder always delivers all elements -/
theorem builder_no_faults {α : Type} (initCap : Nat) (xs : List α) (sched : List Bool) (hs : false ∉ sched) :
    Builder.run initCap xs sched =
      .finished xs.length (if xs = [] ∧ initCap ≤ 8 then none else some (.heap, xs)) := by
  sorry

/-- duplicate detection: the verdict does not depend on which scratch allocations fail, and the
    elements come back unchanged up to cache cells (same length, still well-formed) -/
theorem hasDuplicatesF_verdict (cfg : Cfg) (callocOk mallocOk : Bool) (xs : List Val) (h : Elems cfg xs) :
    ((hasDuplicatesF cfg callocOk mallocOk xs).1 = (hasDuplicates cfg xs).1) ∧
    ((hasDuplicatesF cfg callocOk mallocOk xs).1 = false ↔ pairwiseDistinct cfg xs) ∧
    Elems cfg (hasDuplicatesF cfg callocOk mallocOk xs).2 ∧
    (hasDuplicatesF cfg callocOk mallocOk xs).2.length = xs.length := by
  sorry

/-- with both allocations succeeding this is the function the reader model uses -/
theorem hasDuplicatesF_nofault (cfg : Cfg) (xs : List Val) : hasDuplicatesF cfg true true xs = hasDuplicates cfg xs := by
  sorry

end Edn.Proofs
