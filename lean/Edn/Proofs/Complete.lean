/-
  Edn.Proofs.Complete — C03: every rendering of a value (Edn.Spec.Renders: all token
  spellings it lists, any blank/comment/discard trivia between forms, nesting within the
  reader's limit) is accepted, and the tree returned has exactly the rendered content.
-/
import Edn.Spec.Renders
import Edn.Proofs.CompleteIdent
import Edn.Proofs.CompleteNum
import Edn.Proofs.CompleteStrChar
import Edn.Proofs.Trivia
import Edn.Proofs.ReaderInv

namespace Edn.Proofs
open Edn.Model Edn.Spec Edn.Generated

/-- structural equality looks at content only -/
theorem Eqv_strip (cfg : Cfg) (a b : Val) : Eqv cfg (strip a) (strip b) ↔ Eqv cfg a b := by
  sorry

/-- blanks in front of a form -/
theorem reads_blank (cfg : Cfg) (opts : Opts) (d : Nat) (a : Val) (tr s : Bytes) (ht : Blank tr)
    (h : Reads cfg opts d a s) : Reads cfg opts d a (tr ++ s) := by
  sorry

/-- the completeness theorem: renderings whose nesting fits the reader's limit are read as
    the value they render, at every depth that leaves room for that nesting, in every context -/
theorem complete (cfg : Cfg) (opts : Opts) (hreg : opts.registry = none) :
    ∀ (k : Nat) (a : Val) (s : Bytes), Renders cfg k a s →
      ∀ d, d + k ≤ Tables.maxNestingDepth → Reads cfg opts d a s := by
  sorry

/-- top level: `edn_read` on a rendering (followed by nothing, or by anything starting with a
    terminator) returns a tree with exactly the rendered content -/
theorem read_rendering (cfg : Cfg) (opts : Opts) (hreg : opts.registry = none) (k : Nat) (a : Val) (s rest : Bytes)
    (h : Renders cfg k a s) (hk : k ≤ Tables.maxNestingDepth) (ht : TermStart rest) :
    ∃ v, (read cfg opts (s ++ rest)).out = .value v ∧ strip v = a := by
  sorry

end Edn.Proofs
