/-
  Edn.Proofs.Complete — C03: every rendering of a value (Edn.Spec.Renders: all token
  spellings it lists, any blank/comment/discard trivia between forms, nesting within the
  reader's limit) is accepted, and the tree returned has exactly the rendered content.

  The token-level cases come from `CompleteIdent`, `CompleteNum`, `CompleteFloat`, `CompleteStrChar`; the
  structural cases (collections, tagged elements, discards, trivia) are proved in
  `CompleteAux1` (content versus structural equality and the duplicate check),
  `CompleteAux2` (dispatch on delimiters, the element loops) and `CompleteAux3` (one lemma
  per structural constructor of the rendering relation).
-/
import Edn.Spec.Renders
import Edn.Proofs.CompleteIdent
import Edn.Proofs.CompleteNum
import Edn.Proofs.CompleteFloat
import Edn.Proofs.CompleteStrChar
import Edn.Proofs.Trivia
import Edn.Proofs.ReaderInv
import Edn.Proofs.CompleteAux3

namespace Edn.Proofs
open Edn.Model Edn.Spec Edn.Generated

/-- structural equality looks at content only -/
theorem Eqv_strip (cfg : Cfg) (a b : Val) : Eqv cfg (strip a) (strip b) ↔ Eqv cfg a b :=
  Cmpl.Eqv_strip_iff cfg a b

/-- blanks in front of a form -/
theorem reads_blank (cfg : Cfg) (opts : Opts) (d : Nat) (a : Val) (tr s : Bytes) (ht : Blank tr)
    (h : Reads cfg opts d a s) : Reads cfg opts d a (tr ++ s) :=
  Cmpl.reads_blank_aux cfg opts d a tr s ht h

mutual
/-- forms -/
theorem complete_v (cfg : Cfg) (opts : Opts) (hreg : opts.registry = none) :
    ∀ {k : Nat} {a : Val} {s : Bytes}, Renders cfg k a s →
      ∀ d, d + k ≤ Tables.maxNestingDepth → Reads cfg opts d a s
  | _, _, _, .nil _, d, _ => reads_nil cfg opts d
  | _, _, _, .true_ _, d, _ => reads_true cfg opts d
  | _, _, _, .false_ _, d, _ => reads_false cfg opts d
  | _, _, _, .int _ sg ds neg hs hd hr, d, _ => reads_int cfg opts d sg ds neg hs hd hr
  | _, _, _, .bigOverflow _ sg ds neg hs hd hr, d, _ => reads_bigOverflow cfg opts d sg ds neg hs hd hr
  | _, _, _, .bigN _ sg ds neg hs hd, d, _ => reads_bigN cfg opts d sg ds neg hs hd
  | _, _, _, .float _ tok h, d, _ => reads_float cfg opts d tok h
  | _, _, _, .bigdec _ sg body neg hs hb hnosign, d, _ => reads_bigdec cfg opts d sg body neg hs hb hnosign
  | _, _, _, .str _ sp dn h hne, d, _ => reads_str cfg opts d sp dn h hne
  | _, _, _, .char _ body cp h hcp, d, _ => reads_char cfg opts d body cp h hcp
  | _, _, _, .kw _ tok ns nm h hc hsp hne hsl, d, _ => reads_kw cfg opts d tok ns nm h hc hsp hne hsl
  | _, _, _, .sym _ tok ns nm h hc hsp hres, d, _ => reads_sym cfg opts d tok ns nm h hc hsp hres
  | _, _, _, .list k xs body h, d, hd =>
    Cmpl.case_list cfg opts d xs body (by omega) (complete_s cfg opts hreg h d (by omega))
  | _, _, _, .vec k xs body h, d, hd =>
    Cmpl.case_vec cfg opts d xs body (by omega) (complete_s cfg opts hreg h d (by omega))
  | _, _, _, .set k xs body h hpd, d, hd =>
    Cmpl.case_set cfg opts hreg d xs body (by omega) (complete_s cfg opts hreg h d (by omega)) hpd
  | _, _, _, .map k ks vs body h hl hpd, d, hd =>
    Cmpl.case_map cfg opts hreg d ks vs body (by omega) (complete_s cfg opts hreg h d (by omega)) hl hpd
  | _, _, _, .tagged k tag ns nm a sep s ht hc hsp hres hu hsep hsne h, d, hd =>
    Cmpl.case_tagged cfg opts hreg d tag a sep s (by omega) ht hc hu
      (fun c rest cl hdl => by
        obtain ⟨hh, e⟩ := readIdentifier_tag { cfg := cfg, opts := opts } tag ns nm c rest cl ht hc hsp hres hdl
        exact ⟨hh, ns, nm, e⟩)
      hsep hsne (complete_v cfg opts hreg h (d + 1) (by omega))
  | _, _, _, .blank k a tr s ht h, d, hd =>
    reads_blank cfg opts d a tr s ht (complete_v cfg opts hreg h d hd)
  | _, _, _, .discard k a b sd sep s hdisc hsep hsne h, d, hd =>
    Cmpl.case_discard cfg opts d a b sd sep s (by omega)
      (complete_v cfg opts hreg hdisc (d + 1) (by omega)) hsep hsne (complete_v cfg opts hreg h d hd)

/-- collection bodies -/
theorem complete_s (cfg : Cfg) (opts : Opts) (hreg : opts.registry = none) :
    ∀ {k : Nat} {xs : List Val} {body : Bytes}, RendersSeq cfg k xs body →
      ∀ d, d + 1 + k ≤ Tables.maxNestingDepth → Cmpl.SeqGoal cfg opts d xs body
  | _, _, _, .nil k tr ht, d, _ => Cmpl.seq_nil cfg opts d tr ht
  | _, _, _, .last k a s tr h ht, d, hd =>
    Cmpl.seq_last cfg opts d a s tr (complete_v cfg opts hreg h (d + 1) (by omega)) ht
  | _, _, _, .cons k a xs s sep body h hsep hsne _ hr, d, hd =>
    Cmpl.seq_cons cfg opts d a xs s sep body (complete_v cfg opts hreg h (d + 1) (by omega)) hsep hsne
      (complete_s cfg opts hreg hr d hd)
end

/-- the completeness theorem: renderings whose nesting fits the reader's limit are read as
    the value they render, at every depth that leaves room for that nesting, in every context -/
theorem complete (cfg : Cfg) (opts : Opts) (hreg : opts.registry = none) :
    ∀ (k : Nat) (a : Val) (s : Bytes), Renders cfg k a s →
      ∀ d, d + k ≤ Tables.maxNestingDepth → Reads cfg opts d a s :=
  fun _ _ _ h d hd => complete_v cfg opts hreg h d hd

/-- top level: `edn_read` on a rendering (followed by nothing, or by anything starting with a
    terminator) returns a tree with exactly the rendered content -/
theorem read_rendering (cfg : Cfg) (opts : Opts) (hreg : opts.registry = none) (k : Nat) (a : Val) (s rest : Bytes)
    (h : Renders cfg k a s) (hk : k ≤ Tables.maxNestingDepth) (ht : TermStart rest) :
    ∃ v, (read cfg opts (s ++ rest)).out = .value v ∧ strip v = a := by
  obtain ⟨v, hv, hs⟩ := complete cfg opts hreg k a s h 0 (by omega) false rest [] (readFuel (s ++ rest)) ht
    (by simp only [readFuel, List.length_append]; omega)
  refine ⟨v, ?_, hs⟩
  unfold Edn.Model.read
  simp only []
  rw [hv]

end Edn.Proofs
