/-
  Edn.Proofs.SoundAux2 — the leaf readers of the core configuration, inverted into the token
  classes of `Edn.Spec.Grammar`: string literals (`RawStr`), character literals (`CharTok`),
  symbolic floats (`SymbolicTok`).
-/
import Edn.Proofs.SoundAux1
import Edn.Proofs.CompleteStrChar

namespace Edn.Proofs.Snd
open Edn.Model Edn.Spec Edn.Generated Edn.Proofs

/-! ### strings -/

theorem findQuoteScalar_inv : ∀ (n : Nat) (s : Bytes), s.length ≤ n → ∀ (bs : Bool) (q : Bytes) (e : Bool),
    findQuoteScalar bs s = some (q, e) →
    ∃ sp t, s = sp ++ 0x22 :: t ∧ q = 0x22 :: t ∧ RawStr sp ∧ e = (bs || sp.contains 0x5C) := by
  intro n
  induction n with
  | zero =>
    intro s hs bs q e h
    have : s = [] := List.length_eq_zero_iff.mp (by omega)
    subst this
    simp [findQuoteScalar, findQuoteScalarAux] at h
  | succ n ih =>
    intro s hs bs q e h
    cases s with
    | nil => simp [findQuoteScalar, findQuoteScalarAux] at h
    | cons c cs =>
      rw [findQuoteScalar_cons] at h
      by_cases h1 : (c == 0x5C) = true
      · rw [if_pos h1] at h
        have hc : c = 0x5C := by simpa using h1
        subst hc
        cases cs with
        | nil => simp at h
        | cons x cs' =>
          simp only [] at h
          obtain ⟨sp, t, rfl, rfl, hr, rfl⟩ := ih cs' (by simp only [List.length_cons] at hs; omega) true q e h
          refine ⟨0x5C :: x :: sp, t, rfl, rfl, .esc x sp hr, ?_⟩
          simp
      · rw [if_neg h1] at h
        by_cases h2 : (c == 0x22) = true
        · rw [if_pos h2] at h
          have hc : c = 0x22 := by simpa using h2
          subst hc
          simp only [Option.some.injEq, Prod.mk.injEq] at h
          obtain ⟨rfl, rfl⟩ := h
          exact ⟨[], cs, rfl, rfl, .nil, by simp⟩
        · rw [if_neg h2] at h
          obtain ⟨sp, t, rfl, rfl, hr, rfl⟩ := ih cs (by simp only [List.length_cons] at hs; omega) bs q e h
          have hc1 : c ≠ 0x5C := by simpa using h1
          have hc2 : c ≠ 0x22 := by simpa using h2
          refine ⟨c :: sp, t, rfl, rfl, .plain c sp hc2 hc1 hr, ?_⟩
          have : ¬ (0x5C : UInt8) = c := fun h => hc1 h.symm
          simp [this]

theorem findQuote_inv {s q : Bytes} {e : Bool} (h : findQuote s = some (q, e)) :
    ∃ sp t, s = sp ++ 0x22 :: t ∧ q = 0x22 :: t ∧ RawStr sp ∧ e = sp.contains 0x5C := by
  rw [findQuote_eq] at h
  obtain ⟨sp, t, h1, h2, h3, h4⟩ := findQuoteScalar_inv s.length s (Nat.le_refl _) false q e h
  exact ⟨sp, t, h1, h2, h3, by simpa using h4⟩

/-- the string reader accepts only `"`, a raw string body, `"` -/
theorem readString_sound (ctx : Ctx) (hc : ctx.cfg = Cfg.core) (c : UInt8) (cs : Bytes) (cl : List Call) (v : Val) (st' : St)
    (h : readString ctx { rest := c :: cs, calls := cl } = .ok v st') :
    ∃ sp, cs = sp ++ 0x22 :: st'.rest ∧ st'.calls = cl ∧ RawStr sp ∧ strip v = .str hdr0 sp (sp.contains 0x5C) := by
  unfold readString at h
  have hexp : ctx.cfg.exp = false := by rw [hc]; rfl
  simp only [hexp, Bool.false_and, Bool.false_eq_true, if_false, List.tail_cons] at h
  cases hq : findQuote cs with
  | none => rw [hq] at h; cases h
  | some p =>
    obtain ⟨q, e⟩ := p
    rw [hq] at h
    simp only [Res.ok.injEq] at h
    obtain ⟨hv, hst⟩ := h
    obtain ⟨sp, t, rfl, rfl, hr, rfl⟩ := findQuote_inv hq
    subst hv; subst hst
    refine ⟨sp, rfl, rfl, hr, ?_⟩
    simp only [strip]
    rw [slice_append_left]

/-! ### characters -/

theorem charNamed_inv {p : Bytes} {nm : String} {cp : Nat} {x : Nat × Bytes} (hl : (strBytes nm).length = nm.length)
    (h : charNamed p nm cp = some x) : ∃ t, p = strBytes nm ++ t ∧ x = (cp, t) := by
  unfold charNamed at h
  split at h
  · rename_i hs
    obtain ⟨t, ht⟩ := List.isPrefixOf_iff_prefix.mp hs
    refine ⟨t, ht.symm, ?_⟩
    simp only [Option.some.injEq] at h
    rw [← h, ← ht, ← hl, List.drop_left]
  · cases h

theorem hex4_inv {q q' : Bytes} {v : Nat} (h : hex4? q = some (v, q')) :
    ∃ a b c d, q = a :: b :: c :: d :: q' ∧ hex4? [a, b, c, d] = some (v, []) := by
  match q, h with
  | a :: b :: c :: d :: r, h =>
    have e : ∀ r', hex4? (a :: b :: c :: d :: r') = (match hexDigit? a, hexDigit? b, hexDigit? c, hexDigit? d with
        | some w, some x, some y, some z => some (((w * 16 + x) * 16 + y) * 16 + z, r')
        | _, _, _, _ => none) := fun _ => rfl
    rw [e] at h
    cases h1 : hexDigit? a <;> cases h2 : hexDigit? b <;> cases h3 : hexDigit? c <;> cases h4 : hexDigit? d <;>
      rw [h1, h2, h3, h4] at h <;> simp only [] at h <;> try cases h
    refine ⟨a, b, c, d, rfl, ?_⟩
    rw [e, h1, h2, h3, h4]
  | [], h => simp [hex4?] at h
  | [_], h => simp [hex4?] at h
  | [_, _], h => simp [hex4?] at h
  | [_, _, _], h => simp [hex4?] at h

theorem charBody_core_inv (ctx : Ctx) (hc : ctx.cfg = Cfg.core) (c : UInt8) (t : Bytes) (cp : Nat) (rest : Bytes)
    (h : charBody ctx (c :: t) = .ok (cp, rest)) : ∃ body, c :: t = body ++ rest ∧ CharTok body cp := by
  have hclj : ctx.cfg.clj = false := by rw [hc]; rfl
  have hexp : ctx.cfg.exp = false := by rw [hc]; rfl
  unfold charBody at h
  split at h
  · rename_i x hx
    obtain ⟨t', hp, rfl⟩ := charNamed_inv (by decide +kernel) hx
    simp only [Except.ok.injEq, Prod.mk.injEq] at h
    obtain ⟨rfl, rfl⟩ := h
    exact ⟨_, hp, .newline⟩
  split at h
  · rename_i x hx
    obtain ⟨t', hp, rfl⟩ := charNamed_inv (by decide +kernel) hx
    simp only [Except.ok.injEq, Prod.mk.injEq] at h
    obtain ⟨rfl, rfl⟩ := h
    exact ⟨_, hp, .ret⟩
  split at h
  · rename_i x hx
    obtain ⟨t', hp, rfl⟩ := charNamed_inv (by decide +kernel) hx
    simp only [Except.ok.injEq, Prod.mk.injEq] at h
    obtain ⟨rfl, rfl⟩ := h
    exact ⟨_, hp, .space⟩
  split at h
  · rename_i x hx
    obtain ⟨t', hp, rfl⟩ := charNamed_inv (by decide +kernel) hx
    simp only [Except.ok.injEq, Prod.mk.injEq] at h
    obtain ⟨rfl, rfl⟩ := h
    exact ⟨_, hp, .tab⟩
  simp only [hclj, Bool.false_eq_true, if_false, Bool.false_and, hexp] at h
  by_cases hu : (peek (c :: t) == 0x75 && !(c :: t).tail.isEmpty && (hexDigit? (peek (c :: t).tail)).isSome) = true
  · rw [if_pos hu] at h
    rw [List.tail_cons] at h
    cases hq : hex4? t with
    | none => rw [hq] at h; cases h
    | some p =>
      obtain ⟨v, q'⟩ := p
      rw [hq] at h
      simp only [Except.ok.injEq, Prod.mk.injEq] at h
      obtain ⟨rfl, rfl⟩ := h
      obtain ⟨a, b, c', d, rfl, hx⟩ := hex4_inv hq
      simp only [peek, List.headD_cons, Bool.and_eq_true, beq_iff_eq] at hu
      obtain ⟨⟨rfl, -⟩, -⟩ := hu
      exact ⟨[0x75, a, b, c', d], rfl, .unicode a b c' d _ hx⟩
  · rw [if_neg hu] at h
    by_cases hv : (!isValidSingleChar ctx.cfg (peek (c :: t))) = true
    · rw [if_pos hv] at h; cases h
    · rw [if_neg hv] at h
      simp only [Except.ok.injEq, Prod.mk.injEq] at h
      obtain ⟨rfl, rfl⟩ := h
      refine ⟨[c], rfl, .single c ?_⟩
      rw [hc] at hv
      simpa [peek] using hv

/-- the character reader accepts only `\`, a character token and then the end of the input or a delimiter -/
theorem readCharacter_sound (ctx : Ctx) (hc : ctx.cfg = Cfg.core) (c : UInt8) (cs : Bytes) (cl : List Call) (v : Val) (st' : St)
    (h : readCharacter ctx { rest := c :: cs, calls := cl } = .ok v st') :
    ∃ body cp, cs = body ++ st'.rest ∧ st'.calls = cl ∧ CharTok body cp ∧ cp ≤ 0x10FFFF ∧ DelimStart st'.rest ∧
      strip v = .char hdr0 cp := by
  rw [readCharacter_eq] at h
  simp only [List.tail_cons] at h
  cases cs with
  | nil => simp at h
  | cons c1 t =>
    simp only [List.isEmpty_cons, Bool.false_eq_true, if_false] at h
    cases hb : charBody ctx (c1 :: t) with
    | error ee => rw [hb] at h; cases h
    | ok p =>
      obtain ⟨cp, rest⟩ := p
      rw [hb] at h
      simp only [] at h
      by_cases h1 : cp > 0x10FFFF
      · rw [if_pos h1] at h; cases h
      · rw [if_neg h1] at h
        by_cases h2 : (!rest.isEmpty && !isDelim (peek rest)) = true
        · rw [if_pos h2] at h; cases h
        · rw [if_neg h2] at h
          simp only [Res.ok.injEq] at h
          obtain ⟨rfl, rfl⟩ := h
          obtain ⟨body, hbody, htok⟩ := charBody_core_inv ctx hc c1 t cp rest hb
          refine ⟨body, cp, hbody, rfl, htok, by omega, ?_, by simp [strip]⟩
          show DelimStart rest
          cases rest with
          | nil => exact .inl rfl
          | cons r0 rt =>
            refine .inr ⟨r0, rt, rfl, ?_⟩
            simpa [peek] using h2

/-! ### symbolic floats -/

theorem symInf_bytes : "##Inf".toUTF8.toList = 0x23 :: 0x23 :: strBytes "Inf" := by decide +kernel
theorem symNegInf_bytes : "##-Inf".toUTF8.toList = 0x23 :: 0x23 :: strBytes "-Inf" := by decide +kernel
theorem symNaN_bytes : "##NaN".toUTF8.toList = 0x23 :: 0x23 :: strBytes "NaN" := by decide +kernel

theorem startsWith_inv {p q : Bytes} (h : startsWith p q = true) : p = q ++ p.drop q.length := by
  obtain ⟨t, ht⟩ := List.isPrefixOf_iff_prefix.mp h
  rw [← ht, List.drop_left]

theorem readSymbolic_sound (ctx : Ctx) (p : Bytes) (cl : List Call) (v : Val) (st' : St)
    (h : readSymbolic ctx { rest := 0x23 :: 0x23 :: p, calls := cl } = .ok v st') :
    ∃ tok bits, 0x23 :: 0x23 :: p = tok ++ st'.rest ∧ st'.calls = cl ∧ SymbolicTok tok bits ∧ strip v = .float hdr0 bits := by
  unfold readSymbolic at h
  simp only [List.drop_succ_cons, List.drop_zero] at h
  split at h
  · rename_i hs
    simp only [Res.ok.injEq] at h
    obtain ⟨rfl, rfl⟩ := h
    refine ⟨"##Inf".toUTF8.toList, infBits, ?_, rfl, .inf, by simp [strip]⟩
    rw [symInf_bytes]
    have := startsWith_inv hs
    have hl : (strBytes "Inf").length = 3 := by decide +kernel
    rw [hl] at this
    simp only [List.cons_append, List.cons.injEq, true_and]
    exact this
  split at h
  · rename_i hs
    simp only [Res.ok.injEq] at h
    obtain ⟨rfl, rfl⟩ := h
    refine ⟨"##-Inf".toUTF8.toList, negInfBits, ?_, rfl, .negInf, by simp [strip]⟩
    rw [symNegInf_bytes]
    have := startsWith_inv hs
    have hl : (strBytes "-Inf").length = 4 := by decide +kernel
    rw [hl] at this
    simp only [List.cons_append, List.cons.injEq, true_and]
    exact this
  split at h
  · rename_i hs
    simp only [Res.ok.injEq] at h
    obtain ⟨rfl, rfl⟩ := h
    refine ⟨"##NaN".toUTF8.toList, nanBits, ?_, rfl, .nan, by simp [strip]⟩
    rw [symNaN_bytes]
    have := startsWith_inv hs
    have hl : (strBytes "NaN").length = 3 := by decide +kernel
    rw [hl] at this
    simp only [List.cons_append, List.cons.injEq, true_and]
    exact this
  · cases h

end Edn.Proofs.Snd
