/-
  Edn.Proofs.ExpNumberSound — exactness of the number reader with the experimental flag only
  (`expCfg = ⟨clj := false, exp := true⟩`): started where the dispatcher sends a number,
  `edn_read_number` returns a payload and a continuation point **iff** the bytes consumed are a
  token of `Edn.Spec.ExpNum` denoting that payload and the continuation is the end of the input or
  a terminator (`TermStart`, as in the core configuration: without the Clojure flag there is no
  ratio branch, hence none of its early returns).

  Also: the grammar contains the core grammar (`expNum_of_coreNum`), is contained in the grammar
  of the configuration with both flags (`cljNum_of_expNum`), and the separators do not change
  what a token denotes (`expNum_unsep`, `readNumber_exp_unsep`).
-/
import Edn.Spec.ExpNumLit
import Edn.Proofs.NumberSound
import Edn.Proofs.CljNumberSound
import Edn.Proofs.ExpNumberSoundAux1
import Edn.Proofs.ExpNumberSoundAux2
import Edn.Proofs.ExpNumberSoundAux4
import Edn.Proofs.ExpNumberSoundAux5

namespace Edn.Proofs
open Edn.Model Edn.Spec

/-- soundness with the experimental flag only; `s` starts where the dispatcher sends a number (a
    digit, or a sign followed by a digit) -/
theorem readNumber_exp_sound (s rest : Bytes) (v : NumVal)
    (hstart : ∃ c t, s = c :: t ∧ (is09 c = true ∨ ((c = 0x2B ∨ c = 0x2D) ∧ ∃ nx t', t = nx :: t' ∧ is09 nx = true)))
    (h : readNumber expCfg s = .ok v rest) :
    ∃ tok, s = tok ++ rest ∧ ExpNum tok v ∧ TermStart rest := by
  obtain ⟨c, t, rfl, hcs⟩ := hstart
  have hsg : ∃ sg body neg, c :: t = sg ++ body ∧ SignTok sg neg ∧ is09 (peek body) = true := by
    rcases hcs with hcs | ⟨hcs | hcs, nx, t', rfl, hnx⟩
    · exact ⟨[], c :: t, false, rfl, Or.inl ⟨rfl, rfl⟩, hcs⟩
    · subst hcs
      exact ⟨[0x2B], nx :: t', false, rfl, Or.inr (Or.inl ⟨rfl, rfl⟩), hnx⟩
    · subst hcs
      exact ⟨[0x2D], nx :: t', true, rfl, Or.inr (Or.inr ⟨rfl, rfl⟩), hnx⟩
  obtain ⟨sg, body, neg, hs0, hs, hb⟩ := hsg
  rw [hs0] at h ⊢
  rw [CNum.readNumber_sign expCfg sg body neg hs hb] at h
  exact ExpN.numBody_sound sg neg body v rest hs hb h

/-- completeness with the experimental flag only: every `ExpNum` token followed by the end of the
    input or a terminator is read as what it denotes -/
theorem readNumber_exp_complete (tok rest : Bytes) (v : NumVal) (h : ExpNum tok v) (ht : TermStart rest) :
    readNumber expCfg (tok ++ rest) = .ok v rest := by
  cases h with
  | dec sg ip neg hs hip =>
    rw [List.append_assoc, CNum.readNumber_sign expCfg sg _ neg hs (ExpN.expInt_peek hip _)]
    exact ExpN.body_dec _ neg ip rest hip ht
  | decN sg ip neg hs hip =>
    have e : sg ++ ip ++ [0x4E] ++ rest = sg ++ (ip ++ 0x4E :: rest) := by simp
    rw [e, CNum.readNumber_sign expCfg sg _ neg hs (ExpN.expInt_peek hip _)]
    exact ExpN.body_decN _ neg ip rest hip ht
  | float sg ip fr ex neg hs hm hne =>
    have e : sg ++ ip ++ fr ++ ex ++ rest = sg ++ (ip ++ (fr ++ (ex ++ rest))) := by simp
    rw [e, CNum.readNumber_sign expCfg sg _ neg hs (ExpN.expInt_peek hm.hip _),
      ExpN.body_float _ neg ip fr ex rest hm hne ht, ← e, CNum.slice_append]
  | decM sg ip fr ex neg hs hm hu =>
    have e : sg ++ ip ++ fr ++ ex ++ [0x4D] ++ rest = sg ++ (ip ++ (fr ++ (ex ++ 0x4D :: rest))) := by simp
    rw [e, CNum.readNumber_sign expCfg sg _ neg hs (ExpN.expInt_peek hm.hip _)]
    exact ExpN.body_decM _ neg ip fr ex rest hm hu ht

/-- with the experimental flag only the number reader accepts exactly the `ExpNum` grammar -/
theorem readNumber_exp_iff (s rest : Bytes) (v : NumVal)
    (hstart : ∃ c t, s = c :: t ∧ (is09 c = true ∨ ((c = 0x2B ∨ c = 0x2D) ∧ ∃ nx t', t = nx :: t' ∧ is09 nx = true))) :
    readNumber expCfg s = .ok v rest ↔ ∃ tok, s = tok ++ rest ∧ ExpNum tok v ∧ TermStart rest := by
  constructor
  · exact readNumber_exp_sound s rest v hstart
  · rintro ⟨tok, rfl, hn, ht⟩
    exact readNumber_exp_complete tok rest v hn ht

/-- every token of the grammar starts where the dispatcher sends a number: the hypothesis `hstart`
    of the three theorems above holds on `tok ++ rest` for every token -/
theorem expNum_start {tok : Bytes} {v : NumVal} (h : ExpNum tok v) (rest : Bytes) :
    ∃ c t, tok ++ rest = c :: t ∧
      (is09 c = true ∨ ((c = 0x2B ∨ c = 0x2D) ∧ ∃ nx t', t = nx :: t' ∧ is09 nx = true)) := by
  have key : ∀ (sg ip : Bytes) (neg : Bool) (tail : Bytes), SignTok sg neg → ExpInt ip →
      ∃ c t, sg ++ (ip ++ tail) = c :: t ∧
        (is09 c = true ∨ ((c = 0x2B ∨ c = 0x2D) ∧ ∃ nx t', t = nx :: t' ∧ is09 nx = true)) := by
    intro sg ip neg tail hs hip
    have hpk := ExpN.expInt_peek hip tail
    have hne : ip ≠ [] := CljN.cljInt_ne (ExpN.expInt_cljInt hip)
    cases ip with
    | nil => exact absurd rfl hne
    | cons d t =>
      have hd : is09 d = true := hpk
      rcases hs with ⟨rfl, -⟩ | ⟨rfl, -⟩ | ⟨rfl, -⟩
      · exact ⟨d, t ++ tail, rfl, Or.inl hd⟩
      · exact ⟨0x2B, d :: t ++ tail, rfl, Or.inr ⟨Or.inl rfl, d, t ++ tail, rfl, hd⟩⟩
      · exact ⟨0x2D, d :: t ++ tail, rfl, Or.inr ⟨Or.inr rfl, d, t ++ tail, rfl, hd⟩⟩
  cases h with
  | dec sg ip neg hs hip =>
    have := key sg ip neg rest hs hip
    simpa only [List.append_assoc] using this
  | decN sg ip neg hs hip =>
    have := key sg ip neg ([0x4E] ++ rest) hs hip
    simpa only [List.append_assoc] using this
  | float sg ip fr ex neg hs hm hne =>
    have := key sg ip neg (fr ++ (ex ++ rest)) hs hm.hip
    simpa only [List.append_assoc] using this
  | decM sg ip fr ex neg hs hm hu =>
    have := key sg ip neg (fr ++ (ex ++ ([0x4D] ++ rest))) hs hm.hip
    simpa only [List.append_assoc] using this

/-! ## the grammar itself -/

/-- nothing of core EDN is lost: every core number token (payloads computed under any
    configuration `cfg`; only the float payload mentions it, and on a core token it is the same
    double for every configuration) is an `ExpNum` token with the same payload -/
theorem expNum_of_coreNum (cfg : Cfg) (tok : Bytes) (v : NumVal) (h : CoreNum cfg tok v) : ExpNum tok v :=
  ExpN.coreNum_expNum cfg h

/-- nothing but the Clojure-flag forms is missing: every `ExpNum` token is a token of the grammar
    of the configuration with both flags, with the same payload -/
theorem cljNum_of_expNum (tok : Bytes) (v : NumVal) (h : ExpNum tok v) : CljNum ⟨true, true⟩ tok v :=
  ExpN.expNum_cljNum h

/-- consequently whatever the number reader accepts with the experimental flag only, it reads the
    same with both flags -/
theorem readNumber_exp_then_both (s rest : Bytes) (v : NumVal)
    (hstart : ∃ c t, s = c :: t ∧ (is09 c = true ∨ ((c = 0x2B ∨ c = 0x2D) ∧ ∃ nx t', t = nx :: t' ∧ is09 nx = true)))
    (h : readNumber expCfg s = .ok v rest) : readNumber ⟨true, true⟩ s = .ok v rest := by
  obtain ⟨tok, rfl, hn, ht⟩ := readNumber_exp_sound s rest v hstart h
  exact readNumber_clj_complete ⟨true, true⟩ rfl tok rest v (ExpN.expNum_cljNum hn) ht

/-- the payload of a float token is the correctly rounded double of the exact decimal value of its
    text, separators ignored (`decimalParts` skips them); true of any text -/
theorem expNum_float_value (text : Bytes) :
    parseDouble expCfg text = (let p := decimalParts text; withSign p.1 (ofDec p.2.1 p.2.2)) :=
  DoubleSpecAux.parseDouble_of_noUnderscore expCfg text (fun he => Bool.noConfusion he)

/-! ## the separators do not change what a token denotes -/

/-- Removing the separators from an `ExpNum` token gives a token of core EDN, and the payload of
    the token is the payload of that core token up to the separators in the texts it keeps
    (`unsepVal`):
      * an integer in the 64-bit range denotes the same `int` (`expNum_int_unsep`);
      * a float denotes the same double (`expNum_float_unsep`);
      * a big integer / big decimal payload has the same sign (and radix 10) and its text is the
        text of the core payload with the separators left in: `unsep text` is the core text. -/
theorem expNum_unsep (tok : Bytes) (v : NumVal) (h : ExpNum tok v) :
    CoreNum Cfg.core (unsep tok) (unsepVal v) :=
  ExpN.expNum_unsep h

/-- exact for integers in the 64-bit range: `1_000` and `1000` denote the same `int` -/
theorem expNum_int_unsep (tok : Bytes) (i : Int) (h : ExpNum tok (.int i)) : CoreNum Cfg.core (unsep tok) (.int i) :=
  ExpN.expNum_unsep h

/-- exact for floats: `1_0.2_5e1_0` and `10.25e10` denote the same double -/
theorem expNum_float_unsep (tok : Bytes) (b : UInt64) (h : ExpNum tok (.float b)) :
    CoreNum Cfg.core (unsep tok) (.float b) :=
  ExpN.expNum_unsep h

/-- the double itself: with the flag on the token = without the flag on the token without its
    separators -/
theorem expNum_parseDouble_unsep (sg ip fr ex : Bytes) (neg : Bool) (hs : SignTok sg neg)
    (hm : ExpMantissa ip fr ex) :
    parseDouble expCfg (sg ++ ip ++ fr ++ ex) = parseDouble Cfg.core (unsep (sg ++ ip ++ fr ++ ex)) :=
  ExpN.float_unsep hs hm

/-- big payloads: the kept text differs from the text of the core payload only by the
    separators -/
theorem expNum_bigint_unsep (tok : Bytes) (neg : Bool) (radix : Nat) (ds : Bytes)
    (h : ExpNum tok (.bigint neg radix ds)) : CoreNum Cfg.core (unsep tok) (.bigint neg radix (unsep ds)) :=
  ExpN.expNum_unsep h

theorem expNum_bigdec_unsep (tok : Bytes) (neg : Bool) (text : Bytes)
    (h : ExpNum tok (.bigdec neg text)) : CoreNum Cfg.core (unsep tok) (.bigdec neg (unsep text)) :=
  ExpN.expNum_unsep h

/-- at reader level: what the number reader accepts with the experimental flag only, the core
    reader accepts once the separators are removed from the consumed bytes, with the same payload
    up to the separators -/
theorem readNumber_exp_unsep (s rest : Bytes) (v : NumVal)
    (hstart : ∃ c t, s = c :: t ∧ (is09 c = true ∨ ((c = 0x2B ∨ c = 0x2D) ∧ ∃ nx t', t = nx :: t' ∧ is09 nx = true)))
    (h : readNumber expCfg s = .ok v rest) :
    ∃ tok, s = tok ++ rest ∧ readNumber Cfg.core (unsep tok ++ rest) = .ok (unsepVal v) rest := by
  obtain ⟨tok, rfl, hn, ht⟩ := readNumber_exp_sound s rest v hstart h
  exact ⟨tok, rfl, readNumber_core_complete (unsep tok) rest (unsepVal v) (ExpN.expNum_unsep hn) ht⟩

/-- the flag adds the separators and nothing else: on byte strings without `_` the two grammars
    coincide, payloads included -/
theorem expNum_iff_coreNum_of_noSep (tok : Bytes) (v : NumVal) (hn : (0x5F : UInt8) ∉ tok) :
    ExpNum tok v ↔ CoreNum Cfg.core tok v := by
  constructor
  · intro h
    have := ExpN.expNum_unsep h
    rw [ExpN.unsep_of_not_mem hn, ExpN.expNum_unsepVal_of_noU h hn] at this
    exact this
  · exact ExpN.coreNum_expNum Cfg.core

/-- … so the reader does not depend on the experimental flag on input whose consumed part has no
    `_` -/
theorem readNumber_exp_eq_core_of_noSep (s rest : Bytes) (v : NumVal)
    (hstart : ∃ c t, s = c :: t ∧ (is09 c = true ∨ ((c = 0x2B ∨ c = 0x2D) ∧ ∃ nx t', t = nx :: t' ∧ is09 nx = true)))
    (hn : (0x5F : UInt8) ∉ slice s rest)
    (h : readNumber expCfg s = .ok v rest) : readNumber Cfg.core s = .ok v rest := by
  obtain ⟨tok, rfl, hc, ht⟩ := readNumber_exp_sound s rest v hstart h
  rw [CNum.slice_append] at hn
  exact readNumber_core_complete tok rest v ((expNum_iff_coreNum_of_noSep tok v hn).mp hc) ht

/-- the other direction needs no hypothesis: whatever the core reader accepts, the reader with the
    experimental flag accepts with the same payload -/
theorem readNumber_core_then_exp (s rest : Bytes) (v : NumVal)
    (hstart : ∃ c t, s = c :: t ∧ (is09 c = true ∨ ((c = 0x2B ∨ c = 0x2D) ∧ ∃ nx t', t = nx :: t' ∧ is09 nx = true)))
    (h : readNumber Cfg.core s = .ok v rest) : readNumber expCfg s = .ok v rest := by
  obtain ⟨tok, rfl, hc, ht⟩ := readNumber_core_sound s rest v hstart h
  exact readNumber_exp_complete tok rest v (ExpN.coreNum_expNum Cfg.core hc) ht

/-! ## boundary cases, evaluated by the kernel (experimental flag only) -/

section examples
private def b (s : String) : Bytes := s.toUTF8.toList
private abbrev X : Cfg := expCfg

/-- the hypothesis `hstart` is satisfiable on an underscored input -/
example : ∃ c t, b "1_000 " = c :: t ∧
    (is09 c = true ∨ ((c = 0x2B ∨ c = 0x2D) ∧ ∃ nx t', t = nx :: t' ∧ is09 nx = true)) :=
  ⟨0x31, b "_000 ", by decide +kernel, Or.inl (by decide)⟩

/-- a token of the grammar, built by hand: `-1_000` denotes -1000 -/
example : ExpNum (b "-1_000") (.int (-1000)) := by
  have hip : ExpInt (b "1_000") :=
    Or.inr ⟨⟨0x31, b "_000", by decide +kernel, by decide, by unfold URun; decide +kernel⟩, by decide +kernel,
      by unfold NoTrailU; decide +kernel⟩
  have h := ExpNum.dec (b "-") (b "1_000") true (Or.inr (Or.inr ⟨by decide +kernel, rfl⟩)) hip
  have e : intPayload true 10 (b "1_000") = .int (-1000) := by decide +kernel
  have e2 : b "-" ++ b "1_000" = b "-1_000" := by decide +kernel
  rw [e, e2] at h
  exact h

-- integers
example : readNumber X (b "1_000 ") = .ok (.int 1000) (b " ") := by decide +kernel
example : readNumber X (b "1__0") = .ok (.int 10) [] := by decide +kernel
example : readNumber X (b "+1_0") = .ok (.int 10) [] := by decide +kernel
example : readNumber X (b "1_") = .err [] := by decide +kernel
example : readNumber X (b "0_1") = .err (b "_1") := by decide +kernel
example : readNumber X (b "00") = .err (b "0") := by decide +kernel
example : readNumber X (b "9_223_372_036_854_775_807") = .ok (.int 9223372036854775807) [] := by decide +kernel
example : readNumber X (b "9_223_372_036_854_775_808") =
    .ok (.bigint false 10 (b "9_223_372_036_854_775_808")) [] := by decide +kernel
example : readNumber X (b "-9_223_372_036_854_775_808") = .ok (.int (-9223372036854775808)) [] := by
  decide +kernel
-- suffixes
example : readNumber X (b "1_0N") = .ok (.bigint false 10 (b "1_0")) [] := by decide +kernel
example : readNumber X (b "1_N") = .err (b "N") := by decide +kernel
example : readNumber X (b "1_0M") = .ok (.bigdec false (b "1_0")) [] := by decide +kernel
example : readNumber X (b "1.5_5M") = .ok (.bigdec false (b "1.5_5")) [] := by decide +kernel
example : readNumber X (b "1.5_M") = .err (b "M") := by decide +kernel
example : readNumber X (b "1e5_M") = .err (b "M") := by decide +kernel
-- floats
example : readNumber X (b "1_.5") = .err (b ".5") := by decide +kernel
example : readNumber X (b "1._5") = .err (b "_5") := by decide +kernel
example : readNumber X (b "1.5_") = .ok (.float 4609434218613702656) [] := by decide +kernel
example : readNumber X (b "1.5_e3") = .err (b "e3") := by decide +kernel
example : readNumber X (b "1e_5") = .err (b "_5") := by decide +kernel
example : readNumber X (b "1e5_") = .ok (.float 4681608360884174848) [] := by decide +kernel
example : readNumber X (b "1_0.2_5e1_0") = readNumber Cfg.core (b "10.25e10") := by decide +kernel
-- no Clojure forms
example : readNumber X (b "1/2") = .err (b "/2") := by decide +kernel
example : readNumber X (b "0x1F") = .err (b "x1F") := by decide +kernel
example : readNumber X (b "2r1") = .err (b "r1") := by decide +kernel

end examples

end Edn.Proofs
