/-
  Edn.Proofs.SoundAux7 — the converse direction, structure: numbers and identifiers through the
  dispatcher, blanks, discards, trails, collection bodies, collections and tagged elements of the
  liberal grammar are read as what they denote.
-/
import Edn.Proofs.SoundAux6

namespace Edn.Proofs.Snd
open Edn.Model Edn.Spec Edn.Generated Edn.Proofs Edn.Proofs.Cmpl

/-! ### numbers -/

theorem coreNum_first {tok : Bytes} {v : NumVal} (h : CoreNum Cfg.core tok v) :
    ∃ c t, tok = c :: t ∧ (is09 c = true ∨ ((c = 0x2B ∨ c = 0x2D) ∧ ∃ nx t', t = nx :: t' ∧ is09 nx = true)) := by
  cases h with
  | int sg ds neg hs hd hr => simpa using CNum.tok_first hs hd []
  | big sg ds neg hs hd hr => simpa using CNum.tok_first hs hd []
  | bigN sg ds neg hs hd => exact CNum.tok_first hs hd [0x4E]
  | float tok h =>
    obtain ⟨sg, ip, fr, ex, neg, rfl, hs, hip, -, -, -⟩ := h
    have := CNum.tok_first hs hip (fr ++ ex)
    simpa only [List.append_assoc] using this
  | bigdec sg body neg hs hb hnosign =>
    rcases hb with hd | ⟨sg', ip, fr, ex, neg', rfl, hs', hip, _, _, _⟩
    · exact CNum.tok_first hs hd [0x4D]
    · have hsg' : sg' = [] := by
        rcases hs' with ⟨rfl, _⟩ | ⟨rfl, _⟩ | ⟨rfl, _⟩
        · rfl
        · exact absurd rfl (hnosign 0x2B (by simp)).1
        · exact absurd rfl (hnosign 0x2D (by simp)).2
      subst hsg'
      have := CNum.tok_first hs hip (fr ++ ex ++ [0x4D])
      simpa only [List.nil_append, List.append_assoc] using this

theorem readsL_number (opts : Opts) (d : Nat) (tok rest : Bytes) (v : NumVal) (hn : CoreNum Cfg.core tok v)
    (ht : TermStart rest) : ReadsL opts d (numToVal hdr0 v) tok rest :=
  ReadsL.of_reads
    (CNum.reads_number Cfg.core opts d tok v _ (coreNum_first hn)
      (fun rest' ht' => readNumber_core_complete tok rest' v hn ht') (fun h => strip_numToVal h v)) ht

/-! ### identifiers -/

theorem readValue_identL (ctx : Ctx) (hc : ctx.cfg = Cfg.core) (f d : Nat) (dm : Bool) (tok rest : Bytes) (cl : List Call)
    (hl : IdentLex tok) (hs : IdentStart tok) (hr : DelimStart rest) :
    readValue ctx (f + 1) d dm { rest := tok ++ rest, calls := cl } =
      readIdentifier ctx { rest := tok ++ rest, calls := cl } := by
  obtain ⟨hne, hnd, -⟩ := hl
  cases tok with
  | nil => exact absurd rfl hne
  | cons c t =>
    obtain ⟨hdig, hsign⟩ := hs c t rfl
    have hdc : isDelim c = false := hnd c (by simp)
    have hpw : isPreWs c = false := by
      cases hp : isPreWs c with
      | false => rfl
      | true =>
        rw [isPreWs_iff] at hp
        rw [ws_delim hp] at hdc
        cases hdc
    have h09 : is09 c = false := by
      rw [← is09_iff] at hdig
      simpa using hdig
    rw [readValue_succ]
    unfold rvOuter
    simp only [List.cons_append, hpw, Bool.false_eq_true, if_false]
    unfold rvStep
    simp only [hc]
    rcases nondelim_disp hdc with hd | hd | hd
    · simp only [hd]
    · simp only [hd]
      have hsg : c = 0x2B ∨ c = 0x2D := by simpa using dispatch_sign (cfg := Cfg.core) hd
      cases t with
      | nil =>
        rcases hr with rfl | ⟨e, u, rfl, he⟩
        · rfl
        · simp only [List.nil_append, (delim_facts he).1, Bool.false_eq_true, if_false]
      | cons e u =>
        have h9 : is09 e = false := by
          have := hsign hsg e u rfl
          rw [← is09_iff] at this
          simpa using this
        simp only [List.cons_append, h9, Bool.false_eq_true, if_false]
    · rw [dispatch_digit (cfg := Cfg.core) hd] at h09
      cases h09

theorem readsL_ident (opts : Opts) (d : Nat) (tok rest : Bytes) (a : Val) (hl : IdentLex tok) (hs : IdentStart tok)
    (hd : IdentDenotes tok a) (ht : DelimStart rest) : ReadsL opts d a tok rest := by
  intro dm cl f hf
  obtain ⟨f', rfl⟩ : ∃ f', f = f' + 1 := ⟨f - 1, by omega⟩
  rw [readValue_identL _ rfl f' d dm tok rest cl hl hs ht]
  exact readIdentifier_complete _ tok rest cl a hl ht hd

/-! ### blanks and discards in front of a form -/

theorem readsL_blank (opts : Opts) (d : Nat) (a : Val) (tr tok rest : Bytes) (ht : Blank tr)
    (h : ReadsL opts d a tok rest) : ReadsL opts d a (tr ++ tok) rest := by
  intro dm cl f hf
  cases f with
  | zero => omega
  | succ f =>
    rw [List.append_assoc, readValue_trivia_prefix _ f d dm tr (tok ++ rest) cl (blank_toPlain ht)]
    apply h dm cl (f + 1)
    rw [List.length_append] at hf
    omega

theorem readsL_discard (opts : Opts) (d : Nat) (a b : Val) (tok1 tok2 rest : Bytes)
    (hd : d < Tables.maxNestingDepth)
    (hdisc : ReadsL opts (d + 1) b tok1 (tok2 ++ rest)) (h : ReadsL opts d a tok2 rest) :
    ReadsL opts d a (0x23 :: 0x5F :: (tok1 ++ tok2)) rest := by
  intro dm cl f hf
  simp only [List.length_cons, List.length_append] at hf
  match f, hf with
  | f + 1, hf =>
    obtain ⟨w, hw, -⟩ := hdisc true cl f (by simp only [List.length_append]; omega)
    have e : (0x23 :: 0x5F :: (tok1 ++ tok2)) ++ rest = 0x23 :: 0x5F :: (tok1 ++ (tok2 ++ rest)) := by simp
    rw [e, (discard_is_trivia { cfg := Cfg.core, opts := opts } f d dm tok1 (tok2 ++ rest) cl cl w hd hw).2]
    exact h dm cl f (by omega)

/-! ### trails and collection bodies -/

/-- blanks and discarded forms up to a closing delimiter: `readValue` (one level below the
    collection) reports the closing delimiter -/
def TrailL (opts : Opts) (d : Nat) (tr after : Bytes) : Prop :=
  ∀ (dm : Bool) (cl : List Call) (f : Nat), 2 * (tr ++ after).length + 2 ≤ f →
    readValue { cfg := Cfg.core, opts := opts } f (d + 1) dm { rest := tr ++ after, calls := cl } =
      .closer { rest := after, calls := cl }

/-- the forms of a collection body are read one after the other -/
def SeqL (opts : Opts) (d : Nat) (xs : List Val) (body after : Bytes) : Prop :=
  ∀ (dm : Bool) (cl : List Call), ∃ ws, stripL ws = xs ∧
    ReadsSeq { cfg := Cfg.core, opts := opts } d dm { rest := body ++ after, calls := cl } ws { rest := after, calls := cl }

theorem trailL_blank (opts : Opts) (d : Nat) (tr : Bytes) (c : UInt8) (rest : Bytes) (ht : Blank tr) (hc : IsCloser c) :
    TrailL opts d tr (c :: rest) := by
  intro dm cl f hf
  cases f with
  | zero => omega
  | succ f =>
    rw [readValue_trivia_prefix _ f (d + 1) dm tr (c :: rest) cl (blank_toPlain ht)]
    exact readValue_closer _ f d dm c rest cl hc

theorem trailL_discard (opts : Opts) (d : Nat) (b : Val) (tr tok tr' after : Bytes)
    (hd : d + 1 < Tables.maxNestingDepth) (ht : Blank tr)
    (hdisc : ReadsL opts (d + 2) b tok (tr' ++ after)) (h : TrailL opts d tr' after) :
    TrailL opts d (tr ++ 0x23 :: 0x5F :: (tok ++ tr')) after := by
  intro dm cl f hf
  simp only [List.length_cons, List.length_append] at hf
  match f, hf with
  | f + 1, hf =>
    have e : (tr ++ 0x23 :: 0x5F :: (tok ++ tr')) ++ after = tr ++ (0x23 :: 0x5F :: (tok ++ (tr' ++ after))) := by simp
    rw [e, readValue_trivia_prefix _ f (d + 1) dm tr _ cl (blank_toPlain ht)]
    obtain ⟨w, hw, -⟩ := hdisc true cl f (by simp only [List.length_append]; omega)
    rw [(discard_is_trivia { cfg := Cfg.core, opts := opts } f (d + 1) dm tok (tr' ++ after) cl cl w hd hw).2]
    exact h dm cl f (by simp only [List.length_append]; omega)

theorem seqL_nil (opts : Opts) (d : Nat) (tr after : Bytes) (h : TrailL opts d tr after) : SeqL opts d [] tr after := by
  intro dm cl
  exact ⟨[], stripL_nil, .done _ _ (fun f hf => h dm cl f hf)⟩

theorem seqL_cons (opts : Opts) (d : Nat) (a : Val) (xs : List Val) (tok body after : Bytes) (hne : tok ≠ [])
    (h : ReadsL opts (d + 1) a tok (body ++ after)) (hr : SeqL opts d xs body after) :
    SeqL opts d (a :: xs) (tok ++ body) after := by
  intro dm cl
  obtain ⟨ws, hws, h1⟩ := hr dm cl
  obtain ⟨v, hs, hv⟩ := h.uniform dm cl
  refine ⟨v :: ws, by rw [stripL_cons, hs, hws], ?_⟩
  rw [List.append_assoc]
  refine .step _ { rest := body ++ after, calls := cl } _ v ws hv ?_ h1
  show (body ++ after).length < (tok ++ (body ++ after)).length
  have : 0 < tok.length := List.length_pos_iff.mpr hne
  rw [List.length_append (as := tok)]
  omega

/-! ### collections -/

theorem readsL_list (opts : Opts) (d : Nat) (xs : List Val) (body rest : Bytes)
    (hd : d < Tables.maxNestingDepth) (h : SeqL opts d xs body (0x29 :: rest)) :
    ReadsL opts d (.list hdr0 none xs) (0x28 :: (body ++ [0x29])) rest := by
  intro dm cl f hf
  cases f with
  | zero => omega
  | succ f =>
    obtain ⟨ws, hws, hr⟩ := h dm cl
    rw [opener_append, readValue_listOpen _ f d dm _ cl hd,
      readSeq_of_ReadsSeq 0 _ hr f [] (by
        simp only [List.length_cons, List.length_append, List.length_nil] at hf ⊢
        omega),
      closeSeq_list]
    refine ⟨_, rfl, ?_⟩
    simp only [List.append_nil, List.reverse_reverse, strip]
    rw [hws]

theorem readsL_vec (opts : Opts) (d : Nat) (xs : List Val) (body rest : Bytes)
    (hd : d < Tables.maxNestingDepth) (h : SeqL opts d xs body (0x5D :: rest)) :
    ReadsL opts d (.vec hdr0 none xs) (0x5B :: (body ++ [0x5D])) rest := by
  intro dm cl f hf
  cases f with
  | zero => omega
  | succ f =>
    obtain ⟨ws, hws, hr⟩ := h dm cl
    rw [opener_append, readValue_vecOpen _ f d dm _ cl hd,
      readSeq_of_ReadsSeq 1 _ hr f [] (by
        simp only [List.length_cons, List.length_append, List.length_nil] at hf ⊢
        omega),
      closeSeq_vec]
    refine ⟨_, rfl, ?_⟩
    simp only [List.append_nil, List.reverse_reverse, strip]
    rw [hws]

theorem readsL_set (opts : Opts) (hreg : opts.registry = none) (d : Nat) (xs : List Val) (body rest : Bytes)
    (hd : d < Tables.maxNestingDepth) (h : SeqL opts d xs body (0x7D :: rest)) (hpd : pairwiseDistinct Cfg.core xs) :
    ReadsL opts d (.set hdr0 none xs) (0x23 :: 0x7B :: (body ++ [0x7D])) rest := by
  intro dm cl f hf
  cases f with
  | zero => omega
  | succ f =>
    obtain ⟨ws, hws, hr⟩ := h dm cl
    have hel : Elems Cfg.core ws := ReadsSeq.elems (ctx := { cfg := Cfg.core, opts := opts }) hreg (by omega) hr
    have hpw : pairwiseDistinct Cfg.core ws := by
      rw [← pairwiseDistinct_stripL, hws]; exact hpd
    obtain ⟨h1, -, -, -, -⟩ := hasDuplicates_iff Cfg.core ws hel
    have e : (0x23 :: 0x7B :: (body ++ [0x7D])) ++ rest = 0x23 :: 0x7B :: (body ++ 0x7D :: rest) := by simp
    rw [e, readValue_setOpen _ f d dm _ cl hd,
      readSeq_of_ReadsSeq 2 _ hr f [] (by
        simp only [List.length_cons, List.length_append, List.length_nil] at hf ⊢
        omega),
      closeSeq_set]
    simp only [List.append_nil, List.reverse_reverse]
    rw [if_neg (by rw [h1.mpr hpw]; exact Bool.false_ne_true)]
    refine ⟨_, rfl, ?_⟩
    simp only [strip]
    rw [stripL_hasDuplicates, hws]

theorem readsL_map (opts : Opts) (hreg : opts.registry = none) (d : Nat) (ks vs : List Val) (body rest : Bytes)
    (hd : d < Tables.maxNestingDepth) (h : SeqL opts d (interleaveKV ks vs) body (0x7D :: rest))
    (hl : ks.length = vs.length) (hpd : pairwiseDistinct Cfg.core ks) :
    ReadsL opts d (.map hdr0 none ks vs) (0x7B :: (body ++ [0x7D])) rest := by
  intro dm cl f hf
  cases f with
  | zero => omega
  | succ f =>
    obtain ⟨ws, hws, hr⟩ := h dm cl
    have hel : Elems Cfg.core ws := ReadsSeq.elems (ctx := { cfg := Cfg.core, opts := opts }) hreg (by omega) hr
    obtain ⟨ks', vs', rfl, hk, hv, hl'⟩ := interleave_split ks vs hl ws hws
    have helk : Elems Cfg.core ks' := by
      intro x hx
      apply hel x
      clear hr hws hel hk hv
      induction ks' generalizing vs' with
      | nil => cases hx
      | cons k ks' ih =>
        cases vs' with
        | nil => cases hl'
        | cons v vs' =>
          show x ∈ k :: v :: interleaveKV ks' vs'
          rcases List.mem_cons.mp hx with rfl | hx
          · exact List.mem_cons_self
          · exact List.mem_cons_of_mem _ (List.mem_cons_of_mem _ (ih vs' (by simpa using hl') hx))
    have hpw : pairwiseDistinct Cfg.core ks' := by
      rw [← pairwiseDistinct_stripL, hk]; exact hpd
    obtain ⟨h1, -, -, -, -⟩ := hasDuplicates_iff Cfg.core ks' helk
    rw [opener_append, readValue_mapOpen _ f d dm _ cl hd,
      readMap_of_ReadsSeq _ ks' vs' hl' _ hr f [] [] (by
        simp only [List.length_cons, List.length_append, List.length_nil] at hf ⊢
        omega),
      closeMap_eq]
    simp only [List.append_nil, List.reverse_reverse]
    rw [if_neg (by rw [h1.mpr hpw]; exact Bool.false_ne_true)]
    refine ⟨_, rfl, ?_⟩
    simp only [strip]
    rw [stripL_hasDuplicates, hk, hv]

/-! ### tagged elements -/

theorem readIdentifier_md (ctx : Ctx) (st st' : St) (h : Hdr) (md : Option Val) (ns : Option Bytes) (nm : Bytes)
    (he : readIdentifier ctx st = .ok (.sym h md ns nm) st') : md = none := by
  unfold readIdentifier at he
  simp only [] at he
  repeat' split at he
  all_goals first
    | (cases he; done)
    | (cases he; rfl)
    | (simp only [Res.ok.injEq, Val.sym.injEq] at he; exact he.1.2.1.symm)

theorem readsL_tagged (opts : Opts) (hreg : opts.registry = none) (d : Nat) (tag : Bytes) (ns : Option Bytes) (nm : Bytes)
    (a : Val) (tok rest : Bytes) (hd : d < Tables.maxNestingDepth)
    (hl : IdentLex tag) (hden : IdentDenotes tag (.sym hdr0 none ns nm)) (hu : tag.head? ≠ some 0x5F)
    (hsep : ∃ c t, tok = c :: t ∧ isDelim c = true) (h : ReadsL opts (d + 1) a tok rest) :
    ReadsL opts d (.tagged hdr0 none tag a) (0x23 :: (tag ++ tok)) rest := by
  intro dm cl f hf
  obtain ⟨c, t, rfl, hcd⟩ := hsep
  cases tag with
  | nil => exact absurd rfl hl.1
  | cons c0 tag' =>
    simp only [List.length_cons, List.length_append] at hf
    match f, hf with
    | f + 2, hf =>
      obtain ⟨v, hv, hs⟩ := h dm cl f (by simp only [List.length_cons]; omega)
      have hc0 : isDelim c0 = false := hl.2.1 c0 (by simp)
      have h1 : c0 ≠ 0x23 := fun he => by rw [he] at hc0; revert hc0; decide +kernel
      have h2 : c0 ≠ 0x7B := fun he => by rw [he] at hc0; revert hc0; decide +kernel
      have h3 : c0 ≠ 0x5F := fun he => hu (by rw [he]; rfl)
      have h4 : c0 ≠ 0x3A := by
        intro he
        subst he
        rcases hden with ⟨e, -⟩ | ⟨e, -⟩ | ⟨e, -⟩ | ⟨body, ns', nm', -, -, -, -, -, e⟩ | ⟨e, -⟩
        · rw [nil_bytes] at e; cases e
        · rw [true_bytes] at e; cases e
        · rw [false_bytes] at e; cases e
        · cases e
        · exact e rfl
      obtain ⟨tv, htv, hstv⟩ := readIdentifier_complete { cfg := Cfg.core, opts := opts } (c0 :: tag') (c :: t ++ rest) cl _ hl
        (.inr ⟨c, t ++ rest, rfl, hcd⟩) hden
      have hsym : ∃ h ns nm, readIdentifier { cfg := Cfg.core, opts := opts } { rest := (c0 :: tag') ++ (c :: t ++ rest), calls := cl } =
          .ok (.sym h none ns nm) { rest := c :: t ++ rest, calls := cl } := by
        cases tv with
        | sym h md ns' nm' =>
          have := readIdentifier_md _ _ _ h md ns' nm' htv
          subst this
          exact ⟨h, ns', nm', htv⟩
        | _ => simp [strip] at hstv
      have e : (0x23 :: (c0 :: tag' ++ c :: t)) ++ rest = 0x23 :: c0 :: (tag' ++ (c :: t ++ rest)) := by simp
      have e' : c0 :: (tag' ++ (c :: t ++ rest)) = (c0 :: tag') ++ (c :: t ++ rest) := by simp
      rw [e, readValue_tagOpen _ (f + 1) d dm c0 _ cl hd h1 h2 h3 h4, e',
        readTagged_passthrough { cfg := Cfg.core, opts := opts } hreg f d dm _ (c0 :: tag') _ rest cl v
          (List.cons_ne_nil _ _) hl.2.1 hsym hv]
      refine ⟨_, rfl, ?_⟩
      simp only [strip]
      rw [hs]

end Edn.Proofs.Snd
