/-
  Edn.Proofs.Ranges — C11 (value and error ranges) and the slice half of C01: every range
  stored in a tree the reader returns lies inside the input, encloses its children's
  pairwise non-overlapping ranges in reading order, and every error range satisfies
  0 <= start <= end <= length.
-/
import Edn.Spec.Ranges
import Edn.Proofs.Fuel
import Edn.Proofs.RangesAux4

namespace Edn.Proofs
open Edn.Model Edn.Spec

/-- what a successfully read value's own range looks like relative to the parser states:
    it starts at or after the position where reading began, ends exactly where reading
    stopped, and covers at least one byte -/
def SpanOf (before : St) (v : Val) (after : St) : Prop :=
  v.hdr.synth = false ∧ v.hdr.e = after.rest.length ∧ after.rest.length < v.hdr.s ∧ v.hdr.s ≤ before.rest.length

/-- error ranges in remaining-length coordinates: end ≤ start ≤ what was left when the call began
    (unset components default to the position where the parser stopped) -/
def ErrRangeOK (before : St) (e : ErrInfo) (after : St) : Prop :=
  e.ee.getD after.rest.length ≤ e.es.getD after.rest.length ∧ e.es.getD after.rest.length ≤ before.rest.length

/-- without a handler registry (handlers may return arbitrary values), every value
    `edn_read_value` returns satisfies the range conditions and spans exactly the bytes read -/
theorem readValue_ranges (ctx : Ctx) (hreg : ctx.opts.registry = none) (f d : Nat) (dm : Bool) (st st' : St) (v : Val)
    (h : readValue ctx f d dm st = .ok v st') : RangeOK v ∧ SpanOf st v st' := by
  have q := (reader_post ctx f).1 d dm st
  rw [h] at q
  have hv : OkPost st.rest.length v st' := q hreg
  exact ⟨hv.rok, hv.nsyn, hv.he, hv.hlt, hv.hs⟩

/-- every error `edn_read_value` returns has a well-formed range (with or without registry) -/
theorem readValue_err_ranges (ctx : Ctx) (f d : Nat) (dm : Bool) (st st' : St) (e : ErrInfo)
    (h : readValue ctx f d dm st = .err e st') (hf : e.fuelOut = false) : ErrRangeOK st e st' := by
  have _ := hf
  have q := (reader_post ctx f).1 d dm st
  rw [h] at q
  exact q

/-- top level, absolute offsets: the tree's ranges are inside the input … -/
theorem read_value_ranges (cfg : Cfg) (opts : Opts) (hreg : opts.registry = none) (input : Bytes) (v : Val)
    (h : (read cfg opts input).out = .value v) :
    RangeOK v ∧ v.hdr.s ≤ input.length ∧ v.hdr.e < v.hdr.s := by
  unfold Edn.Model.read at h
  simp only [] at h
  cases hr : readValue { cfg := cfg, opts := opts } (readFuel input) 0 false { rest := input } with
  | ok v' st =>
    rw [hr] at h
    simp only [Outcome.value.injEq] at h
    subst h
    obtain ⟨h1, -, h2, h3, h4⟩ := readValue_ranges { cfg := cfg, opts := opts } hreg _ _ _ _ _ _ hr
    exact ⟨h1, h4, by omega⟩
  | closer st => rw [hr] at h; cases h
  | err e st =>
    rw [hr] at h
    simp only [] at h
    repeat' split at h
    all_goals cases h

/-- … and for every failed read 0 ≤ start offset ≤ end offset ≤ input length -/
theorem read_error_ranges (cfg : Cfg) (opts : Opts) (input : Bytes) (code : Err) (es ee : Pos)
    (h : (read cfg opts input).out = .error code es ee) :
    es.offset ≤ ee.offset ∧ ee.offset ≤ input.length := by
  unfold Edn.Model.read at h
  simp only [] at h
  cases hr : readValue { cfg := cfg, opts := opts } (readFuel input) 0 false { rest := input } with
  | ok v' st => rw [hr] at h; cases h
  | closer st => rw [hr] at h; cases h
  | err e st =>
    rw [hr] at h
    simp only [] at h
    split at h
    · cases h
    · rename_i hfo
      split at h
      · cases h
      · have hq := readValue_err_ranges { cfg := cfg, opts := opts } _ _ _ _ _ _ hr (by simpa using hfo)
        obtain ⟨q1, q2⟩ := hq
        simp only [Outcome.error.injEq] at h
        obtain ⟨-, rfl, rfl⟩ := h
        simp only []
        exact ⟨by omega, Nat.sub_le _ _⟩

end Edn.Proofs
