/-
  Edn.Proofs.AllocSimAux9 — fault theorem, part 2: the relation between a result of the
  allocation-aware reader under an arbitrary oracle and the result of the fault-free reader
  (`RelF`: a value is matched by a value that differs in cache cells only, with the same rest and
  call log; "closer" by "closer"; an error by anything), the invariant that keeps equality
  meaningful on both sides (`VOK` of Edn.Proofs.ReaderInv for operands, `MdOK` for the keys of an
  attached metadata map), and the value-level steps: leaf results, the close of a list / vector /
  set / map, the metadata step.
-/
import Edn.Proofs.AllocSimAux8
import Edn.Proofs.AllocSimAux6
import Edn.Proofs.AllocSimAux4
import Edn.Proofs.FlagIndepAux5

namespace Edn.Proofs.AllocSim
open Edn.Model Edn.Spec Edn.Proofs Edn.Generated

/-- the keys of an attached metadata map are operands the value algebra handles (the metadata
    merge compares them) -/
def MdOK (cfg : Cfg) (v : Val) : Prop :=
  ∀ h md ks vs, v.md = some (.map h md ks vs) → ∀ y ∈ ks, El cfg y

theorem MdOK_of_none {cfg : Cfg} {v : Val} (h : v.md = none) : MdOK cfg v := by
  intro h' md ks vs e; rw [h] at e; cases e

theorem md_setHdr (v : Val) (h : Hdr) : (v.setHdr h).md = v.md := by cases v <;> rfl

theorem MdOK_setHdr {cfg : Cfg} {v : Val} (h : Hdr) (hm : MdOK cfg v) : MdOK cfg (v.setHdr h) := by
  intro h' md ks vs e; rw [md_setHdr] at e; exact hm h' md ks vs e

theorem md_setMd {v : Val} (m : Option Val) (ht : v.metaTarget = true) : (v.setMd m).md = m := by
  cases v <;> first | rfl | cases ht

theorem El_of_VOK {cfg : Cfg} {d : Nat} {v : Val} (h : VOK cfg d v) : El cfg v := by
  refine ⟨?_, h.2.1, h.2.2⟩
  have := h.1
  have := nest_le_rec
  show depth v < Tables.maxRecursionDepth + 1
  omega

theorem El_synth_kw (cfg : Cfg) (name : Bytes) : El cfg (.kw synthHdr none name) :=
  ⟨Nat.succ_pos _, trivial, rfl⟩

/-- the keys of the one-entry map built from an annotation are operands of the value algebra -/
theorem El_metaEntries {cfg : Cfg} {d : Nat} {m : Val} {nks nvs : List Val} (hm : VOK cfg d m)
    (he : metaEntries m = some (nks, nvs)) : ∀ y ∈ nks, El cfg y := by
  have hE := El_of_VOK hm
  have single : ∀ (z : Val), El cfg z → ∀ y ∈ [z], El cfg y := by
    intro z hz y hy
    rw [List.mem_singleton] at hy
    subst hy
    exact hz
  cases m with
  | map h md ks vs =>
    simp only [metaEntries, Option.some.injEq, Prod.mk.injEq] at he
    obtain ⟨rfl, rfl⟩ := he
    exact map_keys_Elems cfg h md _ _ hE.2.1 hE.1 hE.2.2
  | kw h ns name =>
    simp only [metaEntries, Option.some.injEq, Prod.mk.injEq] at he
    obtain ⟨rfl, rfl⟩ := he
    exact single _ hE
  | vec h md xs =>
    simp only [metaEntries, Option.some.injEq, Prod.mk.injEq] at he
    obtain ⟨rfl, rfl⟩ := he
    exact single _ (El_synth_kw cfg _)
  | str h data esc =>
    simp only [metaEntries, Option.some.injEq, Prod.mk.injEq] at he
    obtain ⟨rfl, rfl⟩ := he
    exact single _ (El_synth_kw cfg _)
  | sym h md ns name =>
    simp only [metaEntries, Option.some.injEq, Prod.mk.injEq] at he
    obtain ⟨rfl, rfl⟩ := he
    exact single _ (El_synth_kw cfg _)
  | _ => simp [metaEntries] at he

/-- the metadata map `attachMeta` installs has good keys -/
theorem MdOK_attachMeta {cfg : Cfg} {m form : Val} {nks nvs : List Val} (ht : form.metaTarget = true)
    (hn : ∀ y ∈ nks, El cfg y) (hf : MdOK cfg form) : MdOK cfg (attachMeta cfg m form nks nvs) := by
  unfold attachMeta
  split
  · next h md ks vs hmd =>
    intro h' md' ks' vs' e
    rw [md_setMd _ ht] at e
    simp only [Option.some.injEq, Val.map.injEq] at e
    obtain ⟨-, -, rfl, -⟩ := e
    intro y hy
    rcases List.mem_append.mp hy with hy | hy
    · exact hn y hy
    · exact hf h md ks vs hmd y (keepOld_mem cfg nks ks vs y hy)
  · intro h' md' ks' vs' e
    rw [md_setMd _ ht] at e
    simp only [Option.some.injEq, Val.map.injEq] at e
    obtain ⟨-, -, rfl, -⟩ := e
    exact hn

/-! ## the relation -/

structure Good (cfg : Cfg) (d : Nat) (v v0 : Val) : Prop where
  er : eraseCache v = eraseCache v0
  ok : VOK cfg d v
  ok0 : VOK cfg d v0
  md : MdOK cfg v
  md0 : MdOK cfg v0

theorem Good.weaken {cfg : Cfg} {d : Nat} {v v0 : Val} (h : Good cfg (d + 1) v v0) : Good cfg d v v0 :=
  ⟨h.er, h.ok.weaken, h.ok0.weaken, h.md, h.md0⟩

/-- the header replacement of `edn_read_tagged` (the result of a handler gets the range of the
    tagged form) -/
theorem Good.setRange {cfg : Cfg} {d : Nat} {v v0 : Val} (s e : Nat) (h : Good cfg d v v0) :
    Good cfg d (v.setHdr { v.hdr with s := s, e := e }) (v0.setHdr { v0.hdr with s := s, e := e }) := by
  refine ⟨?_, VOK_setHdr _ rfl h.ok, VOK_setHdr _ rfl h.ok0, MdOK_setHdr _ h.md, MdOK_setHdr _ h.md0⟩
  have hh := congrArg Val.hdr h.er
  rw [erase_hdr, erase_hdr] at hh
  have e2 : v.hdr.synth = v0.hdr.synth := by have := congrArg Hdr.synth hh; exact this
  rw [erase_setHdr, erase_setHdr, h.er]
  show (eraseCache v0).setHdr ⟨s, e, 0, v.hdr.synth⟩ = (eraseCache v0).setHdr ⟨s, e, 0, v0.hdr.synth⟩
  rw [e2]

/-- source range of two values that differ in cache cells only -/
theorem range_of_erase {v v0 : Val} (h : eraseCache v = eraseCache v0) : v.hdr.s = v0.hdr.s ∧ v.hdr.e = v0.hdr.e := by
  have hh := congrArg Val.hdr h
  rw [erase_hdr, erase_hdr] at hh
  exact ⟨by have := congrArg Hdr.s hh; exact this, by have := congrArg Hdr.e hh; exact this⟩

/-- a handler that does not look at cache cells and returns operands of the value algebra: on
    arguments that differ in cache cells only it gives up on both or returns results that differ
    in cache cells only (and are well-formed with valid caches) -/
def HandlerOK (cfg : Cfg) (h : Handler) : Prop :=
  ∀ (d : Nat) (v v0 : Val), Good cfg (d + 1) v v0 →
    match h.run v, h.run v0 with
    | none, none => True
    | some r, some r0 => Good cfg d r r0
    | _, _ => False

/-- every handler of the registry (if there is one) is such a handler -/
def RegistryOK (cfg : Cfg) (opts : Opts) : Prop :=
  ∀ reg, opts.registry = some reg → ∀ tag h, reg tag = some h → HandlerOK cfg h

theorem RegistryOK_of_none {cfg : Cfg} {opts : Opts} (h : opts.registry = none) : RegistryOK cfg opts := by
  intro reg e; rw [h] at e; cases e

/-- result under an arbitrary oracle against the fault-free result at nesting depth `d`: a value
    is matched by a value that differs in cache cells only; "closer" by "closer"; the end of input
    between top-level forms (the error the caller may turn into its end-of-input value) by itself;
    the model's "out of fuel" by "out of fuel"; any other error by anything -/
def RelF (cfg : Cfg) (d : Nat) (rA r0 : Res) : Prop :=
  match rA with
  | .ok v st' => ∃ v0, r0 = .ok v0 st' ∧ Good cfg d v v0
  | .closer st' => r0 = .closer st'
  | .err e st' => (e.eofTop = true → d = 0 ∧ r0 = .err e st') ∧
      (e.fuelOut = true → ∃ e0 s0, r0 = .err e0 s0 ∧ e0.fuelOut = true)

/-- an ordinary error is related to everything -/
theorem RelF_nt {cfg : Cfg} {d : Nat} {e : ErrInfo} {s : St} {r0 : Res} (h : e.eofTop = false) (h2 : e.fuelOut = false) :
    RelF cfg d (.err e s) r0 := by
  constructor
  · intro h'; rw [h] at h'; cases h'
  · intro h'; rw [h2] at h'; cases h'

theorem RelF_err {cfg : Cfg} {d : Nat} {rA r0 : Res} (h : isErr rA) : RelF cfg d rA r0 := by
  cases rA with
  | err e s => exact RelF_nt h.1 h.2
  | ok v s => exact h.elim
  | closer s => exact h.elim

/-- an error of a call one level deeper is never "end of input between forms" -/
theorem nt_of_deeper {cfg : Cfg} {d : Nat} {e : ErrInfo} {s : St} {r0 : Res} (h : RelF cfg (d + 1) (.err e s) r0) :
    e.eofTop = false := by
  cases he : e.eofTop with
  | false => rfl
  | true => exact absurd (h.1 he).1 (Nat.succ_ne_zero d)

/-- an error handed up unchanged from a call one level deeper, when the fault-free side hands an
    "out of fuel" up as well -/
theorem RelF_pass {cfg : Cfg} {d : Nat} {e : ErrInfo} {s : St} {r0' r0 : Res} (h : RelF cfg (d + 1) (.err e s) r0')
    (hp : ∀ e0 s0, r0' = .err e0 s0 → e0.fuelOut = true → ∃ e1 s1, r0 = .err e1 s1 ∧ e1.fuelOut = true) :
    RelF cfg d (.err e s) r0 := by
  refine ⟨fun ht => ?_, fun hf => ?_⟩
  · have := nt_of_deeper h; rw [this] at ht; cases ht
  · obtain ⟨e0, s0, hr, hf0⟩ := h.2 hf
    exact hp e0 s0 hr hf0

/-- `Val.md = none` for every value of an `ok` result -/
def NoMd (v : Val) : Prop := v.md = none

theorem readString_noMd (ctx : Ctx) (st : St) : (readString ctx st).okP NoMd := by
  unfold readString
  simp only []
  repeat' split
  all_goals first | trivial | exact (rfl : Val.md _ = none)

theorem readCharacter_noMd (ctx : Ctx) (st : St) : (readCharacter ctx st).okP NoMd := by
  rw [readCharacter_eq]
  repeat' split
  all_goals first | trivial | exact (rfl : Val.md _ = none)

theorem readIdentifier_noMd (ctx : Ctx) (st : St) : (readIdentifier ctx st).okP NoMd := by
  unfold readIdentifier
  simp only []
  repeat' split
  all_goals first | trivial | exact (rfl : Val.md _ = none)

theorem readSymbolic_noMd (ctx : Ctx) (st : St) : (readSymbolic ctx st).okP NoMd := by
  unfold readSymbolic
  simp only []
  repeat' split
  all_goals first | trivial | exact (rfl : Val.md _ = none)

theorem readNumberRes_noMd (ctx : Ctx) (st : St) : (readNumberRes ctx st).okP NoMd := by
  unfold readNumberRes
  simp only []
  split
  · next v rest _ => cases v <;> rfl
  · trivial

/-- the errors of a result are not "end of input between forms" -/
def NTop : Res → Prop
  | .err e _ => e.eofTop = false ∧ e.fuelOut = false
  | _ => True

theorem readString_ntop (ctx : Ctx) (st : St) : NTop (readString ctx st) := by
  unfold readString
  simp only []
  repeat' split
  all_goals first | trivial | exact ⟨rfl, rfl⟩

theorem readCharacter_ntop (ctx : Ctx) (st : St) : NTop (readCharacter ctx st) := by
  rw [readCharacter_eq]
  repeat' split
  all_goals first | trivial | exact ⟨rfl, rfl⟩

theorem readIdentifier_ntop (ctx : Ctx) (st : St) : NTop (readIdentifier ctx st) := by
  unfold readIdentifier
  simp only []
  repeat' split
  all_goals first | trivial | exact ⟨rfl, rfl⟩

theorem readSymbolic_ntop (ctx : Ctx) (st : St) : NTop (readSymbolic ctx st) := by
  unfold readSymbolic
  simp only []
  repeat' split
  all_goals first | trivial | exact ⟨rfl, rfl⟩

theorem readNumberRes_ntop (ctx : Ctx) (st : St) : NTop (readNumberRes ctx st) := by
  unfold readNumberRes
  simp only []
  split
  · trivial
  · exact ⟨rfl, rfl⟩

/-- a leaf reader with requests against the pure one -/
theorem RelF_leaf {x : ACtx} {r : Res × ASt} {a : ASt} {r0 : Res} {d : Nat} (h : Leaf x r a r0)
    (hfl : r0.okP FL) (hmd : r0.okP NoMd) (hnt : NTop r0) (hd : d ≤ Tables.maxNestingDepth) :
    RelF x.ctx.cfg d r.1 r0 := by
  rcases h.fault with e | e
  · rw [e]
    cases r0 with
    | ok v st' =>
      exact ⟨v, rfl, rfl, VOK_of_freshLeaf hfl hd, VOK_of_freshLeaf hfl hd, MdOK_of_none hmd, MdOK_of_none hmd⟩
    | closer st' => rfl
    | err e st' => exact RelF_nt hnt.1 hnt.2
  · exact RelF_err e

/-! ## closing a collection -/

theorem erase_list (h : Hdr) {xs xs0 : List Val} (he : eraseCacheL xs = eraseCacheL xs0) :
    eraseCache (.list h none xs) = eraseCache (.list h none xs0) := by
  unfold eraseCache; rw [he]

theorem erase_vec (h : Hdr) {xs xs0 : List Val} (he : eraseCacheL xs = eraseCacheL xs0) :
    eraseCache (.vec h none xs) = eraseCache (.vec h none xs0) := by
  unfold eraseCache; rw [he]

theorem erase_set (h : Hdr) {xs xs0 : List Val} (he : eraseCacheL xs = eraseCacheL xs0) :
    eraseCache (.set h none xs) = eraseCache (.set h none xs0) := by
  unfold eraseCache; rw [he]

theorem erase_map (h : Hdr) {ks ks0 vs vs0 : List Val} (hk : eraseCacheL ks = eraseCacheL ks0)
    (hv : eraseCacheL vs = eraseCacheL vs0) : eraseCache (.map h none ks vs) = eraseCache (.map h none ks0 vs0) := by
  unfold eraseCache; rw [hk, hv]

theorem erase_tagged (h : Hdr) (t : Bytes) {v v0 : Val} (he : eraseCache v = eraseCache v0) :
    eraseCache (.tagged h none t v) = eraseCache (.tagged h none t v0) := by
  unfold eraseCache; rw [he]

/-- the elements a duplicate check under faults hands back, when its verdict is "no duplicate" -/
theorem dup_elems_VOK {cfg : Cfg} {d : Nat} (c m : Bool) {xs : List Val} (hd : d < Tables.maxNestingDepth)
    (hx : ∀ y ∈ xs, VOK cfg (d + 1) y) (hv : (hasDuplicatesF cfg c m xs).1 = false) :
    (∀ y ∈ (hasDuplicatesF cfg c m xs).2, VOK cfg (d + 1) y) ∧ pairwiseDistinct cfg (hasDuplicatesF cfg c m xs).2 ∧
    (hasDuplicatesF cfg c m xs).2.length = xs.length := by
  obtain ⟨-, v2, v3, v4⟩ := hasDuplicatesF_verdict cfg c m xs (Elems_of_VOK hx)
  have he := eraseCacheL_hasDuplicatesF cfg c m xs
  refine ⟨VOK_of_Elems v3 ?_, (pairwiseDistinct_erase cfg _ _ he).mpr (v2.mp hv), v4⟩
  have : depthL (hasDuplicatesF cfg c m xs).2 = depthL xs := by
    rw [← depthL_eraseCacheL, he, depthL_eraseCacheL]
  rw [this]
  exact depthL_VOK hd hx

/-- a granted request after a duplicate check whose counter stood still: the check computed
    `hasDuplicatesF` for some allocation outcome -/
theorem dup_after {x : ACtx} {xs : List Val} {a1 a2 : ASt} {dup : Bool} {ys : List Val}
    (hq : hasDuplicatesA x xs a1 = ((dup, ys), a2)) (hc : a2.failedArena = a1.failedArena)
    (hr : (a2.request x.orc .arena).1 = true) : DupOut x xs (dup, ys) := by
  have h := hasDuplicatesA_out x xs a1
  rw [hq] at h
  have ha2 := request_true_alive x.orc a2 0 hr
  exact h.2 (h.1.arena.symm.trans ha2) hc

end Edn.Proofs.AllocSim
