/-
  Edn.Proofs.StrAux — per-unit lemmas for Edn.Proofs.Str (property C06).
-/
import Edn.Spec.StringLit
import Edn.Proofs.Scan
import Edn.Model.Reader

namespace Edn.Proofs
open Edn.Model Edn.Spec

/-! ### hex digits -/

theorem hex4?_cons_some {a b c d : UInt8} {r r' : Bytes} {cp : Nat}
    (h : hex4? (a :: b :: c :: d :: r) = some (cp, r')) :
    ∃ w x y z, hexDigit? a = some w ∧ hexDigit? b = some x ∧ hexDigit? c = some y ∧
      hexDigit? d = some z ∧ cp = ((w * 16 + x) * 16 + y) * 16 + z ∧ r' = r := by
  cases hw : hexDigit? a <;> cases hx : hexDigit? b <;> cases hy : hexDigit? c <;>
    cases hz : hexDigit? d <;> simp [hex4?, hw, hx, hy, hz] at h
  rename_i w x y z
  exact ⟨w, x, y, z, rfl, rfl, rfl, rfl, h.1.symm, h.2.symm⟩

/-- transport of a four-digit match to a longer input -/
theorem hex4?_append {a b c d : UInt8} {cp : Nat}
    (h : hex4? [a, b, c, d] = some (cp, [])) (rest : Bytes) :
    hex4? (a :: b :: c :: d :: rest) = some (cp, rest) := by
  obtain ⟨w, x, y, z, hw, hx, hy, hz, hcp, _⟩ := hex4?_cons_some h
  unfold hex4?
  simp only [hw, hx, hy, hz, hcp]

theorem hexDigit?_not_special {a : UInt8} {w : Nat} (h : hexDigit? a = some w) :
    (a == 0x5C) = false ∧ (a == 0x22) = false := by
  refine ⟨?_, ?_⟩
  · cases hq : (a == 0x5C)
    · rfl
    · have : a = 0x5C := by simpa using hq
      subst this
      revert h; rw [show hexDigit? 0x5C = none by decide]; simp
  · cases hq : (a == 0x22)
    · rfl
    · have : a = 0x22 := by simpa using hq
      subst this
      revert h; rw [show hexDigit? 0x22 = none by decide]; simp

/-! ### one unit under the quote scanner -/

theorem findQuote_unit (cfg : Cfg) (sp dn : Bytes) (h : StrUnit cfg sp dn) (bs : Bool) (t : Bytes) :
    findQuoteScalar bs (sp ++ t) = findQuoteScalar (bs || sp.contains 0x5C) t := by
  cases h with
  | plain b h1 h2 =>
    have e1 : (b == 0x22) = false := by simpa using h1
    have e2 : (b == 0x5C) = false := by simpa using h2
    have e3 : ¬ ((0x5C : UInt8) = b) := Ne.symm h2
    simp [findQuoteScalar_cons, e1, e2, e3]
  | unicode hc a b c d cp out hx hu =>
    obtain ⟨w, x, y, z, hw, hx', hy, hz, _, _⟩ := hex4?_cons_some hx
    have ha := hexDigit?_not_special hw
    have hb := hexDigit?_not_special hx'
    have hc' := hexDigit?_not_special hy
    have hd := hexDigit?_not_special hz
    simp [findQuoteScalar_cons, ha.1, ha.2, hb.1, hb.2, hc'.1, hc'.2, hd.1, hd.2]
  | _ => simp [findQuoteScalar_cons]

/-- a unit on its own (no closing quote behind it) never yields a quote -/
theorem unit_length_pos (cfg : Cfg) (sp dn : Bytes) (h : StrUnit cfg sp dn) : 1 ≤ sp.length := by
  cases h <;> simp

/-! ### one unit under the decoder -/

theorem decode_unit (cfg : Cfg) (sp dn : Bytes) (h : StrUnit cfg sp dn) (f : Nat) (t : Bytes) :
    decodeString cfg (f + 1) (sp ++ t) = (decodeString cfg f t).map (dn ++ ·) := by
  cases h with
  | plain b h1 h2 =>
    have e2 : (b == 0x5C) = false := by simpa using h2
    simp [decodeString, e2]
  | unicode hc a b c d cp out hx hu =>
    have hx' := hex4?_append hx t
    simp [decodeString, decodeEscape, hc, hx', hu]
  | formfeed hc => simp [decodeString, decodeEscape, hc]
  | backspace hc => simp [decodeString, decodeEscape, hc]
  | _ => simp [decodeString, decodeEscape]

/-- a unit without backslash is a plain byte -/
theorem unit_no_backslash (cfg : Cfg) (sp dn : Bytes) (h : StrUnit cfg sp dn)
    (hb : sp.contains 0x5C = false) : dn = sp := by
  cases h with
  | plain b h1 h2 => rfl
  | _ => simp at hb

end Edn.Proofs
