/-
  Edn.Proofs.TextBlock — C20: the reader's text-block scanner recovers the source lines of
  every well-formed block, and the value it builds is the string the documented algorithm
  denotes; such a value is indistinguishable (equality, hash, duplicate detection) from an
  ordinary string literal with the same content.
-/
import Edn.Spec.TextBlock
import Edn.Spec.StringLit
import Edn.Model.Reader
import Edn.Proofs.Equal
import Edn.Proofs.Str
import Edn.Proofs.TextBlockAux3

namespace Edn.Proofs
open Edn.Model Edn.Spec

/-- the body reader on an encoded block returns the denoted text and leaves what follows -/
theorem readTextBlockBody_encode (lines : List SrcLine) (c : Closer) (rest : Bytes)
    (hl : ∀ l ∈ lines, l.WF) (hc : c.WF lines) :
    readTextBlockBody (encodeBlock lines c ++ rest) = .ok (blockText lines c, rest) := by
  cases c with
  | ownLine ind =>
    have h := tbLines_block lines hl ind [] rest hc (by simp) .nil (by simp) (by simp)
      (encodeBlock lines (.ownLine ind) ++ rest) (by simp [encodeBlock])
    unfold readTextBlockBody
    rw [h]
    simp only [tbRender_own]
  | inline =>
    obtain ⟨l, hlast, hne, h1, h2⟩ := hc
    have hsplit : lines.dropLast ++ [l] = lines := dropLast_concat_of_getLast? lines l hlast
    have hwf : l.WF := hl l (List.mem_of_getLast? hlast)
    have hl' : ∀ x ∈ lines.dropLast, x.WF := fun x hx => hl x (List.dropLast_subset _ hx)
    have h := tbLines_block lines.dropLast hl' l.indent l.body rest hwf.1 hwf.2.1 hwf.2.2 h1 h2
      (encodeBlock lines .inline ++ rest) (by simp [encodeBlock, hlast])
    unfold readTextBlockBody
    rw [h]
    simp only [tbRender_inline _ l hne, hsplit]

/-- reader level: with the experimental flag, `"""⏎ block` reads as a string value holding
    exactly the denoted bytes (exact length, no escape processing left to do), spanning the
    whole literal -/
theorem readString_textblock (ctx : Ctx) (hexp : ctx.cfg.exp = true) (lines : List SrcLine) (c : Closer) (rest : Bytes) (cl : List Call)
    (hl : ∀ l ∈ lines, l.WF) (hc : c.WF lines) :
    readString ctx { rest := [0x22, 0x22, 0x22, 0x0A] ++ encodeBlock lines c ++ rest, calls := cl } =
      .ok (.str (mkHdr (4 + (encodeBlock lines c).length + rest.length) rest.length) (blockText lines c) false)
        { rest := rest, calls := cl } := by
  have hb := readTextBlockBody_encode lines c rest hl hc
  unfold readString
  simp only [hexp, startsWith, Bool.true_and]
  have hp : ([0x22, 0x22, 0x22, 0x0A] : Bytes).isPrefixOf
      ([0x22, 0x22, 0x22, 0x0A] ++ encodeBlock lines c ++ rest) = true := by
    simp
  have hd : ([0x22, 0x22, 0x22, 0x0A] ++ encodeBlock lines c ++ rest).drop 4 = encodeBlock lines c ++ rest := by
    simp
  rw [hp, hd, hb]
  simp [Ctx.pos]
  congr 1
  omega

/-- the end-of-line rule: the text ends with a line feed exactly when the closing delimiter
    stands on its own line (for a block with at least one line) -/
theorem blockText_final_newline (lines : List SrcLine) (c : Closer) (hne : lines ≠ [])
    (hl : ∀ l ∈ lines, l.WF) (hc : c.WF lines) :
    ((blockText lines c).getLast? = some 0x0A) ↔ (∃ ind, c = .ownLine ind) := by
  cases c with
  | ownLine ind =>
    refine ⟨fun _ => ⟨ind, rfl⟩, fun _ => ?_⟩
    obtain ⟨l, hlast⟩ : ∃ l, lines.getLast? = some l := by
      cases h : lines.getLast? with
      | none => exact absurd (List.getLast?_eq_none_iff.mp h) hne
      | some l => exact ⟨l, rfl⟩
    have hsplit := dropLast_concat_of_getLast? lines l hlast
    rw [← hsplit]
    simp [blockText]
  | inline =>
    constructor
    · intro h
      exfalso
      obtain ⟨l, hlast, hb, _, _⟩ := hc
      have hwf : l.WF := hl l (List.mem_of_getLast? hlast)
      have hn := lineText_ne_nil (commonIndent lines .inline) l hwf hb
      simp only [blockText, hlast] at h
      rw [List.getLast?_append, List.getLast?_eq_some_getLast hn, Option.some_or] at h
      have hm := List.getLast_mem hn
      rw [Option.some.inj h] at hm
      exact lineText_noLF _ l hwf _ hm rfl
    · rintro ⟨ind, h⟩
      cases h

/-- a text-block value and an ordinary literal spelling the same content are equal, hash alike
    (hence collide in sets and as map keys) -/
theorem textblock_eq_literal (cfg : Cfg) (h h' : Hdr) (text sp : Bytes) (hs : StrContent cfg sp text) :
    Eqv cfg (.str h text false) (.str h' sp (sp.contains 0x5C)) ∧
    hashV cfg (.str h text false) = hashV cfg (.str h' sp (sp.contains 0x5C)) := by
  have h1 : stringContent cfg text false = (true, text) := by simp [stringContent]
  have h2 : stringContent cfg sp (sp.contains 0x5C) = (true, text) := by
    cases hb : sp.contains 0x5C with
    | false => simp [stringContent, no_backslash_plain cfg sp text hs hb]
    | true => simp [stringContent, decode_content cfg sp text hs (sp.length + 1) (Nat.lt_succ_self _)]
  generalize sp.contains 0x5C = e at h2
  constructor
  · simp [Eqv, eqvF, h1, h2]
  · simp [hashV, tySeed, h1, h2]

end Edn.Proofs
