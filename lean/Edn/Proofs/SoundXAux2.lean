/-
  Edn.Proofs.SoundXAux2 — the metadata merge and the key qualification of namespaced maps on
  contents: `stripM (attachMeta …) = attachMetaC … (stripM …)` for values whose keys satisfy the
  reader invariant (valid caches, within the depth budget), `metaEntries` versus `metaEntriesC`,
  `qualifyKey` versus `stripM`, and the invariant `MdOK` on the metadata cell of read values.
-/
import Edn.Proofs.SoundXAux1
import Edn.Proofs.MetaMerge
import Edn.Proofs.ReaderInv

namespace Edn.Proofs.SndX
open Edn.Model Edn.Spec Edn.Generated Edn.Proofs Edn.Proofs.Cmpl

/-! ### annotations -/

theorem metaEntriesC_stripM (m : Val) :
    metaEntriesC (stripM m) = (metaEntries m).map (fun p => (stripML p.1, stripML p.2)) := by
  cases m <;> simp [stripM, metaEntries, metaEntriesC, stripML_cons, stripML_nil]

theorem metaEntriesC_of_some {m : Val} {nks nvs : List Val} (h : metaEntries m = some (nks, nvs)) :
    metaEntriesC (stripM m) = some (stripML nks, stripML nvs) := by
  rw [metaEntriesC_stripM, h]; rfl

theorem metaEntriesC_of_none {m : Val} (h : metaEntries m = none) : metaEntriesC (stripM m) = none := by
  rw [metaEntriesC_stripM, h]; rfl

/-- the new keys of an annotation satisfy the hypotheses of the equality theorems -/
theorem elems_metaEntries {cfg : Cfg} {d : Nat} {m : Val} {nks nvs : List Val} (hm : ValOK cfg d m)
    (he : metaEntries m = some (nks, nvs)) : Elems cfg nks := by
  obtain ⟨h1, h2, h3⟩ := hm
  have hdm : depth m < maxDepthFuel := by
    have := nest_le_rec
    show depth m < Tables.maxRecursionDepth + 1
    omega
  have hsyn : ∀ nm : Bytes, Elems cfg [.kw synthHdr none nm] := by
    intro nm x hx
    simp only [List.mem_singleton] at hx
    subst hx
    exact ⟨Nat.succ_pos _, trivial, rfl⟩
  cases m <;> simp only [metaEntries, Option.some.injEq, Prod.mk.injEq, reduceCtorEq] at he
  case str => obtain ⟨rfl, -⟩ := he; exact hsyn _
  case sym => obtain ⟨rfl, -⟩ := he; exact hsyn _
  case vec => obtain ⟨rfl, -⟩ := he; exact hsyn _
  case kw h ns nm =>
    obtain ⟨rfl, -⟩ := he
    intro x hx
    simp only [List.mem_singleton] at hx
    subst hx
    exact ⟨hdm, h2, h3⟩
  case map h md ks vs =>
    obtain ⟨rfl, -⟩ := he
    exact map_keys_Elems cfg h md _ vs h2 hdm h3

/-! ### the merge -/

theorem keepOld_mem (cfg : Cfg) (nks : List Val) : ∀ (ks vs : List Val), ∀ k ∈ (keepOld cfg nks ks vs).1, k ∈ ks := by
  intro ks
  induction ks with
  | nil =>
    intro vs k hk
    have e : keepOld cfg nks [] vs = ([], []) := by rw [keepOld]; intros; contradiction
    rw [e] at hk; cases hk
  | cons k0 ks ih =>
    intro vs k hk
    cases vs with
    | nil =>
      have e : keepOld cfg nks (k0 :: ks) [] = ([], []) := by rw [keepOld]; intros; contradiction
      rw [e] at hk; cases hk
    | cons v0 vs =>
      rw [keepOld_cons] at hk
      split at hk
      · exact List.mem_cons_of_mem _ (ih vs k hk)
      · rcases List.mem_cons.mp hk with h | h
        · rw [h]; exact List.mem_cons_self
        · exact List.mem_cons_of_mem _ (ih vs k h)

theorem keepOldC_cons (cfg : Cfg) (newKs : List Val) (k v : Val) (ks vs : List Val) :
    keepOldC cfg newKs (k :: ks) (v :: vs) =
      if newKs.any (fun nk => decide (Eqv cfg k nk)) then keepOldC cfg newKs ks vs
      else (k :: (keepOldC cfg newKs ks vs).1, v :: (keepOldC cfg newKs ks vs).2) := by
  rw [keepOldC]

theorem keepOldC_nil_left (cfg : Cfg) (newKs vs : List Val) : keepOldC cfg newKs [] vs = ([], []) := by
  rw [keepOldC]; intros; contradiction

theorem keepOldC_nil_right (cfg : Cfg) (newKs ks : List Val) : keepOldC cfg newKs ks [] = ([], []) := by
  rw [keepOldC]; intros; contradiction

/-- on keys that satisfy the reader invariant, `edn_value_equal` in the merge is the
    specification's equality, and the merge commutes with taking contents -/
theorem keepOld_stripM (cfg : Cfg) (nks : List Val) (hn : Elems cfg nks) : ∀ (ks vs : List Val), Elems cfg ks →
    keepOldC cfg (stripML nks) (stripML ks) (stripML vs) =
      (stripML (keepOld cfg nks ks vs).1, stripML (keepOld cfg nks ks vs).2) := by
  intro ks
  induction ks with
  | nil =>
    intro vs _
    have e : keepOld cfg nks [] vs = ([], []) := by rw [keepOld]; intros; contradiction
    rw [e, stripML_nil, keepOldC_nil_left]
  | cons k ks ih =>
    intro vs ho
    cases vs with
    | nil =>
      have e : keepOld cfg nks (k :: ks) [] = ([], []) := by rw [keepOld]; intros; contradiction
      rw [e, stripML_nil, keepOldC_nil_right]
    | cons v vs =>
      have hk := ho k List.mem_cons_self
      have hany : (stripML nks).any (fun nk => decide (Eqv cfg (stripM k) nk)) = nks.any (fun nk => equal cfg k nk) := by
        rw [stripML_eq_map, List.any_map]
        apply any_congr_mem
        intro nk hnk
        have hnk' := hn nk hnk
        have e := equal_iff_Eqv cfg k nk hk.1 hnk'.1 hk.2.1 hnk'.2.1 hk.2.2 hnk'.2.2
        show decide (Eqv cfg (stripM k) (stripM nk)) = equal cfg k nk
        cases hq : equal cfg k nk with
        | true => exact decide_eq_true ((Eqv_stripM_iff cfg k nk).mpr (e.mp hq))
        | false =>
          apply decide_eq_false
          intro hh
          have := e.mpr ((Eqv_stripM_iff cfg k nk).mp hh)
          rw [hq] at this; cases this
      rw [stripML_cons, stripML_cons, keepOldC_cons, hany, ih vs ho.tail, keepOld_cons]
      by_cases hc : nks.any (fun nk => equal cfg k nk) = true
      · rw [if_pos hc, if_pos hc]
      · rw [if_neg hc, if_neg hc, stripML_cons, stripML_cons]

/-- the invariant on the metadata cell of a value the reader returns: if it holds a map, the
    map's keys satisfy the hypotheses of the equality theorems -/
def MdOK (cfg : Cfg) (v : Val) : Prop := ∀ h md ks vs, v.md = some (.map h md ks vs) → Elems cfg ks

theorem mdOK_of_none {cfg : Cfg} {v : Val} (h : v.md = none) : MdOK cfg v := by
  intro h' md ks vs e; rw [h] at e; cases e

/-- **the merge on contents**: for a target and new keys as the reader produces them -/
theorem stripM_attachMeta (cfg : Cfg) (m form : Val) (nks nvs : List Val) (hn : Elems cfg nks) (ho : MdOK cfg form) :
    stripM (attachMeta cfg m form nks nvs) = attachMetaC cfg (stripM form) (stripML nks) (stripML nvs) := by
  unfold attachMeta attachMetaC
  rw [md_stripM]
  cases hmd : form.md with
  | none =>
    simp only [stripMO_none]
    rw [stripM_setMd, stripMO_some]
    simp only [stripM, stripMO_none]
  | some x =>
    rw [stripMO_some]
    cases x <;> simp only [stripM] <;> try (rw [stripM_setMd, stripMO_some]; simp only [stripM, stripMO_none])
    case map h md ks vs =>
      have hks := ho h md ks vs hmd
      rw [keepOld_stripM cfg nks hn ks vs hks]
      simp only [stripML_append]

theorem mdOK_attachMeta {cfg : Cfg} (m form : Val) (nks nvs : List Val) (h' : Hdr) (hn : Elems cfg nks) (ho : MdOK cfg form)
    (ht : form.metaTarget = true) : MdOK cfg ((attachMeta cfg m form nks nvs).setHdr h') := by
  intro h md ks vs e
  rw [md_setHdr] at e
  unfold attachMeta at e
  cases hmd : form.md with
  | none =>
    rw [hmd] at e
    simp only [] at e
    rw [md_setMd_of_target _ _ ht] at e
    simp only [Option.some.injEq, Val.map.injEq] at e
    obtain ⟨-, -, rfl, -⟩ := e
    exact hn
  | some x =>
    rw [hmd] at e
    cases x <;> simp only [] at e <;> rw [md_setMd_of_target _ _ ht] at e <;>
      simp only [Option.some.injEq, Val.map.injEq] at e
    case map h0 md0 ks0 vs0 =>
      obtain ⟨-, -, rfl, -⟩ := e
      have hks := ho h0 md0 ks0 vs0 hmd
      intro x hx
      rcases List.mem_append.mp hx with hx | hx
      · exact hn x hx
      · exact hks x (keepOld_mem cfg nks ks0 vs0 x hx)
    all_goals (obtain ⟨-, -, rfl, -⟩ := e; exact hn)

/-! ### key qualification -/

theorem stripM_qualifyKey (n : Bytes) (k : Val) : stripM (qualifyKey n k) = stripM (qualifyKey n (stripM k)) := by
  cases k <;> try rfl
  case kw h ns nm =>
    cases ns with
    | none => rfl
    | some x =>
      simp only [stripM, qualifyKey]
      split <;> rfl
  case sym h md ns nm =>
    cases ns with
    | none => rfl
    | some x =>
      simp only [stripM, qualifyKey]
      split
      · rfl
      · simp only [stripM]
        congr 1
        cases md with
        | none => rfl
        | some mm => rw [stripMO_some, stripMO_some, stripM_idem]
  all_goals (show stripM _ = stripM (stripM _); rw [stripM_idem]; rfl)

theorem qualifyKeysC_stripML (n : Bytes) (ks : List Val) :
    qualifyKeysC n (stripML ks) = stripML (ks.map (qualifyKey n)) := by
  unfold qualifyKeysC
  rw [stripML_eq_map, stripML_eq_map, stripML_eq_map, List.map_map, List.map_map, List.map_map]
  apply List.map_congr_left
  intro k _
  exact (stripM_qualifyKey n k).symm

theorem md_qualifyKey_of_none (n : Bytes) (k : Val) (h : k.md = none) : (qualifyKey n k).md = none := by
  cases k <;> try exact h
  case kw h0 ns nm =>
    cases ns with
    | none => rfl
    | some x => simp only [qualifyKey]; split <;> rfl
  case sym h0 md ns nm =>
    cases ns with
    | none => rfl
    | some x => simp only [qualifyKey]; split <;> first | rfl | exact h

end Edn.Proofs.SndX
