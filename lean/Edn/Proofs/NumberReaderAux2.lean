/-
  Edn.Proofs.NumberReaderAux2 — walking `readNumber` through the Clojure forms: hexadecimal,
  octal, radix.
-/
import Edn.Spec.NumberLit
import Edn.Proofs.CompleteNum
import Edn.Proofs.NumberReaderAux1

namespace Edn.Proofs.NRd
open Edn.Model Edn.Spec Edn.Proofs Edn.Proofs.CNum

/-! ## byte facts -/

def digit36 (c : UInt8) : Bool := !(digitValue c 36).isSome || (c != 0 && !isDelim c)
theorem digit36_all : ∀ c, digit36 c = true := forall_u8_bool _ (by decide +kernel)

def octalFacts (c : UInt8) : Bool :=
  !(digitValue c 8).isSome ||
    (is09 c && c != 0x78 && c != 0x58 && (c == 0x30 || (decide (0x31 ≤ c) && decide (c ≤ 0x37))))
theorem octalFacts_all : ∀ c, octalFacts c = true := forall_u8_bool _ (by decide +kernel)

def termDelim (c : UInt8) : Bool := !(c == 0 || isNumTerm c) || !(c != 0 && !isDelim c)
theorem termDelim_all : ∀ c, termDelim c = true := forall_u8_bool _ (by decide +kernel)

theorem digitValue_mono {c : UInt8} {r r' : Nat} (h : (digitValue c r).isSome = true) (hr : r ≤ r') :
    (digitValue c r').isSome = true := by
  unfold digitValue at h ⊢
  by_cases h1 : digitValueRaw c < r
  · have h2 : digitValueRaw c < r' := by omega
    simp [h2]
  · simp [h1] at h

theorem radixDigit_props {c : UInt8} {r : Nat} (hr : r ≤ 36) (h : (digitValue c r).isSome = true) :
    (c != 0 && !isDelim c) = true := by
  have := digit36_all c
  simpa [digit36, digitValue_mono h hr] using this

theorem term_stops {rest : Bytes} (ht : TermStart rest) :
    (peek rest != 0 && !isDelim (peek rest)) = false := by
  have := termDelim_all (peek rest)
  rcases peek_term ht with h | h
  · simp [h]
  · simp only [termDelim, h, Bool.or_true, Bool.not_true, Bool.false_or, Bool.not_eq_true'] at this
    exact this

/-! ## the digit loop -/

theorem radixDigitsLoop_digits (exp : Bool) (radix : Nat) (hr : radix ≤ 36) (strict : Bool) (rest : Bytes)
    (hstop : (peek rest != 0 && !isDelim (peek rest)) = false) :
    ∀ (ds : Bytes) (f : Nat), AllRadix radix ds → ds.length + 1 ≤ f →
      radixDigitsLoop exp radix strict f (ds ++ rest) = .ok rest := by
  intro ds
  induction ds with
  | nil =>
    intro f _ hf
    obtain ⟨f, rfl⟩ : ∃ f', f = f' + 1 := ⟨f - 1, by simp at hf; omega⟩
    simp only [List.nil_append]
    unfold radixDigitsLoop
    simp only [hstop, Bool.false_eq_true, ↓reduceIte]
  | cons d ds ih =>
    intro f hd hf
    obtain ⟨f, rfl⟩ : ∃ f', f = f' + 1 := ⟨f - 1, by simp at hf; omega⟩
    have hd1 : (digitValue d radix).isSome = true := hd d (by simp)
    have hp := radixDigit_props hr hd1
    unfold radixDigitsLoop
    have hpk : peek (d :: ds ++ rest) = d := rfl
    have hadv : adv (d :: ds ++ rest) = ds ++ rest := rfl
    simp only [hpk, hadv, hd1, hp, ↓reduceIte]
    exact ih f (fun c hc => hd c (by simp [hc])) (by simp at hf ⊢; omega)

theorem radixTail_term (cfg : Cfg) (neg : Bool) (radix : Nat) (allowN : Bool) (ds rest : Bytes)
    (ht : TermStart rest) :
    radixTail cfg neg radix allowN (ds ++ rest) rest = .ok (intOrBig cfg ds radix neg) rest := by
  have hst := term_props (peek_term ht)
  have h2 := stopProps2_unpack hst
  unfold radixTail
  simp only [h2.2.1, h2.2.2.1, h2.2.2.2, Bool.and_false, Bool.false_eq_true, ↓reduceIte, ite_self,
    slice_append]
  exact finishNum_term _ ht

/-! ## hexadecimal -/

theorem head_radix {radix : Nat} {ds : Bytes} (hne : ds ≠ []) (hd : AllRadix radix ds) (rest : Bytes) :
    (digitValue (peek (ds ++ rest)) radix).isSome = true := by
  cases ds with
  | nil => exact absurd rfl hne
  | cons d t => exact hd d (by simp)

theorem numBody_hex (cfg : Cfg) (hc : cfg.clj = true) (s0 : Bytes) (neg : Bool) (x : UInt8) (hs rest : Bytes)
    (hx : x = 0x78 ∨ x = 0x58) (hne : hs ≠ []) (hh : AllHex hs) (ht : TermStart rest) :
    numBody cfg s0 neg (0x30 :: x :: (hs ++ rest)) = .ok (intOrBig cfg hs 16 neg) rest := by
  have hx1 : is09 x = false := by rcases hx with rfl | rfl <;> decide
  have hx2 : (x == 0x72 || x == 0x52) = false := by rcases hx with rfl | rfl <;> decide
  have hx3 : (x == 0x30) = false := by rcases hx with rfl | rfl <;> decide
  have hx4 : (x == 0x78 || x == 0x58) = true := by rcases hx with rfl | rfl <;> decide
  have hdw : (0x30 :: x :: (hs ++ rest)).dropWhile is09 = x :: (hs ++ rest) := by
    have e0 : is09 0x30 = true := by decide
    simp only [List.dropWhile_cons, e0, hx1, ↓reduceIte, Bool.false_eq_true]
  have hdz : (x :: (hs ++ rest)).dropWhile (· == 0x30) = x :: (hs ++ rest) := by
    simp only [List.dropWhile_cons, hx3, Bool.false_eq_true, ↓reduceIte]
  have hpk : peek (0x30 :: x :: (hs ++ rest)) = 0x30 := rfl
  have hadv : adv (0x30 :: x :: (hs ++ rest)) = x :: (hs ++ rest) := rfl
  have hpk2 : peek (x :: (hs ++ rest)) = x := rfl
  have hadv2 : adv (x :: (hs ++ rest)) = hs ++ rest := rfl
  have e0 : is09 0x30 = true := by decide
  have h00 : ((0x30 : UInt8) == 0x30) = true := rfl
  have hloop := radixDigitsLoop_digits cfg.exp 16 (by omega) false rest (term_stops ht) hs
    ((hs ++ rest).length + 1) hh (by simp)
  unfold numBody
  simp only [hc, hpk, e0, Bool.and_self, ↓reduceIte, hdw, hx2, Bool.false_eq_true, h00, hadv, hdz,
    hpk2, hx4, hadv2, head_radix hne hh rest, Bool.not_true, hloop,
    radixTail_term cfg neg 16 true hs rest ht]

/-! ## octal -/

theorem dropWhile_zeros (Y : Bytes) (h : (peek Y == 0x30) = false) (zs : Bytes) (hz : ∀ c ∈ zs, c = 0x30) :
    (zs ++ Y).dropWhile (· == 0x30) = Y := by
  induction zs with
  | nil => exact dropWhile_peek_false _ Y h
  | cons z zs ih =>
    have hz0 : z = 0x30 := hz z (by simp)
    subst hz0
    simp only [List.cons_append, List.dropWhile_cons, BEq.rfl, ↓reduceIte]
    exact ih (fun c hc => hz c (by simp [hc]))

theorem octal_props {c : UInt8} (h : (digitValue c 8).isSome = true) :
    is09 c = true ∧ (c == 0x78) = false ∧ (c == 0x58) = false ∧
      ((c == 0x30) = false → (decide (0x31 ≤ c) && decide (c ≤ 0x37)) = true) := by
  have := octalFacts_all c
  simp only [octalFacts, h, Bool.not_true, Bool.false_or, bne, Bool.and_eq_true, Bool.not_eq_true',
    Bool.or_eq_true] at this
  refine ⟨this.1.1.1, this.1.1.2, this.1.2, fun h0 => ?_⟩
  rcases this.2 with h1 | h1
  · rw [h0] at h1
    exact absurd h1 (by decide)
  · simpa using h1

theorem numBody_octal (cfg : Cfg) (hc : cfg.clj = true) (s0 : Bytes) (neg : Bool) (zs os rest : Bytes)
    (hz : ∀ c ∈ zs, c = 0x30) (hne : os ≠ []) (ho : AllRadix 8 os) (hfirst : os.head? ≠ some 0x30)
    (ht : TermStart rest) :
    numBody cfg s0 neg (0x30 :: zs ++ os ++ rest) = .ok (intOrBig cfg (0x30 :: zs ++ os) 8 neg) rest := by
  have hst := term_props (peek_term ht)
  have hsp := stopProps_unpack (stopProps2_unpack hst).1
  obtain ⟨o, ot, rfl⟩ : ∃ o ot, os = o :: ot := by
    cases os with
    | nil => exact absurd rfl hne
    | cons o ot => exact ⟨o, ot, rfl⟩
  have ho1 := octal_props (ho o (by simp))
  have ho0 : (o == 0x30) = false := by
    cases h : o == 0x30
    · rfl
    · exfalso
      apply hfirst
      simp only [List.head?_cons]
      rw [eq_of_beq h]
  have ho17 := ho1.2.2.2 ho0
  have hall : ∀ c ∈ 0x30 :: zs ++ o :: ot, is09 c = true := by
    intro c hc
    simp only [List.cons_append, List.mem_cons, List.mem_append] at hc
    rcases hc with rfl | hc | rfl | hc
    · decide
    · rw [hz c hc]; decide
    · exact ho1.1
    · exact (octal_props (ho c (by simp [hc]))).1
  have hdw : (0x30 :: zs ++ o :: ot ++ rest).dropWhile is09 = rest :=
    dropWhile_digits rest hsp.1 _ hall
  have hpko : (peek (o :: ot ++ rest) == 0x30) = false := ho0
  have hdz : (zs ++ o :: ot ++ rest).dropWhile (· == 0x30) = o :: ot ++ rest := by
    rw [List.append_assoc]
    exact dropWhile_zeros _ hpko zs hz
  have hpk : peek (0x30 :: zs ++ o :: ot ++ rest) = 0x30 := rfl
  have hadv : adv (0x30 :: zs ++ o :: ot ++ rest) = zs ++ o :: ot ++ rest := rfl
  have hpk2 : peek (o :: ot ++ rest) = o := rfl
  have e0 : is09 0x30 = true := by decide
  have h00 : ((0x30 : UInt8) == 0x30) = true := rfl
  have hloop := radixDigitsLoop_digits cfg.exp 8 (by omega) false rest (term_stops ht) (o :: ot)
    ((o :: ot ++ rest).length + 1) ho (by simp)
  unfold numBody
  simp only [hc, hpk, e0, Bool.and_self, ↓reduceIte, hdw, h00, hadv, hdz, hpk2, ho1.2.1, ho1.2.2.1,
    Bool.or_self, Bool.false_eq_true, ho17, hloop]
  have hfin := radixTail_term cfg neg 8 true (0x30 :: zs ++ o :: ot) rest ht
  cases rest with
  | nil => exact hfin
  | cons r t =>
    have h1 : (r == 0x72) = false := hsp.2.2.1
    have h2 : (r == 0x52) = false := hsp.2.2.2.1
    simp only [h1, h2, Bool.or_self, Bool.false_eq_true, ↓reduceIte]
    exact hfin

/-! ## radix -/

theorem foldl_dec_ge (ds : Bytes) : ∀ v : Nat, v ≤ ds.foldl (fun a c => a * 10 + (c.toNat - 48)) v := by
  induction ds with
  | nil => intro v; exact Nat.le_refl _
  | cons d ds ih =>
    intro v
    simp only [List.foldl_cons]
    exact Nat.le_trans (by omega) (ih _)

theorem radixPrefixValue_eq (ds : Bytes) :
    ∀ v : Nat, ds.foldl (fun a c => a * 10 + (c.toNat - 48)) v ≤ 36 →
      radixPrefixValue v ds = ds.foldl (fun a c => a * 10 + (c.toNat - 48)) v := by
  induction ds with
  | nil => intro v _; rfl
  | cons d ds ih =>
    intro v h
    simp only [List.foldl_cons] at h ⊢
    have h1 := foldl_dec_ge ds (v * 10 + (d.toNat - 48))
    have hv : v ≤ 36 := by omega
    unfold radixPrefixValue
    simp only [hv, ↓reduceIte]
    exact ih _ h

theorem numBody_radix (cfg : Cfg) (hc : cfg.clj = true) (s0 : Bytes) (neg : Bool) (rp : Bytes) (r : UInt8)
    (ds rest : Bytes) (hrp : rp ≠ [] ∧ AllDigits rp) (hrv : 2 ≤ natOfDigits rp ∧ natOfDigits rp ≤ 36)
    (hr : r = 0x72 ∨ r = 0x52) (hne : ds ≠ []) (hd : AllRadix (natOfDigits rp) ds) (ht : TermStart rest) :
    numBody cfg s0 neg (rp ++ r :: (ds ++ rest)) = .ok (intOrBig cfg ds (natOfDigits rp) neg) rest := by
  have hr1 : is09 r = false := by rcases hr with rfl | rfl <;> decide
  have hr2 : (r == 0x72 || r == 0x52) = true := by rcases hr with rfl | rfl <;> decide
  have hpk : is09 (peek (rp ++ r :: (ds ++ rest))) = true := by
    obtain ⟨hne', hall⟩ := hrp
    cases rp with
    | nil => exact absurd rfl hne'
    | cons d t => exact hall d (by simp)
  have hdw : (rp ++ r :: (ds ++ rest)).dropWhile is09 = r :: (ds ++ rest) :=
    dropWhile_digits (r :: (ds ++ rest)) hr1 rp hrp.2
  have hsl : slice (rp ++ r :: (ds ++ rest)) (r :: (ds ++ rest)) = rp := slice_append _ _
  have hval : radixPrefixValue 0 rp = natOfDigits rp := radixPrefixValue_eq rp 0 hrv.2
  have hb : (decide (2 ≤ natOfDigits rp) && decide (natOfDigits rp ≤ 36)) = true := by
    simp [hrv.1, hrv.2]
  have hloop := radixDigitsLoop_digits cfg.exp (natOfDigits rp) hrv.2 true rest (term_stops ht) ds
    ((ds ++ rest).length + 1) hd (by simp)
  unfold numBody
  simp only [hc, hpk, Bool.and_self, ↓reduceIte, hdw, hr2, hsl, hval, hb, head_radix hne hd rest,
    Bool.not_true, Bool.false_eq_true, hloop, radixTail_term cfg neg (natOfDigits rp) false ds rest ht]

end Edn.Proofs.NRd
