/-
  Edn.Proofs.AllocMono — the allocation state only moves forward through the whole
  allocation-aware reader: for every reader function of Edn.Model.ReaderA the state it returns is
  later (`ASt.Le`: at least as many requests, the old trace is a suffix of the new one) than the
  state it was given.  Proved by induction on the fuel over the six mutually recursive readers,
  from the same fact about every helper (equality, hashing, the three duplicate strategies, the
  builders, the text-block line buffer, the metadata merge, the number reader).

  This is the skeleton other inductions over `readValueA` can follow.
-/
import Edn.Proofs.AllocNumber

namespace Edn.Proofs.AllocMono
open Edn.Model Edn.Proofs.AllocBasic Edn.Proofs.AllocNumber

/-- a state transformer with a result is monotone -/
def Mono {α : Type} (f : ASt → α × ASt) : Prop := ∀ a, ASt.Le a (f a).2

/-! ## Generic combinators -/

theorem anyA_le (p : Val → Val → ASt → Bool × ASt) (hp : ∀ u w a, ASt.Le a (p u w a).2) (v : Val) (ys : List Val) (a : ASt) :
    ASt.Le a (anyA p v ys a).2 := by
  induction ys generalizing a with
  | nil => exact Le.refl a
  | cons y ys ih =>
    unfold anyA
    have h1 := hp v y a
    rcases hq : p v y a with ⟨r, a1⟩
    rw [hq] at h1
    cases r
    · exact Le.trans h1 (ih a1)
    · exact h1

theorem allZipA_le (p : Val → Val → ASt → Bool × ASt) (hp : ∀ u w a, ASt.Le a (p u w a).2) (xs ys : List Val) (a : ASt) :
    ASt.Le a (allZipA p xs ys a).2 := by
  induction xs generalizing ys a with
  | nil => cases ys <;> exact Le.refl a
  | cons v vs ih =>
    cases ys with
    | nil => exact Le.refl a
    | cons y ys =>
      unfold allZipA
      have h1 := hp v y a
      rcases hq : p v y a with ⟨r, a1⟩
      rw [hq] at h1
      cases r
      · exact h1
      · exact Le.trans h1 (ih ys a1)

theorem allAnyA_le (p : Val → Val → ASt → Bool × ASt) (hp : ∀ u w a, ASt.Le a (p u w a).2) (xs ys : List Val) (a : ASt) :
    ASt.Le a (allAnyA p xs ys a).2 := by
  induction xs generalizing a with
  | nil => exact Le.refl a
  | cons v vs ih =>
    unfold allAnyA
    have h1 := anyA_le p hp v ys a
    rcases hq : anyA p v ys a with ⟨r, a1⟩
    rw [hq] at h1
    cases r
    · exact h1
    · exact Le.trans h1 (ih a1)

theorem mapEntryA_le (p : Val → Val → ASt → Bool × ASt) (hp : ∀ u w a, ASt.Le a (p u w a).2) (k v : Val) (ks vs : List Val) (a : ASt) :
    ASt.Le a (mapEntryA p k v ks vs a).2 := by
  induction ks generalizing vs a with
  | nil => cases vs <;> exact Le.refl a
  | cons k' ks ih =>
    cases vs with
    | nil => exact Le.refl a
    | cons v' vs =>
      unfold mapEntryA
      have h1 := hp k k' a
      rcases hq : p k k' a with ⟨r, a1⟩
      rw [hq] at h1
      cases r
      · exact Le.trans h1 (ih vs a1)
      · exact Le.trans h1 (hp v v' a1)

theorem mapAllA_le (p : Val → Val → ASt → Bool × ASt) (hp : ∀ u w a, ASt.Le a (p u w a).2) (ks' vs' ks vs : List Val) (a : ASt) :
    ASt.Le a (mapAllA p ks' vs' ks vs a).2 := by
  induction ks generalizing vs a with
  | nil => cases vs <;> exact Le.refl a
  | cons k ks ih =>
    cases vs with
    | nil => exact Le.refl a
    | cons v vs =>
      unfold mapAllA
      have h1 := mapEntryA_le p hp k v ks' vs' a
      rcases hq : mapEntryA p k v ks' vs' a with ⟨r, a1⟩
      rw [hq] at h1
      cases r
      · exact h1
      · exact Le.trans h1 (ih vs a1)

/-! ## Equality and hashing -/

theorem digitsEqA_le (x : ACtx) (h h' : Hdr) (d d' : Bytes) (a : ASt) : ASt.Le a (digitsEqA x h d h' d' a).2 := by
  unfold digitsEqA
  have h1 := cleanA_le x h d a
  rcases hq : cleanA x h d a with ⟨da, a1⟩
  rw [hq] at h1
  dsimp only
  have h2 := cleanA_le x h' d' a1
  rcases hq2 : cleanA x h' d' a1 with ⟨db, a2⟩
  rw [hq2] at h2
  exact Le.trans h1 h2

theorem strEqA_le (x : ACtx) (h h' : Hdr) (d d' : Bytes) (e e' : Bool) (a : ASt) :
    ASt.Le a (strEqA x h d e h' d' e' a).2 := by
  unfold strEqA
  have h1 := strContentA_le x h d e a
  rcases hq : strContentA x h d e a with ⟨ca, a1⟩
  rw [hq] at h1
  dsimp only
  have h2 := strContentA_le x h' d' e' a1
  rcases hq2 : strContentA x h' d' e' a1 with ⟨cb, a2⟩
  rw [hq2] at h2
  exact Le.trans h1 h2

theorem equalFA_le (x : ACtx) (f : Nat) (va vb : Val) (a : ASt) : ASt.Le a (equalFA x f va vb a).2 := by
  induction f generalizing va vb a with
  | zero => exact Le.refl a
  | succ f ih =>
    unfold equalFA
    split
    · exact Le.refl a
    · split
      · exact Le.refl a
      · split
        all_goals first
          | exact Le.refl a
          | (repeat' split
             all_goals first
               | exact Le.refl a
               | exact digitsEqA_le x _ _ _ _ a
               | exact strEqA_le x _ _ _ _ _ _ a
               | exact allZipA_le _ (fun u w a => ih u w a) _ _ a
               | exact allAnyA_le _ (fun u w a => ih u w a) _ _ a
               | exact mapAllA_le _ (fun u w a => ih u w a) _ _ _ _ a
               | exact ih _ _ a)

theorem equalA_le (x : ACtx) (va vb : Val) (a : ASt) : ASt.Le a (equalA x va vb a).2 :=
  equalFA_le x _ va vb a

theorem hash_le (x : ACtx) :
    (∀ v a, ASt.Le a (hashVA x v a).2) ∧ (∀ ks vs a, ASt.Le a (hashPairsA x ks vs a).2) ∧
    (∀ xs a, ASt.Le a (hashListA x xs a).2) := by
  apply hashVA.mutual_induct x (fun v a => ASt.Le a (hashVA x v a).2)
    (fun ks vs a => ASt.Le a (hashPairsA x ks vs a).2) (fun xs a => ASt.Le a (hashListA x xs a).2)
  case case1 => intro h neg radix d a dd a1 e; unfold hashVA; rw [e]; have := cleanA_le x h d a; rw [e] at this; exact this
  case case2 => intro h neg t a dd a1 e; unfold hashVA; rw [e]; have := cleanA_le x h t a; rw [e] at this; exact this
  case case3 => intro h data esc a c a1 e; unfold hashVA; rw [e]; have := strContentA_le x h data esc a; rw [e] at this; exact this
  case case4 => intro h md xs a hs a1 e ih; unfold hashVA; rw [e]; rw [e] at ih; exact ih
  case case5 => intro h md xs a hs a1 e ih; unfold hashVA; rw [e]; rw [e] at ih; exact ih
  case case6 => intro h md xs a hs a1 e ih; unfold hashVA; rw [e]; rw [e] at ih; exact ih
  case case7 => intro h md ks vs a hs a1 e ih; unfold hashVA; rw [e]; rw [e] at ih; exact ih
  case case8 => intro h md tag v a hv a1 e ih; unfold hashVA; rw [e]; rw [e] at ih; exact ih
  case case19 =>
    intro k ks v vs a hv a1 e1 hv2 a2 e2 hs a3 e3 ih1 ih2 ih3
    unfold hashPairsA; rw [e1]; dsimp only; rw [e2]; dsimp only; rw [e3]
    rw [e1] at ih1; rw [e2] at ih2; rw [e3] at ih3
    exact Le.trans ih1 (Le.trans ih2 ih3)
  case case20 =>
    intro ks vs a hne
    unfold hashPairsA
    split
    · next k ks' v vs' => exact (hne k ks' v vs' rfl rfl).elim
    · exact Le.refl a
  case case21 => intro a; unfold hashListA; exact Le.refl a
  case case22 =>
    intro v vs a hv a1 e1 hs a2 e2 ih1 ih2
    unfold hashListA; rw [e1]; dsimp only; rw [e2]
    rw [e1] at ih1; rw [e2] at ih2
    exact Le.trans ih1 ih2
  all_goals (intros; unfold hashVA; exact Le.refl _)

/-! ## The duplicate check -/

theorem hashOpA_le (x : ACtx) (v : Val) (a : ASt) : ASt.Le a (hashOpA x v a).2 := by
  unfold hashOpA
  dsimp only
  split
  · exact Le.refl a
  · have h := (hash_le x).1 v a
    rcases hq : hashVA x v a with ⟨hv, a1⟩
    rw [hq] at h
    exact h

theorem hasDupLinearA_le (x : ACtx) (xs : List Val) (a : ASt) : ASt.Le a (hasDupLinearA x xs a).2 := by
  induction xs generalizing a with
  | nil => exact Le.refl a
  | cons v vs ih =>
    unfold hasDupLinearA
    have h1 := anyA_le (equalA x) (equalA_le x) v vs a
    rcases hq : anyA (equalA x) v vs a with ⟨r, a1⟩
    rw [hq] at h1
    cases r
    · exact Le.trans h1 (ih a1)
    · exact h1

theorem hashAtA_le (x : ACtx) (is : List Nat) (arr : Array Val) (a : ASt) : ASt.Le a (hashAtA x is arr a).2 := by
  induction is generalizing arr a with
  | nil => exact Le.refl a
  | cons i is ih =>
    unfold hashAtA
    split
    · exact ih arr a
    · next v _ =>
      have h1 := hashOpA_le x v a
      rcases hq : hashOpA x v a with ⟨⟨h, v'⟩, a1⟩
      rw [hq] at h1
      exact Le.trans h1 (ih _ a1)

theorem runsA_le (x : ACtx) (f : Nat) (xs : List Val) (a : ASt) : ASt.Le a (runsA x f xs a).2 := by
  induction f generalizing xs a with
  | zero => unfold runsA; exact Le.refl a
  | succ f ih =>
    cases xs with
    | nil => unfold runsA; exact Le.refl a
    | cons v vs =>
      unfold runsA
      dsimp only
      have h1 := hasDupLinearA_le x (v :: vs.takeWhile (·.hdr.hc == v.hdr.hc)) a
      rcases hq : hasDupLinearA x (v :: vs.takeWhile (·.hdr.hc == v.hdr.hc)) a with ⟨r, a1⟩
      rw [hq] at h1
      cases r
      · exact Le.trans h1 (ih _ a1)
      · exact h1

theorem hasDupSortedA_le (x : ACtx) (xs : List Val) (a : ASt) : ASt.Le a (hasDupSortedA x xs a).2 := by
  unfold hasDupSortedA
  have h0 := rawAlloc_le x.orc .malloc a
  rcases hq0 : a.rawAlloc x.orc .malloc with ⟨o, a1⟩
  rw [hq0] at h0
  cases o with
  | none =>
    dsimp only
    have h1 := hasDupLinearA_le x xs a1
    rcases hq1 : hasDupLinearA x xs a1 with ⟨r, a2⟩
    rw [hq1] at h1
    exact Le.trans h0 h1
  | some i =>
    dsimp only
    have h1 := hashAtA_le x (x.sortTouch xs.length) xs.toArray a1
    rcases hq1 : hashAtA x (x.sortTouch xs.length) xs.toArray a1 with ⟨arr, a2⟩
    rw [hq1] at h1
    dsimp only
    have h2 := hashAtA_le x (List.range xs.length) arr a2
    rcases hq2 : hashAtA x (List.range xs.length) arr a2 with ⟨arr2, a3⟩
    rw [hq2] at h2
    dsimp only
    have h3 := runsA_le x (arr2.toList.length + 1) (sortByHash arr2.toList) a3
    rcases hq3 : runsA x (arr2.toList.length + 1) (sortByHash arr2.toList) a3 with ⟨r, a4⟩
    rw [hq3] at h3
    exact Le.trans h0 (Le.trans h1 (Le.trans h2 (Le.trans h3 (free_le i a4))))

theorem tableLoopA_le (x : ACtx) (xs seen : List Val) (a : ASt) : ASt.Le a (tableLoopA x xs seen a).2 := by
  induction xs generalizing seen a with
  | nil => exact Le.refl a
  | cons v rest ih =>
    unfold tableLoopA
    have h1 := hashOpA_le x v a
    rcases hq : hashOpA x v a with ⟨⟨h, v'⟩, a1⟩
    rw [hq] at h1
    dsimp only
    have h2 := anyA_le (fun e y => equalA x y e) (fun u w a => equalA_le x w u a) v' (seen.reverse.filter (·.hdr.hc == h)) a1
    rcases hq2 : anyA (fun e y => equalA x y e) v' (seen.reverse.filter (·.hdr.hc == h)) a1 with ⟨r, a2⟩
    rw [hq2] at h2
    cases r
    · exact Le.trans h1 (Le.trans h2 (ih _ a2))
    · exact Le.trans h1 h2

theorem hasDupTableA_le (x : ACtx) (xs : List Val) (a : ASt) : ASt.Le a (hasDupTableA x xs a).2 := by
  unfold hasDupTableA
  have h0 := rawAlloc_le x.orc .calloc a
  rcases hq0 : a.rawAlloc x.orc .calloc with ⟨o, a1⟩
  rw [hq0] at h0
  cases o with
  | none => exact Le.trans h0 (hasDupSortedA_le x xs a1)
  | some i =>
    dsimp only
    have h1 := tableLoopA_le x xs [] a1
    rcases hq1 : tableLoopA x xs [] a1 with ⟨r, a2⟩
    rw [hq1] at h1
    exact Le.trans h0 (Le.trans h1 (free_le i a2))

theorem hasDuplicatesA_le (x : ACtx) (xs : List Val) (a : ASt) : ASt.Le a (hasDuplicatesA x xs a).2 := by
  unfold hasDuplicatesA
  split
  · exact Le.refl a
  · split
    · have h1 := hasDupLinearA_le x xs a
      rcases hq : hasDupLinearA x xs a with ⟨r, a1⟩
      rw [hq] at h1
      exact h1
    · split
      · exact hasDupSortedA_le x xs a
      · exact hasDupTableA_le x xs a

/-! ## Builders, text blocks, strings, metadata -/

theorem finishPair_le (x : ACtx) (b : BSt) (a : ASt) : ASt.Le a (b.finishPair x a).2 := by
  unfold BSt.finishPair
  split
  · have h1 := request_le x.orc .arena a 0
    rcases hq1 : a.request x.orc .arena with ⟨ok1, a1⟩
    rw [hq1] at h1
    dsimp only
    have h2 := request_le x.orc .arena a1 0
    rcases hq2 : a1.request x.orc .arena with ⟨ok2, a2⟩
    rw [hq2] at h2
    exact Le.trans h1 h2
  · exact Le.refl a

theorem release_le (b : TbBuf) (a : ASt) : ASt.Le a (b.release a) := by
  unfold TbBuf.release
  exact Le.trans (freeAll_le _ a) (free_le _ _)

theorem grow_le (x : ACtx) (n : Nat) (buf : TbBuf) (a : ASt) : ASt.Le a (buf.grow x n a).2 := by
  unfold TbBuf.grow
  split
  · have h := realloc_le x.orc buf.arr a
    rcases hq : a.realloc x.orc buf.arr with ⟨o, a1⟩
    rw [hq] at h
    cases o <;> exact h
  · exact Le.refl a

theorem tbLinesA_le (x : ACtx) (start : Nat) (f : Nat) (s : Bytes) (acc : List TbLine) (buf : TbBuf) (a : ASt) :
    ASt.Le a (tbLinesA x start f s acc buf a).2 := by
  induction f generalizing s acc buf a with
  | zero => unfold tbLinesA; exact release_le buf a
  | succ f ih =>
    unfold tbLinesA
    split
    · exact release_le buf a
    · have h1 := grow_le x acc.length buf a
      rcases hg : buf.grow x acc.length a with ⟨ob, a1⟩
      rw [hg] at h1
      cases ob with
      | none => exact Le.trans h1 (release_le buf a1)
      | some buf1 =>
        dsimp only
        split
        · exact Le.trans h1 (release_le buf1 a1)
        · next ln rest _ =>
          have h2 := rawAlloc_le x.orc .malloc a1
          rcases hq : a1.rawAlloc x.orc .malloc with ⟨o, a2⟩
          rw [hq] at h2
          cases o with
          | none => exact Le.trans h1 (Le.trans h2 (release_le buf1 a2))
          | some i =>
            dsimp only
            split
            · exact Le.trans h1 h2
            · exact Le.trans h1 (Le.trans h2 (ih _ _ _ a2))

theorem readTextBlockA_le (x : ACtx) (st : St) (a : ASt) : ASt.Le a (readTextBlockA x st a).2 := by
  unfold readTextBlockA
  dsimp only
  have h0 := rawAlloc_le x.orc .malloc a
  rcases hq0 : a.rawAlloc x.orc .malloc with ⟨o, a1⟩
  rw [hq0] at h0
  cases o with
  | none => exact h0
  | some arr =>
    dsimp only
    have h1 := tbLinesA_le x (x.ctx.pos st.rest) ((st.rest.drop 4).length + 2) (st.rest.drop 4) [] { arr := arr } a1
    rcases hq1 : tbLinesA x (x.ctx.pos st.rest) ((st.rest.drop 4).length + 2) (st.rest.drop 4) [] { arr := arr } a1 with ⟨out, a2⟩
    rw [hq1] at h1
    cases out with
    | fail e rest => exact Le.trans h0 h1
    | lines ls rest buf =>
      dsimp only
      have h2 := request_le x.orc .arena a2 0
      rcases hq2 : a2.request x.orc .arena with ⟨okT, a3⟩
      rw [hq2] at h2
      dsimp only
      cases okT
      · exact Le.trans h0 (Le.trans h1 (Le.trans h2 (release_le buf a3)))
      · have h3 := request_le x.orc .arena (buf.release a3) 0
        rcases hq3 : (buf.release a3).request x.orc .arena with ⟨okV, a5⟩
        rw [hq3] at h3
        have h03 := Le.trans h0 (Le.trans h1 (Le.trans h2 (Le.trans (release_le buf a3) h3)))
        cases okV
        · exact h03
        · exact ⟨h03.1, h03.2⟩

theorem readStringA_le (x : ACtx) (st : St) (a : ASt) : ASt.Le a (readStringA x st a).2 := by
  unfold readStringA
  split
  · exact readTextBlockA_le x st a
  · cases readString x.ctx st with
    | ok v st' =>
      dsimp only
      have h := request_le x.orc .arena a 0
      rcases hq : a.request x.orc .arena with ⟨ok, a1⟩
      rw [hq] at h
      cases ok <;> exact h
    | closer st' => exact Le.refl a
    | err e st' => exact Le.refl a

theorem metaEntryA_le (x : ACtx) (m : Val) (a : ASt) : ASt.Le a (metaEntryA x m a).2 := by
  unfold metaEntryA
  split
  · exact Le.refl a
  · have h1 := request_le x.orc .arena a 0
    rcases hq1 : a.request x.orc .arena with ⟨okV, a1⟩
    rw [hq1] at h1
    cases okV
    · exact h1
    · dsimp only
      have h2 := request_le x.orc .arena a1 0
      rcases hq2 : a1.request x.orc .arena with ⟨ok1, a2⟩
      rw [hq2] at h2
      dsimp only
      have h3 := request_le x.orc .arena a2 0
      rcases hq3 : a2.request x.orc .arena with ⟨ok2, a3⟩
      rw [hq3] at h3
      exact Le.trans h1 (Le.trans h2 h3)

theorem keepOldA_le (x : ACtx) (newKeys ks vs : List Val) (a : ASt) : ASt.Le a (keepOldA x newKeys ks vs a).2 := by
  induction ks generalizing vs a with
  | nil => cases vs <;> exact Le.refl a
  | cons k ks ih =>
    cases vs with
    | nil => exact Le.refl a
    | cons v vs =>
      unfold keepOldA
      have h1 := anyA_le (equalA x) (equalA_le x) k newKeys a
      rcases hq1 : anyA (equalA x) k newKeys a with ⟨found, a1⟩
      rw [hq1] at h1
      dsimp only
      have h2 := ih vs a1
      rcases hq2 : keepOldA x newKeys ks vs a1 with ⟨⟨ks', vs'⟩, a2⟩
      rw [hq2] at h2
      exact Le.trans h1 h2

theorem attachMetaA_le (x : ACtx) (m form : Val) (nks nvs : List Val) (a : ASt) :
    ASt.Le a (attachMetaA x m form nks nvs a).2 := by
  unfold attachMetaA
  split
  · next h md ks vs _ =>
    have h1 := metaEntryA_le x m a
    rcases hq1 : metaEntryA x m a with ⟨okE, a1⟩
    rw [hq1] at h1
    cases okE
    · exact h1
    · simp only [Bool.not_true, Bool.false_eq_true, ↓reduceIte]
      have h2 := request_le x.orc .arena a1 0
      rcases hq2 : a1.request x.orc .arena with ⟨ok1, a2⟩
      rw [hq2] at h2
      dsimp only
      have h3 := request_le x.orc .arena a2 0
      rcases hq3 : a2.request x.orc .arena with ⟨ok2, a3⟩
      rw [hq3] at h3
      dsimp only
      have h123 : ASt.Le a a3 := Le.trans h1 (Le.trans h2 h3)
      cases hb : (!(ok1 && ok2))
      · simp only [Bool.false_eq_true, ↓reduceIte]
        have h4 := keepOldA_le x nks ks vs a3
        rcases hq4 : keepOldA x nks ks vs a3 with ⟨⟨oks, ovs⟩, a4⟩
        rw [hq4] at h4
        dsimp only
        split <;> exact Le.trans h123 h4
      · simp only [↓reduceIte]
        exact h123
  · have h1 := request_le x.orc .arena a 0
    rcases hq1 : a.request x.orc .arena with ⟨okM, a1⟩
    rw [hq1] at h1
    cases okM
    · exact h1
    · dsimp only
      have h2 := metaEntryA_le x m a1
      rcases hq2 : metaEntryA x m a1 with ⟨okE, a2⟩
      rw [hq2] at h2
      cases okE <;> exact Le.trans h1 h2

/-! ## The six mutually recursive readers -/

abbrev MV (x : ACtx) (f : Nat) : Prop := ∀ d dm st a, ASt.Le a (readValueA x f d dm st a).2
abbrev MS (x : ACtx) (f : Nat) : Prop := ∀ d dm kind start st a b acc, ASt.Le a (readSeqA x f d dm kind start st a b acc).2
abbrev MM (x : ACtx) (f : Nat) : Prop := ∀ d dm start ns st a b ks vs, ASt.Le a (readMapA x f d dm start ns st a b ks vs).2
abbrev MN (x : ACtx) (f : Nat) : Prop := ∀ d dm start st a, ASt.Le a (readNsMapA x f d dm start st a).2
abbrev MT (x : ACtx) (f : Nat) : Prop := ∀ d dm start st a, ASt.Le a (readTaggedA x f d dm start st a).2
abbrev MMe (x : ACtx) (f : Nat) : Prop := ∀ d dm start st a, ASt.Le a (readMetaA x f d dm start st a).2

/-- what to do with a result whose allocation state is later than `a`: every continuation that is itself monotone
    keeps it later -/
theorem discardA_le (x : ACtx) (f : Nat) (hV : MV x f) (d : Nat) (dm : Bool) (st0 : St) (e : ErrInfo) (a : ASt) :
    ASt.Le a (match readValueA x f (d + 1) true st0 a with
      | (.ok _ st', a') => readValueA x f d dm st' a'
      | (.closer st', a') => (.err e st', a')
      | (.err e' st', a') => (.err e' st', a')).2 := by
  have h1 := hV (d + 1) true st0 a
  rcases hq : readValueA x f (d + 1) true st0 a with ⟨r, a'⟩
  rw [hq] at h1
  cases r with
  | ok v st' => exact Le.trans h1 (hV d dm st' a')
  | closer st' => exact h1
  | err e' st' => exact h1

theorem readValueA_step (x : ACtx) (f : Nat) (hV : MV x f) (hS : MS x f) (hM : MM x f) (hN : MN x f) (hT : MT x f)
    (hMe : MMe x f) : MV x (f + 1) := by
  intro d dm st a
  unfold readValueA
  dsimp only
  split
  · exact Le.refl a
  · split
    · exact Le.refl a
    · split
      all_goals first
        | exact readStringA_le x _ a
        | exact readCharacterA_le x _ a
        | exact readIdentifierA_le x _ a
        | exact readNumberResA_le x _ a
        | (repeat' (first | exact discardA_le x f hV .. | split)
           all_goals first
             | exact Le.refl a
             | exact hS ..
             | exact hM ..
             | exact hN ..
             | exact hT ..
             | exact hMe ..
             | exact readSymbolicA_le x _ a
             | exact readIdentifierA_le x _ a
             | exact readNumberResA_le x _ a)

theorem readSeqA_step (x : ACtx) (f : Nat) (hV : MV x f) (hS : MS x f) : MS x (f + 1) := by
  intro d dm kind start st a b acc
  unfold readSeqA
  dsimp only
  have h1 := hV (d + 1) dm st a
  rcases hq : readValueA x f (d + 1) dm st a with ⟨r, a'⟩
  rw [hq] at h1
  cases r with
  | ok v st' =>
    dsimp only
    have h2 := BSt.add_le x b a'
    rcases hq2 : b.add x a' with ⟨ob, a1⟩
    rw [hq2] at h2
    cases ob with
    | none => exact Le.trans h1 h2
    | some b' => exact Le.trans h1 (Le.trans h2 (hS ..))
  | err e st' =>
    dsimp only
    split <;> exact h1
  | closer st' =>
    dsimp only
    split
    · exact h1
    · split
      · exact h1
      · have h2 := BSt.finish_le x b a'
        rcases hq2 : b.finish x a' with ⟨okF, a1⟩
        rw [hq2] at h2
        have h12 := Le.trans h1 h2
        dsimp only
        cases okF
        · exact h12
        · simp only [Bool.not_true, Bool.false_eq_true, ↓reduceIte]
          split
          · have h3 := request_le x.orc .arena a1 0
            rcases hq3 : a1.request x.orc .arena with ⟨okV, a2⟩
            rw [hq3] at h3
            cases okV <;> exact Le.trans h12 h3
          · split
            · have h3 := request_le x.orc .arena a1 0
              rcases hq3 : a1.request x.orc .arena with ⟨okV, a2⟩
              rw [hq3] at h3
              cases okV <;> exact Le.trans h12 h3
            · have h3 := hasDuplicatesA_le x acc.reverse a1
              rcases hq3 : hasDuplicatesA x acc.reverse a1 with ⟨⟨dup, ys⟩, a2⟩
              rw [hq3] at h3
              dsimp only
              split
              · exact Le.trans h12 h3
              · cases dup
                · simp only [Bool.false_eq_true, ↓reduceIte]
                  have h4 := request_le x.orc .arena a2 0
                  rcases hq4 : a2.request x.orc .arena with ⟨okV, a3⟩
                  rw [hq4] at h4
                  cases okV <;> exact Le.trans h12 (Le.trans h3 h4)
                · exact Le.trans h12 h3

theorem readMapA_step (x : ACtx) (f : Nat) (hV : MV x f) (hM : MM x f) : MM x (f + 1) := by
  intro d dm start ns st a b ks vs
  unfold readMapA
  dsimp only
  have h1 := hV (d + 1) dm st a
  rcases hq : readValueA x f (d + 1) dm st a with ⟨r, a'⟩
  rw [hq] at h1
  cases r with
  | err e st' =>
    dsimp only
    split <;> exact h1
  | closer st' =>
    dsimp only
    split
    · exact h1
    · split
      · exact h1
      · have h2 := finishPair_le x b a'
        rcases hq2 : b.finishPair x a' with ⟨okF, a1⟩
        rw [hq2] at h2
        have h12 := Le.trans h1 h2
        dsimp only
        cases okF
        · exact h12
        · simp only [Bool.not_true, Bool.false_eq_true, ↓reduceIte]
          have h3 := hasDuplicatesA_le x ks.reverse a1
          rcases hq3 : hasDuplicatesA x ks.reverse a1 with ⟨⟨dup, keys'⟩, a2⟩
          rw [hq3] at h3
          dsimp only
          split
          · exact Le.trans h12 h3
          · cases dup
            · simp only [Bool.false_eq_true, ↓reduceIte]
              have h4 := request_le x.orc .arena a2 0
              rcases hq4 : a2.request x.orc .arena with ⟨okV, a3⟩
              rw [hq4] at h4
              cases okV <;> exact Le.trans h12 (Le.trans h3 h4)
            · exact Le.trans h12 h3
  | ok k st' =>
    dsimp only
    have h2 := hV (d + 1) dm st' a'
    rcases hq2 : readValueA x f (d + 1) dm st' a' with ⟨r2, a''⟩
    rw [hq2] at h2
    have h12 := Le.trans h1 h2
    cases r2 with
    | closer st'' => exact h12
    | err e st'' => dsimp only; split <;> exact h12
    | ok v st'' =>
      dsimp only
      -- the rewritten key
      have hk : ∀ r : Bool × ASt, r = (if ns.isSome && qualifyAllocs k then a''.request x.orc .arena else (true, a'')) →
          ASt.Le a'' r.2 := by
        intro r hr; subst hr
        split
        · exact request_le x.orc .arena a'' 0
        · exact Le.refl a''
      generalize hg : (if ns.isSome && qualifyAllocs k then a''.request x.orc .arena else (true, a'')) = rk
      have h3 := hk rk hg.symm
      rcases rk with ⟨okK, a1⟩
      dsimp only at h3 ⊢
      cases okK
      · exact Le.trans h12 h3
      · simp only [Bool.not_true, Bool.false_eq_true, ↓reduceIte]
        have h4 := BSt.addPair_le x b a1
        rcases hq4 : b.addPair x a1 with ⟨ob, a2⟩
        rw [hq4] at h4
        cases ob with
        | none => exact Le.trans h12 (Le.trans h3 h4)
        | some b' => exact Le.trans h12 (Le.trans h3 (Le.trans h4 (hM ..)))

theorem readNsMapA_step (x : ACtx) (f : Nat) (hV : MV x f) (hM : MM x f) : MN x (f + 1) := by
  intro d dm start st a
  unfold readNsMapA
  dsimp only
  have h1 := hV d dm st a
  rcases hq : readValueA x f d dm st a with ⟨r, a'⟩
  rw [hq] at h1
  cases r with
  | closer st' => exact h1
  | err e st' => exact h1
  | ok kwv st' =>
    dsimp only
    repeat' split
    all_goals first | exact h1 | exact Le.trans h1 (hM ..)

theorem rekey_le (old new : Nat) (a : ASt) : ASt.Le a (a.rekey old new) := by
  unfold ASt.rekey
  split <;> exact ⟨Nat.le_refl _, List.suffix_refl _⟩

theorem readTaggedA_step (x : ACtx) (f : Nat) (hV : MV x f) : MT x (f + 1) := by
  intro d dm start st a
  unfold readTaggedA
  dsimp only
  split
  · exact Le.refl a
  · split
    · exact Le.refl a
    · have h1 := readIdentifierA_le x st a
      rcases hq : readIdentifierA x st a with ⟨r, a'⟩
      rw [hq] at h1
      cases r with
      | closer st' => exact h1
      | err e st' => exact h1
      | ok tagv st' =>
        dsimp only
        split
        · have h2 := hV (d + 1) dm st' a'
          rcases hq2 : readValueA x f (d + 1) dm st' a' with ⟨r2, a''⟩
          rw [hq2] at h2
          have h12 := Le.trans h1 h2
          cases r2 with
          | closer st'' => exact h12
          | err e st'' => exact h12
          | ok v st'' =>
            dsimp only
            have hp : ∀ (tg : Val), ASt.Le a (
                (let (okV, a1) := a''.request x.orc .arena
                 if !okV then ((.err oomErr st'' : Res), a1) else (.ok tg st'', a1))).2 := by
              intro tg
              have h3 := request_le x.orc .arena a'' 0
              rcases hq3 : a''.request x.orc .arena with ⟨okV, a1⟩
              rw [hq3] at h3
              cases okV <;> exact Le.trans h12 h3
            repeat' split
            all_goals first
              | exact hp _
              | exact h12
              | exact Le.trans h12 (rekey_le ..)
              | (have h3 := request_le x.orc .arena a'' 0
                 first | exact Le.trans h12 h3 | exact Le.trans h12 (Le.trans h3 (rekey_le ..)))
        · exact h1


theorem readMetaA_step (x : ACtx) (f : Nat) (hV : MV x f) : MMe x (f + 1) := by
  intro d dm start st a
  unfold readMetaA
  dsimp only
  have h1 := hV (d + 1) dm st a
  rcases hq : readValueA x f (d + 1) dm st a with ⟨r, a'⟩
  rw [hq] at h1
  cases r with
  | closer st' => exact h1
  | err e st' => exact h1
  | ok m st' =>
    dsimp only
    split
    · exact h1
    · have h2 := hV (d + 1) dm st' a'
      rcases hq2 : readValueA x f (d + 1) dm st' a' with ⟨r2, a''⟩
      rw [hq2] at h2
      have h12 := Le.trans h1 h2
      cases r2 with
      | closer st'' => exact h12
      | err e st'' => exact h12
      | ok form st'' =>
        dsimp only
        split
        · exact h12
        · next nks nvs _ _ =>
          have h3 := attachMetaA_le x m form nks nvs a''
          rcases hq3 : attachMetaA x m form nks nvs a'' with ⟨o, a1⟩
          rw [hq3] at h3
          cases o <;> exact Le.trans h12 h3

/-- the allocation state only moves forward through the whole reader -/
theorem readers_le (x : ACtx) : ∀ f, MV x f ∧ MS x f ∧ MM x f ∧ MN x f ∧ MT x f ∧ MMe x f := by
  intro f
  induction f with
  | zero =>
    refine ⟨?_, ?_, ?_, ?_, ?_, ?_⟩
    · intro d dm st a; unfold readValueA; exact Le.refl a
    · intro d dm kind start st a b acc; unfold readSeqA; exact Le.refl a
    · intro d dm start ns st a b ks vs; unfold readMapA; exact Le.refl a
    · intro d dm start st a; unfold readNsMapA; exact Le.refl a
    · intro d dm start st a; unfold readTaggedA; exact Le.refl a
    · intro d dm start st a; unfold readMetaA; exact Le.refl a
  | succ f ih =>
    obtain ⟨hV, hS, hM, hN, hT, hMe⟩ := ih
    exact ⟨readValueA_step x f hV hS hM hN hT hMe, readSeqA_step x f hV hS, readMapA_step x f hV hM,
      readNsMapA_step x f hV hM, readTaggedA_step x f hV, readMetaA_step x f hV⟩

theorem lineGrowA_le (orc : Nat → Bool) (n count cap : Nat) (a : ASt) : ASt.Le a (lineGrowA orc n count cap a).2 := by
  induction n generalizing count cap a with
  | zero => exact Le.refl a
  | succ n ih =>
    unfold lineGrowA
    split
    · have h1 := request_le orc .arenaTmp a 0
      rcases hq : a.request orc .arenaTmp with ⟨ok, a1⟩
      rw [hq] at h1
      cases ok
      · exact h1
      · exact Le.trans h1 (ih _ _ a1)
    · exact ih _ _ a

theorem lineIndexA_le (orc : Nat → Bool) (input : Bytes) (a : ASt) : ASt.Le a (lineIndexA orc input a).2 := by
  unfold lineIndexA
  have h0 := arenaCreate_le orc true a
  rcases hq0 : a.arenaCreate orc true with ⟨okA, a1⟩
  rw [hq0] at h0
  cases okA
  · exact h0
  · dsimp only
    have h1 := request_le orc .arenaTmp a1 0
    rcases hq1 : a1.request orc .arenaTmp with ⟨okP, a2⟩
    rw [hq1] at h1
    dsimp only
    cases okP
    · exact Le.trans h0 (Le.trans h1 (arenaDestroy_le true a2))
    · simp only [Bool.not_true, Bool.false_eq_true, ↓reduceIte]
      have h2 := request_le orc .arenaTmp a2 0
      rcases hq2 : a2.request orc .arenaTmp with ⟨okO, a3⟩
      rw [hq2] at h2
      dsimp only
      cases okO
      · exact Le.trans h0 (Le.trans h1 (Le.trans h2 (arenaDestroy_le true a3)))
      · simp only [Bool.not_true, Bool.false_eq_true, ↓reduceIte]
        have h3 := lineGrowA_le orc (lfPositions input).length 0 Edn.Generated.Tables.newlineInitialCapacity a3
        rcases hq3 : lineGrowA orc (lfPositions input).length 0 Edn.Generated.Tables.newlineInitialCapacity a3 with ⟨okI, a4⟩
        rw [hq3] at h3
        exact Le.trans h0 (Le.trans h1 (Le.trans h2 (Le.trans h3 (arenaDestroy_le true a4))))

/-- `edn_read_with_options` always makes at least one request (the arena record) -/
theorem readA_reqs_pos (cfg : Cfg) (opts : Opts) (orc : Nat → Bool) (input : Bytes) :
    1 ≤ (readA cfg opts orc input).ast.reqs := by
  unfold readA
  dsimp only
  have h0 := (arenaCreate_reqs orc false ({} : ASt)).1
  rcases hq0 : ({} : ASt).arenaCreate orc false with ⟨okA, a0⟩
  rw [hq0] at h0
  dsimp only at h0 ⊢
  have hv := (readers_le { ctx := { cfg := cfg, opts := opts }, orc := orc } (readFuel input)).1 0 false { rest := input } a0
  rcases hq : readValueA { ctx := { cfg := cfg, opts := opts }, orc := orc } (readFuel input) 0 false { rest := input } a0 with ⟨r, a⟩
  rw [hq] at hv
  have h1 : 1 ≤ a.reqs := Nat.le_trans h0 hv.1
  cases r with
  | ok v st => exact h1
  | closer st => exact h1
  | err e st =>
    dsimp only
    split
    · exact h1
    · have h2 := lineIndexA_le orc input a
      rcases hq2 : lineIndexA orc input a with ⟨haveIdx, a1⟩
      rw [hq2] at h2
      have h3 : 1 ≤ a1.reqs := Nat.le_trans h1 h2.1
      dsimp only
      have h4 : 1 ≤ (a1.arenaDestroy false).reqs := by rw [arenaDestroy_reqs]; exact h3
      repeat' split
      all_goals first | exact h4 | exact h3

end Edn.Proofs.AllocMono
