/-
  Edn.Proofs.AllocLedgerAux1 — the ledger a checker keeps while it reads an event trace of
  Edn.Model.ReaderA from its oldest event on (`Led`, `Led.step`, `run`), the well-formedness of a
  trace (`TraceOK`: the checker never gets stuck), the statement that the allocation state `ASt`
  is what the checker has computed from its trace (`Sync`), the two relations used by every
  induction of the AllocLedger files (`Via`: arenas untouched, `Sync` preserved; `Good`: moreover
  the same list of live raw blocks) and what each primitive of `ASt` does to them.

  Everything about `ASt.request` that the later files need is stated here, once.
-/
import Edn.Proofs.AllocBasic

namespace Edn.Proofs.AllocLedger
open Edn.Model Edn.Proofs.AllocBasic

instance : LawfulBEq ArenaSt where
  rfl := by intro a; cases a <;> rfl
  eq_of_beq := by intro a b h; cases a <;> cases b <;> first | rfl | cases h

instance : LawfulBEq ReqKind where
  rfl := by intro a; cases a <;> rfl
  eq_of_beq := by intro a b h; cases a <;> cases b <;> first | rfl | cases h

@[simp] theorem beq_arena_arena : (ReqKind.arena == ReqKind.arena) = true := rfl
@[simp] theorem beq_arenaTmp_arena : (ReqKind.arenaTmp == ReqKind.arena) = false := rfl
@[simp] theorem beq_arenaNew_arena : (ReqKind.arenaNew == ReqKind.arena) = false := rfl
@[simp] theorem beq_malloc_arena : (ReqKind.malloc == ReqKind.arena) = false := rfl
@[simp] theorem beq_calloc_arena : (ReqKind.calloc == ReqKind.arena) = false := rfl
@[simp] theorem beq_realloc_arena : (ReqKind.realloc == ReqKind.arena) = false := rfl
@[simp] theorem beq_none_alive : (ArenaSt.none == ArenaSt.alive) = false := rfl
@[simp] theorem beq_none_destroyed : (ArenaSt.none == ArenaSt.destroyed) = false := rfl
@[simp] theorem beq_alive_alive : (ArenaSt.alive == ArenaSt.alive) = true := rfl
@[simp] theorem beq_alive_destroyed : (ArenaSt.alive == ArenaSt.destroyed) = false := rfl
@[simp] theorem beq_destroyed_alive : (ArenaSt.destroyed == ArenaSt.alive) = false := rfl
@[simp] theorem beq_destroyed_destroyed : (ArenaSt.destroyed == ArenaSt.destroyed) = true := rfl

/-! ## The checker -/

/-- the ledger of the trace checker -/
structure Led where
  /-- index of the last request seen (requests are numbered 1, 2, 3, … without gaps) -/
  last : Nat := 0
  /-- raw blocks obtained (`malloc`, `calloc`, `realloc`, the `malloc`s of `edn_arena_create`) and
      not yet freed, reallocated away or taken over by a completed arena; newest first -/
  live : List Nat := []
  /-- inside `edn_arena_create`: the arena record, while the first block has not been obtained -/
  pend : Option Nat := none
  /-- arenas created and not yet destroyed -/
  up : Nat := 0
  /-- the parser's arena has been destroyed -/
  dP : Bool := false
  /-- the temporary arena has been destroyed -/
  dT : Bool := false
deriving DecidableEq, Repr, Inhabited

/-- one event.  `none` = the trace is not well formed at this event:
    * a request whose index is not the successor of the previous one;
    * a granted request on an arena while no arena exists or after that arena was destroyed;
    * `realloc` of a block that is not live (whether the `realloc` is granted or not);
    * `free` of a block that is not live (never obtained, already freed, reallocated away);
    * `edn_arena_destroy` while no arena exists, or of an arena destroyed before. -/
def Led.step (L : Led) : Ev → Option Led
  | .req k id failed old =>
    if id != L.last + 1 then none
    else
      let L := { L with last := id }
      match k with
      | .arena => if failed || (L.up != 0 && !L.dP) then some L else none
      | .arenaTmp => if failed || (L.up != 0 && !L.dT) then some L else none
      | .malloc | .calloc => if failed then some L else some { L with live := id :: L.live }
      | .realloc =>
        if !L.live.contains old then none
        else if failed then some L
        else some { L with live := id :: L.live.erase old }
      | .arenaNew =>
        if failed then some L
        else match L.pend with
          | none => some { L with live := id :: L.live, pend := some id }
          | some i => some { L with live := L.live.erase i, pend := none, up := L.up + 1 }
  | .free id =>
    if L.live.contains id then
      some { L with live := L.live.erase id, pend := if L.pend == some id then none else L.pend }
    else none
  | .destroy tmp =>
    if L.up == 0 then none
    else if tmp then (if L.dT then none else some { L with up := L.up - 1, dT := true })
    else (if L.dP then none else some { L with up := L.up - 1, dP := true })

/-- the checker on a trace, oldest event first -/
def run : List Ev → Led → Option Led
  | [], L => some L
  | e :: t, L =>
    match L.step e with
    | none => none
    | some L' => run t L'

/-- a trace (oldest event first) is well formed: the checker, started with the empty ledger, reads
    it to its end.  So: every `free id` is of a block that a granted raw request with that id has
    returned and that has not been freed (or reallocated away) since — never a block that was not
    obtained, never the same block twice; `realloc` only of a live block; `edn_arena_destroy` only
    while a created arena exists, and at most once for each of the two arenas; an arena request is
    granted only while its arena exists.  (`free_once`, `free_has_request` in
    Edn.Proofs.AllocLedgerSound spell this out on positions of the trace.) -/
def TraceOK (t : List Ev) : Prop := (run t {}).isSome = true

instance (t : List Ev) : Decidable (TraceOK t) := inferInstanceAs (Decidable (_ = true))

theorem run_append (t1 t2 : List Ev) (L : Led) : run (t1 ++ t2) L = (run t1 L).bind (run t2) := by
  induction t1 generalizing L with
  | nil => rfl
  | cons e t ih =>
    show run (e :: (t ++ t2)) L = _
    unfold run
    cases L.step e with
    | none => rfl
    | some L' => exact ih L'

theorem run_snoc (t : List Ev) (e : Ev) (L : Led) : run (t ++ [e]) L = (run t L).bind (fun L' => L'.step e) := by
  rw [run_append]
  cases run t L with
  | none => rfl
  | some L' =>
    show run [e] L' = L'.step e
    unfold run
    cases L'.step e <;> rfl

/-! ## The allocation state is the checker's ledger -/

def aliveN (s : ArenaSt) : Nat := if s == .alive then 1 else 0

/-- the ledger that corresponds to an allocation state (outside `edn_arena_create`) -/
def led (a : ASt) : Led :=
  { last := a.reqs, live := a.live, pend := none, up := aliveN a.arena + aliveN a.tmp,
    dP := a.arena == .destroyed, dT := a.tmp == .destroyed }

/-- the checker has read the trace of `a` and holds exactly the ledger of `a` -/
def Sync (a : ASt) : Prop := run a.trace.reverse {} = some (led a)

theorem Sync.traceOK {a : ASt} (h : Sync a) : TraceOK a.trace.reverse := by
  unfold TraceOK
  rw [h]
  rfl

theorem sync_init : Sync {} := rfl

/-- one more event -/
theorem Sync.push {a a' : ASt} (e : Ev) (h : Sync a) (ht : a'.trace = e :: a.trace)
    (hs : (led a).step e = some (led a')) : Sync a' := by
  unfold Sync at h ⊢
  rw [ht, List.reverse_cons, run_snoc, h]
  exact hs

/-- arenas untouched, the checker stays in step -/
structure Via (a a' : ASt) : Prop where
  arena : a'.arena = a.arena
  tmp : a'.tmp = a.tmp
  sync : Sync a → Sync a'

/-- … and the same live raw blocks -/
structure Good (a a' : ASt) : Prop extends Via a a' where
  live : a'.live = a.live

theorem Via.refl (a : ASt) : Via a a := ⟨rfl, rfl, id⟩

theorem Via.trans {a b c : ASt} (h1 : Via a b) (h2 : Via b c) : Via a c :=
  ⟨h2.arena.trans h1.arena, h2.tmp.trans h1.tmp, fun s => h2.sync (h1.sync s)⟩

theorem Good.refl (a : ASt) : Good a a := ⟨Via.refl a, rfl⟩

theorem Good.trans {a b c : ASt} (h1 : Good a b) (h2 : Good b c) : Good a c :=
  ⟨Via.trans h1.toVia h2.toVia, h2.live.trans h1.live⟩

/-! ## Primitives -/

theorem contains_of_mem {i : Nat} {l : List Nat} (h : i ∈ l) : l.contains i = true := by
  simpa using h

theorem aliveN_alive : aliveN .alive = 1 := rfl

/-- a granted request on the parser's arena finds it alive -/
theorem request_arena_alive (orc : Nat → Bool) (a : ASt) (old : Nat)
    (h : (a.request orc .arena old).1 = true) : a.arena = .alive := by
  rw [request_ok] at h
  cases ha : a.arena
  · rw [ha] at h; cases orc (a.reqs + 1) <;> simp at h
  · rfl
  · rw [ha] at h; cases orc (a.reqs + 1) <;> simp at h

/-- a request on the parser's arena -/
theorem request_good (orc : Nat → Bool) (a : ASt) (old : Nat) : Good a (a.request orc .arena old).2 := by
  refine ⟨⟨rfl, rfl, fun s => ?_⟩, rfl⟩
  refine s.push (.req .arena (a.reqs + 1) (orc (a.reqs + 1) || (ReqKind.arena == .arena && a.arena != .alive)) old) rfl ?_
  show (led a).step _ = some (led (a.request orc .arena old).2)
  unfold Led.step led
  simp only [bne_self_eq_false, Bool.false_eq_true, ↓reduceIte]
  cases ha : a.arena <;> cases orc (a.reqs + 1) <;> cases ht : a.tmp <;>
    simp [ASt.request, aliveN, ha, ht]

/-- a request on the temporary arena while it exists -/
theorem requestTmp_good (orc : Nat → Bool) (a : ASt) (old : Nat) (h : a.tmp = .alive) :
    Good a (a.request orc .arenaTmp old).2 := by
  refine ⟨⟨rfl, rfl, fun s => ?_⟩, rfl⟩
  refine s.push (.req .arenaTmp (a.reqs + 1) (orc (a.reqs + 1) || (ReqKind.arenaTmp == .arena && a.arena != .alive)) old) rfl ?_
  show (led a).step _ = some (led (a.request orc .arenaTmp old).2)
  unfold Led.step led
  simp only [bne_self_eq_false, Bool.false_eq_true, ↓reduceIte]
  cases ha : a.arena <;> cases orc (a.reqs + 1) <;>
    simp [ASt.request, aliveN, ha, h]

/-- the names of the materialised buffers are no business of the ledger -/
theorem bufs_good (a : ASt) (b : List Nat) : Good a { a with bufs := b } :=
  ⟨⟨rfl, rfl, fun s => s⟩, rfl⟩

theorem rekey_good (old new : Nat) (a : ASt) : Good a (a.rekey old new) := by
  unfold ASt.rekey
  split
  · exact bufs_good a _
  · exact Good.refl a

/-- the raw request kinds of the reader proper -/
def plainRaw (k : ReqKind) : Prop := k = .malloc ∨ k = .calloc

/-- `malloc` / `calloc`: refused, nothing changes; granted, one more live block -/
theorem rawAlloc_via (orc : Nat → Bool) (k : ReqKind) (hk : plainRaw k) (a : ASt) :
    Via a (a.rawAlloc orc k).2 ∧
    (∀ i, (a.rawAlloc orc k).1 = some i → (a.rawAlloc orc k).2.live = i :: a.live) ∧
    ((a.rawAlloc orc k).1 = none → (a.rawAlloc orc k).2.live = a.live) := by
  refine ⟨?_, fun i h => (rawAlloc_some orc k a i h).2, rawAlloc_none orc k a⟩
  unfold ASt.rawAlloc
  cases hr : (a.request orc k).1
  · simp only [hr, Bool.false_eq_true, ↓reduceIte]
    refine ⟨rfl, rfl, fun s => ?_⟩
    refine s.push (.req k (a.reqs + 1) (orc (a.reqs + 1) || (k == .arena && a.arena != .alive)) 0) rfl ?_
    rw [request_ok] at hr
    unfold Led.step led
    simp only [bne_self_eq_false, Bool.false_eq_true, ↓reduceIte]
    rcases hk with rfl | rfl <;> simp_all [ASt.request]
  · simp only [hr, ↓reduceIte]
    refine ⟨rfl, rfl, fun s => ?_⟩
    refine s.push (.req k (a.reqs + 1) (orc (a.reqs + 1) || (k == .arena && a.arena != .alive)) 0) rfl ?_
    rw [request_ok] at hr
    unfold Led.step led
    simp only [bne_self_eq_false, Bool.false_eq_true, ↓reduceIte]
    rcases hk with rfl | rfl <;> simp_all [ASt.request]

/-- a refused `malloc` / `calloc` keeps the ledger -/
theorem rawAlloc_none_good (orc : Nat → Bool) (k : ReqKind) (hk : plainRaw k) (a a1 : ASt)
    (h : a.rawAlloc orc k = (none, a1)) : Good a a1 := by
  obtain ⟨v, _, l⟩ := rawAlloc_via orc k hk a
  rw [h] at v l
  exact ⟨v, l rfl⟩

/-- `realloc` of a live block -/
theorem realloc_via (orc : Nat → Bool) (old : Nat) (a : ASt) (hold : old ∈ a.live) :
    Via a (a.realloc orc old).2 ∧
    (∀ i, (a.realloc orc old).1 = some i → (a.realloc orc old).2.live = i :: a.live.erase old) ∧
    ((a.realloc orc old).1 = none → (a.realloc orc old).2.live = a.live) := by
  have hc := contains_of_mem hold
  unfold ASt.realloc
  cases hr : (a.request orc .realloc old).1
  · simp only [hr, Bool.false_eq_true, ↓reduceIte]
    refine ⟨⟨rfl, rfl, fun s => ?_⟩, (fun i h => by cases h), fun _ => rfl⟩
    refine s.push (.req .realloc (a.reqs + 1) (orc (a.reqs + 1) || (ReqKind.realloc == .arena && a.arena != .alive)) old) rfl ?_
    rw [request_ok] at hr
    unfold Led.step led
    simp only [bne_self_eq_false, Bool.false_eq_true, ↓reduceIte]
    simp_all [ASt.request]
  · simp only [hr, ↓reduceIte]
    refine ⟨⟨rfl, rfl, fun s => ?_⟩, fun i h => ?_, fun h => by cases h⟩
    · refine s.push (.req .realloc (a.reqs + 1) (orc (a.reqs + 1) || (ReqKind.realloc == .arena && a.arena != .alive)) old) rfl ?_
      rw [request_ok] at hr
      unfold Led.step led
      simp only [bne_self_eq_false, Bool.false_eq_true, ↓reduceIte]
      simp_all [ASt.request]
    · cases h; rfl

/-- `free` of a live block -/
theorem free_via (id : Nat) (a : ASt) (hid : id ∈ a.live) :
    Via a (a.free id) ∧ (a.free id).live = a.live.erase id := by
  have hc := contains_of_mem hid
  refine ⟨⟨rfl, rfl, fun s => ?_⟩, rfl⟩
  refine s.push (.free id) rfl ?_
  unfold Led.step led
  simp [hid, ASt.free]

/-- obtain a block, do something that keeps the ledger, free the block -/
theorem bracket (orc : Nat → Bool) (k : ReqKind) (hk : plainRaw k) (a a1 a2 : ASt) (i : Nat)
    (h1 : a.rawAlloc orc k = (some i, a1)) (h2 : Good a1 a2) : Good a (a2.free i) := by
  obtain ⟨v1, l1, _⟩ := rawAlloc_via orc k hk a
  rw [h1] at v1 l1
  have hl1 : a1.live = i :: a.live := l1 i rfl
  have hl2 : a2.live = i :: a.live := h2.live.trans hl1
  have hmem : i ∈ a2.live := by rw [hl2]; exact List.mem_cons_self
  obtain ⟨v3, l3⟩ := free_via i a2 hmem
  refine ⟨Via.trans v1 (Via.trans h2.toVia v3), ?_⟩
  rw [l3, hl2, List.erase_cons_head]

end Edn.Proofs.AllocLedger
