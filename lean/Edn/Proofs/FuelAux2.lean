/-
  Edn.Proofs.FuelAux2 — progress of the leaf readers (strings, characters, identifiers,
  symbolic values, numbers) and of the whitespace skipper; none of them reports "out of fuel".
-/
import Edn.Proofs.FuelAux1

namespace Edn.Proofs
open Edn.Model

/-! ## whitespace -/

theorem skipWsScalarAux_length_le : ∀ (s : Bytes) (b : Bool), (skipWsScalarAux b s).length ≤ s.length := by
  intro s
  induction s with
  | nil => intro b; simp [skipWsScalarAux]
  | cons c cs ih =>
    intro b
    have h1 := ih true
    have h2 := ih false
    cases b with
    | true =>
      rw [skipWsScalarAux]
      split <;> simp only [List.length_cons] <;> omega
    | false =>
      rw [skipWsScalarAux]
      split
      · simp only [List.length_cons]; omega
      · split
        · simp only [List.length_cons]; omega
        · exact Nat.le_refl _

theorem skipWs_length_le' (s : Bytes) : (skipWs s).length ≤ s.length := by
  rw [skipWs_eq]; exact skipWsScalarAux_length_le s false

/-! ## strings -/

theorem findQuoteScalarAux_length : ∀ (s : Bytes) (sk bs : Bool) (q : Bytes) (e : Bool),
    findQuoteScalarAux sk bs s = some (q, e) → q.length ≤ s.length ∧ q ≠ [] := by
  intro s
  induction s with
  | nil => intro sk bs q e h; simp [findQuoteScalarAux] at h
  | cons c cs ih =>
    intro sk bs q e h
    cases sk with
    | true =>
      rw [findQuoteScalarAux] at h
      have := ih _ _ _ _ h
      simp only [List.length_cons]; exact ⟨by omega, this.2⟩
    | false =>
      rw [findQuoteScalarAux] at h
      split at h
      · have := ih _ _ _ _ h
        simp only [List.length_cons]; exact ⟨by omega, this.2⟩
      · split at h
        · simp only [Option.some.injEq, Prod.mk.injEq] at h
          rw [← h.1]; simp
        · have := ih _ _ _ _ h
          simp only [List.length_cons]; exact ⟨by omega, this.2⟩

theorem findQuote_length (s q : Bytes) (e : Bool) (h : findQuote s = some (q, e)) :
    q.length ≤ s.length ∧ q ≠ [] := by
  rw [findQuote_eq] at h
  exact findQuoteScalarAux_length s false false q e h

theorem tbContent_length : ∀ (f : Nat) (acc : Bytes) (esc : Bool) (s : Bytes) (r : Bytes × Bool × Bool × Bytes),
    tbContent f acc esc s = some r → r.2.2.2.length ≤ s.length := by
  intro f
  induction f with
  | zero => intro acc esc s r h; simp [tbContent] at h
  | succ f ih =>
    intro acc esc s r h
    cases s with
    | nil => simp [tbContent] at h
    | cons c cs =>
      rw [tbContent.eq_def] at h
      simp only [] at h
      split at h
      · have := ih _ _ _ _ h
        simp only [List.length_cons] at this ⊢; omega
      · cases h; simp only [List.length_cons]; omega
      · cases h; simp only [List.length_cons]; omega
      · have := ih _ _ _ _ h
        simp only [List.length_cons] at this ⊢; omega

theorem tbLine_length (s : Bytes) (ln : TbLine) (rest : Bytes) (h : tbLine s = some (ln, rest)) :
    rest.length ≤ s.length := by
  unfold tbLine at h
  simp only [] at h
  have hd := dropWhile_length_le isBlank s
  split at h
  · cases h
  · rename_i content esc terminal rest' heq
    have := tbContent_length _ _ _ _ _ heq
    simp only [Option.some.injEq, Prod.mk.injEq] at h
    rw [← h.2]
    simp only [] at this
    omega

def tbProg (n : Nat) : Except TbErr (List TbLine × Bytes) → Prop
  | .ok (_, rest) => rest.length ≤ n
  | .error (.eofInLine ls) => ls.length ≤ n
  | .error .missingCloser => True

theorem tbLines_length : ∀ (f : Nat) (s : Bytes) (acc : List TbLine), tbProg s.length (tbLines f s acc) := by
  intro f
  induction f with
  | zero => intro s acc; simp [tbLines, tbProg]
  | succ f ih =>
    intro s acc
    rw [tbLines]
    split
    · simp [tbProg]
    · split
      · simp [tbProg]
      · rename_i ln rest heq
        have hl := tbLine_length _ _ _ heq
        split
        · simp only [tbProg]; exact hl
        · have := ih rest (ln :: acc)
          generalize tbLines f rest (ln :: acc) = r at this
          match r with
          | .ok (_, r') => simp only [tbProg] at this ⊢; omega
          | .error (.eofInLine ls) => simp only [tbProg] at this ⊢; omega
          | .error .missingCloser => trivial

theorem readString_progress' (ctx : Ctx) (st : St) (h : st.rest ≠ []) : Progress st (readString ctx st) := by
  unfold readString
  simp only []
  have hpos : 0 < st.rest.length := List.length_pos_iff.mpr h
  split
  · have hl := tbLines_length ((st.rest.drop 4).length + 2) (st.rest.drop 4) []
    have hd : (st.rest.drop 4).length < st.rest.length := by simp only [List.length_drop]; omega
    unfold readTextBlockBody
    generalize tbLines ((st.rest.drop 4).length + 2) (st.rest.drop 4) [] = r at hl
    match r with
    | .ok (_, r') => simp only [tbProg] at hl; simp only [Progress]; omega
    | .error (.eofInLine ls) => simp only [tbProg] at hl; simp only [Progress]; omega
    | .error .missingCloser => simp [Progress]
  · split
    · simp [Progress]
    · rename_i q esc heq
      have := findQuote_length _ _ _ heq
      have ht := tail_length_le q
      have ht' : st.rest.tail.length < st.rest.length := by simp only [List.length_tail]; omega
      simp only [Progress]; omega


/-! ## characters -/

def charNamed (p : Bytes) (nm : String) (cp : Nat) : Option (Nat × Bytes) :=
  if startsWith p (strBytes nm) then some (cp, p.drop nm.length) else none

/-- the code-point part of `readCharacter` -/
def charBody (ctx : Ctx) (p : Bytes) : Except Nat (Nat × Bytes) :=
      match charNamed p "newline" 0x0A with
      | some x => .ok x
      | none => match charNamed p "return" 0x0D with
      | some x => .ok x
      | none => match charNamed p "space" 0x20 with
      | some x => .ok x
      | none => match charNamed p "tab" 0x09 with
      | some x => .ok x
      | none =>
      match (if ctx.cfg.clj then (charNamed p "formfeed" 0x0C).orElse (fun _ => charNamed p "backspace" 0x08) else none) with
      | some x => .ok x
      | none =>
        let c := peek p
        let c1 := peek p.tail
        if ctx.cfg.clj && c == 0x6F && !p.tail.isEmpty && is09 c1 then
          match octalChar p.tail with
          | none => .error (ctx.pos p.tail)
          | some x => .ok x
        else if c == 0x75 && !p.tail.isEmpty && (hexDigit? c1).isSome then
          let q := p.tail
          match hex4? q with
          | none => .error (q.length - 4)
          | some (v, q') =>
            if ctx.cfg.exp then .ok (hexMore 2 v q') else .ok (v, q')
        else if !isValidSingleChar ctx.cfg c then .error (p.length - 1)
        else .ok (c.toNat, p.tail)

theorem readCharacter_eq (ctx : Ctx) (st : St) :
    readCharacter ctx st =
      if st.rest.tail.isEmpty then
        .err (mkErr .invalidCharacter (some (ctx.pos st.rest)) (some (ctx.pos st.rest.tail))) st
      else
        match charBody ctx st.rest.tail with
        | .error ee => .err (mkErr .invalidCharacter (some (ctx.pos st.rest)) (some ee)) st
        | .ok (cp, rest) =>
          if cp > 0x10FFFF then .err (mkErr .invalidCharacter (some (ctx.pos st.rest)) (some (ctx.pos rest))) st
          else if !rest.isEmpty && !isDelim (peek rest) then
            .err (mkErr .invalidCharacter (some (ctx.pos st.rest)) (some (ctx.pos rest))) st
          else .ok (.char (mkHdr (ctx.pos st.rest) (ctx.pos rest)) cp) { st with rest := rest } := by
  rfl

theorem charNamed_len {p : Bytes} {nm : String} {cp : Nat} {x : Nat × Bytes}
    (h : charNamed p nm cp = some x) : x.2.length ≤ p.length := by
  unfold charNamed at h
  split at h
  · cases h; simp
  · cases h

theorem octalChar_len {s : Bytes} {x : Nat × Bytes} (h : octalChar s = some x) : x.2.length ≤ s.length := by
  unfold octalChar at h
  simp only [] at h
  split at h
  · cases h
  · split at h
    · cases h
    · split at h
      · cases h
      · cases h; simp

theorem hex4_len {q : Bytes} {x : Nat × Bytes} (h : hex4? q = some x) : x.2.length ≤ q.length := by
  unfold hex4? at h
  split at h
  · split at h
    · cases h; simp only [List.length_cons]; omega
    · cases h
  · cases h

theorem hexMore_len : ∀ (k v : Nat) (s : Bytes), (hexMore k v s).2.length ≤ s.length := by
  intro k
  induction k with
  | zero => intro v s; simp [hexMore]
  | succ k ih =>
    intro v s
    cases s with
    | nil => simp [hexMore]
    | cons c r =>
      rw [hexMore]
      split
      · rename_i d _
        have := ih (v * 16 + d) r
        simp only [List.length_cons]; omega
      · exact Nat.le_refl _

theorem charBody_len (ctx : Ctx) (p : Bytes) (x : Nat × Bytes) (h : charBody ctx p = .ok x) :
    x.2.length ≤ p.length := by
  unfold charBody at h
  have ht := tail_length_le p
  split at h
  · rename_i y hy; cases h; exact charNamed_len hy
  split at h
  · rename_i y hy; cases h; exact charNamed_len hy
  split at h
  · rename_i y hy; cases h; exact charNamed_len hy
  split at h
  · rename_i y hy; cases h; exact charNamed_len hy
  split at h
  · rename_i y hy; cases h
    split at hy
    · cases hff : charNamed p "formfeed" 0x0C with
      | some z => rw [hff] at hy; cases hy; exact charNamed_len hff
      | none => rw [hff] at hy; exact charNamed_len hy
    · cases hy
  simp only [] at h
  split at h
  · split at h
    · cases h
    · rename_i y hy; cases h
      have := octalChar_len hy; omega
  · split at h
    · split at h
      · cases h
      · rename_i v q' hq
        have := hex4_len hq
        simp only [] at this
        split at h
        · cases h
          have := hexMore_len 2 v q'; omega
        · cases h; simp only []; omega
    · split at h
      · cases h
      · cases h; exact ht

theorem readCharacter_progress' (ctx : Ctx) (st : St) (h : st.rest ≠ []) : Progress st (readCharacter ctx st) := by
  rw [readCharacter_eq]
  have hpos : 0 < st.rest.length := List.length_pos_iff.mpr h
  have ht' : st.rest.tail.length < st.rest.length := by simp only [List.length_tail]; omega
  split
  · simp [Progress]
  · split
    · simp [Progress]
    · rename_i cp rest heq
      have := charBody_len _ _ _ heq
      simp only [] at this
      split
      · simp [Progress]
      · split
        · simp [Progress]
        · simp only [Progress]; omega


/-! ## identifiers -/

theorem identSplit_valid (len : Nat) (sl : Option Nat) (h : (identSplit len sl).valid = true) :
    1 ≤ (identSplit len sl).len := by
  unfold identSplit at h ⊢
  split
  · rename_i h0; simp [h0] at h
  · rename_i h0
    have : 1 ≤ len := by simp at h0; omega
    split
    · split
      · simp
      · split
        · rename_i h1 h2; simp [h0, h1, h2] at h
        · split
          · rename_i h1 h2 h3; simp [h0, h1, h2, h3] at h
          · exact this
    · exact this

theorem scanIdent_valid (s : Bytes) (h : (scanIdent s).valid = true) : 1 ≤ (scanIdent s).len := by
  have key : (scanIdent s = { valid := false }) ∨ ∃ len sl, scanIdent s = identSplit len sl := by
    unfold scanIdent
    split
    · split
      · exact Or.inl rfl
      · exact Or.inr ⟨_, _, rfl⟩
    · simp only []
      split
      · exact Or.inl rfl
      · exact Or.inr ⟨_, _, rfl⟩
  rcases key with hk | ⟨len, sl, hk⟩
  · rw [hk] at h; cases h
  · rw [hk] at h ⊢; exact identSplit_valid _ _ h

theorem scanIdent_nil : (scanIdent []).valid = false := by decide

theorem readIdentifier_progress' (ctx : Ctx) (st : St) : Progress st (readIdentifier ctx st) := by
  unfold readIdentifier
  simp only []
  split
  · simp [Progress]
  · rename_i hv
    have hv : (scanIdent st.rest).valid = true := by simpa using hv
    have h1 := scanIdent_valid _ hv
    have hne : 0 < st.rest.length := by
      cases hs : st.rest with
      | nil => rw [hs] at hv; simp [scanIdent_nil] at hv
      | cons c cs => simp
    have hlt : (st.rest.drop (scanIdent st.rest).len).length < st.rest.length := by
      simp only [List.length_drop]; omega
    repeat' split
    all_goals (simp only [Progress]; omega)

/-! ## symbolic values -/

theorem readSymbolic_progress' (ctx : Ctx) (st : St) (h : 2 ≤ st.rest.length) :
    Progress st (readSymbolic ctx st) := by
  unfold readSymbolic
  simp only []
  repeat' split
  all_goals (simp only [Progress, List.length_drop]; omega)

/-! ## numbers -/

theorem readNumberRes_progress' (ctx : Ctx) (st : St) (c : UInt8) (cs : Bytes) (h : st.rest = c :: cs)
    (hc : is09 c = true ∨ ((c == 0x2B || c == 0x2D) = true ∧ ∃ d t, cs = d :: t ∧ is09 d = true)) :
    Progress st (readNumberRes ctx st) := by
  unfold readNumberRes
  simp only []
  have := readNumber_prog ctx.cfg c cs hc
  rw [h]
  generalize readNumber ctx.cfg (c :: cs) = o at this
  cases o with
  | ok v r => simp only [numProg] at this; simp only [Progress, h]; exact this
  | err cur => simp only [numProg] at this; simp only [Progress, h]; exact this

/-! ## no leaf reader reports "out of fuel" -/

theorem leaf_not_fuelOut' (ctx : Ctx) (st : St) :
    (readString ctx st).isFuelOut = false ∧ (readCharacter ctx st).isFuelOut = false ∧
    (readIdentifier ctx st).isFuelOut = false ∧ (readSymbolic ctx st).isFuelOut = false ∧
    (readNumberRes ctx st).isFuelOut = false := by
  refine ⟨?_, ?_, ?_, ?_, ?_⟩
  · unfold readString
    simp only []
    repeat' split
    all_goals rfl
  · rw [readCharacter_eq]
    repeat' split
    all_goals rfl
  · unfold readIdentifier
    simp only []
    repeat' split
    all_goals rfl
  · unfold readSymbolic
    simp only []
    repeat' split
    all_goals rfl
  · unfold readNumberRes
    simp only []
    repeat' split
    all_goals rfl

end Edn.Proofs
