/-
  Edn.Proofs.ReReadAux6 — the nesting depth and the discard mode are irrelevant for a
  successful read (no registry): a form read successfully at depth `d` is read identically at
  every smaller depth.
-/
import Edn.Proofs.Fuel

namespace Edn.Proofs
open Edn.Model
open Edn.Generated

/-- `r'` refines `r`: an `.ok` answer is kept, and (under `P`) a `.closer` answer is kept -/
def Rf (P : Prop) (r r' : Res) : Prop :=
  (∀ v st', r = .ok v st' → r' = .ok v st') ∧ (P → ∀ st', r = .closer st' → r' = .closer st')

theorem Rf_refl (P : Prop) (r : Res) : Rf P r r := ⟨fun _ _ h => h, fun _ _ h => h⟩

theorem Rf_err (P : Prop) (e : ErrInfo) (st : St) (r' : Res) : Rf P (.err e st) r' :=
  ⟨fun _ _ h => (by cases h), fun _ _ h => (by cases h)⟩

def DV (RV : RVT) : Prop := ∀ d d' dm dm' st, d' ≤ d → Rf (1 ≤ d') (RV d dm st) (RV d' dm' st)
def DS (RS : RST) : Prop := ∀ d d' dm dm' kind start st acc, d' ≤ d →
  Rf (1 ≤ d') (RS d dm kind start st acc) (RS d' dm' kind start st acc)
def DM (RM : RMT) : Prop := ∀ d d' dm dm' start ns st ks vs, d' ≤ d →
  Rf (1 ≤ d') (RM d dm start ns st ks vs) (RM d' dm' start ns st ks vs)
def D4 (R : R4T) : Prop := ∀ d d' dm dm' start st, d' ≤ d →
  Rf (1 ≤ d') (R d dm start st) (R d' dm' start st)

theorem tooDeep_mono {d d' : Nat} (hd : d' ≤ d) (h : ¬ (decide (d ≥ Tables.maxNestingDepth) = true)) :
    ¬ (decide (d' ≥ Tables.maxNestingDepth) = true) := by
  simp only [decide_eq_true_eq] at h ⊢
  omega

theorem rvStep_depth (ctx : Ctx) {RV : RVT} {RS : RST} {RM : RMT} {RN RT RMe : R4T}
    (hV : DV RV) (hS : DS RS) (hM : DM RM) (hN : D4 RN) (hT : D4 RT) (hMe : D4 RMe)
    (d d' : Nat) (dm dm' : Bool) (hd : d' ≤ d) (calls : List Call) (c : UInt8) (cs : Bytes) :
    Rf (1 ≤ d') (rvStep ctx RV RS RM RN RT RMe d dm calls c cs)
      (rvStep ctx RV RS RM RN RT RMe d' dm' calls c cs) := by
  unfold rvStep
  simp only []
  cases hdisp : dispatch ctx.cfg c with
  | string => exact Rf_refl ..
  | character => exact Rf_refl ..
  | listOpen =>
    simp only []
    by_cases htd : decide (d ≥ Tables.maxNestingDepth) = true
    · rw [if_pos htd]; exact Rf_err ..
    · rw [if_neg htd, if_neg (tooDeep_mono hd htd)]; exact hS _ _ _ _ _ _ _ _ hd
  | vectorOpen =>
    simp only []
    by_cases htd : decide (d ≥ Tables.maxNestingDepth) = true
    · rw [if_pos htd]; exact Rf_err ..
    · rw [if_neg htd, if_neg (tooDeep_mono hd htd)]; exact hS _ _ _ _ _ _ _ _ hd
  | mapOpen =>
    simp only []
    by_cases htd : decide (d ≥ Tables.maxNestingDepth) = true
    · rw [if_pos htd]; exact Rf_err ..
    · rw [if_neg htd, if_neg (tooDeep_mono hd htd)]; exact hM _ _ _ _ _ _ _ _ _ hd
  | hash =>
    simp only []
    cases cs with
    | nil => exact hT _ _ _ _ _ _ hd
    | cons nx cs' =>
      simp only []
      by_cases h1 : (nx == 0x23) = true
      · rw [if_pos h1, if_pos h1]; exact Rf_refl ..
      rw [if_neg h1, if_neg h1]
      by_cases htd : decide (d ≥ Tables.maxNestingDepth) = true
      · rw [if_pos htd]; exact Rf_err ..
      rw [if_neg htd, if_neg (tooDeep_mono hd htd)]
      by_cases h2 : (nx == 0x7B) = true
      · rw [if_pos h2, if_pos h2]; exact hS _ _ _ _ _ _ _ _ hd
      rw [if_neg h2, if_neg h2]
      by_cases h3 : (nx == 0x5F) = true
      · rw [if_pos h3, if_pos h3]
        have hi := hV (d + 1) (d' + 1) true true { rest := cs', calls := calls } (by omega)
        cases hr : RV (d + 1) true { rest := cs', calls := calls } with
        | ok v st' =>
          rw [hr] at hi
          rw [hi.1 v st' rfl]
          simp only []
          exact hV _ _ _ _ _ hd
        | closer st' => exact Rf_err ..
        | err e st' => exact Rf_err ..
      rw [if_neg h3, if_neg h3]
      by_cases h4 : (ctx.cfg.clj && nx == 0x3A) = true
      · rw [if_pos h4, if_pos h4]; exact hN _ _ _ _ _ _ hd
      · rw [if_neg h4, if_neg h4]; exact hT _ _ _ _ _ _ hd
  | sign => exact Rf_refl ..
  | digit => exact Rf_refl ..
  | delimiter =>
    simp only []
    refine ⟨?_, ?_⟩
    · intro v st' h
      split at h <;> cases h
    · intro h1 st' h
      have e1 : (d == 0) = false := by
        rw [beq_eq_false_iff_ne]; omega
      have e2 : (d' == 0) = false := by
        rw [beq_eq_false_iff_ne]; omega
      rw [e1] at h
      rw [e2]
      exact h
  | metadata =>
    simp only []
    by_cases htd : decide (d ≥ Tables.maxNestingDepth) = true
    · rw [if_pos htd]; exact Rf_err ..
    · rw [if_neg htd, if_neg (tooDeep_mono hd htd)]; exact hMe _ _ _ _ _ _ hd
  | identifier => exact Rf_refl ..

theorem rvOuter_depth (ctx : Ctx) {RV : RVT} {RS : RST} {RM : RMT} {RN RT RMe : R4T}
    (hV : DV RV) (hS : DS RS) (hM : DM RM) (hN : D4 RN) (hT : D4 RT) (hMe : D4 RMe)
    (d d' : Nat) (dm dm' : Bool) (hd : d' ≤ d) (st : St) :
    Rf (1 ≤ d') (rvOuter ctx RV RS RM RN RT RMe d dm st) (rvOuter ctx RV RS RM RN RT RMe d' dm' st) := by
  unfold rvOuter
  cases hs : st.rest with
  | nil => exact Rf_err ..
  | cons c0 t =>
    simp only []
    cases hw : (if isPreWs c0 = true then skipWs (c0 :: t) else c0 :: t) with
    | nil => exact Rf_err ..
    | cons c cs =>
      simp only []
      exact rvStep_depth ctx hV hS hM hN hT hMe d d' dm dm' hd st.calls c cs

theorem rsStep_depth (ctx : Ctx) {RV : RVT} {RS : RST} (hV : DV RV) (hS : DS RS)
    (d d' : Nat) (dm dm' : Bool) (hd : d' ≤ d) (kind start : Nat) (st : St) (acc : List Val) :
    Rf (1 ≤ d') (rsStep ctx RV RS d dm kind start st acc) (rsStep ctx RV RS d' dm' kind start st acc) := by
  unfold rsStep
  have hi := hV (d + 1) (d' + 1) dm dm' st (by omega)
  cases hr : RV (d + 1) dm st with
  | ok v st' =>
    rw [hr] at hi
    rw [hi.1 v st' rfl]
    simp only []
    exact hS _ _ _ _ _ _ _ _ hd
  | err e st' =>
    simp only []
    split <;> exact Rf_err ..
  | closer st' =>
    rw [hr] at hi
    rw [hi.2 (by omega) st' rfl]
    exact Rf_refl ..

theorem rmStep_depth (ctx : Ctx) {RV : RVT} {RM : RMT} (hV : DV RV) (hM : DM RM)
    (d d' : Nat) (dm dm' : Bool) (hd : d' ≤ d) (start : Nat) (ns : Option Bytes) (st : St) (ks vs : List Val) :
    Rf (1 ≤ d') (rmStep ctx RV RM d dm start ns st ks vs) (rmStep ctx RV RM d' dm' start ns st ks vs) := by
  unfold rmStep
  simp only []
  have hi := hV (d + 1) (d' + 1) dm dm' st (by omega)
  cases hr : RV (d + 1) dm st with
  | ok k st' =>
    rw [hr] at hi
    rw [hi.1 k st' rfl]
    simp only []
    have hi2 := hV (d + 1) (d' + 1) dm dm' st' (by omega)
    cases hr2 : RV (d + 1) dm st' with
    | ok v st'' =>
      rw [hr2] at hi2
      rw [hi2.1 v st'' rfl]
      simp only []
      exact hM _ _ _ _ _ _ _ _ _ hd
    | err e st'' =>
      simp only []
      split <;> exact Rf_err ..
    | closer st'' => exact Rf_err ..
  | err e st' =>
    simp only []
    split <;> exact Rf_err ..
  | closer st' =>
    rw [hr] at hi
    rw [hi.2 (by omega) st' rfl]
    exact Rf_refl ..

theorem rnStep_depth (ctx : Ctx) {RV : RVT} {RM : RMT} (hV : DV RV) (hM : DM RM)
    (d d' : Nat) (dm dm' : Bool) (hd : d' ≤ d) (start : Nat) (st : St) :
    Rf (1 ≤ d') (rnStep ctx RV RM d dm start st) (rnStep ctx RV RM d' dm' start st) := by
  unfold rnStep
  have hi := hV d d' dm dm' st hd
  cases hr : RV d dm st with
  | closer st' =>
    rw [hr] at hi
    refine ⟨fun _ _ h => (by cases h), ?_⟩
    intro h1 st2 h
    rw [hi.2 h1 st' rfl]
    exact h
  | err e st' => exact Rf_err ..
  | ok kwv st' =>
    rw [hr] at hi
    rw [hi.1 kwv st' rfl]
    simp only []
    split
    · rename_i name
      split
      · rename_i c r heq
        split
        · exact hM _ _ _ _ _ _ _ _ _ hd
        · exact Rf_err ..
      · exact Rf_err ..
    · exact Rf_err ..

theorem rtStep_depth (ctx : Ctx) (hreg : ctx.opts.registry = none) {RV : RVT} (hV : DV RV)
    (d d' : Nat) (dm dm' : Bool) (hd : d' ≤ d) (start : Nat) (st : St) :
    Rf (1 ≤ d') (rtStep ctx RV d dm start st) (rtStep ctx RV d' dm' start st) := by
  unfold rtStep
  simp only [hreg]
  split
  · exact Rf_err ..
  · split
    · exact Rf_err ..
    · cases hr : readIdentifier ctx st with
      | closer st' => exact Rf_refl ..
      | err e st' => exact Rf_err ..
      | ok tagv st' =>
        simp only []
        split
        · have hi := hV (d + 1) (d' + 1) dm dm' st' (by omega)
          cases hr2 : RV (d + 1) dm st' with
          | closer st'' => exact Rf_err ..
          | err e st'' => exact Rf_err ..
          | ok v st'' =>
            rw [hr2] at hi
            rw [hi.1 v st'' rfl]
            exact Rf_refl ..
        · exact Rf_err ..

theorem rmeStep_depth (ctx : Ctx) {RV : RVT} (hV : DV RV)
    (d d' : Nat) (dm dm' : Bool) (hd : d' ≤ d) (start : Nat) (st : St) :
    Rf (1 ≤ d') (rmeStep ctx RV d dm start st) (rmeStep ctx RV d' dm' start st) := by
  unfold rmeStep
  simp only []
  have hi := hV (d + 1) (d' + 1) dm dm' st (by omega)
  cases hr : RV (d + 1) dm st with
  | closer st' => exact Rf_err ..
  | err e st' => exact Rf_err ..
  | ok m st' =>
    rw [hr] at hi
    rw [hi.1 m st' rfl]
    simp only []
    split
    · exact Rf_err ..
    · have hi2 := hV (d + 1) (d' + 1) dm dm' st' (by omega)
      cases hr2 : RV (d + 1) dm st' with
      | closer st'' => exact Rf_err ..
      | err e st'' => exact Rf_err ..
      | ok form st'' =>
        rw [hr2] at hi2
        rw [hi2.1 form st'' rfl]
        exact Rf_refl ..

theorem reader_depth (ctx : Ctx) (hreg : ctx.opts.registry = none) : ∀ (f : Nat),
    DV (readValue ctx f) ∧ DS (readSeq ctx f) ∧ DM (readMap ctx f) ∧ D4 (readNsMap ctx f) ∧
    D4 (readTagged ctx f) ∧ D4 (readMeta ctx f) := by
  intro f
  induction f with
  | zero =>
    refine ⟨?_, ?_, ?_, ?_, ?_, ?_⟩
    · intro d d' dm dm' st _; rw [readValue_zero]; exact Rf_err ..
    · intro d d' dm dm' kind start st acc _; rw [readSeq_zero]; exact Rf_err ..
    · intro d d' dm dm' start ns st ks vs _; rw [readMap_zero]; exact Rf_err ..
    · intro d d' dm dm' start st _; rw [readNsMap_zero]; exact Rf_err ..
    · intro d d' dm dm' start st _; rw [readTagged_zero]; exact Rf_err ..
    · intro d d' dm dm' start st _; rw [readMeta_zero]; exact Rf_err ..
  | succ f ih =>
    obtain ⟨hV, hS, hM, hN, hT, hMe⟩ := ih
    refine ⟨?_, ?_, ?_, ?_, ?_, ?_⟩
    · intro d d' dm dm' st hd; rw [readValue_succ, readValue_succ]
      exact rvOuter_depth ctx hV hS hM hN hT hMe d d' dm dm' hd st
    · intro d d' dm dm' kind start st acc hd; rw [readSeq_succ, readSeq_succ]
      exact rsStep_depth ctx hV hS d d' dm dm' hd ..
    · intro d d' dm dm' start ns st ks vs hd; rw [readMap_succ, readMap_succ]
      exact rmStep_depth ctx hV hM d d' dm dm' hd ..
    · intro d d' dm dm' start st hd; rw [readNsMap_succ, readNsMap_succ]
      exact rnStep_depth ctx hV hM d d' dm dm' hd ..
    · intro d d' dm dm' start st hd; rw [readTagged_succ, readTagged_succ]
      exact rtStep_depth ctx hreg hV d d' dm dm' hd ..
    · intro d d' dm dm' start st hd; rw [readMeta_succ, readMeta_succ]
      exact rmeStep_depth ctx hV d d' dm dm' hd ..

/-- a form that is read successfully at nesting depth `d` is read identically at any smaller depth, whatever the discard mode -/
theorem readValue_depth_le (ctx : Ctx) (hreg : ctx.opts.registry = none) (f d d' : Nat) (dm dm' : Bool) (st st' : St) (v : Val)
    (hd : d' ≤ d) (h : readValue ctx f d dm st = .ok v st') : readValue ctx f d' dm' st = .ok v st' :=
  ((reader_depth ctx hreg f).1 d d' dm dm' st hd).1 v st' h

theorem readValue_depth_mono' (ctx : Ctx) (f d : Nat) (dm dm' : Bool) (hreg : ctx.opts.registry = none) (st st' : St) (v : Val)
    (h : readValue ctx f (d + 1) dm st = .ok v st') : readValue ctx f 0 dm' st = .ok v st' :=
  readValue_depth_le ctx hreg f (d + 1) 0 dm dm' st st' v (Nat.zero_le _) h

end Edn.Proofs
