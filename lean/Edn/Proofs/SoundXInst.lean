/-
  Edn.Proofs.SoundXInst — the exactness hypotheses of `Edn.Proofs.SoundX` / `CompleteX` discharged
  for the two configurations with the experimental flag, from the leaf theorems
  `readNumber_exp_iff` (Edn.Proofs.ExpNumberSound) and `readString_textblock_sound` /
  `readTextBlockBody_complete` (Edn.Proofs.TextBlockSound):

  * numbers with the experimental flag only: `ExpNum` tokens in front of a terminator;
  * strings with the experimental flag: an ordinary literal that does not start with `"""⏎`, or a
    text block — `"""⏎` followed by the encoding of well-formed source lines and a well-formed
    closing delimiter (`SrcLine.WF`, `Closer.WFx`), denoting `blockText`.
-/
import Edn.Proofs.SoundX
import Edn.Proofs.ExpNumberSound
import Edn.Proofs.TextBlockSound

namespace Edn.Proofs
open Edn.Model Edn.Spec

/-- the number tokens of the experimental flag alone, as a judgement -/
def expNumJ : NumJ := fun tok v rest => ExpNum tok v ∧ TermStart rest

theorem numExact_exp : NumExact ⟨false, true⟩ expNumJ := by
  intro s rest v hs
  exact readNumber_exp_iff s rest v hs

/-- the opener of a text block: three quotes and a line feed -/
def tbOpener : Bytes := [0x22, 0x22, 0x22, 0x0A]

/-- string tokens with the experimental flag: an ordinary literal that, with what follows it, does
    not start with `"""⏎` (only the empty literal `""` followed by `"⏎` can), or a text block -/
def expStrJ : StrJ := fun tok data esc rest =>
  (rawStrJ tok data esc rest ∧ ¬ tbOpener <+: tok ++ rest) ∨
  (∃ (lines : List SrcLine) (c : Closer), (∀ l ∈ lines, l.WF) ∧ c.WFx lines ∧
    tok = tbOpener ++ encodeBlock lines c ∧ data = blockText lines c ∧ esc = false)

/-- the ordinary-literal branch of `readString` -/
theorem readString_raw_iff (ctx : Ctx) (cs rest : Bytes) (cl : List Call) (data : Bytes) (esc : Bool)
    (hno : (ctx.cfg.exp && startsWith (0x22 :: cs) [0x22, 0x22, 0x22, 0x0A]) = false) :
    (∃ h, readString ctx { rest := 0x22 :: cs, calls := cl } = .ok (.str h data esc) { rest := rest, calls := cl }) ↔
      ∃ tok, 0x22 :: cs = tok ++ rest ∧ rawStrJ tok data esc rest := by
  constructor
  · rintro ⟨hh, hr⟩
    unfold readString at hr
    simp only [hno, Bool.false_eq_true, if_false, List.tail_cons] at hr
    cases hfq : findQuote cs with
    | none => rw [hfq] at hr; cases hr
    | some p =>
      obtain ⟨q, e⟩ := p
      rw [hfq] at hr
      simp only [Res.ok.injEq, Val.str.injEq, St.mk.injEq] at hr
      obtain ⟨⟨-, hdata, hesc⟩, hrest, -⟩ := hr
      obtain ⟨sp, t, rfl, rfl, hraw, rfl⟩ := Snd.findQuote_inv hfq
      rw [slice_append_left] at hdata
      subst hdata
      simp only [List.tail_cons] at hrest
      subst hrest
      exact ⟨0x22 :: (sp ++ [0x22]), by simp, hraw, rfl, hesc.symm⟩
  · rintro ⟨tok, htok, hraw, rfl, rfl⟩
    have hcs : cs = data ++ 0x22 :: rest := by simpa using htok
    subst hcs
    unfold readString
    simp only [hno, Bool.false_eq_true, if_false, List.tail_cons, findQuote_eq,
      Snd.rawStr_findQuoteScalar hraw rest false, Bool.false_or, slice_append_left]
    exact ⟨_, rfl⟩

/-- strings and text blocks with the experimental flag (either setting of the Clojure flag) -/
theorem strExact_exp (cfg : Cfg) (he : cfg.exp = true) : StrExact cfg expStrJ := by
  intro ctx hc s rest cl data esc hq
  have hexp : ctx.cfg.exp = true := by rw [hc]; exact he
  cases s with
  | nil => cases hq
  | cons c cs =>
    simp only [List.head?_cons, Option.some.injEq] at hq
    subst hq
    by_cases hp : tbOpener <+: 0x22 :: cs
    · -- a text block
      obtain ⟨s', hs'⟩ := hp
      have hs'' : 0x22 :: cs = 0x22 :: 0x22 :: 0x22 :: 0x0A :: s' := hs'.symm
      rw [hs'']
      constructor
      · rintro ⟨hh, hr⟩
        obtain ⟨lines, c, rest', h1, h2, h3, h4, h5⟩ := readString_textblock_sound ctx hexp s' cl _ _ hr
        simp only [St.mk.injEq, and_true] at h5
        subst h5
        simp only [Val.str.injEq] at h4
        obtain ⟨-, rfl, rfl⟩ := h4
        refine ⟨tbOpener ++ encodeBlock lines c, ?_, .inr ⟨lines, c, h1, h2, rfl, rfl, rfl⟩⟩
        rw [h3]; simp [tbOpener]
      · rintro ⟨tok, htok, hS | ⟨lines, c, h1, h2, rfl, rfl, rfl⟩⟩
        · exact absurd ⟨s', by rw [← htok]; rfl⟩ hS.2
        · have hs3 : s' = encodeBlock lines c ++ rest := by
            simpa [tbOpener] using htok
          subst hs3
          exact ⟨_, (readString_textblock_iff ctx hexp (encodeBlock lines c) rest (blockText lines c) cl).mpr
            ⟨lines, c, h1, h2, rfl, rfl⟩⟩
    · -- an ordinary literal
      have hno : (ctx.cfg.exp && startsWith (0x22 :: cs) [0x22, 0x22, 0x22, 0x0A]) = false := by
        cases hsw : startsWith (0x22 :: cs) [0x22, 0x22, 0x22, 0x0A] with
        | false => simp
        | true => exact absurd (List.isPrefixOf_iff_prefix.mp hsw) hp
      rw [readString_raw_iff ctx cs rest cl data esc hno]
      constructor
      · rintro ⟨tok, htok, hS⟩
        exact ⟨tok, htok, .inl ⟨hS, by rw [← htok]; exact hp⟩⟩
      · rintro ⟨tok, htok, hS | ⟨lines, c, h1, h2, rfl, rfl, rfl⟩⟩
        · exact ⟨tok, htok, hS.1⟩
        · exfalso
          apply hp
          rw [htok]
          exact ⟨encodeBlock lines c ++ rest, by simp⟩

end Edn.Proofs
