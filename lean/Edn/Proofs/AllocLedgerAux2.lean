/-
  Edn.Proofs.AllocLedgerAux2 — equality, hashing and the duplicate check of Edn.Model.ReaderA
  keep the ledger (`Good`): they make requests on the parser's arena only, except for the scratch
  copy (`malloc`) and the hash table (`calloc`) of the duplicate check, which are freed again on
  every path, whatever requests fail in between.
-/
import Edn.Proofs.AllocLedgerAux1

namespace Edn.Proofs.AllocLedger
open Edn.Model Edn.Proofs.AllocBasic

/-! ## Lazily materialised payloads -/

theorem strContentA_good (x : ACtx) (h : Hdr) (data : Bytes) (esc : Bool) (a : ASt) :
    Good a (strContentA x h data esc a).2 := by
  unfold strContentA
  split
  · exact Good.refl a
  · split
    · exact Good.refl a
    · have hg := request_good x.orc a 0
      cases hr : (a.request x.orc .arena).1
      · simp only [hr]; exact hg
      · simp only [hr]
        cases decodeString x.ctx.cfg (data.length + 1) data with
        | none => exact hg
        | some d => exact Good.trans hg (bufs_good _ _)

theorem cleanA_good (x : ACtx) (h : Hdr) (d : Bytes) (a : ASt) : Good a (cleanA x h d a).2 := by
  unfold cleanA
  split
  · exact Good.refl a
  · split
    · exact Good.refl a
    · have hg := request_good x.orc a 0
      cases hr : (a.request x.orc .arena).1
      · simp only [hr]; exact hg
      · simp only [hr]; exact Good.trans hg (bufs_good _ _)

/-! ## Generic combinators -/

theorem anyA_good (p : Val → Val → ASt → Bool × ASt) (hp : ∀ u w a, Good a (p u w a).2) (v : Val) (ys : List Val) (a : ASt) :
    Good a (anyA p v ys a).2 := by
  induction ys generalizing a with
  | nil => exact Good.refl a
  | cons y ys ih =>
    unfold anyA
    have h1 := hp v y a
    rcases hq : p v y a with ⟨r, a1⟩
    rw [hq] at h1
    cases r
    · exact Good.trans h1 (ih a1)
    · exact h1

theorem allZipA_good (p : Val → Val → ASt → Bool × ASt) (hp : ∀ u w a, Good a (p u w a).2) (xs ys : List Val) (a : ASt) :
    Good a (allZipA p xs ys a).2 := by
  induction xs generalizing ys a with
  | nil => cases ys <;> exact Good.refl a
  | cons v vs ih =>
    cases ys with
    | nil => exact Good.refl a
    | cons y ys =>
      unfold allZipA
      have h1 := hp v y a
      rcases hq : p v y a with ⟨r, a1⟩
      rw [hq] at h1
      cases r
      · exact h1
      · exact Good.trans h1 (ih ys a1)

theorem allAnyA_good (p : Val → Val → ASt → Bool × ASt) (hp : ∀ u w a, Good a (p u w a).2) (xs ys : List Val) (a : ASt) :
    Good a (allAnyA p xs ys a).2 := by
  induction xs generalizing a with
  | nil => exact Good.refl a
  | cons v vs ih =>
    unfold allAnyA
    have h1 := anyA_good p hp v ys a
    rcases hq : anyA p v ys a with ⟨r, a1⟩
    rw [hq] at h1
    cases r
    · exact h1
    · exact Good.trans h1 (ih a1)

theorem mapEntryA_good (p : Val → Val → ASt → Bool × ASt) (hp : ∀ u w a, Good a (p u w a).2) (k v : Val) (ks vs : List Val) (a : ASt) :
    Good a (mapEntryA p k v ks vs a).2 := by
  induction ks generalizing vs a with
  | nil => cases vs <;> exact Good.refl a
  | cons k' ks ih =>
    cases vs with
    | nil => exact Good.refl a
    | cons v' vs =>
      unfold mapEntryA
      have h1 := hp k k' a
      rcases hq : p k k' a with ⟨r, a1⟩
      rw [hq] at h1
      cases r
      · exact Good.trans h1 (ih vs a1)
      · exact Good.trans h1 (hp v v' a1)

theorem mapAllA_good (p : Val → Val → ASt → Bool × ASt) (hp : ∀ u w a, Good a (p u w a).2) (ks' vs' ks vs : List Val) (a : ASt) :
    Good a (mapAllA p ks' vs' ks vs a).2 := by
  induction ks generalizing vs a with
  | nil => cases vs <;> exact Good.refl a
  | cons k ks ih =>
    cases vs with
    | nil => exact Good.refl a
    | cons v vs =>
      unfold mapAllA
      have h1 := mapEntryA_good p hp k v ks' vs' a
      rcases hq : mapEntryA p k v ks' vs' a with ⟨r, a1⟩
      rw [hq] at h1
      cases r
      · exact h1
      · exact Good.trans h1 (ih vs a1)

/-! ## Equality and hashing -/

theorem digitsEqA_good (x : ACtx) (h h' : Hdr) (d d' : Bytes) (a : ASt) : Good a (digitsEqA x h d h' d' a).2 := by
  unfold digitsEqA
  have h1 := cleanA_good x h d a
  rcases hq : cleanA x h d a with ⟨da, a1⟩
  rw [hq] at h1
  dsimp only
  have h2 := cleanA_good x h' d' a1
  rcases hq2 : cleanA x h' d' a1 with ⟨db, a2⟩
  rw [hq2] at h2
  exact Good.trans h1 h2

theorem strEqA_good (x : ACtx) (h h' : Hdr) (d d' : Bytes) (e e' : Bool) (a : ASt) :
    Good a (strEqA x h d e h' d' e' a).2 := by
  unfold strEqA
  have h1 := strContentA_good x h d e a
  rcases hq : strContentA x h d e a with ⟨ca, a1⟩
  rw [hq] at h1
  dsimp only
  have h2 := strContentA_good x h' d' e' a1
  rcases hq2 : strContentA x h' d' e' a1 with ⟨cb, a2⟩
  rw [hq2] at h2
  exact Good.trans h1 h2

theorem equalFA_good (x : ACtx) (f : Nat) (va vb : Val) (a : ASt) : Good a (equalFA x f va vb a).2 := by
  induction f generalizing va vb a with
  | zero => exact Good.refl a
  | succ f ih =>
    unfold equalFA
    split
    · exact Good.refl a
    · split
      · exact Good.refl a
      · split
        all_goals first
          | exact Good.refl a
          | (repeat' split
             all_goals first
               | exact Good.refl a
               | exact digitsEqA_good x _ _ _ _ a
               | exact strEqA_good x _ _ _ _ _ _ a
               | exact allZipA_good _ (fun u w a => ih u w a) _ _ a
               | exact allAnyA_good _ (fun u w a => ih u w a) _ _ a
               | exact mapAllA_good _ (fun u w a => ih u w a) _ _ _ _ a
               | exact ih _ _ a)

theorem equalA_good (x : ACtx) (va vb : Val) (a : ASt) : Good a (equalA x va vb a).2 :=
  equalFA_good x _ va vb a

theorem hash_good (x : ACtx) :
    (∀ v a, Good a (hashVA x v a).2) ∧ (∀ ks vs a, Good a (hashPairsA x ks vs a).2) ∧
    (∀ xs a, Good a (hashListA x xs a).2) := by
  apply hashVA.mutual_induct x (fun v a => Good a (hashVA x v a).2)
    (fun ks vs a => Good a (hashPairsA x ks vs a).2) (fun xs a => Good a (hashListA x xs a).2)
  case case1 => intro h neg radix d a dd a1 e; unfold hashVA; rw [e]; have := cleanA_good x h d a; rw [e] at this; exact this
  case case2 => intro h neg t a dd a1 e; unfold hashVA; rw [e]; have := cleanA_good x h t a; rw [e] at this; exact this
  case case3 => intro h data esc a c a1 e; unfold hashVA; rw [e]; have := strContentA_good x h data esc a; rw [e] at this; exact this
  case case4 => intro h md xs a hs a1 e ih; unfold hashVA; rw [e]; rw [e] at ih; exact ih
  case case5 => intro h md xs a hs a1 e ih; unfold hashVA; rw [e]; rw [e] at ih; exact ih
  case case6 => intro h md xs a hs a1 e ih; unfold hashVA; rw [e]; rw [e] at ih; exact ih
  case case7 => intro h md ks vs a hs a1 e ih; unfold hashVA; rw [e]; rw [e] at ih; exact ih
  case case8 => intro h md tag v a hv a1 e ih; unfold hashVA; rw [e]; rw [e] at ih; exact ih
  case case19 =>
    intro k ks v vs a hv a1 e1 hv2 a2 e2 hs a3 e3 ih1 ih2 ih3
    unfold hashPairsA; rw [e1]; dsimp only; rw [e2]; dsimp only; rw [e3]
    rw [e1] at ih1; rw [e2] at ih2; rw [e3] at ih3
    exact Good.trans ih1 (Good.trans ih2 ih3)
  case case20 =>
    intro ks vs a hne
    unfold hashPairsA
    split
    · next k ks' v vs' => exact (hne k ks' v vs' rfl rfl).elim
    · exact Good.refl a
  case case21 => intro a; unfold hashListA; exact Good.refl a
  case case22 =>
    intro v vs a hv a1 e1 hs a2 e2 ih1 ih2
    unfold hashListA; rw [e1]; dsimp only; rw [e2]
    rw [e1] at ih1; rw [e2] at ih2
    exact Good.trans ih1 ih2
  all_goals (intros; unfold hashVA; exact Good.refl _)

/-! ## The duplicate check -/

theorem hashOpA_good (x : ACtx) (v : Val) (a : ASt) : Good a (hashOpA x v a).2 := by
  unfold hashOpA
  dsimp only
  split
  · exact Good.refl a
  · have h := (hash_good x).1 v a
    rcases hq : hashVA x v a with ⟨hv, a1⟩
    rw [hq] at h
    exact h

theorem hasDupLinearA_good (x : ACtx) (xs : List Val) (a : ASt) : Good a (hasDupLinearA x xs a).2 := by
  induction xs generalizing a with
  | nil => exact Good.refl a
  | cons v vs ih =>
    unfold hasDupLinearA
    have h1 := anyA_good (equalA x) (equalA_good x) v vs a
    rcases hq : anyA (equalA x) v vs a with ⟨r, a1⟩
    rw [hq] at h1
    cases r
    · exact Good.trans h1 (ih a1)
    · exact h1

theorem hashAtA_good (x : ACtx) (is : List Nat) (arr : Array Val) (a : ASt) : Good a (hashAtA x is arr a).2 := by
  induction is generalizing arr a with
  | nil => exact Good.refl a
  | cons i is ih =>
    unfold hashAtA
    split
    · exact ih arr a
    · next v _ =>
      have h1 := hashOpA_good x v a
      rcases hq : hashOpA x v a with ⟨⟨h, v'⟩, a1⟩
      rw [hq] at h1
      exact Good.trans h1 (ih _ a1)

theorem runsA_good (x : ACtx) (f : Nat) (xs : List Val) (a : ASt) : Good a (runsA x f xs a).2 := by
  induction f generalizing xs a with
  | zero => unfold runsA; exact Good.refl a
  | succ f ih =>
    cases xs with
    | nil => unfold runsA; exact Good.refl a
    | cons v vs =>
      unfold runsA
      dsimp only
      have h1 := hasDupLinearA_good x (v :: vs.takeWhile (·.hdr.hc == v.hdr.hc)) a
      rcases hq : hasDupLinearA x (v :: vs.takeWhile (·.hdr.hc == v.hdr.hc)) a with ⟨r, a1⟩
      rw [hq] at h1
      cases r
      · exact Good.trans h1 (ih _ a1)
      · exact h1

theorem hasDupSortedA_good (x : ACtx) (xs : List Val) (a : ASt) : Good a (hasDupSortedA x xs a).2 := by
  unfold hasDupSortedA
  rcases hq0 : a.rawAlloc x.orc .malloc with ⟨o, a1⟩
  cases o with
  | none =>
    have h0 := rawAlloc_none_good x.orc .malloc (Or.inl rfl) a a1 hq0
    dsimp only
    have h1 := hasDupLinearA_good x xs a1
    rcases hq1 : hasDupLinearA x xs a1 with ⟨r, a2⟩
    rw [hq1] at h1
    exact Good.trans h0 h1
  | some i =>
    dsimp only
    have h1 := hashAtA_good x (x.sortTouch xs.length) xs.toArray a1
    rcases hq1 : hashAtA x (x.sortTouch xs.length) xs.toArray a1 with ⟨arr, a2⟩
    rw [hq1] at h1
    dsimp only
    have h2 := hashAtA_good x (List.range xs.length) arr a2
    rcases hq2 : hashAtA x (List.range xs.length) arr a2 with ⟨arr2, a3⟩
    rw [hq2] at h2
    dsimp only
    have h3 := runsA_good x (arr2.toList.length + 1) (sortByHash arr2.toList) a3
    rcases hq3 : runsA x (arr2.toList.length + 1) (sortByHash arr2.toList) a3 with ⟨r, a4⟩
    rw [hq3] at h3
    exact bracket x.orc .malloc (Or.inl rfl) a a1 a4 i hq0 (Good.trans h1 (Good.trans h2 h3))

theorem tableLoopA_good (x : ACtx) (xs seen : List Val) (a : ASt) : Good a (tableLoopA x xs seen a).2 := by
  induction xs generalizing seen a with
  | nil => exact Good.refl a
  | cons v rest ih =>
    unfold tableLoopA
    have h1 := hashOpA_good x v a
    rcases hq : hashOpA x v a with ⟨⟨h, v'⟩, a1⟩
    rw [hq] at h1
    dsimp only
    have h2 := anyA_good (fun e y => equalA x y e) (fun u w a => equalA_good x w u a) v' (seen.reverse.filter (·.hdr.hc == h)) a1
    rcases hq2 : anyA (fun e y => equalA x y e) v' (seen.reverse.filter (·.hdr.hc == h)) a1 with ⟨r, a2⟩
    rw [hq2] at h2
    cases r
    · exact Good.trans h1 (Good.trans h2 (ih _ a2))
    · exact Good.trans h1 h2

theorem hasDupTableA_good (x : ACtx) (xs : List Val) (a : ASt) : Good a (hasDupTableA x xs a).2 := by
  unfold hasDupTableA
  rcases hq0 : a.rawAlloc x.orc .calloc with ⟨o, a1⟩
  cases o with
  | none => exact Good.trans (rawAlloc_none_good x.orc .calloc (Or.inr rfl) a a1 hq0) (hasDupSortedA_good x xs a1)
  | some i =>
    dsimp only
    have h1 := tableLoopA_good x xs [] a1
    rcases hq1 : tableLoopA x xs [] a1 with ⟨r, a2⟩
    rw [hq1] at h1
    exact bracket x.orc .calloc (Or.inr rfl) a a1 a2 i hq0 h1

theorem hasDuplicatesA_good (x : ACtx) (xs : List Val) (a : ASt) : Good a (hasDuplicatesA x xs a).2 := by
  unfold hasDuplicatesA
  split
  · exact Good.refl a
  · split
    · have h1 := hasDupLinearA_good x xs a
      rcases hq : hasDupLinearA x xs a with ⟨r, a1⟩
      rw [hq] at h1
      exact h1
    · split
      · exact hasDupSortedA_good x xs a
      · exact hasDupTableA_good x xs a

end Edn.Proofs.AllocLedger
