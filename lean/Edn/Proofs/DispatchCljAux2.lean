/-
  Edn.Proofs.DispatchCljAux2 — registry dispatch on syntax trees (C14, every configuration):
  the simulation statements (a run that returns a value drives the construction of the syntax
  tree; every run under any options is the dispatch of that tree) and the steps for tagged
  elements and sequences.
-/
import Edn.Proofs.DispatchCljAux1
namespace Edn.Proofs
open Edn.Model Edn.Spec Edn.Generated
namespace DClj

section
variable (cfg : Cfg) (o0 : Opts)

abbrev KC (o : Opts) : Ctx := { cfg := cfg, opts := o }

/-- what a run `r1` started on the call log `cl` must be, given the outcome of the
    declarative dispatch; `rest'` = rest of the input after the form -/
def PostS (cl : List Call) (rest' : Bytes) (r1 : Res) : DOne → Prop
  | (calls, .ok v) => r1 = .ok v { rest := rest', calls := cl ++ calls }
  | (calls, .error (code, s, e)) => code ≠ .unexpectedEof ∧
      ∃ st', r1 = .err (mkErr code (some s) (some e)) st' ∧ st'.calls = cl ++ calls

/-- there is a syntax tree of which every run (options `o1`, incoming call log `cl`) returns
    the dispatch -/
def FormOK (rest' : Bytes) (run : Opts → List Call → Res) : Prop :=
  ∃ t : Syn, ∀ (o1 : Opts) (cl : List Call), PostS cl rest' (run o1 cl) (dispatchS cfg o1.registry o1.mode t)

/-- `r0` = the driving run (any options; it matters only whether it returns a value) -/
def SimF (r0 : Res) (run : Opts → List Call → Res) : Prop :=
  match r0 with
  | .ok _ st0 => FormOK cfg st0.rest run
  | .closer st0 => ∀ o1 cl, run o1 cl = .closer { rest := st0.rest, calls := cl }
  | .err _ _ => True

def SimV (f : Nat) : Prop := ∀ d st,
  SimF cfg (readValue (KC cfg o0) f d false st)
    (fun o1 cl => readValue (KC cfg o1) f d false { rest := st.rest, calls := cl })

def SimT (f : Nat) : Prop := ∀ d start st,
  SimF cfg (readTagged (KC cfg o0) f d false start st)
    (fun o1 cl => readTagged (KC cfg o1) f d false start { rest := st.rest, calls := cl })

def SimMe (f : Nat) : Prop := ∀ d start st,
  SimF cfg (readMeta (KC cfg o0) f d false start st)
    (fun o1 cl => readMeta (KC cfg o1) f d false start { rest := st.rest, calls := cl })

/-- `readNsMap` is entered on the `:` of the prefix -/
def SimN (f : Nat) : Prop := ∀ d start cs c0,
  SimF cfg (readNsMap (KC cfg o0) f d false start { rest := 0x3A :: cs, calls := c0 })
    (fun o1 cl => readNsMap (KC cfg o1) f d false start { rest := 0x3A :: cs, calls := cl })

/-- a property of the rest after an `ok` result -/
def OnOk (r0 : Res) (P : Bytes → Prop) : Prop :=
  match r0 with
  | .ok _ st0 => P st0.rest
  | _ => True

/-- the remaining elements `more` (and the end `e`) of a sequence whose first elements the runs
    have read: the trees `accT` to the values `acc` with the calls `cA` (all newest first) -/
def SeqOK (f d kind start : Nat) (rest : Bytes) (rest' : Bytes) : Prop :=
  ∃ (more : List Syn) (e : Nat), ∀ (o1 : Opts) (clB cA : List Call) (accT : List Syn) (acc : List Val),
    seqR (dispatchEachS cfg o1.registry o1.mode accT.reverse) = (cA, .ok acc.reverse) →
    PostS clB rest'
      (readSeq (KC cfg o1) f d false kind start { rest := rest, calls := clB ++ cA } acc)
      (dispatchS cfg o1.registry o1.mode (.seq kind start e (accT.reverse ++ more)))

/-- `acc0` = what the driving run has accumulated (irrelevant) -/
def SimS (f : Nat) : Prop := ∀ d kind start st acc0,
  OnOk (readSeq (KC cfg o0) f d false kind start st acc0) (SeqOK cfg f d kind start st.rest)

def MapOK (f d start : Nat) (ns : Option Bytes) (rest : Bytes) (rest' : Bytes) : Prop :=
  ∃ (mk mv : List Syn) (e : Nat), mk.length = mv.length ∧
    ∀ (o1 : Opts) (clB cA : List Call) (ksT vsT : List Syn) (ks vs : List Val),
    ksT.length = vsT.length → ks.length = vs.length →
    seqR (entriesS cfg o1.registry o1.mode ns ksT.reverse vsT.reverse) = (cA, .ok (interleave2 ks.reverse vs.reverse)) →
    PostS clB rest'
      (readMap (KC cfg o1) f d false start ns { rest := rest, calls := clB ++ cA } ks vs)
      (dispatchS cfg o1.registry o1.mode (.map start e ns (ksT.reverse ++ mk) (vsT.reverse ++ mv)))

def SimM (f : Nat) : Prop := ∀ d start ns st ks0 vs0,
  OnOk (readMap (KC cfg o0) f d false start ns st ks0 vs0) (MapOK cfg f d start ns st.rest)

theorem code_ne_eof' {code : Err} (h : code ≠ .unexpectedEof) (s e : Option Nat) :
    ((mkErr code s e).code == Err.unexpectedEof && !(mkErr code s e).fuelOut) = false := by
  have : (code == Err.unexpectedEof) = false := by
    cases code <;> first | rfl | exact absurd rfl h
  show (code == Err.unexpectedEof && !false) = false
  rw [this]; rfl

theorem tagResult_ok (reg : Option (Bytes → Option Handler)) (mode s e : Nat) (tag : Bytes) (c1 : List Call)
    (v : Val) : tagResult reg mode s e tag (c1, .ok v) =
      match reg with
      | none => (c1, .ok (.tagged (mkHdr s e) none tag v))
      | some rg =>
        match rg tag with
        | some hd =>
          match hd.run v with
          | none => (c1 ++ [⟨hd.name, v.hdr.s, v.hdr.e⟩], .error (.invalidSyntax, s, e))
          | some r => (c1 ++ [⟨hd.name, v.hdr.s, v.hdr.e⟩], .ok (r.setHdr { r.hdr with s := s, e := e }))
        | none =>
          if mode == 1 then (c1, .ok v)
          else if mode == 2 then (c1, .error (.unknownTag, s, e))
          else (c1, .ok (.tagged (mkHdr s e) none tag v)) := rfl

theorem SimT_succ (f : Nat) (hV : SimV cfg o0 f) : SimT cfg o0 (f + 1) := by
  intro d start st
  rw [readTagged_succ]
  unfold rtStep
  simp only []
  obtain ⟨rest, c0⟩ := st
  cases rest with
  | nil => trivial
  | cons c t =>
    simp only []
    by_cases hws : (c == 0x20 || c == 0x09 || c == 0x0A || c == 0x0D || c == 0x2C) = true
    · rw [if_pos hws]; trivial
    rw [if_neg hws]
    cases hid : readIdentifier (KC cfg o0) { rest := c :: t, calls := c0 } with
    | closer st1 =>
      exfalso
      have := (leaf_not_closer (KC cfg o0) { rest := c :: t, calls := c0 }).2.2.1
      rw [hid] at this; cases this
    | err e st1 => trivial
    | ok tagv st1 =>
      simp only []
      cases tagv with
      | sym hh md ns nm =>
        simp only []
        have hrel := hV (d + 1) st1
        cases hr2 : readValue (KC cfg o0) f (d + 1) false st1 with
        | closer st2 => trivial
        | err e st2 => trivial
        | ok x0 st2 =>
          rw [hr2] at hrel
          obtain ⟨tx, htx⟩ := hrel
          have key : FormOK cfg st2.rest (fun o1 cl =>
              readTagged (KC cfg o1) (f + 1) d false start { rest := c :: t, calls := cl }) := by
            refine ⟨.tagged start st2.rest.length (slice (c :: t) st1.rest) tx, fun o1 cl => ?_⟩
            show PostS cl st2.rest (readTagged (KC cfg o1) (f + 1) d false start { rest := c :: t, calls := cl }) _
            rw [readTagged_succ]
            unfold rtStep
            simp only []
            rw [if_neg hws]
            have hidc := readIdentifier_calls cfg o0 o1 { rest := c :: t, calls := c0 } cl
            simp only [] at hidc
            rw [hidc, hid]
            simp only [Res.setCalls]
            have h1 := htx o1 cl
            simp only [] at h1
            generalize readValue (KC cfg o1) f (d + 1) false { rest := st1.rest, calls := cl } = r1 at h1 ⊢
            generalize slice (c :: t) st1.rest = tag
            rw [dispatchS_tagged]
            rcases hdv : dispatchS cfg o1.registry o1.mode tx with ⟨c1, ⟨code, s, e⟩ | x⟩
            · rw [hdv] at h1
              obtain ⟨hne, st', hr1, hcalls⟩ := h1
              rw [hr1, tagResult_err]
              exact ⟨hne, st', rfl, hcalls⟩
            · rw [hdv] at h1
              change r1 = _ at h1
              rw [h1, tagResult_ok]
              simp only []
              cases o1.registry with
              | none => rfl
              | some rg =>
                simp only []
                rw [if_neg Bool.false_ne_true]
                cases rg tag with
                | some hd =>
                  simp only []
                  cases hd.run x with
                  | none => exact ⟨by decide, _, rfl, by simp only [List.append_assoc]⟩
                  | some r =>
                    simp only []
                    show _ = _
                    simp only [List.append_assoc]
                    rfl
                | none =>
                  simp only []
                  by_cases hm1 : (o1.mode == 1) = true
                  · rw [if_pos hm1, if_pos hm1]; rfl
                  rw [if_neg hm1, if_neg hm1]
                  by_cases hm2 : (o1.mode == 2) = true
                  · rw [if_pos hm2, if_pos hm2]; exact ⟨by decide, _, rfl, rfl⟩
                  rw [if_neg hm2, if_neg hm2]
                  rfl
          -- whatever the driving run's own registry did with the tag: if it returned a value, `key`
          cases o0.registry with
          | none => exact key
          | some rg0 =>
            simp only []
            rw [if_neg Bool.false_ne_true]
            cases rg0 (slice (c :: t) st1.rest) with
            | some hd0 =>
              simp only []
              cases hd0.run x0 with
              | none => trivial
              | some r0 => exact key
            | none =>
              simp only []
              by_cases hm1 : (o0.mode == 1) = true
              · rw [if_pos hm1]; exact key
              rw [if_neg hm1]
              by_cases hm2 : (o0.mode == 2) = true
              · rw [if_pos hm2]; trivial
              rw [if_neg hm2]
              exact key
      | _ => trivial

/-! ## sequences -/

/-- the close of a sequence, on the side of an arbitrary run -/
theorem seq_close_run (o1 : Opts) (f d kind start : Nat) (rest : Bytes) (c : UInt8) (r : Bytes)
    (clB cA : List Call) (accT : List Syn) (acc : List Val)
    (hcl : ¬ (c != closerByte kind) = true)
    (hR1 : readValue (KC cfg o1) f (d + 1) false { rest := rest, calls := clB ++ cA }
      = .closer { rest := c :: r, calls := clB ++ cA })
    (hacc : seqR (dispatchEachS cfg o1.registry o1.mode accT.reverse) = (cA, .ok acc.reverse)) :
    PostS clB r (readSeq (KC cfg o1) (f + 1) d false kind start { rest := rest, calls := clB ++ cA } acc)
      (dispatchS cfg o1.registry o1.mode (.seq kind start r.length (accT.reverse ++ []))) := by
  rw [readSeq_succ]
  unfold rsStep
  rw [hR1]
  simp only []
  rw [if_neg hcl, List.append_nil, dispatchS_seq, hacc, closeSeq_ok]
  by_cases hk0 : (kind == 0) = true
  · rw [if_pos hk0, if_pos hk0]; rfl
  rw [if_neg hk0, if_neg hk0]
  by_cases hk1 : (kind == 1) = true
  · rw [if_pos hk1, if_pos hk1]; rfl
  rw [if_neg hk1, if_neg hk1]
  show PostS clB r (if (hasDuplicates cfg acc.reverse).1 = true then _ else _) _
  by_cases hdup : (hasDuplicates cfg acc.reverse).1 = true
  · rw [if_pos hdup, if_pos hdup]; exact ⟨by decide, _, rfl, rfl⟩
  · rw [if_neg hdup, if_neg hdup]; rfl

theorem SimS_succ (f : Nat) (hV : SimV cfg o0 f) (hS : SimS cfg o0 f) : SimS cfg o0 (f + 1) := by
  intro d kind start st acc0
  rw [readSeq_succ]
  unfold rsStep
  have hrel := hV (d + 1) st
  cases hr : readValue (KC cfg o0) f (d + 1) false st with
  | ok x0 st1 =>
    rw [hr] at hrel
    simp only []
    obtain ⟨tx, htx⟩ := hrel
    have hrec := hS d kind start st1 (x0 :: acc0)
    cases hr0 : readSeq (KC cfg o0) f d false kind start st1 (x0 :: acc0) with
    | err e0 st0 => trivial
    | closer st0 => trivial
    | ok v0 st0 =>
      rw [hr0] at hrec
      obtain ⟨more, e, hmore⟩ := hrec
      refine ⟨tx :: more, e, fun o1 clB cA accT acc hacc => ?_⟩
      rw [readSeq_succ]
      unfold rsStep
      have h1 := htx o1 (clB ++ cA)
      simp only [] at h1
      generalize readValue (KC cfg o1) f (d + 1) false { rest := st.rest, calls := clB ++ cA } = r1 at h1 ⊢
      rcases hdv : dispatchS cfg o1.registry o1.mode tx with ⟨c1, ⟨code, s, e'⟩ | x⟩
      · rw [hdv] at h1
        obtain ⟨hne, st', hr1, hcalls⟩ := h1
        rw [hr1]
        simp only []
        rw [code_ne_eof' hne, dispatchS_seq, dispLS_snoc_err cfg _ _ more hacc hdv, closeSeq_err]
        exact ⟨hne, st', rfl, by rw [hcalls, List.append_assoc]⟩
      · rw [hdv] at h1
        change r1 = _ at h1
        rw [h1]
        simp only []
        have := hmore o1 clB (cA ++ c1) (tx :: accT) (x :: acc)
          (by rw [List.reverse_cons, List.reverse_cons]; exact dispLS_snoc_ok cfg _ _ hacc hdv)
        rw [List.reverse_cons, List.append_assoc, ← List.append_assoc clB] at this
        exact this
  | err e st1 =>
    simp only []
    by_cases hb : (e.code == Err.unexpectedEof && !e.fuelOut) = true
    · rw [if_pos hb]; trivial
    · rw [if_neg hb]; trivial
  | closer st1 =>
    rw [hr] at hrel
    obtain ⟨r', c'⟩ := st1
    simp only []
    cases r' with
    | nil => trivial
    | cons c r =>
      simp only []
      by_cases hcl : (c != closerByte kind) = true
      · rw [if_pos hcl]; trivial
      rw [if_neg hcl]
      have key : SeqOK cfg (f + 1) d kind start st.rest r :=
        ⟨[], r.length, fun o1 clB cA accT acc hacc =>
          seq_close_run cfg o1 f d kind start st.rest c r clB cA accT acc hcl (hrel o1 (clB ++ cA)) hacc⟩
      by_cases hk0 : (kind == 0) = true
      · rw [if_pos hk0]; exact key
      rw [if_neg hk0]
      by_cases hk1 : (kind == 1) = true
      · rw [if_pos hk1]; exact key
      rw [if_neg hk1]
      show OnOk (if (hasDuplicates cfg acc0.reverse).1 = true then _ else _) _
      by_cases hdup : (hasDuplicates cfg acc0.reverse).1 = true
      · rw [if_pos hdup]; trivial
      · rw [if_neg hdup]; exact key

end
end DClj
end Edn.Proofs
