/-
  Edn.Proofs.ReaderInvAux1 — value-level lemmas for the reader invariant: the invariant
  `VOK` (the same proposition as `ValOK` of `Edn.Proofs.ReaderInv`), fresh leaves, freshly
  built collections, header / metadata replacement, key qualification.
-/
import Edn.Proofs.Equal
import Edn.Proofs.Fuel

namespace Edn.Proofs
open Edn.Model Edn.Spec Edn.Generated

/-- invariant of a value read at nesting depth `d` (literally `ValOK`) -/
def VOK (cfg : Cfg) (d : Nat) (v : Val) : Prop :=
  depth v + d ≤ Tables.maxNestingDepth ∧ WF cfg v ∧ cacheOK cfg v = true

/-- a property of the value of an `ok` result -/
def _root_.Edn.Model.Res.okP (P : Val → Prop) : Res → Prop
  | .ok v _ => P v
  | _ => True

theorem okP_elim {P : Val → Prop} {r : Res} (h : r.okP P) {v : Val} {st : St} (hr : r = .ok v st) : P v := by
  subst hr; exact h

theorem okP_mono {P Q : Val → Prop} {r : Res} (h : r.okP P) (hpq : ∀ v, P v → Q v) : r.okP Q := by
  cases r with
  | ok v st => exact hpq v h
  | closer st => trivial
  | err e st => trivial

theorem nest_le_rec : Tables.maxNestingDepth ≤ Tables.maxRecursionDepth := by decide

theorem VOK.weaken {cfg : Cfg} {d : Nat} {v : Val} (h : VOK cfg (d + 1) v) : VOK cfg d v :=
  ⟨by have := h.1; omega, h.2.1, h.2.2⟩

/-! ## leaves -/

/-- a value without operands whose cache cell is empty -/
def freshLeaf (v : Val) : Bool := leaf v && v.hdr.hc == 0

theorem VOK_of_freshLeaf {cfg : Cfg} {d : Nat} {v : Val} (h : freshLeaf v = true)
    (hd : d ≤ Tables.maxNestingDepth) : VOK cfg d v := by
  have key : ∀ (x y : UInt64), (x == 0) = true → (x == 0 || x == y) = true := by
    intro x y hx; rw [hx]; rfl
  cases v <;> first
    | exact absurd h Bool.false_ne_true
    | exact ⟨by show 0 + d ≤ _; omega, trivial, key _ _ h⟩

theorem freshLeaf_numToVal (s e : Nat) (n : NumVal) : freshLeaf (numToVal (mkHdr s e) n) = true := by
  cases n <;> rfl

/-! ## lists of operands -/

theorem depthL_VOK {cfg : Cfg} {d : Nat} {xs : List Val} (hd : d < Tables.maxNestingDepth)
    (hx : ∀ x ∈ xs, VOK cfg (d + 1) x) : depthL xs + (d + 1) ≤ Tables.maxNestingDepth := by
  have := depthL_le xs (Tables.maxNestingDepth - (d + 1)) fun y hy => by
    have := (hx y hy).1; omega
  omega

theorem Elems_of_VOK {cfg : Cfg} {d : Nat} {xs : List Val}
    (hx : ∀ x ∈ xs, VOK cfg (d + 1) x) : Elems cfg xs := by
  intro x hm
  obtain ⟨h1, h2, h3⟩ := hx x hm
  refine ⟨?_, h2, h3⟩
  have := nest_le_rec
  show depth x < Tables.maxRecursionDepth + 1
  omega

theorem VOK_of_Elems {cfg : Cfg} {d : Nat} {ys : List Val} (he : Elems cfg ys)
    (hdl : depthL ys + (d + 1) ≤ Tables.maxNestingDepth) : ∀ y ∈ ys, VOK cfg (d + 1) y := by
  intro y hy
  have := depth_le_depthL hy
  exact ⟨by omega, (he y hy).2.1, (he y hy).2.2⟩

theorem VOK_reverse {cfg : Cfg} {d : Nat} {xs : List Val} (hx : ∀ x ∈ xs, VOK cfg d x) :
    ∀ x ∈ xs.reverse, VOK cfg d x :=
  fun x hm => hx x (List.mem_reverse.mp hm)

/-! ## freshly built collections -/

theorem fresh_hc (s e : Nat) (y : UInt64) : ((mkHdr s e).hc == 0 || (mkHdr s e).hc == y) = true := rfl

theorem VOK_list {cfg : Cfg} {d : Nat} (s e : Nat) {xs : List Val} (hd : d < Tables.maxNestingDepth)
    (hx : ∀ x ∈ xs, VOK cfg (d + 1) x) : VOK cfg d (.list (mkHdr s e) none xs) := by
  refine ⟨?_, ?_, ?_⟩
  · show depthL xs + 1 + d ≤ _
    have := depthL_VOK hd hx; omega
  · exact WFL_of_mem cfg xs fun x hm => (hx x hm).2.1
  · show (((mkHdr s e).hc == 0 || (mkHdr s e).hc == _) && cacheOKL cfg xs) = true
    rw [fresh_hc, cacheOKL_of_mem cfg xs fun x hm => (hx x hm).2.2]; rfl

theorem VOK_vec {cfg : Cfg} {d : Nat} (s e : Nat) {xs : List Val} (hd : d < Tables.maxNestingDepth)
    (hx : ∀ x ∈ xs, VOK cfg (d + 1) x) : VOK cfg d (.vec (mkHdr s e) none xs) := by
  refine ⟨?_, ?_, ?_⟩
  · show depthL xs + 1 + d ≤ _
    have := depthL_VOK hd hx; omega
  · exact WFL_of_mem cfg xs fun x hm => (hx x hm).2.1
  · show (((mkHdr s e).hc == 0 || (mkHdr s e).hc == _) && cacheOKL cfg xs) = true
    rw [fresh_hc, cacheOKL_of_mem cfg xs fun x hm => (hx x hm).2.2]; rfl

theorem VOK_set {cfg : Cfg} {d : Nat} (s e : Nat) {xs : List Val} (hd : d < Tables.maxNestingDepth)
    (hx : ∀ x ∈ xs, VOK cfg (d + 1) x) (hp : pairwiseDistinct cfg xs) :
    VOK cfg d (.set (mkHdr s e) none xs) := by
  refine ⟨?_, ?_, ?_⟩
  · show depthL xs + 1 + d ≤ _
    have := depthL_VOK hd hx; omega
  · exact ⟨hp, WFL_of_mem cfg xs fun x hm => (hx x hm).2.1⟩
  · show (((mkHdr s e).hc == 0 || (mkHdr s e).hc == _) && cacheOKL cfg xs) = true
    rw [fresh_hc, cacheOKL_of_mem cfg xs fun x hm => (hx x hm).2.2]; rfl

theorem VOK_map {cfg : Cfg} {d : Nat} (s e : Nat) {ks vs : List Val} (hd : d < Tables.maxNestingDepth)
    (hk : ∀ x ∈ ks, VOK cfg (d + 1) x) (hv : ∀ x ∈ vs, VOK cfg (d + 1) x)
    (hp : pairwiseDistinct cfg ks) (hl : ks.length = vs.length) :
    VOK cfg d (.map (mkHdr s e) none ks vs) := by
  refine ⟨?_, ?_, ?_⟩
  · show max (depthL ks) (depthL vs) + 1 + d ≤ _
    have := depthL_VOK hd hk
    have := depthL_VOK hd hv
    omega
  · exact ⟨hp, hl, WFL_of_mem cfg ks fun x hm => (hk x hm).2.1, WFL_of_mem cfg vs fun x hm => (hv x hm).2.1⟩
  · show (((mkHdr s e).hc == 0 || (mkHdr s e).hc == _) && cacheOKL cfg ks && cacheOKL cfg vs) = true
    rw [fresh_hc, cacheOKL_of_mem cfg ks fun x hm => (hk x hm).2.2,
      cacheOKL_of_mem cfg vs fun x hm => (hv x hm).2.2]; rfl

theorem VOK_tagged {cfg : Cfg} {d : Nat} (s e : Nat) (tag : Bytes) {v : Val}
    (hv : VOK cfg (d + 1) v) : VOK cfg d (.tagged (mkHdr s e) none tag v) := by
  refine ⟨?_, hv.2.1, ?_⟩
  · show depth v + 1 + d ≤ _
    have := hv.1; omega
  · show (((mkHdr s e).hc == 0 || (mkHdr s e).hc == _) && cacheOK cfg v) = true
    rw [fresh_hc, hv.2.2]; rfl

/-! ## the close of a set / map literal -/

theorem VOK_set_close {cfg : Cfg} {d : Nat} (s e : Nat) {xs : List Val} (hd : d < Tables.maxNestingDepth)
    (hx : ∀ x ∈ xs, VOK cfg (d + 1) x) (hdup : (hasDuplicates cfg xs).1 = false) :
    VOK cfg d (.set (mkHdr s e) none (hasDuplicates cfg xs).2) := by
  obtain ⟨h1, h2, -, h4, h5⟩ := hasDuplicates_iff cfg xs (Elems_of_VOK hx)
  have hp := h1.mp hdup
  refine VOK_set s e hd (VOK_of_Elems h2 ?_) (h4 hp)
  rw [h5]; exact depthL_VOK hd hx

theorem VOK_map_close {cfg : Cfg} {d : Nat} (s e : Nat) {ks vs : List Val} (hd : d < Tables.maxNestingDepth)
    (hk : ∀ x ∈ ks, VOK cfg (d + 1) x) (hv : ∀ x ∈ vs, VOK cfg (d + 1) x) (hl : ks.length = vs.length)
    (hdup : (hasDuplicates cfg ks).1 = false) :
    VOK cfg d (.map (mkHdr s e) none (hasDuplicates cfg ks).2 vs) := by
  obtain ⟨h1, h2, h3, h4, h5⟩ := hasDuplicates_iff cfg ks (Elems_of_VOK hk)
  have hp := h1.mp hdup
  refine VOK_map s e hd (VOK_of_Elems h2 ?_) hv (h4 hp) (by rw [h3, hl])
  rw [h5]; exact depthL_VOK hd hk

/-! ## header and metadata replacement -/

theorem depth_setMd (v : Val) (m : Option Val) : depth (v.setMd m) = depth v := by cases v <;> rfl
theorem WF_setMd (cfg : Cfg) (v : Val) (m : Option Val) : WF cfg (v.setMd m) = WF cfg v := by
  cases v <;> rfl
theorem cacheOK_setMd (cfg : Cfg) (v : Val) (m : Option Val) : cacheOK cfg (v.setMd m) = cacheOK cfg v := by
  cases v <;> rfl
theorem hdr_setMd (v : Val) (m : Option Val) : (v.setMd m).hdr = v.hdr := by cases v <;> rfl

theorem VOK_setMd {cfg : Cfg} {d : Nat} {v : Val} (m : Option Val) (h : VOK cfg d v) :
    VOK cfg d (v.setMd m) := by
  unfold VOK
  rw [depth_setMd, WF_setMd, cacheOK_setMd]; exact h

theorem VOK_setHdr {cfg : Cfg} {d : Nat} {v : Val} (h' : Hdr) (hh : h'.hc = v.hdr.hc) (h : VOK cfg d v) :
    VOK cfg d (v.setHdr h') := by
  unfold VOK
  rw [depth_setHdr, WF_setHdr]
  refine ⟨h.1, h.2.1, cacheOK_setHdr cfg v h' h.2.2 ?_⟩
  rw [hh]; exact cacheOK_top cfg h.2.2

theorem attachMeta_eq (cfg : Cfg) (m form : Val) (nks nvs : List Val) :
    ∃ m', attachMeta cfg m form nks nvs = form.setMd m' := by
  unfold attachMeta
  split
  · exact ⟨_, rfl⟩
  · exact ⟨_, rfl⟩

/-- the value `edn_read_metadata` returns -/
theorem VOK_meta {cfg : Cfg} {d : Nat} {form : Val} (m : Val) (nks nvs : List Val) (start : Nat)
    (h : VOK cfg (d + 1) form) :
    VOK cfg d ((attachMeta cfg m form nks nvs).setHdr { (attachMeta cfg m form nks nvs).hdr with s := start }) := by
  obtain ⟨m', hm⟩ := attachMeta_eq cfg m form nks nvs
  rw [hm]
  exact VOK_setHdr _ rfl (VOK_setMd m' h.weaken)

/-! ## key qualification -/

theorem VOK_qualifyKey {cfg : Cfg} {d : Nat} (n : Bytes) {k : Val} (hd : d ≤ Tables.maxNestingDepth)
    (h : VOK cfg d k) : VOK cfg d (qualifyKey n k) := by
  unfold qualifyKey
  split
  · split
    · exact VOK_of_freshLeaf rfl hd
    · split
      · exact VOK_of_freshLeaf rfl hd
      · exact h
  · split
    · exact VOK_of_freshLeaf rfl hd
    · split
      · exact VOK_of_freshLeaf rfl hd
      · exact h
  · exact h

end Edn.Proofs
