/-
  Edn.Proofs.AllocNumber — the number reader with abstracted value creation (`readNumberK`) is
  parametric in what "create the value" means:

  * `readNumberK_pred`: a property that holds of every `fin v s validate` and of every `bad cur`
    holds of the result (used for invariants of the allocation state, e.g. monotonicity);
  * `readNumberK_rel`: two instantiations whose `fin` and `bad` are related give related results
    (with `readNumberK_eq` this relates `readNumberResA` to the pure `readNumberRes`:
    `readNumberResA_granted`, `readNumberResA_refused`).
-/
import Edn.Proofs.AllocBasic

namespace Edn.Proofs.AllocNumber
open Edn.Model Edn.Proofs.AllocBasic

section
variable {β : Type} (P : β → Prop) (cfg : Cfg) (fin : NumVal → Bytes → Bool → β) (bad : Bytes → β)
  (hf : ∀ v s b, P (fin v s b)) (hb : ∀ c, P (bad c))
include hf hb

theorem radixTailK_pred (neg : Bool) (radix : Nat) (allowN : Bool) (ds s : Bytes) :
    P (radixTailK cfg fin bad neg radix allowN ds s) := by
  unfold radixTailK
  simp only []
  repeat' split
  all_goals first | exact hf _ _ _ | exact hb _

theorem decimalTailK_pred (start : Bytes) (neg hasDec hasExp : Bool) (ds s : Bytes) :
    P (decimalTailK cfg fin bad start neg hasDec hasExp ds s) := by
  unfold decimalTailK
  simp only []
  repeat' split
  all_goals first | exact hf _ _ _ | exact hb _

theorem exponentPartK_pred (start : Bytes) (neg hasDec : Bool) (ds s : Bytes) :
    P (exponentPartK cfg fin bad start neg hasDec ds s) := by
  unfold exponentPartK
  simp only []
  repeat' split
  all_goals first | exact hb _ | exact decimalTailK_pred P cfg fin bad hf hb ..

theorem afterMantissaK_pred (start : Bytes) (neg hasDec : Bool) (ds s : Bytes) :
    P (afterMantissaK cfg fin bad start neg hasDec ds s) := by
  unfold afterMantissaK
  simp only []
  repeat' split
  all_goals first | exact hb _ | exact exponentPartK_pred P cfg fin bad hf hb .. | exact decimalTailK_pred P cfg fin bad hf hb ..

theorem decimalPartK_pred (start : Bytes) (neg : Bool) (ds s : Bytes) :
    P (decimalPartK cfg fin bad start neg ds s) := by
  unfold decimalPartK
  simp only []
  split
  · exact hb _
  · exact afterMantissaK_pred P cfg fin bad hf hb ..

omit hf hb in
theorem m5_pred (o : Option β) (d : Unit → β) (ho : ∀ r, o = some r → P r) (hd : P (d ())) :
    P (readNumberK.match_5 (fun _ => β) o (fun r => r) d) := by
  cases o with
  | none => exact hd
  | some r => exact ho r rfl

omit hf hb in
theorem m3_pred (o : Option β × Bytes) (d : Bytes → β) (ho : ∀ r t, o = (some r, t) → P r) (hd : ∀ t, P (d t)) :
    P (readNumberK.match_3 (fun _ => β) o (fun r _ => r) d) := by
  rcases o with ⟨_ | r, t⟩
  · exact hd t
  · exact ho r t rfl

theorem readNumberK_pred (s : Bytes) : P (readNumberK cfg fin bad s) := by
  unfold readNumberK
  simp only []
  apply m5_pred P
  · intro r heq
    repeat' split at heq
    all_goals (cases heq <;> first | exact hb _ | exact radixTailK_pred P cfg fin bad hf hb ..)
  · split <;> split
    all_goals first
      | (apply m3_pred P <;> first
          | (intro r t heq
             repeat' split at heq
             all_goals (cases heq <;> first | exact hb _ | exact radixTailK_pred P cfg fin bad hf hb ..))
          | (intro t
             repeat' split
             all_goals first
               | exact hf _ _ _ | exact hb _
               | exact decimalPartK_pred P cfg fin bad hf hb ..
               | exact exponentPartK_pred P cfg fin bad hf hb ..))
      | (repeat' split
         all_goals first
           | exact hb _
           | exact decimalPartK_pred P cfg fin bad hf hb ..
           | exact afterMantissaK_pred P cfg fin bad hf hb ..)
end

section
variable {β γ : Type} (R : β → γ → Prop) (cfg : Cfg)
  (fin : NumVal → Bytes → Bool → β) (bad : Bytes → β)
  (fin' : NumVal → Bytes → Bool → γ) (bad' : Bytes → γ)
  (hf : ∀ v s b, R (fin v s b) (fin' v s b)) (hb : ∀ c, R (bad c) (bad' c))
include hf hb

theorem radixTailK_rel (neg : Bool) (radix : Nat) (allowN : Bool) (ds s : Bytes) :
    R (radixTailK cfg fin bad neg radix allowN ds s) (radixTailK cfg fin' bad' neg radix allowN ds s) := by
  unfold radixTailK
  simp only []
  repeat' split
  all_goals first | exact hf _ _ _ | exact hb _

theorem decimalTailK_rel (start : Bytes) (neg hasDec hasExp : Bool) (ds s : Bytes) :
    R (decimalTailK cfg fin bad start neg hasDec hasExp ds s) (decimalTailK cfg fin' bad' start neg hasDec hasExp ds s) := by
  unfold decimalTailK
  simp only []
  repeat' split
  all_goals first | exact hf _ _ _ | exact hb _ | simp_all

theorem exponentPartK_rel (start : Bytes) (neg hasDec : Bool) (ds s : Bytes) :
    R (exponentPartK cfg fin bad start neg hasDec ds s) (exponentPartK cfg fin' bad' start neg hasDec ds s) := by
  unfold exponentPartK
  simp only []
  repeat' split
  all_goals first | exact hb _ | exact decimalTailK_rel R cfg fin bad fin' bad' hf hb ..

theorem afterMantissaK_rel (start : Bytes) (neg hasDec : Bool) (ds s : Bytes) :
    R (afterMantissaK cfg fin bad start neg hasDec ds s) (afterMantissaK cfg fin' bad' start neg hasDec ds s) := by
  unfold afterMantissaK
  simp only []
  repeat' split
  all_goals first
    | exact hb _
    | exact exponentPartK_rel R cfg fin bad fin' bad' hf hb ..
    | exact decimalTailK_rel R cfg fin bad fin' bad' hf hb ..

theorem decimalPartK_rel (start : Bytes) (neg : Bool) (ds s : Bytes) :
    R (decimalPartK cfg fin bad start neg ds s) (decimalPartK cfg fin' bad' start neg ds s) := by
  unfold decimalPartK
  simp only []
  repeat' split
  all_goals first | exact hb _ | exact afterMantissaK_rel R cfg fin bad fin' bad' hf hb ..

/-- the lifting of `R` to the optional result of the radix form -/
def optRel (o : Option β) (o' : Option γ) : Prop :=
  match o, o' with
  | none, none => True
  | some r, some r' => R r r'
  | _, _ => False

def pairRel (o : Option β × Bytes) (o' : Option γ × Bytes) : Prop := optRel R o.1 o'.1 ∧ o.2 = o'.2

omit hf hb in
theorem m5_rel (o : Option β) (o' : Option γ) (d : Unit → β) (d' : Unit → γ) (ho : optRel R o o') (hd : R (d ()) (d' ())) :
    R (readNumberK.match_5 (fun _ => β) o (fun r => r) d) (readNumberK.match_5 (fun _ => γ) o' (fun r => r) d') := by
  cases o <;> cases o' <;> simp_all [optRel]

omit hf hb in
theorem m3_rel (o : Option β × Bytes) (o' : Option γ × Bytes) (d : Bytes → β) (d' : Bytes → γ)
    (ho : pairRel R o o') (hd : ∀ t, R (d t) (d' t)) :
    R (readNumberK.match_3 (fun _ => β) o (fun r _ => r) d) (readNumberK.match_3 (fun _ => γ) o' (fun r _ => r) d') := by
  rcases o with ⟨_ | r, t⟩ <;> rcases o' with ⟨_ | r', t'⟩ <;> simp_all [pairRel, optRel]

theorem readNumberK_rel (s : Bytes) : R (readNumberK cfg fin bad s) (readNumberK cfg fin' bad' s) := by
  unfold readNumberK
  simp only []
  apply m5_rel R
  · repeat' split
    all_goals first
      | trivial
      | exact hb _
      | exact radixTailK_rel R cfg fin bad fin' bad' hf hb ..
  · split <;> split
    all_goals first
      | (apply m3_rel R
         · repeat' split
           all_goals first
             | exact ⟨trivial, rfl⟩
             | exact ⟨hb _, rfl⟩
             | exact ⟨radixTailK_rel R cfg fin bad fin' bad' hf hb .., rfl⟩
         · intro t
           repeat' split
           all_goals first
             | exact hf _ _ _ | exact hb _
             | exact decimalPartK_rel R cfg fin bad fin' bad' hf hb ..
             | exact exponentPartK_rel R cfg fin bad fin' bad' hf hb ..)
      | (repeat' split
         all_goals first
           | exact hb _
           | exact decimalPartK_rel R cfg fin bad fin' bad' hf hb ..
           | exact afterMantissaK_rel R cfg fin bad fin' bad' hf hb ..)
end

/-! ## The number reader in the reader protocol -/

/-- the pure number reader's result in the reader protocol -/
def numRes (ctx : Ctx) (st : St) (o : NumOut) : Res :=
  match o with
  | .ok v rest => .ok (numToVal (mkHdr (ctx.pos st.rest) (ctx.pos rest)) v) { st with rest := rest }
  | .err cur => numErrA ctx st cur

theorem readNumberRes_eq (ctx : Ctx) (st : St) : readNumberRes ctx st = numRes ctx st (readNumber ctx.cfg st.rest) := by
  unfold readNumberRes numRes numErrA
  simp only []
  cases h : readNumber ctx.cfg st.rest <;> rfl

theorem floatHeapA_le (x : ACtx) (heap : Bool) (a : ASt) : ASt.Le a (floatHeapA x heap a).2 := by
  unfold floatHeapA
  have h := rawAlloc_le x.orc .malloc a
  split
  · split
    · next i a' e => rw [e] at h; exact Le.trans h (free_le i a')
    · next a' e => rw [e] at h; exact h
  · exact Le.refl a

theorem numCreateA_le (x : ACtx) (st : St) (a : ASt) (v : NumVal) (p : Bytes) (validate : Bool) :
    ASt.Le a (numCreateA x st a v p validate).2 := by
  unfold numCreateA
  have h1 := request_le x.orc .arena a 0
  have h2 := floatHeapA_le x (numNeedsHeap x.ctx.cfg v (slice st.rest p)) (a.request x.orc .arena).2
  simp only []
  repeat' split
  all_goals first | exact h1 | exact Le.trans h1 h2

theorem readNumberResA_le (x : ACtx) (st : St) (a : ASt) : ASt.Le a (readNumberResA x st a).2 := by
  unfold readNumberResA
  apply readNumberK_pred (fun r : Res × ASt => ASt.Le a r.2)
  · intro v p validate; exact numCreateA_le x st a v p validate
  · intro cur; exact Le.refl a

/-- the heap copy is obtained when the oracle lets the next request through -/
theorem floatHeapA_granted (x : ACtx) (heap : Bool) (a : ASt) (h : x.orc (a.reqs + 1) = false) :
    (floatHeapA x heap a).1 = true := by
  unfold floatHeapA ASt.rawAlloc
  have hr : (a.request x.orc .malloc).1 = true := request_succeeds x.orc .malloc a 0 h (fun e => by cases e)
  cases heap <;> simp [hr]

/-- with the value granted (and the heap copy of a long float literal, the next request, too) the
    value creation is the pure one -/
theorem numCreateA_granted (x : ACtx) (st : St) (a : ASt) (v : NumVal) (p : Bytes) (validate : Bool)
    (h1 : (a.request x.orc .arena).1 = true) (h2 : x.orc (a.reqs + 2) = false) :
    (numCreateA x st a v p validate).1 = numRes x.ctx st (finishNumK v p validate) := by
  have hm := floatHeapA_granted x (numNeedsHeap x.ctx.cfg v (slice st.rest p)) (a.request x.orc .arena).2
    (by rw [request_reqs]; exact h2)
  unfold numCreateA numRes finishNumK finishNum
  simp only [h1, hm]
  cases validate <;> cases numDelimOk p <;> simp

/-- a refused value is INVALID_NUMBER from the start of the token to the place of the value creation -/
theorem numCreateA_refused (x : ACtx) (st : St) (a : ASt) (v : NumVal) (p : Bytes) (validate : Bool)
    (h1 : (a.request x.orc .arena).1 = false) :
    (numCreateA x st a v p validate).1 = numErrA x.ctx st p := by
  unfold numCreateA
  simp [h1]

/-- the number reader with its requests granted is the number reader of Edn.Model.Reader -/
theorem readNumberResA_granted (x : ACtx) (st : St) (a : ASt)
    (h1 : (a.request x.orc .arena).1 = true) (h2 : x.orc (a.reqs + 2) = false) :
    (readNumberResA x st a).1 = readNumberRes x.ctx st := by
  rw [readNumberRes_eq, ← readNumberK_eq]
  unfold readNumberResA
  exact readNumberK_rel (fun (r : Res × ASt) (o : NumOut) => r.1 = numRes x.ctx st o) x.ctx.cfg _ _ _ _
    (fun v s b => numCreateA_granted x st a v s b h1 h2) (fun c => rfl) st.rest

/-- with the value refused the number reader reports INVALID_NUMBER: never a value -/
theorem readNumberResA_refused (x : ACtx) (st : St) (a : ASt) (h1 : (a.request x.orc .arena).1 = false) :
    ∃ cur, (readNumberResA x st a).1 = numErrA x.ctx st cur := by
  unfold readNumberResA
  apply readNumberK_pred (fun r : Res × ASt => ∃ cur, r.1 = numErrA x.ctx st cur)
  · intro v p validate; exact ⟨p, numCreateA_refused x st a v p validate h1⟩
  · intro cur; exact ⟨cur, rfl⟩

end Edn.Proofs.AllocNumber
