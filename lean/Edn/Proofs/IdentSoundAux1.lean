/-
  Edn.Proofs.IdentSoundAux1 — the identifier reader on a lexically well-formed token
  (`IdentLex`, no dispatcher conditions), and the scanner on tokens that are not.
-/
import Edn.Spec.IdentLit
import Edn.Proofs.CompleteIdent

namespace Edn.Proofs
open Edn.Model Edn.Spec

/-! ### tokens that contain `::` -/

theorem noCC_infix (prev : Bool) (tok : Bytes) (h : [0x3A, 0x3A] <:+: tok) : noCC prev tok = false := by
  induction tok generalizing prev with
  | nil =>
    obtain ⟨a, b, hab⟩ := h
    simp at hab
  | cons c cs ih =>
    rw [noCC]
    rcases List.infix_cons_iff.mp h with hp | hi
    · obtain ⟨t, ht⟩ := hp
      simp only [List.cons_append, List.nil_append, List.cons.injEq] at ht
      obtain ⟨rfl, rfl⟩ := ht
      simp [noCC]
    · rw [ih _ hi]; simp

/-- a `::` inside the run of non-delimiter bytes sets the flag -/
theorem scanIdentRawAux_cc (tok rest : Bytes) :
    ∀ (i : Nat) (sl : Option Nat) (prev col : Bool),
      (∀ c ∈ tok, isDelim c = false) → noCC prev tok = false →
      (scanIdentRawAux i sl prev col (tok ++ rest)).colons = true := by
  induction tok with
  | nil => intro i sl prev col _ h; simp [noCC] at h
  | cons c cs ih =>
    intro i sl prev col hnd hcc
    have hdc : isDelim c = false := hnd c (by simp)
    rw [List.cons_append, scanIdentRawAux]
    simp only [hdc, Bool.false_eq_true, ↓reduceIte]
    rw [noCC] at hcc
    cases h1 : (c == 0x3A && prev) with
    | true =>
      simp only [Bool.or_true]
      exact scanIdentRawAux_colons _ _ _ _
    | false =>
      simp only [h1, Bool.not_false, Bool.true_and] at hcc
      exact ih _ _ _ _ (fun x hx => hnd x (by simp [hx])) hcc

theorem scanIdent_cc (tok rest : Bytes) (hnd : ∀ c ∈ tok, isDelim c = false)
    (hcc : [0x3A, 0x3A] <:+: tok) : (scanIdent (tok ++ rest)).valid = false := by
  rw [scanIdent_eq_spec]
  unfold scanIdentSpec scanIdentRaw
  simp only [scanIdentRawAux_cc tok rest 0 none false false hnd (noCC_infix false tok hcc), ↓reduceIte]

theorem scanIdent_empty (rest : Bytes) (hr : TermD rest) : (scanIdent rest).valid = false := by
  have := scanIdent_tok [] rest hr (by simp) (by
    rintro ⟨a, b, hab⟩
    simp at hab)
  simp only [List.nil_append] at this
  rw [this]
  simp [identSplit]

/-- an invalid scan is INVALID_SYNTAX -/
theorem readIdentifier_invalid (ctx : Ctx) (st : St) (h : (scanIdent st.rest).valid = false) :
    ∃ e st', readIdentifier ctx st = .err e st' ∧ e.code = .invalidSyntax := by
  unfold readIdentifier
  simp only [h, Bool.not_false, ↓reduceIte]
  exact ⟨_, _, rfl, rfl⟩

/-! ### well-formed tokens (the `IdentTok` lemmas of CompleteIdentAux2/3 without the dispatcher part) -/

theorem lex_tail {c : UInt8} {t : Bytes} (h : IdentLex (c :: t)) (hne : t ≠ []) : IdentLex t :=
  ⟨hne, fun x hx => h.2.1 x (by simp [hx]),
    fun hh => h.2.2 (List.IsInfix.trans hh (List.suffix_cons c t).isInfix)⟩

theorem lex_colon_head {t : Bytes} (h : IdentLex (0x3A :: t)) : t.head? ≠ some 0x3A := by
  intro hh
  cases t with
  | nil => simp at hh
  | cons d u =>
    simp only [List.head?_cons, Option.some.injEq] at hh
    subst hh
    exact h.2.2 ⟨[], u, by simp⟩

theorem rid_sym (ctx : Ctx) (tok : Bytes) (ns : Option Bytes) (nm : Bytes) (rest : Bytes) (cl : List Call)
    (hr : TermD rest) (ht : IdentLex tok) (hc : tok.head? ≠ some 0x3A) (hsp : splitIdent tok = some (ns, nm))
    (hres : tok ≠ "nil".toUTF8.toList ∧ tok ≠ "true".toUTF8.toList ∧ tok ≠ "false".toUTF8.toList) :
    readIdentifier ctx { rest := tok ++ rest, calls := cl } =
      .ok (.sym (mkHdr (tok ++ rest).length rest.length) none ns nm) { rest := rest, calls := cl } := by
  obtain ⟨hne, hnd, hcc⟩ := ht
  unfold readIdentifier
  simp only [Ctx.pos]
  rw [scanIdent_tok tok rest hr hnd hcc]
  have hs := identSplit_split tok 0 ns nm hne (.inl rfl) hsp
  simp only [Nat.add_zero, Option.map_id'] at hs
  have hpk := peek_ne_colon hne hc
  rcases hs with ⟨rfl, rfl, he⟩ | ⟨k, hk, rfl, rfl, he⟩
  · rw [he]
    have h1 : (nm == strBytes "nil") = false := by rw [beq_eq_false_iff_ne]; exact hres.1
    have h2 : (nm == strBytes "true") = false := by rw [beq_eq_false_iff_ne]; exact hres.2.1
    have h3 : (nm == strBytes "false") = false := by rw [beq_eq_false_iff_ne]; exact hres.2.2
    simp [hpk, h1, h2, h3]
  · rw [he]
    have hpk' : (peek (List.take k tok) == 0x3A) = false := by
      cases tok with
      | nil => exact absurd rfl hne
      | cons c t =>
        obtain ⟨k', rfl⟩ : ∃ k', k = k' + 1 := ⟨k - 1, by omega⟩
        simpa [peek_cons] using hpk
    simp [hpk', List.take_of_length_le]

theorem rid_kw (ctx : Ctx) (tok : Bytes) (ns : Option Bytes) (nm : Bytes) (rest : Bytes) (cl : List Call)
    (hr : TermD rest) (ht : IdentLex (0x3A :: tok)) (hc : tok.head? ≠ some 0x3A)
    (hsp : splitIdent tok = some (ns, nm)) (hne : tok ≠ []) (hsl : tok ≠ [0x2F]) :
    readIdentifier ctx { rest := 0x3A :: tok ++ rest, calls := cl } =
      .ok (.kw (mkHdr (0x3A :: tok ++ rest).length rest.length) ns nm) { rest := rest, calls := cl } := by
  obtain ⟨_, hnd, hcc⟩ := ht
  unfold readIdentifier
  simp only [Ctx.pos]
  rw [scanIdent_tok (0x3A :: tok) rest hr hnd hcc]
  have hs := identSplit_split tok 1 ns nm hne (.inr hsl) hsp
  have hix : List.idxOf? 0x2F (0x3A :: tok) = (tok.idxOf? 0x2F).map (· + 1) := by
    rw [List.idxOf?_cons]
    have : ((0x3A : UInt8) == 0x2F) = false := by decide
    simp only [this, Bool.false_eq_true, ↓reduceIte]
  rw [hix, List.length_cons]
  have hpk := peek_ne_colon hne hc
  have hemp : tok.isEmpty = false := by
    cases tok with
    | nil => exact absurd rfl hne
    | cons _ _ => rfl
  rcases hs with ⟨rfl, rfl, he⟩ | ⟨k, hk, rfl, rfl, he⟩
  · rw [he]
    simp [peek_cons, hpk, hemp]
  · rw [he]
    obtain ⟨k', rfl⟩ : ∃ k', k = k' + 1 := ⟨k - 1, by omega⟩
    cases tok with
    | nil => exact absurd rfl hne
    | cons c t =>
      simp only [peek_cons] at hpk
      simp [peek_cons, hpk, List.take_of_length_le]

theorem rid_plain (ctx : Ctx) (tok rest : Bytes) (cl : List Call)
    (hr : TermD rest) (ht : IdentLex tok) (hc : tok.head? ≠ some 0x3A) (hns : tok.idxOf? 0x2F = none) :
    readIdentifier ctx { rest := tok ++ rest, calls := cl } =
      (let h := mkHdr (tok ++ rest).length rest.length
       let st' : St := { rest := rest, calls := cl }
       if tok == strBytes "nil" then .ok (.nil h) st'
       else if tok == strBytes "true" then .ok (.bool h true) st'
       else if tok == strBytes "false" then .ok (.bool h false) st'
       else .ok (.sym h none none tok) st') := by
  obtain ⟨hne, hnd, hcc⟩ := ht
  unfold readIdentifier
  simp only [Ctx.pos]
  rw [scanIdent_tok tok rest hr hnd hcc, hns]
  have hlen : 0 < tok.length := List.length_pos_iff.mpr hne
  have hl0 : (tok.length == 0) = false := by rw [beq_eq_false_iff_ne]; omega
  have hpk := peek_ne_colon hne hc
  simp [identSplit, hl0, hpk]

end Edn.Proofs
