/-
  Edn.Proofs.NumberReaderAux3 — walking `readNumber` through a ratio literal.
-/
import Edn.Spec.NumberLit
import Edn.Proofs.CompleteNum
import Edn.Proofs.NumberReaderAux1
import Edn.Proofs.NumberReaderAux2

namespace Edn.Proofs.NRd
open Edn.Model Edn.Spec Edn.Proofs Edn.Proofs.CNum

theorem parseInt64_digits (cfg : Cfg) (ds : Bytes) (neg : Bool) (hne : ds ≠ [])
    (hd : ∀ c ∈ ds, is09 c = true) :
    parseInt64 cfg ds 10 neg = inRange neg (natOfDigits ds) := by
  rw [parseInt64_spec cfg 10 (by omega) ds neg
    (fun c hc => Or.inl (is09_props (hd c hc)).2.2.2.2.2.2)
    (by
      cases ds with
      | nil => exact absurd rfl hne
      | cons d t => exact ⟨d, by simp, (is09_props (hd d (by simp))).2.2.2.2.2.2⟩)]
  rw [filter_digits ds hd, digitsValR_ten ds hd]

theorem natOfDigits_pos {dd : Bytes} (hd : dd ≠ [] ∧ AllDigits dd ∧ dd.head? ≠ some 0x30) :
    1 ≤ natOfDigits dd := by
  obtain ⟨hne, hall, hh⟩ := hd
  cases dd with
  | nil => exact absurd rfl hne
  | cons d t =>
    have h1 : is09 d = true := hall d (by simp)
    have h0 : d ≠ 0x30 := fun e => hh (by simp [e])
    have hd1 : 1 ≤ d.toNat - 48 := by
      simp only [is09, Bool.and_eq_true, decide_eq_true_eq, UInt8.le_iff_toNat_le] at h1
      have : d.toNat ≠ 48 := fun e => h0 (UInt8.toNat_inj.mp e)
      have := h1.1
      simp at this
      omega
    unfold natOfDigits
    simp only [List.foldl_cons]
    exact Nat.le_trans (by omega) (foldl_dec_ge t _)

theorem ratioDenominator_ok (dd rest : Bytes) (hd : dd ≠ [] ∧ AllDigits dd ∧ dd.head? ≠ some 0x30)
    (ht : TermStart rest) : ratioDenominator (dd ++ rest) = .ok rest := by
  have hst := term_props (peek_term ht)
  have h2 := stopProps2_unpack hst
  have hsp := stopProps_unpack h2.1
  have hdw : (dd ++ rest).dropWhile is09 = rest := dropWhile_digits rest hsp.1 dd hd.2.1
  have hstop := term_stops ht
  obtain ⟨hne, hall, hh⟩ := hd
  cases dd with
  | nil => exact absurd rfl hne
  | cons d t =>
    have h1 : is09 d = true := hall d (by simp)
    have h0 : (d == 0x30) = false := by
      cases h : d == 0x30
      · rfl
      · exact absurd (by simp [eq_of_beq h]) hh
    have hpk : peek (d :: t ++ rest) = d := rfl
    have hemp : (d :: t ++ rest).isEmpty = false := rfl
    have hfin : (!rest.isEmpty && !isDelim (peek rest)) = false := by
      cases rest with
      | nil => rfl
      | cons r t' =>
        have hr : peek (r :: t') = r := rfl
        rw [hr] at hstop ⊢
        cases hdl : isDelim r
        · have : r = 0 := by simpa [hdl] using hstop
          rcases ht with h | ⟨c, t'', hc, hterm⟩
          · exact absurd h (by simp)
          · have : c = r := by injection hc with h1 h2; exact h1.symm
            subst this
            have := numTerm_isDelim c
            simp [numTermIsDelim, hterm, hdl] at this
        · simp
    unfold ratioDenominator
    simp only [hpk, hemp, h1, h0, Bool.not_true, Bool.or_self, Bool.false_eq_true, ↓reduceIte, hdw,
      h2.2.1, h2.2.2.1, h2.2.2.2, hfin]

theorem inRange_bound {neg : Bool} {v : Nat} {n : Int} (h : inRange neg v = some n) :
    n.natAbs ≤ 9223372036854775808 ∧ n.natAbs = v := by
  unfold inRange at h
  cases neg
  · simp only [Bool.false_eq_true, ↓reduceIte] at h
    by_cases hv : v ≤ 9223372036854775807
    · simp only [hv, ↓reduceIte, Option.some.injEq] at h
      subst h
      exact ⟨by simp; omega, by simp⟩
    · simp [hv] at h
  · simp only [↓reduceIte] at h
    by_cases hv : v ≤ 9223372036854775808
    · simp only [hv, ↓reduceIte, Option.some.injEq] at h
      subst h
      exact ⟨by simp; omega, by simp⟩
    · simp [hv] at h

/-- the value computed at the `/` of the main path -/
theorem decimalTail_ratio (cfg : Cfg) (hc : cfg.clj = true) (start : Bytes) (neg : Bool) (nd dd rest : Bytes)
    (hn : nd ≠ [] ∧ AllDigits nd) (hd : dd ≠ [] ∧ AllDigits dd ∧ dd.head? ≠ some 0x30)
    (ht : TermStart rest) :
    decimalTail cfg start neg false false (nd ++ 0x2F :: (dd ++ rest)) (0x2F :: (dd ++ rest)) =
      .ok (ratioValue cfg neg nd dd) rest := by
  have hpk : peek (0x2F :: (dd ++ rest)) = 0x2F := rfl
  have hadv : adv (0x2F :: (dd ++ rest)) = dd ++ rest := rfl
  have e1 : ((0x2F : UInt8) == 0x4E) = false := by decide
  have e2 : ((0x2F : UInt8) == 0x4D) = false := by decide
  have hu := lastIsUnderscore_no nd (0x2F :: (dd ++ rest)) (allDigits_no_underscore hn.2)
  have hnd := parseInt64_digits cfg nd neg hn.1 hn.2
  have hdd := parseInt64_digits cfg dd false hd.1 hd.2.1
  have hpos := natOfDigits_pos hd
  unfold decimalTail ratioValue
  simp only [hpk, hadv, e1, e2, hu, hc, BEq.rfl, Bool.and_false, Bool.false_eq_true, ↓reduceIte,
    Bool.not_false, Bool.and_self, Bool.false_and, ratioDenominator_ok dd rest hd ht, slice_append]
  cases hn' : parseInt64 cfg nd 10 neg with
  | none =>
    cases hd' : parseInt64 cfg dd 10 false with
    | none => exact finishNum_term _ ht
    | some d =>
      simp only []
      by_cases h1 : (d == 1) = true
      · simp only [h1, ↓reduceIte]
        exact finishNum_term _ ht
      · simp only [h1, Bool.false_eq_true, ↓reduceIte]
        exact finishNum_term _ ht
  | some n =>
    cases hd' : parseInt64 cfg dd 10 false with
    | none => exact finishNum_term _ ht
    | some d =>
      have hnb := inRange_bound (hnd ▸ hn')
      have hdb := inRange_bound (hdd ▸ hd')
      have hg : ratioGcd n d = Nat.gcd n.natAbs d.natAbs := ratioGcd_eq n d hnb.1 hdb.1
      have hgpos : 1 ≤ Nat.gcd n.natAbs d.natAbs :=
        Nat.gcd_pos_of_pos_right _ (by rw [hdb.2]; omega)
      have hn1 : (if ratioGcd n d > 1 then n / ((ratioGcd n d : Nat) : Int) else n) =
          n / ((Nat.gcd n.natAbs d.natAbs : Nat) : Int) := by
        rw [hg]
        by_cases h : Nat.gcd n.natAbs d.natAbs > 1
        · simp only [h, ↓reduceIte]
        · have : Nat.gcd n.natAbs d.natAbs = 1 := by omega
          simp [this]
      have hd1 : (if ratioGcd n d > 1 then d / ((ratioGcd n d : Nat) : Int) else d) =
          d / ((Nat.gcd n.natAbs d.natAbs : Nat) : Int) := by
        rw [hg]
        by_cases h : Nat.gcd n.natAbs d.natAbs > 1
        · simp only [h, ↓reduceIte]
        · have : Nat.gcd n.natAbs d.natAbs = 1 := by omega
          simp [this]
      simp only [hn1, hd1]
      by_cases h1 : (n / ((Nat.gcd n.natAbs d.natAbs : Nat) : Int) == 0) = true
      · simp only [h1, ↓reduceIte]
      · simp only [h1, Bool.false_eq_true, ↓reduceIte]
        by_cases h2 : (d / ((Nat.gcd n.natAbs d.natAbs : Nat) : Int) == 1) = true
        · simp only [h2, ↓reduceIte]
        · simp only [h2, Bool.false_eq_true, ↓reduceIte]
          exact finishNum_term _ ht

theorem numBody_ratio (cfg : Cfg) (hc : cfg.clj = true) (s0 : Bytes) (neg : Bool) (nd dd rest : Bytes)
    (hn : DecDigits nd) (hd : dd ≠ [] ∧ AllDigits dd ∧ dd.head? ≠ some 0x30)
    (hz : nd = [0x30] → natOfDigits dd ≤ 9223372036854775807) (ht : TermStart rest) :
    numBody cfg s0 neg (nd ++ 0x2F :: (dd ++ rest)) = .ok (ratioValue cfg neg nd dd) rest := by
  have hS : stopProps (peek (0x2F :: (dd ++ rest))) = true := by
    show stopProps 0x2F = true
    decide
  have hall := (decDigits_cases hn).1
  by_cases h0 : nd = [0x30]
  · have hle := hz h0
    subst h0
    have e : ([0x30] : Bytes) ++ 0x2F :: (dd ++ rest) = 0x30 :: 0x2F :: (dd ++ rest) := rfl
    have hpk : peek (0x2F :: (dd ++ rest)) = 0x2F := rfl
    have hadv : adv (0x2F :: (dd ++ rest)) = dd ++ rest := rfl
    have e1 : ((0x2F : UInt8) == 0x4E) = false := by decide
    have e2 : ((0x2F : UInt8) == 0x4D) = false := by decide
    rw [e, numBody_zero_aux cfg s0 neg _ hS]
    simp only [hpk, hadv, e1, e2, hc, BEq.rfl, Bool.and_self, Bool.false_eq_true, ↓reduceIte,
      ratioDenominator_ok dd rest hd ht]
    have hnd := parseInt64_digits cfg [0x30] neg (by simp) hall
    have hdd := parseInt64_digits cfg dd false hd.1 hd.2.1
    have hv0 : natOfDigits [0x30] = 0 := by decide
    have hn0 : inRange neg 0 = some 0 := by
      unfold inRange
      cases neg <;> simp
    have hd0 : inRange false (natOfDigits dd) = some (natOfDigits dd : Int) := by
      unfold inRange
      simp [hle]
    unfold ratioValue
    rw [hnd, hdd, hv0, hn0, hd0]
    simp
  · have hassoc : nd ++ 0x2F :: (dd ++ rest) = nd ++ ([] ++ ([] ++ 0x2F :: (dd ++ rest))) := rfl
    rw [hassoc, numBody_mantissa cfg s0 neg nd [] [] _ hn (Or.inl rfl) (Or.inl rfl)
      (Or.inr (Or.inr h0)) hS]
    exact decimalTail_ratio cfg hc s0 neg nd dd rest ⟨hn.1, hall⟩ hd ht

end Edn.Proofs.NRd
