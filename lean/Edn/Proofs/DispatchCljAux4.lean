/-
  Edn.Proofs.DispatchCljAux4 — registry dispatch on syntax trees (C14, every configuration):
  the dispatch on the first byte of a form and the induction on the fuel over all six reader
  functions.
-/
import Edn.Proofs.DispatchCljAux3
namespace Edn.Proofs
open Edn.Model Edn.Spec Edn.Generated
namespace DClj

section
variable (cfg : Cfg) (o0 : Opts)

/-- a leaf reader: the same value under all options, the call log passed through -/
theorem SimF_leaf {r0 : Res} (hc : r0.isCloser = false) (run : Opts → List Call → Res)
    (hrun : ∀ o1 cl, run o1 cl = r0.setCalls cl) : SimF cfg r0 run := by
  cases r0 with
  | closer st0 => cases hc
  | err e st0 => trivial
  | ok v0 st0 =>
    refine ⟨.leaf v0, fun o1 cl => ?_⟩
    rw [hrun, dispatchS_leaf]
    show Res.ok v0 { rest := st0.rest, calls := cl } = Res.ok v0 { rest := st0.rest, calls := cl ++ [] }
    rw [List.append_nil]

theorem seqS_nil_start (reg : Option (Bytes → Option Handler)) (mode : Nat) :
    seqR (dispatchEachS cfg reg mode ([] : List Syn).reverse) = ([], .ok ([] : List Val).reverse) := by
  show seqR (dispatchEachS cfg reg mode []) = ([], .ok [])
  rw [dispatchEachS_nil, seqR]

theorem SimF_of_seq (f d kind start : Nat) (st : St)
    (h : OnOk (readSeq (KC cfg o0) f d false kind start st []) (SeqOK cfg f d kind start st.rest)) :
    SimF cfg (readSeq (KC cfg o0) f d false kind start st [])
      (fun o1 cl => readSeq (KC cfg o1) f d false kind start { rest := st.rest, calls := cl } []) := by
  cases hr : readSeq (KC cfg o0) f d false kind start st [] with
  | err e st0 => trivial
  | closer st0 => exact absurd hr (readSeq_notCloser _ _ _ _ _ _ _ _ _)
  | ok v0 st0 =>
    rw [hr] at h
    obtain ⟨more, e, hm⟩ := h
    refine ⟨.seq kind start e more, fun o1 cl => ?_⟩
    have := hm o1 cl [] [] [] (seqS_nil_start cfg _ _)
    rw [List.append_nil] at this
    exact this

theorem SimF_of_map (f d start : Nat) (st : St)
    (h : OnOk (readMap (KC cfg o0) f d false start none st [] []) (MapOK cfg f d start none st.rest)) :
    SimF cfg (readMap (KC cfg o0) f d false start none st [] [])
      (fun o1 cl => readMap (KC cfg o1) f d false start none { rest := st.rest, calls := cl } [] []) := by
  cases hr : readMap (KC cfg o0) f d false start none st [] [] with
  | err e st0 => trivial
  | closer st0 => exact absurd hr (readMap_notCloser _ _ _ _ _ _ _ _ _ _)
  | ok v0 st0 =>
    rw [hr] at h
    obtain ⟨mk, mv, e, _, hm⟩ := h
    refine ⟨.map start e none mk mv, fun o1 cl => ?_⟩
    have := hm o1 cl [] [] [] [] [] rfl rfl (kvS_nil_start cfg _ _ _)
    rw [List.append_nil] at this
    exact this

theorem rvStep_simS (f : Nat) (hV : SimV cfg o0 f) (hS : SimS cfg o0 f) (hM : SimM cfg o0 f)
    (hN : SimN cfg o0 f) (hT : SimT cfg o0 f) (hMe : SimMe cfg o0 f)
    (d : Nat) (c0 : List Call) (c : UInt8) (cs : Bytes) :
    SimF cfg
      (rvStep (KC cfg o0) (readValue (KC cfg o0) f) (readSeq (KC cfg o0) f) (readMap (KC cfg o0) f)
        (readNsMap (KC cfg o0) f) (readTagged (KC cfg o0) f) (readMeta (KC cfg o0) f) d false c0 c cs)
      (fun o1 cl => rvStep (KC cfg o1) (readValue (KC cfg o1) f) (readSeq (KC cfg o1) f)
        (readMap (KC cfg o1) f) (readNsMap (KC cfg o1) f) (readTagged (KC cfg o1) f)
        (readMeta (KC cfg o1) f) d false cl c cs) := by
  unfold rvStep
  simp only []
  obtain ⟨l1, l2, l3, l4, l5⟩ := leaf_not_closer (KC cfg o0) { rest := c :: cs, calls := c0 }
  have rstr := SimF_leaf cfg l1 _ (fun o1 cl => readString_calls cfg o0 o1 { rest := c :: cs, calls := c0 } cl)
  have rchr := SimF_leaf cfg l2 _ (fun o1 cl => readCharacter_calls cfg o0 o1 { rest := c :: cs, calls := c0 } cl)
  have rid := SimF_leaf cfg l3 _ (fun o1 cl => readIdentifier_calls cfg o0 o1 { rest := c :: cs, calls := c0 } cl)
  have rsy := SimF_leaf cfg l4 _ (fun o1 cl => readSymbolic_calls cfg o0 o1 { rest := c :: cs, calls := c0 } cl)
  have rnum := SimF_leaf cfg l5 _ (fun o1 cl => readNumberRes_calls cfg o0 o1 { rest := c :: cs, calls := c0 } cl)
  cases hdisp : dispatch cfg c with
  | string => exact rstr
  | character => exact rchr
  | listOpen =>
    simp only []
    by_cases h : decide (d ≥ Tables.maxNestingDepth) = true
    · rw [if_pos h]; trivial
    · rw [if_neg h]
      simp only [if_neg h]
      exact SimF_of_seq cfg o0 f d 0 _ { rest := cs, calls := c0 } (hS d 0 _ _ [])
  | vectorOpen =>
    simp only []
    by_cases h : decide (d ≥ Tables.maxNestingDepth) = true
    · rw [if_pos h]; trivial
    · rw [if_neg h]
      simp only [if_neg h]
      exact SimF_of_seq cfg o0 f d 1 _ { rest := cs, calls := c0 } (hS d 1 _ _ [])
  | mapOpen =>
    simp only []
    by_cases h : decide (d ≥ Tables.maxNestingDepth) = true
    · rw [if_pos h]; trivial
    · rw [if_neg h]
      simp only [if_neg h]
      exact SimF_of_map cfg o0 f d _ { rest := cs, calls := c0 } (hM d _ none _ [] [])
  | hash =>
    simp only []
    cases cs with
    | nil => exact hT d _ { rest := [], calls := c0 }
    | cons nx cs' =>
      simp only []
      by_cases h1 : (nx == 0x23) = true
      · rw [if_pos h1]
        simp only [if_pos h1]
        exact rsy
      rw [if_neg h1]
      simp only [if_neg h1]
      by_cases h : decide (d ≥ Tables.maxNestingDepth) = true
      · rw [if_pos h]; trivial
      rw [if_neg h]
      simp only [if_neg h]
      by_cases h2 : (nx == 0x7B) = true
      · rw [if_pos h2]
        simp only [if_pos h2]
        exact SimF_of_seq cfg o0 f d 2 _ { rest := cs', calls := c0 } (hS d 2 _ _ [])
      rw [if_neg h2]
      simp only [if_neg h2]
      by_cases h3 : (nx == 0x5F) = true
      · rw [if_pos h3]
        simp only [if_pos h3]
        have hdisc : ∀ (o1 : Opts) (cl : List Call),
            readValue (KC cfg o1) f (d + 1) true { rest := cs', calls := cl }
              = (readValue (KC cfg o0) f (d + 1) true { rest := cs', calls := c0 }).setCalls cl :=
          fun o1 cl => (reader_discard cfg o0 o1 f).1 (d + 1) { rest := cs', calls := c0 } cl
        generalize readValue (KC cfg o0) f (d + 1) true { rest := cs', calls := c0 } = r0d at hdisc ⊢
        simp only [hdisc]
        cases r0d with
        | err e st1 => trivial
        | closer st1 => trivial
        | ok x st1 =>
          simp only [Res.setCalls]
          exact hV d st1
      rw [if_neg h3]
      simp only [if_neg h3]
      by_cases h4 : (cfg.clj && nx == 0x3A) = true
      · rw [if_pos h4]
        simp only [if_pos h4]
        have hnx : nx = 0x3A := by
          have : (nx == 0x3A) = true := by
            cases hcl : cfg.clj <;> rw [hcl] at h4 <;> simp at h4
            exact beq_iff_eq.mpr h4
          exact eq_of_beq this
        subst hnx
        exact hN d _ cs' c0
      · rw [if_neg h4]
        simp only [if_neg h4]
        exact hT d _ { rest := nx :: cs', calls := c0 }
  | sign =>
    simp only []
    cases cs with
    | nil => exact rid
    | cons nx t =>
      simp only []
      by_cases h : is09 nx = true
      · rw [if_pos h]
        simp only [if_pos h]
        exact rnum
      · rw [if_neg h]
        simp only [if_neg h]
        exact rid
  | digit => exact rnum
  | delimiter =>
    simp only []
    by_cases h : (d == 0) = true
    · rw [if_pos h]; trivial
    · rw [if_neg h]
      intro o1 cl
      simp only [if_neg h]
  | metadata =>
    simp only []
    by_cases h : decide (d ≥ Tables.maxNestingDepth) = true
    · rw [if_pos h]; trivial
    · rw [if_neg h]
      simp only [if_neg h]
      exact hMe d _ { rest := cs, calls := c0 }
  | identifier => exact rid

theorem SimV_succ (f : Nat) (hV : SimV cfg o0 f) (hS : SimS cfg o0 f) (hM : SimM cfg o0 f)
    (hN : SimN cfg o0 f) (hT : SimT cfg o0 f) (hMe : SimMe cfg o0 f) : SimV cfg o0 (f + 1) := by
  intro d st
  simp only [readValue_succ]
  unfold rvOuter
  obtain ⟨rest, c0⟩ := st
  cases rest with
  | nil => trivial
  | cons b t =>
    simp only []
    cases hw : (if isPreWs b = true then skipWs (b :: t) else b :: t) with
    | nil => trivial
    | cons c cs =>
      simp only []
      exact rvStep_simS cfg o0 f hV hS hM hN hT hMe d c0 c cs

/-- the simulation: a run (options `o0`) that returns a value has a syntax tree whose
    dispatch every run under any options returns -/
theorem reader_dispatchS : ∀ (f : Nat),
    SimV cfg o0 f ∧ SimS cfg o0 f ∧ SimM cfg o0 f ∧ SimN cfg o0 f ∧ SimT cfg o0 f ∧ SimMe cfg o0 f := by
  intro f
  induction f with
  | zero =>
    refine ⟨?_, ?_, ?_, ?_, ?_, ?_⟩
    · intro d st; rw [readValue_zero]; trivial
    · intro d kind start st acc0; rw [readSeq_zero]; trivial
    · intro d start ns st ks0 vs0; rw [readMap_zero]; trivial
    · intro d start cs c0; rw [readNsMap_zero]; trivial
    · intro d start st; rw [readTagged_zero]; trivial
    · intro d start st; rw [readMeta_zero]; trivial
  | succ f ih =>
    obtain ⟨hV, hS, hM, hN, hT, hMe⟩ := ih
    exact ⟨SimV_succ cfg o0 f hV hS hM hN hT hMe, SimS_succ cfg o0 f hV hS, SimM_succ cfg o0 f hV hM,
      SimN_succ cfg o0 f hM, SimT_succ cfg o0 f hV, SimMe_succ cfg o0 f hV⟩

end
end DClj
end Edn.Proofs
