/-
  Edn.Proofs.Sound — the reader of the core configuration accepts only the language of
  `Edn.Spec.Grammar`, and the tree it returns has the content the derivation names
  (the converse of `Edn.Proofs.Complete`); conversely every form of that grammar whose nesting
  fits the limit is read as what it denotes (`form_is_read`), so that the grammar is exactly the
  accepted language (`read_core_iff`).

  The fuel induction over the mutual block `readValue` / `readSeq` / `readMap` / `readTagged` is
  `reader_core_sound`; its step lemmas are in `SoundAux4` (dispatch) and `SoundAux5` (element
  loops, tags), the leaf readers in `SoundAux2`/`SoundAux3`, the grammar's structural lemmas
  (monotone nesting bound, blanks) in `SoundAux1`.  The converse is a structural recursion over
  the three mutually inductive judgements (`form_reads`, `formSeq_reads`, `trail_reads`) with one
  lemma per constructor in `SoundAux6` (tokens) and `SoundAux7` (structure).
-/
import Edn.Spec.Grammar
import Edn.Proofs.NumberSound
import Edn.Proofs.IdentSound
import Edn.Proofs.Complete
import Edn.Proofs.SoundAux5
import Edn.Proofs.SoundAux7

namespace Edn.Proofs
open Edn.Model Edn.Spec

/-- the fuel induction behind the soundness theorems: all four reachable reader functions at once
    (`readNsMap` and `readMeta` are not reachable in the core configuration) -/
theorem reader_core_sound (opts : Opts) (hreg : opts.registry = none) : ∀ (f : Nat),
    Snd.SV (readValue { cfg := Cfg.core, opts := opts } f) ∧ Snd.SS (readSeq { cfg := Cfg.core, opts := opts } f) ∧
    Snd.SM (readMap { cfg := Cfg.core, opts := opts } f) ∧ Snd.ST (readTagged { cfg := Cfg.core, opts := opts } f) := by
  intro f
  induction f with
  | zero =>
    refine ⟨?_, ?_, ?_, ?_⟩
    · intro d dm st; rw [readValue_zero]; exact Snd.goodV_err _ _ _ _
    · intro d dm kind start st acc _ _; rw [readSeq_zero]; exact Snd.goodS_err _ _ _ _ _ _
    · intro d dm start st ks vs _ _ _; rw [readMap_zero]; exact Snd.goodM_err _ _ _ _ _ _
    · intro d dm start st; rw [readTagged_zero]; exact Snd.goodT_err _ _ _ _
  | succ f ih =>
    obtain ⟨hV, hS, hM, hT⟩ := ih
    have hI : Snd.InvV (readValue { cfg := Cfg.core, opts := opts } f) :=
      fun d dm st v st' hd h => readValue_inv { cfg := Cfg.core, opts := opts } hreg f d dm st st' v hd h
    refine ⟨?_, ?_, ?_, ?_⟩
    · intro d dm st
      rw [readValue_succ]
      exact Snd.rvOuter_sound _ rfl hV hS hM hT d dm st
    · intro d dm kind start st acc hd hel
      rw [readSeq_succ]
      exact Snd.rsStep_sound _ rfl hV hI hS d dm kind start st acc hd hel
    · intro d dm start st ks vs hd hel hl
      rw [readMap_succ]
      exact Snd.rmStep_sound _ rfl hV hI hM d dm start st ks vs hd hel hl
    · intro d dm start st
      rw [readTagged_succ]
      exact Snd.rtStep_sound _ hreg hV d dm start st

/-- soundness of `edn_read_value` in every context (any fuel, depth, discard mode, call log):
    a returned value means that a form of the grammar was consumed, exactly its bytes, no reader
    call was recorded, and the value's content is the form's -/
theorem readValue_core_sound (opts : Opts) (hreg : opts.registry = none) (f d : Nat) (dm : Bool) (st st' : St) (v : Val)
    (h : readValue { cfg := Cfg.core, opts := opts } f d dm st = .ok v st') :
    ∃ k tok, st.rest = tok ++ st'.rest ∧ st'.calls = st.calls ∧ Form k (strip v) tok st'.rest := by
  obtain ⟨k, tok, h1, h2, h3, -⟩ := ((reader_core_sound opts hreg f).1 d dm st).1 v st' h
  exact ⟨k, tok, h1, h2, h3⟩

/-- the same with the nesting bound: at a depth within the limit, the form's nesting fits the
    rest of the limit — exactly the hypothesis of the converse `form_is_read` -/
theorem readValue_core_sound_fits (opts : Opts) (hreg : opts.registry = none) (f d : Nat) (dm : Bool) (st st' : St) (v : Val)
    (hd : d ≤ Edn.Generated.Tables.maxNestingDepth)
    (h : readValue { cfg := Cfg.core, opts := opts } f d dm st = .ok v st') :
    ∃ k tok, d + k ≤ Edn.Generated.Tables.maxNestingDepth ∧ st.rest = tok ++ st'.rest ∧ st'.calls = st.calls ∧
      Form k (strip v) tok st'.rest := by
  obtain ⟨k, tok, h1, h2, h3, h4⟩ := ((reader_core_sound opts hreg f).1 d dm st).1 v st' h
  exact ⟨k, tok, h4 hd, h1, h2, h3⟩

/-- … and a "closing delimiter seen" outcome means that only blanks and discarded forms were
    consumed, up to a closing delimiter inside a collection -/
theorem readValue_core_closer (opts : Opts) (hreg : opts.registry = none) (f d : Nat) (dm : Bool) (st st' : St)
    (h : readValue { cfg := Cfg.core, opts := opts } f d dm st = .closer st') :
    ∃ k tr, st.rest = tr ++ st'.rest ∧ st'.calls = st.calls ∧ Trail k tr st'.rest ∧ 0 < d ∧
      ∃ c t, st'.rest = c :: t ∧ (c = 0x29 ∨ c = 0x5D ∨ c = 0x7D) := by
  obtain ⟨k, tr, h1, h2, h3, -, h5⟩ := ((reader_core_sound opts hreg f).1 d dm st).2 st' h
  exact ⟨k, tr, h1, h2, h3, h5⟩

/-- top level: whatever `edn_read` accepts starts with a form of the grammar, whose content is
    the content of the returned tree -/
theorem read_core_sound (opts : Opts) (hreg : opts.registry = none) (input : Bytes) (v : Val)
    (h : (read Cfg.core opts input).out = .value v) :
    ∃ k tok rest, input = tok ++ rest ∧ Form k (strip v) tok rest := by
  unfold Edn.Model.read at h
  simp only [] at h
  cases hr : readValue { cfg := Cfg.core, opts := opts } (readFuel input) 0 false { rest := input } with
  | ok v' st =>
    rw [hr] at h
    simp only [Outcome.value.injEq] at h
    subst h
    obtain ⟨k, tok, h1, -, h2⟩ := readValue_core_sound opts hreg _ 0 false _ st v' hr
    exact ⟨k, tok, st.rest, h1, h2⟩
  | closer st =>
    rw [hr] at h
    simp only [] at h
    cases h
  | err e st =>
    rw [hr] at h
    simp only [] at h
    repeat' split at h
    all_goals cases h

mutual
/-- forms of the liberal grammar are read, at every depth that leaves room for their nesting -/
theorem form_reads (opts : Opts) (hreg : opts.registry = none) :
    ∀ {k : Nat} {a : Val} {tok rest : Bytes}, Form k a tok rest →
      ∀ d, d + k ≤ Edn.Generated.Tables.maxNestingDepth → Snd.ReadsL opts d a tok rest
  | _, _, _, _, .blank k a tr tok rest ht h, d, hd =>
    Snd.readsL_blank opts d a tr tok rest ht (form_reads opts hreg h d hd)
  | _, _, _, _, .discard k a b tok1 tok2 rest hdisc h, d, hd =>
    Snd.readsL_discard opts d a b tok1 tok2 rest (by omega) (form_reads opts hreg hdisc (d + 1) (by omega))
      (form_reads opts hreg h d hd)
  | _, _, _, _, .number k tok rest v hn ht, d, _ => Snd.readsL_number opts d tok rest v hn ht
  | _, _, _, _, .ident k tok rest a hl hs hden ht, d, _ => Snd.readsL_ident opts d tok rest a hl hs hden ht
  | _, _, _, _, .str k sp rest h, d, _ => Snd.readsL_str opts d sp rest h
  | _, _, _, _, .char k body rest cp h hcp ht, d, _ => Snd.readsL_char opts d body rest cp h hcp ht
  | _, _, _, _, .symbolic k tok rest bits h, d, _ => Snd.readsL_symbolic opts d tok rest bits h
  | _, _, _, _, .list k xs body rest h, d, hd =>
    Snd.readsL_list opts d xs body rest (by omega) (formSeq_reads opts hreg h 0x29 rest rfl (.inl rfl) d (by omega))
  | _, _, _, _, .vec k xs body rest h, d, hd =>
    Snd.readsL_vec opts d xs body rest (by omega) (formSeq_reads opts hreg h 0x5D rest rfl (.inr (.inl rfl)) d (by omega))
  | _, _, _, _, .set k xs body rest h hpd, d, hd =>
    Snd.readsL_set opts hreg d xs body rest (by omega)
      (formSeq_reads opts hreg h 0x7D rest rfl (.inr (.inr rfl)) d (by omega)) hpd
  | _, _, _, _, .map k ks vs body rest h hl hpd, d, hd =>
    Snd.readsL_map opts hreg d ks vs body rest (by omega)
      (formSeq_reads opts hreg h 0x7D rest rfl (.inr (.inr rfl)) d (by omega)) hl hpd
  | _, _, _, _, .tagged k tag ns nm a tok rest hl hden hu hsep h, d, hd =>
    Snd.readsL_tagged opts hreg d tag ns nm a tok rest (by omega) hl hden hu hsep
      (form_reads opts hreg h (d + 1) (by omega))

/-- collection bodies in front of a closing delimiter -/
theorem formSeq_reads (opts : Opts) (hreg : opts.registry = none) :
    ∀ {k : Nat} {xs : List Val} {body after : Bytes}, FormSeq k xs body after →
      ∀ (c : UInt8) (rest : Bytes), after = c :: rest → Cmpl.IsCloser c →
      ∀ d, d + 1 + k ≤ Edn.Generated.Tables.maxNestingDepth → Snd.SeqL opts d xs body after
  | _, _, _, _, .nil k tr after ht, c, rest, he, hc, d, hd =>
    Snd.seqL_nil opts d tr after (trail_reads opts hreg ht c rest he hc d hd)
  | _, _, _, _, .cons k a xs tok body after h hr, c, rest, he, hc, d, hd =>
    Snd.seqL_cons opts d a xs tok body after (Snd.form_ne_nil h) (form_reads opts hreg h (d + 1) (by omega))
      (formSeq_reads opts hreg hr c rest he hc d hd)

/-- blanks and discarded forms in front of a closing delimiter -/
theorem trail_reads (opts : Opts) (hreg : opts.registry = none) :
    ∀ {k : Nat} {tr after : Bytes}, Trail k tr after →
      ∀ (c : UInt8) (rest : Bytes), after = c :: rest → Cmpl.IsCloser c →
      ∀ d, d + 1 + k ≤ Edn.Generated.Tables.maxNestingDepth → Snd.TrailL opts d tr after
  | _, _, _, .blank k tr after ht, c, rest, he, hc, d, _ => by
    subst he
    exact Snd.trailL_blank opts d tr c rest ht hc
  | _, _, _, .discard k b tr tok tr' after ht hdisc hr, c, rest, he, hc, d, hd =>
    Snd.trailL_discard opts d b tr tok tr' after (by omega) ht (form_reads opts hreg hdisc (d + 2) (by omega))
      (trail_reads opts hreg hr c rest he hc d hd)
end

/-- the converse for the liberal grammar (stronger than `complete`, which needs separators): a
    form whose nesting fits the limit is read, in every context, as the value it denotes -/
theorem form_is_read (opts : Opts) (hreg : opts.registry = none) (k : Nat) (a : Val) (tok rest : Bytes)
    (h : Form k a tok rest) (d : Nat) (hd : d + k ≤ Edn.Generated.Tables.maxNestingDepth) (dm : Bool) (cl : List Call) (f : Nat)
    (hf : 2 * (tok.length + rest.length) + 2 ≤ f) :
    ∃ v, readValue { cfg := Cfg.core, opts := opts } f d dm { rest := tok ++ rest, calls := cl }
          = .ok v { rest := rest, calls := cl } ∧ strip v = a :=
  form_reads opts hreg h d hd dm cl f hf

/-- the single-byte character literals of the core configuration (`CharTok.single`): every byte
    but tab, line feed, carriage return and space -/
theorem validSingleChar_core (c : UInt8) :
    isValidSingleChar Cfg.core c = true ↔ (c ≠ 0x09 ∧ c ≠ 0x0A ∧ c ≠ 0x0D ∧ c ≠ 0x20) := by
  have h := forall_u8_bool
    (fun c => isValidSingleChar Cfg.core c == !(c == 0x09 || c == 0x0A || c == 0x0D || c == 0x20)) (by decide +kernel) c
  simp only [beq_iff_eq] at h
  rw [h]
  simp [and_assoc]

/-- top level, both directions: `edn_read` (core configuration, no registry) returns a tree with
    content `a` exactly when the input starts with a form of the liberal grammar that denotes `a`
    and whose nesting is within the limit -/
theorem read_core_iff (opts : Opts) (hreg : opts.registry = none) (input : Bytes) (a : Val) :
    (∃ v, (read Cfg.core opts input).out = .value v ∧ strip v = a) ↔
    ∃ k tok rest, k ≤ Edn.Generated.Tables.maxNestingDepth ∧ input = tok ++ rest ∧ Form k a tok rest := by
  constructor
  · rintro ⟨v, h, rfl⟩
    unfold Edn.Model.read at h
    simp only [] at h
    cases hr : readValue { cfg := Cfg.core, opts := opts } (readFuel input) 0 false { rest := input } with
    | ok v' st =>
      rw [hr] at h
      simp only [Outcome.value.injEq] at h
      subst h
      obtain ⟨k, tok, hk, h1, -, h2⟩ := readValue_core_sound_fits opts hreg _ 0 false _ st v' (Nat.zero_le _) hr
      exact ⟨k, tok, st.rest, by omega, h1, h2⟩
    | closer st =>
      rw [hr] at h
      simp only [] at h
      cases h
    | err e st =>
      rw [hr] at h
      simp only [] at h
      repeat' split at h
      all_goals cases h
  · rintro ⟨k, tok, rest, hk, rfl, h⟩
    obtain ⟨v, hv, hs⟩ := form_is_read opts hreg k a tok rest h 0 (by omega) false [] (readFuel (tok ++ rest))
      (by simp only [readFuel, List.length_append]; omega)
    refine ⟨v, ?_, hs⟩
    unfold Edn.Model.read
    simp only []
    rw [hv]

end Edn.Proofs
