/-
  Edn.Proofs.RejectDoc — C10 for whole documents (core configuration, no reader registry): which
  error *class* `edn_read` reports for a malformed document, stated on the bytes of the input.

  The declarative vocabulary (`RejectDocAux1/4/5`):
    `Forms k n body after`   n complete forms of `Edn.Spec.Form` one after the other
    `Trail k tr after`       (of the grammar) blanks, comments and discarded forms
    `Desc s c 0 false pre d dm`  `pre` is a well-formed *open context*: blanks, discarded forms,
                             open tags / discard markers and (if `c`) open collections with
                             complete forms in them; after it a form is expected at depth `d`
    `EofSite s`              only blanks / comments (or those and a lone `#`) are left
    `TopTrivia s`            the inputs that hold no form at all
  The central lemma is `first_defect_decides` (`doc_err`): the error raised right after a
  well-formed open context is the error of the document.  Positions are reported as `posOf input
  offset` (offset, line and column as `edn_read` computes them).
-/
import Edn.Proofs.RejectDocAux8
import Edn.Proofs.RejectDocAux9

namespace Edn.Proofs.RejectDoc
open Edn.Model Edn.Spec Edn.Generated Edn.Proofs Edn.Proofs.Cmpl Edn.Proofs.RejectDoc.Ex

/-! ## (a) the end of the input where a top-level form is expected -/

/-- model level: the top-level `readValue` flags "end of input between forms" exactly on the
    inputs that hold no form at all -/
theorem eofTop_iff (opts : Opts) (hreg : opts.registry = none) (input : Bytes) :
    (∃ e st, readValue (cctx opts) (readFuel input) 0 false { rest := input } = .err e st ∧ e.eofTop = true) ↔
      TopTrivia input := by
  constructor
  · rintro ⟨e, st, h, ht⟩
    exact (eofTop_inv opts hreg _ 0 false _ st e h ht).2
  · intro h
    exact ⟨eofE 0, _, topTrivia_site opts hreg h false [] (readFuel input) (by simp only [readFuel]; omega), rfl⟩

/-- whenever `edn_read` answers with the caller's end-of-input value, the caller supplied one and
    the input holds no form -/
theorem eofValue_inv (opts : Opts) (hreg : opts.registry = none) (input : Bytes)
    (h : (read Cfg.core opts input).out = .eofValue) : opts.eofValue = true ∧ TopTrivia input := by
  unfold Edn.Model.read at h
  simp only [] at h
  cases hr : readValue { cfg := Cfg.core, opts := opts } (readFuel input) 0 false { rest := input } with
  | ok v st => rw [hr] at h; cases h
  | closer st => rw [hr] at h; cases h
  | err e st =>
    rw [hr] at h
    simp only [] at h
    split at h
    · cases h
    · split at h
      · rename_i hq
        simp only [Bool.and_eq_true] at hq
        exact ⟨hq.2, (eofTop_inv opts hreg _ 0 false _ st e hr hq.1.2).2⟩
      · cases h

/-- **(a)** with an end-of-input value supplied: `edn_read` returns it **iff** the input consists
    of blanks, comments (the last one possibly unclosed) and complete discarded forms only -/
theorem eof_iff_trivia_only (opts : Opts) (hreg : opts.registry = none) (hev : opts.eofValue = true) (input : Bytes) :
    (read Cfg.core opts input).out = .eofValue ↔ TopTrivia input := by
  constructor
  · intro h; exact (eofValue_inv opts hreg input h).2
  · intro h
    apply read_of_site_eofValue opts input (eofE 0) [] (topTrivia_site opts hreg h false) rfl
    rw [hev]; rfl

/-- … and without one: UNEXPECTED_EOF at the end of the input (nothing is accepted) -/
theorem trivia_only_eof_error (opts : Opts) (hreg : opts.registry = none) (hev : opts.eofValue = false) (input : Bytes)
    (h : TopTrivia input) :
    (read Cfg.core opts input).out = .error .unexpectedEof (posOf input input.length) (posOf input input.length) := by
  have := read_of_site opts input (eofE 0) [] (topTrivia_site opts hreg h false) rfl (by rw [hev]; rfl)
  simpa [eofE] using this

/-- non-vacuity: `#_1 ;c` (a discarded form, a blank, an unclosed comment) holds no form -/
example : TopTrivia [0x23, 0x5F, 0x31, 0x20, 0x3B, 0x63] := by
  obtain ⟨a, h⟩ := form_digit 0 0x31 (by decide) [0x20, 0x3B, 0x63] (term_sp _)
  exact .discard [] [0x31] [0x20, 0x3B, 0x63] 0 a .nil (by decide) h
    (.eof _ (.ws 0x20 _ (by decide +kernel) (.unclosed [0x63] (by decide))))

/-! ## (1) nothing outside the grammar is accepted -/

/-- **(1)** an input no prefix of which is a form of `Edn.Spec.Form` within the nesting limit is
    rejected: the result is an error with a code other than OK, or - only when the caller supplied
    an end-of-input value and the input holds no form at all - that value.  Never a tree. -/
theorem core_not_in_grammar_rejected (opts : Opts) (hreg : opts.registry = none) (input : Bytes)
    (hnot : ¬ ∃ k a tok rest, k ≤ Tables.maxNestingDepth ∧ input = tok ++ rest ∧ Form k a tok rest) :
    (∃ code es ee, (read Cfg.core opts input).out = .error code es ee ∧ code ≠ .ok) ∨
    ((read Cfg.core opts input).out = .eofValue ∧ opts.eofValue = true ∧ TopTrivia input) := by
  have hx := read_value_xor_error Cfg.core opts input
  cases ho : (read Cfg.core opts input).out with
  | value v =>
    obtain ⟨k, tok, rest, hk, h1, h2⟩ := (read_core_iff opts hreg input (strip v)).1 ⟨v, ho, rfl⟩
    exact absurd ⟨k, _, tok, rest, hk, h1, h2⟩ hnot
  | eofValue =>
    obtain ⟨h1, h2⟩ := eofValue_inv opts hreg input ho
    exact .inr ⟨rfl, h1, h2⟩
  | error code es ee =>
    rw [ho] at hx
    exact .inl ⟨code, es, ee, rfl, hx⟩
  | fuelOut => rw [ho] at hx; exact hx.elim

/-- non-vacuity: no prefix of `)` is a form (the reader rejects it, so by completeness there is none) -/
example : ¬ ∃ k a tok rest, k ≤ Tables.maxNestingDepth ∧ [0x29] = tok ++ rest ∧ Form k a tok rest := by
  rintro ⟨k, a, tok, rest, hk, e, h⟩
  obtain ⟨v, hv, -⟩ := (read_core_iff {} rfl [0x29] a).2 ⟨k, tok, rest, hk, e, h⟩
  have hb : (match (read Cfg.core {} [0x29]).out with | .value _ => false | _ => true) = true := by decide +kernel
  rw [hv] at hb
  cases hb

/-! ## the general pattern -/

/-- **The first defect decides the class.**  If `pre` is a well-formed open context and the reader,
    expecting a form after it, fails on `s` with `e` (any error through a flat context; any error
    but UNEXPECTED_EOF when collections are open), then `edn_read (pre ++ s)` reports `e`'s
    code and range. -/
theorem first_defect_decides (opts : Opts) (hreg : opts.registry = none) {s : Bytes} {c : Bool} {pre : Bytes} {d : Nat} {dm : Bool}
    (h : Desc s c 0 false pre d dm) (e : ErrInfo) (r : Bytes)
    (hs : SiteErr opts d dm s e r) (hc : c = false ∨ e.code ≠ .unexpectedEof) (hf : e.fuelOut = false)
    (hn : (e.code == .unexpectedEof && e.eofTop && opts.eofValue) = false) :
    (read Cfg.core opts (pre ++ s)).out =
      .error e.code (posOf (pre ++ s) ((pre ++ s).length - e.es.getD r.length))
        (posOf (pre ++ s) ((pre ++ s).length - e.ee.getD r.length)) :=
  doc_err opts hreg h e r hs hc hf hn

theorem len_sub_cancel (pre x : Bytes) : (pre ++ x).length - x.length = pre.length := by
  rw [List.length_append]; omega

/-! ## (c) a stray closing delimiter -/

/-- **(c)** blanks, comments and discarded forms followed by a closing delimiter at top level:
    UNMATCHED_DELIMITER at that delimiter -/
theorem stray_closer_doc (opts : Opts) (hreg : opts.registry = none) (k : Nat) (tr : Bytes) (c : UInt8) (rest : Bytes)
    (hk : k ≤ Tables.maxNestingDepth) (ht : Trail k tr (c :: rest)) (hc : IsCloser c) :
    (read Cfg.core opts (tr ++ c :: rest)).out =
      .error .unmatchedDelimiter (posOf (tr ++ c :: rest) tr.length) (posOf (tr ++ c :: rest) tr.length) := by
  have := doc_err opts hreg (trail_desc ht 0 false (by omega)) _ _ (site_closer_top opts false c rest hc)
    (Or.inl rfl) rfl rfl
  simpa only [mkErr, Option.getD_none, len_sub_cancel] using this

/-- non-vacuity: ` ;c⏎)` -/
example : (read Cfg.core {} [0x20, 0x3B, 0x63, 0x0A, 0x29]).out =
    .error .unmatchedDelimiter (posOf [0x20, 0x3B, 0x63, 0x0A, 0x29] 4) (posOf [0x20, 0x3B, 0x63, 0x0A, 0x29] 4) :=
  stray_closer_doc {} rfl 0 [0x20, 0x3B, 0x63, 0x0A] 0x29 [] (by decide)
    (.blank 0 _ _ (.ws 0x20 _ (by decide +kernel) (.comment [0x63] [] (by decide) .nil))) (.inl rfl)

/-! ## (b) the input ends inside a collection -/

/-- **(b)** `pre` is any well-formed open context; then an opening delimiter, `n` complete forms,
    and - through open tags and discard markers only - the end of the input:
    UNTERMINATED_COLLECTION from the opening delimiter of this *innermost* open collection to the
    end of the input -/
theorem unterminated_collection (opts : Opts) (hreg : opts.registry = none) {c0 : Bool} {pre : Bytes} {d : Nat} {dm : Bool}
    (kind k n : Nat) (body pre2 s2 : Bytes) (d2 : Nat) (dm2 : Bool)
    (hctx : Desc (opener kind ++ (body ++ (pre2 ++ s2))) c0 0 false pre d dm)
    (hd : d + 1 + k ≤ Tables.maxNestingDepth) (hb : Forms k n body (pre2 ++ s2))
    (hflat : Desc s2 false (d + 1) dm pre2 d2 dm2) (hs : EofSite s2) :
    (read Cfg.core opts (pre ++ (opener kind ++ (body ++ (pre2 ++ s2))))).out =
      .error .unterminatedCollection (posOf (pre ++ (opener kind ++ (body ++ (pre2 ++ s2)))) pre.length)
        (posOf (pre ++ (opener kind ++ (body ++ (pre2 ++ s2)))) (pre ++ (opener kind ++ (body ++ (pre2 ++ s2)))).length) := by
  have := doc_err opts hreg hctx _ _ (frame_eof opts hreg d dm kind k n body pre2 s2 d2 dm2 hd hb hflat hs)
    (Or.inr (by intro h; cases h)) rfl rfl
  simpa only [mkErr, Option.getD_some, len_sub_cancel, Nat.sub_zero] using this

/-- non-vacuity: `[1 2` -/
example : (read Cfg.core {} [0x5B, 0x31, 0x20, 0x32]).out =
    .error .unterminatedCollection (posOf [0x5B, 0x31, 0x20, 0x32] 0) (posOf [0x5B, 0x31, 0x20, 0x32] 4) :=
  unterminated_collection {} rfl (pre := []) 1 0 2 [0x31, 0x20, 0x32] [] [] 1 false (.here false 0 false) (by decide)
    (forms_1_2 0 [] (Or.inl rfl)) (.here false 1 false) (.blank [] rfl)

/-- `[1 (2 3`: the innermost open collection, the list at offset 3, is the one reported -/
example : (read Cfg.core {} [0x5B, 0x31, 0x20, 0x28, 0x32, 0x20, 0x33]).out =
    .error .unterminatedCollection (posOf [0x5B, 0x31, 0x20, 0x28, 0x32, 0x20, 0x33] 3)
      (posOf [0x5B, 0x31, 0x20, 0x28, 0x32, 0x20, 0x33] 7) := by
  obtain ⟨a2, h2⟩ := form_digit 0 0x32 (by decide) ([0x20, 0x33] ++ []) (term_sp _)
  obtain ⟨a3, h3⟩ := form_sp_digit 0 0x33 (by decide) [] (Or.inl rfl)
  exact unterminated_collection {} rfl 0 0 2 [0x32, 0x20, 0x33] [] [] 2 false (ctx_vec_1 _) (by decide)
    (forms_two h2 h3) (.here false 2 false) (.blank [] rfl)

/-! ## (d) a collection closed by the wrong delimiter -/

/-- **(d)** a list, vector or set (`kind` 0, 1, 2) holding complete forms, closed by a closing
    delimiter of another kind: UNMATCHED_DELIMITER from the opening delimiter to just after the
    closing one -/
theorem mismatched_closer (opts : Opts) (hreg : opts.registry = none) {c0 : Bool} {pre : Bytes} {d : Nat} {dm : Bool}
    (kind k n : Nat) (body tr : Bytes) (c : UInt8) (rest : Bytes)
    (hctx : Desc (opener kind ++ (body ++ (tr ++ c :: rest))) c0 0 false pre d dm) (hkind : kind < 3)
    (hd : d + 1 + k ≤ Tables.maxNestingDepth) (hb : Forms k n body (tr ++ c :: rest))
    (ht : Trail k tr (c :: rest)) (hc : IsCloser c) (hne : c ≠ closerByte kind) :
    (read Cfg.core opts (pre ++ (opener kind ++ (body ++ (tr ++ c :: rest))))).out =
      .error .unmatchedDelimiter (posOf (pre ++ (opener kind ++ (body ++ (tr ++ c :: rest)))) pre.length)
        (posOf (pre ++ (opener kind ++ (body ++ (tr ++ c :: rest))))
          ((pre ++ (opener kind ++ (body ++ (tr ++ c :: rest)))).length - rest.length)) := by
  have := doc_err opts hreg hctx _ _ (frame_mismatch_seq opts hreg d dm kind k n body tr c rest hkind hd hb ht hc hne)
    (Or.inr (by intro h; cases h)) rfl rfl
  simpa only [mkErr, Option.getD_some, len_sub_cancel] using this

/-- non-vacuity: `[1 2)` -/
example : (read Cfg.core {} [0x5B, 0x31, 0x20, 0x32, 0x29]).out =
    .error .unmatchedDelimiter (posOf [0x5B, 0x31, 0x20, 0x32, 0x29] 0) (posOf [0x5B, 0x31, 0x20, 0x32, 0x29] 5) :=
  mismatched_closer {} rfl (pre := []) 1 0 2 [0x31, 0x20, 0x32] [] 0x29 [] (.here false 0 false) (by decide) (by decide)
    (forms_1_2 0 [0x29] (term_closer (.inl rfl) _)) (.blank 0 [] _ .nil) (.inl rfl) (by decide)

/-- … a map holding an even number of forms, closed by `)` or `]` -/
theorem mismatched_closer_map (opts : Opts) (hreg : opts.registry = none) {c0 : Bool} {pre : Bytes} {d : Nat} {dm : Bool}
    (k m : Nat) (body tr : Bytes) (c : UInt8) (rest : Bytes)
    (hctx : Desc (opener 3 ++ (body ++ (tr ++ c :: rest))) c0 0 false pre d dm)
    (hd : d + 1 + k ≤ Tables.maxNestingDepth) (hb : Forms k (2 * m) body (tr ++ c :: rest))
    (ht : Trail k tr (c :: rest)) (hc : IsCloser c) (hne : c ≠ 0x7D) :
    (read Cfg.core opts (pre ++ (opener 3 ++ (body ++ (tr ++ c :: rest))))).out =
      .error .unmatchedDelimiter (posOf (pre ++ (opener 3 ++ (body ++ (tr ++ c :: rest)))) pre.length)
        (posOf (pre ++ (opener 3 ++ (body ++ (tr ++ c :: rest))))
          ((pre ++ (opener 3 ++ (body ++ (tr ++ c :: rest)))).length - rest.length)) := by
  have := doc_err opts hreg hctx _ _ (frame_mismatch_map opts hreg d dm 3 k m body tr c rest (Nat.le_refl _) hd hb ht hc hne)
    (Or.inr (by intro h; cases h)) rfl rfl
  simpa only [mkErr, Option.getD_some, len_sub_cancel] using this

/-- non-vacuity: `{1 2]` -/
example : (read Cfg.core {} [0x7B, 0x31, 0x20, 0x32, 0x5D]).out =
    .error .unmatchedDelimiter (posOf [0x7B, 0x31, 0x20, 0x32, 0x5D] 0) (posOf [0x7B, 0x31, 0x20, 0x32, 0x5D] 5) :=
  mismatched_closer_map {} rfl (pre := []) 0 1 [0x31, 0x20, 0x32] [] 0x5D [] (.here false 0 false) (by decide)
    (forms_1_2 0 [0x5D] (term_closer (.inr (.inl rfl)) _)) (.blank 0 [] _ .nil) (.inr (.inl rfl)) (by decide)

/-! ## (e) a map with an odd number of forms -/

/-- **(e)** `{`, an odd number of complete forms, and any closing delimiter: INVALID_SYNTAX from
    the opening brace to the closing delimiter -/
theorem odd_map_doc (opts : Opts) (hreg : opts.registry = none) {c0 : Bool} {pre : Bytes} {d : Nat} {dm : Bool}
    (k m : Nat) (body tr : Bytes) (c : UInt8) (rest : Bytes)
    (hctx : Desc (opener 3 ++ (body ++ (tr ++ c :: rest))) c0 0 false pre d dm)
    (hd : d + 1 + k ≤ Tables.maxNestingDepth) (hb : Forms k (2 * m + 1) body (tr ++ c :: rest))
    (ht : Trail k tr (c :: rest)) (hc : IsCloser c) :
    (read Cfg.core opts (pre ++ (opener 3 ++ (body ++ (tr ++ c :: rest))))).out =
      .error .invalidSyntax (posOf (pre ++ (opener 3 ++ (body ++ (tr ++ c :: rest)))) pre.length)
        (posOf (pre ++ (opener 3 ++ (body ++ (tr ++ c :: rest))))
          ((pre ++ (opener 3 ++ (body ++ (tr ++ c :: rest)))).length - (rest.length + 1))) := by
  have := doc_err opts hreg hctx _ _ (frame_odd_map opts hreg d dm 3 k m body tr c rest (Nat.le_refl _) hd hb ht hc)
    (Or.inr (by intro h; cases h)) rfl rfl
  simpa only [mkErr, Option.getD_some, len_sub_cancel] using this

/-- non-vacuity: `{1}` -/
example : (read Cfg.core {} [0x7B, 0x31, 0x7D]).out =
    .error .invalidSyntax (posOf [0x7B, 0x31, 0x7D] 0) (posOf [0x7B, 0x31, 0x7D] 2) := by
  obtain ⟨a, h1⟩ := form_digit 0 0x31 (by decide) [0x7D] (term_closer (.inr (.inr rfl)) _)
  exact odd_map_doc {} rfl (pre := []) 0 0 [0x31] [] 0x7D [] (.here false 0 false) (by decide) (forms_one h1)
    (.blank 0 [] _ .nil) (.inr (.inr rfl))

/-! ## (f) a tag or a discard marker with nothing to apply to -/

/-- **(f)** `#tag` followed (after blanks and discarded forms) by a closing delimiter:
    INVALID_SYNTAX from the `#` to the closing delimiter -/
theorem orphan_tag_closer (opts : Opts) (hreg : opts.registry = none) {c0 : Bool} {pre : Bytes} {d : Nat} {dm : Bool}
    (tg : Bytes) (ns : Option Bytes) (nm : Bytes) (k : Nat) (tr : Bytes) (c : UInt8) (rest : Bytes)
    (hctx : Desc (0x23 :: (tg ++ (tr ++ c :: rest))) c0 0 false pre d dm)
    (hd : d + 1 + k ≤ Tables.maxNestingDepth) (hl : IdentLex tg) (hden : IdentDenotes tg (.sym hdr0 none ns nm))
    (hu : tg.head? ≠ some 0x5F) (ht : Trail k tr (c :: rest)) (hc : IsCloser c) :
    (read Cfg.core opts (pre ++ 0x23 :: (tg ++ (tr ++ c :: rest)))).out =
      .error .invalidSyntax (posOf (pre ++ 0x23 :: (tg ++ (tr ++ c :: rest))) pre.length)
        (posOf (pre ++ 0x23 :: (tg ++ (tr ++ c :: rest)))
          ((pre ++ 0x23 :: (tg ++ (tr ++ c :: rest))).length - (rest.length + 1))) := by
  have := doc_err opts hreg hctx _ _ (frame_tag_closer opts hreg d dm tg ns nm k tr c rest hd hl hden hu ht hc)
    (Or.inr (by intro h; cases h)) rfl rfl
  have e1 : (tg ++ (tr ++ c :: rest)).length + 1 = (0x23 :: (tg ++ (tr ++ c :: rest))).length := rfl
  simpa only [mkErr, Option.getD_some, e1, len_sub_cancel] using this

/-- non-vacuity: `[#foo]` -/
example : (read Cfg.core {} [0x5B, 0x23, 0x66, 0x6F, 0x6F, 0x5D]).out =
    .error .invalidSyntax (posOf [0x5B, 0x23, 0x66, 0x6F, 0x6F, 0x5D] 1) (posOf [0x5B, 0x23, 0x66, 0x6F, 0x6F, 0x5D] 5) :=
  orphan_tag_closer {} rfl [0x66, 0x6F, 0x6F] none [0x66, 0x6F, 0x6F] 0 [] 0x5D [] (ctx_vec _) (by decide) foo_lex foo_den
    (by decide) (.blank 0 [] _ .nil) (.inr (.inl rfl))

/-- `#_` followed (after blanks and discarded forms) by a closing delimiter: INVALID_DISCARD on the
    two bytes of the marker -/
theorem orphan_discard_closer (opts : Opts) (hreg : opts.registry = none) {c0 : Bool} {pre : Bytes} {d : Nat} {dm : Bool}
    (k : Nat) (tr : Bytes) (c : UInt8) (rest : Bytes)
    (hctx : Desc (0x23 :: 0x5F :: (tr ++ c :: rest)) c0 0 false pre d dm)
    (hd : d + 1 + k ≤ Tables.maxNestingDepth) (ht : Trail k tr (c :: rest)) (hc : IsCloser c) :
    (read Cfg.core opts (pre ++ 0x23 :: 0x5F :: (tr ++ c :: rest))).out =
      .error .invalidDiscard (posOf (pre ++ 0x23 :: 0x5F :: (tr ++ c :: rest)) pre.length)
        (posOf (pre ++ 0x23 :: 0x5F :: (tr ++ c :: rest)) (pre.length + 2)) := by
  have := doc_err opts hreg hctx _ _ (frame_discard_closer opts hreg d dm k tr c rest hd ht hc)
    (Or.inr (by intro h; cases h)) rfl rfl
  have e1 : (tr ++ c :: rest).length + 2 = (0x23 :: 0x5F :: (tr ++ c :: rest)).length := rfl
  have e2 : (pre ++ 0x23 :: 0x5F :: (tr ++ c :: rest)).length - (tr ++ c :: rest).length = pre.length + 2 := by
    simp only [List.length_append, List.length_cons]; omega
  simpa only [mkErr, Option.getD_some, e1, e2, len_sub_cancel] using this

/-- non-vacuity: `[#_]` -/
example : (read Cfg.core {} [0x5B, 0x23, 0x5F, 0x5D]).out =
    .error .invalidDiscard (posOf [0x5B, 0x23, 0x5F, 0x5D] 1) (posOf [0x5B, 0x23, 0x5F, 0x5D] 3) :=
  orphan_discard_closer {} rfl 0 [] 0x5D [] (ctx_vec _) (by decide) (.blank 0 [] _ .nil) (.inr (.inl rfl))

/-- a tag or a discard marker (outside every collection) whose form never comes - the input ends
    after open tags / discard markers, or with a lone `#`: UNEXPECTED_EOF at the end of the input,
    an error even when the caller supplied an end-of-input value -/
theorem orphan_at_eof (opts : Opts) (hreg : opts.registry = none) {pre s : Bytes} {d : Nat} {dm : Bool}
    (hctx : Desc s false 0 false pre d dm) (hs : EofSite s) (hopen : 0 < d ∨ skipWsScalar s ≠ []) :
    ∃ es ee, (read Cfg.core opts (pre ++ s)).out = .error .unexpectedEof es ee ∧
      (pre ++ s).length - 1 ≤ es.offset ∧ ee.offset = (pre ++ s).length := by
  obtain ⟨e, h1, h2, h3, h4, h5⟩ := hs.err opts d dm
  have ht : e.eofTop = false := by
    cases hq : e.eofTop with
    | false => rfl
    | true =>
      obtain ⟨h6, h7⟩ := h4 hq
      rcases hopen with h | h
      · omega
      · exact absurd h7 h
  have := doc_err opts hreg hctx e [] h1 (Or.inl rfl) h3 (by rw [ht]; simp)
  rw [h2] at this
  obtain ⟨h6, h7⟩ := h5 ht
  refine ⟨_, _, this, ?_, ?_⟩
  · simp only [posOf_offset, List.length_nil]; omega
  · simp only [posOf_offset, List.length_nil, h7, Nat.sub_zero]

/-- non-vacuity: `#foo #_` is an error even with an end-of-input value -/
example : ∃ es ee, (read Cfg.core { eofValue := true } [0x23, 0x66, 0x6F, 0x6F, 0x20, 0x23, 0x5F]).out = .error .unexpectedEof es ee ∧
    7 - 1 ≤ es.offset ∧ ee.offset = 7 := by
  have hctx : Desc [] false 0 false (0x23 :: ([0x66, 0x6F, 0x6F] ++ ([0x20] ++ [0x23, 0x5F]))) 2 true :=
    .tag false 0 false _ none _ _ 2 true (by decide) foo_lex foo_den (by decide) (Or.inr ⟨0x20, _, rfl, by decide +kernel⟩)
      (.blank false 1 false [0x20] _ 2 true (.ws 0x20 [] (by decide +kernel) .nil)
        (.discard false 1 false [] 2 true (by decide) (.here false 2 true)))
  exact orphan_at_eof { eofValue := true } rfl hctx (.blank [] rfl) (.inl (by decide))

/-! ## (g) an invalid token where a form is expected -/

/-- **(g)** after a well-formed open context, a maximal run of non-delimiter bytes that does not
    start like a number and is not a well-formed identifier token: INVALID_SYNTAX reported from the
    token's first byte ("the first defect decides the class") -/
theorem bad_identifier_token (opts : Opts) (hreg : opts.registry = none) {c0 : Bool} {pre : Bytes} {d : Nat} {dm : Bool}
    (tok rest : Bytes) (hctx : Desc (tok ++ rest) c0 0 false pre d dm)
    (hne : tok ≠ []) (hnd : ∀ c ∈ tok, isDelim c = false) (hs : IdentStart tok) (hr : DelimStart rest)
    (hbad : ¬ (IdentLex tok ∧ ∃ a, IdentDenotes tok a)) :
    ∃ ee, (read Cfg.core opts (pre ++ (tok ++ rest))).out =
      .error .invalidSyntax (posOf (pre ++ (tok ++ rest)) pre.length) ee := by
  obtain ⟨e, r, h, h1, h2, h3⟩ := site_bad_identifier opts d dm tok rest hne hnd hs hr hbad
  have := doc_err opts hreg hctx e r h (Or.inr (by rw [h1]; decide)) h3 (by rw [h1]; rfl)
  rw [h1, h2] at this
  exact ⟨_, by simpa only [Option.getD_some, len_sub_cancel] using this⟩

/-- non-vacuity: `a::b` -/
example : ∃ ee, (read Cfg.core {} [0x61, 0x3A, 0x3A, 0x62]).out = .error .invalidSyntax (posOf [0x61, 0x3A, 0x3A, 0x62] 0) ee :=
  bad_identifier_token {} rfl (pre := []) [0x61, 0x3A, 0x3A, 0x62] [] (.here false 0 false) (by simp) (by decide +kernel)
    (by intro c t e; simp only [List.cons.injEq] at e; obtain ⟨rfl, rfl⟩ := e; exact ⟨by decide, by intro h; rcases h with h | h <;> cases h⟩)
    (Or.inl rfl) (fun h => h.1.2.2 (by decide))

/-- … a text that starts like a number (a digit, or a sign and a digit) no prefix of which is a
    number token of the core grammar followed by a terminator: INVALID_NUMBER from its first byte -/
theorem bad_number_token (opts : Opts) (hreg : opts.registry = none) {c0 : Bool} {pre : Bytes} {d : Nat} {dm : Bool}
    (s : Bytes) (hctx : Desc s c0 0 false pre d dm)
    (hstart : ∃ c t, s = c :: t ∧ (is09 c = true ∨ ((c = 0x2B ∨ c = 0x2D) ∧ ∃ nx t', t = nx :: t' ∧ is09 nx = true)))
    (hnot : ¬ ∃ tok rest v, s = tok ++ rest ∧ CoreNum Cfg.core tok v ∧ TermStart rest) :
    ∃ ee, (read Cfg.core opts (pre ++ s)).out = .error .invalidNumber (posOf (pre ++ s) pre.length) ee := by
  obtain ⟨cur, h⟩ := site_bad_number opts d dm s hstart hnot
  have := doc_err opts hreg hctx _ _ h (Or.inr (by intro h; cases h)) rfl rfl
  exact ⟨_, by simpa only [mkErr, Option.getD_some, len_sub_cancel] using this⟩

/-- non-vacuity: `[1 1x]` - the first defect, the token `1x` at offset 3, decides the class -/
example : ∃ ee, (read Cfg.core {} [0x5B, 0x31, 0x20, 0x31, 0x78, 0x5D]).out =
    .error .invalidNumber (posOf [0x5B, 0x31, 0x20, 0x31, 0x78, 0x5D] 3) ee := by
  refine bad_number_token {} rfl [0x31, 0x78, 0x5D] (ctx_vec_1 _) ⟨0x31, _, rfl, .inl (by decide)⟩ ?_
  rintro ⟨tok, rest, v, e, hn, ht⟩
  have h := readNumber_core_complete tok rest v hn ht
  rw [← e] at h
  have hb : (match readNumber Cfg.core [0x31, 0x78, 0x5D] with | .err _ => true | .ok _ _ => false) = true := by decide +kernel
  rw [h] at hb
  cases hb

/-- … `"` with no closing quote behind it (a quote not preceded by a backslash unit):
    INVALID_STRING from the opening quote to the end of the input -/
theorem unterminated_string (opts : Opts) (hreg : opts.registry = none) {c0 : Bool} {pre : Bytes} {d : Nat} {dm : Bool}
    (cs : Bytes) (hctx : Desc (0x22 :: cs) c0 0 false pre d dm)
    (hnot : ¬ ∃ sp rest, cs = sp ++ 0x22 :: rest ∧ RawStr sp) :
    (read Cfg.core opts (pre ++ 0x22 :: cs)).out =
      .error .invalidString (posOf (pre ++ 0x22 :: cs) pre.length) (posOf (pre ++ 0x22 :: cs) (pre ++ 0x22 :: cs).length) := by
  have := doc_err opts hreg hctx _ _ (site_unterminated_string opts d dm cs hnot) (Or.inr (by intro h; cases h)) rfl rfl
  have e1 : cs.length + 1 = (0x22 :: cs).length := rfl
  simpa only [mkErr, Option.getD_some, e1, len_sub_cancel, Nat.sub_zero] using this

/-- … `\` with no character token (followed by a delimiter or the end of the input) behind it:
    INVALID_CHARACTER reported from the backslash -/
theorem bad_character_token (opts : Opts) (hreg : opts.registry = none) {c0 : Bool} {pre : Bytes} {d : Nat} {dm : Bool}
    (cs : Bytes) (hctx : Desc (0x5C :: cs) c0 0 false pre d dm)
    (hnot : ¬ ∃ body rest cp, cs = body ++ rest ∧ CharTok body cp ∧ cp ≤ 0x10FFFF ∧ DelimStart rest) :
    ∃ ee, (read Cfg.core opts (pre ++ 0x5C :: cs)).out = .error .invalidCharacter (posOf (pre ++ 0x5C :: cs) pre.length) ee := by
  obtain ⟨e, h, h1, h2, h3⟩ := site_bad_character opts d dm cs hnot
  have := doc_err opts hreg hctx e _ h (Or.inr (by rw [h1]; decide)) h3 (by rw [h1]; rfl)
  rw [h1, h2] at this
  have e1 : cs.length + 1 = (0x5C :: cs).length := rfl
  exact ⟨_, by simpa only [Option.getD_some, e1, len_sub_cancel] using this⟩

/-- non-vacuity: `[1 "ab` -/
example : (read Cfg.core {} [0x5B, 0x31, 0x20, 0x22, 0x61, 0x62]).out =
    .error .invalidString (posOf [0x5B, 0x31, 0x20, 0x22, 0x61, 0x62] 3) (posOf [0x5B, 0x31, 0x20, 0x22, 0x61, 0x62] 6) := by
  refine unterminated_string {} rfl [0x61, 0x62] (ctx_vec_1 _) ?_
  rintro ⟨sp, rest, e, -⟩
  have : (0x22 : UInt8) ∈ [0x61, 0x62] := by rw [e]; simp
  revert this; decide

/-- non-vacuity: `[1 \` and the end of the input -/
example : ∃ ee, (read Cfg.core {} [0x5B, 0x31, 0x20, 0x5C]).out =
    .error .invalidCharacter (posOf [0x5B, 0x31, 0x20, 0x5C] 3) ee := by
  refine bad_character_token {} rfl [] (ctx_vec_1 _) ?_
  rintro ⟨body, rest, cp, e, h, -, -⟩
  have := Snd.charTok_append_isEmpty body rest cp h
  rw [← e] at this
  cases this

end Edn.Proofs.RejectDoc
