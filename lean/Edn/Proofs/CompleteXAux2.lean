/-
  Edn.Proofs.CompleteXAux2 — the converse direction in every configuration, structure: trails,
  collection bodies, lists, vectors, sets, map bodies with an optional namespace, maps, tagged
  elements.
-/
import Edn.Proofs.CompleteXAux1
import Edn.Proofs.SoundXAux6

namespace Edn.Proofs.CmplX
open Edn.Model Edn.Spec Edn.Generated Edn.Proofs Edn.Proofs.Cmpl Edn.Proofs.SndX

/-! ### trails and collection bodies -/

/-- blanks and discarded forms up to a closing delimiter: `readValue` (one level below the
    collection) reports the closing delimiter -/
def TrailRX (cfg : Cfg) (opts : Opts) (d : Nat) (tr after : Bytes) : Prop :=
  ∀ (dm : Bool) (cl : List Call) (f : Nat), 2 * (tr ++ after).length + 2 ≤ f →
    readValue { cfg := cfg, opts := opts } f (d + 1) dm { rest := tr ++ after, calls := cl } =
      .closer { rest := after, calls := cl }

/-- the forms of a collection body are read one after the other -/
def SeqRX (cfg : Cfg) (opts : Opts) (d : Nat) (xs : List Val) (body after : Bytes) : Prop :=
  ∀ (dm : Bool) (cl : List Call), ∃ ws, stripML ws = xs ∧
    ReadsSeq { cfg := cfg, opts := opts } d dm { rest := body ++ after, calls := cl } ws { rest := after, calls := cl }

theorem trailRX_blank (cfg : Cfg) (opts : Opts) (d : Nat) (tr : Bytes) (c : UInt8) (rest : Bytes) (ht : Blank tr) (hc : IsCloser c) :
    TrailRX cfg opts d tr (c :: rest) := by
  intro dm cl f hf
  cases f with
  | zero => omega
  | succ f =>
    rw [readValue_trivia_prefix _ f (d + 1) dm tr (c :: rest) cl (blank_toPlain ht)]
    exact readValue_closer _ f d dm c rest cl hc

theorem trailRX_discard (cfg : Cfg) (opts : Opts) (d : Nat) (b : Val) (tr tok tr' after : Bytes)
    (hd : d + 1 < Tables.maxNestingDepth) (ht : Blank tr)
    (hdisc : ReadsX cfg opts (d + 2) b tok (tr' ++ after)) (h : TrailRX cfg opts d tr' after) :
    TrailRX cfg opts d (tr ++ 0x23 :: 0x5F :: (tok ++ tr')) after := by
  intro dm cl f hf
  simp only [List.length_cons, List.length_append] at hf
  match f, hf with
  | f + 1, hf =>
    have e : (tr ++ 0x23 :: 0x5F :: (tok ++ tr')) ++ after = tr ++ (0x23 :: 0x5F :: (tok ++ (tr' ++ after))) := by simp
    rw [e, readValue_trivia_prefix _ f (d + 1) dm tr _ cl (blank_toPlain ht)]
    obtain ⟨w, hw, -⟩ := hdisc true cl f (by simp only [List.length_append]; omega)
    rw [(discard_is_trivia { cfg := cfg, opts := opts } f (d + 1) dm tok (tr' ++ after) cl cl w hd hw).2]
    exact h dm cl f (by simp only [List.length_append]; omega)

theorem seqRX_nil (cfg : Cfg) (opts : Opts) (d : Nat) (tr after : Bytes) (h : TrailRX cfg opts d tr after) :
    SeqRX cfg opts d [] tr after := by
  intro dm cl
  exact ⟨[], stripML_nil, .done _ _ (fun f hf => h dm cl f hf)⟩

theorem seqRX_cons (cfg : Cfg) (opts : Opts) (d : Nat) (a : Val) (xs : List Val) (tok body after : Bytes)
    (h : ReadsX cfg opts (d + 1) a tok (body ++ after)) (hr : SeqRX cfg opts d xs body after) :
    SeqRX cfg opts d (a :: xs) (tok ++ body) after := by
  intro dm cl
  obtain ⟨ws, hws, h1⟩ := hr dm cl
  obtain ⟨v, hs, hv⟩ := h.uniform dm cl
  refine ⟨v :: ws, by rw [stripML_cons, hs, hws], ?_⟩
  rw [List.append_assoc]
  refine .step _ { rest := body ++ after, calls := cl } _ v ws hv ?_ h1
  show (body ++ after).length < (tok ++ (body ++ after)).length
  have : 0 < tok.length := List.length_pos_iff.mpr h.ne_nil
  rw [List.length_append (as := tok)]
  omega

/-! ### lists, vectors, sets -/

theorem readsX_list (cfg : Cfg) (opts : Opts) (d : Nat) (xs : List Val) (body rest : Bytes)
    (hd : d < Tables.maxNestingDepth) (h : SeqRX cfg opts d xs body (0x29 :: rest)) :
    ReadsX cfg opts d (.list hdr0 none xs) (0x28 :: (body ++ [0x29])) rest := by
  intro dm cl f hf
  cases f with
  | zero => omega
  | succ f =>
    obtain ⟨ws, hws, hr⟩ := h dm cl
    rw [opener_append, readValue_listOpen _ f d dm _ cl hd,
      readSeq_of_ReadsSeq 0 _ hr f [] (by
        simp only [List.length_cons, List.length_append, List.length_nil] at hf ⊢
        omega),
      closeSeq_list]
    refine ⟨_, rfl, ?_⟩
    simp only [List.append_nil, List.reverse_reverse, stripM, stripMO_none]
    rw [hws]

theorem readsX_vec (cfg : Cfg) (opts : Opts) (d : Nat) (xs : List Val) (body rest : Bytes)
    (hd : d < Tables.maxNestingDepth) (h : SeqRX cfg opts d xs body (0x5D :: rest)) :
    ReadsX cfg opts d (.vec hdr0 none xs) (0x5B :: (body ++ [0x5D])) rest := by
  intro dm cl f hf
  cases f with
  | zero => omega
  | succ f =>
    obtain ⟨ws, hws, hr⟩ := h dm cl
    rw [opener_append, readValue_vecOpen _ f d dm _ cl hd,
      readSeq_of_ReadsSeq 1 _ hr f [] (by
        simp only [List.length_cons, List.length_append, List.length_nil] at hf ⊢
        omega),
      closeSeq_vec]
    refine ⟨_, rfl, ?_⟩
    simp only [List.append_nil, List.reverse_reverse, stripM, stripMO_none]
    rw [hws]

theorem readsX_set (cfg : Cfg) (opts : Opts) (hreg : opts.registry = none) (d : Nat) (xs : List Val) (body rest : Bytes)
    (hd : d < Tables.maxNestingDepth) (h : SeqRX cfg opts d xs body (0x7D :: rest)) (hpd : pairwiseDistinct cfg xs) :
    ReadsX cfg opts d (.set hdr0 none xs) (0x23 :: 0x7B :: (body ++ [0x7D])) rest := by
  intro dm cl f hf
  cases f with
  | zero => omega
  | succ f =>
    obtain ⟨ws, hws, hr⟩ := h dm cl
    have hel : Elems cfg ws := ReadsSeq.elems (ctx := { cfg := cfg, opts := opts }) hreg (by omega) hr
    have hpw : pairwiseDistinct cfg ws := by
      rw [← pairwiseDistinct_stripML, hws]; exact hpd
    obtain ⟨h1, -, -, -, -⟩ := hasDuplicates_iff cfg ws hel
    have e : (0x23 :: 0x7B :: (body ++ [0x7D])) ++ rest = 0x23 :: 0x7B :: (body ++ 0x7D :: rest) := by simp
    rw [e, readValue_setOpen _ f d dm _ cl hd,
      readSeq_of_ReadsSeq 2 _ hr f [] (by
        simp only [List.length_cons, List.length_append, List.length_nil] at hf ⊢
        omega),
      closeSeq_set]
    simp only [List.append_nil, List.reverse_reverse]
    rw [if_neg (by rw [h1.mpr hpw]; exact Bool.false_ne_true)]
    refine ⟨_, rfl, ?_⟩
    simp only [stripM, stripMO_none]
    rw [stripML_hasDuplicates, hws]

/-! ### map bodies, with or without a namespace -/

/-- the key rewriting of `readMap` -/
def qualV (ns : Option Bytes) (k : Val) : Val :=
  match ns with
  | some n => qualifyKey n k
  | none => k

theorem qualC_stripML (ns : Option Bytes) (ks : List Val) : qualC ns (stripML ks) = stripML (ks.map (qualV ns)) := by
  cases ns with
  | none =>
    have : ∀ ks : List Val, ks.map (qualV none) = ks := by
      intro ks
      induction ks with
      | nil => rfl
      | cons k ks ih => rw [List.map_cons, ih]; rfl
    rw [this]; rfl
  | some n => exact qualifyKeysC_stripML n ks

theorem elems_qualV {cfg : Cfg} (ns : Option Bytes) {ks : List Val} (h : Elems cfg ks) : Elems cfg (ks.map (qualV ns)) := by
  intro x hx
  obtain ⟨k, hk, rfl⟩ := List.mem_map.mp hx
  have hk' := h k hk
  cases ns with
  | none => exact hk'
  | some n =>
    have hfresh : ∀ y : Val, freshLeaf y = true → depth y < maxDepthFuel ∧ WF cfg y ∧ cacheOK cfg y = true := by
      intro y hy
      have := VOK_of_freshLeaf (cfg := cfg) (d := 0) hy (Nat.zero_le _)
      refine ⟨?_, this.2.1, this.2.2⟩
      have h1 := this.1
      have := nest_le_rec
      show depth y < Tables.maxRecursionDepth + 1
      omega
    show depth (qualifyKey n k) < maxDepthFuel ∧ WF cfg (qualifyKey n k) ∧ cacheOK cfg (qualifyKey n k) = true
    unfold qualifyKey
    split
    · split
      · exact hfresh _ rfl
      · split
        · exact hfresh _ rfl
        · exact hk'
    · split
      · exact hfresh _ rfl
      · split
        · exact hfresh _ rfl
        · exact hk'
    · exact hk'

theorem readMapNs_of_ReadsSeq {ctx : Ctx} {d : Nat} {dm : Bool} {st' : St} (start : Nat) (ns : Option Bytes) :
    ∀ (ks vs : List Val), ks.length = vs.length → ∀ (st : St),
      ReadsSeq ctx d dm st (interleaveKV ks vs) st' →
      ∀ (f : Nat) (aks avs : List Val), 2 * st.rest.length + 3 ≤ f →
        readMap ctx f d dm start ns st aks avs =
          closeMap ctx start st' ((ks.map (qualV ns)).reverse ++ aks) (vs.reverse ++ avs) := by
  intro ks
  induction ks with
  | nil =>
    intro vs hl st h f aks avs hf
    cases vs with
    | cons _ _ => cases hl
    | nil =>
      cases h with
      | done _ _ h1 =>
        cases f with
        | zero => omega
        | succ f =>
          rw [readMap_succ]
          unfold rmStep
          simp only []
          rw [h1 f (by omega)]
          rfl
  | cons k ks ih =>
    intro vs hl st h f aks avs hf
    cases vs with
    | nil => cases hl
    | cons v vs =>
      have hl' : ks.length = vs.length := by simpa using hl
      have hi : interleaveKV (k :: ks) (v :: vs) = k :: v :: interleaveKV ks vs := rfl
      rw [hi] at h
      cases h with
      | step _ st1 _ _ _ h1 hlt1 hr1 =>
        cases hr1 with
        | step _ st2 _ _ _ h2 hlt2 hr2 =>
          cases f with
          | zero => omega
          | succ f =>
            rw [readMap_succ]
            unfold rmStep
            simp only []
            rw [h1 f (by omega)]
            simp only []
            rw [h2 f (by omega)]
            simp only []
            show readMap ctx f d dm start ns st2 (qualV ns k :: aks) (v :: avs) = _
            rw [ih vs hl' st2 hr2 f (qualV ns k :: aks) (v :: avs) (by omega)]
            rw [List.map_cons, List.reverse_cons, List.append_assoc, List.reverse_cons, List.append_assoc]
            rfl

/-- splitting the read forms of a map body into keys and values -/
theorem interleave_splitM : ∀ (ks vs : List Val), ks.length = vs.length → ∀ (ws : List Val),
    stripML ws = interleaveKV ks vs →
    ∃ ks' vs', ws = interleaveKV ks' vs' ∧ stripML ks' = ks ∧ stripML vs' = vs ∧ ks'.length = vs'.length := by
  intro ks
  induction ks with
  | nil =>
    intro vs hl ws h
    cases vs with
    | cons _ _ => cases hl
    | nil =>
      cases ws with
      | nil => exact ⟨[], [], rfl, stripML_nil, stripML_nil, rfl⟩
      | cons w ws => rw [stripML_cons] at h; cases h
  | cons k ks ih =>
    intro vs hl ws h
    cases vs with
    | nil => cases hl
    | cons v vs =>
      have hl' : ks.length = vs.length := by simpa using hl
      have hi : interleaveKV (k :: ks) (v :: vs) = k :: v :: interleaveKV ks vs := rfl
      rw [hi] at h
      cases ws with
      | nil => rw [stripML_nil] at h; cases h
      | cons w1 ws =>
        cases ws with
        | nil => rw [stripML_cons, stripML_nil] at h; cases h
        | cons w2 ws =>
          rw [stripML_cons, stripML_cons] at h
          injection h with e1 h
          injection h with e2 h
          obtain ⟨ks', vs', e, hk, hv, hlen⟩ := ih vs hl' ws h
          refine ⟨w1 :: ks', w2 :: vs', ?_, ?_, ?_, ?_⟩
          · rw [e]; rfl
          · rw [stripML_cons, e1, hk]
          · rw [stripML_cons, e2, hv]
          · simp [hlen]

theorem mem_interleave_left : ∀ (ks vs : List Val), ks.length = vs.length → ∀ x ∈ ks, x ∈ interleaveKV ks vs := by
  intro ks
  induction ks with
  | nil => intro vs _ x hx; cases hx
  | cons k ks ih =>
    intro vs hl x hx
    cases vs with
    | nil => cases hl
    | cons v vs =>
      show x ∈ k :: v :: interleaveKV ks vs
      rcases List.mem_cons.mp hx with rfl | hx
      · exact List.mem_cons_self
      · exact List.mem_cons_of_mem _ (List.mem_cons_of_mem _ (ih vs (by simpa using hl) x hx))

/-- the entry loop of `readMap` on a body of the grammar, started after the `{` -/
theorem readMap_body (cfg : Cfg) (opts : Opts) (hreg : opts.registry = none) (d : Nat) (ns : Option Bytes)
    (ks vs : List Val) (body rest : Bytes) (start : Nat)
    (hd : d < Tables.maxNestingDepth) (h : SeqRX cfg opts d (interleaveKV ks vs) body (0x7D :: rest))
    (hl : ks.length = vs.length) (hpd : pairwiseDistinct cfg (qualC ns ks)) (dm : Bool) (cl : List Call) (f : Nat)
    (hf : 2 * (body ++ 0x7D :: rest).length + 3 ≤ f) :
    ∃ v, readMap { cfg := cfg, opts := opts } f d dm start ns { rest := body ++ 0x7D :: rest, calls := cl } [] []
        = .ok v { rest := rest, calls := cl } ∧ stripM v = .map hdr0 none (qualC ns ks) vs := by
  obtain ⟨ws, hws, hr⟩ := h dm cl
  have hel : Elems cfg ws := ReadsSeq.elems (ctx := { cfg := cfg, opts := opts }) hreg (by omega) hr
  obtain ⟨ks', vs', rfl, hk, hv, hl'⟩ := interleave_splitM ks vs hl ws hws
  have helk : Elems cfg ks' := fun x hx => hel x (mem_interleave_left ks' vs' hl' x hx)
  have helq : Elems cfg (ks'.map (qualV ns)) := elems_qualV ns helk
  have hpw : pairwiseDistinct cfg (ks'.map (qualV ns)) := by
    rw [← pairwiseDistinct_stripML, ← qualC_stripML, hk]; exact hpd
  obtain ⟨h1, -, -, -, -⟩ := hasDuplicates_iff cfg (ks'.map (qualV ns)) helq
  rw [readMapNs_of_ReadsSeq _ ns ks' vs' hl' _ hr f [] [] hf, closeMap_eq]
  simp only [List.append_nil, List.reverse_reverse]
  rw [if_neg (by rw [h1.mpr hpw]; exact Bool.false_ne_true)]
  refine ⟨_, rfl, ?_⟩
  simp only [stripM, stripMO_none]
  rw [stripML_hasDuplicates, ← qualC_stripML, hk, hv]

theorem readsX_map (cfg : Cfg) (opts : Opts) (hreg : opts.registry = none) (d : Nat) (ks vs : List Val) (body rest : Bytes)
    (hd : d < Tables.maxNestingDepth) (h : SeqRX cfg opts d (interleaveKV ks vs) body (0x7D :: rest))
    (hl : ks.length = vs.length) (hpd : pairwiseDistinct cfg ks) :
    ReadsX cfg opts d (.map hdr0 none ks vs) (0x7B :: (body ++ [0x7D])) rest := by
  intro dm cl f hf
  cases f with
  | zero => omega
  | succ f =>
    rw [opener_append, readValue_mapOpen _ f d dm _ cl hd]
    exact readMap_body cfg opts hreg d none ks vs body rest _ hd h hl hpd dm cl f (by
      simp only [List.length_cons, List.length_append, List.length_nil] at hf ⊢
      omega)

/-! ### tagged elements -/

theorem readsX_tagged (cfg : Cfg) (opts : Opts) (hreg : opts.registry = none) (d : Nat) (tag : Bytes) (ns : Option Bytes) (nm : Bytes)
    (a : Val) (tok rest : Bytes) (hd : d < Tables.maxNestingDepth)
    (hl : IdentLex tag) (hden : IdentDenotes tag (.sym hdr0 none ns nm)) (hu : tag.head? ≠ some 0x5F)
    (hsep : ∃ c t, tok = c :: t ∧ isDelim c = true) (h : ReadsX cfg opts (d + 1) a tok rest) :
    ReadsX cfg opts d (.tagged hdr0 none tag a) (0x23 :: (tag ++ tok)) rest := by
  intro dm cl f hf
  obtain ⟨c, t, rfl, hcd⟩ := hsep
  cases tag with
  | nil => exact absurd rfl hl.1
  | cons c0 tag' =>
    simp only [List.length_cons, List.length_append] at hf
    match f, hf with
    | f + 2, hf =>
      obtain ⟨v, hv, hs⟩ := h dm cl f (by simp only [List.length_cons]; omega)
      have hc0 : isDelim c0 = false := hl.2.1 c0 (by simp)
      have h1 : c0 ≠ 0x23 := fun he => by rw [he] at hc0; revert hc0; decide +kernel
      have h2 : c0 ≠ 0x7B := fun he => by rw [he] at hc0; revert hc0; decide +kernel
      have h3 : c0 ≠ 0x5F := fun he => hu (by rw [he]; rfl)
      have h4 : c0 ≠ 0x3A := by
        intro he
        subst he
        rcases hden with ⟨e, -⟩ | ⟨e, -⟩ | ⟨e, -⟩ | ⟨body, ns', nm', -, -, -, -, -, e⟩ | ⟨e, -⟩
        · rw [nil_bytes] at e; cases e
        · rw [true_bytes] at e; cases e
        · rw [false_bytes] at e; cases e
        · cases e
        · exact e rfl
      obtain ⟨tv, htv, hstv⟩ := readIdentifier_complete { cfg := cfg, opts := opts } (c0 :: tag') (c :: t ++ rest) cl _ hl
        (.inr ⟨c, t ++ rest, rfl, hcd⟩) hden
      have hsym : ∃ h ns nm, readIdentifier { cfg := cfg, opts := opts } { rest := (c0 :: tag') ++ (c :: t ++ rest), calls := cl } =
          .ok (.sym h none ns nm) { rest := c :: t ++ rest, calls := cl } := by
        cases tv with
        | sym h md ns' nm' =>
          have := Snd.readIdentifier_md _ _ _ h md ns' nm' htv
          subst this
          exact ⟨h, ns', nm', htv⟩
        | _ => simp [strip] at hstv
      have e : (0x23 :: (c0 :: tag' ++ c :: t)) ++ rest = 0x23 :: c0 :: (tag' ++ (c :: t ++ rest)) := by simp
      have e' : c0 :: (tag' ++ (c :: t ++ rest)) = (c0 :: tag') ++ (c :: t ++ rest) := by simp
      rw [e, readValue_tagOpen _ (f + 1) d dm c0 _ cl hd h1 h2 h3 h4, e',
        readTagged_passthrough { cfg := cfg, opts := opts } hreg f d dm _ (c0 :: tag') _ rest cl v
          (List.cons_ne_nil _ _) hl.2.1 hsym hv]
      refine ⟨_, rfl, ?_⟩
      simp only [stripM, stripMO_none]
      rw [hs]

end Edn.Proofs.CmplX
