/-
  Edn.Proofs.CljNumberSoundAux6 — facts about the grammar `CljNum` itself: it contains the core
  grammar, the experimental flag only adds the separators, floats denote the correctly rounded
  value of their text.
-/
import Edn.Spec.CljNumLit
import Edn.Proofs.NumberReader
import Edn.Proofs.CljNumberSoundAux4
import Edn.Proofs.CljNumberSoundAux5

namespace Edn.Proofs.CljN
open Edn.Model Edn.Spec Edn.Proofs Edn.Proofs.CNum

/-! ## core tokens are Clojure-flag tokens -/

theorem radixNat_digits (ds : Bytes) (hd : ∀ c ∈ ds, is09 c = true) : radixNat 10 ds = natOfDigits ds := by
  have e : radixNat 10 ds = digitsValR 10 (ds.filter (· != 0x5F)) := rfl
  rw [e, filter_digits ds hd, digitsValR_ten ds hd]

theorem cljInt_of_decDigits (exp : Bool) {ds : Bytes} (hd : DecDigits ds) : CljInt exp ds := by
  obtain ⟨hall, rfl | ⟨d, t, rfl, hd0⟩⟩ := decDigits_cases hd
  · exact Or.inl ⟨by simp, by simp⟩
  · right
    refine ⟨⟨d, t, rfl, hall d (by simp), uRun_of_all (fun c hc => hall c (by simp [hc]))⟩, ?_, ?_⟩
    · simp [hd0]
    · exact noTrailU_of_not_mem (NRd.allDigits_no_underscore hall)

theorem zeroNorm_decDigits {ds : Bytes} (hd : DecDigits ds) : zeroNorm ds = ds := by
  obtain ⟨-, rfl | ⟨d, t, rfl, hd0⟩⟩ := decDigits_cases hd
  · rfl
  · exact zeroNorm_of_mem (c := d) (by simp) hd0

theorem cljFrac_of_fracPart (exp : Bool) {fr : Bytes} (h : FracPart fr) : CljFrac exp fr := by
  rcases h with rfl | ⟨fd, rfl, hfd⟩
  · exact Or.inl rfl
  · refine Or.inr ⟨fd, rfl, uRun_of_all hfd, ?_⟩
    cases fd with
    | nil => simp
    | cons c t =>
      have := (is09_props (hfd c (by simp))).2.2.2.2.1
      simpa using this

theorem cljExp_of_expPart (exp : Bool) {ex : Bytes} (h : ExpPart ex) : CljExp exp ex := by
  rcases h with rfl | ⟨e, es, ed, rfl, he, hes, hne, hed⟩
  · exact Or.inl rfl
  · refine Or.inr ⟨e, es, ed, rfl, he, hes, ?_⟩
    cases ed with
    | nil => exact absurd rfl hne
    | cons d t => exact ⟨d, t, rfl, hed d (by simp), uRun_of_all (fun c hc => hed c (by simp [hc]))⟩

theorem mantissa_of_core (exp : Bool) {ip fr ex : Bytes} (hip : DecDigits ip) (hfr : FracPart fr)
    (hex : ExpPart ex) : CljMantissa exp ip fr ex ∧ NoTrailU (ip ++ fr ++ ex) := by
  refine ⟨⟨cljInt_of_decDigits exp hip, cljFrac_of_fracPart exp hfr, cljExp_of_expPart exp hex,
    fun _ => noTrailU_of_not_mem (NRd.fracPart_no_underscore hfr)⟩, ?_⟩
  apply noTrailU_of_not_mem
  intro hm
  simp only [List.mem_append] at hm
  rcases hm with (hm | hm) | hm
  · exact NRd.allDigits_no_underscore (decDigits_cases hip).1 hm
  · exact NRd.fracPart_no_underscore hfr hm
  · exact NRd.expPart_no_underscore hex hm

/-- every number token of core EDN is a token of the Clojure-flag grammar with the same payload -/
theorem coreNum_cljNum (cfg : Cfg) {tok : Bytes} {v : NumVal} (h : CoreNum cfg tok v) : CljNum cfg tok v := by
  cases h with
  | int sg ds neg hs hd hr =>
    have := CljNum.dec (cfg := cfg) sg ds neg hs (cljInt_of_decDigits _ hd)
    unfold intPayload at this
    rw [radixNat_digits ds (decDigits_cases hd).1, if_pos hr] at this
    exact this
  | big sg ds neg hs hd hr =>
    have := CljNum.dec (cfg := cfg) sg ds neg hs (cljInt_of_decDigits _ hd)
    unfold intPayload at this
    rw [radixNat_digits ds (decDigits_cases hd).1, if_neg hr] at this
    exact this
  | bigN sg ds neg hs hd =>
    have := CljNum.decN (cfg := cfg) sg ds neg hs (cljInt_of_decDigits _ hd)
    rw [zeroNorm_decDigits hd] at this
    exact this
  | float tok h =>
    obtain ⟨sg, ip, fr, ex, neg, rfl, hs, hip, hfr, hex, hne⟩ := h
    exact CljNum.float sg ip fr ex neg hs (mantissa_of_core _ hip hfr hex).1 hne
  | bigdec sg body neg hs hb hnosign =>
    have hshape : ∃ ip fr ex, body = ip ++ fr ++ ex ∧ DecDigits ip ∧ FracPart fr ∧ ExpPart ex := by
      rcases hb with hb | ⟨sg', ip, fr, ex, neg', rfl, hs', hip, hfr, hex, -⟩
      · exact ⟨body, [], [], by simp, hb, Or.inl rfl, Or.inl rfl⟩
      · rcases hs' with ⟨rfl, -⟩ | ⟨rfl, -⟩ | ⟨rfl, -⟩
        · exact ⟨ip, fr, ex, by simp, hip, hfr, hex⟩
        · exact absurd rfl (hnosign 0x2B (by simp)).1
        · exact absurd rfl (hnosign 0x2D (by simp)).2
    obtain ⟨ip, fr, ex, rfl, hip, hfr, hex⟩ := hshape
    obtain ⟨hm, hu⟩ := mantissa_of_core cfg.exp hip hfr hex
    have := CljNum.decM (cfg := cfg) sg ip fr ex neg hs hm hu
    have hzn : zeroNorm (ip ++ fr ++ ex) = ip ++ fr ++ ex := by
      obtain ⟨-, rfl | ⟨d, t, rfl, hd0⟩⟩ := decDigits_cases hip
      · by_cases h1 : fr = [] ∧ ex = []
        · obtain ⟨rfl, rfl⟩ := h1
          rfl
        · refine zeroNorm_body hm.hfr hm.hex ?_
          intro h2 h3
          exact absurd ⟨h2, h3⟩ h1
      · exact zeroNorm_of_mem (c := d) (by simp) hd0
    rw [hzn] at this
    simpa only [List.append_assoc] using this

/-! ## the experimental flag only adds the separators -/

theorem digRunRadix_noU {exp : Bool} {radix : Nat} {l : Bytes} (hr : radix ≤ 36) (he : exp = false)
    (h : DigRun exp (isRadixDigit radix) l) : (0x5F : UInt8) ∉ l := by
  subst he
  exact uRun_false_noU (not_radix_of_not36 hr (by decide)) (digRun_uRun h)

theorem sign_noU {sg : Bytes} {neg : Bool} (h : SignTok sg neg) : (0x5F : UInt8) ∉ sg :=
  NRd.signTok_no_underscore h

theorem suffix_noU (suf : NumSuffix) : (0x5F : UInt8) ∉ suf.bytes := by
  cases suf <;> simp [NumSuffix.bytes]

theorem mantissa_noU {exp : Bool} {ip fr ex : Bytes} (he : exp = false) (hm : CljMantissa exp ip fr ex) :
    (0x5F : UInt8) ∉ ip ++ fr ++ ex := by
  intro h
  simp only [List.mem_append] at h
  rcases h with (h | h) | h
  · exact cljInt_noU he hm.hip h
  · exact cljFrac_noU he hm.hfr h
  · exact cljExp_noU he hm.hex h

/-- without the experimental flag no token contains a separator -/
theorem cljNum_noU (cfg : Cfg) (he : cfg.exp = false) {tok : Bytes} {v : NumVal} (h : CljNum cfg tok v) :
    (0x5F : UInt8) ∉ tok := by
  cases h with
  | dec sg ip neg hs hip =>
    intro hm
    rcases List.mem_append.mp hm with hm | hm
    · exact sign_noU hs hm
    · exact cljInt_noU he hip hm
  | decN sg ip neg hs hip =>
    intro hm
    simp only [List.mem_append, List.mem_singleton] at hm
    rcases hm with (hm | hm) | hm
    · exact sign_noU hs hm
    · exact cljInt_noU he hip hm
    · exact absurd hm (by decide)
  | float sg ip fr ex neg hs hm' hne =>
    intro hm
    have e : sg ++ ip ++ fr ++ ex = sg ++ (ip ++ fr ++ ex) := by simp
    rw [e] at hm
    rcases List.mem_append.mp hm with hm | hm
    · exact sign_noU hs hm
    · exact mantissa_noU he hm' hm
  | decM sg ip fr ex neg hs hm' hu =>
    intro hm
    have e : sg ++ ip ++ fr ++ ex ++ [0x4D] = sg ++ ((ip ++ fr ++ ex) ++ [0x4D]) := by simp
    rw [e] at hm
    rcases List.mem_append.mp hm with hm | hm
    · exact sign_noU hs hm
    · rcases List.mem_append.mp hm with hm | hm
      · exact mantissa_noU he hm' hm
      · simp only [List.mem_singleton] at hm
        exact absurd hm (by decide)
  | ratio sg nd dd neg hs hn hd =>
    intro hm
    simp only [List.mem_append, List.mem_singleton] at hm
    rcases hm with ((hm | hm) | hm) | hm
    · exact sign_noU hs hm
    · exact cljInt_noU he (Or.inr hn) hm
    · exact absurd hm (by decide)
    · exact NRd.allDigits_no_underscore hd.2.1 hm
  | zeroRatio sg zs dd neg hs hz hd =>
    intro hm
    simp only [List.mem_append, List.mem_singleton] at hm
    rcases hm with ((hm | hm) | hm) | hm
    · exact sign_noU hs hm
    · exact zeroRun_noU hz hm
    · exact absurd hm (by decide)
    · exact NRd.allDigits_no_underscore hd.2.1 hm
  | hex sg zs hs x neg suf hs' hz hx hh =>
    intro hm
    simp only [List.mem_append, List.mem_singleton] at hm
    rcases hm with (((hm | hm) | hm) | hm) | hm
    · exact sign_noU hs' hm
    · exact zeroRun_noU hz hm
    · rcases hx with rfl | rfl <;> exact absurd hm (by decide)
    · exact digRunRadix_noU (by omega) he hh hm
    · exact suffix_noU suf hm
  | octal sg zs os neg suf hs hz ho hfirst =>
    intro hm
    simp only [List.mem_append] at hm
    rcases hm with ((hm | hm) | hm) | hm
    · exact sign_noU hs hm
    · exact zeroRun_noU hz hm
    · exact digRunRadix_noU (by omega) he ho hm
    · exact suffix_noU suf hm
  | radix sg rp ds r neg suf hs hrp hrv hr hd hu hsuf =>
    intro hm
    simp only [List.mem_append, List.mem_singleton] at hm
    rcases hm with (((hm | hm) | hm) | hm) | hm
    · exact sign_noU hs hm
    · exact NRd.allDigits_no_underscore hrp.2 hm
    · rcases hr with rfl | rfl <;> exact absurd hm (by decide)
    · exact digRunRadix_noU hrv.2 he hd hm
    · exact suffix_noU suf hm

/-! ### … and nothing else: tokens without separators do not depend on the flag -/

theorem uRun_transfer {e1 e2 : Bool} {p : UInt8 → Bool} {l : Bytes} (h : URun e1 p l)
    (hn : (0x5F : UInt8) ∉ l) : URun e2 p l := by
  intro c hc
  rcases h c hc with h | ⟨-, rfl⟩
  · exact Or.inl h
  · exact absurd hc hn

theorem digRun_transfer {e1 e2 : Bool} {p : UInt8 → Bool} {l : Bytes} (h : DigRun e1 p l)
    (hn : (0x5F : UInt8) ∉ l) : DigRun e2 p l := by
  obtain ⟨d, t, rfl, hd, ht⟩ := h
  exact ⟨d, t, rfl, hd, uRun_transfer ht (fun h => hn (List.mem_cons_of_mem _ h))⟩

theorem cljInt_transfer {e1 e2 : Bool} {ip : Bytes} (h : CljInt e1 ip) (hn : (0x5F : UInt8) ∉ ip) :
    CljInt e2 ip := by
  rcases h with h | ⟨h1, h2, h3⟩
  · exact Or.inl h
  · exact Or.inr ⟨digRun_transfer h1 hn, h2, h3⟩

theorem cljFrac_transfer {e1 e2 : Bool} {fr : Bytes} (h : CljFrac e1 fr) (hn : (0x5F : UInt8) ∉ fr) :
    CljFrac e2 fr := by
  rcases h with rfl | ⟨fd, rfl, hfd, hh⟩
  · exact Or.inl rfl
  · exact Or.inr ⟨fd, rfl, uRun_transfer hfd (fun h => hn (List.mem_cons_of_mem _ h)), hh⟩

theorem cljExp_transfer {e1 e2 : Bool} {ex : Bytes} (h : CljExp e1 ex) (hn : (0x5F : UInt8) ∉ ex) :
    CljExp e2 ex := by
  rcases h with rfl | ⟨e, es, ed, rfl, he, hes, hed⟩
  · exact Or.inl rfl
  · refine Or.inr ⟨e, es, ed, rfl, he, hes, digRun_transfer hed ?_⟩
    intro h
    exact hn (List.mem_cons_of_mem _ (List.mem_append_right _ h))

theorem mantissa_transfer {e1 e2 : Bool} {ip fr ex : Bytes} (h : CljMantissa e1 ip fr ex)
    (hn : (0x5F : UInt8) ∉ ip ++ fr ++ ex) : CljMantissa e2 ip fr ex := by
  simp only [List.mem_append, not_or] at hn
  exact ⟨cljInt_transfer h.hip hn.1.1, cljFrac_transfer h.hfr hn.1.2, cljExp_transfer h.hex hn.2, h.hsep⟩

theorem parseDouble_flag (cfg1 cfg2 : Cfg) (tok : Bytes) (hn : (0x5F : UInt8) ∉ tok) :
    parseDouble cfg1 tok = parseDouble cfg2 tok := by
  rw [DoubleSpecAux.parseDouble_of_noUnderscore cfg1 tok (fun _ => hn),
    DoubleSpecAux.parseDouble_of_noUnderscore cfg2 tok (fun _ => hn)]

theorem ratioValue_flag (cfg1 cfg2 : Cfg) (neg : Bool) (nd dd : Bytes) (hn : NzRun cfg1.exp nd)
    (hnu : (0x5F : UInt8) ∉ nd) (hd : RatioDen dd) :
    ratioValue cfg1 neg nd dd = ratioValue cfg2 neg nd dd := by
  have hn2 : NzRun cfg2.exp nd := ⟨digRun_transfer hn.1 hnu, hn.2.1, hn.2.2⟩
  unfold ratioValue
  rw [parseInt64_run cfg1 10 (by omega) nd neg (nzRun_digRun hn),
    parseInt64_run cfg2 10 (by omega) nd neg (nzRun_digRun hn2),
    NRd.parseInt64_digits cfg1 dd false hd.1 hd.2.1, NRd.parseInt64_digits cfg2 dd false hd.1 hd.2.1]

/-- a token without separators is a token, with the same payload, whatever the flags -/
theorem cljNum_flag (cfg1 cfg2 : Cfg) {tok : Bytes} {v : NumVal} (hn : (0x5F : UInt8) ∉ tok)
    (h : CljNum cfg1 tok v) : CljNum cfg2 tok v := by
  cases h with
  | dec sg ip neg hs hip =>
    simp only [List.mem_append, not_or] at hn
    exact CljNum.dec sg ip neg hs (cljInt_transfer hip hn.2)
  | decN sg ip neg hs hip =>
    simp only [List.mem_append, not_or] at hn
    exact CljNum.decN sg ip neg hs (cljInt_transfer hip hn.1.2)
  | float sg ip fr ex neg hs hm hne =>
    rw [parseDouble_flag cfg1 cfg2 _ hn]
    have e : sg ++ ip ++ fr ++ ex = sg ++ (ip ++ fr ++ ex) := by simp
    rw [e] at hn
    exact CljNum.float sg ip fr ex neg hs
      (mantissa_transfer hm (fun h => hn (List.mem_append_right _ h))) hne
  | decM sg ip fr ex neg hs hm hu =>
    have e : sg ++ ip ++ fr ++ ex ++ [0x4D] = sg ++ ((ip ++ fr ++ ex) ++ [0x4D]) := by simp
    rw [e] at hn
    exact CljNum.decM sg ip fr ex neg hs
      (mantissa_transfer hm (fun h => hn (List.mem_append_right _ (List.mem_append_left _ h)))) hu
  | ratio sg nd dd neg hs hn' hd =>
    have hnu : (0x5F : UInt8) ∉ nd := by
      intro h
      apply hn
      simp [h]
    rw [ratioValue_flag cfg1 cfg2 neg nd dd hn' hnu hd]
    exact CljNum.ratio sg nd dd neg hs ⟨digRun_transfer hn'.1 hnu, hn'.2.1, hn'.2.2⟩ hd
  | zeroRatio sg zs dd neg hs hz hd => exact CljNum.zeroRatio sg zs dd neg hs hz hd
  | hex sg zs hs x neg suf hs' hz hx hh =>
    have hnu : (0x5F : UInt8) ∉ hs := by
      intro h
      apply hn
      simp [h]
    exact CljNum.hex sg zs hs x neg suf hs' hz hx (digRun_transfer hh hnu)
  | octal sg zs os neg suf hs hz ho hfirst =>
    have hnu : (0x5F : UInt8) ∉ os := by
      intro h
      apply hn
      simp [h]
    exact CljNum.octal sg zs os neg suf hs hz (digRun_transfer ho hnu) hfirst
  | radix sg rp ds r neg suf hs hrp hrv hr hd hu hsuf =>
    have hnu : (0x5F : UInt8) ∉ ds := by
      intro h
      apply hn
      simp [h]
    exact CljNum.radix sg rp ds r neg suf hs hrp hrv hr (digRun_transfer hd hnu) hu hsuf

/-! ## floats denote the correctly rounded value of their text -/

theorem cljNum_float_value (cfg : Cfg) (sg ip fr ex : Bytes) (neg : Bool) (hs : SignTok sg neg)
    (hm : CljMantissa cfg.exp ip fr ex) :
    parseDouble cfg (sg ++ ip ++ fr ++ ex) =
      (let p := decimalParts (sg ++ ip ++ fr ++ ex); withSign p.1 (ofDec p.2.1 p.2.2)) := by
  apply DoubleSpecAux.parseDouble_of_noUnderscore
  intro he hmem
  have e : sg ++ ip ++ fr ++ ex = sg ++ (ip ++ fr ++ ex) := by simp
  rw [e] at hmem
  rcases List.mem_append.mp hmem with h | h
  · exact sign_noU hs h
  · exact mantissa_noU he hm h

end Edn.Proofs.CljN
