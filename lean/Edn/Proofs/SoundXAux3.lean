/-
  Edn.Proofs.SoundXAux3 — structural facts about the grammar of all configurations
  (`Edn.Spec.GrammarX`): the nesting bound is monotone, blanks in front of a trail; byte facts about
  the dispatch table in every configuration.
-/
import Edn.Spec.GrammarX
import Edn.Proofs.SoundAux1

namespace Edn.Proofs.SndX
open Edn.Model Edn.Spec Edn.Generated Edn.Proofs

variable {cfg : Cfg} {N : NumJ} {S : StrJ}

/-! ### the nesting bound is monotone -/

mutual
theorem formX_mono : ∀ {k : Nat} {a : Val} {tok rest : Bytes}, FormX cfg N S k a tok rest →
    ∀ k', k ≤ k' → FormX cfg N S k' a tok rest
  | _, _, _, _, .blank k a tr tok rest ht h, k', hk => .blank k' a tr tok rest ht (formX_mono h k' hk)
  | _, _, _, _, .discard k a b tok1 tok2 rest hd h, k', hk => by
    cases k' with
    | zero => omega
    | succ k'' => exact .discard k'' a b tok1 tok2 rest (formX_mono hd k'' (by omega)) (formX_mono h (k'' + 1) (by omega))
  | _, _, _, _, .number k tok rest v hs hn, k', _ => .number k' tok rest v hs hn
  | _, _, _, _, .ident k tok rest a hl hs hd ht, k', _ => .ident k' tok rest a hl hs hd ht
  | _, _, _, _, .str k tok rest data esc hq hs, k', _ => .str k' tok rest data esc hq hs
  | _, _, _, _, .char k body rest cp h hcp ht, k', _ => .char k' body rest cp h hcp ht
  | _, _, _, _, .symbolic k tok rest bits h, k', _ => .symbolic k' tok rest bits h
  | _, _, _, _, .list k xs body rest h, k', hk => by
    cases k' with
    | zero => omega
    | succ k'' => exact .list k'' xs body rest (formSeqX_mono h k'' (by omega))
  | _, _, _, _, .vec k xs body rest h, k', hk => by
    cases k' with
    | zero => omega
    | succ k'' => exact .vec k'' xs body rest (formSeqX_mono h k'' (by omega))
  | _, _, _, _, .set k xs body rest h hd, k', hk => by
    cases k' with
    | zero => omega
    | succ k'' => exact .set k'' xs body rest (formSeqX_mono h k'' (by omega)) hd
  | _, _, _, _, .map k ks vs body rest h hl hd, k', hk => by
    cases k' with
    | zero => omega
    | succ k'' => exact .map k'' ks vs body rest (formSeqX_mono h k'' (by omega)) hl hd
  | _, _, _, _, .tagged k tag ns nm a tok rest hl hd hu hsep h, k', hk => by
    cases k' with
    | zero => omega
    | succ k'' => exact .tagged k'' tag ns nm a tok rest hl hd hu hsep (formX_mono h k'' (by omega))
  | _, _, _, _, .withMeta k am af nks nvs tokm tokf rest hc hm he hf ht, k', hk => by
    cases k' with
    | zero => omega
    | succ k'' =>
      exact .withMeta k'' am af nks nvs tokm tokf rest hc (formX_mono hm k'' (by omega)) he (formX_mono hf k'' (by omega)) ht
  | _, _, _, _, .nsmap k name tr body rest ks vs hc hl hden ht h hlen hd, k', hk => by
    cases k' with
    | zero => omega
    | succ k'' => exact .nsmap k'' name tr body rest ks vs hc hl hden ht (formSeqX_mono h k'' (by omega)) hlen hd

theorem formSeqX_mono : ∀ {k : Nat} {xs : List Val} {body after : Bytes}, FormSeqX cfg N S k xs body after →
    ∀ k', k ≤ k' → FormSeqX cfg N S k' xs body after
  | _, _, _, _, .nil k tr after ht, k', hk => .nil k' tr after (trailX_mono ht k' hk)
  | _, _, _, _, .cons k a xs tok body after h hr, k', hk =>
    .cons k' a xs tok body after (formX_mono h k' hk) (formSeqX_mono hr k' hk)

theorem trailX_mono : ∀ {k : Nat} {tr after : Bytes}, TrailX cfg N S k tr after → ∀ k', k ≤ k' → TrailX cfg N S k' tr after
  | _, _, _, .blank k tr after ht, k', _ => .blank k' tr after ht
  | _, _, _, .discard k b tr tok tr' after ht hd hr, k', hk => by
    cases k' with
    | zero => omega
    | succ k'' => exact .discard k'' b tr tok tr' after ht (formX_mono hd k'' (by omega)) (trailX_mono hr (k'' + 1) (by omega))
end

/-- blanks in front of a trail -/
theorem trailX_blank {k : Nat} {tr tr' after : Bytes} (hb : Blank tr) (h : TrailX cfg N S k tr' after) :
    TrailX cfg N S k (tr ++ tr') after := by
  cases h with
  | blank _ _ _ ht => exact .blank k _ after (Snd.blank_append hb ht)
  | discard k b tr0 tok tr1 _ ht hd hr =>
    have e : tr ++ (tr0 ++ 0x23 :: 0x5F :: (tok ++ tr1)) = (tr ++ tr0) ++ 0x23 :: 0x5F :: (tok ++ tr1) := by simp
    rw [e]
    exact .discard k b (tr ++ tr0) tok tr1 after (Snd.blank_append hb ht) hd hr

/-! ### the dispatch table in every configuration -/

def dispFactsX (cfg : Cfg) (c : UInt8) : Bool :=
  (!decide (dispatch cfg c = .string) || c == 0x22) &&
  (!decide (dispatch cfg c = .character) || c == 0x5C) &&
  (!decide (dispatch cfg c = .listOpen) || c == 0x28) &&
  (!decide (dispatch cfg c = .vectorOpen) || c == 0x5B) &&
  (!decide (dispatch cfg c = .mapOpen) || c == 0x7B) &&
  (!decide (dispatch cfg c = .delimiter) || (c == 0x29 || c == 0x5D || c == 0x7D)) &&
  (decide (dispatch cfg c = .metadata) == (cfg.clj && c == 0x5E)) &&
  (!decide (dispatch cfg c = .identifier) || !(c == 0x2B || c == 0x2D || is09 c)) &&
  (isDelim c || (decide (dispatch cfg c = .identifier) || decide (dispatch cfg c = .sign) || decide (dispatch cfg c = .digit)
    || decide (dispatch cfg c = .metadata))) &&
  (!(c == 0x22) || decide (dispatch cfg c = .string)) &&
  (!(c == 0x5C) || decide (dispatch cfg c = .character)) &&
  (!(c == 0x3A) || decide (dispatch cfg c = .identifier))

theorem dispFactsX_all (cfg : Cfg) : ∀ c, dispFactsX cfg c = true := by
  obtain ⟨clj, exp⟩ := cfg
  cases clj <;> cases exp <;> exact forall_u8_bool _ (by decide +kernel)

theorem dispX_string {c : UInt8} (h : dispatch cfg c = .string) : c = 0x22 := by
  have := dispFactsX_all cfg c
  simp only [dispFactsX, h, Bool.and_eq_true] at this
  simpa using this.1.1.1.1.1.1.1.1.1.1.1

theorem dispX_character {c : UInt8} (h : dispatch cfg c = .character) : c = 0x5C := by
  have := dispFactsX_all cfg c
  simp only [dispFactsX, h, Bool.and_eq_true] at this
  simpa using this.1.1.1.1.1.1.1.1.1.1.2

theorem dispX_listOpen {c : UInt8} (h : dispatch cfg c = .listOpen) : c = 0x28 := by
  have := dispFactsX_all cfg c
  simp only [dispFactsX, h, Bool.and_eq_true] at this
  simpa using this.1.1.1.1.1.1.1.1.1.2

theorem dispX_vectorOpen {c : UInt8} (h : dispatch cfg c = .vectorOpen) : c = 0x5B := by
  have := dispFactsX_all cfg c
  simp only [dispFactsX, h, Bool.and_eq_true] at this
  simpa using this.1.1.1.1.1.1.1.1.2

theorem dispX_mapOpen {c : UInt8} (h : dispatch cfg c = .mapOpen) : c = 0x7B := by
  have := dispFactsX_all cfg c
  simp only [dispFactsX, h, Bool.and_eq_true] at this
  simpa using this.1.1.1.1.1.1.1.2

theorem dispX_delimiter {c : UInt8} (h : dispatch cfg c = .delimiter) : c = 0x29 ∨ c = 0x5D ∨ c = 0x7D := by
  have := dispFactsX_all cfg c
  simp only [dispFactsX, h, Bool.and_eq_true] at this
  simpa [or_assoc] using this.1.1.1.1.1.1.2

theorem dispX_metadata_iff (c : UInt8) : dispatch cfg c = .metadata ↔ (cfg.clj = true ∧ c = 0x5E) := by
  have := dispFactsX_all cfg c
  simp only [dispFactsX, Bool.and_eq_true] at this
  have h := this.1.1.1.1.1.2
  simp only [beq_iff_eq] at h
  constructor
  · intro hd
    have : (cfg.clj && c == 0x5E) = true := by rw [← h]; exact decide_eq_true hd
    simpa using this
  · rintro ⟨h1, h2⟩
    have : decide (dispatch cfg c = .metadata) = true := by rw [h]; simp [h1, h2]
    exact of_decide_eq_true this

theorem dispX_identifier {c : UInt8} (h : dispatch cfg c = .identifier) :
    c ≠ 0x2B ∧ c ≠ 0x2D ∧ is09 c = false := by
  have := dispFactsX_all cfg c
  simp only [dispFactsX, h, Bool.and_eq_true] at this
  simpa [and_assoc] using this.1.1.1.1.2

theorem nondelim_dispX {c : UInt8} (h : isDelim c = false) :
    dispatch cfg c = .identifier ∨ dispatch cfg c = .sign ∨ dispatch cfg c = .digit ∨ dispatch cfg c = .metadata := by
  have := dispFactsX_all cfg c
  simp only [dispFactsX, h, Bool.and_eq_true] at this
  simpa [or_assoc] using this.1.1.1.2

theorem dispX_quote : dispatch cfg 0x22 = .string := by
  have := dispFactsX_all cfg 0x22
  simp only [dispFactsX, Bool.and_eq_true] at this
  simpa using this.1.1.2

theorem dispX_backslash : dispatch cfg 0x5C = .character := by
  have := dispFactsX_all cfg 0x5C
  simp only [dispFactsX, Bool.and_eq_true] at this
  simpa using this.1.2

theorem dispX_colon : dispatch cfg 0x3A = .identifier := by
  have := dispFactsX_all cfg 0x3A
  simp only [dispFactsX, Bool.and_eq_true] at this
  simpa using this.2

end Edn.Proofs.SndX
