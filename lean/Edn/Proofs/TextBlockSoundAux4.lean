/-
  Edn.Proofs.TextBlockSoundAux4 — the encoding of well-formed blocks is injective: the source
  lines and the closing delimiter can be recovered from the bytes (they are what the line
  scanner returns), whatever follows the block.
-/
import Edn.Proofs.TextBlockSoundAux3

namespace Edn.Proofs
open Edn.Model Edn.Spec

theorem toTb_injective (l l' : SrcLine) (h : toTb l = toTb l') : l = l' := by
  cases l; cases l'
  simp only [toTb, TbLine.mk.injEq] at h
  simp [h.1, h.2.1]

theorem map_toTb_injective : ∀ (a b : List SrcLine), a.map toTb = b.map toTb → a = b
  | [], [], _ => rfl
  | [], _ :: _, h => by simp at h
  | _ :: _, [], h => by simp at h
  | x :: a, y :: b, h => by
    simp only [List.map_cons, List.cons.injEq] at h
    rw [toTb_injective x y h.1, map_toTb_injective a b h.2]

/-- the scanner's lines on a well-formed block, in terms of the parts of the block -/
theorem tbLines_of_block (lines : List SrcLine) (c : Closer) (rest : Bytes)
    (hl : ∀ l ∈ lines, l.WF) (hc : c.WFx lines) :
    ∃ (init : List SrcLine) (ind b : Bytes),
      tbLines ((encodeBlock lines c ++ rest).length + 2) (encodeBlock lines c ++ rest) [] =
        .ok (init.map toTb ++ [closeTb ind b], rest) ∧
      ((c = .ownLine ind ∧ b = [] ∧ lines = init) ∨ (c = .inline ∧ b ≠ [] ∧ lines = init ++ [⟨ind, b⟩])) := by
  cases c with
  | ownLine ind =>
    refine ⟨lines, ind, [], ?_, .inl ⟨rfl, rfl, rfl⟩⟩
    exact tbLines_block_x lines hl ind [] rest ⟨hc, by simp, .nil⟩ endOK_nil _ (by simp [encodeBlock, encodeLines])
  | inline =>
    obtain ⟨l, hlast, hne, he⟩ := hc
    have hsplit : lines.dropLast ++ [l] = lines := dropLast_concat_of_getLast? lines l hlast
    have hwf : l.WF := hl l (List.mem_of_getLast? hlast)
    have hl' : ∀ x ∈ lines.dropLast, x.WF := fun x hx => hl x (List.dropLast_subset _ hx)
    refine ⟨lines.dropLast, l.indent, l.body, ?_, .inr ⟨rfl, hne, hsplit.symm⟩⟩
    exact tbLines_block_x lines.dropLast hl' l.indent l.body rest hwf he _
      (by simp [encodeBlock, encodeLines, hlast])

/-- two well-formed blocks at the start of the same input are the same block -/
theorem block_unique (lines lines' : List SrcLine) (c c' : Closer) (rest rest' : Bytes)
    (hl : ∀ l ∈ lines, l.WF) (hc : c.WFx lines) (hl' : ∀ l ∈ lines', l.WF) (hc' : c'.WFx lines')
    (h : encodeBlock lines c ++ rest = encodeBlock lines' c' ++ rest') :
    lines = lines' ∧ c = c' ∧ rest = rest' := by
  obtain ⟨init, ind, b, h1, h2⟩ := tbLines_of_block lines c rest hl hc
  obtain ⟨init', ind', b', h1', h2'⟩ := tbLines_of_block lines' c' rest' hl' hc'
  rw [h, h1'] at h1
  simp only [Except.ok.injEq, Prod.mk.injEq] at h1
  obtain ⟨hL, hr⟩ := h1
  obtain ⟨hi, hcl⟩ := List.append_inj' hL rfl
  have hinit := map_toTb_injective _ _ hi
  simp only [closeTb, List.cons.injEq, TbLine.mk.injEq, and_true] at hcl
  obtain ⟨hind, hb, -⟩ := hcl
  subst hinit hind hb hr
  rcases h2 with ⟨rfl, hb, rfl⟩ | ⟨rfl, hb, rfl⟩ <;> rcases h2' with ⟨rfl, hb', rfl⟩ | ⟨rfl, hb', rfl⟩
  · exact ⟨rfl, rfl, rfl⟩
  · exact absurd hb hb'
  · exact absurd hb' hb
  · exact ⟨rfl, rfl, rfl⟩

end Edn.Proofs
