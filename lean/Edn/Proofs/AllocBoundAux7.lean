/-
  Edn.Proofs.AllocBoundAux7 — induction over the six readers, part 3: namespaced maps, tagged
  elements (no registry), metadata; the induction on the fuel.
-/
import Edn.Proofs.AllocBoundAux6

namespace Edn.Proofs.AllocBound
open Edn.Model Edn.Proofs Edn.Proofs.AllocBasic

theorem good_metaEntries {cfg : Cfg} {N : Nat} (m : Val) (nks nvs : List Val) (g : Good cfg N m) (hN : 0 < N)
    (h : metaEntries m = some (nks, nvs)) : GoodL cfg N nks ∧ GoodL cfg N nvs := by
  unfold metaEntries at h
  split at h
  · cases h; exact ⟨good_map_k g, good_map_v g⟩
  · cases h; exact ⟨GoodL.cons g GoodL.nil, GoodL.cons (Good.bool _ _ hN) GoodL.nil⟩
  · cases h; exact ⟨GoodL.cons (Good.kw _ _ _ hN) GoodL.nil, GoodL.cons g GoodL.nil⟩
  · cases h; exact ⟨GoodL.cons (Good.kw _ _ _ hN) GoodL.nil, GoodL.cons g GoodL.nil⟩
  · cases h; exact ⟨GoodL.cons (Good.kw _ _ _ hN) GoodL.nil, GoodL.cons g GoodL.nil⟩
  · cases h

theorem readIdentifier_ok_suffix (ctx : Ctx) (st st' : St) (v : Val) (h : readIdentifier ctx st = .ok v st') :
    st'.rest <:+ st.rest := by
  unfold readIdentifier at h
  simp only [] at h
  repeat' split at h
  all_goals first
    | (cases h; exact List.drop_suffix _ _)
    | cases h

section
variable {x : ACtx} {input : Bytes} (H : Hyp x input)
include H

theorem readIdentifierA_ok_suffix {st st' : St} {a a' : ASt} {v : Val} (ha : a.arena = .alive)
    (hq : readIdentifierA x st a = (.ok v st', a')) : st'.rest <:+ st.rest := by
  have h := readIdentifierA_granted x st a (request_ff (N := 0) H.orc .arena a 0 ha).1
  rw [hq] at h
  exact readIdentifier_ok_suffix x.ctx st st' v h.symm

theorem readNsMapA_bstep (f : Nat) (hV : BV x input f) (hM : BM x input f) : BN x input (f + 1) := by
  intro d dm start st a ha hsuf hstart
  unfold readNsMapA
  dsimp only
  have h1 := hV d dm st a ha hsuf
  rcases hq : readValueA x f d dm st a with ⟨r, a'⟩
  rw [hq] at h1
  obtain ⟨ha', h1c⟩ := h1
  cases r with
  | closer st' => dsimp only at h1c ⊢; exact ⟨ha', by somega⟩
  | err e st' => dsimp only at h1c ⊢; exact ⟨ha', by somega⟩
  | ok kwv st' =>
    dsimp only at h1c ⊢
    obtain ⟨gk, hc1⟩ := h1c
    have hsuf' := (VA_ok_suffix H ha hq).trans hsuf
    have hws := skipWs_suffix' st'.rest
    split
    · split
      · next c r hs =>
        rw [hs] at hws
        have hlen := hws.length_le
        simp only [List.length_cons] at hlen
        split
        · exact RelL.after (st := st) (a := a)
            (hM d dm start _ { rest := r, calls := st'.calls } a' {} [] [] ha'
              (((List.suffix_cons c r).trans hws).trans hsuf') hstart GoodL.nil GoodL.nil)
            (by simp only; omega)
        · exact ⟨ha', by somega⟩
      · exact ⟨ha', by somega⟩
    · exact ⟨ha', by somega⟩

theorem readTaggedA_bstep (f : Nat) (hV : BV x input f) : BT x input (f + 1) := by
  intro d dm start st a ha hsuf hstart
  unfold readTaggedA
  dsimp only
  split
  · exact ⟨ha, by somega⟩
  · split
    · exact ⟨ha, by somega⟩
    · have h1 := readIdentifierA_rel H st a ha hsuf
      rcases hq : readIdentifierA x st a with ⟨r, a'⟩
      rw [hq] at h1
      obtain ⟨ha', h1c⟩ := h1
      cases r with
      | closer st' => dsimp only at h1c ⊢; exact ⟨ha', by somega⟩
      | err e st' => dsimp only at h1c ⊢; exact ⟨ha', by somega⟩
      | ok tagv st' =>
        dsimp only at h1c ⊢
        obtain ⟨gt, hc1⟩ := h1c
        have hsuf' := (readIdentifierA_ok_suffix H ha hq).trans hsuf
        split
        · have h2 := hV (d + 1) dm st' a' ha' hsuf'
          rcases hq2 : readValueA x f (d + 1) dm st' a' with ⟨r2, a''⟩
          rw [hq2] at h2
          obtain ⟨ha'', h2c⟩ := h2
          cases r2 with
          | closer st'' => dsimp only at h2c ⊢; exact ⟨ha'', by somega⟩
          | err e st'' => dsimp only at h2c ⊢; exact ⟨ha'', by somega⟩
          | ok v st'' =>
            dsimp only at h2c ⊢
            obtain ⟨gv, hc2⟩ := h2c
            split
            · exact value_rel_L H st _ _ a a'' _ (Good.tagged _ _ _ _ hstart (fun _ h => by cases h) gv) ha''
                (by omega)
            · next reg hreg => rw [H.reg] at hreg; cases hreg
        · exact ⟨ha', by somega⟩

theorem readMetaA_bstep (f : Nat) (hV : BV x input f) : BMe x input (f + 1) := by
  intro d dm start st a ha hsuf hstart
  unfold readMetaA
  dsimp only
  have h1 := hV (d + 1) dm st a ha hsuf
  rcases hq : readValueA x f (d + 1) dm st a with ⟨r, a'⟩
  rw [hq] at h1
  obtain ⟨ha', h1c⟩ := h1
  cases r with
  | closer st' => dsimp only at h1c ⊢; exact ⟨ha', by somega⟩
  | err e st' => dsimp only at h1c ⊢; exact ⟨ha', by somega⟩
  | ok m st' =>
    dsimp only at h1c ⊢
    obtain ⟨gm, hc1⟩ := h1c
    have hsuf' := (VA_ok_suffix H ha hq).trans hsuf
    split
    · exact ⟨ha', by somega⟩
    · next nks nvs hme =>
      obtain ⟨gnk, gnv⟩ := good_metaEntries m nks nvs gm (Nat.succ_pos _) hme
      have h2 := hV (d + 1) dm st' a' ha' hsuf'
      rcases hq2 : readValueA x f (d + 1) dm st' a' with ⟨r2, a''⟩
      rw [hq2] at h2
      obtain ⟨ha'', h2c⟩ := h2
      cases r2 with
      | closer st'' => dsimp only at h2c ⊢; exact ⟨ha'', by somega⟩
      | err e st'' => dsimp only at h2c ⊢; exact ⟨ha'', by somega⟩
      | ok form st'' =>
        dsimp only at h2c ⊢
        obtain ⟨gf, hc2⟩ := h2c
        split
        · exact ⟨ha'', by somega⟩
        · have h3 := attachMetaA_stp (N := input.length + 1) H.orc m form nks nvs a'' gf gnk gnv (Nat.succ_pos _) ha''
          rcases hq3 : attachMetaA x m form nks nvs a'' with ⟨o, a1⟩
          rw [hq3] at h3
          obtain ⟨h3s, h3g⟩ := h3
          dsimp only at h3s h3g
          have hc3 := h3s.2
          cases o with
          | none => exact ⟨h3s.1, by somega⟩
          | some form' =>
            exact ⟨h3s.1, (h3g form' rfl).setHdr _ hstart, by simp only; omega⟩

/-- the relation holds of all six readers, for every fuel -/
theorem readers_bound : ∀ f, BV x input f ∧ BS x input f ∧ BM x input f ∧ BN x input f ∧ BT x input f ∧ BMe x input f := by
  intro f
  induction f with
  | zero =>
    refine ⟨?_, ?_, ?_, ?_, ?_, ?_⟩
    · intro d dm st a ha _; unfold readValueA; exact ⟨ha, by simp only [fuelOut]; omega⟩
    · intro d dm kind start st a b acc ha _ _ _; unfold readSeqA; exact ⟨ha, by simp only [fuelOut]; omega⟩
    · intro d dm start ns st a b ks vs ha _ _ _ _; unfold readMapA; exact ⟨ha, by simp only [fuelOut]; omega⟩
    · intro d dm start st a ha _ _; unfold readNsMapA; exact ⟨ha, by simp only [fuelOut]; omega⟩
    · intro d dm start st a ha _ _; unfold readTaggedA; exact ⟨ha, by simp only [fuelOut]; omega⟩
    · intro d dm start st a ha _ _; unfold readMetaA; exact ⟨ha, by simp only [fuelOut]; omega⟩
  | succ f ih =>
    obtain ⟨hV, hS, hM, hN, hT, hMe⟩ := ih
    exact ⟨readValueA_bstep H f hV hS hM hN hT hMe, readSeqA_bstep H f hV hS, readMapA_bstep H f hV hM,
      readNsMapA_bstep H f hV hM, readTaggedA_bstep H f hV, readMetaA_bstep H f hV⟩

end

end Edn.Proofs.AllocBound
