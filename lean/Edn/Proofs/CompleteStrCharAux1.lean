/-
  Edn.Proofs.CompleteStrCharAux1 — helper lemmas for Edn.Proofs.CompleteStrChar.
-/
import Edn.Spec.Renders
import Edn.Proofs.Fuel
import Edn.Proofs.Str

namespace Edn.Proofs
open Edn.Model Edn.Spec

/-! ### dispatch of `readValue` on a quote / a backslash -/

theorem dispatch_quote (cfg : Cfg) : dispatch cfg 0x22 = .string := by
  obtain ⟨clj, exp⟩ := cfg
  cases clj <;> cases exp <;> decide +kernel

theorem dispatch_backslash (cfg : Cfg) : dispatch cfg 0x5C = .character := by
  obtain ⟨clj, exp⟩ := cfg
  cases clj <;> cases exp <;> decide +kernel

theorem readValue_quote (ctx : Ctx) (f d : Nat) (dm : Bool) (t : Bytes) (cl : List Call) :
    readValue ctx (f + 1) d dm { rest := 0x22 :: t, calls := cl }
      = readString ctx { rest := 0x22 :: t, calls := cl } := by
  rw [readValue_succ]
  have hp : isPreWs 0x22 = false := by decide +kernel
  simp only [rvOuter, hp, Bool.false_eq_true, if_false, rvStep, dispatch_quote]

theorem readValue_backslash (ctx : Ctx) (f d : Nat) (dm : Bool) (t : Bytes) (cl : List Call) :
    readValue ctx (f + 1) d dm { rest := 0x5C :: t, calls := cl }
      = readCharacter ctx { rest := 0x5C :: t, calls := cl } := by
  rw [readValue_succ]
  have hp : isPreWs 0x5C = false := by decide +kernel
  simp only [rvOuter, hp, Bool.false_eq_true, if_false, rvStep, dispatch_backslash]

/-! ### strings -/

/-- a non-empty spelled content never begins with a quote -/
theorem strContent_head_ne_quote (cfg : Cfg) (sp dn : Bytes) (h : StrContent cfg sp dn) (hne : sp ≠ []) :
    ∃ c t, sp = c :: t ∧ c ≠ 0x22 := by
  cases h with
  | nil => exact absurd rfl hne
  | cons hu hs =>
    cases hu with
    | plain b h1 h2 => exact ⟨b, _, rfl, h1⟩
    | _ => exact ⟨0x5C, _, rfl, by decide⟩

/-- `readString_literal` with the explicit escape flag -/
theorem readString_literal' (ctx : Ctx) (sp dn rest : Bytes) (cl : List Call)
    (h : StrContent ctx.cfg sp dn)
    (hnb : ¬ (ctx.cfg.exp = true ∧ ∃ t, (0x22 :: (sp ++ 0x22 :: rest)) = 0x22 :: 0x22 :: 0x22 :: 0x0A :: t)) :
    readString ctx { rest := 0x22 :: (sp ++ 0x22 :: rest), calls := cl } =
        .ok (.str (mkHdr (sp.length + 2 + rest.length) rest.length) sp (sp.contains 0x5C))
          { rest := rest, calls := cl } := by
  have hcond : (ctx.cfg.exp && startsWith (0x22 :: (sp ++ 0x22 :: rest)) [0x22, 0x22, 0x22, 0x0A]) = false := by
    cases hc : (ctx.cfg.exp && startsWith (0x22 :: (sp ++ 0x22 :: rest)) [0x22, 0x22, 0x22, 0x0A])
    · rfl
    · exfalso
      rw [Bool.and_eq_true] at hc
      refine hnb ⟨hc.1, ?_⟩
      have hp := List.isPrefixOf_iff_prefix.mp hc.2
      obtain ⟨t, ht⟩ := hp
      exact ⟨t, ht.symm⟩
  unfold readString
  simp only [hcond, List.tail_cons, findQuote_eq, findQuote_content ctx.cfg sp dn h false rest,
    Bool.false_or, slice_append_left]
  simp only [Bool.false_eq_true, if_false, Ctx.pos, List.length_cons, List.length_append]
  have : sp.length + (rest.length + 1) + 1 = sp.length + 2 + rest.length := by omega
  rw [this]

end Edn.Proofs
