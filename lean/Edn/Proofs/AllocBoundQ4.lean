/-
  Edn.Proofs.AllocBoundQ4 — the duplicate check (pairwise / sorted copy / hash table) of a collection
  whose elements have `S` nodes in total makes at most `1 + 4 * S * S` requests under a fault-free
  oracle, whatever the string literals, and hands back elements of the same total size; the
  metadata merge makes at most `5 + 2 * (nodes of the form) * (nodes of the new keys)`.
-/
import Edn.Proofs.AllocBoundQ2

namespace Edn.Proofs.AllocBoundQ
open Edn.Model Edn.Proofs.AllocBasic Edn.Proofs.AllocBound

/-! ## glibc's merge sort meets every element once -/

theorem msortTouch_length : ∀ (f lo n : Nat), (msortTouch f lo n).length ≤ n ∧
    (n = 1 → (msortTouch f lo n).length = 0) := by
  intro f
  induction f with
  | zero => intro lo n; simp [msortTouch]
  | succ f ih =>
    intro lo n
    unfold msortTouch
    split
    · simp
    · next hn =>
      have h1 := ih lo (n / 2)
      have h2 := ih (lo + n / 2) (n - n / 2)
      dsimp only
      simp only [List.length_append]
      refine ⟨?_, fun h => absurd h (by omega)⟩
      have e1 : (if (n / 2 == 1) = true then [lo] else []).length + (msortTouch f lo (n / 2)).length ≤ n / 2 := by
        split
        · next h => have := h1.2 (by simpa using h); simp only [List.length_singleton]; omega
        · simp only [List.length_nil]; omega
      have e2 : (if (n - n / 2 == 1) = true then [lo + n / 2] else []).length +
          (msortTouch f (lo + n / 2) (n - n / 2)).length ≤ n - n / 2 := by
        split
        · next h => have := h2.2 (by simpa using h); simp only [List.length_singleton]; omega
        · simp only [List.length_nil]; omega
      omega

/-! ## sizes of the lists the duplicate check builds -/

theorem szL_set (l : List Val) (i : Nat) (v v' : Val) (h : l[i]? = some v) (hs : sz v' = sz v) :
    szL (l.set i v') = szL l := by
  induction l generalizing i with
  | nil => rfl
  | cons y ys ih =>
    cases i with
    | zero =>
      simp only [List.getElem?_cons_zero, Option.some.injEq] at h
      subst h
      simp only [List.set_cons_zero, szL, hs]
    | succ i =>
      simp only [List.getElem?_cons_succ] at h
      simp only [List.set_cons_succ, szL, ih i h]

theorem szL_insertByHash (v : Val) (l : List Val) : szL (insertByHash v l) = sz v + szL l := by
  induction l with
  | nil => simp [insertByHash, szL]
  | cons y ys ih =>
    unfold insertByHash
    split
    · simp only [szL]
    · simp only [szL, ih]; omega

theorem szL_sortByHash (xs : List Val) : szL (sortByHash xs) = szL xs := by
  have key : ∀ (xs acc : List Val), szL (xs.foldl (fun acc v => insertByHash v acc) acc) = szL xs + szL acc := by
    intro xs
    induction xs with
    | nil => intro acc; simp [szL]
    | cons v vs ih =>
      intro acc
      simp only [List.foldl_cons, ih, szL_insertByHash, szL]
      omega
  have := key xs []
  simpa [sortByHash, szL] using this

theorem sq_split (R T S : Nat) (h : R + T = S) : 2 * (R * R) + 2 * (T * T) ≤ 2 * (S * S) := by
  subst h; grind

section
variable {x : ACtx} (horc : ∀ n, x.orc n = false)
include horc

theorem hasDupLinearA_q (xs : List Val) (a : ASt) (ha : a.arena = .alive) :
    StpQ (2 * (szL xs * szL xs)) a (hasDupLinearA x xs a).2 := by
  induction xs generalizing a with
  | nil => exact StpQ.zero ha
  | cons v vs ih =>
    unfold hasDupLinearA
    have h1 := anyA_q (equalA x) (equalA_q horc) v vs a ha
    rcases hq : anyA (equalA x) v vs a with ⟨r, a1⟩
    rw [hq] at h1
    cases r
    · exact (h1.trans (ih a1 h1.1)).mono (by simp only [szL]; grind)
    · exact h1.mono (by simp only [szL]; grind)

theorem hashAtA_q (is : List Nat) (arr : Array Val) (a : ASt) (ha : a.arena = .alive) :
    StpQ (is.length * szL arr.toList) a (hashAtA x is arr a).2 ∧
      szL (hashAtA x is arr a).1.toList = szL arr.toList := by
  induction is generalizing arr a with
  | nil => exact ⟨StpQ.zero ha, rfl⟩
  | cons i is ih =>
    unfold hashAtA
    split
    · have := ih arr a ha
      exact ⟨this.1.mono (Nat.mul_le_mul_right _ (by simp)), this.2⟩
    · next v hv =>
      have hv' : arr.toList[i]? = some v := by simpa using hv
      have hmem : sz v ≤ szL arr.toList := sz_le_szL (List.mem_of_getElem? hv')
      have h1 := hashOpA_q horc v a ha
      rcases hq : hashOpA x v a with ⟨⟨h, v'⟩, a1⟩
      rw [hq] at h1
      dsimp only at h1 ⊢
      have hsz : szL (arr.setIfInBounds i v').toList = szL arr.toList := by
        rw [Array.toList_setIfInBounds]
        exact szL_set _ _ _ _ hv' h1.2
      have h2 := ih (arr.setIfInBounds i v') a1 h1.1.1
      rw [hsz] at h2
      refine ⟨(h1.1.trans h2.1).mono ?_, h2.2⟩
      simp only [List.length_cons, Nat.succ_mul]
      omega

theorem runsA_q (f : Nat) (xs : List Val) (a : ASt) (ha : a.arena = .alive) :
    StpQ (2 * (szL xs * szL xs)) a (runsA x f xs a).2 := by
  induction f generalizing xs a with
  | zero => unfold runsA; exact StpQ.zero ha
  | succ f ih =>
    cases xs with
    | nil => unfold runsA; exact StpQ.zero ha
    | cons v vs =>
      unfold runsA
      dsimp only
      have hsplit := szL_takeWhile_dropWhile (·.hdr.hc == v.hdr.hc) vs
      have h1 := hasDupLinearA_q horc (v :: vs.takeWhile (·.hdr.hc == v.hdr.hc)) a ha
      rcases hq : hasDupLinearA x (v :: vs.takeWhile (·.hdr.hc == v.hdr.hc)) a with ⟨r, a1⟩
      rw [hq] at h1
      cases r
      · exact (h1.trans (ih _ a1 h1.1)).mono (sq_split _ _ _ (by simp only [szL]; omega))
      · exact h1.mono2 (by simp only [szL]; omega) (by simp only [szL]; omega)

theorem hasDupSortedA_q (hst : ∀ n, (x.sortTouch n).length ≤ n) (xs : List Val) (a : ASt) (ha : a.arena = .alive) :
    StpQ (1 + 4 * (szL xs * szL xs)) a (hasDupSortedA x xs a).2 ∧ szL (hasDupSortedA x xs a).1.2 = szL xs := by
  unfold hasDupSortedA
  obtain ⟨⟨i, hi⟩, h0⟩ := rawAllocQ horc .malloc a ha
  rcases hq0 : a.rawAlloc x.orc .malloc with ⟨o, a1⟩
  rw [hq0] at h0 hi
  dsimp only at hi
  subst hi
  dsimp only
  have h1 := hashAtA_q horc (x.sortTouch xs.length) xs.toArray a1 h0.1
  rcases hq1 : hashAtA x (x.sortTouch xs.length) xs.toArray a1 with ⟨arr, a2⟩
  rw [hq1] at h1
  dsimp only at h1 ⊢
  have h2 := hashAtA_q horc (List.range xs.length) arr a2 h1.1.1
  rcases hq2 : hashAtA x (List.range xs.length) arr a2 with ⟨arr2, a3⟩
  rw [hq2] at h2
  dsimp only at h2 ⊢
  have h3 := runsA_q horc (arr2.toList.length + 1) (sortByHash arr2.toList) a3 h2.1.1
  rcases hq3 : runsA x (arr2.toList.length + 1) (sortByHash arr2.toList) a3 with ⟨r, a4⟩
  rw [hq3] at h3
  have e1 : szL arr.toList = szL xs := by simpa using h1.2
  have e2 : szL arr2.toList = szL xs := h2.2.trans e1
  rw [szL_sortByHash, e2] at h3
  refine ⟨(((h0.trans h1.1).trans h2.1).trans (h3.trans (freeQ i a4 h3.1))).mono ?_, e2⟩
  have hm := length_le_szL xs
  have ht := hst xs.length
  rw [e1]
  simp only [List.length_range]
  have b1 : (x.sortTouch xs.length).length * szL xs ≤ szL xs * szL xs :=
    Nat.mul_le_mul_right _ (Nat.le_trans ht hm)
  have b2 : xs.length * szL xs ≤ szL xs * szL xs := Nat.mul_le_mul_right _ hm
  omega

theorem tableLoopA_q (xs seen : List Val) (a : ASt) (ha : a.arena = .alive) :
    StpQ (szL xs + 2 * (szL xs * (szL seen + szL xs))) a (tableLoopA x xs seen a).2 ∧
      szL (tableLoopA x xs seen a).1.2 = szL seen + szL xs := by
  induction xs generalizing seen a with
  | nil => exact ⟨StpQ.zero ha, by simp [tableLoopA, szL, szL_reverse]⟩
  | cons v rest ih =>
    unfold tableLoopA
    have h1 := hashOpA_q horc v a ha
    rcases hq : hashOpA x v a with ⟨⟨h, v'⟩, a1⟩
    rw [hq] at h1
    dsimp only at h1 ⊢
    have hc : szL (seen.reverse.filter (·.hdr.hc == h)) ≤ szL seen := by
      have := szL_sublist (List.filter_sublist (l := seen.reverse) (p := (·.hdr.hc == h)))
      rw [szL_reverse] at this
      exact this
    have h2 := (anyA_q (fun e y => equalA x y e) (equalA_flip_q horc) v' (seen.reverse.filter (·.hdr.hc == h)) a1
      h1.1.1).mono2 (Nat.le_of_eq h1.2) hc
    rcases hq2 : anyA (fun e y => equalA x y e) v' (seen.reverse.filter (·.hdr.hc == h)) a1 with ⟨r, a2⟩
    rw [hq2] at h2
    have e' := h1.2
    cases r
    · have h3 := ih (v' :: seen) a2 h2.1
      refine ⟨((h1.1.trans h2).trans h3.1).mono ?_, ?_⟩
      · simp only [szL, e']; grind
      · simp only [Bool.false_eq_true, ↓reduceIte]
        rw [h3.2]; simp only [szL, e']; omega
    · refine ⟨(h1.1.trans h2).mono ?_, ?_⟩
      · simp only [szL]; grind
      · simp only [↓reduceIte, szL_append, szL_reverse, szL, e']

theorem hasDupTableA_q (xs : List Val) (a : ASt) (ha : a.arena = .alive) :
    StpQ (1 + 4 * (szL xs * szL xs)) a (hasDupTableA x xs a).2 ∧ szL (hasDupTableA x xs a).1.2 = szL xs := by
  unfold hasDupTableA
  obtain ⟨⟨i, hi⟩, h0⟩ := rawAllocQ horc .calloc a ha
  rcases hq0 : a.rawAlloc x.orc .calloc with ⟨o, a1⟩
  rw [hq0] at h0 hi
  dsimp only at hi
  subst hi
  dsimp only
  have h1 := tableLoopA_q horc xs [] a1 h0.1
  rcases hq1 : tableLoopA x xs [] a1 with ⟨r, a2⟩
  rw [hq1] at h1
  refine ⟨(h0.trans (h1.1.trans (freeQ i a2 h1.1.1))).mono ?_, by simpa [szL] using h1.2⟩
  have : szL xs ≤ szL xs * szL xs := Nat.le_mul_self _
  simp only [szL, Nat.zero_add]
  omega

/-- `edn_has_duplicates`: at most `1 + 4 * S * S` requests, `S` the number of nodes of the elements -/
theorem hasDuplicatesA_q (hst : ∀ n, (x.sortTouch n).length ≤ n) (xs : List Val) (a : ASt) (ha : a.arena = .alive) :
    StpQ (1 + 4 * (szL xs * szL xs)) a (hasDuplicatesA x xs a).2 ∧ szL (hasDuplicatesA x xs a).1.2 = szL xs := by
  unfold hasDuplicatesA
  split
  · exact ⟨StpQ.zero ha, rfl⟩
  · split
    · have h1 := hasDupLinearA_q horc xs a ha
      rcases hq : hasDupLinearA x xs a with ⟨r, a1⟩
      rw [hq] at h1
      exact ⟨h1.mono (by omega), rfl⟩
    · split
      · exact hasDupSortedA_q horc hst xs a ha
      · exact hasDupTableA_q horc xs a ha

/-! ## Metadata -/

theorem keepOldA_q (newKeys ks vs : List Val) (a : ASt) (ha : a.arena = .alive) :
    StpQ (2 * (szL ks * szL newKeys)) a (keepOldA x newKeys ks vs a).2 ∧
      szL (keepOldA x newKeys ks vs a).1.1 ≤ szL ks ∧ szL (keepOldA x newKeys ks vs a).1.2 ≤ szL vs := by
  induction ks generalizing vs a with
  | nil => cases vs <;> exact ⟨StpQ.zero ha, Nat.le_refl _, Nat.zero_le _⟩
  | cons k ks ih =>
    cases vs with
    | nil => exact ⟨StpQ.zero ha, Nat.zero_le _, Nat.le_refl _⟩
    | cons v vs =>
      unfold keepOldA
      have h1 := anyA_q (equalA x) (equalA_q horc) k newKeys a ha
      rcases hq1 : anyA (equalA x) k newKeys a with ⟨found, a1⟩
      rw [hq1] at h1
      dsimp only
      have h2 := ih vs a1 h1.1
      rcases hq2 : keepOldA x newKeys ks vs a1 with ⟨⟨ks', vs'⟩, a2⟩
      rw [hq2] at h2
      dsimp only at h2 ⊢
      refine ⟨(h1.trans h2.1).mono (by simp only [szL]; grind), ?_, ?_⟩
      · split
        · simp only [szL]; omega
        · simp only [szL]; omega
      · split
        · simp only [szL]; omega
        · simp only [szL]; omega

omit horc in
theorem metaEntries_sz (m : Val) (nks nvs : List Val) (h : metaEntries m = some (nks, nvs)) :
    szL nks + szL nvs ≤ sz m + 1 := by
  unfold metaEntries at h
  split at h
  · cases h; simp only [sz]; omega
  · cases h; simp only [szL, sz]; omega
  · cases h; simp only [szL, sz]; omega
  · cases h; simp only [szL, sz]; omega
  · cases h; simp only [szL, sz]; omega
  · cases h

/-- Step 3 of `edn_read_metadata`: five requests and two per pair (node of the form, node of a new
    key) at most; the annotated form grew by the new entries and one node at most -/
theorem attachMetaA_q (m form : Val) (nks nvs : List Val) (a : ASt) (ht : form.metaTarget = true)
    (ha : a.arena = .alive) :
    StpQ (5 + 2 * (sz form * szL nks)) a (attachMetaA x m form nks nvs a).2 ∧
      (∀ form', (attachMetaA x m form nks nvs a).1 = some form' → sz form' ≤ sz form + 1 + szL nks + szL nvs) := by
  unfold attachMetaA
  split
  · next h md ks vs hmd =>
    have hmdsz := szO_md_le form
    rw [hmd] at hmdsz
    simp only [szO, sz] at hmdsz
    have h1 := metaEntryQ horc m a ha
    rcases hq1 : metaEntryA x m a with ⟨okE, a1⟩
    rw [hq1] at h1
    obtain ⟨hok, hst1⟩ := h1
    dsimp only at hok hst1
    subst hok
    simp only [Bool.not_true, Bool.false_eq_true, ↓reduceIte]
    have hr2 := requestQ horc .arena a1 0 hst1.1
    rcases hq2 : a1.request x.orc .arena with ⟨ok2, a2⟩
    rw [hq2] at hr2
    obtain ⟨hok2, hst2⟩ := hr2
    dsimp only at hok2 hst2 ⊢
    subst hok2
    have hr3 := requestQ horc .arena a2 0 hst2.1
    rcases hq3 : a2.request x.orc .arena with ⟨ok3, a3⟩
    rw [hq3] at hr3
    obtain ⟨hok3, hst3⟩ := hr3
    dsimp only at hok3 hst3 ⊢
    subst hok3
    simp only [Bool.and_self, Bool.not_true, Bool.false_eq_true, ↓reduceIte]
    have h4 := keepOldA_q horc nks ks vs a3 hst3.1
    rcases hq4 : keepOldA x nks ks vs a3 with ⟨⟨oks, ovs⟩, a4⟩
    rw [hq4] at h4
    dsimp only at h4 ⊢
    have hall : StpQ (5 + 2 * (sz form * szL nks)) a a4 :=
      (((hst1.trans hst2).trans hst3).trans (h4.1.mono2 (A' := sz form) (by omega) (Nat.le_refl _))).mono (by omega)
    split
    · exact ⟨hall, fun _ h => by cases h⟩
    · refine ⟨hall, fun form' h => ?_⟩
      cases h
      have := sz_setMd form (some (.map h md (nks ++ oks) (nvs ++ ovs))) ht
      rw [hmd] at this
      simp only [szO, sz, szL_append] at this
      omega
  · have hr := requestQ horc .arena a 0 ha
    rcases hq : a.request x.orc .arena with ⟨ok, a1⟩
    rw [hq] at hr
    obtain ⟨hok, hst⟩ := hr
    dsimp only at hok hst ⊢
    subst hok
    simp only [Bool.not_true, Bool.false_eq_true, ↓reduceIte]
    have h2 := metaEntryQ horc m a1 hst.1
    rcases hq2 : metaEntryA x m a1 with ⟨okE, a2⟩
    rw [hq2] at h2
    obtain ⟨hok2, hst2⟩ := h2
    dsimp only at hok2 hst2
    subst hok2
    simp only [Bool.not_true, Bool.false_eq_true, ↓reduceIte]
    refine ⟨(hst.trans hst2).mono (by omega), fun form' h => ?_⟩
    cases h
    have := sz_setMd form (some (.map synthHdr none nks nvs)) ht
    simp only [szO, sz] at this
    omega

end

end Edn.Proofs.AllocBoundQ
