/-
  Edn.Proofs.AllocBoundQ6 — induction over the six readers, part 2: the element loop of
  lists / vectors / sets and the entry loop of maps.  As in Edn.Proofs.AllocBoundAux6 an element
  pays for the builder, an entry for the rewritten key and the map builder, the closing delimiter
  for the final array(s), the scratch array and the collection value; the looks of the duplicate
  check (four per pair of nodes) are paid by what the opening byte reserved.
-/
import Edn.Proofs.AllocBoundQ5

namespace Edn.Proofs.AllocBoundQ
open Edn.Model Edn.Proofs Edn.Proofs.AllocBasic Edn.Proofs.AllocBound

theorem sz_qualifyKey (n : Bytes) (k : Val) : sz (qualifyKey n k) ≤ sz k := by
  unfold qualifyKey
  split
  · split
    · simp only [sz]; omega
    · split
      · simp only [sz]; omega
      · exact Nat.le_refl _
  · split
    · simp only [sz, szO]; omega
    · split
      · simp only [sz, szO]; omega
      · exact Nat.le_refl _
  · exact Nat.le_refl _

section
variable {x : ACtx} (H : HypQ x) (hst : ∀ n, (x.sortTouch n).length ≤ n)
include H

/-- the request of a collection (or tagged) value at the end of a form -/
theorem value_rel_L (st st'' stE : St) (a a1 : ASt) (v : Val) (L0 : Nat)
    (hsz : sz v + 2 * st''.rest.length ≤ 2 * L0 + 2) (ha1 : a1.arena = .alive)
    (hc : a1.reqs + 1 + Pot st''.rest.length ≤ a.reqs + Pot st.rest.length + 2 + Rsv L0) :
    RelL L0 st a
      (let (okV, a2) := a1.request x.orc .arena
       if !okV then (.err oomErr stE, a2) else (.ok v st'', a2)) := by
  have hr := requestQ H.orc .arena a1 0 ha1
  rcases hq : a1.request x.orc .arena with ⟨ok, a2⟩
  rw [hq] at hr
  obtain ⟨hok, hst⟩ := hr
  dsimp only at hok hst ⊢
  subst hok
  simp only [Bool.not_true, Bool.false_eq_true, ↓reduceIte]
  exact ⟨hst.1, hsz, by have := hst.2; simp only; omega⟩

include hst

theorem readSeqA_bstep (f : Nat) (hV : BV x f) (hS : BS x f) : BS x (f + 1) := by
  intro d dm kind start st a b acc L0 ha hacc
  unfold readSeqA
  dsimp only
  have h1 := hV (d + 1) dm st a ha
  rcases hq : readValueA x f (d + 1) dm st a with ⟨r, a'⟩
  rw [hq] at h1
  obtain ⟨ha', h1c⟩ := h1
  cases r with
  | ok v st' =>
    dsimp only at h1c ⊢
    obtain ⟨gv, hc1⟩ := h1c
    obtain ⟨⟨b', hb'⟩, h2⟩ := addQ H.orc b a' ha'
    rcases hq2 : b.add x a' with ⟨ob, a1⟩
    rw [hq2] at hb' h2
    dsimp only at hb' h2
    subst hb'
    dsimp only
    exact (hS d dm kind start st' a1 b' (v :: acc) L0 h2.1 (by simp only [szL]; omega)).after
      (by have := h2.2; omega)
  | err e st' =>
    dsimp only at h1c ⊢
    split <;> exact ⟨ha', by somega⟩
  | closer st' =>
    dsimp only at h1c ⊢
    obtain ⟨hle, hc1⟩ := h1c
    split
    · exact ⟨ha', by somega⟩
    · next c r hr =>
      have hlen : st'.rest.length = r.length + 1 := by rw [hr]; rfl
      have hp : Pot r.length + 4 ≤ Pot st'.rest.length := by rw [hlen, Pot_succ]; omega
      split
      · exact ⟨ha', by somega⟩
      · obtain ⟨hokF, h2⟩ := finishQ H.orc b a' ha'
        rcases hq2 : b.finish x a' with ⟨okF, a1⟩
        rw [hq2] at hokF h2
        dsimp only at hokF h2
        subst hokF
        simp only [Bool.not_true, Bool.false_eq_true, ↓reduceIte]
        have hc2 := h2.2
        split
        · exact value_rel_L H st _ _ a a1 _ L0 (by simp only [sz, szO, szL_reverse]; omega) h2.1
            (by simp only; omega)
        · split
          · exact value_rel_L H st _ _ a a1 _ L0 (by simp only [sz, szO, szL_reverse]; omega) h2.1
              (by simp only; omega)
          · have h3 := hasDuplicatesA_q H.orc hst acc.reverse a1 h2.1
            rcases hq3 : hasDuplicatesA x acc.reverse a1 with ⟨⟨dup, ys⟩, a2⟩
            rw [hq3] at h3
            dsimp only at h3 ⊢
            rw [szL_reverse] at h3
            have hpay := Rsv_pays (S := szL acc) (L0 := L0) (by omega)
            have hc3 := h3.1.2
            split
            · exact ⟨h3.1.1, by somega⟩
            · split
              · exact ⟨h3.1.1, by somega⟩
              · exact value_rel_L H st _ _ a a2 _ L0 (by simp only [sz, szO, h3.2]; omega) h3.1.1
                  (by simp only; omega)

theorem readMapA_bstep (f : Nat) (hV : BV x f) (hM : BM x f) : BM x (f + 1) := by
  intro d dm start ns st a b ks vs L0 ha hacc
  unfold readMapA
  dsimp only
  have h1 := hV (d + 1) dm st a ha
  rcases hq : readValueA x f (d + 1) dm st a with ⟨r, a'⟩
  rw [hq] at h1
  obtain ⟨ha', h1c⟩ := h1
  cases r with
  | err e st' =>
    dsimp only at h1c ⊢
    split <;> exact ⟨ha', by somega⟩
  | closer st' =>
    dsimp only at h1c ⊢
    obtain ⟨hle, hc1⟩ := h1c
    split
    · exact ⟨ha', by somega⟩
    · next c r hr =>
      have hlen : st'.rest.length = r.length + 1 := by rw [hr]; rfl
      have hp : Pot r.length + 4 ≤ Pot st'.rest.length := by rw [hlen, Pot_succ]; omega
      split
      · exact ⟨ha', by somega⟩
      · obtain ⟨hokF, h2⟩ := finishPairQ H.orc b a' ha'
        rcases hq2 : b.finishPair x a' with ⟨okF, a1⟩
        rw [hq2] at hokF h2
        dsimp only at hokF h2
        subst hokF
        simp only [Bool.not_true, Bool.false_eq_true, ↓reduceIte]
        have hc2 := h2.2
        have h3 := hasDuplicatesA_q H.orc hst ks.reverse a1 h2.1
        rcases hq3 : hasDuplicatesA x ks.reverse a1 with ⟨⟨dup, keys'⟩, a2⟩
        rw [hq3] at h3
        dsimp only at h3 ⊢
        rw [szL_reverse] at h3
        have hpay := Rsv_pays (S := szL ks) (L0 := L0) (by omega)
        have hc3 := h3.1.2
        split
        · exact ⟨h3.1.1, by somega⟩
        · split
          · exact ⟨h3.1.1, by somega⟩
          · exact value_rel_L H st _ _ a a2 _ L0 (by simp only [sz, szO, h3.2, szL_reverse]; omega) h3.1.1
              (by simp only; omega)
  | ok k st' =>
    dsimp only at h1c ⊢
    obtain ⟨gk, hc1⟩ := h1c
    have h2 := hV (d + 1) dm st' a' ha'
    rcases hq2 : readValueA x f (d + 1) dm st' a' with ⟨r2, a''⟩
    rw [hq2] at h2
    obtain ⟨ha'', h2c⟩ := h2
    cases r2 with
    | closer st'' => dsimp only at h2c ⊢; exact ⟨ha'', by somega⟩
    | err e st'' => dsimp only at h2c ⊢; split <;> exact ⟨ha'', by somega⟩
    | ok v st'' =>
      dsimp only at h2c ⊢
      obtain ⟨gv, hc2⟩ := h2c
      -- the rewritten key
      have hk : ∀ rk : Bool × ASt, rk = (if ns.isSome && qualifyAllocs k then a''.request x.orc .arena else (true, a'')) →
          rk.1 = true ∧ StpQ 1 a'' rk.2 := by
        intro rk hrk; subst hrk
        split
        · exact requestQ H.orc .arena a'' 0 ha''
        · exact ⟨rfl, StpQ.zero ha''⟩
      generalize hg : (if ns.isSome && qualifyAllocs k then a''.request x.orc .arena else (true, a'')) = rk
      obtain ⟨hokK, h3⟩ := hk rk hg.symm
      rcases rk with ⟨okK, a1⟩
      dsimp only at hokK h3 ⊢
      subst hokK
      simp only [Bool.not_true, Bool.false_eq_true, ↓reduceIte]
      obtain ⟨⟨b', hb'⟩, h4⟩ := addPairQ H.orc b a1 h3.1
      rcases hq4 : b.addPair x a1 with ⟨ob, a2⟩
      rw [hq4] at hb' h4
      dsimp only at hb' h4
      subst hb'
      dsimp only
      exact RelL.after (st := st) (a := a)
        (hM d dm start ns st'' a2 b' _ (v :: vs) L0 h4.1 (by
          simp only [szL]
          split
          · next n => have := sz_qualifyKey n k; omega
          · omega))
        (by have := h3.2; have := h4.2; omega)

end

end Edn.Proofs.AllocBoundQ
