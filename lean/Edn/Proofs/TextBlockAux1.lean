/-
  Edn.Proofs.TextBlockAux1 — scanner side of C20: `tbContent`, `tbLine`, `tbLines` on
  encoded source lines.
-/
import Edn.Spec.TextBlock
import Edn.Model.Reader

namespace Edn.Proofs
open Edn.Model Edn.Spec

/-- the content holds an escaped triple quote -/
def hasEsc : Bytes → Bool
  | [] => false
  | c :: r => ([0x5C, 0x22, 0x22, 0x22] : Bytes).isPrefixOf (c :: r) || hasEsc r

/-! ### equations of `tbContent` -/

theorem tbContent_esc (f : Nat) (acc : Bytes) (esc : Bool) (r : Bytes) :
    tbContent (f + 1) acc esc (0x5C :: 0x22 :: 0x22 :: 0x22 :: r) =
      tbContent f (0x22 :: 0x22 :: 0x22 :: 0x5C :: acc) true r := by
  simp [tbContent]

theorem tbContent_close (f : Nat) (acc : Bytes) (esc : Bool) (r : Bytes) :
    tbContent (f + 1) acc esc (0x22 :: 0x22 :: 0x22 :: r) = some (acc.reverse, esc, true, r) := by
  simp [tbContent]

theorem tbContent_lf (f : Nat) (acc : Bytes) (esc : Bool) (r : Bytes) :
    tbContent (f + 1) acc esc (0x0A :: r) = some (acc.reverse, esc, false, r) := by
  simp [tbContent]

theorem tbContent_other (f : Nat) (acc : Bytes) (esc : Bool) (c : UInt8) (r : Bytes)
    (hlf : c ≠ 0x0A) (hq : ¬ [0x22, 0x22, 0x22] <+: c :: r)
    (he : ¬ [0x5C, 0x22, 0x22, 0x22] <+: c :: r) :
    tbContent (f + 1) acc esc (c :: r) = tbContent f (c :: acc) esc r := by
  conv => lhs; unfold tbContent
  split
  · exact absurd (by simp) he
  · exact absurd (by simp) hq
  · exact absurd rfl hlf
  · rfl

/-! ### what may follow a body -/

/-- a line feed, or the closing delimiter when the body's last byte cannot fuse with it -/
def GoodTail (body t : Bytes) : Prop :=
  (∃ rest, t = 0x0A :: rest) ∨
  (∃ rest, t = 0x22 :: 0x22 :: 0x22 :: rest ∧ body.getLast? ≠ some 0x5C ∧ body.getLast? ≠ some 0x22)

/-- (terminal, rest) for a good tail -/
def tailRes : Bytes → Bool × Bytes
  | 0x0A :: rest => (false, rest)
  | t => (true, t.drop 3)

theorem goodTail_nil (t : Bytes) (h : GoodTail [] t) :
    ∀ f acc esc, tbContent (f + 1) acc esc t = some (acc.reverse, esc, (tailRes t).1, (tailRes t).2) := by
  intro f acc esc
  rcases h with ⟨rest, rfl⟩ | ⟨rest, rfl, _, _⟩
  · rw [tbContent_lf]; rfl
  · rw [tbContent_close]; rfl

theorem goodTail_tail (c : UInt8) (r t : Bytes) (h : GoodTail (c :: r) t) : GoodTail r t := by
  rcases h with h | ⟨rest, rfl, h1, h2⟩
  · exact .inl h
  · refine .inr ⟨rest, rfl, ?_, ?_⟩
    · cases r with
      | nil => simp
      | cons a r => simpa [List.getLast?_cons_cons] using h1
    · cases r with
      | nil => simp
      | cons a r => simpa [List.getLast?_cons_cons] using h2

theorem goodTail_q3 (c : UInt8) (r t : Bytes) (h : GoodTail (c :: r) t)
    (hq : ¬ [0x22, 0x22, 0x22] <+: c :: r) : ¬ [0x22, 0x22, 0x22] <+: c :: (r ++ t) := by
  rcases h with ⟨rest, rfl⟩ | ⟨rest, rfl, h1, h2⟩
  · rcases r with _ | ⟨r0, _ | ⟨r1, _ | ⟨r2, r'⟩⟩⟩ <;> simp_all
  · rcases r with _ | ⟨r0, _ | ⟨r1, _ | ⟨r2, r'⟩⟩⟩ <;> simp_all [List.getLast?_cons_cons] <;> grind

theorem goodTail_q4 (c : UInt8) (r t : Bytes) (h : GoodTail (c :: r) t)
    (hq : ¬ [0x5C, 0x22, 0x22, 0x22] <+: c :: r) : ¬ [0x5C, 0x22, 0x22, 0x22] <+: c :: (r ++ t) := by
  rcases h with ⟨rest, rfl⟩ | ⟨rest, rfl, h1, h2⟩
  · rcases r with _ | ⟨r0, _ | ⟨r1, _ | ⟨r2, r'⟩⟩⟩ <;> simp_all
  · rcases r with _ | ⟨r0, _ | ⟨r1, _ | ⟨r2, r'⟩⟩⟩ <;> simp_all [List.getLast?_cons_cons] <;> grind

theorem tbContent_body (body : Bytes) (hb : TbBody body) :
    ∀ (f : Nat) (acc : Bytes) (esc : Bool) (t : Bytes), GoodTail body t → body.length < f →
      tbContent f acc esc (body ++ t) =
        some (acc.reverse ++ body, esc || hasEsc body, (tailRes t).1, (tailRes t).2) := by
  induction hb with
  | nil =>
    intro f acc esc t ht hf
    obtain ⟨k, rfl⟩ : ∃ k, f = k + 1 := ⟨f - 1, by simp at hf; omega⟩
    simp [goodTail_nil t ht, hasEsc]
  | esc r _ ih =>
    intro f acc esc t ht hf
    obtain ⟨k, rfl⟩ : ∃ k, f = k + 1 := ⟨f - 1, by omega⟩
    have ht' : GoodTail r t :=
      goodTail_tail _ _ _ (goodTail_tail _ _ _ (goodTail_tail _ _ _ (goodTail_tail _ _ _ ht)))
    simp only [List.cons_append]
    rw [tbContent_esc, ih k _ _ t ht' (by simp at hf; omega)]
    simp [hasEsc]
  | plain c r hlf hq he _ ih =>
    intro f acc esc t ht hf
    obtain ⟨k, rfl⟩ : ∃ k, f = k + 1 := ⟨f - 1, by omega⟩
    simp only [List.cons_append]
    rw [tbContent_other _ _ _ _ _ hlf (goodTail_q3 c r t ht hq) (goodTail_q4 c r t ht he),
      ih k _ _ t (goodTail_tail _ _ _ ht) (by simp at hf; omega)]
    have : ([0x5C, 0x22, 0x22, 0x22] : Bytes).isPrefixOf (c :: r) = false := by
      rw [Bool.eq_false_iff]; intro h; exact he (List.isPrefixOf_iff_prefix.mp h)
    simp [hasEsc, this]

/-! ### `tbLine` -/

theorem span_blank (ind x : Bytes) (hi : ∀ c ∈ ind, isBlank c = true)
    (hx : ∀ c, x.head? = some c → isBlank c = false) :
    (ind ++ x).takeWhile isBlank = ind ∧ (ind ++ x).dropWhile isBlank = x := by
  induction ind with
  | nil =>
    cases x with
    | nil => simp
    | cons c x => simp [hx c rfl]
  | cons a ind ih =>
    have ha : isBlank a = true := hi a (by simp)
    have := ih (fun c hc => hi c (by simp [hc]))
    simp [ha, this]

theorem goodTail_head (body t : Bytes) (ht : GoodTail body t) :
    ∀ c, t.head? = some c → isBlank c = false := by
  rcases ht with ⟨rest, rfl⟩ | ⟨rest, rfl, _, _⟩ <;> simp <;> decide

theorem tbLine_enc (ind body t : Bytes) (hi : ∀ c ∈ ind, isBlank c = true)
    (hh : ∀ c, body.head? = some c → isBlank c = false) (hb : TbBody body) (ht : GoodTail body t) :
    tbLine (ind ++ body ++ t) =
      some ({ indent := ind, content := body, hasNewline := !(tailRes t).1, needsEsc := hasEsc body,
              terminal := (tailRes t).1 }, (tailRes t).2) := by
  have hx : ∀ c, (body ++ t).head? = some c → isBlank c = false := by
    cases body with
    | nil => simpa using goodTail_head [] t ht
    | cons b body => simpa using hh
  obtain ⟨h1, h2⟩ := span_blank ind (body ++ t) hi hx
  unfold tbLine
  rw [List.append_assoc, h1, h2]
  simp only []
  rw [tbContent_body body hb _ _ _ t ht (by simp; omega)]
  simp

/-! ### `tbLines` -/

/-- the scanner's record of a source line that ends in a line feed -/
def toTb (l : SrcLine) : TbLine :=
  { indent := l.indent, content := l.body, hasNewline := true, needsEsc := hasEsc l.body, terminal := false }

/-- the scanner's record of the line holding the closing delimiter -/
def closeTb (ind body : Bytes) : TbLine :=
  { indent := ind, content := body, hasNewline := false, needsEsc := hasEsc body, terminal := true }

theorem tbLines_succ (f : Nat) (s : Bytes) (acc : List TbLine) :
    tbLines (f + 1) s acc =
      if s.isEmpty then .error .missingCloser
      else match tbLine s with
        | none => .error (.eofInLine s)
        | some (ln, rest) =>
          if ln.terminal then .ok ((ln :: acc).reverse, rest) else tbLines f rest (ln :: acc) := rfl

theorem tbLine_lf (l : SrcLine) (hl : l.WF) (t : Bytes) :
    tbLine (l.indent ++ l.body ++ [0x0A] ++ t) = some (toTb l, t) := by
  have := tbLine_enc l.indent l.body (0x0A :: t) hl.1 hl.2.1 hl.2.2 (.inl ⟨t, rfl⟩)
  simpa [tailRes, toTb] using this

theorem tbLine_close (ind body rest : Bytes) (hi : ∀ c ∈ ind, isBlank c = true)
    (hh : ∀ c, body.head? = some c → isBlank c = false) (hb : TbBody body)
    (h1 : body.getLast? ≠ some 0x5C) (h2 : body.getLast? ≠ some 0x22) :
    tbLine (ind ++ body ++ [0x22, 0x22, 0x22] ++ rest) = some (closeTb ind body, rest) := by
  have := tbLine_enc ind body (0x22 :: 0x22 :: 0x22 :: rest) hi hh hb (.inr ⟨rest, rfl, h1, h2⟩)
  simpa [tailRes, closeTb] using this

theorem tbLines_enc (lines : List SrcLine) (hl : ∀ l ∈ lines, l.WF) :
    ∀ (f : Nat) (tail : Bytes) (acc : List TbLine),
      tbLines (f + lines.length) ((lines.map fun l => l.indent ++ l.body ++ [0x0A]).flatten ++ tail) acc =
        tbLines f tail ((lines.map toTb).reverse ++ acc) := by
  induction lines with
  | nil => intro f tail acc; simp
  | cons l ls ih =>
    intro f tail acc
    have hwf : l.WF := hl l (by simp)
    have e : f + (l :: ls).length = (f + ls.length) + 1 := by simp; omega
    rw [e, tbLines_succ]
    simp only [List.map_cons, List.flatten_cons]
    rw [List.append_assoc, tbLine_lf l hwf]
    have hne : (l.indent ++ l.body ++ [0x0A] ++
        ((ls.map fun (l : SrcLine) => l.indent ++ l.body ++ [0x0A]).flatten ++ tail)).isEmpty = false := by simp
    rw [hne]
    simp only [Bool.false_eq_true, if_false, toTb]
    rw [ih (fun l h => hl l (by simp [h]))]
    simp

theorem enc_length (lines : List SrcLine) :
    lines.length ≤ ((lines.map fun l => l.indent ++ l.body ++ [0x0A]).flatten).length := by
  induction lines with
  | nil => simp
  | cons l ls ih => simp at ih ⊢; omega

/-- scanning a block: the lines before the closing line, then the closing line -/
theorem tbLines_block (lines : List SrcLine) (hl : ∀ l ∈ lines, l.WF) (ind body rest : Bytes)
    (hi : ∀ c ∈ ind, isBlank c = true)
    (hh : ∀ c, body.head? = some c → isBlank c = false) (hb : TbBody body)
    (h1 : body.getLast? ≠ some 0x5C) (h2 : body.getLast? ≠ some 0x22) (s : Bytes)
    (hs : s = (lines.map fun l => l.indent ++ l.body ++ [0x0A]).flatten ++
      (ind ++ body ++ [0x22, 0x22, 0x22] ++ rest)) :
    tbLines (s.length + 2) s [] = .ok (lines.map toTb ++ [closeTb ind body], rest) := by
  have hlen := enc_length lines
  obtain ⟨k, hk⟩ : ∃ k, s.length + 2 = (k + 1) + lines.length :=
    ⟨s.length + 1 - lines.length, by subst hs; simp at hlen ⊢; omega⟩
  rw [hk, hs, tbLines_enc lines hl, tbLines_succ, tbLine_close ind body rest hi hh hb h1 h2]
  simp [closeTb]

end Edn.Proofs
