/-
  Edn.Proofs.FlagIndepAux4 — flag independence (C18): list lemmas for `eraseCacheL`,
  `flagOKL`, `coreStringsL`; the accumulators of `readSeq` / `readMap` are part of the
  result; `#:` is never a tagged literal.
-/
import Edn.Proofs.FlagIndepAux1
import Edn.Proofs.FlagIndepAux2
import Edn.Proofs.FlagIndepAux3
import Edn.Proofs.ReaderInv

namespace Edn.Proofs
open Edn.Model Edn.Spec Edn.Generated

/-! ## lists -/

theorem eraseCacheL_append : ∀ (a b : List Val), eraseCacheL (a ++ b) = eraseCacheL a ++ eraseCacheL b
  | [], b => rfl
  | x :: a, b => by
    show eraseCacheL (x :: (a ++ b)) = _
    rw [eraseCacheL_cons, eraseCacheL_cons, eraseCacheL_append a b]; rfl

theorem eraseCacheL_reverse : ∀ (a : List Val), eraseCacheL a.reverse = (eraseCacheL a).reverse
  | [] => rfl
  | x :: a => by
    rw [List.reverse_cons, eraseCacheL_append, eraseCacheL_reverse a, eraseCacheL_cons x a,
      List.reverse_cons]
    rfl

theorem eraseCacheL_reverse_congr {a a' : List Val} (h : eraseCacheL a' = eraseCacheL a) :
    eraseCacheL a'.reverse = eraseCacheL a.reverse := by
  rw [eraseCacheL_reverse, eraseCacheL_reverse, h]

theorem eraseCacheL_cons_congr {x x' : Val} {a a' : List Val} (hx : eraseCache x' = eraseCache x)
    (h : eraseCacheL a' = eraseCacheL a) : eraseCacheL (x' :: a') = eraseCacheL (x :: a) := by
  rw [eraseCacheL_cons, eraseCacheL_cons, hx, h]

theorem flagOKL_iff (cfg : Cfg) : ∀ (xs : List Val), flagOKL cfg xs ↔ ∀ x ∈ xs, flagOK cfg x
  | [] => by unfold flagOKL; simp
  | x :: xs => by
    unfold flagOKL
    rw [flagOKL_iff cfg xs]
    simp

theorem flagOKL_reverse (cfg : Cfg) {xs : List Val} (h : flagOKL cfg xs) : flagOKL cfg xs.reverse := by
  rw [flagOKL_iff] at h ⊢
  intro x hx
  exact h x (List.mem_reverse.mp hx)

theorem flagOKL_cons (cfg : Cfg) {x : Val} {xs : List Val} (hx : flagOK cfg x) (h : flagOKL cfg xs) :
    flagOKL cfg (x :: xs) := by
  unfold flagOKL; exact ⟨hx, h⟩

theorem flagOKL_nil (cfg : Cfg) : flagOKL cfg [] := by unfold flagOKL; trivial

theorem coreStringsL_iff : ∀ (xs : List Val), coreStringsL xs = true ↔ ∀ x ∈ xs, coreStrings x = true
  | [] => by unfold coreStringsL; simp
  | x :: xs => by
    unfold coreStringsL
    rw [Bool.and_eq_true, coreStringsL_iff xs]
    simp

theorem coreStringsL_reverse {xs : List Val} : coreStringsL xs.reverse = true ↔ coreStringsL xs = true := by
  rw [coreStringsL_iff, coreStringsL_iff]
  constructor
  · intro h x hx; exact h x (List.mem_reverse.mpr hx)
  · intro h x hx; exact h x (List.mem_reverse.mp hx)

theorem coreStrings_setHdr (v : Val) (h' : Hdr) : coreStrings (v.setHdr h') = coreStrings v := by
  cases v <;> rfl

theorem coreStrings_hashOp (cfg : Cfg) (v : Val) : coreStrings (hashOp cfg v).2 = coreStrings v := by
  unfold hashOp
  simp only []
  split
  · rfl
  · exact coreStrings_setHdr _ _

theorem coreStringsL_hasDuplicates (cfg : Cfg) (xs : List Val)
    (h : coreStringsL (hasDuplicates cfg xs).2 = true) : coreStringsL xs = true := by
  unfold hasDuplicates at h
  split at h
  · exact h
  · split at h
    · exact h
    · simp only [] at h
      rw [coreStringsL_iff] at h ⊢
      intro x hx
      have := h _ (List.mem_map.mpr ⟨x, hx, rfl⟩)
      rw [coreStrings_hashOp] at this
      exact this

/-! ## numbers -/

theorem flagOK_numToVal (cfg : Cfg) (h : Hdr) (n : NumVal) (hn : numNoUS n) : flagOK cfg (numToVal h n) := by
  cases n <;> first
    | (unfold numToVal flagOK; exact hn)
    | (unfold numToVal flagOK; trivial)

theorem readNumberRes_core_ok (cfg : Cfg) (o o' : Opts) (st st' : St) (v : Val)
    (h : readNumberRes { cfg := Cfg.core, opts := o } st = .ok v st') :
    readNumberRes { cfg := cfg, opts := o' } st = .ok v st' ∧ st'.rest <:+ st.rest ∧ flagOK cfg v := by
  unfold readNumberRes at h ⊢
  simp only [] at h ⊢
  cases hn : readNumber Cfg.core st.rest with
  | err cur => rw [hn] at h; cases h
  | ok n rest =>
    rw [hn] at h
    obtain ⟨h1, h2, h3⟩ := readNumber_core_ok_aux cfg _ _ _ hn
    rw [h1]
    simp only [] at h ⊢
    cases h
    exact ⟨rfl, h2, flagOK_numToVal _ _ _ h3⟩

/-! ## the accumulators are part of the result -/

theorem readSeq_ok_acc (ctx : Ctx) : ∀ (f d : Nat) (dm : Bool) (kind start : Nat) (st : St) (acc : List Val)
    (v : Val) (st' : St), readSeq ctx f d dm kind start st acc = .ok v st' → coreStrings v = true →
    coreStringsL acc = true := by
  intro f
  induction f with
  | zero => intro d dm kind start st acc v st' h; rw [readSeq_zero] at h; cases h
  | succ f ih =>
    intro d dm kind start st acc v st' h hv
    rw [readSeq_succ] at h
    unfold rsStep at h
    cases hr : readValue ctx f (d + 1) dm st with
    | ok x st1 =>
      rw [hr] at h
      simp only [] at h
      have := ih _ _ _ _ _ _ _ _ h hv
      unfold coreStringsL at this
      rw [Bool.and_eq_true] at this
      exact this.2
    | err e st1 =>
      rw [hr] at h
      simp only [] at h
      split at h <;> cases h
    | closer st1 =>
      rw [hr] at h
      simp only [] at h
      cases hs : st1.rest with
      | nil => rw [hs] at h; cases h
      | cons c r =>
        rw [hs] at h
        simp only [] at h
        split at h
        · cases h
        split at h
        · cases h
          unfold coreStrings at hv
          exact coreStringsL_reverse.mp hv
        split at h
        · cases h
          unfold coreStrings at hv
          exact coreStringsL_reverse.mp hv
        · generalize hq : hasDuplicates ctx.cfg acc.reverse = q at h
          obtain ⟨dup, ys⟩ := q
          simp only [] at h
          split at h
          · cases h
          · cases h
            unfold coreStrings at hv
            have : ys = (hasDuplicates ctx.cfg acc.reverse).2 := by rw [hq]
            rw [this] at hv
            exact coreStringsL_reverse.mp (coreStringsL_hasDuplicates _ _ hv)

theorem readMap_ok_acc (ctx : Ctx) : ∀ (f d : Nat) (dm : Bool) (start : Nat) (st : St) (ks vs : List Val)
    (v : Val) (st' : St), readMap ctx f d dm start none st ks vs = .ok v st' → coreStrings v = true →
    coreStringsL ks = true ∧ coreStringsL vs = true := by
  intro f
  induction f with
  | zero => intro d dm start st ks vs v st' h; rw [readMap_zero] at h; cases h
  | succ f ih =>
    intro d dm start st ks vs v st' h hv
    rw [readMap_succ] at h
    unfold rmStep at h
    simp only [] at h
    cases hr : readValue ctx f (d + 1) dm st with
    | ok k st1 =>
      rw [hr] at h
      simp only [] at h
      cases hr2 : readValue ctx f (d + 1) dm st1 with
      | ok x st2 =>
        rw [hr2] at h
        simp only [] at h
        have := ih _ _ _ _ _ _ _ _ h hv
        unfold coreStringsL at this
        rw [Bool.and_eq_true, Bool.and_eq_true] at this
        exact ⟨this.1.2, this.2.2⟩
      | err e st2 =>
        rw [hr2] at h
        simp only [] at h
        split at h <;> cases h
      | closer st2 => rw [hr2] at h; cases h
    | err e st1 =>
      rw [hr] at h
      simp only [] at h
      split at h <;> cases h
    | closer st1 =>
      rw [hr] at h
      simp only [] at h
      cases hs : st1.rest with
      | nil => rw [hs] at h; cases h
      | cons c r =>
        rw [hs] at h
        simp only [] at h
        split at h
        · cases h
        · generalize hq : hasDuplicates ctx.cfg ks.reverse = q at h
          obtain ⟨dup, ys⟩ := q
          simp only [] at h
          split at h
          · cases h
          · cases h
            unfold coreStrings at hv
            rw [Bool.and_eq_true] at hv
            have : ys = (hasDuplicates ctx.cfg ks.reverse).2 := by rw [hq]
            rw [this] at hv
            exact ⟨coreStringsL_reverse.mp (coreStringsL_hasDuplicates _ _ hv.1), coreStringsL_reverse.mp hv.2⟩

/-! ## `#:` is not a tagged literal -/

theorem identSplit_ns (len : Nat) (sl : Option Nat) (k : Nat) (h : (identSplit len sl).ns = some k) :
    1 ≤ k := by
  unfold identSplit at h
  split at h
  · cases h
  · split at h
    · split at h
      · cases h
      · split at h
        · cases h
        · split at h
          · cases h
          · rename_i h1 _
            simp only [Option.some.injEq] at h
            subst h
            simp at h1; omega
    · cases h

theorem scanIdent_ns (s : Bytes) (k : Nat) (h : (scanIdent s).ns = some k) : 1 ≤ k := by
  have key : (scanIdent s = { valid := false }) ∨ ∃ len sl, scanIdent s = identSplit len sl := by
    unfold scanIdent
    split
    · split
      · exact Or.inl rfl
      · exact Or.inr ⟨_, _, rfl⟩
    · simp only []
      split
      · exact Or.inl rfl
      · exact Or.inr ⟨_, _, rfl⟩
  rcases key with hk | ⟨len, sl, hk⟩
  · rw [hk] at h; cases h
  · rw [hk] at h; exact identSplit_ns _ _ _ h

/-- an identifier token that starts with `:` is a keyword (or an error), never a symbol -/
theorem readIdentifier_colon (ctx : Ctx) (st st' : St) (t : Bytes) (v : Val) (hs : st.rest = 0x3A :: t)
    (h : readIdentifier ctx st = .ok v st') : ∃ hd ns nm, v = .kw hd ns nm := by
  unfold readIdentifier at h
  simp only [] at h
  split at h
  · cases h
  · rename_i hv
    have hv : (scanIdent st.rest).valid = true := by simpa using hv
    have h1 := scanIdent_valid _ hv
    obtain ⟨n, hn⟩ : ∃ n, (scanIdent st.rest).len = n + 1 := ⟨(scanIdent st.rest).len - 1, by omega⟩
    have htok : List.take (scanIdent st.rest).len st.rest = 0x3A :: List.take n t := by
      rw [hn, hs]; rfl
    rw [htok] at h
    cases hns : (scanIdent st.rest).ns with
    | none =>
      rw [hns] at h
      simp only [] at h
      rw [if_pos (by rfl)] at h
      split at h
      · cases h
      · split at h
        · cases h
        · cases h; exact ⟨_, _, _, rfl⟩
    | some k =>
      rw [hns] at h
      simp only [] at h
      have hk := scanIdent_ns _ _ hns
      obtain ⟨k', hk'⟩ : ∃ k', k = k' + 1 := ⟨k - 1, by omega⟩
      rw [hk'] at h
      rw [show List.take (k' + 1) (0x3A :: List.take n t) = 0x3A :: List.take k' (List.take n t) from rfl] at h
      rw [if_pos (by rfl)] at h
      split at h
      · cases h
      · split at h
        · cases h
        · cases h; exact ⟨_, _, _, rfl⟩

theorem readTagged_colon (ctx : Ctx) (f d : Nat) (dm : Bool) (start : Nat) (st : St) (t : Bytes)
    (hs : st.rest = 0x3A :: t) : ∃ e st', readTagged ctx f d dm start st = .err e st' := by
  cases f with
  | zero => rw [readTagged_zero]; exact ⟨_, _, rfl⟩
  | succ f =>
    rw [readTagged_succ]
    unfold rtStep
    simp only []
    rw [hs]
    simp only []
    rw [if_neg (by decide)]
    rw [← hs]
    cases hr : readIdentifier ctx st with
    | closer st1 =>
      have := (leaf_not_closer ctx st).2.2.1
      rw [hr] at this; cases this
    | err e st1 => exact ⟨_, _, rfl⟩
    | ok tagv st1 =>
      obtain ⟨hd, ns, nm, rfl⟩ := readIdentifier_colon ctx st st1 t tagv hs hr
      exact ⟨_, _, rfl⟩

end Edn.Proofs
