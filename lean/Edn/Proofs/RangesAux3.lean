/-
  Edn.Proofs.RangesAux3 — accumulator invariants of the element loops and the closing of
  a collection.
-/
import Edn.Proofs.RangesAux2

namespace Edn.Proofs
open Edn.Model Edn.Spec

/-- accumulated elements of a sequence (reverse reading order), opened at `start`, with the
    cursor at `cur` -/
structure AccS (start cur : Nat) (acc : List Val) : Prop where
  ok : ∀ x ∈ acc, RangeOK x
  bnd : ∀ x ∈ acc, x.hdr.synth = true ∨ (x.hdr.s ≤ start ∧ cur ≤ x.hdr.e)
  pw : acc.Pairwise (fun a b => before b a)

theorem AccS.nil (start cur : Nat) : AccS start cur [] :=
  ⟨by simp, by simp, List.Pairwise.nil⟩

theorem AccS.push {start cur : Nat} {acc : List Val} {v : Val} {st' : St} (h : AccS start cur acc)
    (hv : OkPost cur v st') (hcs : cur ≤ start) : AccS start st'.rest.length (v :: acc) := by
  have h1 := hv.he
  have h2 := hv.hlt
  have h3 := hv.hs
  refine ⟨?_, ?_, ?_⟩
  · intro x hx
    rcases List.mem_cons.mp hx with rfl | hx
    · exact hv.rok
    · exact h.ok x hx
  · intro x hx
    rcases List.mem_cons.mp hx with rfl | hx
    · exact Or.inr ⟨by omega, by omega⟩
    · rcases h.bnd x hx with hb | hb
      · exact Or.inl hb
      · exact Or.inr ⟨hb.1, by omega⟩
  · rw [List.pairwise_cons]
    refine ⟨?_, h.pw⟩
    intro x hx
    rcases h.bnd x hx with hb | hb
    · exact Or.inl hb
    · exact Or.inr (Or.inr (by omega))

/-- transfer of the sequence conditions along equal span keys -/
theorem seq_transfer {h : Hdr} {xs ys : List Val} (hsk : ys.map skv = xs.map skv)
    (h1 : ∀ x ∈ xs, encloses h x.hdr) (h2 : xs.Pairwise before) :
    (∀ x ∈ ys, encloses h x.hdr) ∧ ys.Pairwise before := by
  rw [encloses_all_iff] at h1 ⊢
  rw [pairwise_before_iff] at h2 ⊢
  rw [hsk]
  exact ⟨h1, h2⟩

theorem AccS.close {start cur stop : Nat} {acc : List Val} (h : AccS start cur acc) (hs : stop ≤ cur) :
    (∀ x ∈ acc.reverse, encloses (mkHdr start stop) x.hdr) ∧ acc.reverse.Pairwise before ∧ RangeOKL acc.reverse := by
  refine ⟨?_, ?_, ?_⟩
  · intro x hx
    rcases h.bnd x (List.mem_reverse.mp hx) with hb | hb
    · exact Or.inr (Or.inl hb)
    · exact Or.inr (Or.inr ⟨hb.1, by simp only [mkHdr]; omega⟩)
  · rw [List.pairwise_reverse]; exact h.pw
  · rw [rangeOKL_iff]
    exact fun x hx => h.ok x (List.mem_reverse.mp hx)

theorem seq_okPost_list {start stop : Nat} {xs : List Val} {st'' : St} (hlt : stop < start) (hst : st''.rest.length = stop)
    (h1 : ∀ x ∈ xs, encloses (mkHdr start stop) x.hdr) (h2 : xs.Pairwise before) (h3 : RangeOKL xs) :
    OkPost start (.list (mkHdr start stop) none xs) st'' ∧ OkPost start (.vec (mkHdr start stop) none xs) st'' ∧
    OkPost start (.set (mkHdr start stop) none xs) st'' := by
  refine ⟨⟨?_, rfl, hst.symm, by rw [hst]; exact hlt, Nat.le_refl _, trivial, mdTop_of_none rfl⟩,
    ⟨?_, rfl, hst.symm, by rw [hst]; exact hlt, Nat.le_refl _, trivial, mdTop_of_none rfl⟩,
    ⟨?_, rfl, hst.symm, by rw [hst]; exact hlt, Nat.le_refl _, trivial, mdTop_of_none rfl⟩⟩
  all_goals (simp only [RangeOK]; exact ⟨Or.inr hlt, h1, h2, h3, rangeOKO_none _⟩)

/-- accumulated entries of a map -/
structure AccM (start cur : Nat) (ks vs : List Val) : Prop where
  len : ks.length = vs.length
  okk : ∀ x ∈ ks, RangeOK x
  okv : ∀ x ∈ vs, RangeOK x
  bnd : ∀ x, x ∈ ks ∨ x ∈ vs → x.hdr.synth = true ∨ (x.hdr.s ≤ start ∧ cur ≤ x.hdr.e)
  pw : (interleave vs ks).Pairwise (fun a b => before b a)

theorem AccM.nil (start cur : Nat) : AccM start cur [] [] :=
  ⟨rfl, by simp, by simp, by simp, by simp [interleave]⟩

theorem AccM.push {start cur : Nat} {ks vs : List Val} {k k' v : Val} {st' st'' : St} (h : AccM start cur ks vs)
    (hk : OkPost cur k st') (hv : OkPost st'.rest.length v st'') (hcs : cur ≤ start)
    (hk' : RangeOK k' ∧ (k'.hdr.synth = true ∨ skv k' = skv k)) :
    AccM start st''.rest.length (k' :: ks) (v :: vs) := by
  have h1 := hk.he
  have h2 := hk.hlt
  have h3 := hk.hs
  have g1 := hv.he
  have g2 := hv.hlt
  have g3 := hv.hs
  have hkb : k'.hdr.synth = true ∨ (k'.hdr.s = k.hdr.s ∧ k'.hdr.e = k.hdr.e) := by
    rcases hk'.2 with hq | hq
    · exact Or.inl hq
    · simp only [skv, Prod.mk.injEq] at hq
      exact Or.inr ⟨hq.1, hq.2.1⟩
  refine ⟨by simp [h.len], ?_, ?_, ?_, ?_⟩
  · intro x hx
    rcases List.mem_cons.mp hx with rfl | hx
    · exact hk'.1
    · exact h.okk x hx
  · intro x hx
    rcases List.mem_cons.mp hx with rfl | hx
    · exact hv.rok
    · exact h.okv x hx
  · intro x hx
    simp only [List.mem_cons] at hx
    rcases hx with (rfl | hx) | (rfl | hx)
    · rcases hkb with hq | hq
      · exact Or.inl hq
      · exact Or.inr ⟨by omega, by omega⟩
    · rcases h.bnd x (Or.inl hx) with hb | hb
      · exact Or.inl hb
      · exact Or.inr ⟨hb.1, by omega⟩
    · exact Or.inr ⟨by omega, by omega⟩
    · rcases h.bnd x (Or.inr hx) with hb | hb
      · exact Or.inl hb
      · exact Or.inr ⟨hb.1, by omega⟩
  · simp only [interleave, List.pairwise_cons, List.mem_cons]
    refine ⟨?_, ?_, h.pw⟩
    · intro y hy
      rcases hy with rfl | hy
      · rcases hkb with hq | hq
        · exact Or.inl hq
        · exact Or.inr (Or.inr (by omega))
      · have hy' : y ∈ ks ∨ y ∈ vs := (mem_interleave hy).symm
        rcases h.bnd y hy' with hb | hb
        · exact Or.inl hb
        · exact Or.inr (Or.inr (by omega))
    · intro y hy
      have hy' : y ∈ ks ∨ y ∈ vs := (mem_interleave hy).symm
      rcases h.bnd y hy' with hb | hb
      · exact Or.inl hb
      · rcases hkb with hq | hq
        · exact Or.inr (Or.inl hq)
        · exact Or.inr (Or.inr (by omega))

theorem AccM.close (cfg : Cfg) {start cur stop : Nat} {ks vs : List Val} {st'' : St} (h : AccM start cur ks vs)
    (hs : stop ≤ cur) (hlt : stop < start) (hst : st''.rest.length = stop) :
    OkPost start (.map (mkHdr start stop) none (hasDuplicates cfg ks.reverse).2 vs.reverse) st'' := by
  have hsk := hasDuplicates_skv cfg ks.reverse
  have henc : ∀ l : List Val, (∀ x ∈ l, x ∈ ks ∨ x ∈ vs) → ∀ x ∈ l, encloses (mkHdr start stop) x.hdr := by
    intro l hl x hx
    rcases h.bnd x (hl x hx) with hb | hb
    · exact Or.inr (Or.inl hb)
    · exact Or.inr (Or.inr ⟨hb.1, by simp only [mkHdr]; omega⟩)
  have hpw : (interleave ks.reverse vs.reverse).Pairwise before := by
    rw [interleave_reverse _ _ h.len, List.pairwise_reverse]; exact h.pw
  refine ⟨?_, rfl, hst.symm, by rw [hst]; exact hlt, Nat.le_refl _, ?_, mdTop_of_none rfl⟩
  · simp only [RangeOK]
    refine ⟨Or.inr hlt, ?_, ?_, ?_, ?_, ?_, rangeOKO_none _⟩
    · rw [encloses_all_iff, hsk, ← encloses_all_iff]
      exact henc _ (fun x hx => Or.inl (List.mem_reverse.mp hx))
    · exact henc _ (fun x hx => Or.inr (List.mem_reverse.mp hx))
    · rw [pairwise_before_iff, interleave_map, hsk, ← interleave_map, ← pairwise_before_iff]
      exact hpw
    · apply hasDuplicates_rangeOK
      rw [rangeOKL_iff]
      exact fun x hx => h.okk x (List.mem_reverse.mp hx)
    · rw [rangeOKL_iff]
      exact fun x hx => h.okv x (List.mem_reverse.mp hx)
  · simp only [MapLen, hasDuplicates_length, List.length_reverse]
    exact h.len

end Edn.Proofs
