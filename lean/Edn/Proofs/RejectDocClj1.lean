/-
  Edn.Proofs.RejectDocClj1 — C10 / C19, whole documents with the Clojure flag: the *open context*
  of a defect generalised over the configuration and extended to the Clojure constructs
  (`DescClj`: an open `^` waiting for its annotation, an open `^ann` waiting for its target, a
  namespaced map `#:ns{` whose body is open), and the element loops over runs of complete forms
  of the configuration's grammar `FormX cfg (numJOf cfg) (strJOf cfg)`.

  No reader registry.  Everything is stated for "any sufficient fuel".
-/
import Edn.Proofs.RejectDocX
import Edn.Proofs.RejectDocAux4

namespace Edn.Proofs.RejectDocClj
open Edn.Model Edn.Spec Edn.Generated Edn.Proofs Edn.Proofs.Cmpl Edn.Proofs.RejectDoc Edn.Proofs.RejectDocX

/-- the reader context of a configuration -/
abbrev xctx (cfg : Cfg) (opts : Opts) : Ctx := { cfg := cfg, opts := opts }

/-- the grammar of a configuration with its number / string judgements plugged in -/
abbrev FX (cfg : Cfg) : Nat → Val → Bytes → Bytes → Prop := FormX cfg (numJOf cfg) (strJOf cfg)

/-! ## declarative side -/

/-- `FormsX cfg k n body after`: `body` is `n` complete forms of the configuration's grammar one
    after the other, nesting at most `k`, followed by `after` -/
inductive FormsX (cfg : Cfg) : Nat → Nat → Bytes → Bytes → Prop
  | nil (k : Nat) (after : Bytes) : FormsX cfg k 0 [] after
  | cons (k n : Nat) (a : Val) (tok body after : Bytes) (h : FX cfg k a tok (body ++ after))
      (hr : FormsX cfg k n body after) : FormsX cfg k (n + 1) (tok ++ body) after

/-- `DescClj cfg s c d dm pre d' dm'`: the *open context* of a defect, in any configuration.  A
    reader that expects a form at nesting depth `d` (discard mode `dm`) and is given `pre ++ s`
    works through `pre` and arrives in front of `s` expecting a form at depth `d'` (mode `dm'`).
    Beside the constructs of `Edn.Proofs.RejectDoc.Desc` (blanks, complete discarded forms, an
    open discard marker, an open tag, opened collections) the context may hold

    * `metaAnn`  a `^` whose annotation is still to come,
    * `metaTgt`  a `^` and a complete annotation (of an annotation kind) whose target is still to come,
    * `nsBody`   `#:name`, blanks, `{`, `n` complete forms and the open element.

    Metadata and namespaced maps count as nesting levels, as in the model.
    `c = false`: no collection is opened on the way (a *flat* context). -/
inductive DescClj (cfg : Cfg) (s : Bytes) : Bool → Nat → Bool → Bytes → Nat → Bool → Prop
  | here (c : Bool) (d : Nat) (dm : Bool) : DescClj cfg s c d dm [] d dm
  | blank (c : Bool) (d : Nat) (dm : Bool) (tr pre : Bytes) (d' : Nat) (dm' : Bool) (ht : Blank tr)
      (h : DescClj cfg s c d dm pre d' dm') : DescClj cfg s c d dm (tr ++ pre) d' dm'
  | skip (c : Bool) (d : Nat) (dm : Bool) (k : Nat) (b : Val) (tok pre : Bytes) (d' : Nat) (dm' : Bool)
      (hd : d + 1 + k ≤ Tables.maxNestingDepth) (hf : FX cfg k b tok (pre ++ s))
      (h : DescClj cfg s c d dm pre d' dm') : DescClj cfg s c d dm (0x23 :: 0x5F :: (tok ++ pre)) d' dm'
  | discard (c : Bool) (d : Nat) (dm : Bool) (pre : Bytes) (d' : Nat) (dm' : Bool)
      (hd : d < Tables.maxNestingDepth) (h : DescClj cfg s c (d + 1) true pre d' dm') :
      DescClj cfg s c d dm (0x23 :: 0x5F :: pre) d' dm'
  | tag (c : Bool) (d : Nat) (dm : Bool) (tg : Bytes) (ns : Option Bytes) (nm : Bytes) (pre : Bytes) (d' : Nat) (dm' : Bool)
      (hd : d < Tables.maxNestingDepth) (hl : IdentLex tg) (hden : IdentDenotes tg (.sym hdr0 none ns nm))
      (hu : tg.head? ≠ some 0x5F) (hsep : DelimStart (pre ++ s))
      (h : DescClj cfg s c (d + 1) dm pre d' dm') : DescClj cfg s c d dm (0x23 :: (tg ++ pre)) d' dm'
  | coll (d : Nat) (dm : Bool) (kind k n : Nat) (body pre : Bytes) (d' : Nat) (dm' : Bool)
      (hd : d + 1 + k ≤ Tables.maxNestingDepth) (hb : FormsX cfg k n body (pre ++ s))
      (h : DescClj cfg s true (d + 1) dm pre d' dm') : DescClj cfg s true d dm (opener kind ++ (body ++ pre)) d' dm'
  /-- `^` waiting for its annotation -/
  | metaAnn (c : Bool) (d : Nat) (dm : Bool) (pre : Bytes) (d' : Nat) (dm' : Bool)
      (hd : d < Tables.maxNestingDepth) (h : DescClj cfg s c (d + 1) dm pre d' dm') :
      DescClj cfg s c d dm (0x5E :: pre) d' dm'
  /-- `^annotation` waiting for its target -/
  | metaTgt (c : Bool) (d : Nat) (dm : Bool) (k : Nat) (am : Val) (nks nvs : List Val) (tokm pre : Bytes) (d' : Nat) (dm' : Bool)
      (hd : d + 1 + k ≤ Tables.maxNestingDepth) (hm : FX cfg k am tokm (pre ++ s))
      (he : metaEntriesC am = some (nks, nvs))
      (h : DescClj cfg s c (d + 1) dm pre d' dm') : DescClj cfg s c d dm (0x5E :: (tokm ++ pre)) d' dm'
  /-- `#:name {`, `n` complete forms, and the open element -/
  | nsBody (d : Nat) (dm : Bool) (name tr : Bytes) (k n : Nat) (body pre : Bytes) (d' : Nat) (dm' : Bool)
      (hd : d + 1 + k ≤ Tables.maxNestingDepth)
      (hl : IdentLex (0x3A :: name)) (hden : IdentDenotes (0x3A :: name) (.kw hdr0 none name)) (ht : Blank tr)
      (hb : FormsX cfg k n body (pre ++ s))
      (h : DescClj cfg s true (d + 1) dm pre d' dm') :
      DescClj cfg s true d dm (0x23 :: 0x3A :: (name ++ (tr ++ 0x7B :: (body ++ pre)))) d' dm'

/-- the last of `n + 1` forms, split off -/
theorem FormsX.snoc {cfg : Cfg} {k n : Nat} {body after : Bytes} (h : FormsX cfg k (n + 1) body after) :
    ∃ body1 tok a, body = body1 ++ tok ∧ FormsX cfg k n body1 (tok ++ after) ∧ FX cfg k a tok after := by
  generalize hm : n + 1 = m at h
  induction h generalizing n with
  | nil => omega
  | cons n' a tok body after hf hr ih =>
    have hn : n = n' := by omega
    subst hn
    cases n with
    | zero =>
      cases hr with
      | nil => exact ⟨[], tok, a, by simp, .nil _ _, by simpa using hf⟩
    | succ n0 =>
      obtain ⟨body1, tok1, a1, rfl, h1, h2⟩ := ih rfl
      refine ⟨tok ++ body1, tok1, a1, by simp, ?_, h2⟩
      exact .cons _ n0 a tok body1 _ (by simpa using hf) h1

/-! ## sites and loops -/

/-- "`readValue` at depth `d` in front of `s` fails with `e`, leaving `r`" - for every call log
    and every sufficient fuel -/
def SiteErrX (cfg : Cfg) (opts : Opts) (d : Nat) (dm : Bool) (s : Bytes) (e : ErrInfo) (r : Bytes) : Prop :=
  ∀ (cl : List Call) (f : Nat), 2 * s.length + 2 ≤ f →
    readValue (xctx cfg opts) f d dm { rest := s, calls := cl } = .err e { rest := r, calls := cl }

def LoopErrSX (cfg : Cfg) (opts : Opts) (d : Nat) (dm : Bool) (kind start : Nat) (s : Bytes) (e : ErrInfo) (r : Bytes) : Prop :=
  ∀ (cl : List Call) (f : Nat) (acc : List Val), 2 * s.length + 3 ≤ f →
    readSeq (xctx cfg opts) f d dm kind start { rest := s, calls := cl } acc = .err e { rest := r, calls := cl }

def LoopErrMX (cfg : Cfg) (opts : Opts) (d : Nat) (dm : Bool) (start : Nat) (ns : Option Bytes) (s : Bytes) (e : ErrInfo) (r : Bytes) : Prop :=
  ∀ (cl : List Call) (f : Nat) (ks vs : List Val), 2 * s.length + 3 ≤ f →
    readMap (xctx cfg opts) f d dm start ns { rest := s, calls := cl } ks vs = .err e { rest := r, calls := cl }

theorem rm_ok_eqX (ctx : Ctx) (f d : Nat) (dm : Bool) (start : Nat) (ns : Option Bytes) (st st1 st2 : St) (ks vs : List Val) (k v : Val)
    (h1 : readValue ctx f (d + 1) dm st = .ok k st1)
    (h2 : readValue ctx f (d + 1) dm st1 = .ok v st2) :
    ∃ k', readMap ctx (f + 1) d dm start ns st ks vs = readMap ctx f d dm start ns st2 (k' :: ks) (v :: vs) := by
  rw [readMap_succ]
  unfold rmStep
  simp only [h1, h2]
  exact ⟨_, rfl⟩

theorem formX_read_at (cfg : Cfg) (opts : Opts) (hreg : opts.registry = none) {k : Nat} {a : Val} {tok rest : Bytes}
    (h : FX cfg k a tok rest) (d : Nat) (hd : d + k ≤ Tables.maxNestingDepth) (dm : Bool) (cl : List Call) (f : Nat)
    (hf : 2 * (tok ++ rest).length + 2 ≤ f) :
    ∃ v, readValue (xctx cfg opts) f d dm { rest := tok ++ rest, calls := cl } = .ok v { rest := rest, calls := cl } ∧ stripM v = a :=
  formX_is_read cfg opts hreg _ _ (numExact_of cfg) (strExact_of cfg) k a tok rest h d hd dm cl f
    (by rw [List.length_append] at hf; exact hf)

theorem formX_len_pos (cfg : Cfg) (opts : Opts) (hreg : opts.registry = none) {k : Nat} {a : Val} {tok rest : Bytes}
    (h : FX cfg k a tok rest) (hk : k ≤ Tables.maxNestingDepth) : 0 < tok.length := by
  apply List.length_pos_iff.mpr
  have hr : CmplX.ReadsX cfg opts 0 a tok rest :=
    formX_reads opts hreg (numExact_of cfg) (strExact_of cfg) h 0 (by omega)
  exact hr.ne_nil

theorem rs_formsX (cfg : Cfg) (opts : Opts) (hreg : opts.registry = none) {k n : Nat} {body after : Bytes} (h : FormsX cfg k n body after)
    (d : Nat) (dm : Bool) (kind start : Nat) (hd : d + 1 + k ≤ Tables.maxNestingDepth) (e : ErrInfo) (r : Bytes)
    (hs : LoopErrSX cfg opts d dm kind start after e r) : LoopErrSX cfg opts d dm kind start (body ++ after) e r := by
  induction h with
  | nil after => simpa using hs
  | cons n a tok body after hf _ ih =>
    intro cl f acc hfu
    have hpos := formX_len_pos cfg opts hreg hf (by omega)
    simp only [List.append_assoc, List.length_append] at hfu ⊢
    match f, hfu with
    | f + 1, hfu =>
      obtain ⟨v, hv, -⟩ := formX_read_at cfg opts hreg hf (d + 1) (by omega) dm cl f
        (by simp only [List.length_append]; omega)
      rw [rs_ok_eq _ f d dm kind start _ _ acc v hv]
      exact ih hs cl f (v :: acc) (by simp only [List.length_append]; omega)

theorem rm_formsX (cfg : Cfg) (opts : Opts) (hreg : opts.registry = none) (k : Nat) (after : Bytes)
    (d : Nat) (dm : Bool) (start : Nat) (ns : Option Bytes) (hd : d + 1 + k ≤ Tables.maxNestingDepth) (e : ErrInfo) (r : Bytes)
    (hs : LoopErrMX cfg opts d dm start ns after e r) :
    ∀ (m : Nat) (body : Bytes), FormsX cfg k (2 * m) body after → LoopErrMX cfg opts d dm start ns (body ++ after) e r := by
  intro m
  induction m with
  | zero =>
    intro body h
    cases h with
    | nil => simpa using hs
  | succ m ih =>
    intro body h
    have e2 : 2 * (m + 1) = (2 * m + 1) + 1 := by omega
    rw [e2] at h
    cases h with
    | cons _ a1 tok1 body1 _ hf1 hr1 =>
      cases hr1 with
      | cons _ a2 tok2 body2 _ hf2 hr2 =>
        intro cl f ks vs hfu
        have hp1 := formX_len_pos cfg opts hreg hf1 (by omega)
        have hp2 := formX_len_pos cfg opts hreg hf2 (by omega)
        simp only [List.append_assoc, List.length_append] at hfu hf1 ⊢
        match f, hfu with
        | f + 1, hfu =>
          obtain ⟨v1, hv1, -⟩ := formX_read_at cfg opts hreg hf1 (d + 1) (by omega) dm cl f
            (by simp only [List.length_append]; omega)
          obtain ⟨v2, hv2, -⟩ := formX_read_at cfg opts hreg hf2 (d + 1) (by omega) dm cl f
            (by simp only [List.length_append]; omega)
          obtain ⟨k', hk'⟩ := rm_ok_eqX _ f d dm start ns _ _ _ ks vs v1 v2 hv1 hv2
          rw [hk']
          exact ih body2 hr2 cl f (k' :: ks) (v2 :: vs) (by simp only [List.length_append]; omega)

theorem loopSX_of_site (cfg : Cfg) (opts : Opts) (d : Nat) (dm : Bool) (kind start : Nat) (s : Bytes) (e : ErrInfo) (r : Bytes)
    (h : SiteErrX cfg opts (d + 1) dm s e r) : LoopErrSX cfg opts d dm kind start s (loopErr start e r) r := by
  intro cl f acc hf
  match f, hf with
  | f + 1, hf => rw [rs_err_eq _ f d dm kind start _ _ acc e (h cl f (by omega))]

theorem loopMX_of_site (cfg : Cfg) (opts : Opts) (d : Nat) (dm : Bool) (start : Nat) (ns : Option Bytes) (s : Bytes) (e : ErrInfo) (r : Bytes)
    (h : SiteErrX cfg opts (d + 1) dm s e r) : LoopErrMX cfg opts d dm start ns s (loopErr start e r) r := by
  intro cl f ks vs hf
  match f, hf with
  | f + 1, hf => rw [rm_err_eq _ f d dm start ns _ _ ks vs e (h cl f (by omega))]

theorem loopMX_of_site2 (cfg : Cfg) (opts : Opts) (hreg : opts.registry = none) (d : Nat) (dm : Bool) (start : Nat) (ns : Option Bytes)
    {k : Nat} {a : Val} {tok s : Bytes} (hf : FX cfg k a tok s) (hd : d + 1 + k ≤ Tables.maxNestingDepth)
    (e : ErrInfo) (r : Bytes)
    (h : SiteErrX cfg opts (d + 1) dm s e r) : LoopErrMX cfg opts d dm start ns (tok ++ s) (loopErr start e r) r := by
  intro cl f ks vs hfu
  have hp := formX_len_pos cfg opts hreg hf (by omega)
  simp only [List.length_append] at hfu
  match f, hfu with
  | f + 1, hfu =>
    obtain ⟨v, hv, -⟩ := formX_read_at cfg opts hreg hf (d + 1) (by omega) dm cl f (by simp only [List.length_append]; omega)
    rw [rm_err2_eq _ f d dm start ns _ _ _ ks vs v e hv (h cl f (by omega))]

/-! ## the opening delimiters -/

theorem siteX_of_loopS (cfg : Cfg) (opts : Opts) (d : Nat) (dm : Bool) (kind : Nat) (hk : kind < 3) (x : Bytes) (e : ErrInfo) (r : Bytes)
    (hd : d < Tables.maxNestingDepth)
    (h : LoopErrSX cfg opts d dm kind (opener kind ++ x).length x e r) : SiteErrX cfg opts d dm (opener kind ++ x) e r := by
  intro cl f hf
  have hp := opener_length_pos kind
  simp only [List.length_append] at hf
  match f, hf with
  | f + 1, hf =>
    have key := h cl f [] (by omega)
    match kind, hk with
    | 0, _ =>
      have := readValue_listOpen (xctx cfg opts) f d dm x cl hd
      simp only [opener, List.cons_append, List.nil_append, List.length_cons] at key ⊢
      rw [this, key]
    | 1, _ =>
      have := readValue_vecOpen (xctx cfg opts) f d dm x cl hd
      simp only [opener, List.cons_append, List.nil_append, List.length_cons] at key ⊢
      rw [this, key]
    | 2, _ =>
      have := readValue_setOpen (xctx cfg opts) f d dm x cl hd
      simp only [opener, List.cons_append, List.nil_append, List.length_cons] at key ⊢
      rw [this, key]

theorem siteX_of_loopM (cfg : Cfg) (opts : Opts) (d : Nat) (dm : Bool) (kind : Nat) (hk : 3 ≤ kind) (x : Bytes) (e : ErrInfo) (r : Bytes)
    (hd : d < Tables.maxNestingDepth)
    (h : LoopErrMX cfg opts d dm (opener kind ++ x).length none x e r) : SiteErrX cfg opts d dm (opener kind ++ x) e r := by
  intro cl f hf
  have ho : opener kind = [0x7B] := by
    unfold opener
    split
    · omega
    · omega
    · omega
    · rfl
  rw [ho] at h hf ⊢
  simp only [List.length_append, List.length_cons, List.length_nil] at hf
  match f, hf with
  | f + 1, hf =>
    have key := h cl f [] [] (by omega)
    have := readValue_mapOpen (xctx cfg opts) f d dm x cl hd
    simp only [List.cons_append, List.nil_append, List.length_cons] at key ⊢
    rw [this, key]

/-- `#:name`, blanks, `{`: the loop of the map body runs with the prefix `name` -/
theorem siteX_of_loopNs (cfg : Cfg) (opts : Opts) (hclj : cfg.clj = true) (d : Nat) (dm : Bool) (name tr x : Bytes)
    (e : ErrInfo) (r : Bytes) (hd : d < Tables.maxNestingDepth)
    (hl : IdentLex (0x3A :: name)) (hden : IdentDenotes (0x3A :: name) (.kw hdr0 none name)) (ht : Blank tr)
    (h : LoopErrMX cfg opts d dm (0x23 :: 0x3A :: (name ++ (tr ++ 0x7B :: x))).length (some name) x e r) :
    SiteErrX cfg opts d dm (0x23 :: 0x3A :: (name ++ (tr ++ 0x7B :: x))) e r := by
  intro cl f hf
  simp only [List.length_cons, List.length_append] at hf
  obtain ⟨f, rfl⟩ : ∃ f', f = f' + 3 := ⟨f - 3, by omega⟩
  have e' : (0x3A : UInt8) :: (name ++ (tr ++ 0x7B :: x)) = (0x3A :: name) ++ (tr ++ 0x7B :: x) := rfl
  obtain ⟨tv, htv, hstv⟩ := readIdentifier_complete (xctx cfg opts) (0x3A :: name)
    (tr ++ 0x7B :: x) cl _ hl (CmplX.delimStart_blank_brace ht _) hden
  rw [CmplX.readValue_nsOpen (xctx cfg opts) hclj (f + 2) d dm _ cl hd, readNsMap_succ]
  unfold rnStep
  rw [readValue_succ, SndX.rvOuter_colon, e', htv]
  cases tv <;> simp only [strip, reduceCtorEq] at hstv
  case kw h0 ns0 nm0 =>
    simp only [Val.kw.injEq, true_and] at hstv
    obtain ⟨rfl, rfl⟩ := hstv
    simp only [CmplX.skipWs_blank_brace ht, BEq.rfl, if_true]
    have key := h cl (f + 1) [] [] (by omega)
    simp only [List.length_cons, List.length_append] at key ⊢
    exact key

end Edn.Proofs.RejectDocClj
