/-
  Edn.Proofs.Number — C04: the SWAR block converter, `parse_int64_from_buffer` and
  `ratio_gcd` compute the mathematical values.
-/
import Edn.Model.Number
import Edn.Proofs.Bytes
import Edn.Proofs.NumberAuxSwar
import Edn.Proofs.NumberAuxInt
import Edn.Proofs.NumberAuxGcd

namespace Edn.Proofs
open Edn.Model

/-- value of a string of ASCII decimal digits -/
def digitsVal (ds : Bytes) : Nat := ds.foldl (fun a c => a * 10 + dval c) 0

/-- value of a digit string in a radix (every byte must be a digit of that radix) -/
def digitsValR (radix : Nat) (ds : Bytes) : Nat :=
  ds.foldl (fun a c => a * radix + (digitValue c radix).getD 0) 0

/-! ## SWAR -/

/-- the two-mask test holds exactly when all eight bytes are ASCII digits -/
theorem eightDigitsFast_iff (b : Bytes) (h : b.length = 8) :
    eightDigitsFast (load64le b) = b.all is09 :=
  NumSwar.eightDigitsFast_iff' b h

/-- the multiply-shift cascade computes the decimal value of the eight digits -/
theorem parseEightDigits_eq (b : Bytes) (h : b.length = 8) (hd : b.all is09 = true) :
    (parseEightDigits (load64le b)).toNat = digitsVal b :=
  NumSwar.parseEightDigits_eq' b h hd

/-! ## parse_int64_from_buffer -/

/-- the signed 64-bit range test -/
def inRange (neg : Bool) (v : Nat) : Option Int :=
  if neg then (if v ≤ 9223372036854775808 then some (-(v : Int)) else none)
  else (if v ≤ 9223372036854775807 then some (v : Int) else none)

/-- the decimal digit test of the scalar loops is the digit table restricted to radix 10 -/
theorem digitValue_ten (c : UInt8) : digitValue c 10 = if is09 c then some (dval c) else none :=
  NumInt.digitValue_ten' c

/-- For every digit string of every length, every radix 2..36 and either sign (underscores
    allowed between digits with the experimental flag): the result is `some n` exactly when
    the mathematical value lies in the signed 64-bit range, and then `n` is that value. -/
theorem parseInt64_spec (cfg : Cfg) (radix : Nat) (hr : 2 ≤ radix ∧ radix ≤ 36) (ds : Bytes) (neg : Bool)
    (hvalid : ∀ c ∈ ds, (digitValue c radix).isSome = true ∨ (cfg.exp = true ∧ c = 0x5F))
    (hne : ∃ c ∈ ds, (digitValue c radix).isSome = true) :
    parseInt64 cfg ds radix neg = inRange neg (digitsValR radix (ds.filter (· != 0x5F))) :=
  NumInt.parseInt64_spec' cfg radix hr ds neg hvalid hne

/-! ## ratio_gcd -/

/-- binary gcd on the magnitudes of two int64 operands -/
theorem ratioGcd_eq (a b : Int) (ha : a.natAbs ≤ 9223372036854775808) (hb : b.natAbs ≤ 9223372036854775808) :
    ratioGcd a b = Nat.gcd a.natAbs b.natAbs :=
  NumGcd.ratioGcd_eq' a b ha hb

end Edn.Proofs
