/-
  Edn.Proofs.FuelAux4 — progress of the step functions, and `reader_progress`.
-/
import Edn.Proofs.FuelAux3

namespace Edn.Proofs
open Edn.Model
open Edn.Generated

theorem Progress.st_le {st : St} {r : Res} (h : Progress st r) : r.st.rest.length ≤ st.rest.length := by
  cases r <;> simp only [Progress, Res.st] at h ⊢ <;> omega

theorem Progress.of_lt {st : St} {r : Res} {n : Nat} (h : r.st.rest.length ≤ n) (hn : n < st.rest.length) :
    Progress st r := by
  cases r <;> simp only [Progress, Res.st] at h ⊢ <;> omega

theorem Progress.mono {st1 st2 : St} {r : Res} (h : Progress st1 r) (hle : st1.rest.length ≤ st2.rest.length) :
    Progress st2 r := by
  cases r <;> simp only [Progress] at h ⊢ <;> omega

theorem Progress.err_le {st st' : St} {e : ErrInfo} (h : st'.rest.length ≤ st.rest.length) :
    Progress st (.err e st') := h

def PV (RV : RVT) : Prop := ∀ d dm st, Progress st (RV d dm st)
def PS (RS : RST) : Prop := ∀ d dm kind start st acc, (RS d dm kind start st acc).st.rest.length ≤ st.rest.length
def PM (RM : RMT) : Prop := ∀ d dm start ns st ks vs, (RM d dm start ns st ks vs).st.rest.length ≤ st.rest.length
def P4 (R : R4T) : Prop := ∀ d dm start st, (R d dm start st).st.rest.length ≤ st.rest.length

theorem rvStep_progress (ctx : Ctx) {RV : RVT} {RS : RST} {RM : RMT} {RN RT RMe : R4T}
    (hV : PV RV) (hS : PS RS) (hM : PM RM) (hN : P4 RN) (hT : P4 RT) (hMe : P4 RMe)
    (d : Nat) (dm : Bool) (calls : List Call) (c : UInt8) (cs : Bytes) :
    Progress { rest := c :: cs, calls := calls } (rvStep ctx RV RS RM RN RT RMe d dm calls c cs) := by
  unfold rvStep
  simp only []
  have hlt : cs.length < ({ rest := c :: cs, calls := calls } : St).rest.length := by simp
  cases hdisp : dispatch ctx.cfg c with
  | string => exact readString_progress' ctx _ (by simp)
  | character => exact readCharacter_progress' ctx _ (by simp)
  | listOpen =>
    simp only []
    split
    · exact Nat.le_refl _
    · exact Progress.of_lt (hS ..) hlt
  | vectorOpen =>
    simp only []
    split
    · exact Nat.le_refl _
    · exact Progress.of_lt (hS ..) hlt
  | mapOpen =>
    simp only []
    split
    · exact Nat.le_refl _
    · exact Progress.of_lt (hM ..) hlt
  | hash =>
    simp only []
    cases cs with
    | nil => exact Progress.of_lt (hT ..) hlt
    | cons nx cs' =>
      simp only []
      have hlt' : cs'.length < ({ rest := c :: nx :: cs', calls := calls } : St).rest.length := by
        simp only [List.length_cons]; omega
      split
      · exact readSymbolic_progress' ctx _ (by simp)
      split
      · exact Nat.le_refl _
      split
      · exact Progress.of_lt (hS ..) hlt'
      split
      · have h1 := hV (d + 1) true { rest := cs', calls := calls }
        cases hr : RV (d + 1) true { rest := cs', calls := calls } with
        | ok v st' =>
          rw [hr] at h1; simp only [Progress] at h1
          simp only []
          exact (hV d dm st').mono (by simp only [List.length_cons]; omega)
        | closer st' =>
          rw [hr] at h1; simp only [Progress] at h1
          simp only [Progress, List.length_cons]; omega
        | err e st' =>
          rw [hr] at h1; simp only [Progress] at h1
          simp only [Progress, List.length_cons]; omega
      split
      · exact Progress.of_lt (hN ..) hlt
      · exact Progress.of_lt (hT ..) hlt
  | sign =>
    simp only []
    have hs := dispatch_sign hdisp
    cases cs with
    | nil => exact readIdentifier_progress' ctx _
    | cons nx t =>
      simp only []
      split
      · rename_i hnx
        exact readNumberRes_progress' ctx _ c (nx :: t) rfl (Or.inr ⟨hs, nx, t, rfl, hnx⟩)
      · exact readIdentifier_progress' ctx _
  | digit =>
    exact readNumberRes_progress' ctx _ c cs rfl (Or.inl (dispatch_digit hdisp))
  | delimiter =>
    simp only []
    split
    · exact Nat.le_refl _
    · exact Nat.le_refl _
  | metadata =>
    simp only []
    split
    · exact Nat.le_refl _
    · exact Progress.of_lt (hMe ..) hlt
  | identifier => exact readIdentifier_progress' ctx _

theorem rvOuter_progress (ctx : Ctx) {RV : RVT} {RS : RST} {RM : RMT} {RN RT RMe : R4T}
    (hV : PV RV) (hS : PS RS) (hM : PM RM) (hN : P4 RN) (hT : P4 RT) (hMe : P4 RMe)
    (d : Nat) (dm : Bool) (st : St) :
    Progress st (rvOuter ctx RV RS RM RN RT RMe d dm st) := by
  unfold rvOuter
  cases hs : st.rest with
  | nil => simp only [eofErrOf, Progress, hs]; exact Nat.le_refl _
  | cons c0 t =>
    simp only []
    have hle : (if isPreWs c0 = true then skipWs (c0 :: t) else c0 :: t).length ≤ (c0 :: t).length := by
      split
      · exact skipWs_length_le' _
      · exact Nat.le_refl _
    cases hw : (if isPreWs c0 = true then skipWs (c0 :: t) else c0 :: t) with
    | nil => simp [eofErrOf, Progress]
    | cons c cs =>
      simp only []
      rw [hw] at hle
      exact (rvStep_progress ctx hV hS hM hN hT hMe d dm st.calls c cs).mono (by rw [hs]; exact hle)

theorem rsStep_progress (ctx : Ctx) {RV : RVT} {RS : RST} (hV : PV RV) (hS : PS RS)
    (d : Nat) (dm : Bool) (kind start : Nat) (st : St) (acc : List Val) :
    (rsStep ctx RV RS d dm kind start st acc).st.rest.length ≤ st.rest.length := by
  unfold rsStep
  have h1 := hV (d + 1) dm st
  cases hr : RV (d + 1) dm st with
  | ok v st' =>
    rw [hr] at h1; simp only [Progress] at h1
    simp only []
    have := hS d dm kind start st' (v :: acc)
    omega
  | err e st' =>
    rw [hr] at h1; simp only [Progress] at h1
    simp only []
    split <;> exact h1
  | closer st' =>
    rw [hr] at h1; simp only [Progress] at h1
    simp only []
    cases hs : st'.rest with
    | nil => simp only [Res.st]; omega
    | cons c r =>
      rw [hs] at h1
      simp only [List.length_cons] at h1
      simp only []
      repeat' split
      all_goals (simp only [Res.st, hs, List.length_cons]; omega)

theorem rmStep_progress (ctx : Ctx) {RV : RVT} {RM : RMT} (hV : PV RV) (hM : PM RM)
    (d : Nat) (dm : Bool) (start : Nat) (ns : Option Bytes) (st : St) (ks vs : List Val) :
    (rmStep ctx RV RM d dm start ns st ks vs).st.rest.length ≤ st.rest.length := by
  unfold rmStep
  simp only []
  have h1 := hV (d + 1) dm st
  cases hr : RV (d + 1) dm st with
  | ok k st' =>
    rw [hr] at h1; simp only [Progress] at h1
    simp only []
    have h2 := hV (d + 1) dm st'
    cases hr2 : RV (d + 1) dm st' with
    | ok v st'' =>
      rw [hr2] at h2; simp only [Progress] at h2
      simp only []
      exact Nat.le_trans (hM ..) (by omega)
    | err e st'' =>
      rw [hr2] at h2; simp only [Progress] at h2
      simp only []
      split <;> (simp only [Res.st]; omega)
    | closer st'' =>
      rw [hr2] at h2; simp only [Progress] at h2
      simp only [Res.st]; omega
  | err e st' =>
    rw [hr] at h1; simp only [Progress] at h1
    simp only []
    split <;> exact h1
  | closer st' =>
    rw [hr] at h1; simp only [Progress] at h1
    simp only []
    cases hs : st'.rest with
    | nil => simp only [Res.st]; omega
    | cons c r =>
      rw [hs] at h1
      simp only [List.length_cons] at h1
      simp only []
      repeat' split
      all_goals (simp only [Res.st, hs, List.length_cons]; omega)

theorem rnStep_progress (ctx : Ctx) {RV : RVT} {RM : RMT} (hV : PV RV) (hM : PM RM)
    (d : Nat) (dm : Bool) (start : Nat) (st : St) :
    (rnStep ctx RV RM d dm start st).st.rest.length ≤ st.rest.length := by
  unfold rnStep
  have h1 := hV d dm st
  cases hr : RV d dm st with
  | closer st' => rw [hr] at h1; exact h1
  | err e st' => rw [hr] at h1; exact h1
  | ok kwv st' =>
    rw [hr] at h1; simp only [Progress] at h1
    simp only []
    have hws := skipWs_length_le' st'.rest
    split
    · rename_i name
      split
      · rename_i c r heq
        have hws' := hws
        rw [heq] at hws'; simp only [List.length_cons] at hws'
        split
        · have := hM d dm start (some name) { rest := r, calls := st'.calls } [] []
          simp only [] at this ⊢
          omega
        · simp only [Res.st]; omega
      · simp only [Res.st]; omega
    · simp only [Res.st]; omega

theorem rtStep_progress (ctx : Ctx) {RV : RVT} (hV : PV RV)
    (d : Nat) (dm : Bool) (start : Nat) (st : St) :
    (rtStep ctx RV d dm start st).st.rest.length ≤ st.rest.length := by
  unfold rtStep
  simp only []
  split
  · exact Nat.le_refl _
  · split
    · exact Nat.le_refl _
    · have h1 := readIdentifier_progress' ctx st
      cases hr : readIdentifier ctx st with
      | closer st' => rw [hr] at h1; exact h1
      | err e st' => rw [hr] at h1; exact h1
      | ok tagv st' =>
        rw [hr] at h1; simp only [Progress] at h1
        simp only []
        split
        · have h2 := hV (d + 1) dm st'
          cases hr2 : RV (d + 1) dm st' with
          | closer st'' => rw [hr2] at h2; simp only [Progress] at h2; simp only [Res.st]; omega
          | err e st'' => rw [hr2] at h2; simp only [Progress] at h2; simp only [Res.st]; omega
          | ok v st'' =>
            rw [hr2] at h2; simp only [Progress] at h2
            simp only []
            repeat' split
            all_goals (simp only [Res.st]; omega)
        · simp only [Res.st]; omega

theorem rmeStep_progress (ctx : Ctx) {RV : RVT} (hV : PV RV)
    (d : Nat) (dm : Bool) (start : Nat) (st : St) :
    (rmeStep ctx RV d dm start st).st.rest.length ≤ st.rest.length := by
  unfold rmeStep
  simp only []
  have h1 := hV (d + 1) dm st
  cases hr : RV (d + 1) dm st with
  | closer st' => rw [hr] at h1; exact h1
  | err e st' => rw [hr] at h1; exact h1
  | ok m st' =>
    rw [hr] at h1; simp only [Progress] at h1
    simp only []
    split
    · simp only [Res.st]; omega
    · have h2 := hV (d + 1) dm st'
      cases hr2 : RV (d + 1) dm st' with
      | closer st'' => rw [hr2] at h2; simp only [Progress] at h2; simp only [Res.st]; omega
      | err e st'' => rw [hr2] at h2; simp only [Progress] at h2; simp only [Res.st]; omega
      | ok form st'' =>
        rw [hr2] at h2; simp only [Progress] at h2
        simp only []
        split <;> (simp only [Res.st]; omega)

/-- progress for all six mutually recursive functions, for every fuel -/
theorem reader_progress' (ctx : Ctx) : ∀ (f : Nat),
    PV (readValue ctx f) ∧ PS (readSeq ctx f) ∧ PM (readMap ctx f) ∧ P4 (readNsMap ctx f) ∧
    P4 (readTagged ctx f) ∧ P4 (readMeta ctx f) := by
  intro f
  induction f with
  | zero =>
    refine ⟨?_, ?_, ?_, ?_, ?_, ?_⟩
    · intro d dm st; rw [readValue_zero]; exact Nat.le_refl _
    · intro d dm kind start st acc; rw [readSeq_zero]; exact Nat.le_refl _
    · intro d dm start ns st ks vs; rw [readMap_zero]; exact Nat.le_refl _
    · intro d dm start st; rw [readNsMap_zero]; exact Nat.le_refl _
    · intro d dm start st; rw [readTagged_zero]; exact Nat.le_refl _
    · intro d dm start st; rw [readMeta_zero]; exact Nat.le_refl _
  | succ f ih =>
    obtain ⟨hV, hS, hM, hN, hT, hMe⟩ := ih
    refine ⟨?_, ?_, ?_, ?_, ?_, ?_⟩
    · intro d dm st; rw [readValue_succ]; exact rvOuter_progress ctx hV hS hM hN hT hMe d dm st
    · intro d dm kind start st acc; rw [readSeq_succ]; exact rsStep_progress ctx hV hS ..
    · intro d dm start ns st ks vs; rw [readMap_succ]; exact rmStep_progress ctx hV hM ..
    · intro d dm start st; rw [readNsMap_succ]; exact rnStep_progress ctx hV hM ..
    · intro d dm start st; rw [readTagged_succ]; exact rtStep_progress ctx hV ..
    · intro d dm start st; rw [readMeta_succ]; exact rmeStep_progress ctx hV ..

end Edn.Proofs
