/-
  Edn.Proofs.RejectDocAux8 — C10, whole documents: a form position holding `"` without a closing
  quote (INVALID_STRING) or `\` without a character token behind it (INVALID_CHARACTER).
-/
import Edn.Proofs.RejectDocAux7
import Edn.Proofs.CharSound

namespace Edn.Proofs.RejectDoc
open Edn.Model Edn.Spec Edn.Generated Edn.Proofs Edn.Proofs.Cmpl Edn.Proofs.Snd

/-! ## the string and character readers do not look at the call log -/

theorem readString_core_calls (ctx : Ctx) (hc : ctx.cfg = Cfg.core) (s : Bytes) (cl : List Call) :
    readString ctx { rest := s, calls := cl } = withCalls cl (readString ctx { rest := s, calls := [] }) := by
  unfold readString
  have hexp : ctx.cfg.exp = false := by rw [hc]; rfl
  simp only [hexp, Bool.false_and, Bool.false_eq_true, if_false]
  cases findQuote s.tail with
  | none => rfl
  | some p => rfl

theorem readCharacter_calls (ctx : Ctx) (s : Bytes) (cl : List Call) :
    readCharacter ctx { rest := s, calls := cl } = withCalls cl (readCharacter ctx { rest := s, calls := [] }) := by
  rw [readCharacter_eq, readCharacter_eq]
  simp only []
  split
  · rfl
  · cases charBody ctx s.tail with
    | error ee => rfl
    | ok x =>
      obtain ⟨cp, r⟩ := x
      simp only []
      split
      · rfl
      · split <;> rfl

/-! ## the sites -/

/-- `"` with no closing quote behind it (a quote not preceded by a backslash unit): INVALID_STRING
    from the opening quote to the end of the input -/
theorem site_unterminated_string (opts : Opts) (d : Nat) (dm : Bool) (cs : Bytes)
    (hnot : ¬ ∃ sp rest, cs = sp ++ 0x22 :: rest ∧ RawStr sp) :
    SiteErr opts d dm (0x22 :: cs) (mkErr .invalidString (some (cs.length + 1)) (some 0)) (0x22 :: cs) := by
  have key : readString (cctx opts) { rest := 0x22 :: cs, calls := [] } =
      .err (mkErr .invalidString (some (cs.length + 1)) (some 0)) { rest := 0x22 :: cs, calls := [] } := by
    cases hr : readString (cctx opts) { rest := 0x22 :: cs, calls := [] } with
    | ok v st' =>
      obtain ⟨sp, h1, -, h2, -⟩ := readString_sound (cctx opts) rfl 0x22 cs [] v st' hr
      exact absurd ⟨sp, st'.rest, h1, h2⟩ hnot
    | closer st' =>
      have := (leaf_not_closer (cctx opts) { rest := 0x22 :: cs, calls := [] }).1
      rw [hr] at this
      cases this
    | err e st' =>
      unfold readString at hr
      simp only [List.tail_cons] at hr
      cases hq : findQuote cs with
      | none =>
        rw [hq] at hr
        cases hr
        rfl
      | some p => rw [hq] at hr; cases hr
  intro cl f hf
  match f, hf with
  | f + 1, _ => rw [readValue_quote _ f d dm cs cl, readString_core_calls _ rfl, key]; rfl

/-- `\` with no character token (followed by a delimiter or the end) behind it: INVALID_CHARACTER
    reported from the backslash -/
theorem site_bad_character (opts : Opts) (d : Nat) (dm : Bool) (cs : Bytes)
    (hnot : ¬ ∃ body rest cp, cs = body ++ rest ∧ CharTok body cp ∧ cp ≤ 0x10FFFF ∧ DelimStart rest) :
    ∃ e, SiteErr opts d dm (0x5C :: cs) e (0x5C :: cs) ∧ e.code = .invalidCharacter ∧ e.es = some (cs.length + 1) ∧
      e.fuelOut = false := by
  cases hr : readCharacter (cctx opts) { rest := 0x5C :: cs, calls := [] } with
  | ok v st' =>
    obtain ⟨body, cp, h1, -, h2, h3, h4, -⟩ := Snd.readCharacter_sound (cctx opts) rfl 0x5C cs [] v st' hr
    exact absurd ⟨body, st'.rest, cp, h1, h2, h3, h4⟩ hnot
  | closer st' => exact absurd hr (readCharacter_not_closer _ _ _)
  | err e st' =>
    obtain ⟨h1, h2, h3⟩ := readCharacter_err _ _ _ _ hr
    subst h3
    have hfo : e.fuelOut = false := by
      have := (leaf_not_fuelOut (cctx opts) { rest := 0x5C :: cs, calls := [] }).2.1
      rw [hr] at this
      simpa [Res.isFuelOut] using this
    refine ⟨e, ?_, h1, h2, hfo⟩
    intro cl f hf
    match f, hf with
    | f + 1, _ => rw [readValue_backslash _ f d dm cs cl, readCharacter_calls, hr]; rfl

end Edn.Proofs.RejectDoc
