/-
  Edn.Proofs.Scan — C12: every vectorised scanner of the model (block form, following
  the SSE code) equals its byte-at-a-time specification, for inputs of every length.
-/
import Edn.Proofs.Bytes

namespace Edn.Proofs
open Edn.Model

/-! ### generic facts about "first lane index in the first k bytes" -/

theorem take_findIdx_none {p : UInt8 → Bool} :
    ∀ (k : Nat) (s : Bytes), (s.take k).findIdx? p = none → (s.take k).all (fun c => !p c) = true := by
  intro k s h
  rw [List.findIdx?_eq_none_iff] at h
  simp only [List.all_eq_true, Bool.not_eq_eq_eq_not, Bool.not_true]
  intro c hc
  have := h c hc
  simpa using this

theorem take_findIdx_some {p : UInt8 → Bool} :
    ∀ (s : Bytes) (k i : Nat), (s.take k).findIdx? p = some i →
      ∃ pre d r, s = pre ++ d :: r ∧ pre.length = i ∧ pre.all (fun c => !p c) = true ∧ p d = true := by
  intro s
  induction s with
  | nil => intro k i h; simp at h
  | cons c cs ih =>
    intro k i h
    cases k with
    | zero => simp at h
    | succ k =>
      rw [List.take_succ_cons, List.findIdx?_cons] at h
      by_cases hp : p c = true
      · simp only [hp, ↓reduceIte, Option.some.injEq] at h
        exact ⟨[], c, cs, by simp, by simp [← h], by simp, hp⟩
      · simp only [hp, Bool.false_eq_true, ↓reduceIte, Option.map_eq_some_iff] at h
        obtain ⟨j, hj, rfl⟩ := h
        obtain ⟨pre, d, r, hs, hl, ha, hd⟩ := ih k j hj
        refine ⟨c :: pre, d, r, by simp [hs], by simp [hl], ?_, hd⟩
        simp only [List.all_cons, ha, Bool.and_true]
        simpa using hp

theorem take_append_drop' (k : Nat) (s : Bytes) : s = s.take k ++ s.drop k := (List.take_append_drop k s).symm

theorem block16_some {s blk : Bytes} (h : block16 s = some blk) : blk = s.take 16 ∧ 16 ≤ s.length := by
  unfold block16 at h
  split at h
  · exact ⟨by simpa using h.symm, by assumption⟩
  · simp at h

theorem block16_none {s : Bytes} (h : block16 s = none) : s.length < 16 := by
  unfold block16 at h
  split at h
  · simp at h
  · omega

/-! ### line feeds in comments -/

theorem dropWhile_append_all {q : UInt8 → Bool} (pre r : Bytes) (h : pre.all q = true) :
    (pre ++ r).dropWhile q = r.dropWhile q := by
  induction pre with
  | nil => rfl
  | cons c cs ih =>
    simp only [List.all_cons, Bool.and_eq_true] at h
    simp [h.1, ih h.2]

theorem dropWhile_at {q : UInt8 → Bool} (pre : Bytes) (d : UInt8) (r : Bytes)
    (h : pre.all q = true) (hd : q d = false) : (pre ++ d :: r).dropWhile q = d :: r := by
  rw [dropWhile_append_all pre _ h]; simp [List.dropWhile_cons, hd]

theorem drop_length_append (pre r : Bytes) : (pre ++ r).drop pre.length = r := by simp

/-- `edn_simd_find_newline_sse` = skip to the first line feed -/
theorem findNewlineSimd_eq : ∀ (f : Nat) (s : Bytes), s.length < f →
    findNewlineSimd f s = s.dropWhile (fun c => !(c == 0x0A)) := by
  intro f
  induction f with
  | zero => intro s h; omega
  | succ f ih =>
    intro s h
    cases s with
    | nil => simp [findNewlineSimd]
    | cons c cs =>
      rw [findNewlineSimd]
      split
      · rename_i blk hb
        obtain ⟨rfl, hlen⟩ := block16_some hb
        split
        · rename_i i hi
          obtain ⟨pre, d, r, hs, hl, ha, hd⟩ := take_findIdx_some _ _ _ hi
          rw [hs, ← hl, drop_length_append]
          rw [dropWhile_at pre d r (by simpa using ha) (by simp [hd])]
        · rename_i hn
          have hall := take_findIdx_none _ _ hn
          rw [ih _ (by simp at h hlen ⊢; omega)]
          conv => rhs; rw [take_append_drop' 16 (c :: cs)]
          rw [dropWhile_append_all _ _ (by simpa using hall)]
      · rename_i hb
        by_cases hc : (c == 0x0A) = true
        · simp [hc, List.dropWhile_cons]
        · simp only [hc, Bool.false_eq_true, ↓reduceIte]
          rw [ih _ (by simp at h ⊢; omega)]
          simp [List.dropWhile_cons, hc]

/-! ### whitespace and comments -/

theorem skipWsScalarAux_comment : ∀ (s : Bytes),
    skipWsScalarAux true s =
      match s.dropWhile (fun c => !(c == 0x0A)) with
      | [] => []
      | _ :: r => skipWsScalarAux false r := by
  intro s
  induction s with
  | nil => simp [skipWsScalarAux]
  | cons c cs ih =>
    rw [skipWsScalarAux]
    by_cases hc : (c == 0x0A) = true
    · simp [hc, List.dropWhile_cons]
    · simp only [hc, Bool.false_eq_true, ↓reduceIte]
      rw [ih]
      simp [List.dropWhile_cons, hc]

theorem skipWsScalarAux_prefix (pre r : Bytes)
    (h : pre.all (fun c => isWs c && !(c == 0x3B)) = true) :
    skipWsScalarAux false (pre ++ r) = skipWsScalarAux false r := by
  induction pre with
  | nil => rfl
  | cons c cs ih =>
    simp only [List.all_cons, Bool.and_eq_true, Bool.not_eq_eq_eq_not, Bool.not_true] at h
    rw [List.cons_append, skipWsScalarAux]
    simp [h.1.1, h.1.2, ih (by simpa using h.2)]

theorem skipWsScalarAux_false_cons (c : UInt8) (cs : Bytes) :
    skipWsScalarAux false (c :: cs) =
      if c == 0x3B then skipWsScalarAux true cs
      else if isWs c then skipWsScalarAux false cs else c :: cs := by
  rw [skipWsScalarAux]

/-- C12 (whitespace and comments): the block form of `edn_simd_skip_whitespace` equals
    the byte-at-a-time specification for every input -/
theorem skipWsSimd_eq : ∀ (f : Nat) (s : Bytes), s.length < f → skipWsSimd f s = skipWsScalar s := by
  intro f
  induction f with
  | zero => intro s h; omega
  | succ f ih =>
    intro s h
    cases s with
    | nil => simp [skipWsSimd, skipWsScalar, skipWsScalarAux]
    | cons c cs =>
      have hcs : cs.length < f := by simp at h; omega
      unfold skipWsScalar at ih ⊢
      rw [skipWsSimd]
      by_cases hsemi : (c == 0x3B) = true
      · rw [skipWsScalarAux_false_cons]
        simp only [hsemi, ↓reduceIte]
        rw [findNewlineSimd_eq _ _ (by omega), skipWsScalarAux_comment]
        have hle : (cs.dropWhile (fun c => !(c == 0x0A))).length ≤ cs.length :=
          (List.dropWhile_sublist _).length_le
        generalize heq : cs.dropWhile (fun c => !(c == 0x0A)) = t at hle
        cases t with
        | nil => rfl
        | cons d r =>
          have hd : (d == 0x0A) = true := by
            have := List.head_dropWhile_not (fun c => !(c == 0x0A)) (l := cs) (by simp [heq])
            simpa [heq] using this
          simp only [hd, ↓reduceIte]
          exact ih r (by simp at hle; omega)
      · simp only [hsemi, Bool.false_eq_true, ↓reduceIte]
        have hscalar : (if isWs c = true then skipWsSimd f cs else c :: cs) = skipWsScalarAux false (c :: cs) := by
          rw [skipWsScalarAux_false_cons]
          simp only [hsemi, Bool.false_eq_true, ↓reduceIte]
          by_cases hw : isWs c = true
          · simp only [hw, ↓reduceIte]; exact ih cs hcs
          · simp [hw]
        split
        · rename_i blk hb
          obtain ⟨rfl, hlen⟩ := block16_some hb
          split
          · rename_i hall
            rw [ih _ (by simp at h hlen ⊢; omega)]
            have hpre : ((c :: cs).take 16).all (fun c => isWs c && !(c == 0x3B)) = true := by
              rw [List.all_eq_true] at hall ⊢
              intro x hx
              have := wsLane_isWs (hall x hx)
              simp [this.1, this.2]
            have := skipWsScalarAux_prefix _ ((c :: cs).drop 16) hpre
            rw [List.take_append_drop] at this
            exact this.symm
          · exact hscalar
        · exact hscalar

theorem skipWs_eq (s : Bytes) : skipWs s = skipWsScalar s := skipWsSimd_eq _ _ (by omega)

/-! ### closing quote -/

def isQuoteSpecial (b : UInt8) : Bool := b == 0x22 || b == 0x5C

theorem findQuoteScalar_cons (bs : Bool) (c : UInt8) (cs : Bytes) :
    findQuoteScalar bs (c :: cs) =
      if c == 0x5C then (match cs with | [] => none | _ :: cs' => findQuoteScalar true cs')
      else if c == 0x22 then some (c :: cs, bs) else findQuoteScalar bs cs := by
  unfold findQuoteScalar
  rw [findQuoteScalarAux]
  split
  · cases cs <;> simp [findQuoteScalarAux]
  · rfl

theorem findQuoteSimd_cons (f : Nat) (bs : Bool) (c : UInt8) (cs : Bytes) :
    findQuoteSimd (f + 1) bs (c :: cs) =
    match block16 (c :: cs) with
    | some blk =>
      match blk.findIdx? (fun b => b == 0x22 || b == 0x5C) with
      | none => findQuoteSimd f bs ((c :: cs).drop 16)
      | some i =>
        match (c :: cs).drop i with
        | [] => none
        | d :: r =>
          if d == 0x5C then
            match r with
            | [] => none
            | _ :: r' => findQuoteSimd f true r'
          else some (d :: r, bs)
    | none =>
      if c == 0x5C then
        match cs with
        | [] => none
        | _ :: cs' => findQuoteSimd f true cs'
      else if c == 0x22 then some (c :: cs, bs)
      else findQuoteSimd f bs cs := by
  conv => lhs; rw [findQuoteSimd.eq_def]
  rfl

theorem findQuoteScalar_prefix (bs : Bool) (pre r : Bytes)
    (h : pre.all (fun c => !isQuoteSpecial c) = true) :
    findQuoteScalar bs (pre ++ r) = findQuoteScalar bs r := by
  induction pre with
  | nil => rfl
  | cons c cs ih =>
    simp only [List.all_cons, Bool.and_eq_true] at h
    have hc := h.1
    simp only [isQuoteSpecial, Bool.not_eq_eq_eq_not, Bool.not_true, Bool.or_eq_false_iff] at hc
    rw [List.cons_append, findQuoteScalar_cons]
    simp [hc.1, hc.2, ih h.2]

/-- C12 (closing quote and escape detection): block form = byte-at-a-time form -/
theorem findQuoteSimd_eq : ∀ (f : Nat) (bs : Bool) (s : Bytes), s.length < f →
    findQuoteSimd f bs s = findQuoteScalar bs s := by
  intro f
  induction f with
  | zero => intro bs s h; omega
  | succ f ih =>
    intro bs s h
    cases s with
    | nil => simp [findQuoteSimd, findQuoteScalar, findQuoteScalarAux]
    | cons c cs =>
      have hcs : cs.length < f := by simp at h; omega
      have hscalar : (if (c == 0x5C) = true then
            match (generalizing := false) cs with
            | [] => none
            | _ :: cs' => findQuoteSimd f true cs'
          else if (c == 0x22) = true then some (c :: cs, bs) else findQuoteSimd f bs cs)
          = findQuoteScalar bs (c :: cs) := by
        rw [findQuoteScalar_cons]
        by_cases hbs : (c == 0x5C) = true
        · simp only [hbs, ↓reduceIte]
          cases cs with
          | nil => rfl
          | cons e r' => simp only; exact ih _ _ (by simp at hcs ⊢; omega)
        · simp only [hbs, Bool.false_eq_true, ↓reduceIte]
          by_cases hq : (c == 0x22) = true
          · simp [hq]
          · simp only [hq, Bool.false_eq_true, ↓reduceIte]; exact ih _ _ hcs
      rw [findQuoteSimd_cons]
      split
      · rename_i blk hb
        obtain ⟨rfl, hlen⟩ := block16_some hb
        split
        · rename_i hn
          have hall := take_findIdx_none _ _ hn
          rw [ih _ _ (by simp at h hlen ⊢; omega)]
          have := findQuoteScalar_prefix bs _ ((c :: cs).drop 16) hall
          rw [List.take_append_drop] at this
          exact this.symm
        · rename_i i hi
          obtain ⟨pre, d, r, hs, hl, ha, hd⟩ := take_findIdx_some _ _ _ hi
          have hlen' : (pre ++ d :: r).length = (c :: cs).length := by rw [hs]
          rw [hs, ← hl, drop_length_append, findQuoteScalar_prefix bs pre _ ha]
          rw [findQuoteScalar_cons]
          by_cases hbs : (d == 0x5C) = true
          · simp only [hbs, ↓reduceIte]
            cases r with
            | nil => rfl
            | cons e r' =>
              simp only
              exact ih _ _ (by simp at hlen' h ⊢; omega)
          · simp only [hbs, Bool.false_eq_true, ↓reduceIte]
            have hq : (d == 0x22) = true := by simpa [hbs] using hd
            simp [hq]
      · exact hscalar

theorem findQuote_eq (s : Bytes) : findQuote s = findQuoteScalar false s := findQuoteSimd_eq _ _ _ (by omega)

/-! ### digit runs -/

/-- C12 (digit runs): block form = `dropWhile isDigit` -/
theorem scanDigitsSimd_eq : ∀ (f : Nat) (s : Bytes), s.length < f → scanDigitsSimd f s = scanDigitsScalar s := by
  intro f
  induction f with
  | zero => intro s h; omega
  | succ f ih =>
    intro s h
    cases s with
    | nil => simp [scanDigitsSimd, scanDigitsScalar]
    | cons c cs =>
      unfold scanDigitsScalar at ih ⊢
      rw [scanDigitsSimd]
      split
      · rename_i blk hb
        obtain ⟨rfl, hlen⟩ := block16_some hb
        split
        · rename_i hn
          have hall := take_findIdx_none _ _ hn
          rw [ih _ (by simp at h hlen ⊢; omega)]
          conv => rhs; rw [take_append_drop' 16 (c :: cs)]
          rw [dropWhile_append_all _ _ (by simpa [digitLane_isDigit] using hall)]
        · rename_i i hi
          obtain ⟨pre, d, r, hs, hl, ha, hd⟩ := take_findIdx_some _ _ _ hi
          rw [hs, ← hl, drop_length_append]
          rw [dropWhile_at pre d r (by simpa [digitLane_isDigit] using ha) (by simpa [digitLane_isDigit] using hd)]
      · by_cases hd : isDigit c = true
        · simp only [hd, ↓reduceIte]
          rw [ih _ (by simp at h ⊢; omega)]
          simp [List.dropWhile_cons, hd]
        · simp [hd, List.dropWhile_cons]

theorem scanDigits_eq (s : Bytes) : scanDigits s = s.dropWhile isDigit := scanDigitsSimd_eq _ _ (by omega)

/-! ### line-feed index -/

theorem lfPositionsScalar_append (i : Nat) (pre r : Bytes) :
    lfPositionsScalar i (pre ++ r) = lfPositionsScalar i pre ++ lfPositionsScalar (i + pre.length) r := by
  induction pre generalizing i with
  | nil => simp [lfPositionsScalar]
  | cons c cs ih =>
    rw [List.cons_append, lfPositionsScalar, lfPositionsScalar, ih]
    have : i + 1 + cs.length = i + (c :: cs).length := by simp; omega
    split <;> simp [this]

/-- C12 (line-feed indexing): the block form of `newline_find_all_simd` lists exactly the
    offsets of the line feeds, in ascending order -/
theorem lfPositionsSimd_eq : ∀ (f i : Nat) (s : Bytes), s.length < f →
    lfPositionsSimd f i s = lfPositionsScalar i s := by
  intro f
  induction f with
  | zero => intro i s h; omega
  | succ f ih =>
    intro i s h
    cases s with
    | nil => simp [lfPositionsSimd, lfPositionsScalar]
    | cons c cs =>
      rw [lfPositionsSimd]
      split
      · rename_i blk hb
        obtain ⟨rfl, hlen⟩ := block16_some hb
        rw [ih _ _ (by simp at h hlen ⊢; omega)]
        conv => rhs; rw [take_append_drop' 16 (c :: cs)]
        rw [lfPositionsScalar_append]
        have : ((c :: cs).take 16).length = 16 := by simp at hlen ⊢; omega
        rw [this]; rfl
      · rw [lfPositionsScalar, ih _ _ (by simp at h ⊢; omega)]

theorem lfPositions_eq (s : Bytes) : lfPositions s = lfPositionsScalar 0 s := lfPositionsSimd_eq _ _ _ (by omega)

/-! ### identifiers: the `remaining <= 16` switch -/

theorem scanIdentRawAux_colons (i : Nat) (sl : Option Nat) (prev : Bool) (s : Bytes) :
    (scanIdentRawAux i sl prev true s).colons = true := by
  induction s generalizing i sl prev with
  | nil => simp [scanIdentRawAux]
  | cons c cs ih =>
    rw [scanIdentRawAux]
    split
    · rfl
    · simpa using ih _ _ _

theorem scanIdentShort_raw (i : Nat) (sl : Option Nat) (prev : Bool) (s : Bytes) :
    match scanIdentShortAux i sl prev s with
    | none => (scanIdentRawAux i sl prev false s).colons = true
    | some (l, k) => scanIdentRawAux i sl prev false s = ⟨l, k, false⟩ := by
  induction s generalizing i sl prev with
  | nil => simp [scanIdentShortAux, scanIdentRawAux]
  | cons c cs ih =>
    rw [scanIdentShortAux, scanIdentRawAux]
    by_cases hd : isDelim c = true
    · simp [hd]
    · simp only [hd, Bool.false_eq_true, ↓reduceIte]
      by_cases hcc : (c == 0x3A && prev) = true
      · simp only [hcc, ↓reduceIte, Bool.or_true]
        exact scanIdentRawAux_colons _ _ _ _
      · simp only [hcc, Bool.false_eq_true, ↓reduceIte, Bool.or_false]
        exact ih _ _ _

/-- C12 (identifier ends, first slash, double colon): the short path (at most 16 bytes
    remaining) and the long path of `scan_identifier` compute the same result -/
theorem scanIdent_eq_spec (s : Bytes) : scanIdent s = scanIdentSpec s := by
  unfold scanIdent scanIdentSpec scanIdentRaw
  split
  · have := scanIdentShort_raw 0 none false s
    cases hsh : scanIdentShortAux 0 none false s with
    | none => rw [hsh] at this; simp [this]
    | some lk =>
      obtain ⟨l, k⟩ := lk
      rw [hsh] at this
      simp [this]
  · rfl

end Edn.Proofs
