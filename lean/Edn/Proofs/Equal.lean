/-
  Edn.Proofs.Equal — value algebra (properties C07, C08, C09): structural equality is an
  equivalence on well-formed values, hashing is a congruence for it, the cached-hash short
  circuit never changes an answer, the duplicate check decides "two elements are equal"
  for every strategy, and lookup finds exactly the entry whose key is equal to the probe.

  All inductions are on the recursion fuel (which is the C code's depth budget); values
  are related to a fuel by `depth v < f`.
-/
import Edn.Spec.Eqv

namespace Edn.Proofs
open Edn.Model Edn.Spec

/-! ## depth -/

theorem depth_le_depthL {x : Val} {xs : List Val} (h : x ∈ xs) : depth x ≤ depthL xs := by
  sorry

/-! ## fuel stability: once the fuel exceeds the left operand's depth the answer is fixed -/

theorem eqvF_fuel (cfg : Cfg) : ∀ (f f' : Nat) (a b : Val), depth a < f → depth a < f' →
    eqvF cfg f a b = eqvF cfg f' a b := by
  sorry

/-! ## equivalence -/

theorem eqvF_refl (cfg : Cfg) : ∀ (f : Nat) (a : Val), depth a < f → eqvF cfg f a a = true := by
  sorry

theorem eqvF_symm (cfg : Cfg) : ∀ (f : Nat) (a b : Val), depth a < f → depth b < f →
    WF cfg a → WF cfg b → eqvF cfg f a b = true → eqvF cfg f b a = true := by
  sorry

theorem eqvF_trans (cfg : Cfg) : ∀ (f : Nat) (a b c : Val), depth a < f → depth b < f → depth c < f →
    WF cfg a → WF cfg b → WF cfg c →
    eqvF cfg f a b = true → eqvF cfg f b c = true → eqvF cfg f a c = true := by
  sorry

/-! ## hashing is a congruence -/

theorem hash_congr (cfg : Cfg) : ∀ (f : Nat) (a b : Val), depth a < f → depth b < f →
    WF cfg a → WF cfg b → eqvF cfg f a b = true → hashV cfg a = hashV cfg b := by
  sorry

/-! ## the cached-hash short circuit never changes an answer -/

theorem equalF_eq_eqvF (cfg : Cfg) : ∀ (f : Nat) (a b : Val), depth a < f → depth b < f →
    WF cfg a → WF cfg b → cacheOK cfg a = true → cacheOK cfg b = true →
    equalF cfg f a b = eqvF cfg f a b := by
  sorry

/-- `edn_value_hash` keeps every cache cell valid and does not change the value otherwise -/
theorem hashOp_cacheOK (cfg : Cfg) (v : Val) (h : cacheOK cfg v = true) :
    cacheOK cfg (hashOp cfg v).2 = true ∧ depth (hashOp cfg v).2 = depth v ∧
    (WF cfg v → WF cfg (hashOp cfg v).2) ∧
    (∀ f b, eqvF cfg f (hashOp cfg v).2 b = eqvF cfg f v b) ∧
    (∀ f b, eqvF cfg f b (hashOp cfg v).2 = eqvF cfg f b v) ∧
    hashV cfg (hashOp cfg v).2 = hashV cfg v := by
  sorry

/-! ## corollaries in terms of `Eqv` and the model's `equal` -/

theorem Eqv_refl (cfg : Cfg) (a : Val) : Eqv cfg a a := by
  sorry

theorem Eqv_symm (cfg : Cfg) (a b : Val) (ha : WF cfg a) (hb : WF cfg b) : Eqv cfg a b → Eqv cfg b a := by
  sorry

theorem Eqv_trans (cfg : Cfg) (a b c : Val) (ha : WF cfg a) (hb : WF cfg b) (hc : WF cfg c) :
    Eqv cfg a b → Eqv cfg b c → Eqv cfg a c := by
  sorry

theorem Eqv_hash (cfg : Cfg) (a b : Val) (ha : WF cfg a) (hb : WF cfg b) :
    Eqv cfg a b → hashV cfg a = hashV cfg b := by
  sorry

/-- the model's `edn_value_equal` decides `Eqv` for all values within the depth the reader
    can produce, whatever the (valid) state of the caches -/
theorem equal_iff_Eqv (cfg : Cfg) (a b : Val)
    (hda : depth a < maxDepthFuel) (hdb : depth b < maxDepthFuel)
    (ha : WF cfg a) (hb : WF cfg b) (hca : cacheOK cfg a = true) (hcb : cacheOK cfg b = true) :
    equal cfg a b = true ↔ Eqv cfg a b := by
  sorry

/-! ## duplicates (C08) -/

/-- hypotheses on the elements handed to the duplicate check -/
def Elems (cfg : Cfg) (xs : List Val) : Prop :=
  ∀ x ∈ xs, depth x < maxDepthFuel ∧ WF cfg x ∧ cacheOK cfg x = true

theorem hasDupLinear_iff (cfg : Cfg) (xs : List Val) (h : Elems cfg xs) :
    hasDupLinear cfg xs = false ↔ pairwiseDistinct cfg xs := by
  sorry

/-- every strategy (and therefore every element count and threshold) decides the same thing,
    and the elements come back unchanged up to filled-in cache cells -/
theorem hasDuplicates_iff (cfg : Cfg) (xs : List Val) (h : Elems cfg xs) :
    ((hasDuplicates cfg xs).1 = false ↔ pairwiseDistinct cfg xs) ∧
    Elems cfg (hasDuplicates cfg xs).2 ∧
    (hasDuplicates cfg xs).2.length = xs.length ∧
    (pairwiseDistinct cfg xs → pairwiseDistinct cfg (hasDuplicates cfg xs).2) ∧
    depthL (hasDuplicates cfg xs).2 = depthL xs := by
  sorry

/-- the verdict does not depend on the order of the elements -/
theorem hasDuplicates_perm (cfg : Cfg) (xs ys : List Val) (h : Elems cfg xs) (hp : xs.Perm ys) :
    (hasDuplicates cfg xs).1 = (hasDuplicates cfg ys).1 := by
  sorry

/-! ## lookup (C09) -/

/-- looking up a value equal to key `i` of a well-formed map yields value `i` -/
theorem mapLookup_index (cfg : Cfg) (h : Hdr) (md : Option Val) (ks vs : List Val) (probe : Val) (i : Nat)
    (hm : WF cfg (.map h md ks vs)) (hd : depth (.map h md ks vs) < maxDepthFuel)
    (hc : cacheOK cfg (.map h md ks vs) = true)
    (hp : WF cfg probe) (hpd : depth probe < maxDepthFuel) (hpc : cacheOK cfg probe = true)
    (hi : i < ks.length) (heq : Eqv cfg ks[i] probe) :
    mapLookup cfg (.map h md ks vs) probe = vs[i]? := by
  sorry

/-- a probe equal to no key is not found -/
theorem mapLookup_absent (cfg : Cfg) (h : Hdr) (md : Option Val) (ks vs : List Val) (probe : Val)
    (hm : WF cfg (.map h md ks vs)) (hd : depth (.map h md ks vs) < maxDepthFuel)
    (hc : cacheOK cfg (.map h md ks vs) = true)
    (hp : WF cfg probe) (hpd : depth probe < maxDepthFuel) (hpc : cacheOK cfg probe = true)
    (hne : ∀ k ∈ ks, ¬ Eqv cfg k probe) :
    mapLookup cfg (.map h md ks vs) probe = none := by
  sorry

theorem setContains_iff (cfg : Cfg) (h : Hdr) (md : Option Val) (xs : List Val) (probe : Val)
    (hm : WF cfg (.set h md xs)) (hd : depth (.set h md xs) < maxDepthFuel)
    (hc : cacheOK cfg (.set h md xs) = true)
    (hp : WF cfg probe) (hpd : depth probe < maxDepthFuel) (hpc : cacheOK cfg probe = true) :
    setContains cfg (.set h md xs) probe = true ↔ ∃ x ∈ xs, Eqv cfg x probe := by
  sorry

end Edn.Proofs
