/-
  Edn.Proofs.Equal — value algebra (properties C07, C08, C09): structural equality is an
  equivalence on well-formed values, hashing is a congruence for it, the cached-hash short
  circuit never changes an answer, the duplicate check decides "two elements are equal"
  for every strategy, and lookup finds exactly the entry whose key is equal to the probe.

  All inductions are on the recursion fuel (which is the C code's depth budget); values
  are related to a fuel by `depth v < f`.  The work is done in `EqualAux1` … `EqualAux7`
  (list combinatorics; one level of the recursion with the recursive call abstracted;
  scalar kinds; collection kinds; the inductions); this file states the results.

  Statement changes against the skeleton (both needed, see the counterexample):
  `eqvF_refl` and `Eqv_refl` take `WF cfg a`.  Without it they are false: the map with
  keys `[nil, nil]` and values `[1, 2]` is not equal to itself (the second entry finds the
  first key and compares `2` with `1`), nor is a map with more keys than values.
-/
import Edn.Spec.Eqv
import Edn.Proofs.EqualAux7

namespace Edn.Proofs
open Edn.Model Edn.Spec

/-! ## depth -/

theorem depth_le_depthL {x : Val} {xs : List Val} (h : x ∈ xs) : depth x ≤ depthL xs :=
  depth_le_depthL_aux xs x h

/-! ## fuel stability: once the fuel exceeds the left operand's depth the answer is fixed -/

theorem eqvF_fuel (cfg : Cfg) : ∀ (f f' : Nat) (a b : Val), depth a < f → depth a < f' →
    eqvF cfg f a b = eqvF cfg f' a b :=
  eqvF_fuel_aux cfg

/-! ## equivalence -/

/-- (statement change: `WF cfg a` added; a map with duplicate keys is not equal to itself) -/
theorem eqvF_refl (cfg : Cfg) : ∀ (f : Nat) (a : Val), depth a < f → WF cfg a →
    eqvF cfg f a a = true :=
  fun f a hd hw => eqvF_refl_aux cfg f a ⟨hd, hw⟩

theorem eqvF_symm (cfg : Cfg) : ∀ (f : Nat) (a b : Val), depth a < f → depth b < f →
    WF cfg a → WF cfg b → eqvF cfg f a b = true → eqvF cfg f b a = true :=
  fun f a b hda hdb hwa hwb h => eqvF_symm_aux cfg f a b ⟨hda, hwa⟩ ⟨hdb, hwb⟩ h

theorem eqvF_trans (cfg : Cfg) : ∀ (f : Nat) (a b c : Val), depth a < f → depth b < f → depth c < f →
    WF cfg a → WF cfg b → WF cfg c →
    eqvF cfg f a b = true → eqvF cfg f b c = true → eqvF cfg f a c = true :=
  fun f a b c hda hdb hdc hwa hwb hwc h h' =>
    eqvF_trans_aux cfg f a b c ⟨hda, hwa⟩ ⟨hdb, hwb⟩ ⟨hdc, hwc⟩ h h'

/-- the skeleton's `eqvF_refl` (without `WF`) does not hold: a map with a repeated key -/
theorem eqvF_refl_needs_WF :
    ¬ ∀ (cfg : Cfg) (f : Nat) (a : Val), depth a < f → eqvF cfg f a a = true := by
  intro h
  have := h Cfg.core 2
    (.map (mkHdr 0 0) none [.nil (mkHdr 0 0), .nil (mkHdr 0 0)]
      [.bool (mkHdr 0 0) true, .bool (mkHdr 0 0) false]) (by decide)
  exact absurd this (by decide)

/-! ## hashing is a congruence -/

theorem hash_congr (cfg : Cfg) : ∀ (f : Nat) (a b : Val), depth a < f → depth b < f →
    WF cfg a → WF cfg b → eqvF cfg f a b = true → hashV cfg a = hashV cfg b :=
  fun f a b hda hdb hwa hwb h => hash_at cfg f a b ⟨hda, hwa⟩ ⟨hdb, hwb⟩ h

/-! ## the cached-hash short circuit never changes an answer -/

theorem equalF_eq_eqvF (cfg : Cfg) : ∀ (f : Nat) (a b : Val), depth a < f → depth b < f →
    WF cfg a → WF cfg b → cacheOK cfg a = true → cacheOK cfg b = true →
    equalF cfg f a b = eqvF cfg f a b :=
  fun f a b hda hdb hwa hwb hca hcb => equalF_eq_eqvF_aux cfg f a b ⟨hda, hwa⟩ ⟨hdb, hwb⟩ hca hcb

/-- `edn_value_hash` keeps every cache cell valid and does not change the value otherwise -/
theorem hashOp_cacheOK (cfg : Cfg) (v : Val) (h : cacheOK cfg v = true) :
    cacheOK cfg (hashOp cfg v).2 = true ∧ depth (hashOp cfg v).2 = depth v ∧
    (WF cfg v → WF cfg (hashOp cfg v).2) ∧
    (∀ f b, eqvF cfg f (hashOp cfg v).2 b = eqvF cfg f v b) ∧
    (∀ f b, eqvF cfg f b (hashOp cfg v).2 = eqvF cfg f b v) ∧
    hashV cfg (hashOp cfg v).2 = hashV cfg v :=
  hashOp_facts cfg v h

/-! ## corollaries in terms of `Eqv` and the model's `equal` -/

/-- (statement change: `WF cfg a` added, as for `eqvF_refl`) -/
theorem Eqv_refl (cfg : Cfg) (a : Val) (ha : WF cfg a) : Eqv cfg a a :=
  eqvF_refl cfg (depth a + 1) a (Nat.lt_succ_self _) ha

theorem Eqv_symm (cfg : Cfg) (a b : Val) (ha : WF cfg a) (hb : WF cfg b) : Eqv cfg a b → Eqv cfg b a := by
  intro h
  have hd := depth_eq_of_eqvF cfg (depth a + 1) a b (Nat.lt_succ_self _) ha hb h
  unfold Eqv
  rw [hd]
  exact eqvF_symm cfg (depth a + 1) a b (Nat.lt_succ_self _) (by omega) ha hb h

theorem Eqv_trans (cfg : Cfg) (a b c : Val) (ha : WF cfg a) (hb : WF cfg b) (hc : WF cfg c) :
    Eqv cfg a b → Eqv cfg b c → Eqv cfg a c := by
  intro h h'
  have hd := depth_eq_of_eqvF cfg (depth a + 1) a b (Nat.lt_succ_self _) ha hb h
  have hd' := depth_eq_of_eqvF cfg (depth b + 1) b c (Nat.lt_succ_self _) hb hc h'
  have h'' : eqvF cfg (depth a + 1) b c = true := by rw [← hd]; exact h'
  exact eqvF_trans cfg (depth a + 1) a b c (Nat.lt_succ_self _) (by omega) (by omega) ha hb hc h h''

theorem Eqv_hash (cfg : Cfg) (a b : Val) (ha : WF cfg a) (hb : WF cfg b) :
    Eqv cfg a b → hashV cfg a = hashV cfg b := by
  intro h
  have hd := depth_eq_of_eqvF cfg (depth a + 1) a b (Nat.lt_succ_self _) ha hb h
  exact hash_congr cfg (depth a + 1) a b (Nat.lt_succ_self _) (by omega) ha hb h

/-- the model's `edn_value_equal` decides `Eqv` for all values within the depth the reader
    can produce, whatever the (valid) state of the caches -/
theorem equal_iff_Eqv (cfg : Cfg) (a b : Val)
    (hda : depth a < maxDepthFuel) (hdb : depth b < maxDepthFuel)
    (ha : WF cfg a) (hb : WF cfg b) (hca : cacheOK cfg a = true) (hcb : cacheOK cfg b = true) :
    equal cfg a b = true ↔ Eqv cfg a b := by
  unfold equal
  rw [equalF_eq_eqvF cfg maxDepthFuel a b hda hdb ha hb hca hcb]
  exact (Eqv_iff cfg hda).symm

/-! ## duplicates (C08) -/

/-- hypotheses on the elements handed to the duplicate check -/
def Elems (cfg : Cfg) (xs : List Val) : Prop :=
  ∀ x ∈ xs, depth x < maxDepthFuel ∧ WF cfg x ∧ cacheOK cfg x = true

theorem Elems.tail {cfg : Cfg} {x : Val} {xs : List Val} (h : Elems cfg (x :: xs)) : Elems cfg xs :=
  fun y hy => h y (List.mem_cons_of_mem _ hy)

theorem Elems.equal_iff {cfg : Cfg} {xs : List Val} (h : Elems cfg xs) {x y : Val}
    (hx : x ∈ xs) (hy : y ∈ xs) : equal cfg x y = true ↔ Eqv cfg x y :=
  equal_iff_Eqv cfg x y (h x hx).1 (h y hy).1 (h x hx).2.1 (h y hy).2.1 (h x hx).2.2 (h y hy).2.2

theorem hasDupLinear_iff (cfg : Cfg) (xs : List Val) (h : Elems cfg xs) :
    hasDupLinear cfg xs = false ↔ pairwiseDistinct cfg xs := by
  induction xs with
  | nil => exact ⟨fun _ => List.Pairwise.nil, fun _ => rfl⟩
  | cons x xs ih =>
    show ((xs.any fun y => equal cfg x y) || hasDupLinear cfg xs) = false ↔ _
    unfold pairwiseDistinct
    rw [Bool.or_eq_false_iff, List.any_eq_false, List.pairwise_cons, ih h.tail]
    unfold pairwiseDistinct
    have e : (∀ y ∈ xs, ¬ equal cfg x y = true) ↔ (∀ y ∈ xs, ¬ Eqv cfg x y ∧ ¬ Eqv cfg y x) := by
      constructor
      · intro h1 y hy
        have hxy : ¬ Eqv cfg x y := fun he =>
          h1 y hy ((h.equal_iff List.mem_cons_self (List.mem_cons_of_mem _ hy)).mpr he)
        exact ⟨hxy, fun he => hxy (Eqv_symm cfg y x (h y (List.mem_cons_of_mem _ hy)).2.1
          (h x List.mem_cons_self).2.1 he)⟩
      · intro h1 y hy he
        exact (h1 y hy).1 ((h.equal_iff List.mem_cons_self (List.mem_cons_of_mem _ hy)).mp he)
    rw [e]

/-- when every top cache cell holds the hash, the hash-restricted strategies compare exactly
    the pairs that matter -/
theorem hasDupHashed_eq_linear (cfg : Cfg) (ys : List Val) (h : Elems cfg ys)
    (hh : ∀ y ∈ ys, y.hdr.hc = cacheOf (hashV cfg y)) :
    hasDupHashed cfg ys = hasDupLinear cfg ys := by
  induction ys with
  | nil => rfl
  | cons x ys ih =>
    show ((ys.any fun y => x.hdr.hc == y.hdr.hc && equal cfg x y) || hasDupHashed cfg ys)
      = ((ys.any fun y => equal cfg x y) || hasDupLinear cfg ys)
    rw [ih h.tail fun y hy => hh y (List.mem_cons_of_mem _ hy)]
    congr 1
    apply any_congr_mem
    intro y hy
    cases he : equal cfg x y with
    | false => rw [Bool.and_false]
    | true =>
      have hm := List.mem_cons_of_mem x hy
      have hE := (h.equal_iff List.mem_cons_self hm).mp he
      have := Eqv_hash cfg x y (h x List.mem_cons_self).2.1 (h y hm).2.1 hE
      rw [hh x List.mem_cons_self, hh y hm, this, Bool.and_true]
      exact beq_self_eq_true _

theorem Eqv_hashOp (cfg : Cfg) (x y : Val) (hx : cacheOK cfg x = true) (hy : cacheOK cfg y = true) :
    Eqv cfg (hashOp cfg x).2 (hashOp cfg y).2 ↔ Eqv cfg x y := by
  obtain ⟨-, hd, -, hl, -, -⟩ := hashOp_cacheOK cfg x hx
  obtain ⟨-, -, -, -, hr, -⟩ := hashOp_cacheOK cfg y hy
  unfold Eqv
  rw [hd, hl, hr]

theorem Elems_hashOp (cfg : Cfg) (xs : List Val) (h : Elems cfg xs) :
    Elems cfg (xs.map fun x => (hashOp cfg x).2) := by
  intro y hy
  obtain ⟨x, hx, rfl⟩ := List.mem_map.mp hy
  obtain ⟨hc, hd, hw, -, -, -⟩ := hashOp_cacheOK cfg x (h x hx).2.2
  exact ⟨by rw [hd]; exact (h x hx).1, hw (h x hx).2.1, hc⟩

theorem pairwiseDistinct_hashOp (cfg : Cfg) (xs : List Val) (h : Elems cfg xs) :
    pairwiseDistinct cfg (xs.map fun x => (hashOp cfg x).2) ↔ pairwiseDistinct cfg xs := by
  unfold pairwiseDistinct
  rw [List.pairwise_map]
  constructor
  · intro hp
    refine List.Pairwise.imp_of_mem ?_ hp
    intro a b ha hb hab
    rw [Eqv_hashOp cfg a b (h a ha).2.2 (h b hb).2.2, Eqv_hashOp cfg b a (h b hb).2.2 (h a ha).2.2] at hab
    exact hab
  · intro hp
    refine List.Pairwise.imp_of_mem ?_ hp
    intro a b ha hb hab
    rw [Eqv_hashOp cfg a b (h a ha).2.2 (h b hb).2.2, Eqv_hashOp cfg b a (h b hb).2.2 (h a ha).2.2]
    exact hab

theorem depthL_hashOp (cfg : Cfg) : ∀ (xs : List Val), (∀ x ∈ xs, cacheOK cfg x = true) →
    depthL (xs.map fun x => (hashOp cfg x).2) = depthL xs := by
  intro xs
  induction xs with
  | nil => intro _; rfl
  | cons x xs ih =>
    intro h
    rw [List.map_cons, depthL_cons, depthL_cons, ih fun y hy => h y (List.mem_cons_of_mem _ hy),
      (hashOp_cacheOK cfg x (h x List.mem_cons_self)).2.1]

theorem pairwiseDistinct_small (cfg : Cfg) (xs : List Val) (h : xs.length ≤ 1) :
    pairwiseDistinct cfg xs := by
  unfold pairwiseDistinct
  match xs, h with
  | [], _ => exact List.Pairwise.nil
  | [x], _ => exact List.pairwise_singleton _ _
  | _ :: _ :: _, h => simp at h

/-- every strategy (and therefore every element count and threshold) decides the same thing,
    and the elements come back unchanged up to filled-in cache cells -/
theorem hasDuplicates_iff (cfg : Cfg) (xs : List Val) (h : Elems cfg xs) :
    ((hasDuplicates cfg xs).1 = false ↔ pairwiseDistinct cfg xs) ∧
    Elems cfg (hasDuplicates cfg xs).2 ∧
    (hasDuplicates cfg xs).2.length = xs.length ∧
    (pairwiseDistinct cfg xs → pairwiseDistinct cfg (hasDuplicates cfg xs).2) ∧
    depthL (hasDuplicates cfg xs).2 = depthL xs := by
  unfold hasDuplicates
  by_cases h1 : xs.length ≤ 1
  · rw [if_pos h1]
    exact ⟨⟨fun _ => pairwiseDistinct_small cfg xs h1, fun _ => rfl⟩, h, rfl, id, rfl⟩
  · rw [if_neg h1]
    by_cases h2 : xs.length ≤ Generated.Tables.linearThreshold
    · rw [if_pos h2]
      exact ⟨hasDupLinear_iff cfg xs h, h, rfl, id, rfl⟩
    · rw [if_neg h2]
      have hE := Elems_hashOp cfg xs h
      have hh : ∀ y ∈ xs.map (fun x => (hashOp cfg x).2), y.hdr.hc = cacheOf (hashV cfg y) := by
        intro y hy
        obtain ⟨x, hx, rfl⟩ := List.mem_map.mp hy
        rw [hashOp_hc cfg x (h x hx).2.2, (hashOp_cacheOK cfg x (h x hx).2.2).2.2.2.2.2]
      refine ⟨?_, hE, List.length_map _, (pairwiseDistinct_hashOp cfg xs h).mpr,
        depthL_hashOp cfg xs fun x hx => (h x hx).2.2⟩
      show hasDupHashed cfg _ = false ↔ _
      rw [hasDupHashed_eq_linear cfg _ hE hh, hasDupLinear_iff cfg _ hE,
        pairwiseDistinct_hashOp cfg xs h]

/-- the verdict does not depend on the order of the elements -/
theorem hasDuplicates_perm (cfg : Cfg) (xs ys : List Val) (h : Elems cfg xs) (hp : xs.Perm ys) :
    (hasDuplicates cfg xs).1 = (hasDuplicates cfg ys).1 := by
  have h' : Elems cfg ys := fun y hy => h y (hp.mem_iff.mpr hy)
  have e1 := (hasDuplicates_iff cfg xs h).1
  have e2 := (hasDuplicates_iff cfg ys h').1
  have e3 : pairwiseDistinct cfg xs ↔ pairwiseDistinct cfg ys :=
    List.Perm.pairwise_iff (fun hxy => ⟨hxy.2, hxy.1⟩) hp
  have e : (hasDuplicates cfg xs).1 = false ↔ (hasDuplicates cfg ys).1 = false :=
    e1.trans (e3.trans e2.symm)
  cases hx : (hasDuplicates cfg xs).1 <;> cases hy : (hasDuplicates cfg ys).1 <;> simp_all

/-! ## lookup (C09) -/

theorem map_keys_Elems (cfg : Cfg) (h : Hdr) (md : Option Val) (ks vs : List Val)
    (hm : WF cfg (.map h md ks vs)) (hd : depth (.map h md ks vs) < maxDepthFuel)
    (hc : cacheOK cfg (.map h md ks vs) = true) : Elems cfg ks := by
  intro k hk
  have hch : k ∈ children (.map h md ks vs) := List.mem_append_left _ hk
  exact ⟨Nat.lt_trans (depth_child hch) hd, WF_child cfg hm hch, cacheOK_child cfg hc hch⟩

theorem go_index (cfg : Cfg) (probe : Val)
    (hp : WF cfg probe) (hpd : depth probe < maxDepthFuel) (hpc : cacheOK cfg probe = true) :
    ∀ (ks vs : List Val) (i : Nat), ks.length = vs.length → pairwiseDistinct cfg ks → Elems cfg ks →
      ∀ (hi : i < ks.length), Eqv cfg ks[i] probe → mapLookup.go cfg probe ks vs = vs[i]? := by
  intro ks
  induction ks with
  | nil => intro vs i _ _ _ hi; exact absurd hi (Nat.not_lt_zero _)
  | cons k ks ih =>
    intro vs i hl hd hE hi heq
    cases vs with
    | nil => simp at hl
    | cons v vs =>
      show (if equal cfg k probe = true then some v else mapLookup.go cfg probe ks vs) = _
      have hk := hE k List.mem_cons_self
      have hkp : equal cfg k probe = true ↔ Eqv cfg k probe :=
        equal_iff_Eqv cfg k probe hk.1 hpd hk.2.1 hp hk.2.2 hpc
      cases i with
      | zero =>
        rw [if_pos (hkp.mpr heq)]; rfl
      | succ i =>
        have hi' : i < ks.length := by simpa using hi
        have heq' : Eqv cfg ks[i] probe := heq
        have hmem : ks[i] ∈ ks := List.getElem_mem hi'
        have hki := hE ks[i] (List.mem_cons_of_mem _ hmem)
        unfold pairwiseDistinct at hd
        rw [List.pairwise_cons] at hd
        have hne : ¬ equal cfg k probe = true := by
          intro he
          have h1 := hkp.mp he
          have h2 := Eqv_symm cfg ks[i] probe hki.2.1 hp heq'
          exact (hd.1 ks[i] hmem).1 (Eqv_trans cfg k probe ks[i] hk.2.1 hp hki.2.1 h1 h2)
        rw [if_neg hne]
        rw [ih vs i (by simpa using hl) hd.2 hE.tail hi' heq']
        rfl

/-- looking up a value equal to key `i` of a well-formed map yields value `i` -/
theorem mapLookup_index (cfg : Cfg) (h : Hdr) (md : Option Val) (ks vs : List Val) (probe : Val) (i : Nat)
    (hm : WF cfg (.map h md ks vs)) (hd : depth (.map h md ks vs) < maxDepthFuel)
    (hc : cacheOK cfg (.map h md ks vs) = true)
    (hp : WF cfg probe) (hpd : depth probe < maxDepthFuel) (hpc : cacheOK cfg probe = true)
    (hi : i < ks.length) (heq : Eqv cfg ks[i] probe) :
    mapLookup cfg (.map h md ks vs) probe = vs[i]? := by
  obtain ⟨hdist, hl, -, -⟩ := WF_map hm
  exact go_index cfg probe hp hpd hpc ks vs i hl hdist (map_keys_Elems cfg h md ks vs hm hd hc) hi heq

theorem go_absent (cfg : Cfg) (probe : Val)
    (hp : WF cfg probe) (hpd : depth probe < maxDepthFuel) (hpc : cacheOK cfg probe = true) :
    ∀ (ks vs : List Val), Elems cfg ks → (∀ k ∈ ks, ¬ Eqv cfg k probe) →
      mapLookup.go cfg probe ks vs = none := by
  intro ks
  induction ks with
  | nil => intro vs _ _; rfl
  | cons k ks ih =>
    intro vs hE hne
    cases vs with
    | nil => rfl
    | cons v vs =>
      show (if equal cfg k probe = true then some v else mapLookup.go cfg probe ks vs) = none
      have hk := hE k List.mem_cons_self
      have hkp : equal cfg k probe = true ↔ Eqv cfg k probe :=
        equal_iff_Eqv cfg k probe hk.1 hpd hk.2.1 hp hk.2.2 hpc
      rw [if_neg fun he => hne k List.mem_cons_self (hkp.mp he)]
      exact ih vs hE.tail fun k' hk' => hne k' (List.mem_cons_of_mem _ hk')

/-- a probe equal to no key is not found -/
theorem mapLookup_absent (cfg : Cfg) (h : Hdr) (md : Option Val) (ks vs : List Val) (probe : Val)
    (hm : WF cfg (.map h md ks vs)) (hd : depth (.map h md ks vs) < maxDepthFuel)
    (hc : cacheOK cfg (.map h md ks vs) = true)
    (hp : WF cfg probe) (hpd : depth probe < maxDepthFuel) (hpc : cacheOK cfg probe = true)
    (hne : ∀ k ∈ ks, ¬ Eqv cfg k probe) :
    mapLookup cfg (.map h md ks vs) probe = none :=
  go_absent cfg probe hp hpd hpc ks vs (map_keys_Elems cfg h md ks vs hm hd hc) hne

theorem setContains_iff (cfg : Cfg) (h : Hdr) (md : Option Val) (xs : List Val) (probe : Val)
    (hm : WF cfg (.set h md xs)) (hd : depth (.set h md xs) < maxDepthFuel)
    (hc : cacheOK cfg (.set h md xs) = true)
    (hp : WF cfg probe) (hpd : depth probe < maxDepthFuel) (hpc : cacheOK cfg probe = true) :
    setContains cfg (.set h md xs) probe = true ↔ ∃ x ∈ xs, Eqv cfg x probe := by
  show (xs.any fun e => equal cfg e probe) = true ↔ _
  rw [List.any_eq_true]
  have key : ∀ x ∈ xs, (equal cfg x probe = true ↔ Eqv cfg x probe) := by
    intro x hx
    have hch : x ∈ children (.set h md xs) := hx
    exact equal_iff_Eqv cfg x probe (Nat.lt_trans (depth_child hch) hd) hpd (WF_child cfg hm hch) hp
      (cacheOK_child cfg hc hch) hpc
  constructor
  · intro ⟨x, hx, he⟩; exact ⟨x, hx, (key x hx).mp he⟩
  · intro ⟨x, hx, he⟩; exact ⟨x, hx, (key x hx).mpr he⟩

end Edn.Proofs
