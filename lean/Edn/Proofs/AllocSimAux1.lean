/-
  Edn.Proofs.AllocSimAux1 — refinement of the allocation-aware reader, part 1: the vocabulary.

  * `Fr x a a'` ("frame"): from allocation state `a` to `a'` the parser's arena keeps its life
    state, its count of refused requests does not decrease, and it does not move at all when the
    oracle fails nothing.
  * `Sim x r a v`: the computation that started in `a` and returned `r` satisfies the frame, and
    *if the parser's arena is alive and its count of refused requests did not move, the result is
    the pure value `v`*.  With an oracle that fails nothing the count cannot move, so `Sim` gives
    the refinement (`Sim.exact`); with an arbitrary oracle it says that a verdict obtained while
    the count stood still is the verdict of the fault-free run — which is what the callers of the
    duplicate check and of the metadata merge test.
  * `request` facts, the two lazy materialisation primitives, the generic combinators of
    `equalFA`.
-/
import Edn.Proofs.AllocNumber
import Edn.Proofs.EqualAux2

namespace Edn.Proofs.AllocSim
open Edn.Model Edn.Proofs.AllocBasic Edn.Proofs

/-- the oracle fails no request -/
def NoFault (x : ACtx) : Prop := ∀ n, x.orc n = false

/-- frame condition between an earlier and a later allocation state -/
structure Fr (x : ACtx) (a a' : ASt) : Prop where
  arena : a'.arena = a.arena
  le : a.failedArena ≤ a'.failedArena
  quiet : NoFault x → a'.failedArena = a.failedArena

theorem Fr.refl (x : ACtx) (a : ASt) : Fr x a a := ⟨rfl, Nat.le_refl _, fun _ => rfl⟩

theorem Fr.trans {x : ACtx} {a b c : ASt} (h1 : Fr x a b) (h2 : Fr x b c) : Fr x a c :=
  ⟨h2.arena.trans h1.arena, Nat.le_trans h1.le h2.le, fun hx => (h2.quiet hx).trans (h1.quiet hx)⟩

/-- a frame whose ends have the same count has the same count in the middle -/
theorem Fr.squeeze {x : ACtx} {a b c : ASt} (h1 : Fr x a b) (h2 : Fr x b c) (h : c.failedArena = a.failedArena) :
    b.failedArena = a.failedArena ∧ c.failedArena = b.failedArena := by
  have := h1.le; have := h2.le
  constructor <;> omega

/-- anything that leaves `arena` and `failedArena` alone -/
theorem Fr.of_eq {x : ACtx} {a a' : ASt} (h1 : a'.arena = a.arena) (h2 : a'.failedArena = a.failedArena) : Fr x a a' :=
  ⟨h1, Nat.le_of_eq h2.symm, fun _ => h2⟩

def Sim {α : Type} (x : ACtx) (r : α × ASt) (a : ASt) (v : α) : Prop :=
  Fr x a r.2 ∧ (a.arena = .alive → r.2.failedArena = a.failedArena → r.1 = v)

/-- refinement: with an oracle that fails nothing and a live arena the result is the pure one,
    and the arena is still alive -/
theorem Sim.exact {α : Type} {x : ACtx} {r : α × ASt} {a : ASt} {v : α} (h : Sim x r a v)
    (hx : NoFault x) (ha : a.arena = .alive) : r.1 = v ∧ r.2.arena = .alive :=
  ⟨h.2 ha (h.1.quiet hx), h.1.arena.trans ha⟩

/-- a computation that makes no request and returns the pure value -/
theorem Sim.pure {α : Type} (x : ACtx) (a : ASt) (v : α) : Sim x (v, a) a v := ⟨Fr.refl x a, fun _ _ => rfl⟩

/-- sequencing: `r2` was computed from the state of `r1`; it is enough to establish the pure value
    of the whole under the assumption that both parts returned their pure values -/
theorem Sim.seq {α β : Type} {x : ACtx} {a : ASt} {r1 : α × ASt} {v1 : α} {r2 : β × ASt} {w : β}
    (h1 : Sim x r1 a v1) (hf : Fr x r1.2 r2.2)
    (hv : a.arena = .alive → r1.2.arena = .alive → r1.1 = v1 → r2.2.failedArena = r1.2.failedArena → r2.1 = w) :
    Sim x r2 a w := by
  refine ⟨h1.1.trans hf, fun ha hc => ?_⟩
  obtain ⟨c1, c2⟩ := Fr.squeeze h1.1 hf hc
  exact hv ha (h1.1.arena.trans ha) (h1.2 ha c1) c2

/-! ## one request -/

theorem request_failedArena (orc : Nat → Bool) (k : ReqKind) (a : ASt) (old : Nat) :
    (a.request orc k old).2.failedArena =
      if k == .arena && a.arena == .alive && orc (a.reqs + 1) then a.failedArena + 1 else a.failedArena := rfl

theorem request_fr (x : ACtx) (k : ReqKind) (a : ASt) (old : Nat) : Fr x a (a.request x.orc k old).2 := by
  refine ⟨rfl, ?_, fun hx => ?_⟩
  · rw [request_failedArena]; split <;> omega
  · rw [request_failedArena, hx]; simp

/-- a request on the live parser arena is granted when the count does not move -/
theorem request_arena_ok (x : ACtx) (a : ASt) (old : Nat) (ha : a.arena = .alive)
    (hc : (a.request x.orc .arena old).2.failedArena = a.failedArena) : (a.request x.orc .arena old).1 = true := by
  rw [request_failedArena, ha] at hc
  rw [request_ok, ha]
  have e1 : (ReqKind.arena == ReqKind.arena) = true := rfl
  have e2 : (ArenaSt.alive == ArenaSt.alive) = true := rfl
  cases ho : x.orc (a.reqs + 1)
  · rfl
  · rw [ho, e1, e2] at hc
    simp only [Bool.and_self, ↓reduceIte] at hc
    omega

/-- any request is granted by an oracle that fails nothing, provided its arena exists -/
theorem request_nofault (x : ACtx) (hx : NoFault x) (k : ReqKind) (a : ASt) (old : Nat)
    (hk : k = .arena → a.arena = .alive) : (a.request x.orc k old).1 = true :=
  request_succeeds x.orc k a old (hx _) hk

theorem free_fr (x : ACtx) (i : Nat) (a : ASt) : Fr x a (a.free i) := Fr.of_eq rfl rfl

theorem freeAll_fr (x : ACtx) (ids : List Nat) (a : ASt) : Fr x a (a.freeAll ids) := by
  induction ids generalizing a with
  | nil => exact Fr.refl x a
  | cons i is ih => exact (free_fr x i a).trans (ih (a.free i))

theorem release_fr (x : ACtx) (b : TbBuf) (a : ASt) : Fr x a (b.release a) := by
  unfold TbBuf.release
  exact (freeAll_fr x _ a).trans (free_fr x _ _)

theorem rawAlloc_fr (x : ACtx) (k : ReqKind) (a : ASt) : Fr x a (a.rawAlloc x.orc k).2 := by
  unfold ASt.rawAlloc
  have h := request_fr x k a 0
  cases hq : (a.request x.orc k).1 <;> simp only [hq, Bool.false_eq_true, ↓reduceIte]
  · exact h
  · exact h.trans (Fr.of_eq rfl rfl)

theorem rawAlloc_nofault (x : ACtx) (hx : NoFault x) (k : ReqKind) (a : ASt) (hk : k ≠ .arena) :
    (a.rawAlloc x.orc k).1.isSome = true := by
  unfold ASt.rawAlloc
  have h := request_nofault x hx k a 0 (fun e => absurd e hk)
  simp [h]

theorem realloc_fr (x : ACtx) (old : Nat) (a : ASt) : Fr x a (a.realloc x.orc old).2 := by
  unfold ASt.realloc
  have h := request_fr x .realloc a old
  cases hq : (a.request x.orc .realloc old).1 <;> simp only [hq, Bool.false_eq_true, ↓reduceIte]
  · exact h
  · exact h.trans (Fr.of_eq rfl rfl)

theorem realloc_nofault (x : ACtx) (hx : NoFault x) (old : Nat) (a : ASt) : (a.realloc x.orc old).1.isSome = true := by
  unfold ASt.realloc
  have h := request_nofault x hx .realloc a old (fun e => by cases e)
  simp [h]

/-! ## lazily materialised payloads -/

theorem strContentA_sim (x : ACtx) (h : Hdr) (d : Bytes) (e : Bool) (a : ASt) :
    Sim x (strContentA x h d e a) a (stringContent x.ctx.cfg d e) := by
  unfold strContentA stringContent
  cases e with
  | false => exact Sim.pure x a _
  | true =>
    simp only [Bool.not_true, Bool.false_eq_true, ↓reduceIte]
    split
    · exact Sim.pure x a _
    · have hf := request_fr x .arena a 0
      refine ⟨?_, fun ha hc => ?_⟩
      · cases (a.request x.orc .arena).1 <;> simp only [Bool.not_false, Bool.not_true, Bool.false_eq_true, ↓reduceIte]
        · exact hf
        · cases decodeString x.ctx.cfg (d.length + 1) d
          · exact hf
          · exact hf.trans (Fr.of_eq rfl rfl)
      · have hr : (a.request x.orc .arena).1 = true := by
          apply request_arena_ok x a 0 ha
          cases hr : (a.request x.orc .arena).1 <;>
            simp only [hr, Bool.not_false, Bool.not_true, Bool.false_eq_true, ↓reduceIte] at hc
          · exact hc
          · cases hd : decodeString x.ctx.cfg (d.length + 1) d <;> rw [hd] at hc <;> exact hc
        simp only [hr, Bool.not_true, Bool.false_eq_true, ↓reduceIte]
        cases decodeString x.ctx.cfg (d.length + 1) d <;> rfl

theorem filter_us_of_not_contains (d : Bytes) (h : d.contains 0x5F = false) : d.filter (· != 0x5F) = d := by
  rw [List.filter_eq_self]
  intro b hb
  have : ¬ (0x5F : UInt8) ∈ d := by simpa using h
  have hne : b ≠ 0x5F := fun e => this (e ▸ hb)
  simpa using hne

theorem cleanA_sim (x : ACtx) (h : Hdr) (d : Bytes) (a : ASt) :
    Sim x (cleanA x h d a) a (some (cleanDigits x.ctx.cfg d)) := by
  unfold cleanA
  split
  · next hc =>
    have : cleanDigits x.ctx.cfg d = d := by
      unfold cleanDigits
      cases he : x.ctx.cfg.exp
      · rfl
      · rw [he] at hc
        have : d.contains 0x5F = false := by simpa using hc
        simp [filter_us_of_not_contains d this]
    rw [this]; exact Sim.pure x a _
  · split
    · exact Sim.pure x a _
    · have hf := request_fr x .arena a 0
      refine ⟨?_, fun ha hc => ?_⟩
      · cases hr : (a.request x.orc .arena).1 <;> simp only [hr, Bool.not_false, Bool.not_true, Bool.false_eq_true, ↓reduceIte]
        · exact hf
        · exact hf.trans (Fr.of_eq rfl rfl)
      · have hr : (a.request x.orc .arena).1 = true := by
          apply request_arena_ok x a 0 ha
          cases hr : (a.request x.orc .arena).1 <;>
            simp only [hr, Bool.not_false, Bool.not_true, Bool.false_eq_true, ↓reduceIte] at hc <;> exact hc
        simp only [hr, Bool.not_true, Bool.false_eq_true, ↓reduceIte]

/-! ## generic combinators -/

/-- what is assumed of the comparison handed to a combinator -/
def PSpec (x : ACtx) (p : Val → Val → ASt → Bool × ASt) (q : Val → Val → Bool) : Prop :=
  ∀ u w a, Sim x (p u w a) a (q u w)

theorem anyA_sim {x : ACtx} {p : Val → Val → ASt → Bool × ASt} {q : Val → Val → Bool} (hp : PSpec x p q)
    (v : Val) (ys : List Val) (a : ASt) : Sim x (anyA p v ys a) a (ys.any (q v)) := by
  induction ys generalizing a with
  | nil => exact Sim.pure x a _
  | cons y ys ih =>
    unfold anyA
    have h1 := hp v y a
    rcases hq : p v y a with ⟨r, a1⟩
    rw [hq] at h1
    simp only
    cases r <;> simp only [Bool.false_eq_true, ↓reduceIte]
    · have h2 := ih a1
      refine Sim.seq h1 h2.1 (fun _ ha1 e1 hc => ?_)
      simp only at e1 ha1 hc ⊢
      rw [List.any_cons, ← e1, Bool.false_or]
      exact h2.2 ha1 hc
    · refine Sim.seq h1 (Fr.refl x _) (fun _ _ e1 _ => ?_)
      simp only at e1 ⊢
      rw [List.any_cons, ← e1, Bool.true_or]

theorem allZipA_sim {x : ACtx} {p : Val → Val → ASt → Bool × ASt} {q : Val → Val → Bool} (hp : PSpec x p q)
    (xs ys : List Val) (a : ASt) : Sim x (allZipA p xs ys a) a (allZip q xs ys) := by
  induction xs generalizing ys a with
  | nil => cases ys <;> exact Sim.pure x a _
  | cons v vs ih =>
    cases ys with
    | nil => exact Sim.pure x a _
    | cons y ys =>
      unfold allZipA allZip
      have h1 := hp v y a
      rcases hq : p v y a with ⟨r, a1⟩
      rw [hq] at h1
      simp only
      cases r <;> simp only [Bool.false_eq_true, ↓reduceIte]
      · refine Sim.seq h1 (Fr.refl x _) (fun _ _ e1 _ => ?_)
        simp only at e1 ⊢
        rw [← e1, Bool.false_and]
      · have h2 := ih ys a1
        refine Sim.seq h1 h2.1 (fun _ ha1 e1 hc => ?_)
        simp only at e1 ha1 hc ⊢
        rw [← e1, Bool.true_and]
        exact h2.2 ha1 hc

theorem allAnyA_sim {x : ACtx} {p : Val → Val → ASt → Bool × ASt} {q : Val → Val → Bool} (hp : PSpec x p q)
    (xs ys : List Val) (a : ASt) : Sim x (allAnyA p xs ys a) a (xs.all fun v => ys.any fun y => q v y) := by
  induction xs generalizing a with
  | nil => exact Sim.pure x a _
  | cons v vs ih =>
    unfold allAnyA
    have h1 := anyA_sim hp v ys a
    rcases hq : anyA p v ys a with ⟨r, a1⟩
    rw [hq] at h1
    simp only
    cases r <;> simp only [Bool.false_eq_true, ↓reduceIte]
    · refine Sim.seq h1 (Fr.refl x _) (fun _ _ e1 _ => ?_)
      simp only at e1 ⊢
      rw [List.all_cons, ← e1, Bool.false_and]
    · have h2 := ih a1
      refine Sim.seq h1 h2.1 (fun _ ha1 e1 hc => ?_)
      simp only at e1 ha1 hc ⊢
      rw [List.all_cons, ← e1, Bool.true_and]
      exact h2.2 ha1 hc

/-- the pure counterpart of `mapEntryA` -/
def mapEntry (q : Val → Val → Bool) (k v : Val) (ks' vs' : List Val) : Bool :=
  match findKey q k ks' vs' with
  | some v' => q v v'
  | none => false

theorem mapEntryA_sim {x : ACtx} {p : Val → Val → ASt → Bool × ASt} {q : Val → Val → Bool} (hp : PSpec x p q)
    (k v : Val) (ks vs : List Val) (a : ASt) : Sim x (mapEntryA p k v ks vs a) a (mapEntry q k v ks vs) := by
  induction ks generalizing vs a with
  | nil => cases vs <;> exact Sim.pure x a _
  | cons k' ks ih =>
    cases vs with
    | nil => exact Sim.pure x a _
    | cons v' vs =>
      unfold mapEntryA mapEntry findKey
      have h1 := hp k k' a
      rcases hq : p k k' a with ⟨r, a1⟩
      rw [hq] at h1
      simp only
      cases r <;> simp only [Bool.false_eq_true, ↓reduceIte]
      · have h2 := ih vs a1
        refine Sim.seq h1 h2.1 (fun _ ha1 e1 hc => ?_)
        simp only at e1 ha1 hc ⊢
        rw [← e1]
        exact h2.2 ha1 hc
      · have h2 := hp v v' a1
        refine Sim.seq h1 h2.1 (fun _ ha1 e1 hc => ?_)
        simp only at e1 ha1 hc ⊢
        rw [← e1]
        exact h2.2 ha1 hc

theorem mapAllA_sim {x : ACtx} {p : Val → Val → ASt → Bool × ASt} {q : Val → Val → Bool} (hp : PSpec x p q)
    (ks' vs' ks vs : List Val) (a : ASt) :
    Sim x (mapAllA p ks' vs' ks vs a) a (allZip (fun k v => mapEntry q k v ks' vs') ks vs) := by
  induction ks generalizing vs a with
  | nil => cases vs <;> exact Sim.pure x a _
  | cons k ks ih =>
    cases vs with
    | nil => exact Sim.pure x a _
    | cons v vs =>
      unfold mapAllA allZip
      have h1 := mapEntryA_sim hp k v ks' vs' a
      rcases hq : mapEntryA p k v ks' vs' a with ⟨r, a1⟩
      rw [hq] at h1
      simp only
      cases r <;> simp only [Bool.false_eq_true, ↓reduceIte]
      · refine Sim.seq h1 (Fr.refl x _) (fun _ _ e1 _ => ?_)
        simp only at e1 ⊢
        rw [← e1, Bool.false_and]
      · have h2 := ih vs a1
        refine Sim.seq h1 h2.1 (fun _ ha1 e1 hc => ?_)
        simp only at e1 ha1 hc ⊢
        rw [← e1, Bool.true_and]
        exact h2.2 ha1 hc

end Edn.Proofs.AllocSim
