/-
  Edn.Proofs.DispatchAux1 — registry dispatch (C14): the call log is only passed through by the
  leaf readers; in discard mode the registry is never consulted, so the run with a registry is
  the run without one (on any call log); without the Clojure flag no byte dispatches to the
  metadata reader.
-/
import Edn.Proofs.FlagIndepAux5

namespace Edn.Proofs
open Edn.Model Edn.Spec Edn.Generated

/-- the result with the call log replaced -/
def _root_.Edn.Model.Res.setCalls (cl : List Call) : Res → Res
  | .ok v st => .ok v { st with calls := cl }
  | .closer st => .closer { st with calls := cl }
  | .err e st => .err e { st with calls := cl }

/-! ## leaf readers pass the call log through and do not look at the options -/

theorem readString_calls (cfg : Cfg) (o0 o1 : Opts) (st : St) (cl : List Call) :
    readString { cfg := cfg, opts := o1 } { rest := st.rest, calls := cl }
      = (readString { cfg := cfg, opts := o0 } st).setCalls cl := by
  unfold readString
  simp only []
  split
  · split <;> rfl
  · split <;> rfl

theorem readCharacter_calls (cfg : Cfg) (o0 o1 : Opts) (st : St) (cl : List Call) :
    readCharacter { cfg := cfg, opts := o1 } { rest := st.rest, calls := cl }
      = (readCharacter { cfg := cfg, opts := o0 } st).setCalls cl := by
  rw [readCharacter_eq, readCharacter_eq]
  simp only []
  split
  · rfl
  · have : charBody { cfg := cfg, opts := o1 } st.rest.tail = charBody { cfg := cfg, opts := o0 } st.rest.tail := rfl
    rw [this]
    split
    · rfl
    · split
      · rfl
      · split <;> rfl

theorem readIdentifier_calls (cfg : Cfg) (o0 o1 : Opts) (st : St) (cl : List Call) :
    readIdentifier { cfg := cfg, opts := o1 } { rest := st.rest, calls := cl }
      = (readIdentifier { cfg := cfg, opts := o0 } st).setCalls cl := by
  unfold readIdentifier
  simp only []
  repeat' split
  all_goals rfl

theorem readSymbolic_calls (cfg : Cfg) (o0 o1 : Opts) (st : St) (cl : List Call) :
    readSymbolic { cfg := cfg, opts := o1 } { rest := st.rest, calls := cl }
      = (readSymbolic { cfg := cfg, opts := o0 } st).setCalls cl := by
  unfold readSymbolic
  simp only []
  repeat' split
  all_goals rfl

theorem readNumberRes_calls (cfg : Cfg) (o0 o1 : Opts) (st : St) (cl : List Call) :
    readNumberRes { cfg := cfg, opts := o1 } { rest := st.rest, calls := cl }
      = (readNumberRes { cfg := cfg, opts := o0 } st).setCalls cl := by
  unfold readNumberRes
  simp only []
  split <;> rfl

/-! ## no metadata dispatch without the Clojure flag -/

theorem dispatch_not_meta (cfg : Cfg) (hc : cfg.clj = false) (c : UInt8) : dispatch cfg c ≠ .metadata := by
  obtain ⟨clj, exp⟩ := cfg
  cases hc
  have key : ∀ exp : Bool, ∀ c, (dispatch ⟨false, exp⟩ c != .metadata) = true := by
    intro exp
    cases exp <;> exact forall_u8_bool _ (by decide +kernel)
  have := key exp c
  intro h
  rw [h] at this
  exact absurd this (by decide)

/-! ## discard mode -/

section
variable (cfg : Cfg) (o0 o1 : Opts)

abbrev K0' : Ctx := { cfg := cfg, opts := o0 }
abbrev K1' : Ctx := { cfg := cfg, opts := o1 }

def DV (f : Nat) : Prop := ∀ d st cl,
  readValue (K1' cfg o1) f d true { rest := st.rest, calls := cl } = (readValue (K0' cfg o0) f d true st).setCalls cl
def DS (f : Nat) : Prop := ∀ d kind start st cl acc,
  readSeq (K1' cfg o1) f d true kind start { rest := st.rest, calls := cl } acc
    = (readSeq (K0' cfg o0) f d true kind start st acc).setCalls cl
def DM (f : Nat) : Prop := ∀ d start ns st cl ks vs,
  readMap (K1' cfg o1) f d true start ns { rest := st.rest, calls := cl } ks vs
    = (readMap (K0' cfg o0) f d true start ns st ks vs).setCalls cl
def DN (f : Nat) : Prop := ∀ d start st cl,
  readNsMap (K1' cfg o1) f d true start { rest := st.rest, calls := cl }
    = (readNsMap (K0' cfg o0) f d true start st).setCalls cl
def DT (f : Nat) : Prop := ∀ d start st cl,
  readTagged (K1' cfg o1) f d true start { rest := st.rest, calls := cl }
    = (readTagged (K0' cfg o0) f d true start st).setCalls cl
def DMe (f : Nat) : Prop := ∀ d start st cl,
  readMeta (K1' cfg o1) f d true start { rest := st.rest, calls := cl }
    = (readMeta (K0' cfg o0) f d true start st).setCalls cl

theorem DS_succ (f : Nat) (hV : DV cfg o0 o1 f) (hS : DS cfg o0 o1 f) : DS cfg o0 o1 (f + 1) := by
  intro d kind start st cl acc
  rw [readSeq_succ, readSeq_succ]
  unfold rsStep
  rw [hV]
  cases hr : readValue (K0' cfg o0) f (d + 1) true st with
  | ok v st' => exact hS d kind start st' cl (v :: acc)
  | err e st' =>
    simp only [Res.setCalls]
    split <;> rfl
  | closer st' =>
    obtain ⟨r', c'⟩ := st'
    simp only [Res.setCalls]
    cases r' with
    | nil => rfl
    | cons c r =>
      simp only []
      split
      · rfl
      split
      · rfl
      split
      · rfl
      · show (if (hasDuplicates cfg acc.reverse).1 = true then _ else _) = Res.setCalls cl (if (hasDuplicates cfg acc.reverse).1 = true then _ else _)
        split <;> rfl

theorem DM_succ (f : Nat) (hV : DV cfg o0 o1 f) (hM : DM cfg o0 o1 f) : DM cfg o0 o1 (f + 1) := by
  intro d start ns st cl ks vs
  rw [readMap_succ, readMap_succ]
  unfold rmStep
  simp only []
  rw [hV]
  cases hr : readValue (K0' cfg o0) f (d + 1) true st with
  | ok k st' =>
    simp only [Res.setCalls]
    rw [hV]
    cases hr2 : readValue (K0' cfg o0) f (d + 1) true st' with
    | ok v st'' => exact hM d start ns st'' cl _ _
    | err e st'' =>
      simp only [Res.setCalls]
      split <;> rfl
    | closer st'' => rfl
  | err e st' =>
    simp only [Res.setCalls]
    split <;> rfl
  | closer st' =>
    obtain ⟨r', c'⟩ := st'
    simp only [Res.setCalls]
    cases r' with
    | nil => rfl
    | cons c r =>
      simp only []
      split
      · rfl
      · show (if (hasDuplicates cfg ks.reverse).1 = true then _ else _) = Res.setCalls cl (if (hasDuplicates cfg ks.reverse).1 = true then _ else _)
        split <;> rfl

theorem DN_succ (f : Nat) (hV : DV cfg o0 o1 f) (hM : DM cfg o0 o1 f) : DN cfg o0 o1 (f + 1) := by
  intro d start st cl
  rw [readNsMap_succ, readNsMap_succ]
  unfold rnStep
  rw [hV]
  cases hr : readValue (K0' cfg o0) f d true st with
  | closer st' => rfl
  | err e st' => rfl
  | ok kwv st' =>
    simp only [Res.setCalls]
    split
    · cases hs : skipWs st'.rest with
      | nil => rfl
      | cons c r =>
        simp only []
        split
        · exact hM d start _ { rest := r, calls := st'.calls } cl [] []
        · rfl
    · rfl

theorem DT_succ (f : Nat) (hV : DV cfg o0 o1 f) : DT cfg o0 o1 (f + 1) := by
  intro d start st cl
  rw [readTagged_succ, readTagged_succ]
  unfold rtStep
  simp only []
  obtain ⟨rest, c0⟩ := st
  cases rest with
  | nil => rfl
  | cons c t =>
    simp only []
    split
    · rfl
    · have hid := readIdentifier_calls cfg o0 o1 { rest := c :: t, calls := c0 } cl
      simp only [] at hid
      rw [hid]
      cases hr : readIdentifier (K0' cfg o0) { rest := c :: t, calls := c0 } with
      | closer st' => rfl
      | err e st' => rfl
      | ok tagv st' =>
        simp only [Res.setCalls]
        split
        · rw [hV]
          cases hr2 : readValue (K0' cfg o0) f (d + 1) true st' with
          | closer st'' => rfl
          | err e st'' => rfl
          | ok v st'' =>
            simp only [Res.setCalls]
            cases o0.registry <;> cases o1.registry <;> rfl
        · rfl

theorem DMe_succ (f : Nat) (hV : DV cfg o0 o1 f) : DMe cfg o0 o1 (f + 1) := by
  intro d start st cl
  rw [readMeta_succ, readMeta_succ]
  unfold rmeStep
  simp only []
  rw [hV]
  cases hr : readValue (K0' cfg o0) f (d + 1) true st with
  | closer st' => rfl
  | err e st' => rfl
  | ok m st' =>
    simp only [Res.setCalls]
    split
    · rfl
    · rw [hV]
      cases hr2 : readValue (K0' cfg o0) f (d + 1) true st' with
      | closer st'' => rfl
      | err e st'' => rfl
      | ok form st'' =>
        simp only [Res.setCalls]
        split <;> rfl

theorem rvStep_disc (f : Nat) (hV : DV cfg o0 o1 f) (hS : DS cfg o0 o1 f) (hM : DM cfg o0 o1 f)
    (hN : DN cfg o0 o1 f) (hT : DT cfg o0 o1 f) (hMe : DMe cfg o0 o1 f)
    (d : Nat) (c0 cl : List Call) (c : UInt8) (cs : Bytes) :
    rvStep (K1' cfg o1) (readValue (K1' cfg o1) f) (readSeq (K1' cfg o1) f) (readMap (K1' cfg o1) f)
        (readNsMap (K1' cfg o1) f) (readTagged (K1' cfg o1) f) (readMeta (K1' cfg o1) f) d true cl c cs
      = (rvStep (K0' cfg o0) (readValue (K0' cfg o0) f) (readSeq (K0' cfg o0) f) (readMap (K0' cfg o0) f)
        (readNsMap (K0' cfg o0) f) (readTagged (K0' cfg o0) f) (readMeta (K0' cfg o0) f) d true c0 c cs).setCalls cl := by
  unfold rvStep
  simp only []
  have hstr := readString_calls cfg o0 o1 { rest := c :: cs, calls := c0 } cl
  have hchr := readCharacter_calls cfg o0 o1 { rest := c :: cs, calls := c0 } cl
  have hid := readIdentifier_calls cfg o0 o1 { rest := c :: cs, calls := c0 } cl
  have hsy := readSymbolic_calls cfg o0 o1 { rest := c :: cs, calls := c0 } cl
  have hnum := readNumberRes_calls cfg o0 o1 { rest := c :: cs, calls := c0 } cl
  simp only [] at hstr hchr hid hsy hnum
  cases hdisp : dispatch cfg c with
  | string => exact hstr
  | character => exact hchr
  | listOpen =>
    simp only []
    split
    · rfl
    · exact hS d 0 _ { rest := cs, calls := c0 } cl []
  | vectorOpen =>
    simp only []
    split
    · rfl
    · exact hS d 1 _ { rest := cs, calls := c0 } cl []
  | mapOpen =>
    simp only []
    split
    · rfl
    · exact hM d _ none { rest := cs, calls := c0 } cl [] []
  | hash =>
    simp only []
    cases cs with
    | nil => exact hT d _ { rest := [], calls := c0 } cl
    | cons nx cs' =>
      simp only []
      split
      · exact hsy
      split
      · rfl
      split
      · exact hS d 2 _ { rest := cs', calls := c0 } cl []
      split
      · have h1 := hV (d + 1) { rest := cs', calls := c0 } cl
        simp only [] at h1
        rw [h1]
        cases hr : readValue (K0' cfg o0) f (d + 1) true { rest := cs', calls := c0 } with
        | ok v st' => exact hV d st' cl
        | closer st' => rfl
        | err e st' => rfl
      split
      · exact hN d _ { rest := nx :: cs', calls := c0 } cl
      · exact hT d _ { rest := nx :: cs', calls := c0 } cl
  | sign =>
    simp only []
    cases cs with
    | nil => exact hid
    | cons nx t =>
      simp only []
      split
      · exact hnum
      · exact hid
  | digit => exact hnum
  | delimiter =>
    simp only []
    split <;> rfl
  | metadata =>
    simp only []
    split
    · rfl
    · exact hMe d _ { rest := cs, calls := c0 } cl
  | identifier => exact hid

theorem DV_succ (f : Nat) (hV : DV cfg o0 o1 f) (hS : DS cfg o0 o1 f) (hM : DM cfg o0 o1 f)
    (hN : DN cfg o0 o1 f) (hT : DT cfg o0 o1 f) (hMe : DMe cfg o0 o1 f) : DV cfg o0 o1 (f + 1) := by
  intro d st cl
  rw [readValue_succ, readValue_succ]
  unfold rvOuter
  obtain ⟨rest, c0⟩ := st
  cases rest with
  | nil => rfl
  | cons b t =>
    simp only []
    cases hw : (if isPreWs b = true then skipWs (b :: t) else b :: t) with
    | nil => rfl
    | cons c cs =>
      simp only []
      exact rvStep_disc cfg o0 o1 f hV hS hM hN hT hMe d c0 cl c cs

/-- in discard mode the registry, the default mode and the incoming call log are irrelevant -/
theorem reader_discard : ∀ (f : Nat),
    DV cfg o0 o1 f ∧ DS cfg o0 o1 f ∧ DM cfg o0 o1 f ∧ DN cfg o0 o1 f ∧ DT cfg o0 o1 f ∧ DMe cfg o0 o1 f := by
  intro f
  induction f with
  | zero =>
    refine ⟨?_, ?_, ?_, ?_, ?_, ?_⟩
    · intro d st cl; rw [readValue_zero, readValue_zero]; rfl
    · intro d kind start st cl acc; rw [readSeq_zero, readSeq_zero]; rfl
    · intro d start ns st cl ks vs; rw [readMap_zero, readMap_zero]; rfl
    · intro d start st cl; rw [readNsMap_zero, readNsMap_zero]; rfl
    · intro d start st cl; rw [readTagged_zero, readTagged_zero]; rfl
    · intro d start st cl; rw [readMeta_zero, readMeta_zero]; rfl
  | succ f ih =>
    obtain ⟨hV, hS, hM, hN, hT, hMe⟩ := ih
    exact ⟨DV_succ cfg o0 o1 f hV hS hM hN hT hMe, DS_succ cfg o0 o1 f hV hS, DM_succ cfg o0 o1 f hV hM,
      DN_succ cfg o0 o1 f hV hM, DT_succ cfg o0 o1 f hV, DMe_succ cfg o0 o1 f hV⟩

end

end Edn.Proofs
