/-
  Edn.Proofs.FuelAux1 — helper definitions for the termination proofs (`Res.isFuelOut`,
  `Res.st`, `Progress`) and the "cursor only moves forward" lemmas about `readNumber`.
-/
import Edn.Proofs.Scan
import Edn.Model.Reader

namespace Edn.Proofs
open Edn.Model

def _root_.Edn.Model.Res.isFuelOut : Res → Bool
  | .err e _ => e.fuelOut
  | _ => false

/-- the state a result carries -/
def _root_.Edn.Model.Res.st : Res → St
  | .ok _ st | .closer st | .err _ st => st

/-- progress: a value consumes at least one byte; no result moves the position backwards -/
def Progress (before : St) (r : Res) : Prop :=
  match r with
  | .ok _ st' => st'.rest.length < before.rest.length
  | .closer st' => st'.rest.length ≤ before.rest.length
  | .err _ st' => st'.rest.length ≤ before.rest.length

/-! ## byte facts -/

def is09NotDelim (c : UInt8) : Bool := !is09 c || (c != 0 && !isDelim c && c != 0x2D && c != 0x2B)
theorem is09_notDelim : ∀ c, is09NotDelim c = true := forall_u8_bool _ (by decide +kernel)

theorem is09_facts {c : UInt8} (h : is09 c = true) :
    (c != 0) = true ∧ isDelim c = false ∧ (c == 0x2D) = false ∧ (c == 0x2B) = false := by
  have := is09_notDelim c
  simp only [is09NotDelim, h, Bool.not_true, Bool.false_or, Bool.and_eq_true, bne_iff_ne, ne_eq,
    Bool.not_eq_eq_eq_not, Bool.not_true] at this
  obtain ⟨⟨⟨h1, h2⟩, h3⟩, h4⟩ := this
  refine ⟨by simpa using h1, h2, by simpa using h3, by simpa using h4⟩

/-! ## lengths of cursors -/

theorem adv_length_le (s : Bytes) : (adv s).length ≤ s.length := by
  simp [adv]

theorem tail_length_le (s : Bytes) : s.tail.length ≤ s.length := by simp

theorem dropWhile_length_le (p : UInt8 → Bool) (s : Bytes) : (s.dropWhile p).length ≤ s.length :=
  (List.dropWhile_sublist _).length_le

/-- length of the cursor a number outcome carries -/
def numLen : NumOut → Nat
  | .ok _ r => r.length
  | .err c => c.length

def exLen : Except Bytes Bytes → Nat
  | .ok r => r.length
  | .error c => c.length

theorem finishNum_len (v : NumVal) (s : Bytes) : numLen (finishNum v s) = s.length := by
  unfold finishNum
  split <;> rfl

theorem decDigitsLoop_len (exp : Bool) : ∀ (f : Nat) (s : Bytes),
    exLen (decDigitsLoop exp f s) ≤ s.length := by
  intro f
  induction f with
  | zero => intro s; simp [decDigitsLoop, exLen]
  | succ f ih =>
    intro s
    rw [decDigitsLoop]
    simp only []
    have ha := adv_length_le s
    have := ih (adv s)
    split
    · split
      · omega
      · split
        · split
          · simp only [exLen]; omega
          · omega
        · simp [exLen]
    · simp [exLen]

theorem radixDigitsLoop_len (exp : Bool) (radix : Nat) (strict : Bool) : ∀ (f : Nat) (s : Bytes),
    exLen (radixDigitsLoop exp radix strict f s) ≤ s.length := by
  intro f
  induction f with
  | zero => intro s; simp [radixDigitsLoop, exLen]
  | succ f ih =>
    intro s
    rw [radixDigitsLoop]
    simp only []
    have ha := adv_length_le s
    have := ih (adv s)
    split
    · split
      · omega
      · split
        · split
          · simp only [exLen]; omega
          · omega
        · simp [exLen]
    · simp [exLen]

theorem fracDigits_len (exp : Bool) (s : Bytes) : (fracDigits exp s).length ≤ s.length :=
  dropWhile_length_le _ _

theorem ratioDenominator_len (s : Bytes) : exLen (ratioDenominator s) ≤ s.length := by
  unfold ratioDenominator
  simp only []
  have ha := adv_length_le s
  have hd := dropWhile_length_le is09 s
  split
  · simp [exLen]
  · split
    · simpa [exLen] using ha
    · split
      · simpa [exLen] using hd
      · split
        · simpa [exLen] using hd
        · simpa [exLen] using hd

theorem numLen_ite (c : Prop) [Decidable c] (a b : NumOut) (n : Nat) (ha : numLen a ≤ n) (hb : numLen b ≤ n) :
    numLen (if c then a else b) ≤ n := by split <;> assumption

theorem radixTail_len (cfg : Cfg) (neg : Bool) (radix : Nat) (allowN : Bool) (ds s : Bytes) :
    numLen (radixTail cfg neg radix allowN ds s) ≤ s.length := by
  unfold radixTail
  simp only []
  have ha := adv_length_le s
  generalize ht : (if (allowN && peek s == 78) = true then (true, false, adv s)
      else if (peek s == 77) = true then (false, true, adv s) else (false, false, s)) = t
  have hl : t.2.2.length ≤ s.length := by
    subst ht; split <;> (try split) <;> simp only [] <;> omega
  apply numLen_ite
  · exact hl
  · rw [finishNum_len]; exact hl

theorem decimalTail_len (cfg : Cfg) (start : Bytes) (neg hasDec hasExp : Bool) (ds s : Bytes) :
    numLen (decimalTail cfg start neg hasDec hasExp ds s) ≤ s.length := by
  unfold decimalTail
  simp only []
  have ha := adv_length_le s
  have hfa : ∀ v, numLen (finishNum v (adv s)) ≤ s.length := by intro v; rw [finishNum_len]; exact ha
  have hfs : ∀ v, numLen (finishNum v s) ≤ s.length := by intro v; rw [finishNum_len]; exact Nat.le_refl _
  apply numLen_ite
  · exact Nat.le_refl _
  apply numLen_ite
  · exact hfa _
  apply numLen_ite
  · exact hfa _
  apply numLen_ite
  · have hr := ratioDenominator_len (adv s)
    cases hrd : ratioDenominator (adv s) with
    | error cur => rw [hrd] at hr; simp only [exLen] at hr; simp only [numLen]; omega
    | ok s' =>
      rw [hrd] at hr; simp only [exLen] at hr
      have hfs' : ∀ v, numLen (finishNum v s') ≤ s.length := by intro v; rw [finishNum_len]; omega
      simp only []
      split
      · apply numLen_ite
        · simp only [numLen]; omega
        apply numLen_ite
        · simp only [numLen]; omega
        · exact hfs' _
      · apply numLen_ite <;> exact hfs' _
      · exact hfs' _
  apply numLen_ite
  · exact hfs _
  · exact hfs _

theorem exponentPart_len (cfg : Cfg) (start : Bytes) (neg hasDec : Bool) (ds s : Bytes) :
    numLen (exponentPart cfg start neg hasDec ds s) ≤ s.length := by
  unfold exponentPart
  simp only []
  have ha := adv_length_le s
  have ha2 := adv_length_le (adv s)
  generalize hs2 : (if (peek (adv s) == 43 || peek (adv s) == 45) = true then adv (adv s) else adv s) = s2
  have hl : s2.length ≤ s.length := by subst hs2; split <;> omega
  apply numLen_ite
  · exact hl
  · have := decimalTail_len cfg start neg hasDec true ds (fracDigits cfg.exp s2)
    have := fracDigits_len cfg.exp s2
    omega

theorem afterMantissa_len (cfg : Cfg) (start : Bytes) (neg hasDec : Bool) (ds s : Bytes) :
    numLen (afterMantissa cfg start neg hasDec ds s) ≤ s.length := by
  unfold afterMantissa
  simp only []
  apply numLen_ite
  · apply numLen_ite
    · exact Nat.le_refl _
    · exact exponentPart_len ..
  · exact decimalTail_len ..

theorem decimalPart_len (cfg : Cfg) (start : Bytes) (neg : Bool) (ds s : Bytes) :
    numLen (decimalPart cfg start neg ds s) ≤ s.length := by
  unfold decimalPart
  simp only []
  have ha := adv_length_le s
  apply numLen_ite
  · exact ha
  · have := afterMantissa_len cfg start neg true ds (fracDigits cfg.exp (adv s))
    have := fracDigits_len cfg.exp (adv s)
    omega


/-! ## `readNumber` split into its paths -/

def radixFormOf (cfg : Cfg) (neg : Bool) (s : Bytes) : Option NumOut :=
  let c := peek s
    if cfg.clj && is09 c then
      let rpos := s.dropWhile is09
      match rpos with
      | r :: rrest =>
        if r == 0x72 || r == 0x52 then
          let rv := radixPrefixValue 0 (slice s rpos)
          if 2 ≤ rv && rv ≤ 36 then
            let ds := rrest
            if !(digitValue (peek ds) rv).isSome then some (.err ds)
            else match radixDigitsLoop cfg.exp rv true (ds.length + 1) ds with
              | .error cur => some (.err cur)
              | .ok s' => some (radixTail cfg neg rv false ds s')
          else some (.err s)
        else none
      | [] => none
    else none

def cljBranchOf (cfg : Cfg) (neg : Bool) (digitsStart s1 : Bytes) : Option NumOut × Bytes :=
      let c1 := peek s1
      if cfg.clj then
        let s2 := s1.dropWhile (· == 0x30)
        let c2 := peek s2
        if c2 == 0x78 || c2 == 0x58 then
          let ds := adv s2
          if !(digitValue (peek ds) 16).isSome then (some (.err ds), s2)
          else match radixDigitsLoop cfg.exp 16 false (ds.length + 1) ds with
            | .error cur => (some (.err cur), s2)
            | .ok s' => (some (radixTail cfg neg 16 true ds s'), s2)
        else if 0x31 ≤ c2 && c2 ≤ 0x37 then
          match radixDigitsLoop cfg.exp 8 false (s2.length + 1) s2 with
          | .error cur => (some (.err cur), s2)
          | .ok s' => (some (radixTail cfg neg 8 true digitsStart s'), s2)
        else if c2 == 0x38 || c2 == 0x39 then (some (.err s2), s2)
        else (none, s2)
      else
        if is09 c1 then (some (.err s1), s1) else (none, s1)

def zeroPath (cfg : Cfg) (s0 : Bytes) (neg : Bool) (digitsStart s1 : Bytes) : NumOut :=
    match cljBranchOf cfg neg digitsStart s1 with
    | (some r, _) => r
    | (none, s2) =>
      let c2 := peek s2
      if c2 == 0x2E then decimalPart cfg s0 neg digitsStart s2
      else if c2 == 0x4E then finishNum (.bigint neg 10 [0x30]) (adv s2)
      else if c2 == 0x4D then finishNum (.bigdec neg [0x30]) (adv s2)
      else if c2 == 0x65 || c2 == 0x45 then exponentPart cfg s0 neg false digitsStart s2
      else if cfg.clj && c2 == 0x2F then
        match ratioDenominator (adv s2) with
        | .error cur => .err cur
        | .ok s' => .ok (.int 0) s'
      else finishNum (.int 0) s2

def decPath (cfg : Cfg) (s0 : Bytes) (neg : Bool) (s : Bytes) : NumOut :=
    match decDigitsLoop cfg.exp (s.length + 1) s with
    | .error cur => .err cur
    | .ok s1 =>
      if peek s1 == 0x2E then decimalPart cfg s0 neg s s1
      else afterMantissa cfg s0 neg false s s1

def readNumberBody (cfg : Cfg) (s0 : Bytes) (neg : Bool) (s : Bytes) : NumOut :=
  match radixFormOf cfg neg s with
  | some r => r
  | none =>
    if peek s == 0x30 then zeroPath cfg s0 neg s (adv s) else decPath cfg s0 neg s

theorem readNumber_eq (cfg : Cfg) (s0 : Bytes) :
    readNumber cfg s0 =
      if peek s0 == 0x2D || peek s0 == 0x2B then readNumberBody cfg s0 (peek s0 == 0x2D) (adv s0)
      else readNumberBody cfg s0 false s0 := by
  unfold readNumber
  by_cases h : (peek s0 == 0x2D || peek s0 == 0x2B) = true
  · simp only [h, ↓reduceIte]; rfl
  · simp only [h]; rfl

/-- progress of a number outcome against a bound -/
def numProg (n : Nat) : NumOut → Prop
  | .ok _ r => r.length < n
  | .err c => c.length ≤ n

theorem numProg_of_lt {n : Nat} {o : NumOut} (h : numLen o < n) : numProg n o := by
  cases o <;> simp only [numLen] at h <;> simp only [numProg] <;> omega

theorem numProg_mono {n m : Nat} {o : NumOut} (h : numProg n o) (hnm : n ≤ m) : numProg m o := by
  cases o <;> simp only [numProg] at h ⊢ <;> omega

theorem peek_is09_cons {s : Bytes} (h : is09 (peek s) = true) : ∃ c cs, s = c :: cs ∧ is09 c = true := by
  cases s with
  | nil => exact absurd h (by decide)
  | cons c cs => exact ⟨c, cs, rfl, h⟩

theorem radixFormOf_prog (cfg : Cfg) (neg : Bool) (s : Bytes) (h : is09 (peek s) = true) (r : NumOut)
    (hr : radixFormOf cfg neg s = some r) : numProg s.length r := by
  obtain ⟨c, cs, rfl, hc⟩ := peek_is09_cons h
  unfold radixFormOf at hr
  simp only [] at hr
  have hdw : (c :: cs).dropWhile is09 = cs.dropWhile is09 := by simp [hc]
  have hdl := dropWhile_length_le is09 cs
  rw [hdw] at hr
  split at hr
  · split at hr
    · rename_i r0 rrest heq
      rw [heq] at hdl
      simp only [List.length_cons] at hdl ⊢
      split at hr
      · split at hr
        · split at hr
          · cases hr; simp only [numProg]; omega
          · have hl : ∀ rv e, radixDigitsLoop cfg.exp rv true (rrest.length + 1) rrest = e →
                exLen e ≤ rrest.length := by
              intro rv e he; rw [← he]; exact radixDigitsLoop_len ..
            split at hr
            · rename_i cur hcur
              have hl := hl _ _ hcur; simp only [exLen] at hl
              cases hr; simp only [numProg]; omega
            · rename_i s' hs'
              have hl := hl _ _ hs'; simp only [exLen] at hl
              cases hr
              apply numProg_of_lt
              have := radixTail_len cfg neg (radixPrefixValue 0 (slice (c :: cs) (List.dropWhile is09 cs))) false rrest s'
              omega
        · cases hr; simp [numProg]
      · cases hr
    · cases hr
  · cases hr

theorem exLen_eq {e : Except Bytes Bytes} {n : Nat} (h : exLen e ≤ n) :
    (∀ c, e = .error c → c.length ≤ n) ∧ (∀ r, e = .ok r → r.length ≤ n) := by
  constructor
  · intro c hc; subst hc; exact h
  · intro c hc; subst hc; exact h

theorem cljBranchOf_prog (cfg : Cfg) (neg : Bool) (ds s1 : Bytes) :
    (∀ r, (cljBranchOf cfg neg ds s1).1 = some r → numLen r ≤ s1.length) ∧
    (cljBranchOf cfg neg ds s1).2.length ≤ s1.length := by
  unfold cljBranchOf
  simp only []
  have hdw := dropWhile_length_le (· == 0x30) s1
  have ha := adv_length_le (s1.dropWhile (· == 0x30))
  split
  · split
    · split
      · refine ⟨?_, hdw⟩
        intro r hr; cases hr; simp only [numLen]; omega
      · have hl : ∀ e, radixDigitsLoop cfg.exp 16 false ((adv (s1.dropWhile (· == 0x30))).length + 1)
            (adv (s1.dropWhile (· == 0x30))) = e → exLen e ≤ (adv (s1.dropWhile (· == 0x30))).length := by
          intro e he; rw [← he]; exact radixDigitsLoop_len ..
        split
        · rename_i cur hcur
          have hl := hl _ hcur; simp only [exLen] at hl
          refine ⟨?_, hdw⟩
          intro r hr; cases hr; simp only [numLen]; omega
        · rename_i s' hs'
          have hl := hl _ hs'; simp only [exLen] at hl
          refine ⟨?_, hdw⟩
          intro r hr; cases hr
          have := radixTail_len cfg neg 16 true (adv (s1.dropWhile (· == 0x30))) s'
          omega
    · split
      · have hl : ∀ e, radixDigitsLoop cfg.exp 8 false ((s1.dropWhile (· == 0x30)).length + 1)
            (s1.dropWhile (· == 0x30)) = e → exLen e ≤ (s1.dropWhile (· == 0x30)).length := by
          intro e he; rw [← he]; exact radixDigitsLoop_len ..
        split
        · rename_i cur hcur
          have hl := hl _ hcur; simp only [exLen] at hl
          refine ⟨?_, hdw⟩
          intro r hr; cases hr; simp only [numLen]; omega
        · rename_i s' hs'
          have hl := hl _ hs'; simp only [exLen] at hl
          refine ⟨?_, hdw⟩
          intro r hr; cases hr
          have := radixTail_len cfg neg 8 true ds s'
          omega
      · split
        · refine ⟨?_, hdw⟩
          intro r hr; cases hr; simp only [numLen]; omega
        · refine ⟨?_, hdw⟩
          intro r hr; cases hr
  · split
    · refine ⟨?_, Nat.le_refl _⟩
      intro r hr; cases hr; simp only [numLen]; omega
    · refine ⟨?_, Nat.le_refl _⟩
      intro r hr; cases hr

theorem zeroPath_len (cfg : Cfg) (s0 : Bytes) (neg : Bool) (ds s1 : Bytes) :
    numLen (zeroPath cfg s0 neg ds s1) ≤ s1.length := by
  unfold zeroPath
  obtain ⟨h1, h2⟩ := cljBranchOf_prog cfg neg ds s1
  generalize cljBranchOf cfg neg ds s1 = b at h1 h2
  obtain ⟨o, s2⟩ := b
  cases o with
  | some r => exact h1 r rfl
  | none =>
    simp only [] at h2 ⊢
    have ha := adv_length_le s2
    apply numLen_ite
    · have := decimalPart_len cfg s0 neg ds s2; omega
    apply numLen_ite
    · rw [finishNum_len]; omega
    apply numLen_ite
    · rw [finishNum_len]; omega
    apply numLen_ite
    · have := exponentPart_len cfg s0 neg false ds s2; omega
    apply numLen_ite
    · have hr := ratioDenominator_len (adv s2)
      cases hrd : ratioDenominator (adv s2) with
      | error cur => rw [hrd] at hr; simp only [exLen] at hr; simp only [numLen]; omega
      | ok s' => rw [hrd] at hr; simp only [exLen] at hr; simp only [numLen]; omega
    · rw [finishNum_len]; omega

theorem decDigitsLoop_step (exp : Bool) (f : Nat) (s : Bytes) (h : is09 (peek s) = true) :
    decDigitsLoop exp (f + 1) s = decDigitsLoop exp f (adv s) := by
  obtain ⟨h1, h2, _, _⟩ := is09_facts h
  rw [decDigitsLoop]
  simp only [h1, h2, h, Bool.not_false, Bool.and_self, ↓reduceIte]

theorem decPath_len (cfg : Cfg) (s0 : Bytes) (neg : Bool) (s : Bytes) (h : is09 (peek s) = true) :
    numLen (decPath cfg s0 neg s) ≤ (adv s).length := by
  unfold decPath
  rw [decDigitsLoop_step _ _ _ h]
  have hl := decDigitsLoop_len cfg.exp s.length (adv s)
  cases hd : decDigitsLoop cfg.exp s.length (adv s) with
  | error cur => rw [hd] at hl; exact hl
  | ok s1 =>
    rw [hd] at hl; simp only [exLen] at hl
    simp only []
    apply numLen_ite
    · have := decimalPart_len cfg s0 neg s s1; omega
    · have := afterMantissa_len cfg s0 neg false s s1; omega

theorem readNumberBody_prog (cfg : Cfg) (s0 : Bytes) (neg : Bool) (s : Bytes) (h : is09 (peek s) = true) :
    numProg s.length (readNumberBody cfg s0 neg s) := by
  unfold readNumberBody
  have hadv : (adv s).length < s.length := by
    obtain ⟨c, cs, rfl, _⟩ := peek_is09_cons h
    simp [adv]
  cases hrf : radixFormOf cfg neg s with
  | some r => exact radixFormOf_prog cfg neg s h r hrf
  | none =>
    simp only []
    split
    · apply numProg_of_lt
      have := zeroPath_len cfg s0 neg s (adv s); omega
    · apply numProg_of_lt
      have := decPath_len cfg s0 neg s h; omega

theorem readNumber_prog (cfg : Cfg) (c : UInt8) (cs : Bytes)
    (hc : is09 c = true ∨ ((c == 0x2B || c == 0x2D) = true ∧ ∃ d t, cs = d :: t ∧ is09 d = true)) :
    numProg (c :: cs).length (readNumber cfg (c :: cs)) := by
  rw [readNumber_eq]
  rcases hc with hc | ⟨hs, d, t, rfl, hd⟩
  · obtain ⟨_, _, h3, h4⟩ := is09_facts hc
    have : (peek (c :: cs) == 0x2D || peek (c :: cs) == 0x2B) = false := by
      simp only [peek, List.headD_cons, h3, h4, Bool.or_self]
    rw [this]
    simp only [Bool.false_eq_true, ↓reduceIte]
    exact readNumberBody_prog cfg _ _ _ hc
  · have : (peek (c :: d :: t) == 0x2D || peek (c :: d :: t) == 0x2B) = true := by
      simp only [peek, List.headD_cons]
      rw [Bool.or_comm]; exact hs
    rw [this]
    simp only [↓reduceIte]
    refine numProg_mono (readNumberBody_prog cfg _ _ (adv (c :: d :: t)) hd) ?_
    simp [adv]

end Edn.Proofs
