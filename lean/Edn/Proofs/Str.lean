/-
  Edn.Proofs.Str — C06: the closing quote is found exactly at the end of the literal's
  content, the escape flag is set exactly when the content contains a backslash, decoding
  yields exactly the denoted bytes (NUL bytes included) and the access-time error for
  escapes the build does not define.
-/
import Edn.Spec.StringLit
import Edn.Proofs.Scan
import Edn.Model.Reader

namespace Edn.Proofs
open Edn.Model Edn.Spec

/-- a spelled content never contains an unescaped quote: the scan runs through it -/
theorem findQuote_content (cfg : Cfg) (sp dn : Bytes) (h : StrContent cfg sp dn) (bs : Bool) (rest : Bytes) :
    findQuoteScalar bs (sp ++ 0x22 :: rest) = some (0x22 :: rest, bs || sp.contains 0x5C) := by
  sorry

/-- … and without a closing quote the literal is unterminated -/
theorem findQuote_unterminated (cfg : Cfg) (sp dn : Bytes) (h : StrContent cfg sp dn) (bs : Bool) :
    findQuoteScalar bs sp = none := by
  sorry

/-- decoding a spelled content yields exactly the bytes it denotes -/
theorem decode_content (cfg : Cfg) (sp dn : Bytes) (h : StrContent cfg sp dn) (f : Nat) (hf : sp.length < f) :
    decodeString cfg f sp = some dn := by
  sorry

/-- a content without backslash is returned as it is (zero-copy path) -/
theorem no_backslash_plain (cfg : Cfg) (sp dn : Bytes) (h : StrContent cfg sp dn) (hb : sp.contains 0x5C = false) :
    dn = sp := by
  sorry

/-- reading a literal: the value's range covers the quotes, its bytes (through
    `edn_string_get`) are the denoted bytes with their exact length, and the rest of the
    input is untouched -/
theorem readString_literal (ctx : Ctx) (sp dn rest : Bytes) (cl : List Call)
    (h : StrContent ctx.cfg sp dn)
    (hnb : ¬ (ctx.cfg.exp = true ∧ ∃ t, (0x22 :: (sp ++ 0x22 :: rest)) = 0x22 :: 0x22 :: 0x22 :: 0x0A :: t)) :
    ∃ esc, readString ctx { rest := 0x22 :: (sp ++ 0x22 :: rest), calls := cl } =
        .ok (.str (mkHdr (sp.length + 2 + rest.length) rest.length) sp esc) { rest := rest, calls := cl } ∧
      stringGet ctx.cfg sp esc = some dn := by
  sorry

/-- an escape the build does not define is reported when the string is accessed -/
theorem undefined_escape_is_error (cfg : Cfg) (c : UInt8) (r : Bytes)
    (hc : decodeEscape cfg (c :: r) = none) (pre dn : Bytes) (h : StrContent cfg pre dn) :
    stringGet cfg (pre ++ 0x5C :: c :: r) true = none := by
  sorry

end Edn.Proofs
