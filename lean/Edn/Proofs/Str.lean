/-
  Edn.Proofs.Str — C06: the closing quote is found exactly at the end of the literal's
  content, the escape flag is set exactly when the content contains a backslash, decoding
  yields exactly the denoted bytes (NUL bytes included) and the access-time error for
  escapes the build does not define.
-/
import Edn.Spec.StringLit
import Edn.Proofs.Scan
import Edn.Model.Reader
import Edn.Proofs.StrAux

namespace Edn.Proofs
open Edn.Model Edn.Spec

/-- a spelled content never contains an unescaped quote: the scan runs through it -/
theorem findQuote_content (cfg : Cfg) (sp dn : Bytes) (h : StrContent cfg sp dn) (bs : Bool) (rest : Bytes) :
    findQuoteScalar bs (sp ++ 0x22 :: rest) = some (0x22 :: rest, bs || sp.contains 0x5C) := by
  induction h generalizing bs with
  | nil => simp [findQuoteScalar_cons]
  | cons hu _ ih =>
    rw [List.append_assoc, findQuote_unit cfg _ _ hu, ih, List.contains_append, Bool.or_assoc]

/-- … and without a closing quote the literal is unterminated -/
theorem findQuote_unterminated (cfg : Cfg) (sp dn : Bytes) (h : StrContent cfg sp dn) (bs : Bool) :
    findQuoteScalar bs sp = none := by
  induction h generalizing bs with
  | nil => rfl
  | cons hu _ ih => rw [findQuote_unit cfg _ _ hu, ih]

/-- the decoder runs through a spelled content, one fuel step per unit -/
theorem decode_content_append (cfg : Cfg) (sp dn : Bytes) (h : StrContent cfg sp dn) :
    ∃ k, k ≤ sp.length ∧ ∀ (f : Nat) (t : Bytes),
      decodeString cfg (f + k) (sp ++ t) = (decodeString cfg f t).map (dn ++ ·) := by
  induction h with
  | nil => exact ⟨0, Nat.le_refl _, fun f t => by simp⟩
  | cons hu _ ih =>
    obtain ⟨k, hk, hdec⟩ := ih
    refine ⟨k + 1, ?_, ?_⟩
    · have := unit_length_pos cfg _ _ hu
      simp only [List.length_append]; omega
    · intro f t
      rw [List.append_assoc, ← Nat.add_assoc, decode_unit cfg _ _ hu, hdec, Option.map_map]
      congr 1
      funext x
      simp

theorem slice_append_left (a b : Bytes) : slice (a ++ b) b = a := by
  simp [slice]

/-- decoding a spelled content yields exactly the bytes it denotes -/
theorem decode_content (cfg : Cfg) (sp dn : Bytes) (h : StrContent cfg sp dn) (f : Nat) (hf : sp.length < f) :
    decodeString cfg f sp = some dn := by
  obtain ⟨k, hk, hdec⟩ := decode_content_append cfg sp dn h
  obtain ⟨g, rfl⟩ : ∃ g, f = (g + 1) + k := ⟨f - k - 1, by omega⟩
  have := hdec (g + 1) []
  simpa [decodeString] using this

/-- a content without backslash is returned as it is (zero-copy path) -/
theorem no_backslash_plain (cfg : Cfg) (sp dn : Bytes) (h : StrContent cfg sp dn) (hb : sp.contains 0x5C = false) :
    dn = sp := by
  induction h with
  | nil => rfl
  | cons hu _ ih =>
    rw [List.contains_append, Bool.or_eq_false_iff] at hb
    rw [unit_no_backslash cfg _ _ hu hb.1, ih hb.2]

/-- reading a literal: the value's range covers the quotes, its bytes (through
    `edn_string_get`) are the denoted bytes with their exact length, and the rest of the
    input is untouched -/
theorem readString_literal (ctx : Ctx) (sp dn rest : Bytes) (cl : List Call)
    (h : StrContent ctx.cfg sp dn)
    (hnb : ¬ (ctx.cfg.exp = true ∧ ∃ t, (0x22 :: (sp ++ 0x22 :: rest)) = 0x22 :: 0x22 :: 0x22 :: 0x0A :: t)) :
    ∃ esc, readString ctx { rest := 0x22 :: (sp ++ 0x22 :: rest), calls := cl } =
        .ok (.str (mkHdr (sp.length + 2 + rest.length) rest.length) sp esc) { rest := rest, calls := cl } ∧
      stringGet ctx.cfg sp esc = some dn := by
  refine ⟨sp.contains 0x5C, ?_, ?_⟩
  · have hcond : (ctx.cfg.exp && startsWith (0x22 :: (sp ++ 0x22 :: rest)) [0x22, 0x22, 0x22, 0x0A]) = false := by
      cases hc : (ctx.cfg.exp && startsWith (0x22 :: (sp ++ 0x22 :: rest)) [0x22, 0x22, 0x22, 0x0A])
      · rfl
      · exfalso
        rw [Bool.and_eq_true] at hc
        refine hnb ⟨hc.1, ?_⟩
        have hp := List.isPrefixOf_iff_prefix.mp hc.2
        obtain ⟨t, ht⟩ := hp
        exact ⟨t, ht.symm⟩
    unfold readString
    simp only [hcond, List.tail_cons, findQuote_eq, findQuote_content ctx.cfg sp dn h false rest,
      Bool.false_or, slice_append_left]
    simp only [Bool.false_eq_true, if_false, Ctx.pos, List.length_cons, List.length_append]
    have : sp.length + (rest.length + 1) + 1 = sp.length + 2 + rest.length := by omega
    rw [this]
  · unfold stringGet
    cases hb : sp.contains 0x5C
    · simp [no_backslash_plain ctx.cfg sp dn h hb]
    · simpa using decode_content ctx.cfg sp dn h (sp.length + 1) (by omega)

/-- an escape the build does not define is reported when the string is accessed -/
theorem undefined_escape_is_error (cfg : Cfg) (c : UInt8) (r : Bytes)
    (hc : decodeEscape cfg (c :: r) = none) (pre dn : Bytes) (h : StrContent cfg pre dn) :
    stringGet cfg (pre ++ 0x5C :: c :: r) true = none := by
  obtain ⟨k, hk, hdec⟩ := decode_content_append cfg pre dn h
  unfold stringGet
  obtain ⟨g, hg⟩ : ∃ g, (pre ++ 0x5C :: c :: r).length + 1 = (g + 1) + k :=
    ⟨(pre ++ 0x5C :: c :: r).length - k, by simp; omega⟩
  simp only [Bool.not_true, Bool.false_eq_true, if_false]
  rw [hg, hdec]
  simp [decodeString, hc]

end Edn.Proofs
