/-
  Edn.Proofs.Lines — C11 (positions half): the line-feed index is sorted and complete,
  `binary_search_line` finds the last line feed before an offset, and the reported line and
  column are one plus the number of line feeds before the offset and one plus the distance
  from the byte after the last of them.
-/
import Edn.Proofs.Scan

namespace Edn.Proofs
open Edn.Model

/-- `k` splits the sorted index: exactly the first `k` entries are below `off` -/
def SplitAt (offs : Array Nat) (off k : Nat) : Prop :=
  k ≤ offs.size ∧ (∀ i, i < k → offs.getD i 0 < off) ∧ (∀ i, k ≤ i → i < offs.size → off ≤ offs.getD i 0)

theorem binarySearchLoop_spec (offs : Array Nat) (off k : Nat) (hk : SplitAt offs off k) :
    ∀ (fuel left right : Nat) (res : Option Nat),
      left ≤ k → k ≤ right + 1 → right < offs.size →
      res = (if left = 0 then none else some (left - 1)) →
      right + 2 ≤ fuel + left →
      binarySearchLoop offs off fuel left right res = if k = 0 then none else some (k - 1) := by
  intro fuel
  induction fuel with
  | zero => intro left right res h1 h2 h3 h4 h5; omega
  | succ f ih =>
    intro left right res h1 h2 h3 h4 h5
    rw [binarySearchLoop]
    by_cases hlr : left ≤ right
    · simp only [hlr, ↓reduceIte]
      have hmid_lt : left + (right - left) / 2 < offs.size := by omega
      by_cases hlt : offs.getD (left + (right - left) / 2) 0 < off
      · simp only [hlt, ↓reduceIte]
        -- mid < k, otherwise off ≤ offs[mid]
        have hmk : left + (right - left) / 2 < k := by
          apply Decidable.byContradiction; intro hc
          have := hk.2.2 _ (by omega) hmid_lt
          omega
        apply ih
        · omega
        · exact h2
        · exact h3
        · simp
        · omega
      · simp only [hlt, ↓reduceIte]
        -- k ≤ mid
        have hkm : k ≤ left + (right - left) / 2 := by
          apply Decidable.byContradiction; intro hc
          have := hk.2.1 (left + (right - left) / 2) (by omega)
          omega
        by_cases hz : (left + (right - left) / 2 == 0) = true
        · simp only [hz, ↓reduceIte]
          have hz' : left + (right - left) / 2 = 0 := by simpa using hz
          have hk0 : k = 0 := by omega
          have hl0 : left = 0 := by omega
          simp [h4, hk0, hl0]
        · simp only [hz, Bool.false_eq_true, ↓reduceIte]
          have hz' : left + (right - left) / 2 ≠ 0 := by simpa using hz
          apply ih
          · exact h1
          · omega
          · omega
          · exact h4
          · omega
    · simp only [hlr, ↓reduceIte]
      have : left = k := by omega
      subst this
      exact h4

/-- `binary_search_line` returns the index of the last line feed strictly before `off` -/
theorem binarySearchLine_spec (offs : Array Nat) (off k : Nat) (hk : SplitAt offs off k) :
    binarySearchLine offs off = if k = 0 then none else some (k - 1) := by
  unfold binarySearchLine
  by_cases h0 : (offs.size == 0 || decide (off ≤ offs.getD 0 0)) = true
  · simp only [h0, ↓reduceIte]
    have : k = 0 := by
      simp only [Bool.or_eq_true, beq_iff_eq, decide_eq_true_eq] at h0
      rcases h0 with h0 | h0
      · have := hk.1; omega
      · apply Decidable.byContradiction; intro hc
        have := hk.2.1 0 (by omega)
        omega
    simp [this]
  · simp only [h0, Bool.false_eq_true, ↓reduceIte]
    simp only [Bool.or_eq_true, beq_iff_eq, decide_eq_true_eq, not_or] at h0
    apply binarySearchLoop_spec offs off k hk
    · omega
    · have := hk.1; omega
    · omega
    · simp
    · omega

/-- `newline_get_position` in terms of the split point -/
theorem linePos_spec (offs : Array Nat) (off k : Nat) (hk : SplitAt offs off k) :
    linePos offs off = if k = 0 then (1, off + 1) else (k + 1, off - (offs.getD (k - 1) 0 + 1) + 1) := by
  unfold linePos
  rw [binarySearchLine_spec offs off k hk]
  by_cases h : k = 0
  · simp [h]
  · simp only [h, ↓reduceIte]
    have : k - 1 + 2 = k + 1 := by omega
    simp [this]

/-! ### the index produced by the scanner is sorted and complete -/

theorem lfPositionsScalar_lower (i : Nat) (s : Bytes) : ∀ p ∈ lfPositionsScalar i s, i ≤ p := by
  induction s generalizing i with
  | nil => simp [lfPositionsScalar]
  | cons c cs ih =>
    intro p hp
    rw [lfPositionsScalar] at hp
    split at hp
    · simp only [List.mem_cons] at hp
      rcases hp with hp | hp
      · omega
      · have := ih (i + 1) p hp; omega
    · have := ih (i + 1) p hp; omega

/-- strictly ascending -/
theorem lfPositionsScalar_sorted (i : Nat) (s : Bytes) : (lfPositionsScalar i s).Pairwise (· < ·) := by
  induction s generalizing i with
  | nil => simp [lfPositionsScalar]
  | cons c cs ih =>
    rw [lfPositionsScalar]
    split
    · rw [List.pairwise_cons]
      refine ⟨?_, ih (i + 1)⟩
      intro p hp
      have := lfPositionsScalar_lower (i + 1) cs p hp
      omega
    · exact ih (i + 1)

/-- exactly the offsets of the line feeds -/
theorem mem_lfPositionsScalar (i : Nat) (s : Bytes) (p : Nat) :
    p ∈ lfPositionsScalar i s ↔ i ≤ p ∧ s[p - i]? = some 0x0A := by
  induction s generalizing i with
  | nil => simp [lfPositionsScalar]
  | cons c cs ih =>
    rw [lfPositionsScalar]
    by_cases hc : (c == 0x0A) = true
    · simp only [hc, ↓reduceIte, List.mem_cons]
      have hc' : c = 0x0A := by simpa using hc
      constructor
      · rintro (h | h)
        · subst h; simp [hc']
        · obtain ⟨h1, h2⟩ := (ih (i + 1)).mp h
          refine ⟨by omega, ?_⟩
          have : p - i = (p - (i + 1)) + 1 := by omega
          rw [this, List.getElem?_cons_succ]; exact h2
      · rintro ⟨h1, h2⟩
        by_cases hp : p = i
        · left; exact hp
        · right
          apply (ih (i + 1)).mpr
          refine ⟨by omega, ?_⟩
          have : p - i = (p - (i + 1)) + 1 := by omega
          rw [this, List.getElem?_cons_succ] at h2; exact h2
    · simp only [hc, Bool.false_eq_true, ↓reduceIte]
      have hc' : ¬ c = 0x0A := by simpa using hc
      constructor
      · intro h
        obtain ⟨h1, h2⟩ := (ih (i + 1)).mp h
        refine ⟨by omega, ?_⟩
        have : p - i = (p - (i + 1)) + 1 := by omega
        rw [this, List.getElem?_cons_succ]; exact h2
      · rintro ⟨h1, h2⟩
        have hp : p ≠ i := by
          intro h; subst h; simp at h2; exact hc' h2
        apply (ih (i + 1)).mpr
        refine ⟨by omega, ?_⟩
        have : p - i = (p - (i + 1)) + 1 := by omega
        rw [this, List.getElem?_cons_succ] at h2; exact h2

/-! ### tying the two together -/

theorem sorted_filter_take : ∀ (l : List Nat) (off : Nat), l.Pairwise (· < ·) →
    l.filter (· < off) = l.take (l.filter (· < off)).length := by
  intro l off
  induction l with
  | nil => intro _; simp
  | cons x xs ih =>
    intro h
    rw [List.pairwise_cons] at h
    by_cases hx : x < off
    · simp only [List.filter_cons, hx, decide_true, ↓reduceIte, List.length_cons, List.take_succ_cons]
      rw [← ih h.2]
    · have : xs.filter (· < off) = [] := by
        rw [List.filter_eq_nil_iff]
        intro y hy
        have := h.1 y hy
        simp; omega
      simp [List.filter_cons, hx, this]

theorem splitAt_of_sorted (l : List Nat) (off : Nat) (h : l.Pairwise (· < ·)) :
    SplitAt l.toArray off (l.filter (· < off)).length := by
  have hft := sorted_filter_take l off h
  have hle : (l.filter (· < off)).length ≤ l.length := List.length_filter_le _ _
  refine ⟨by simpa using hle, ?_, ?_⟩
  · intro i hi
    have hil : i < l.length := by omega
    have hmem : l[i] ∈ l.filter (· < off) := by
      rw [hft]
      have : (l.take (l.filter (· < off)).length)[i]? = some l[i] := by
        rw [List.getElem?_take]; simp [hi, hil]
      exact List.mem_of_getElem? this
    have := (List.mem_filter.mp hmem).2
    simpa [Array.getD, hil] using this
  · intro i hki hil
    have hil' : i < l.length := by simpa using hil
    apply Decidable.byContradiction; intro hc
    have hlt : l[i] < off := by
      have : ¬ off ≤ l.toArray.getD i 0 := hc
      simpa [Array.getD, hil'] using this
    -- every earlier element is smaller, so at least i+1 elements pass the filter
    have hall : ∀ j, j ≤ i → (hj : j < l.length) → l[j] < off := by
      intro j hji hj
      rcases Nat.lt_or_ge j i with hlt' | hge
      · have := List.pairwise_iff_getElem.mp h j i hj hil' hlt'
        omega
      · have : j = i := by omega
        subst this; exact hlt
    have hsub : (l.take (i + 1)).filter (· < off) = l.take (i + 1) := by
      rw [List.filter_eq_self]
      intro a ha
      obtain ⟨j, hj, rfl⟩ := List.getElem_of_mem ha
      simp only [List.length_take] at hj
      rw [List.getElem_take]
      simpa using hall j (by omega) (by omega)
    have hlen : (l.take (i + 1)).length ≤ (l.filter (· < off)).length := by
      rw [← hsub]
      exact (List.Sublist.filter _ (List.take_sublist _ _)).length_le
    simp only [List.length_take] at hlen
    omega

/-- C11: the line and column reported for an offset are one plus the number of line feeds
    before it and one plus the distance from the byte after the last of them -/
theorem linePos_eq_spec (s : Bytes) (off : Nat) :
    linePos (lfPositions s).toArray off = linePosSpec s off := by
  rw [lfPositions_eq]
  have hs := lfPositionsScalar_sorted 0 s
  have hsp := splitAt_of_sorted _ off hs
  rw [linePos_spec _ off _ hsp]
  unfold linePosSpec
  have hft := sorted_filter_take (lfPositionsScalar 0 s) off hs
  generalize hl : lfPositionsScalar 0 s = l at *
  generalize hb : l.filter (· < off) = before at *
  cases hbl : before.getLast? with
  | none =>
    have : before = [] := by simpa using hbl
    simp [this]
  | some p =>
    have hne : before ≠ [] := by intro h; simp [h] at hbl
    have hk : before.length ≠ 0 := by simpa using hne
    simp only [hk, ↓reduceIte]
    have hp_mem : p ∈ before := List.mem_of_getLast? hbl
    have hp_lt : p < off := by
      rw [← hb] at hp_mem
      simpa using (List.mem_filter.mp hp_mem).2
    -- p is the element at index before.length - 1 of l
    have hlt : before.length - 1 < before.length := by omega
    have hble : before.length ≤ l.length := by rw [← hb]; exact List.length_filter_le _ _
    have hidx : l.toArray.getD (before.length - 1) 0 = p := by
      have h1 : before.getLast? = before[before.length - 1]? := by
        rw [List.getLast?_eq_getElem?]
      have h2 : before[before.length - 1]? = l[before.length - 1]? := by
        have : (List.take before.length l)[before.length - 1]? = l[before.length - 1]? := by
          rw [List.getElem?_take]; simp [hlt]
        rw [← hft] at this; exact this
      have hll : before.length - 1 < l.length := by omega
      rw [h1, h2, List.getElem?_eq_getElem hll] at hbl
      simp only [Option.some.injEq] at hbl
      simp [Array.getD, hll, hbl]
    rw [hidx]
    have : off - (p + 1) + 1 = off - p := by omega
    rw [this, hbl]

end Edn.Proofs
