/-
  Edn.Proofs.EqualAux2 — one level of the equality recursion with the recursive call
  abstracted (`body`), the unfolding of `eqvF`/`equalF` through it, the immediate operands
  of a value (`children`) with the facts that depth, well-formedness and cache validity
  pass to them, and congruence of `body` in its recursive call.
-/
import Edn.Spec.Eqv
import Edn.Proofs.EqualAux1

namespace Edn.Proofs
open Edn.Model Edn.Spec

def seqBody (p : Val → Val → Bool) (xs ys : List Val) : Bool :=
  xs.length == ys.length && allZip p xs ys
def setBody (p : Val → Val → Bool) (xs ys : List Val) : Bool :=
  xs.length == ys.length && xs.all fun x => ys.any fun y => p x y
def mapBody (p : Val → Val → Bool) (ks vs ks' vs' : List Val) : Bool :=
  ks.length == ks'.length &&
    allZip (fun k v => match findKey p k ks' vs' with
                       | some v' => p v v'
                       | none => false) ks vs

/-- one level of the equality recursion, with the recursive call abstracted -/
def body (cfg : Cfg) (p : Val → Val → Bool) (a b : Val) : Bool :=
  match a with
  | .nil _ => (match b with | .nil _ => true | _ => false)
  | .bool _ x => (match b with | .bool _ y => x == y | _ => false)
  | .int _ x => (match b with | .int _ y => x == y | _ => false)
  | .bigint _ n r d => (match b with
    | .bigint _ n' r' d' => r == r' && n == n' && cleanDigits cfg d == cleanDigits cfg d'
    | _ => false)
  | .float _ x => (match b with | .float _ y => floatEq x y | _ => false)
  | .bigdec _ n t => (match b with
    | .bigdec _ n' t' => n == n' && cleanDigits cfg t == cleanDigits cfg t' | _ => false)
  | .ratio _ n d => (match b with | .ratio _ n' d' => n == n' && d == d' | _ => false)
  | .bigratio _ g n d => (match b with
    | .bigratio _ g' n' d' => g == g' && n == n' && d == d' | _ => false)
  | .char _ x => (match b with | .char _ y => x == y | _ => false)
  | .str _ d e => (match b with
    | .str _ d' e' => stringContent cfg d e == stringContent cfg d' e' | _ => false)
  | .sym _ _ ns nm => (match b with
    | .sym _ _ ns' nm' => (ns.getD []) == (ns'.getD []) && nm == nm' | _ => false)
  | .kw _ ns nm => (match b with
    | .kw _ ns' nm' => (ns.getD []) == (ns'.getD []) && nm == nm' | _ => false)
  | .list _ _ xs => (match b with
    | .list _ _ ys => seqBody p xs ys | .vec _ _ ys => seqBody p xs ys | _ => false)
  | .vec _ _ xs => (match b with
    | .list _ _ ys => seqBody p xs ys | .vec _ _ ys => seqBody p xs ys | _ => false)
  | .set _ _ xs => (match b with | .set _ _ ys => setBody p xs ys | _ => false)
  | .map _ _ ks vs => (match b with | .map _ _ ks' vs' => mapBody p ks vs ks' vs' | _ => false)
  | .tagged _ _ t v => (match b with | .tagged _ _ t' v' => t == t' && p v v' | _ => false)
  | .ext _ t d => (match b with | .ext _ t' d' => t == t' && d == d' | _ => false)

theorem eqvF_zero (cfg : Cfg) (a b : Val) : eqvF cfg 0 a b = false := rfl

theorem eqvF_succ (cfg : Cfg) (f : Nat) (a b : Val) :
    eqvF cfg (f + 1) a b = body cfg (eqvF cfg f) a b := by
  cases a <;> cases b <;> rfl

theorem equalF_zero (cfg : Cfg) (a b : Val) : equalF cfg 0 a b = false := rfl

theorem equalF_succ (cfg : Cfg) (f : Nat) (a b : Val) :
    equalF cfg (f + 1) a b =
      if !kindCompatible a b then false
      else if a.hdr.hc != 0 && b.hdr.hc != 0 && a.hdr.hc != b.hdr.hc then false
      else body cfg (equalF cfg f) a b := by
  cases a <;> cases b <;> rfl

theorem body_kind (cfg : Cfg) (p : Val → Val → Bool) (a b : Val) (h : body cfg p a b = true) :
    kindCompatible a b = true := by
  cases a <;> cases b <;> first | rfl | exact absurd h Bool.false_ne_true

/-! ### immediate operands -/

def children : Val → List Val
  | .list _ _ xs | .vec _ _ xs | .set _ _ xs => xs
  | .map _ _ ks vs => ks ++ vs
  | .tagged _ _ _ v => [v]
  | _ => []

theorem depthL_cons (x : Val) (xs : List Val) : depthL (x :: xs) = max (depth x) (depthL xs) := rfl

theorem depth_le_depthL_aux : ∀ (xs : List Val) (x : Val), x ∈ xs → depth x ≤ depthL xs := by
  intro xs
  induction xs with
  | nil => intro x h; cases h
  | cons y ys ih =>
    intro x h
    rw [depthL_cons]
    rcases List.mem_cons.mp h with rfl | h
    · exact Nat.le_max_left _ _
    · exact Nat.le_trans (ih x h) (Nat.le_max_right _ _)

theorem depthL_le : ∀ (ys : List Val) (n : Nat), (∀ y ∈ ys, depth y ≤ n) → depthL ys ≤ n := by
  intro ys
  induction ys with
  | nil => intro n _; exact Nat.zero_le _
  | cons y ys ih =>
    intro n h
    rw [depthL_cons]
    exact Nat.max_le.mpr ⟨h y List.mem_cons_self, ih n fun z hz => h z (List.mem_cons_of_mem _ hz)⟩

theorem depth_child {a x : Val} (h : x ∈ children a) : depth x < depth a := by
  cases a <;> try (exact absurd h List.not_mem_nil)
  case list hd m xs => exact Nat.lt_succ_of_le (depth_le_depthL_aux xs x h)
  case vec hd m xs => exact Nat.lt_succ_of_le (depth_le_depthL_aux xs x h)
  case set hd m xs => exact Nat.lt_succ_of_le (depth_le_depthL_aux xs x h)
  case map hd m ks vs =>
    show depth x < max (depthL ks) (depthL vs) + 1
    rcases List.mem_append.mp h with h | h
    · exact Nat.lt_succ_of_le (Nat.le_trans (depth_le_depthL_aux ks x h) (Nat.le_max_left _ _))
    · exact Nat.lt_succ_of_le (Nat.le_trans (depth_le_depthL_aux vs x h) (Nat.le_max_right _ _))
  case tagged hd m t v =>
    rcases List.mem_singleton.mp h with rfl
    exact Nat.lt_succ_self _

theorem WFL_mem (cfg : Cfg) : ∀ (xs : List Val), WFL cfg xs → ∀ x ∈ xs, WF cfg x := by
  intro xs
  induction xs with
  | nil => intro _ x h; cases h
  | cons y ys ih =>
    intro hw x h
    have hw' : WF cfg y ∧ WFL cfg ys := hw
    rcases List.mem_cons.mp h with rfl | h
    · exact hw'.1
    · exact ih hw'.2 x h

theorem WFL_of_mem (cfg : Cfg) : ∀ (xs : List Val), (∀ x ∈ xs, WF cfg x) → WFL cfg xs := by
  intro xs
  induction xs with
  | nil => intro _; exact True.intro
  | cons y ys ih =>
    intro h
    exact (⟨h y List.mem_cons_self, ih fun x hx => h x (List.mem_cons_of_mem _ hx)⟩ :
      WF cfg y ∧ WFL cfg ys)

theorem WF_child (cfg : Cfg) {a x : Val} (hw : WF cfg a) (h : x ∈ children a) : WF cfg x := by
  cases a <;> try (exact absurd h List.not_mem_nil)
  case list hd m xs => exact WFL_mem cfg xs hw x h
  case vec hd m xs => exact WFL_mem cfg xs hw x h
  case set hd m xs =>
    have hw' : pairwiseDistinct cfg xs ∧ WFL cfg xs := hw
    exact WFL_mem cfg xs hw'.2 x h
  case map hd m ks vs =>
    have hw' : pairwiseDistinct cfg ks ∧ ks.length = vs.length ∧ WFL cfg ks ∧ WFL cfg vs := hw
    rcases List.mem_append.mp h with h | h
    · exact WFL_mem cfg ks hw'.2.2.1 x h
    · exact WFL_mem cfg vs hw'.2.2.2 x h
  case tagged hd m t v =>
    rcases List.mem_singleton.mp h with rfl
    exact hw

theorem cacheOKL_mem (cfg : Cfg) : ∀ (xs : List Val), cacheOKL cfg xs = true →
    ∀ x ∈ xs, cacheOK cfg x = true := by
  intro xs
  induction xs with
  | nil => intro _ x h; cases h
  | cons y ys ih =>
    intro hw x h
    have hw' : (cacheOK cfg y && cacheOKL cfg ys) = true := hw
    rw [Bool.and_eq_true] at hw'
    rcases List.mem_cons.mp h with rfl | h
    · exact hw'.1
    · exact ih hw'.2 x h

theorem cacheOKL_of_mem (cfg : Cfg) : ∀ (xs : List Val), (∀ x ∈ xs, cacheOK cfg x = true) →
    cacheOKL cfg xs = true := by
  intro xs
  induction xs with
  | nil => intro _; rfl
  | cons y ys ih =>
    intro h
    show (cacheOK cfg y && cacheOKL cfg ys) = true
    rw [h y List.mem_cons_self, ih fun x hx => h x (List.mem_cons_of_mem _ hx)]; rfl

theorem cacheOK_child (cfg : Cfg) {a x : Val} (hw : cacheOK cfg a = true) (h : x ∈ children a) :
    cacheOK cfg x = true := by
  cases a <;> try (exact absurd h List.not_mem_nil)
  case list hd m xs =>
    have hw' : ((hd.hc == 0 || hd.hc == cacheOf (hashV cfg (.list hd m xs))) && cacheOKL cfg xs) = true := hw
    rw [Bool.and_eq_true] at hw'
    exact cacheOKL_mem cfg xs hw'.2 x h
  case vec hd m xs =>
    have hw' : ((hd.hc == 0 || hd.hc == cacheOf (hashV cfg (.vec hd m xs))) && cacheOKL cfg xs) = true := hw
    rw [Bool.and_eq_true] at hw'
    exact cacheOKL_mem cfg xs hw'.2 x h
  case set hd m xs =>
    have hw' : ((hd.hc == 0 || hd.hc == cacheOf (hashV cfg (.set hd m xs))) && cacheOKL cfg xs) = true := hw
    rw [Bool.and_eq_true] at hw'
    exact cacheOKL_mem cfg xs hw'.2 x h
  case map hd m ks vs =>
    have hw' : ((hd.hc == 0 || hd.hc == cacheOf (hashV cfg (.map hd m ks vs))) && cacheOKL cfg ks
      && cacheOKL cfg vs) = true := hw
    rw [Bool.and_eq_true, Bool.and_eq_true] at hw'
    rcases List.mem_append.mp h with h | h
    · exact cacheOKL_mem cfg ks hw'.1.2 x h
    · exact cacheOKL_mem cfg vs hw'.2 x h
  case tagged hd m t v =>
    have hw' : ((hd.hc == 0 || hd.hc == cacheOf (hashV cfg (.tagged hd m t v))) && cacheOK cfg v) = true := hw
    rw [Bool.and_eq_true] at hw'
    rcases List.mem_singleton.mp h with rfl
    exact hw'.2

/-- the top cache cell of a cache-valid value is empty or holds the value's hash -/
theorem cacheOK_top (cfg : Cfg) {a : Val} (hw : cacheOK cfg a = true) :
    a.hdr.hc = 0 ∨ a.hdr.hc = cacheOf (hashV cfg a) := by
  have key : ∀ (x y : UInt64), (x == 0 || x == y) = true → x = 0 ∨ x = y := by
    intro x y h
    rw [Bool.or_eq_true] at h
    rcases h with h | h
    · exact Or.inl (eq_of_beq h)
    · exact Or.inr (eq_of_beq h)
  cases a
  case list hd m xs =>
    have hw' : ((hd.hc == 0 || hd.hc == cacheOf (hashV cfg (.list hd m xs))) && cacheOKL cfg xs) = true := hw
    rw [Bool.and_eq_true] at hw'
    exact key _ _ hw'.1
  case vec hd m xs =>
    have hw' : ((hd.hc == 0 || hd.hc == cacheOf (hashV cfg (.vec hd m xs))) && cacheOKL cfg xs) = true := hw
    rw [Bool.and_eq_true] at hw'
    exact key _ _ hw'.1
  case set hd m xs =>
    have hw' : ((hd.hc == 0 || hd.hc == cacheOf (hashV cfg (.set hd m xs))) && cacheOKL cfg xs) = true := hw
    rw [Bool.and_eq_true] at hw'
    exact key _ _ hw'.1
  case map hd m ks vs =>
    have hw' : ((hd.hc == 0 || hd.hc == cacheOf (hashV cfg (.map hd m ks vs))) && cacheOKL cfg ks
      && cacheOKL cfg vs) = true := hw
    rw [Bool.and_eq_true, Bool.and_eq_true] at hw'
    exact key _ _ hw'.1.1
  case tagged hd m t v =>
    have hw' : ((hd.hc == 0 || hd.hc == cacheOf (hashV cfg (.tagged hd m t v))) && cacheOK cfg v) = true := hw
    rw [Bool.and_eq_true] at hw'
    exact key _ _ hw'.1
  all_goals exact key _ _ hw

/-! ### congruence of one level in the recursive call -/

theorem allZip_congr {p q : Val → Val → Bool} : ∀ (xs ys : List Val),
    (∀ x ∈ xs, ∀ y ∈ ys, p x y = q x y) → allZip p xs ys = allZip q xs ys := by
  intro xs
  induction xs with
  | nil => intro ys _; cases ys <;> rfl
  | cons x xs ih =>
    intro ys h
    cases ys with
    | nil => rfl
    | cons y ys =>
      show (p x y && allZip p xs ys) = (q x y && allZip q xs ys)
      rw [h x List.mem_cons_self y List.mem_cons_self,
        ih ys fun x' hx y' hy => h x' (List.mem_cons_of_mem _ hx) y' (List.mem_cons_of_mem _ hy)]

theorem all_congr_mem {α : Type} {g g' : α → Bool} : ∀ (xs : List α), (∀ x ∈ xs, g x = g' x) →
    xs.all g = xs.all g' := by
  intro xs
  induction xs with
  | nil => intro _; rfl
  | cons x xs ih =>
    intro h
    rw [List.all_cons, List.all_cons, h x List.mem_cons_self,
      ih fun y hy => h y (List.mem_cons_of_mem _ hy)]

theorem any_congr_mem {α : Type} {g g' : α → Bool} : ∀ (xs : List α), (∀ x ∈ xs, g x = g' x) →
    xs.any g = xs.any g' := by
  intro xs
  induction xs with
  | nil => intro _; rfl
  | cons x xs ih =>
    intro h
    rw [List.any_cons, List.any_cons, h x List.mem_cons_self,
      ih fun y hy => h y (List.mem_cons_of_mem _ hy)]

theorem allAny_congr {p q : Val → Val → Bool} (xs ys : List Val)
    (h : ∀ x ∈ xs, ∀ y ∈ ys, p x y = q x y) :
    (xs.all fun x => ys.any fun y => p x y) = (xs.all fun x => ys.any fun y => q x y) :=
  all_congr_mem xs fun x hx => any_congr_mem ys fun y hy => h x hx y hy

theorem findKey_congr {p q : Val → Val → Bool} (k : Val) : ∀ (ks' vs' : List Val),
    (∀ y ∈ ks', p k y = q k y) → findKey p k ks' vs' = findKey q k ks' vs' := by
  intro ks'
  induction ks' with
  | nil => intro vs' _; rfl
  | cons k' ks' ih =>
    intro vs' h
    cases vs' with
    | nil => rfl
    | cons v' vs' =>
      show (if p k k' = true then some v' else findKey p k ks' vs')
        = (if q k k' = true then some v' else findKey q k ks' vs')
      rw [h k' List.mem_cons_self, ih vs' fun y hy => h y (List.mem_cons_of_mem _ hy)]

theorem findKey_mem_right {p : Val → Val → Bool} (k : Val) : ∀ (ks' vs' : List Val) (v' : Val),
    findKey p k ks' vs' = some v' → ∃ k', (k', v') ∈ ks'.zip vs' ∧ p k k' = true := by
  intro ks'
  induction ks' with
  | nil => intro vs' v' h; cases h
  | cons k' ks' ih =>
    intro vs' v' h
    cases vs' with
    | nil => cases h
    | cons w vs' =>
      have h' : (if p k k' = true then some w else findKey p k ks' vs') = some v' := h
      by_cases hp : p k k' = true
      · rw [if_pos hp] at h'
        cases h'
        exact ⟨k', by simp, hp⟩
      · rw [if_neg hp] at h'
        obtain ⟨k'', hm, hk⟩ := ih vs' v' h'
        exact ⟨k'', by simp [hm], hk⟩

theorem mapBody_congr {p q : Val → Val → Bool} (ks vs ks' vs' : List Val)
    (hk : ∀ x ∈ ks, ∀ y ∈ ks', p x y = q x y) (hv : ∀ x ∈ vs, ∀ y ∈ vs', p x y = q x y) :
    mapBody p ks vs ks' vs' = mapBody q ks vs ks' vs' := by
  unfold mapBody
  congr 1
  have : ∀ (g g' : Val → Val → Bool) (ks vs : List Val),
      (∀ k ∈ ks, ∀ v ∈ vs, g k v = g' k v) → allZip g ks vs = allZip g' ks vs :=
    fun g g' ks vs h => allZip_congr (p := g) (q := g') ks vs h
  apply this
  intro k hkm v hvm
  rw [findKey_congr k ks' vs' (hk k hkm)]
  cases hf : findKey q k ks' vs' with
  | none => rfl
  | some v' =>
    obtain ⟨k', hm, _⟩ := findKey_mem_right k ks' vs' v' hf
    exact hv v hvm v' (List.of_mem_zip hm).2

theorem body_congr (cfg : Cfg) {p q : Val → Val → Bool} (a b : Val)
    (h : ∀ x ∈ children a, ∀ y ∈ children b, p x y = q x y) :
    body cfg p a b = body cfg q a b := by
  cases a <;> cases b <;> try rfl
  case list.list h1 m1 xs h2 m2 ys =>
    show seqBody p xs ys = seqBody q xs ys
    unfold seqBody; rw [allZip_congr xs ys h]
  case list.vec h1 m1 xs h2 m2 ys =>
    show seqBody p xs ys = seqBody q xs ys
    unfold seqBody; rw [allZip_congr xs ys h]
  case vec.list h1 m1 xs h2 m2 ys =>
    show seqBody p xs ys = seqBody q xs ys
    unfold seqBody; rw [allZip_congr xs ys h]
  case vec.vec h1 m1 xs h2 m2 ys =>
    show seqBody p xs ys = seqBody q xs ys
    unfold seqBody; rw [allZip_congr xs ys h]
  case set.set h1 m1 xs h2 m2 ys =>
    show setBody p xs ys = setBody q xs ys
    unfold setBody; rw [allAny_congr xs ys h]
  case map.map h1 m1 ks vs h2 m2 ks' vs' =>
    show mapBody p ks vs ks' vs' = mapBody q ks vs ks' vs'
    apply mapBody_congr
    · intro x hx y hy
      exact h x (List.mem_append_left _ hx) y (List.mem_append_left _ hy)
    · intro x hx y hy
      exact h x (List.mem_append_right _ hx) y (List.mem_append_right _ hy)
  case tagged.tagged h1 m1 t v h2 m2 t' v' =>
    show (t == t' && p v v') = (t == t' && q v v')
    rw [h v (List.mem_singleton.mpr rfl) v' (List.mem_singleton.mpr rfl)]

/-- congruence when only the left operands are controlled -/
theorem body_congr_left (cfg : Cfg) {p q : Val → Val → Bool} (a b : Val)
    (h : ∀ x ∈ children a, ∀ y, p x y = q x y) :
    body cfg p a b = body cfg q a b :=
  body_congr cfg a b fun x hx y _ => h x hx y

end Edn.Proofs
