/-
  Edn.Proofs.AllocBoundAux5 — induction over the six readers, part 1: the relation `RelL` for the
  functions entered after an opening byte, what a successful `readValueA` leaves (a suffix), and the
  step of `readValueA`.
-/
import Edn.Proofs.AllocBoundAux4
import Edn.Proofs.AllocSim
import Edn.Proofs.ReReadAux8

namespace Edn.Proofs.AllocBound
open Edn.Model Edn.Proofs Edn.Proofs.AllocBasic

/-- the relation for `readSeqA` … `readMetaA`: they are entered after at least one byte (four units
    of potential) has been consumed by `readValueA`, two of which they may use -/
def RelL (cfg : Cfg) (N : Nat) (st : St) (a : ASt) (r : Res × ASt) : Prop :=
  r.2.arena = .alive ∧
  match r.1 with
  | .ok v st' => Good cfg N v ∧
      r.2.reqs + Psi N r.2.bufs + 4 * st'.rest.length ≤ a.reqs + Psi N a.bufs + 4 * st.rest.length + 2
  | .closer st' => r.2.reqs + Psi N r.2.bufs + 4 * st'.rest.length ≤ a.reqs + Psi N a.bufs + 4 * st.rest.length + 2
  | .err _ _ => r.2.reqs + Psi N r.2.bufs ≤ a.reqs + Psi N a.bufs + 4 * st.rest.length + 4

theorem RelL.toV {cfg : Cfg} {N : Nat} {st1 st : St} {a : ASt} {r : Res × ASt} (h : RelL cfg N st1 a r)
    (hlen : st1.rest.length + 1 ≤ st.rest.length) : RelV cfg N st a r := by
  obtain ⟨h1, h2⟩ := h
  refine ⟨h1, ?_⟩
  rcases r with ⟨r, a'⟩
  cases r with
  | ok v st' => exact ⟨h2.1, by have := h2.2; simp only at this ⊢; omega⟩
  | closer st' => simp only at h2 ⊢; omega
  | err e st' => simp only at h2 ⊢; omega

theorem RelV.toL {cfg : Cfg} {N : Nat} {st1 st : St} {a : ASt} {r : Res × ASt} (h : RelV cfg N st1 a r)
    (hlen : st1.rest.length ≤ st.rest.length) : RelL cfg N st a r := by
  obtain ⟨h1, h2⟩ := h
  refine ⟨h1, ?_⟩
  rcases r with ⟨r, a'⟩
  cases r with
  | ok v st' => exact ⟨h2.1, by have := h2.2; simp only at this ⊢; omega⟩
  | closer st' => simp only at h2 ⊢; omega
  | err e st' => simp only at h2 ⊢; omega

theorem RelV.mono {cfg : Cfg} {N : Nat} {st1 st : St} {a : ASt} {r : Res × ASt} (h : RelV cfg N st1 a r)
    (hlen : st1.rest.length ≤ st.rest.length) : RelV cfg N st a r := by
  obtain ⟨h1, h2⟩ := h
  refine ⟨h1, ?_⟩
  rcases r with ⟨r, a'⟩
  cases r with
  | ok v st' => exact ⟨h2.1, by have := h2.2; simp only at this ⊢; omega⟩
  | closer st' => simp only at h2 ⊢; omega
  | err e st' => simp only at h2 ⊢; omega

/-- sequencing: a result related to an intermediate state whose potential and byte credit are paid for -/
theorem RelV.after {cfg : Cfg} {N : Nat} {st1 st : St} {a1 a : ASt} {r : Res × ASt} (h : RelV cfg N st1 a1 r)
    (hc : a1.reqs + Psi N a1.bufs + 4 * st1.rest.length ≤ a.reqs + Psi N a.bufs + 4 * st.rest.length) :
    RelV cfg N st a r := by
  obtain ⟨h1, h2⟩ := h
  refine ⟨h1, ?_⟩
  rcases r with ⟨r, a'⟩
  cases r with
  | ok v st' => exact ⟨h2.1, by have := h2.2; simp only at this ⊢; omega⟩
  | closer st' => simp only at h2 ⊢; omega
  | err e st' => simp only at h2 ⊢; omega

theorem RelL.after {cfg : Cfg} {N : Nat} {st1 st : St} {a1 a : ASt} {r : Res × ASt} (h : RelL cfg N st1 a1 r)
    (hc : a1.reqs + Psi N a1.bufs + 4 * st1.rest.length ≤ a.reqs + Psi N a.bufs + 4 * st.rest.length) :
    RelL cfg N st a r := by
  obtain ⟨h1, h2⟩ := h
  refine ⟨h1, ?_⟩
  rcases r with ⟨r, a'⟩
  cases r with
  | ok v st' => exact ⟨h2.1, by have := h2.2; simp only at this ⊢; omega⟩
  | closer st' => simp only at h2 ⊢; omega
  | err e st' => simp only at h2 ⊢; omega

theorem RelV.toL_after {cfg : Cfg} {N : Nat} {st1 st : St} {a1 a : ASt} {r : Res × ASt} (h : RelV cfg N st1 a1 r)
    (hc : a1.reqs + Psi N a1.bufs + 4 * st1.rest.length ≤ a.reqs + Psi N a.bufs + 4 * st.rest.length + 2) :
    RelL cfg N st a r := by
  obtain ⟨h1, h2⟩ := h
  refine ⟨h1, ?_⟩
  rcases r with ⟨r, a'⟩
  cases r with
  | ok v st' => exact ⟨h2.1, by have := h2.2; simp only at this ⊢; omega⟩
  | closer st' => simp only at h2 ⊢; omega
  | err e st' => simp only at h2 ⊢; omega

/-- an error after `c` more units, from a state reached at a cost the bytes still pay for -/
theorem RelV.err_after {cfg : Cfg} {N c : Nat} {st st' : St} {a a1 a' : ASt} {e : ErrInfo}
    (h : Stp N c a1 a')
    (hc : a1.reqs + Psi N a1.bufs + c ≤ a.reqs + Psi N a.bufs + 4 * st.rest.length + 2) :
    RelV cfg N st a (.err e st', a') :=
  ⟨h.1, by have := h.2; simp only; omega⟩

theorem RelL.err_after {cfg : Cfg} {N c : Nat} {st st' : St} {a a1 a' : ASt} {e : ErrInfo}
    (h : Stp N c a1 a')
    (hc : a1.reqs + Psi N a1.bufs + c ≤ a.reqs + Psi N a.bufs + 4 * st.rest.length + 4) :
    RelL cfg N st a (.err e st', a') :=
  ⟨h.1, by have := h.2; simp only; omega⟩

/-! ## byte facts -/

def dispStrOK (cfg : Cfg) (c : UInt8) : Bool := !(decide (dispatch cfg c = .string)) || c == 0x22

theorem dispatch_string {cfg : Cfg} {c : UInt8} (h : dispatch cfg c = .string) : c = 0x22 := by
  have key : ∀ cfg c, dispStrOK cfg c = true := by
    intro cfg
    rcases cfg with ⟨clj, exp⟩
    cases clj <;> cases exp <;> exact forall_u8_bool _ (by decide +kernel)
  have := key cfg c
  simp only [dispStrOK, h, decide_true, Bool.not_true, Bool.false_or, beq_iff_eq] at this
  exact this

theorem pre_suffix (c0 : UInt8) (s0 : Bytes) : (if isPreWs c0 = true then skipWs s0 else s0) <:+ s0 := by
  split
  · exact skipWs_suffix' s0
  · exact List.suffix_refl _

/-! ## the six readers -/

section
variable {x : ACtx} {input : Bytes} (H : Hyp x input)

abbrev BV (x : ACtx) (input : Bytes) (f : Nat) : Prop :=
  ∀ d dm st a, a.arena = .alive → st.rest <:+ input →
    RelV x.ctx.cfg (input.length + 1) st a (readValueA x f d dm st a)
abbrev BS (x : ACtx) (input : Bytes) (f : Nat) : Prop :=
  ∀ d dm kind start st a b acc, a.arena = .alive → st.rest <:+ input → start < input.length + 1 →
    GoodL x.ctx.cfg (input.length + 1) acc →
    RelL x.ctx.cfg (input.length + 1) st a (readSeqA x f d dm kind start st a b acc)
abbrev BM (x : ACtx) (input : Bytes) (f : Nat) : Prop :=
  ∀ d dm start ns st a b ks vs, a.arena = .alive → st.rest <:+ input → start < input.length + 1 →
    GoodL x.ctx.cfg (input.length + 1) ks → GoodL x.ctx.cfg (input.length + 1) vs →
    RelL x.ctx.cfg (input.length + 1) st a (readMapA x f d dm start ns st a b ks vs)
abbrev BN (x : ACtx) (input : Bytes) (f : Nat) : Prop :=
  ∀ d dm start st a, a.arena = .alive → st.rest <:+ input → start < input.length + 1 →
    RelL x.ctx.cfg (input.length + 1) st a (readNsMapA x f d dm start st a)
abbrev BT (x : ACtx) (input : Bytes) (f : Nat) : Prop :=
  ∀ d dm start st a, a.arena = .alive → st.rest <:+ input → start < input.length + 1 →
    RelL x.ctx.cfg (input.length + 1) st a (readTaggedA x f d dm start st a)
abbrev BMe (x : ACtx) (input : Bytes) (f : Nat) : Prop :=
  ∀ d dm start st a, a.arena = .alive → st.rest <:+ input → start < input.length + 1 →
    RelL x.ctx.cfg (input.length + 1) st a (readMetaA x f d dm start st a)

include H

/-- what a successful `readValueA` leaves is a suffix of what it started from -/
theorem VA_ok_suffix {f d : Nat} {dm : Bool} {st st' : St} {a a' : ASt} {v : Val} (ha : a.arena = .alive)
    (hq : readValueA x f d dm st a = (.ok v st', a')) : st'.rest <:+ st.rest := by
  have h := (Edn.Proofs.AllocSim.readValueA_nofault x H.orc f d dm st a ha).1
  rw [hq] at h
  exact (readValue_rest_suffix x.ctx H.reg f d dm st st' v h.symm).1

/-- `#_ form form` -/
theorem discardA_rel (f : Nat) (hV : BV x input f) (d : Nat) (dm : Bool) (st0 : St) (e : ErrInfo) (a : ASt)
    (ha : a.arena = .alive) (hsuf : st0.rest <:+ input) :
    RelV x.ctx.cfg (input.length + 1) st0 a (match readValueA x f (d + 1) true st0 a with
      | (.ok _ st', a') => readValueA x f d dm st' a'
      | (.closer st', a') => (.err e st', a')
      | (.err e' st', a') => (.err e' st', a')) := by
  have h1 := hV (d + 1) true st0 a ha hsuf
  rcases hq : readValueA x f (d + 1) true st0 a with ⟨r, a'⟩
  rw [hq] at h1
  obtain ⟨ha', h1c⟩ := h1
  cases r with
  | ok v st' =>
    dsimp only at h1c ⊢
    have hsuf' := (VA_ok_suffix H ha hq).trans hsuf
    have h2 := hV d dm st' a' ha' hsuf'
    exact h2.after (by have := h1c.2; omega)
  | closer st' => dsimp only at h1c ⊢; exact ⟨ha', by somega⟩
  | err e' st' => dsimp only at h1c ⊢; exact ⟨ha', by somega⟩

theorem readValueA_bstep (f : Nat) (hV : BV x input f) (hS : BS x input f) (hM : BM x input f) (hN : BN x input f)
    (hT : BT x input f) (hMe : BMe x input f) : BV x input (f + 1) := by
  intro d dm st a ha hsuf
  unfold readValueA
  dsimp only
  have noCost : ∀ (e : ErrInfo) (st' : St), RelV x.ctx.cfg (input.length + 1) st a (.err e st', a) :=
    fun e st' => ⟨ha, by simp only; omega⟩
  split
  · exact noCost _ _
  · next c0 t hs0 =>
    have hpre := pre_suffix c0 st.rest
    generalize (if isPreWs c0 = true then skipWs st.rest else st.rest) = s at hpre ⊢
    cases s with
    | nil => exact noCost _ _
    | cons c cs =>
      dsimp only
      have hsuf1 : (c :: cs) <:+ st.rest := hpre
      have hsufI : (c :: cs) <:+ input := hsuf1.trans hsuf
      have hcs : cs <:+ input := (List.suffix_cons c cs).trans hsufI
      have hlen1 := hsuf1.length_le
      have hlenI := hsufI.length_le
      simp only [List.length_cons] at hlen1 hlenI
      have hhere : x.ctx.pos (c :: cs) < input.length + 1 := by simp only [Ctx.pos, List.length_cons]; omega
      let stc : St := { rest := c :: cs, calls := st.calls }
      let sto : St := { rest := cs, calls := st.calls }
      -- a result obtained from the state at `c :: cs`
      have up : ∀ r, RelV x.ctx.cfg (input.length + 1) stc a r → RelV x.ctx.cfg (input.length + 1) st a r :=
        fun r h => h.mono (by simp only [stc, List.length_cons]; omega)
      -- a result obtained after the opening byte
      have upL : ∀ r, RelL x.ctx.cfg (input.length + 1) sto a r → RelV x.ctx.cfg (input.length + 1) st a r :=
        fun r h => h.toV (by simp only [sto]; omega)
      split
      · next hdisp =>
        exact up _ (readStringA_rel H stc a ha hsufI cs (congrArg (· :: cs) (dispatch_string hdisp)))
      · exact up _ (readCharacterA_rel H stc a ha hsufI (readCharacter_progress x.ctx stc (List.cons_ne_nil _ _)))
      · split
        · exact noCost _ _
        · exact upL _ (hS _ _ _ _ sto a _ _ ha hcs hhere GoodL.nil)
      · split
        · exact noCost _ _
        · exact upL _ (hS _ _ _ _ sto a _ _ ha hcs hhere GoodL.nil)
      · split
        · exact noCost _ _
        · exact upL _ (hM _ _ _ _ sto a _ _ _ ha hcs hhere GoodL.nil GoodL.nil)
      · -- `#`
        split
        · next nx cs' =>
          have hcs' : cs' <:+ input := (List.suffix_cons nx cs').trans hcs
          simp only [List.length_cons] at hlen1
          split
          · exact up _ (readSymbolicA_rel H stc a ha hsufI (readSymbolic_progress x.ctx stc (by simp [stc])))
          · split
            · exact noCost _ _
            · split
              · exact (hS _ _ _ _ { rest := cs', calls := st.calls } a _ _ ha hcs' hhere GoodL.nil).toV
                  (by simp only; omega)
              · split
                · exact (discardA_rel H f hV d dm { rest := cs', calls := st.calls } _ a ha hcs').mono
                    (by simp only; omega)
                · split
                  · exact upL _ (hN _ _ _ sto a ha hcs hhere)
                  · exact upL _ (hT _ _ _ sto a ha hcs hhere)
        · exact upL _ (hT _ _ _ sto a ha hcs hhere)
      · -- sign
        next hdisp =>
        have hsg := dispatch_sign hdisp
        split
        · next nx t =>
          split
          · next hnx =>
            exact up _ (readNumberResA_rel H stc a ha hsufI
              (readNumberRes_progress x.ctx stc c (nx :: t) rfl (Or.inr ⟨hsg, nx, t, rfl, hnx⟩)))
          · exact up _ (readIdentifierA_rel H stc a ha hsufI)
        · exact up _ (readIdentifierA_rel H stc a ha hsufI)
      · next hdisp =>
        exact up _ (readNumberResA_rel H stc a ha hsufI
          (readNumberRes_progress x.ctx stc c cs rfl (Or.inl (dispatch_digit hdisp))))
      · split
        · exact noCost _ _
        · exact ⟨ha, by simp only [List.length_cons]; omega⟩
      · split
        · exact noCost _ _
        · exact upL _ (hMe _ _ _ sto a ha hcs hhere)
      · exact up _ (readIdentifierA_rel H stc a ha hsufI)

end

end Edn.Proofs.AllocBound
