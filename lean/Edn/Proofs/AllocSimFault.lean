/-
  Edn.Proofs.AllocSimFault — C16, the fault theorem: under EVERY fault oracle (every single failing
  request, every from-k-on failure, every other schedule) the allocation-aware reader of
  Edn.Model.ReaderA returns either the complete value of the fault-free reader — identical up to
  cache cells, with the same rest of the input and the same call log — or the caller's
  end-of-input value exactly where the fault-free reader returns it, or an error.  A fault can turn
  the outcome into an error; it never produces a different or partial value, and the model's
  recursion fuel still suffices.

  Cache cells: when the scratch memory of the duplicate check is refused, the check falls back to a
  strategy that does not hash the elements, so the returned elements have empty cache cells where
  the fault-free run has filled ones; `Edn.Spec.eraseCache` is the value with all cache cells
  emptied.  Everything else (kinds, payloads, ranges, element order, metadata) is equal.

  Hypothesis `RegistryOK cfg opts` (trivially true without a registry): every handler, given
  arguments that differ in cache cells only, gives up on both or returns results that differ in
  cache cells only and are again operands of the value algebra (`HandlerOK`: well-formed, valid
  caches, within the nesting limit).  A tag handler is an arbitrary function of the value it is
  given, cache cells included, so without such a hypothesis "equal up to cache cells" is not
  preserved by the model (`fault_theorem_needs_registry_hypothesis` at the end of this file: a
  handler that peeks at a cache cell).  The identity handler, a handler that always gives up and a
  handler that builds an external value from its argument's range — the handlers of the harness —
  satisfy it (`HandlerOK_id`, `HandlerOK_fail`, `HandlerOK_ext`).

  HISTORY (why the model and the code have their present form).  As first modelled — and as the
  code then was — the theorem was false: equality treated a refused lazy decoding like an
  undecodable literal, so a refused request inside the duplicate check or the metadata merge
  changed the verdict.  Core configuration, `#{"a\n" "a<LF>"}` (escape vs. raw line feed) with
  request 6 alone failing returned a set with two equal elements where the fault-free run reports
  DUPLICATE_ELEMENT; Clojure configuration, `^{"a\n" 1} ^{"a<LF>" 2} x` with request 17 and every
  later one failing returned `x` with a two-entry metadata map with equal keys.  Both were confirmed
  on the code, which was repaired: the arena counts refused requests, and the set / map close and
  the metadata merge report OUT_OF_MEMORY when the count moved during the comparison
  (`ASt.failedArena`).  The proof uses exactly this: a verdict obtained while the count stood still
  is the fault-free verdict (`Sim`, AllocSimAux1–4).

  Proof: `AllocSimAux5` (leaf readers), `AllocSimAux8` (cache-insensitivity), `AllocSimAux9`
  (relation and invariants), `AllocSimAux10`–`11` (induction on the fuel).
-/
import Edn.Proofs.AllocSimAux11
import Edn.Proofs.AllocSim

namespace Edn.Proofs.AllocSim
open Edn.Model Edn.Spec Edn.Proofs Edn.Generated Edn.Proofs.AllocBasic

/-- **Fault theorem for `edn_read_value`.**  For every oracle, at every nesting depth within the
    limit: a value returned under faults is the fault-free value up to cache cells, with the same
    parser state (rest of the input, call log); "closer" is "closer"; the end of input between
    top-level forms is reported as by the fault-free reader. -/
theorem readValueA_fault (x : ACtx) (hR : RegistryOK x.ctx.cfg x.ctx.opts) (f d : Nat) (dm : Bool) (st : St) (a : ASt)
    (hd : d ≤ Tables.maxNestingDepth) :
    (∀ v st', (readValueA x f d dm st a).1 = .ok v st' →
      ∃ v0, readValue x.ctx f d dm st = .ok v0 st' ∧ eraseCache v = eraseCache v0) ∧
    (∀ st', (readValueA x f d dm st a).1 = .closer st' → readValue x.ctx f d dm st = .closer st') ∧
    (∀ e st', (readValueA x f d dm st a).1 = .err e st' → e.eofTop = true →
      readValue x.ctx f d dm st = .err e st') ∧
    (∀ e st', (readValueA x f d dm st a).1 = .err e st' → e.fuelOut = true →
      (readValue x.ctx f d dm st).isFuelOut = true) := by
  have h := (reader_fault hR f).1 d dm st a hd
  refine ⟨fun v st' e => ?_, fun st' e => ?_, fun e' st' e ht => ?_, fun e' st' e hf => ?_⟩
  · rw [e] at h
    obtain ⟨v0, h1, g⟩ := h
    exact ⟨v0, h1, g.er⟩
  · rw [e] at h; exact h
  · rw [e] at h; exact (h.1 ht).2
  · rw [e] at h
    obtain ⟨e0, s0, hr, hf0⟩ := h.2 hf
    rw [hr]; exact hf0

/-- the outcome of a read under faults against the fault-free outcome -/
def FaultOutcome (o o0 : Outcome) : Prop :=
  match o with
  | .value v => ∃ v0, o0 = .value v0 ∧ eraseCache v = eraseCache v0
  | .eofValue => o0 = .eofValue
  | .error _ _ _ => True
  | .fuelOut => False

/-- **Fault theorem for `edn_read_with_options`.**  For every oracle: the outcome is the fault-free
    value up to cache cells (then the call logs are equal too), or the end-of-input value where the
    fault-free read yields it, or an error — never "out of fuel", never another value. -/
theorem readA_fault (cfg : Cfg) (opts : Opts) (hR : RegistryOK cfg opts) (orc : Nat → Bool) (input : Bytes)
    (grow : Nat → Nat) (handlerReq : String → Bool) (sortTouch : Nat → List Nat) :
    FaultOutcome (readA cfg opts orc input grow handlerReq sortTouch).out (Edn.Model.read cfg opts input).out ∧
    (∀ v, (readA cfg opts orc input grow handlerReq sortTouch).out = .value v →
      (readA cfg opts orc input grow handlerReq sortTouch).calls = (Edn.Model.read cfg opts input).calls) := by
  have hterm := read_terminates cfg opts input
  unfold readA Edn.Model.read at *
  simp only at hterm ⊢
  rcases hq0 : ({} : ASt).arenaCreate orc false with ⟨ok0, a0⟩
  simp only
  have hf := readValueA_fault
    { ctx := { cfg := cfg, opts := opts }, orc := orc, grow := grow, handlerReq := handlerReq, sortTouch := sortTouch }
    hR (readFuel input) 0 false { rest := input } a0 (Nat.zero_le _)
  simp only at hf
  obtain ⟨f1, f2, f3, f4⟩ := hf
  rcases hq : readValueA
    { ctx := { cfg := cfg, opts := opts }, orc := orc, grow := grow, handlerReq := handlerReq, sortTouch := sortTouch }
    (readFuel input) 0 false { rest := input } a0 with ⟨r, a⟩
  rw [hq] at f1 f2 f3 f4
  simp only at f1 f2 f3 f4 ⊢
  cases r with
  | ok v st =>
    obtain ⟨v0, h1, h2⟩ := f1 v st rfl
    rw [h1]
    exact ⟨⟨v0, rfl, h2⟩, fun _ _ => rfl⟩
  | closer st =>
    have h1 := f2 st rfl
    rw [h1] at hterm
    cases hterm
  | err e st =>
    simp only
    by_cases hfo : e.fuelOut = true
    · have h1 := f4 e st rfl hfo
      cases hr : readValue { cfg := cfg, opts := opts } (readFuel input) 0 false { rest := input } with
      | ok v0 st0 => rw [hr] at h1; cases h1
      | closer st0 => rw [hr] at h1; cases h1
      | err e0 st0 =>
        rw [hr] at h1 hterm
        simp only [Res.isFuelOut] at h1
        simp only [h1, ↓reduceIte] at hterm
        cases hterm
    · simp only [if_neg hfo]
      rcases hql : lineIndexA orc input a with ⟨haveIdx, a1⟩
      simp only
      by_cases he : (e.code == Err.unexpectedEof && e.eofTop && opts.eofValue) = true
      · simp only [if_pos he]
        have ht : e.eofTop = true := by
          simp only [Bool.and_eq_true] at he
          exact he.1.2
        rw [f3 e st rfl ht]
        simp only [if_neg hfo, if_pos he]
        exact ⟨rfl, fun v hv => by cases hv⟩
      · simp only [if_neg he]
        refine ⟨?_, fun v hv => ?_⟩
        · split <;> trivial
        · split at hv <;> cases hv

/-- without a registry -/
theorem readA_fault_noRegistry (cfg : Cfg) (opts : Opts) (hreg : opts.registry = none) (orc : Nat → Bool) (input : Bytes)
    (grow : Nat → Nat) (handlerReq : String → Bool) (sortTouch : Nat → List Nat) :
    FaultOutcome (readA cfg opts orc input grow handlerReq sortTouch).out (Edn.Model.read cfg opts input).out :=
  (readA_fault cfg opts (RegistryOK_of_none hreg) orc input grow handlerReq sortTouch).1

/-! ## handlers that satisfy the hypothesis -/

/-- the identity handler -/
theorem HandlerOK_id (cfg : Cfg) (name : String) : HandlerOK cfg ⟨name, fun v => some v⟩ := by
  intro d v v0 g
  exact g.weaken

/-- a handler that always gives up -/
theorem HandlerOK_fail (cfg : Cfg) (name : String) : HandlerOK cfg ⟨name, fun _ => none⟩ := by
  intro d v v0 g
  trivial

/-- a handler that builds an external value from the range of its argument -/
theorem HandlerOK_ext (cfg : Cfg) (name : String) (hdr : Hdr) (hc : hdr.hc = 0) (tid : Nat) (g : Nat → Nat → Nat) :
    HandlerOK cfg ⟨name, fun v => some (.ext hdr tid (g v.hdr.s v.hdr.e))⟩ := by
  intro d v v0 gd
  obtain ⟨rs, re⟩ := range_of_erase gd.er
  have hd : d ≤ Tables.maxNestingDepth := by have := gd.ok.1; omega
  have hf : freshLeaf (.ext hdr tid (g v0.hdr.s v0.hdr.e)) = true := by
    show (true && hdr.hc == 0) = true
    rw [hc]; rfl
  show Good cfg d (.ext hdr tid (g v.hdr.s v.hdr.e)) (.ext hdr tid (g v0.hdr.s v0.hdr.e))
  rw [rs, re]
  exact ⟨rfl, VOK_of_freshLeaf hf hd, VOK_of_freshLeaf hf hd, MdOK_of_none rfl, MdOK_of_none rfl⟩

/-! ## the hypothesis on the registry is needed (in the model)

A handler that looks at a cache cell of its argument tells a run whose duplicate check hashed the
elements from a run whose check fell back to the pairwise strategy. -/

/-- a handler that looks at a cache cell of its argument -/
def peekHandler : Handler :=
  { name := "peek",
    run := fun v => match v with
      | .set _ _ (y :: _) => if y.hdr.hc == 0 then some (.nil (mkHdr 0 0)) else some (.bool (mkHdr 0 0) true)
      | _ => none }

def peekOpts : Opts :=
  { registry := some (fun tag => if tag == "t".toUTF8.toList then some peekHandler else none) }

def outcomeTag : Outcome → Nat
  | .value (.nil _) => 1
  | .value (.bool _ true) => 2
  | _ => 0

/-- `#t #{1 … 17}`: without a fault the handler sees hashed elements and answers `true`; with the
    `malloc` of the sorted copy (request 23) refused it sees unhashed elements and answers `nil` — two
    different values, so "equal up to cache cells" fails with such a handler -/
theorem fault_theorem_needs_registry_hypothesis :
    outcomeTag (Edn.Model.read Cfg.core peekOpts "#t #{1 2 3 4 5 6 7 8 9 10 11 12 13 14 15 16 17}".toUTF8.toList).out = 2 ∧
    outcomeTag (readA Cfg.core peekOpts (fun i => i == 23) "#t #{1 2 3 4 5 6 7 8 9 10 11 12 13 14 15 16 17}".toUTF8.toList).out = 1 := by
  decide +kernel

end Edn.Proofs.AllocSim
