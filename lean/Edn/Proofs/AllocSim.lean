/-
  Edn.Proofs.AllocSim — C16, refinement: the allocation-aware reader of Edn.Model.ReaderA run with
  a fault oracle that fails no request IS the reader of Edn.Model.Reader.

  * `readValueA_nofault` (and the same for the five other functions): with an oracle that fails
    nothing and a live parser arena, the result component of `readValueA` equals `readValue`
    exactly — same value incl. cache cells, same rest, same call log, same error.
  * `readA_nofault`: `(readA cfg opts orc input).result = Edn.Model.read cfg opts input` for every oracle that
    fails nothing (in particular `fun _ => false`), every growth rule, every handler-request
    table and every `qsort` contact order.  So every theorem about `read` transfers to `readA`.
  * `readA_error_without_fault`: if an error is returned although no request fails, it is the
    error of the fault-free reader.

  The proof is in `AllocSimAux1` … `AllocSimAux7` (vocabulary; equality and hashing with lazily
  materialised payloads; list combinatorics of the three duplicate strategies; the duplicate
  check; leaf readers; builders and metadata; the induction on the fuel).
-/
import Edn.Proofs.AllocSimAux7

namespace Edn.Proofs.AllocSim
open Edn.Model Edn.Proofs.AllocBasic Edn.Proofs

/-- **Refinement of `edn_read_value`.**  If the oracle fails no request and the parser's arena
    exists, the allocation-aware reader returns what the reader of Edn.Model.Reader returns. -/
theorem readValueA_nofault (x : ACtx) (hx : ∀ n, x.orc n = false) (f d : Nat) (dm : Bool) (st : St) (a : ASt)
    (ha : a.arena = .alive) :
    (readValueA x f d dm st a).1 = readValue x.ctx f d dm st ∧ (readValueA x f d dm st a).2.arena = .alive :=
  (reader_nofault hx f).1 d dm st a ha

theorem readSeqA_nofault (x : ACtx) (hx : ∀ n, x.orc n = false) (f d : Nat) (dm : Bool) (kind start : Nat) (st : St)
    (a : ASt) (b : BSt) (acc : List Val) (ha : a.arena = .alive) :
    (readSeqA x f d dm kind start st a b acc).1 = readSeq x.ctx f d dm kind start st acc :=
  ((reader_nofault hx f).2.1 d dm kind start st a b acc ha).1

theorem readMapA_nofault (x : ACtx) (hx : ∀ n, x.orc n = false) (f d : Nat) (dm : Bool) (start : Nat)
    (ns : Option Bytes) (st : St) (a : ASt) (b : BSt) (ks vs : List Val) (ha : a.arena = .alive) :
    (readMapA x f d dm start ns st a b ks vs).1 = readMap x.ctx f d dm start ns st ks vs :=
  ((reader_nofault hx f).2.2.1 d dm start ns st a b ks vs ha).1

theorem readNsMapA_nofault (x : ACtx) (hx : ∀ n, x.orc n = false) (f d : Nat) (dm : Bool) (start : Nat) (st : St)
    (a : ASt) (ha : a.arena = .alive) :
    (readNsMapA x f d dm start st a).1 = readNsMap x.ctx f d dm start st :=
  ((reader_nofault hx f).2.2.2.1 d dm start st a ha).1

theorem readTaggedA_nofault (x : ACtx) (hx : ∀ n, x.orc n = false) (f d : Nat) (dm : Bool) (start : Nat) (st : St)
    (a : ASt) (ha : a.arena = .alive) :
    (readTaggedA x f d dm start st a).1 = readTagged x.ctx f d dm start st :=
  ((reader_nofault hx f).2.2.2.2.1 d dm start st a ha).1

theorem readMetaA_nofault (x : ACtx) (hx : ∀ n, x.orc n = false) (f d : Nat) (dm : Bool) (start : Nat) (st : St)
    (a : ASt) (ha : a.arena = .alive) :
    (readMetaA x f d dm start st a).1 = readMeta x.ctx f d dm start st :=
  ((reader_nofault hx f).2.2.2.2.2 d dm start st a ha).1

/-! ## edn_read_with_options -/

theorem arenaCreate_nofault (orc : Nat → Bool) (hx : ∀ n, orc n = false) (tmp : Bool) (a : ASt) :
    (a.arenaCreate orc tmp).1 = true ∧ (tmp = false → (a.arenaCreate orc tmp).2.arena = .alive) := by
  have key : ∀ (k : ReqKind) (a : ASt), k ≠ .arena → ∃ i a1, a.rawAlloc orc k = (some i, a1) := by
    intro k a hk
    unfold ASt.rawAlloc
    have h := request_succeeds orc k a 0 (hx _) (fun e => absurd e hk)
    simp [h]
  unfold ASt.arenaCreate
  obtain ⟨i, a1, e1⟩ := key .arenaNew a (by decide)
  rw [e1]
  simp only
  obtain ⟨j, a2, e2⟩ := key .arenaNew a1 (by decide)
  rw [e2]
  simp only
  refine ⟨trivial, fun ht => ?_⟩
  subst ht
  rfl

theorem lineGrowA_nofault (orc : Nat → Bool) (hx : ∀ n, orc n = false) : ∀ (n count cap : Nat) (a : ASt),
    (lineGrowA orc n count cap a).1 = true := by
  intro n
  induction n with
  | zero => intro count cap a; rfl
  | succ n ih =>
    intro count cap a
    unfold lineGrowA
    split
    · have h := request_succeeds orc .arenaTmp a 0 (hx _) (fun e => by cases e)
      simp only [h, Bool.not_true, Bool.false_eq_true, ↓reduceIte]
      exact ih _ _ _
    · exact ih _ _ _

theorem lineIndexA_nofault (orc : Nat → Bool) (hx : ∀ n, orc n = false) (input : Bytes) (a : ASt) :
    (lineIndexA orc input a).1 = true := by
  unfold lineIndexA
  have h0 := (arenaCreate_nofault orc hx true a).1
  rcases hq : a.arenaCreate orc true with ⟨okA, a1⟩
  rw [hq] at h0
  simp only at h0 ⊢
  subst h0
  simp only [Bool.not_true, Bool.false_eq_true, ↓reduceIte]
  have h1 := request_succeeds orc .arenaTmp a1 0 (hx _) (fun e => by cases e)
  have h2 := request_succeeds orc .arenaTmp (a1.request orc .arenaTmp).2 0 (hx _) (fun e => by cases e)
  simp only [h1, h2, Bool.not_true, Bool.false_eq_true, ↓reduceIte]
  exact lineGrowA_nofault orc hx _ _ _ _

/-- **Refinement of `edn_read_with_options`.**  Under an oracle that fails no request the
    allocation-aware model returns the outcome and the call log of `read`: the reader without
    faults is the reader. -/
theorem readA_nofault (cfg : Cfg) (opts : Opts) (orc : Nat → Bool) (hx : ∀ n, orc n = false) (input : Bytes)
    (grow : Nat → Nat) (handlerReq : String → Bool) (sortTouch : Nat → List Nat) :
    (readA cfg opts orc input grow handlerReq sortTouch).result = Edn.Model.read cfg opts input := by
  unfold readA Edn.Model.read ResultA.result
  simp only
  obtain ⟨-, c2⟩ := arenaCreate_nofault orc hx false {}
  rcases hq0 : ({} : ASt).arenaCreate orc false with ⟨ok0, a0⟩
  rw [hq0] at c2
  simp only at c2 ⊢
  have ha0 := c2 trivial
  obtain ⟨e1, -⟩ := readValueA_nofault
    { ctx := { cfg := cfg, opts := opts }, orc := orc, grow := grow, handlerReq := handlerReq, sortTouch := sortTouch }
    hx (readFuel input) 0 false { rest := input } a0 ha0
  simp only at e1
  rcases hq : readValueA
    { ctx := { cfg := cfg, opts := opts }, orc := orc, grow := grow, handlerReq := handlerReq, sortTouch := sortTouch }
    (readFuel input) 0 false { rest := input } a0 with ⟨r, a⟩
  rw [hq] at e1
  simp only at e1
  rw [← e1]
  cases r with
  | ok v st => rfl
  | closer st => rfl
  | err e st =>
    simp only
    by_cases hf : e.fuelOut = true
    · simp only [if_pos hf]
    · simp only [if_neg hf]
      have hi := lineIndexA_nofault orc hx input a
      rcases hql : lineIndexA orc input a with ⟨haveIdx, a1⟩
      rw [hql] at hi
      simp only at hi ⊢
      subst hi
      by_cases he : (e.code == Err.unexpectedEof && e.eofTop && opts.eofValue) = true
      · simp only [if_pos he]
      · simp only [if_neg he, Bool.not_true, Bool.false_eq_true, ↓reduceIte]

/-- the instance the task names: the oracle `fun _ => false`, default parameters -/
theorem readA_nofault' (cfg : Cfg) (opts : Opts) (input : Bytes) :
    (readA cfg opts (fun _ => false) input).result = Edn.Model.read cfg opts input :=
  readA_nofault cfg opts (fun _ => false) (fun _ => rfl) input _ _ _

/-- If an error is returned although no request fails, it is the fault-free error: same code,
    same positions. -/
theorem readA_error_without_fault (cfg : Cfg) (opts : Opts) (orc : Nat → Bool) (hx : ∀ n, orc n = false)
    (input : Bytes) (grow : Nat → Nat) (handlerReq : String → Bool) (sortTouch : Nat → List Nat)
    (code : Err) (es ee : Pos)
    (h : (readA cfg opts orc input grow handlerReq sortTouch).out = .error code es ee) :
    (Edn.Model.read cfg opts input).out = .error code es ee := by
  rw [← readA_nofault cfg opts orc hx input grow handlerReq sortTouch]
  exact h

end Edn.Proofs.AllocSim
