/-
  Edn.Proofs.RejectDocAux5 — C10, whole documents: the inputs that hold no form at all
  (`TopTrivia`: blanks, comments - the last one possibly unclosed - and complete discarded
  forms), declaratively, and the forward half of "end of input at top level iff `TopTrivia`".
-/
import Edn.Proofs.RejectDocAux4

namespace Edn.Proofs.RejectDoc
open Edn.Model Edn.Spec Edn.Generated Edn.Proofs Edn.Proofs.Cmpl

/-- whitespace, commas and line comments up to the end of the input; the last comment need not
    be closed by a line feed -/
inductive EofBlank : Bytes → Prop
  | nil : EofBlank []
  | ws (c : UInt8) (t : Bytes) (hw : isWs c = true) : EofBlank t → EofBlank (c :: t)
  | comment (body t : Bytes) (hb : ∀ b ∈ body, b ≠ 0x0A) : EofBlank t → EofBlank (0x3B :: (body ++ 0x0A :: t))
  | unclosed (body : Bytes) (hb : ∀ b ∈ body, b ≠ 0x0A) : EofBlank (0x3B :: body)

theorem skipWsScalarAux_noLf (body : Bytes) (hb : ∀ b ∈ body, b ≠ 0x0A) : skipWsScalarAux true body = [] := by
  induction body with
  | nil => rfl
  | cons b bs ih =>
    have hne : (b == 0x0A) = false := by
      have := hb b (by simp)
      simpa using this
    rw [skipWsScalarAux]
    simp only [hne, Bool.false_eq_true, ↓reduceIte]
    exact ih (fun x hx => hb x (by simp [hx]))

theorem skipWsScalar_of_eofBlank {s : Bytes} (h : EofBlank s) : skipWsScalar s = [] := by
  unfold skipWsScalar
  induction h with
  | nil => rfl
  | ws c t hw _ ih =>
    have hs : (c == 0x3B) = false := by
      have := isWs_not_semi c
      simpa [wsNotSemi, hw] using this
    rw [skipWsScalarAux_false_cons]
    simp only [hs, hw, Bool.false_eq_true, ↓reduceIte]
    exact ih
  | comment body t hb _ ih =>
    rw [skipWsScalarAux_false_cons]
    simp only [beq_self_eq_true, ↓reduceIte]
    rw [skipWsScalarAux_body _ _ hb]
    exact ih
  | unclosed body hb =>
    rw [skipWsScalarAux_false_cons]
    simp only [beq_self_eq_true, ↓reduceIte]
    exact skipWsScalarAux_noLf body hb

theorem skipWsScalarAux_nil_inv : ∀ (s : Bytes),
    (skipWsScalarAux false s = [] → EofBlank s) ∧
    (skipWsScalarAux true s = [] → EofBlank (0x3B :: s)) := by
  intro s
  induction s with
  | nil => exact ⟨fun _ => .nil, fun _ => .unclosed [] (by simp)⟩
  | cons x xs ih =>
    constructor
    · intro h
      rw [skipWsScalarAux_false_cons] at h
      by_cases h1 : (x == 0x3B) = true
      · rw [if_pos h1] at h
        have hx : x = 0x3B := by simpa using h1
        subst hx
        exact ih.2 h
      · rw [if_neg h1] at h
        by_cases h2 : isWs x = true
        · rw [if_pos h2] at h
          exact .ws x xs h2 (ih.1 h)
        · rw [if_neg h2] at h
          cases h
    · intro h
      rw [skipWsScalarAux] at h
      by_cases h1 : (x == 0x0A) = true
      · rw [if_pos h1] at h
        have hx : x = 0x0A := by simpa using h1
        subst hx
        exact .comment [] xs (by simp) (ih.1 h)
      · rw [if_neg h1] at h
        have hx : x ≠ 0x0A := by simpa using h1
        have := ih.2 h
        -- prepend `x` to the body of the comment `; xs`
        generalize hy : (0x3B : UInt8) :: xs = y at this
        cases this with
        | nil => cases hy
        | ws c t hw ht =>
          simp only [List.cons.injEq] at hy
          obtain ⟨rfl, rfl⟩ := hy
          have : isWs 0x3B = false := by decide +kernel
          rw [this] at hw; cases hw
        | comment body t hb ht =>
          simp only [List.cons.injEq] at hy
          obtain ⟨-, rfl⟩ := hy
          have := EofBlank.comment (x :: body) t (by
            intro b hbm
            rcases List.mem_cons.mp hbm with rfl | hbm
            · exact hx
            · exact hb b hbm) ht
          simpa using this
        | unclosed body hb =>
          simp only [List.cons.injEq] at hy
          obtain ⟨-, rfl⟩ := hy
          exact .unclosed (x :: xs) (by
            intro b hbm
            rcases List.mem_cons.mp hbm with rfl | hbm
            · exact hx
            · exact hb b hbm)

/-- the whitespace skipper consumes everything exactly on `EofBlank` inputs -/
theorem skipWsScalar_nil_iff (s : Bytes) : skipWsScalar s = [] ↔ EofBlank s :=
  ⟨(skipWsScalarAux_nil_inv s).1, skipWsScalar_of_eofBlank⟩

theorem blank_eofBlank {tr s : Bytes} (ht : Blank tr) (h : EofBlank s) : EofBlank (tr ++ s) := by
  induction ht with
  | nil => exact h
  | ws c t hw _ ih => exact .ws c (t ++ s) hw ih
  | comment body t hb _ ih =>
    have e : 0x3B :: (body ++ 0x0A :: t) ++ s = 0x3B :: (body ++ 0x0A :: (t ++ s)) := by simp
    rw [e]
    exact .comment body (t ++ s) hb ih

/-- **The inputs without a form**: blanks and comments up to the end (`EofBlank`), with complete
    discarded forms `#_ form` anywhere between them.  The discarded forms are forms of
    `Edn.Spec.Form` whose nesting leaves room for the discard marker. -/
inductive TopTrivia : Bytes → Prop
  | eof (s : Bytes) (h : EofBlank s) : TopTrivia s
  | discard (tr tok rest : Bytes) (k : Nat) (b : Val) (ht : Blank tr) (hk : 1 + k ≤ Tables.maxNestingDepth)
      (hf : Form k b tok rest) (h : TopTrivia rest) : TopTrivia (tr ++ 0x23 :: 0x5F :: (tok ++ rest))

theorem TopTrivia.blank {tr s : Bytes} (ht : Blank tr) (h : TopTrivia s) : TopTrivia (tr ++ s) := by
  cases h with
  | eof _ h => exact .eof _ (blank_eofBlank ht h)
  | discard tr' tok rest k b ht' hk hf h =>
    rw [← List.append_assoc]
    exact .discard (tr ++ tr') tok rest k b (Snd.blank_append ht ht') hk hf h

/-- a `TopTrivia` input is a flat context that stays at depth 0, followed by blanks -/
theorem TopTrivia.desc {s : Bytes} (h : TopTrivia s) (dm : Bool) :
    ∃ pre s', s = pre ++ s' ∧ Desc s' false 0 dm pre 0 dm ∧ EofBlank s' := by
  induction h with
  | eof s h => exact ⟨[], s, rfl, .here false 0 dm, h⟩
  | discard tr tok rest k b ht hk hf _ ih =>
    obtain ⟨pre, s', rfl, hd, he⟩ := ih
    refine ⟨tr ++ 0x23 :: 0x5F :: (tok ++ pre), s', by simp, ?_, he⟩
    exact .blank false 0 dm tr _ 0 dm ht (.skip false 0 dm k b tok pre 0 dm (by omega) hf hd)

/-- forward half: on a `TopTrivia` input the top-level `readValue` reports the end of the input
    *between forms* (`eofTop`) -/
theorem topTrivia_site (opts : Opts) (hreg : opts.registry = none) {s : Bytes} (h : TopTrivia s) (dm : Bool) :
    SiteErr opts 0 dm s (eofE 0) [] := by
  obtain ⟨pre, s', rfl, hd, he⟩ := h.desc dm
  exact desc_err opts hreg hd _ _ (site_eof opts 0 dm s' (skipWsScalar_of_eofBlank he)) (Or.inl rfl)

end Edn.Proofs.RejectDoc
