/-
  Edn.Proofs.ReReadAux2 — continuation independence ("cut") of the whitespace skipper, the
  string reader (ordinary literals and text blocks) and the symbolic-value reader: a run on
  `t ++ r` that leaves all of `r` unread is a run on `t` followed by `r`.
-/
import Edn.Proofs.ReReadAux0

namespace Edn.Proofs
open Edn.Model Edn.Spec

/-! ## list facts -/

theorem startsWith_length {s p : Bytes} (h : startsWith s p = true) : p.length ≤ s.length := by
  unfold startsWith at h
  exact (List.isPrefixOf_iff_prefix.mp h).length_le

theorem startsWith_append_mono {t p : Bytes} (r : Bytes) (h : startsWith t p = true) :
    startsWith (t ++ r) p = true := by
  unfold startsWith at h ⊢
  exact List.isPrefixOf_iff_prefix.mpr ((List.isPrefixOf_iff_prefix.mp h).trans (List.prefix_append t r))

theorem startsWith_append_cut {t p : Bytes} (r : Bytes) (hl : p.length ≤ t.length)
    (h : startsWith (t ++ r) p = true) : startsWith t p = true := by
  unfold startsWith at h ⊢
  exact List.isPrefixOf_iff_prefix.mpr
    (List.prefix_of_prefix_length_le (List.isPrefixOf_iff_prefix.mp h) (List.prefix_append t r) hl)

theorem startsWith_append_false {t p : Bytes} (r : Bytes) (h : startsWith (t ++ r) p = false) :
    startsWith t p = false := by
  cases hs : startsWith t p with
  | false => rfl
  | true => rw [startsWith_append_mono r hs] at h; cases h

theorem suffix_eq_of_length_le {a b : Bytes} (hs : a <:+ b) (hl : b.length ≤ a.length) : a = b := by
  obtain ⟨p, hp⟩ := hs
  have : (p ++ a).length = b.length := by rw [hp]
  simp only [List.length_append] at this
  have hp0 : p = [] := List.eq_nil_of_length_eq_zero (by omega)
  rw [hp0] at hp
  exact hp

theorem dropWhile_append_of_nil (p : UInt8 → Bool) (u r : Bytes) (h : u.dropWhile p = []) :
    (u ++ r).dropWhile p = r.dropWhile p := by
  induction u with
  | nil => rfl
  | cons c cs ih =>
    rw [List.dropWhile_cons] at h
    cases hp : p c with
    | true =>
      rw [hp] at h
      simp only [if_true] at h
      rw [List.cons_append, List.dropWhile_cons, hp]
      simp only [if_true]
      exact ih h
    | false => rw [hp] at h; simp at h

theorem dropWhile_append_of_ne_nil (p : UInt8 → Bool) (u r : Bytes) (h : u.dropWhile p ≠ []) :
    (u ++ r).dropWhile p = u.dropWhile p ++ r ∧ (u ++ r).takeWhile p = u.takeWhile p := by
  induction u with
  | nil => exact absurd rfl h
  | cons c cs ih =>
    rw [List.dropWhile_cons] at h
    rw [List.cons_append, List.dropWhile_cons, List.dropWhile_cons, List.takeWhile_cons, List.takeWhile_cons]
    cases hp : p c with
    | true =>
      rw [hp] at h
      simp only [if_true] at h ⊢
      have := ih h
      exact ⟨this.1, by rw [this.2]⟩
    | false => simp

/-! ## whitespace and comments -/

theorem skipWsScalarAux_nil (b : Bool) : skipWsScalarAux b [] = [] := by
  cases b <;> rfl

theorem skipWsScalarAux_true_cons (c : UInt8) (cs : Bytes) :
    skipWsScalarAux true (c :: cs) = if c == 0x0A then skipWsScalarAux false cs else skipWsScalarAux true cs := by
  rw [skipWsScalarAux]

theorem skipWsScalarAux_suffix' : ∀ (s : Bytes) (b : Bool), skipWsScalarAux b s <:+ s := by
  intro s
  induction s with
  | nil => intro b; rw [skipWsScalarAux_nil]; exact List.suffix_refl _
  | cons c cs ih =>
    intro b
    cases b with
    | true =>
      rw [skipWsScalarAux_true_cons]
      split
      · exact (ih false).trans (List.suffix_cons c cs)
      · exact (ih true).trans (List.suffix_cons c cs)
    | false =>
      rw [skipWsScalarAux_false_cons]
      split
      · exact (ih true).trans (List.suffix_cons c cs)
      · split
        · exact (ih false).trans (List.suffix_cons c cs)
        · exact List.suffix_refl _

theorem skipWsScalarAux_cut : ∀ (t : Bytes) (b : Bool) (r : Bytes),
    r.length ≤ (skipWsScalarAux b (t ++ r)).length →
    skipWsScalarAux b (t ++ r) = skipWsScalarAux b t ++ r := by
  intro t
  induction t with
  | nil =>
    intro b r h
    rw [skipWsScalarAux_nil]
    exact suffix_eq_of_length_le (skipWsScalarAux_suffix' r b) h
  | cons c cs ih =>
    intro b r h
    rw [List.cons_append] at h ⊢
    cases b with
    | true =>
      rw [skipWsScalarAux_true_cons] at h ⊢
      rw [skipWsScalarAux_true_cons]
      split
      · rename_i hc; rw [if_pos hc] at h; exact ih false r h
      · rename_i hc; rw [if_neg hc] at h; exact ih true r h
    | false =>
      rw [skipWsScalarAux_false_cons] at h ⊢
      rw [skipWsScalarAux_false_cons]
      split
      · rename_i hc; rw [if_pos hc] at h; exact ih true r h
      · rename_i hc
        rw [if_neg hc] at h
        split
        · rename_i hw; rw [if_pos hw] at h; exact ih false r h
        · rfl

theorem skipWsScalarAux_idem : ∀ (s : Bytes) (b : Bool),
    skipWsScalarAux false (skipWsScalarAux b s) = skipWsScalarAux b s := by
  intro s
  induction s with
  | nil => intro b; rw [skipWsScalarAux_nil]; rfl
  | cons c cs ih =>
    intro b
    cases b with
    | true =>
      rw [skipWsScalarAux_true_cons]
      split
      · exact ih false
      · exact ih true
    | false =>
      rw [skipWsScalarAux_false_cons]
      split
      · exact ih true
      · rename_i hc
        split
        · exact ih false
        · rename_i hw
          rw [skipWsScalarAux_false_cons, if_neg hc, if_neg hw]

/-- the whitespace/comment skipper: if what it leaves of `t ++ r` still contains all of `r`, it stopped inside `t` (or exactly at its end) -/
theorem skipWs_cut (t r : Bytes) (h : r.length ≤ (skipWs (t ++ r)).length) :
    skipWs (t ++ r) = skipWs t ++ r := by
  rw [skipWs_eq] at h ⊢
  rw [skipWs_eq]
  exact skipWsScalarAux_cut t false r h

/-- what `skipWs` returns is a suffix of its argument, and skipping again does nothing -/
theorem skipWs_suffix' (s : Bytes) : skipWs s <:+ s := by
  rw [skipWs_eq]; exact skipWsScalarAux_suffix' s false

theorem skipWs_idem (s : Bytes) : skipWs (skipWs s) = skipWs s := by
  rw [skipWs_eq, skipWs_eq]
  exact skipWsScalarAux_idem s false


theorem take3_eq {r : Bytes} {a b c : UInt8} (h : r.take 3 = [a, b, c]) : r = a :: b :: c :: r.drop 3 := by
  have := List.take_append_drop 3 r
  rw [h] at this
  exact this.symm

theorem take2_eq {r : Bytes} {a b : UInt8} (h : r.take 2 = [a, b]) : r = a :: b :: r.drop 2 := by
  have := List.take_append_drop 2 r
  rw [h] at this
  exact this.symm

theorem tbContent_cons (f : Nat) (acc : Bytes) (esc : Bool) (c : UInt8) (r : Bytes) :
    tbContent (f + 1) acc esc (c :: r) =
      if c = 0x5C ∧ r.take 3 = [0x22, 0x22, 0x22] then
        tbContent f (0x22 :: 0x22 :: 0x22 :: 0x5C :: acc) true (r.drop 3)
      else if c = 0x22 ∧ r.take 2 = [0x22, 0x22] then some (acc.reverse, esc, true, r.drop 2)
      else if c = 0x0A then some (acc.reverse, esc, false, r)
      else tbContent f (c :: acc) esc r := by
  rw [tbContent.eq_def]
  simp only []
  split
  · simp
  · simp
  · simp
  · rename_i h1 h2 h3
    rw [if_neg (fun h => h2 _ h.1 (take3_eq h.2)), if_neg (fun h => h3 _ h.1 (take2_eq h.2)), if_neg h1]

theorem tbContent_zero (acc : Bytes) (esc : Bool) (s : Bytes) : tbContent 0 acc esc s = none := by
  rw [tbContent]

theorem tbContent_nil (f : Nat) (acc : Bytes) (esc : Bool) : tbContent f acc esc [] = none := by
  cases f <;> rw [tbContent]

/-- a successful content scan consumes at least one byte -/
theorem tbContent_length_lt : ∀ (f : Nat) (acc : Bytes) (esc : Bool) (s : Bytes) (c : Bytes) (e t : Bool) (rest : Bytes),
    tbContent f acc esc s = some (c, e, t, rest) → rest.length < s.length := by
  intro f
  induction f with
  | zero => intro acc esc s c e t rest h; rw [tbContent_zero] at h; cases h
  | succ f ih =>
    intro acc esc s c e t rest h
    cases s with
    | nil => rw [tbContent_nil] at h; cases h
    | cons a s =>
      rw [tbContent_cons] at h
      simp only [List.length_cons]
      split at h
      · have := ih _ _ _ _ _ _ _ h
        simp only [List.length_drop] at this; omega
      · split at h
        · cases h; simp only [List.length_drop]; omega
        · split at h
          · cases h; omega
          · have := ih _ _ _ _ _ _ _ h
            omega

theorem tbContent_fuel : ∀ (f f' : Nat) (acc : Bytes) (esc : Bool) (s : Bytes),
    s.length < f → s.length < f' → tbContent f acc esc s = tbContent f' acc esc s := by
  intro f
  induction f with
  | zero => intro f' acc esc s h; omega
  | succ f ih =>
    intro f' acc esc s h h'
    cases f' with
    | zero => omega
    | succ f' =>
      cases s with
      | nil => rw [tbContent_nil, tbContent_nil]
      | cons a s =>
        simp only [List.length_cons] at h h'
        rw [tbContent_cons, tbContent_cons]
        rw [ih f' _ true (s.drop 3) (by simp only [List.length_drop]; omega) (by simp only [List.length_drop]; omega)]
        rw [ih f' (a :: acc) esc s (by omega) (by omega)]

theorem tbContent_cut : ∀ (f : Nat) (acc : Bytes) (esc : Bool) (u r : Bytes) (c : Bytes) (e t : Bool) (rest : Bytes),
    tbContent f acc esc (u ++ r) = some (c, e, t, rest) → r.length ≤ rest.length →
    ∃ u', rest = u' ++ r ∧ tbContent f acc esc u = some (c, e, t, u') := by
  intro f
  induction f with
  | zero => intro acc esc u r c e t rest h; rw [tbContent_zero] at h; cases h
  | succ f ih =>
    intro acc esc u r c e t rest h hl
    cases u with
    | nil =>
      have := tbContent_length_lt _ _ _ _ _ _ _ _ h
      simp only [List.nil_append] at this
      omega
    | cons a u =>
      rw [List.cons_append, tbContent_cons] at h
      rw [tbContent_cons]
      by_cases h1 : a = 0x5C ∧ (u ++ r).take 3 = [0x22, 0x22, 0x22]
      · rw [if_pos h1] at h
        have hlt := tbContent_length_lt _ _ _ _ _ _ _ _ h
        simp only [List.length_drop, List.length_append] at hlt
        have hu : 3 ≤ u.length := by omega
        rw [List.take_append_of_le_length hu] at h1
        rw [List.drop_append_of_le_length hu] at h
        rw [if_pos h1]
        exact ih _ _ _ _ _ _ _ _ h hl
      · rw [if_neg h1] at h
        have h1' : ¬ (a = 0x5C ∧ u.take 3 = [0x22, 0x22, 0x22]) := by
          intro hh
          apply h1
          refine ⟨hh.1, ?_⟩
          have hu : 3 ≤ u.length := by
            have := congrArg List.length hh.2
            simp only [List.length_take, List.length_cons, List.length_nil] at this
            omega
          rw [List.take_append_of_le_length hu]; exact hh.2
        rw [if_neg h1']
        by_cases h2 : a = 0x22 ∧ (u ++ r).take 2 = [0x22, 0x22]
        · rw [if_pos h2] at h
          simp only [Option.some.injEq, Prod.mk.injEq] at h
          obtain ⟨hc, he, ht, hr⟩ := h
          have hu : 2 ≤ u.length := by
            rw [← hr] at hl
            simp only [List.length_drop, List.length_append] at hl
            have := congrArg List.length h2.2
            simp only [List.length_take, List.length_append, List.length_cons, List.length_nil] at this
            omega
          rw [List.take_append_of_le_length hu] at h2
          rw [List.drop_append_of_le_length hu] at hr
          rw [if_pos h2]
          exact ⟨u.drop 2, hr.symm, by rw [hc, he, ht]⟩
        · rw [if_neg h2] at h
          have h2' : ¬ (a = 0x22 ∧ u.take 2 = [0x22, 0x22]) := by
            intro hh
            apply h2
            refine ⟨hh.1, ?_⟩
            have hu : 2 ≤ u.length := by
              have := congrArg List.length hh.2
              simp only [List.length_take, List.length_cons, List.length_nil] at this
              omega
            rw [List.take_append_of_le_length hu]; exact hh.2
          rw [if_neg h2']
          by_cases h3 : a = 0x0A
          · rw [if_pos h3] at h ⊢
            simp only [Option.some.injEq, Prod.mk.injEq] at h
            obtain ⟨hc, he, ht, hr⟩ := h
            exact ⟨u, hr.symm, by rw [hc, he, ht]⟩
          · rw [if_neg h3] at h ⊢
            exact ih _ _ _ _ _ _ _ _ h hl

/-! ## one line, all lines -/

theorem tbLine_length_lt (s : Bytes) (ln : TbLine) (rest : Bytes) (h : tbLine s = some (ln, rest)) :
    rest.length < s.length := by
  unfold tbLine at h
  simp only [] at h
  have hd := dropWhile_length_le isBlank s
  cases hc : tbContent ((s.dropWhile isBlank).length + 1) [] false (s.dropWhile isBlank) with
  | none => rw [hc] at h; cases h
  | some x =>
    obtain ⟨c, e, t, rest'⟩ := x
    rw [hc] at h
    simp only [Option.some.injEq, Prod.mk.injEq] at h
    have := tbContent_length_lt _ _ _ _ _ _ _ _ hc
    rw [← h.2]; omega

theorem tbLine_cut (u r : Bytes) (ln : TbLine) (rest : Bytes) (h : tbLine (u ++ r) = some (ln, rest))
    (hl : r.length ≤ rest.length) : ∃ u', rest = u' ++ r ∧ tbLine u = some (ln, u') := by
  unfold tbLine at h ⊢
  simp only [] at h ⊢
  cases hb : u.dropWhile isBlank with
  | nil =>
    rw [dropWhile_append_of_nil _ _ _ hb] at h
    have hd := dropWhile_length_le isBlank r
    cases hc : tbContent ((r.dropWhile isBlank).length + 1) [] false (r.dropWhile isBlank) with
    | none => rw [hc] at h; cases h
    | some x =>
      obtain ⟨c, e, t, rest'⟩ := x
      rw [hc] at h
      simp only [Option.some.injEq, Prod.mk.injEq] at h
      have := tbContent_length_lt _ _ _ _ _ _ _ _ hc
      rw [← h.2] at hl; omega
  | cons d ds =>
    have hne : u.dropWhile isBlank ≠ [] := by rw [hb]; exact List.cons_ne_nil _ _
    have hsplit := dropWhile_append_of_ne_nil isBlank u r hne
    rw [hsplit.1, hsplit.2, hb] at h
    cases hc : tbContent ((d :: ds ++ r).length + 1) [] false (d :: ds ++ r) with
    | none => rw [hc] at h; cases h
    | some x =>
      obtain ⟨c, e, t, rest'⟩ := x
      rw [hc] at h
      simp only [Option.some.injEq, Prod.mk.injEq] at h
      obtain ⟨hln, hr⟩ := h
      rw [← hr] at hl
      obtain ⟨u', hu', hsmall⟩ := tbContent_cut _ _ _ _ _ _ _ _ _ hc hl
      rw [tbContent_fuel _ ((d :: ds).length + 1) _ _ _ (by simp only [List.length_append]; omega) (by omega)] at hsmall
      rw [hsmall]
      exact ⟨u', by rw [← hr, hu'], by simp only [Option.some.injEq, Prod.mk.injEq]; exact ⟨hln, trivial⟩⟩

theorem tbLines_zero (s : Bytes) (acc : List TbLine) : tbLines 0 s acc = .error .missingCloser := by
  rw [tbLines]

theorem tbLines_succ (f : Nat) (s : Bytes) (acc : List TbLine) :
    tbLines (f + 1) s acc =
      if s.isEmpty then .error .missingCloser
      else match tbLine s with
        | none => .error (.eofInLine s)
        | some (ln, rest) =>
          if ln.terminal then .ok ((ln :: acc).reverse, rest) else tbLines f rest (ln :: acc) := by
  rw [tbLines]
  rfl

theorem tbLines_ok_length (f : Nat) (s : Bytes) (acc : List TbLine) (lines : List TbLine) (rest : Bytes)
    (h : tbLines f s acc = .ok (lines, rest)) : rest.length ≤ s.length := by
  have := tbLines_length f s acc
  rw [h] at this
  exact this

theorem tbLines_fuel : ∀ (f f' : Nat) (s : Bytes) (acc : List TbLine),
    s.length ≤ f → s.length ≤ f' → tbLines f s acc = tbLines f' s acc := by
  intro f
  induction f with
  | zero =>
    intro f' s acc h h'
    have hs : s = [] := List.eq_nil_of_length_eq_zero (by omega)
    subst hs
    cases f' with
    | zero => rfl
    | succ f' => rw [tbLines_zero, tbLines_succ]; rfl
  | succ f ih =>
    intro f' s acc h h'
    cases f' with
    | zero =>
      have hs : s = [] := List.eq_nil_of_length_eq_zero (by omega)
      subst hs
      rw [tbLines_zero, tbLines_succ]; rfl
    | succ f' =>
      rw [tbLines_succ, tbLines_succ]
      cases hl : tbLine s with
      | none => rfl
      | some x =>
        obtain ⟨ln, rest⟩ := x
        have := tbLine_length_lt _ _ _ hl
        simp only []
        rw [ih f' rest (ln :: acc) (by omega) (by omega)]

theorem tbLines_cut : ∀ (f : Nat) (u r : Bytes) (acc lines : List TbLine) (rest : Bytes),
    tbLines f (u ++ r) acc = .ok (lines, rest) → r.length ≤ rest.length →
    ∃ u', rest = u' ++ r ∧ tbLines f u acc = .ok (lines, u') := by
  intro f
  induction f with
  | zero => intro u r acc lines rest h; rw [tbLines_zero] at h; cases h
  | succ f ih =>
    intro u r acc lines rest h hl
    rw [tbLines_succ] at h
    cases he : (u ++ r).isEmpty with
    | true => rw [he] at h; simp only [if_true] at h; cases h
    | false =>
      rw [he] at h
      simp only [Bool.false_eq_true, if_false] at h
      cases hln : tbLine (u ++ r) with
      | none => rw [hln] at h; cases h
      | some x =>
        obtain ⟨ln, rest1⟩ := x
        rw [hln] at h
        simp only [] at h
        have hlt := tbLine_length_lt _ _ _ hln
        have hl1 : r.length ≤ rest1.length := by
          cases ht : ln.terminal with
          | true =>
            rw [ht] at h; simp only [if_true] at h
            simp only [Except.ok.injEq, Prod.mk.injEq] at h
            rw [h.2]; exact hl
          | false =>
            rw [ht] at h; simp only [Bool.false_eq_true, if_false] at h
            have := tbLines_ok_length _ _ _ _ _ h
            omega
        obtain ⟨u1, hu1, hsmall⟩ := tbLine_cut u r ln rest1 hln hl1
        have hune : u.isEmpty = false := by
          cases u with
          | nil =>
            rw [hu1] at hlt
            simp only [List.nil_append, List.length_append] at hlt
            omega
          | cons a u => rfl
        rw [tbLines_succ, hune, hsmall]
        simp only [Bool.false_eq_true, if_false]
        cases ht : ln.terminal with
        | true =>
          rw [ht] at h; simp only [if_true] at h ⊢
          simp only [Except.ok.injEq, Prod.mk.injEq] at h
          exact ⟨u1, by rw [← h.2, hu1], by rw [h.1]⟩
        | false =>
          rw [ht] at h; simp only [Bool.false_eq_true, if_false] at h ⊢
          rw [hu1] at h
          exact ih _ _ _ _ _ h hl

theorem readTextBlockBody_cut (u r : Bytes) (text rest : Bytes)
    (h : readTextBlockBody (u ++ r) = .ok (text, rest)) (hl : r.length ≤ rest.length) :
    ∃ u', rest = u' ++ r ∧ readTextBlockBody u = .ok (text, u') := by
  unfold readTextBlockBody at h ⊢
  cases hb : tbLines ((u ++ r).length + 2) (u ++ r) [] with
  | error e => rw [hb] at h; cases h
  | ok x =>
    obtain ⟨lines, rest'⟩ := x
    rw [hb] at h
    simp only [Except.ok.injEq, Prod.mk.injEq] at h
    obtain ⟨htx, hr⟩ := h
    subst hr
    obtain ⟨u', hu', hsmall⟩ := tbLines_cut _ _ _ _ _ _ hb hl
    rw [tbLines_fuel _ (u.length + 2) _ _ (by simp only [List.length_append]; omega) (by omega)] at hsmall
    rw [hsmall]
    exact ⟨u', hu', by simp only [Except.ok.injEq, Prod.mk.injEq]; exact ⟨htx, trivial⟩⟩

theorem readTextBlockBody_ok_length (s text rest : Bytes) (h : readTextBlockBody s = .ok (text, rest)) :
    rest.length ≤ s.length := by
  unfold readTextBlockBody at h
  cases hb : tbLines (s.length + 2) s [] with
  | error e => rw [hb] at h; cases h
  | ok x =>
    obtain ⟨lines, rest'⟩ := x
    rw [hb] at h
    simp only [Except.ok.injEq, Prod.mk.injEq] at h
    rw [← h.2]
    exact tbLines_ok_length _ _ _ _ _ hb

/-! ## closing quote -/

theorem findQuoteScalarAux_cut : ∀ (u : Bytes) (sk bs : Bool) (r q : Bytes) (e : Bool),
    findQuoteScalarAux sk bs (u ++ r) = some (q, e) → r.length < q.length →
    ∃ q', q = q' ++ r ∧ findQuoteScalarAux sk bs u = some (q', e) := by
  intro u
  induction u with
  | nil =>
    intro sk bs r q e h hl
    have := (findQuoteScalarAux_length _ _ _ _ _ h).1
    simp only [List.nil_append] at this
    omega
  | cons c cs ih =>
    intro sk bs r q e h hl
    rw [List.cons_append] at h
    cases sk with
    | true =>
      rw [findQuoteScalarAux] at h ⊢
      exact ih _ _ _ _ _ h hl
    | false =>
      rw [findQuoteScalarAux] at h ⊢
      split
      · rename_i hc; rw [if_pos hc] at h; exact ih _ _ _ _ _ h hl
      · rename_i hc
        rw [if_neg hc] at h
        split
        · rename_i hq
          rw [if_pos hq] at h
          simp only [Option.some.injEq, Prod.mk.injEq] at h
          exact ⟨c :: cs, by rw [← h.1]; rfl, by rw [h.2]⟩
        · rename_i hq; rw [if_neg hq] at h; exact ih _ _ _ _ _ h hl

theorem findQuote_cut (u r q : Bytes) (e : Bool) (h : findQuote (u ++ r) = some (q, e)) (hl : r.length < q.length) :
    ∃ q', q = q' ++ r ∧ findQuote u = some (q', e) := by
  rw [findQuote_eq] at h ⊢
  exact findQuoteScalarAux_cut u false false r q e h hl


/-! ## the string reader -/

theorem shiftV_str (k a b : Nat) (d : Bytes) (e : Bool) :
    shiftV k (.str (mkHdr a b) d e) = .str (mkHdr (a + k) (b + k)) d e := by
  unfold shiftV
  simp [shiftHdr, Val.setHdr, Val.hdr, mkHdr]

theorem shiftV_float (k a b : Nat) (bits : UInt64) :
    shiftV k (.float (mkHdr a b) bits) = .float (mkHdr (a + k) (b + k)) bits := by
  unfold shiftV
  simp [shiftHdr, Val.setHdr, Val.hdr, mkHdr]

theorem readString_cut (ctx : Ctx) (t r : Bytes) (cl : List Call) (v : Val) (st' : St)
    (h : readString ctx { rest := t ++ r, calls := cl } = .ok v st') (hl : r.length ≤ st'.rest.length) :
    ∃ t' v', st' = { rest := t' ++ r, calls := cl } ∧
      readString ctx { rest := t, calls := cl } = .ok v' { rest := t', calls := cl } ∧ shiftV r.length v' = v := by
  unfold readString at h ⊢
  simp only [Ctx.pos] at h ⊢
  cases hd : (ctx.cfg.exp && startsWith (t ++ r) [0x22, 0x22, 0x22, 0x0A]) with
  | true =>
    rw [hd] at h
    simp only [if_true] at h
    simp only [Bool.and_eq_true] at hd
    cases hb : readTextBlockBody ((t ++ r).drop 4) with
    | error e =>
      rw [hb] at h
      cases e <;> cases h
    | ok x =>
      obtain ⟨text, rest⟩ := x
      rw [hb] at h
      simp only [Res.ok.injEq] at h
      obtain ⟨hv, hst⟩ := h
      subst hst
      simp only [] at hl
      have hlen4 := startsWith_length hd.2
      have hrl := readTextBlockBody_ok_length _ _ _ hb
      simp only [List.length_drop, List.length_append, List.length_cons, List.length_nil] at hlen4 hrl
      have ht4 : 4 ≤ t.length := by omega
      rw [List.drop_append_of_le_length ht4] at hb
      obtain ⟨u', hu', hsmall⟩ := readTextBlockBody_cut _ _ _ _ hb hl
      have hsw : startsWith t [0x22, 0x22, 0x22, 0x0A] = true := startsWith_append_cut r ht4 hd.2
      rw [hd.1, hsw, hsmall]
      simp only [Bool.and_self, if_true]
      refine ⟨u', _, ?_, rfl, ?_⟩
      · rw [hu']
      · rw [shiftV_str, ← hv, hu']
        simp only [List.length_append]
  | false =>
    rw [hd] at h
    simp only [Bool.false_eq_true, if_false] at h
    have hd' : (ctx.cfg.exp && startsWith t [0x22, 0x22, 0x22, 0x0A]) = false := by
      cases hx : ctx.cfg.exp with
      | false => rfl
      | true =>
        rw [hx] at hd
        simp only [Bool.true_and] at hd ⊢
        exact startsWith_append_false r hd
    rw [hd']
    simp only [Bool.false_eq_true, if_false]
    cases hq : findQuote (t ++ r).tail with
    | none => rw [hq] at h; cases h
    | some x =>
      obtain ⟨q, esc⟩ := x
      rw [hq] at h
      simp only [Res.ok.injEq] at h
      obtain ⟨hv, hst⟩ := h
      subst hst
      simp only [] at hl
      have hql := findQuote_length _ _ _ hq
      have hqpos : 0 < q.length := List.length_pos_iff.mpr hql.2
      simp only [List.length_tail] at hl
      cases t with
      | nil =>
        have := hql.1
        simp only [List.nil_append, List.length_tail] at this
        omega
      | cons c t1 =>
        simp only [List.cons_append, List.tail_cons] at hq hv ⊢
        obtain ⟨q', hq', hsmall⟩ := findQuote_cut t1 r q esc hq (by omega)
        rw [hsmall]
        simp only []
        have hq'pos : 0 < q'.length := by
          rw [hq'] at hl hqpos
          simp only [List.length_append] at hl hqpos
          omega
        have htail : q.tail = q'.tail ++ r := by
          rw [hq']
          cases q' with
          | nil => simp at hq'pos
          | cons a q'' => rfl
        refine ⟨q'.tail, _, ?_, rfl, ?_⟩
        · rw [htail]
        · rw [shiftV_str, ← hv, htail, hq', slice_append_right]
          simp only [List.length_append, List.length_cons]
          congr 2
          omega

/-! ## symbolic values -/

theorem len_Inf : (strBytes "Inf").length = 3 := by decide +kernel
theorem len_mInf : (strBytes "-Inf").length = 4 := by decide +kernel
theorem len_NaN : (strBytes "NaN").length = 3 := by decide +kernel

/-- one alternative of `readSymbolic`: the keyword `kw` of length `k` after the two-byte `##` -/
theorem symbolic_alt (t r kw : Bytes) (k : Nat) (hk : kw.length = k) (hk0 : 0 < k)
    (hs : startsWith ((t ++ r).drop 2) kw = true) (hl : r.length ≤ (((t ++ r).drop 2).drop k).length) :
    startsWith (t.drop 2) kw = true ∧ ((t ++ r).drop 2).drop k = (t.drop 2).drop k ++ r := by
  have h1 := startsWith_length hs
  simp only [List.length_drop, List.length_append] at h1 hl
  have ht : 2 + k ≤ t.length := by omega
  rw [List.drop_append_of_le_length (by omega)] at hs ⊢
  refine ⟨startsWith_append_cut r (by simp only [List.length_drop]; omega) hs, ?_⟩
  rw [List.drop_append_of_le_length (by simp only [List.length_drop]; omega)]

theorem symbolic_neg (t r kw : Bytes) (hk0 : 0 < kw.length)
    (hs : startsWith ((t ++ r).drop 2) kw = false) : startsWith (t.drop 2) kw = false := by
  cases hx : startsWith (t.drop 2) kw with
  | false => rfl
  | true =>
    have hlen := startsWith_length hx
    simp only [List.length_drop] at hlen
    have := startsWith_append_mono r hx
    rw [← List.drop_append_of_le_length (by omega), hs] at this
    cases this

theorem readSymbolic_cut (ctx : Ctx) (t r : Bytes) (cl : List Call) (v : Val) (st' : St)
    (h : readSymbolic ctx { rest := t ++ r, calls := cl } = .ok v st') (hl : r.length ≤ st'.rest.length) :
    ∃ t' v', st' = { rest := t' ++ r, calls := cl } ∧
      readSymbolic ctx { rest := t, calls := cl } = .ok v' { rest := t', calls := cl } ∧ shiftV r.length v' = v := by
  unfold readSymbolic at h ⊢
  simp only [Ctx.pos] at h ⊢
  cases h1 : startsWith ((t ++ r).drop 2) (strBytes "Inf") with
  | true =>
    rw [h1] at h
    simp only [if_true, Res.ok.injEq] at h
    obtain ⟨hv, hst⟩ := h
    subst hst
    simp only [] at hl
    obtain ⟨hs, hr⟩ := symbolic_alt t r _ 3 len_Inf (by omega) h1 hl
    rw [hs]
    simp only [if_true]
    refine ⟨_, _, ?_, rfl, ?_⟩
    · rw [hr]
    · rw [shiftV_float, ← hv, hr]; simp only [List.length_append]
  | false =>
    rw [h1] at h
    simp only [Bool.false_eq_true, if_false] at h
    rw [symbolic_neg t r _ (by rw [len_Inf]; omega) h1]
    simp only [Bool.false_eq_true, if_false]
    cases h2 : startsWith ((t ++ r).drop 2) (strBytes "-Inf") with
    | true =>
      rw [h2] at h
      simp only [if_true, Res.ok.injEq] at h
      obtain ⟨hv, hst⟩ := h
      subst hst
      simp only [] at hl
      obtain ⟨hs, hr⟩ := symbolic_alt t r _ 4 len_mInf (by omega) h2 hl
      rw [hs]
      simp only [if_true]
      refine ⟨_, _, ?_, rfl, ?_⟩
      · rw [hr]
      · rw [shiftV_float, ← hv, hr]; simp only [List.length_append]
    | false =>
      rw [h2] at h
      simp only [Bool.false_eq_true, if_false] at h
      rw [symbolic_neg t r _ (by rw [len_mInf]; omega) h2]
      simp only [Bool.false_eq_true, if_false]
      cases h3 : startsWith ((t ++ r).drop 2) (strBytes "NaN") with
      | true =>
        rw [h3] at h
        simp only [if_true, Res.ok.injEq] at h
        obtain ⟨hv, hst⟩ := h
        subst hst
        simp only [] at hl
        obtain ⟨hs, hr⟩ := symbolic_alt t r _ 3 len_NaN (by omega) h3 hl
        rw [hs]
        simp only [if_true]
        refine ⟨_, _, ?_, rfl, ?_⟩
        · rw [hr]
        · rw [shiftV_float, ← hv, hr]; simp only [List.length_append]
      | false =>
        rw [h3] at h
        simp only [Bool.false_eq_true, if_false] at h
        cases h

end Edn.Proofs
