/-
  Edn.Proofs.ReReadAux2 — continuation independence ("cut") of the whitespace skipper, the
  string reader (ordinary literals and text blocks) and the symbolic-value reader: a run on
  `t ++ r` that leaves all of `r` unread is a run on `t` followed by `r`.
-/
import Edn.Proofs.ReReadAux0

namespace Edn.Proofs
open Edn.Model Edn.Spec

/-! ## list facts -/

theorem startsWith_length {s p : Bytes} (h : startsWith s p = true) : p.length ≤ s.length := by
  unfold startsWith at h
  exact (List.isPrefixOf_iff_prefix.mp h).length_le

theorem startsWith_append_mono {t p : Bytes} (r : Bytes) (h : startsWith t p = true) :
    startsWith (t ++ r) p = true := by
  unfold startsWith at h ⊢
  exact List.isPrefixOf_iff_prefix.mpr ((List.isPrefixOf_iff_prefix.mp h).trans (List.prefix_append t r))

theorem startsWith_append_cut {t p : Bytes} (r : Bytes) (hl : p.length ≤ t.length)
    (h : startsWith (t ++ r) p = true) : startsWith t p = true := by
  unfold startsWith at h ⊢
  exact List.isPrefixOf_iff_prefix.mpr
    (List.prefix_of_prefix_length_le (List.isPrefixOf_iff_prefix.mp h) (List.prefix_append t r) hl)

theorem startsWith_append_false {t p : Bytes} (r : Bytes) (h : startsWith (t ++ r) p = false) :
    startsWith t p = false := by
  cases hs : startsWith t p with
  | false => rfl
  | true => rw [startsWith_append_mono r hs] at h; cases h

theorem suffix_eq_of_length_le {a b : Bytes} (hs : a <:+ b) (hl : b.length ≤ a.length) : a = b := by
  obtain ⟨p, hp⟩ := hs
  have : (p ++ a).length = b.length := by rw [hp]
  simp only [List.length_append] at this
  have hp0 : p = [] := List.eq_nil_of_length_eq_zero (by omega)
  rw [hp0] at hp
  exact hp

theorem dropWhile_append_of_nil (p : UInt8 → Bool) (u r : Bytes) (h : u.dropWhile p = []) :
    (u ++ r).dropWhile p = r.dropWhile p := by
  induction u with
  | nil => rfl
  | cons c cs ih =>
    rw [List.dropWhile_cons] at h
    cases hp : p c with
    | true =>
      rw [hp] at h
      simp only [if_true] at h
      rw [List.cons_append, List.dropWhile_cons, hp]
      simp only [if_true]
      exact ih h
    | false => rw [hp] at h; simp at h

theorem dropWhile_append_of_ne_nil (p : UInt8 → Bool) (u r : Bytes) (h : u.dropWhile p ≠ []) :
    (u ++ r).dropWhile p = u.dropWhile p ++ r ∧ (u ++ r).takeWhile p = u.takeWhile p := by
  induction u with
  | nil => exact absurd rfl h
  | cons c cs ih =>
    rw [List.dropWhile_cons] at h
    rw [List.cons_append, List.dropWhile_cons, List.dropWhile_cons, List.takeWhile_cons, List.takeWhile_cons]
    cases hp : p c with
    | true =>
      rw [hp] at h
      simp only [if_true] at h ⊢
      have := ih h
      exact ⟨this.1, by rw [this.2]⟩
    | false => simp

/-! ## whitespace and comments -/

theorem skipWsScalarAux_nil (b : Bool) : skipWsScalarAux b [] = [] := by
  cases b <;> rfl

theorem skipWsScalarAux_true_cons (c : UInt8) (cs : Bytes) :
    skipWsScalarAux true (c :: cs) = if c == 0x0A then skipWsScalarAux false cs else skipWsScalarAux true cs := by
  rw [skipWsScalarAux]

theorem skipWsScalarAux_suffix' : ∀ (s : Bytes) (b : Bool), skipWsScalarAux b s <:+ s := by
  intro s
  induction s with
  | nil => intro b; rw [skipWsScalarAux_nil]; exact List.suffix_refl _
  | cons c cs ih =>
    intro b
    cases b with
    | true =>
      rw [skipWsScalarAux_true_cons]
      split
      · exact (ih false).trans (List.suffix_cons c cs)
      · exact (ih true).trans (List.suffix_cons c cs)
    | false =>
      rw [skipWsScalarAux_false_cons]
      split
      · exact (ih true).trans (List.suffix_cons c cs)
      · split
        · exact (ih false).trans (List.suffix_cons c cs)
        · exact List.suffix_refl _

theorem skipWsScalarAux_cut : ∀ (t : Bytes) (b : Bool) (r : Bytes),
    r.length ≤ (skipWsScalarAux b (t ++ r)).length →
    skipWsScalarAux b (t ++ r) = skipWsScalarAux b t ++ r := by
  intro t
  induction t with
  | nil =>
    intro b r h
    rw [skipWsScalarAux_nil]
    exact suffix_eq_of_length_le (skipWsScalarAux_suffix' r b) h
  | cons c cs ih =>
    intro b r h
    rw [List.cons_append] at h ⊢
    cases b with
    | true =>
      rw [skipWsScalarAux_true_cons] at h ⊢
      rw [skipWsScalarAux_true_cons]
      split
      · rename_i hc; rw [if_pos hc] at h; exact ih false r h
      · rename_i hc; rw [if_neg hc] at h; exact ih true r h
    | false =>
      rw [skipWsScalarAux_false_cons] at h ⊢
      rw [skipWsScalarAux_false_cons]
      split
      · rename_i hc; rw [if_pos hc] at h; exact ih true r h
      · rename_i hc
        rw [if_neg hc] at h
        split
        · rename_i hw; rw [if_pos hw] at h; exact ih false r h
        · rfl

theorem skipWsScalarAux_idem : ∀ (s : Bytes) (b : Bool),
    skipWsScalarAux false (skipWsScalarAux b s) = skipWsScalarAux b s := by
  intro s
  induction s with
  | nil => intro b; rw [skipWsScalarAux_nil]; rfl
  | cons c cs ih =>
    intro b
    cases b with
    | true =>
      rw [skipWsScalarAux_true_cons]
      split
      · exact ih false
      · exact ih true
    | false =>
      rw [skipWsScalarAux_false_cons]
      split
      · exact ih true
      · rename_i hc
        split
        · exact ih false
        · rename_i hw
          rw [skipWsScalarAux_false_cons, if_neg hc, if_neg hw]

/-- the whitespace/comment skipper: if what it leaves of `t ++ r` still contains all of `r`, it stopped inside `t` (or exactly at its end) -/
theorem skipWs_cut (t r : Bytes) (h : r.length ≤ (skipWs (t ++ r)).length) :
    skipWs (t ++ r) = skipWs t ++ r := by
  rw [skipWs_eq] at h ⊢
  rw [skipWs_eq]
  exact skipWsScalarAux_cut t false r h

/-- what `skipWs` returns is a suffix of its argument, and skipping again does nothing -/
theorem skipWs_suffix' (s : Bytes) : skipWs s <:+ s := by
  rw [skipWs_eq]; exact skipWsScalarAux_suffix' s false

theorem skipWs_idem (s : Bytes) : skipWs (skipWs s) = skipWs s := by
  rw [skipWs_eq, skipWs_eq]
  exact skipWsScalarAux_idem s false

end Edn.Proofs
