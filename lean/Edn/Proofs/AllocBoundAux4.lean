/-
  Edn.Proofs.AllocBoundAux4 — the hypotheses of the bound (`Hyp`: fault-free oracle, no registry,
  every string literal of the input decodes), the relation `RelV` the induction over the reader
  maintains (four units of potential per byte consumed, two to spare for every value), and the leaf
  readers: string, text block, character, identifier, symbolic value, number.
-/
import Edn.Proofs.AllocBoundAux3
import Edn.Proofs.RangesAux2

namespace Edn.Proofs.AllocBound
open Edn.Model Edn.Proofs Edn.Proofs.AllocBasic Edn.Proofs.AllocNumber

/-- every string literal that can be scanned from an opening quote of the input has escapes that
    decode (`findQuote` is the scanner of `edn_read_string`; its flag says "has escapes") -/
def StrOK (cfg : Cfg) (input : Bytes) : Prop :=
  ∀ r q, (0x22 :: r) <:+ input → findQuote r = some (q, true) →
    (decodeString cfg ((slice r q).length + 1) (slice r q)).isSome = true

/-- hypotheses of the bound -/
structure Hyp (x : ACtx) (input : Bytes) : Prop where
  orc : ∀ n, x.orc n = false
  reg : x.ctx.opts.registry = none
  str : StrOK x.ctx.cfg input

/-- what the induction maintains for a reader result: the parser's arena stays alive; a value is a
    good tree and cost at most `4 * bytes - 2` units of the potential; a closing delimiter cost at
    most `4 * bytes`; an error ends the read, whatever was spent stays within `4 * (bytes left) + 2` -/
def RelV (cfg : Cfg) (N : Nat) (st : St) (a : ASt) (r : Res × ASt) : Prop :=
  r.2.arena = .alive ∧
  match r.1 with
  | .ok v st' => Good cfg N v ∧
      r.2.reqs + Psi N r.2.bufs + 4 * st'.rest.length + 2 ≤ a.reqs + Psi N a.bufs + 4 * st.rest.length
  | .closer st' => r.2.reqs + Psi N r.2.bufs + 4 * st'.rest.length ≤ a.reqs + Psi N a.bufs + 4 * st.rest.length
  | .err _ _ => r.2.reqs + Psi N r.2.bufs ≤ a.reqs + Psi N a.bufs + 4 * st.rest.length + 2

theorem RelV.err_of_stp {cfg : Cfg} {N c : Nat} {st st' : St} {a a' : ASt} {e : ErrInfo} (h : Stp N c a a')
    (hc : c ≤ 4 * st.rest.length + 2) : RelV cfg N st a (.err e st', a') :=
  ⟨h.1, by have := h.2; simp only; omega⟩

/-- close an arithmetic goal that may still show a reducible `match` -/
macro "somega" : tactic => `(tactic| first | omega | (simp only; omega) | (dsimp only; omega))

/-! ## Leaves are good -/

def isStr : Val → Bool
  | .str .. => true
  | _ => false

theorem good_of_leaf {cfg : Cfg} {N : Nat} {v : Val} (hl : isLeaf v = true) (hs : v.hdr.s < N)
    (hstr : ∀ h d, v = .str h d true → (decodeString cfg (d.length + 1) d).isSome = true) : Good cfg N v := by
  cases v <;> simp only [isLeaf] at hl <;> simp only [Val.hdr] at hs
  case str h d e =>
    refine Good.str _ _ _ hs ?_
    intro he; subst he; exact hstr _ _ rfl
  case sym h md ns nm =>
    cases md with
    | none => exact Good.sym _ _ _ _ hs (fun _ h => by cases h)
    | some m => cases hl
  all_goals first
    | exact Bool.noConfusion hl
    | (constructor; exact hs)

theorem good_of_leaf' {cfg : Cfg} {N : Nat} {v : Val} (hl : isLeaf v = true) (hs : v.hdr.s < N)
    (hns : isStr v = false) : Good cfg N v :=
  good_of_leaf hl hs (fun h d hv => by subst hv; cases hns)

theorem readIdentifier_notStr (ctx : Ctx) (st st' : St) (v : Val) (h : readIdentifier ctx st = .ok v st') :
    isStr v = false := by
  unfold readIdentifier at h
  simp only [] at h
  repeat' split at h
  all_goals first
    | (cases h; rfl)
    | cases h

theorem readSymbolic_notStr (ctx : Ctx) (st st' : St) (v : Val) (h : readSymbolic ctx st = .ok v st') :
    isStr v = false := by
  unfold readSymbolic at h
  simp only [] at h
  repeat' split at h
  all_goals first
    | (cases h; rfl)
    | cases h

theorem readCharacter_notStr (ctx : Ctx) (st st' : St) (v : Val) (h : readCharacter ctx st = .ok v st') :
    isStr v = false := by
  unfold readCharacter at h
  simp only [] at h
  split at h
  · cases h
  · split at h
    · cases h
    · split at h
      · cases h
      · split at h
        · cases h
        · cases h; rfl

theorem numToVal_notStr (h : Hdr) (v : NumVal) : isStr (numToVal h v) = false := by
  cases v <;> rfl

theorem readNumberRes_notStr (ctx : Ctx) (st st' : St) (v : Val) (h : readNumberRes ctx st = .ok v st') :
    isStr v = false := by
  rw [readNumberRes_eq] at h
  unfold numRes numErrA at h
  split at h
  · cases h; exact numToVal_notStr _ _
  · cases h

theorem readNumberRes_notCloser (ctx : Ctx) (st st' : St) : readNumberRes ctx st ≠ .closer st' := by
  rw [readNumberRes_eq]
  unfold numRes numErrA
  split <;> intro h <;> cases h

/-! ## Leaf readers -/

section
variable {x : ACtx} {input : Bytes} (H : Hyp x input)
include H

/-- a value of a leaf reader: one request, at least one byte -/
theorem leaf_value_rel (st st' : St) (v : Val) (a : ASt) (ha : a.arena = .alive)
    (hlen : st'.rest.length < st.rest.length) (g : Good x.ctx.cfg (input.length + 1) v) (stE : St) :
    RelV x.ctx.cfg (input.length + 1) st a
      (let (ok, a1) := a.request x.orc .arena
       if ok then (.ok v st', a1) else (.err oomErr stE, a1)) := by
  have hr := request_ff (N := input.length + 1) H.orc .arena a 0 ha
  rcases hq : a.request x.orc .arena with ⟨ok, a1⟩
  rw [hq] at hr
  obtain ⟨hok, hst⟩ := hr
  dsimp only at hok hst ⊢
  subst hok
  simp only [↓reduceIte]
  refine ⟨hst.1, g, ?_⟩
  have := hst.2
  simp only
  omega

omit H in
theorem pass_rel (st : St) (a : ASt) (ha : a.arena = .alive) (r : Res) (hp : Progress st r)
    (hnok : ∀ v st', r ≠ .ok v st') : RelV x.ctx.cfg (input.length + 1) st a (r, a) := by
  refine ⟨ha, ?_⟩
  cases r with
  | ok v st' => exact absurd rfl (hnok v st')
  | closer st' => simp only [Progress] at hp ⊢; omega
  | err e st' => simp only; omega

theorem readCharacterA_rel (st : St) (a : ASt) (ha : a.arena = .alive) (hsuf : st.rest <:+ input)
    (hp : Progress st (readCharacter x.ctx st)) :
    RelV x.ctx.cfg (input.length + 1) st a (readCharacterA x st a) := by
  unfold readCharacterA
  have hl := readCharacter_leaf x.ctx st
  cases hrd : readCharacter x.ctx st with
  | ok v st' =>
    rw [hrd] at hl hp
    simp only [LeafPost] at hl
    simp only [Progress] at hp
    have hsl := hsuf.length_le
    exact leaf_value_rel H st st' v a ha hp
      (good_of_leaf' hl.1 (by rw [hl.2]; simp only [mkHdr]; omega) (readCharacter_notStr _ _ _ _ hrd)) st
  | closer st' => rw [hrd] at hp; exact pass_rel st a ha _ hp (fun _ _ h => by cases h)
  | err e st' => rw [hrd] at hp; exact pass_rel st a ha _ hp (fun _ _ h => by cases h)

theorem readIdentifierA_rel (st : St) (a : ASt) (ha : a.arena = .alive) (hsuf : st.rest <:+ input) :
    RelV x.ctx.cfg (input.length + 1) st a (readIdentifierA x st a) := by
  unfold readIdentifierA
  have hl := readIdentifier_leaf x.ctx st
  have hp := readIdentifier_progress x.ctx st
  cases hrd : readIdentifier x.ctx st with
  | ok v st' =>
    rw [hrd] at hl hp
    simp only [LeafPost] at hl
    simp only [Progress] at hp
    have hsl := hsuf.length_le
    exact leaf_value_rel H st st' v a ha hp
      (good_of_leaf' hl.1 (by rw [hl.2]; simp only [mkHdr]; omega) (readIdentifier_notStr _ _ _ _ hrd)) st'
  | closer st' => rw [hrd] at hp; exact pass_rel st a ha _ hp (fun _ _ h => by cases h)
  | err e st' => rw [hrd] at hp; exact pass_rel st a ha _ hp (fun _ _ h => by cases h)

theorem readSymbolicA_rel (st : St) (a : ASt) (ha : a.arena = .alive) (hsuf : st.rest <:+ input)
    (hp : Progress st (readSymbolic x.ctx st)) :
    RelV x.ctx.cfg (input.length + 1) st a (readSymbolicA x st a) := by
  unfold readSymbolicA
  have hl := readSymbolic_leaf x.ctx st
  cases hrd : readSymbolic x.ctx st with
  | ok v st' =>
    rw [hrd] at hl hp
    simp only [LeafPost] at hl
    simp only [Progress] at hp
    have hsl := hsuf.length_le
    exact leaf_value_rel H st st' v a ha hp
      (good_of_leaf' hl.1 (by rw [hl.2]; simp only [mkHdr]; omega) (readSymbolic_notStr _ _ _ _ hrd)) st
  | closer st' => rw [hrd] at hp; exact pass_rel st a ha _ hp (fun _ _ h => by cases h)
  | err e st' => rw [hrd] at hp; exact pass_rel st a ha _ hp (fun _ _ h => by cases h)

/-! ### numbers -/

theorem floatHeapA_stp (heap : Bool) (a : ASt) (ha : a.arena = .alive) :
    Stp (input.length + 1) 1 a (floatHeapA x heap a).2 := by
  unfold floatHeapA
  have h := (rawAlloc_ff (N := input.length + 1) H.orc .malloc a ha).2
  split
  · split
    · next i a' e => rw [e] at h; exact h.trans (free_stp i a' h.1)
    · next a' e => rw [e] at h; exact h
  · exact (Stp.refl ha).mono (Nat.zero_le _)

theorem numCreateA_stp (st : St) (a : ASt) (ha : a.arena = .alive) (v : NumVal) (p : Bytes) (validate : Bool) :
    Stp (input.length + 1) 2 a (numCreateA x st a v p validate).2 := by
  unfold numCreateA
  have h1 := (request_ff (N := input.length + 1) H.orc .arena a 0 ha).2
  have h2 := floatHeapA_stp H (numNeedsHeap x.ctx.cfg v (slice st.rest p)) (a.request x.orc .arena).2 h1.1
  simp only []
  repeat' split
  all_goals first | exact h1.mono (by omega) | exact h1.trans h2

theorem readNumberResA_rel (st : St) (a : ASt) (ha : a.arena = .alive) (hsuf : st.rest <:+ input)
    (hp : Progress st (readNumberRes x.ctx st)) :
    RelV x.ctx.cfg (input.length + 1) st a (readNumberResA x st a) := by
  have hstp : Stp (input.length + 1) 2 a (readNumberResA x st a).2 := by
    unfold readNumberResA
    apply readNumberK_pred (fun r : Res × ASt => Stp (input.length + 1) 2 a r.2)
    · intro v p validate; exact numCreateA_stp H st a ha v p validate
    · intro cur; exact (Stp.refl ha).mono (Nat.zero_le _)
  have hres := readNumberResA_granted x st a (request_ff (N := input.length + 1) H.orc .arena a 0 ha).1 (H.orc _)
  have hl := readNumberRes_leaf x.ctx st
  rcases hq : readNumberResA x st a with ⟨r, a'⟩
  rw [hq] at hstp hres
  dsimp only at hstp hres
  refine ⟨hstp.1, ?_⟩
  have hc := hstp.2
  have hsl := hsuf.length_le
  cases r with
  | ok v st' =>
    rw [← hres] at hl hp
    simp only [LeafPost] at hl
    simp only [Progress] at hp
    refine ⟨good_of_leaf' hl.1 (by rw [hl.2]; simp only [mkHdr]; omega) (readNumberRes_notStr _ _ _ _ hres.symm), ?_⟩
    simp only; omega
  | closer st' => exact absurd hres.symm (readNumberRes_notCloser _ _ _)
  | err e st' => simp only; omega

/-! ### strings and text blocks -/

omit H in
theorem tbContent_lt : ∀ (f : Nat) (acc : Bytes) (esc : Bool) (s : Bytes) (r : Bytes × Bool × Bool × Bytes),
    tbContent f acc esc s = some r → r.2.2.2.length < s.length := by
  intro f
  induction f with
  | zero => intro acc esc s r h; simp [tbContent] at h
  | succ f ih =>
    intro acc esc s r h
    cases s with
    | nil => simp [tbContent] at h
    | cons c cs =>
      rw [tbContent.eq_def] at h
      simp only [] at h
      split at h
      · have := ih _ _ _ _ h
        simp only [List.length_cons] at this ⊢; omega
      · cases h; simp only [List.length_cons]; omega
      · cases h; simp only [List.length_cons]; omega
      · have := ih _ _ _ _ h
        simp only [List.length_cons] at this ⊢; omega

omit H in
theorem tbLine_lt (s : Bytes) (ln : TbLine) (rest : Bytes) (h : tbLine s = some (ln, rest)) :
    rest.length < s.length := by
  unfold tbLine at h
  simp only [] at h
  have hd := dropWhile_length_le isBlank s
  split at h
  · cases h
  · rename_i content esc terminal rest' heq
    have := tbContent_lt _ _ _ _ _ heq
    simp only [Option.some.injEq, Prod.mk.injEq] at h
    rw [← h.2]
    simp only [] at this
    omega

/-- the line loop: two requests per line at most (the line record, the doubled pointer array),
    and every line has at least one byte -/
theorem tbLinesA_rel (start : Nat) (f : Nat) (s : Bytes) (acc : List TbLine) (buf : TbBuf) (a : ASt)
    (ha : a.arena = .alive) :
    (tbLinesA x start f s acc buf a).2.arena = .alive ∧
    match (tbLinesA x start f s acc buf a).1 with
    | .lines _ rest _ => rest.length ≤ s.length ∧
        (tbLinesA x start f s acc buf a).2.reqs + Psi (input.length + 1) (tbLinesA x start f s acc buf a).2.bufs
          + 2 * rest.length ≤ a.reqs + Psi (input.length + 1) a.bufs + 2 * s.length
    | .fail _ _ =>
        (tbLinesA x start f s acc buf a).2.reqs + Psi (input.length + 1) (tbLinesA x start f s acc buf a).2.bufs
          ≤ a.reqs + Psi (input.length + 1) a.bufs + 2 * s.length := by
  induction f generalizing s acc buf a with
  | zero =>
    unfold tbLinesA
    have h := release_stp (N := input.length + 1) buf a ha
    exact ⟨h.1, by have := h.2; somega⟩
  | succ f ih =>
    unfold tbLinesA
    split
    · have h := release_stp (N := input.length + 1) buf a ha
      exact ⟨h.1, by have := h.2; somega⟩
    · next hs =>
      have hne : s.length ≠ 0 := by
        intro h0
        exact hs (by rw [List.isEmpty_iff]; exact List.eq_nil_of_length_eq_zero h0)
      -- the pointer array
      have hg : Stp (input.length + 1) 1 a (buf.grow x acc.length a).2 := by
        unfold TbBuf.grow
        split
        · have h := (realloc_ff (N := input.length + 1) H.orc buf.arr a ha).2
          rcases hq : a.realloc x.orc buf.arr with ⟨o, a1⟩
          rw [hq] at h
          cases o <;> exact h
        · exact (Stp.refl ha).mono (Nat.zero_le _)
      rcases hgq : buf.grow x acc.length a with ⟨ob, a1⟩
      rw [hgq] at hg
      dsimp only at hg
      cases ob with
      | none =>
        dsimp only
        have h := hg.trans (release_stp (N := input.length + 1) buf a1 hg.1)
        exact ⟨h.1, by have := h.2; somega⟩
      | some buf1 =>
        dsimp only
        split
        · have h := hg.trans (release_stp (N := input.length + 1) buf1 a1 hg.1)
          exact ⟨h.1, by have := h.2; somega⟩
        · next ln rest hln =>
          have hlt := tbLine_lt s ln rest hln
          have h2 := (rawAlloc_ff (N := input.length + 1) H.orc .malloc a1 hg.1).2
          rcases hq : a1.rawAlloc x.orc .malloc with ⟨o, a2⟩
          rw [hq] at h2
          dsimp only at h2
          have h12 := hg.trans h2
          cases o with
          | none =>
            dsimp only
            have h := h12.trans (release_stp (N := input.length + 1) buf1 a2 h2.1)
            exact ⟨h.1, by have := h.2; somega⟩
          | some i =>
            dsimp only
            split
            · exact ⟨h12.1, by have := h12.2; somega⟩
            · have h3 := ih rest (ln :: acc) { buf1 with ids := i :: buf1.ids } a2 h2.1
              refine ⟨h3.1, ?_⟩
              have hc := h12.2
              have h3' := h3.2
              revert h3'
              cases (tbLinesA x start f rest (ln :: acc) { buf1 with ids := i :: buf1.ids } a2).1 with
              | lines ls rest' buf' => intro h3'; first | omega | (simp only at h3' ⊢; omega)
              | fail e rest' => intro h3'; first | omega | (simp only at h3' ⊢; omega)

theorem readTextBlockA_rel (st : St) (a : ASt) (ha : a.arena = .alive) (hsuf : st.rest <:+ input)
    (h4 : 4 ≤ st.rest.length) :
    RelV x.ctx.cfg (input.length + 1) st a (readTextBlockA x st a) := by
  unfold readTextBlockA
  dsimp only
  have h0 := (rawAlloc_ff (N := input.length + 1) H.orc .malloc a ha).2
  rcases hq0 : a.rawAlloc x.orc .malloc with ⟨o, a1⟩
  rw [hq0] at h0
  dsimp only at h0
  have hsl := hsuf.length_le
  cases o with
  | none => exact RelV.err_of_stp h0 (by omega)
  | some arr =>
    dsimp only
    have h1 := tbLinesA_rel H (x.ctx.pos st.rest) ((st.rest.drop 4).length + 2) (st.rest.drop 4) [] { arr := arr } a1 h0.1
    rcases hq1 : tbLinesA x (x.ctx.pos st.rest) ((st.rest.drop 4).length + 2) (st.rest.drop 4) [] { arr := arr } a1 with ⟨out, a2⟩
    rw [hq1] at h1
    have hdl : (st.rest.drop 4).length = st.rest.length - 4 := List.length_drop ..
    have hc0 := h0.2
    cases out with
    | fail e rest =>
      dsimp only at h1 ⊢
      exact ⟨h1.1, by have := h1.2; simp only; omega⟩
    | lines ls rest buf =>
      dsimp only at h1 ⊢
      obtain ⟨ha2, hrl, hc1⟩ := h1
      have h2 := (request_ff (N := input.length + 1) H.orc .arena a2 0 ha2)
      rcases hq2 : a2.request x.orc .arena with ⟨okT, a3⟩
      rw [hq2] at h2
      obtain ⟨hokT, hst2⟩ := h2
      dsimp only at hokT hst2 ⊢
      subst hokT
      simp only [Bool.not_true, Bool.false_eq_true, ↓reduceIte]
      have h3 := release_stp (N := input.length + 1) buf a3 hst2.1
      have h4' := (request_ff (N := input.length + 1) H.orc .arena (buf.release a3) 0 h3.1)
      rcases hq4 : (buf.release a3).request x.orc .arena with ⟨okV, a5⟩
      rw [hq4] at h4'
      obtain ⟨hokV, hst4⟩ := h4'
      dsimp only at hokV hst4 ⊢
      subst hokV
      simp only [Bool.not_true, Bool.false_eq_true, ↓reduceIte]
      refine ⟨hst4.1, Good.str _ _ _ (by simp only [mkHdr, Ctx.pos]; omega) (fun h => by cases h), ?_⟩
      have hc2 := hst2.2
      have hc3 := h3.2
      have hc4 := hst4.2
      have hps := Psi_cons_le (input.length + 1) (x.ctx.pos st.rest) a5.bufs
      simp only at hc2 hc3 hc4 hps ⊢
      omega

omit H in
theorem startsWith4_length (s : Bytes) (a b c d : UInt8) (h : startsWith s [a, b, c, d] = true) : 4 ≤ s.length := by
  unfold startsWith at h
  have := (List.isPrefixOf_iff_prefix.mp h).length_le
  simpa using this

theorem readStringA_rel (st : St) (a : ASt) (ha : a.arena = .alive) (hsuf : st.rest <:+ input)
    (r : Bytes) (hr : st.rest = 0x22 :: r) :
    RelV x.ctx.cfg (input.length + 1) st a (readStringA x st a) := by
  unfold readStringA
  split
  · next hc =>
    simp only [Bool.and_eq_true] at hc
    exact readTextBlockA_rel H st a ha hsuf (startsWith4_length _ _ _ _ _ hc.2)
  · next hc =>
    have hp := readString_progress x.ctx st (by rw [hr]; exact List.cons_ne_nil _ _)
    cases hrd : readString x.ctx st with
    | ok v st' =>
      rw [hrd] at hp
      simp only [Progress] at hp
      have hsl := hsuf.length_le
      have g : Good x.ctx.cfg (input.length + 1) v := by
        unfold readString at hrd
        simp only [hc, Bool.false_eq_true, ↓reduceIte] at hrd
        split at hrd
        · cases hrd
        · next q esc hq =>
          cases hrd
          refine Good.str _ _ _ (by simp only [mkHdr, Ctx.pos]; omega) ?_
          intro he
          subst he
          have hq' : findQuote r = some (q, true) := by rw [hr] at hq; exact hq
          have := H.str r q (hr ▸ hsuf) hq'
          rw [hr]
          exact this
      exact leaf_value_rel H st st' v a ha hp g st
    | closer st' => rw [hrd] at hp; exact pass_rel st a ha _ hp (fun _ _ h => by cases h)
    | err e st' => rw [hrd] at hp; exact pass_rel st a ha _ hp (fun _ _ h => by cases h)

end

end Edn.Proofs.AllocBound
