/-
  Edn.Proofs.RangesAux1 — value-algebra lemmas for the range proofs: unfolding of
  `RangeOK`, span keys (the part of a header the range conditions look at), `interleave`,
  `hasDuplicates` only touches the hash cache, `qualifyKey`, `metaEntries`, `attachMeta`.
-/
import Edn.Spec.Ranges
import Edn.Proofs.Fuel

namespace Edn.Proofs
open Edn.Model Edn.Spec

/-! ## RangeOK unfolding -/

theorem rangeOKL_iff (xs : List Val) : RangeOKL xs ↔ ∀ x ∈ xs, RangeOK x := by
  induction xs with
  | nil => simp [RangeOKL]
  | cons a t ih => simp [RangeOKL, ih]

theorem rangeOKO_none (h : Hdr) : RangeOKO h none := by simp [RangeOKO]

theorem encloses_mono {p p' c : Hdr} (hsy : p'.synth = p.synth) (hs : p.s ≤ p'.s) (he : p'.e ≤ p.e)
    (h : encloses p c) : encloses p' c := by
  unfold encloses at h ⊢
  rcases h with h | h | ⟨h1, h2⟩
  · exact Or.inl (hsy.trans h)
  · exact Or.inr (Or.inl h)
  · exact Or.inr (Or.inr ⟨by omega, by omega⟩)

theorem rangeOKO_mono {p p' : Hdr} {md : Option Val} (hsy : p'.synth = p.synth) (hs : p.s ≤ p'.s) (he : p'.e ≤ p.e)
    (h : RangeOKO p md) : RangeOKO p' md := by
  cases md with
  | none => exact rangeOKO_none _
  | some m =>
    simp only [RangeOKO] at h ⊢
    exact ⟨encloses_mono hsy hs he h.1, h.2⟩

theorem rangeOK_setHdr (x : Val) (h' : Hdr) (hsy : h'.synth = x.hdr.synth) (hs : x.hdr.s ≤ h'.s)
    (he : h'.e = x.hdr.e) (h : RangeOK x) : RangeOK (x.setHdr h') := by
  have hm : ∀ c, encloses x.hdr c → encloses h' c := fun c => encloses_mono hsy hs (by omega)
  have ho : ∀ md, RangeOKO x.hdr md → RangeOKO h' md := fun md => rangeOKO_mono hsy hs (by omega)
  have h0 : (x.hdr.synth = true ∨ x.hdr.e < x.hdr.s) → (h'.synth = true ∨ h'.e < h'.s) := by
    rw [hsy, he]; intro h; rcases h with h | h
    · exact Or.inl h
    · exact Or.inr (by omega)
  cases x <;> simp only [Val.setHdr, RangeOK] at h ⊢
  case sym => exact ⟨h0 h.1, ho _ h.2⟩
  case list => exact ⟨h0 h.1, fun x hx => hm _ (h.2.1 x hx), h.2.2.1, h.2.2.2.1, ho _ h.2.2.2.2⟩
  case vec => exact ⟨h0 h.1, fun x hx => hm _ (h.2.1 x hx), h.2.2.1, h.2.2.2.1, ho _ h.2.2.2.2⟩
  case set => exact ⟨h0 h.1, fun x hx => hm _ (h.2.1 x hx), h.2.2.1, h.2.2.2.1, ho _ h.2.2.2.2⟩
  case map =>
    exact ⟨h0 h.1, fun x hx => hm _ (h.2.1 x hx), fun x hx => hm _ (h.2.2.1 x hx), h.2.2.2.1, h.2.2.2.2.1,
      h.2.2.2.2.2.1, ho _ h.2.2.2.2.2.2⟩
  case tagged => exact ⟨h0 h.1, hm _ h.2.1, h.2.2.1, ho _ h.2.2.2⟩
  all_goals exact h0 h

theorem hdr_setHdr (x : Val) (h : Hdr) : (x.setHdr h).hdr = h := by cases x <;> rfl
theorem md_setHdr (x : Val) (h : Hdr) : (x.setHdr h).md = x.md := by cases x <;> rfl
theorem hdr_setMd (x : Val) (m : Option Val) : (x.setMd m).hdr = x.hdr := by cases x <;> rfl
theorem md_setMd (x : Val) (m : Option Val) (ht : x.metaTarget = true) : (x.setMd m).md = m := by
  cases x <;> first | rfl | cases ht

/-- replacing the metadata of a metadata target -/
theorem rangeOK_setMd (x : Val) (m : Option Val) (h : RangeOK x) (hm : RangeOKO x.hdr m) : RangeOK (x.setMd m) := by
  cases x <;> simp only [Val.setMd, RangeOK] at h ⊢
  case sym => exact ⟨h.1, hm⟩
  case list => exact ⟨h.1, h.2.1, h.2.2.1, h.2.2.2.1, hm⟩
  case vec => exact ⟨h.1, h.2.1, h.2.2.1, h.2.2.2.1, hm⟩
  case set => exact ⟨h.1, h.2.1, h.2.2.1, h.2.2.2.1, hm⟩
  case map => exact ⟨h.1, h.2.1, h.2.2.1, h.2.2.2.1, h.2.2.2.2.1, h.2.2.2.2.2.1, hm⟩
  case tagged => exact ⟨h.1, h.2.1, h.2.2.1, hm⟩
  all_goals exact h

/-- the metadata of a well-ranged value is well ranged -/
theorem rangeOK_md (x : Val) (h : RangeOK x) : RangeOKO x.hdr x.md := by
  cases x <;> simp only [RangeOK] at h <;> simp only [Val.md, Val.hdr]
  case sym => exact h.2
  case list => exact h.2.2.2.2
  case vec => exact h.2.2.2.2
  case set => exact h.2.2.2.2
  case map => exact h.2.2.2.2.2.2
  case tagged => exact h.2.2.2
  all_goals exact rangeOKO_none _

/-! ## span keys -/

/-- the part of a header the range conditions depend on -/
def skv (v : Val) : Nat × Nat × Bool := (v.hdr.s, v.hdr.e, v.hdr.synth)

def beforeK (a b : Nat × Nat × Bool) : Prop := a.2.2 = true ∨ b.2.2 = true ∨ b.1 ≤ a.2.1
def enclosesK (p : Hdr) (c : Nat × Nat × Bool) : Prop := p.synth = true ∨ c.2.2 = true ∨ (c.1 ≤ p.s ∧ p.e ≤ c.2.1)

theorem pairwise_before_iff (l : List Val) : l.Pairwise before ↔ (l.map skv).Pairwise beforeK := by
  rw [List.pairwise_map]; rfl

theorem encloses_all_iff (p : Hdr) (l : List Val) :
    (∀ x ∈ l, encloses p x.hdr) ↔ ∀ t ∈ l.map skv, enclosesK p t := by
  rw [List.forall_mem_map]; rfl

/-- generic interleaving -/
def ileave {α : Type} : List α → List α → List α
  | k :: ks, v :: vs => k :: v :: ileave ks vs
  | _, _ => []

theorem interleave_map (ks vs : List Val) : (interleave ks vs).map skv = ileave (ks.map skv) (vs.map skv) := by
  induction ks generalizing vs with
  | nil => simp [interleave, ileave]
  | cons k ks ih =>
    cases vs with
    | nil => simp [interleave, ileave]
    | cons v vs => simp [interleave, ileave, ih]

theorem mem_interleave {ks vs : List Val} {x : Val} (h : x ∈ interleave ks vs) : x ∈ ks ∨ x ∈ vs := by
  induction ks generalizing vs with
  | nil => simp [interleave] at h
  | cons k ks ih =>
    cases vs with
    | nil => simp [interleave] at h
    | cons v vs =>
      simp only [interleave, List.mem_cons] at h ⊢
      rcases h with h | h | h
      · exact Or.inl (Or.inl h)
      · exact Or.inr (Or.inl h)
      · rcases ih h with h | h
        · exact Or.inl (Or.inr h)
        · exact Or.inr (Or.inr h)

theorem interleave_append (a b c d : List Val) (h : a.length = c.length) :
    interleave (a ++ b) (c ++ d) = interleave a c ++ interleave b d := by
  induction a generalizing c with
  | nil =>
    cases c with
    | nil => simp [interleave]
    | cons x c => simp at h
  | cons k a ih =>
    cases c with
    | nil => simp at h
    | cons x c =>
      simp only [List.length_cons, Nat.add_right_cancel_iff] at h
      simp [interleave, ih c h]

theorem interleave_reverse (ks vs : List Val) (h : ks.length = vs.length) :
    interleave ks.reverse vs.reverse = (interleave vs ks).reverse := by
  induction ks generalizing vs with
  | nil =>
    cases vs with
    | nil => simp [interleave]
    | cons x c => simp at h
  | cons k ks ih =>
    cases vs with
    | nil => simp at h
    | cons v vs =>
      simp only [List.length_cons, Nat.add_right_cancel_iff] at h
      simp only [List.reverse_cons]
      rw [interleave_append _ _ _ _ (by simp [h]), ih vs h]
      simp [interleave]

/-! ## hashing only touches the cache -/

theorem hashOp_skv (cfg : Cfg) (x : Val) : skv (hashOp cfg x).2 = skv x := by
  unfold hashOp
  simp only []
  split
  · rfl
  · simp only [skv, hdr_setHdr]

theorem hashOp_rangeOK (cfg : Cfg) (x : Val) (h : RangeOK x) : RangeOK (hashOp cfg x).2 := by
  unfold hashOp
  simp only []
  split
  · exact h
  · exact rangeOK_setHdr x _ rfl (Nat.le_refl _) rfl h

theorem hasDuplicates_skv (cfg : Cfg) (xs : List Val) : (hasDuplicates cfg xs).2.map skv = xs.map skv := by
  unfold hasDuplicates
  split
  · rfl
  · split
    · rfl
    · simp only [List.map_map]
      apply List.map_congr_left
      intro x _
      exact hashOp_skv cfg x

theorem hasDuplicates_rangeOK (cfg : Cfg) (xs : List Val) (h : RangeOKL xs) : RangeOKL (hasDuplicates cfg xs).2 := by
  unfold hasDuplicates
  split
  · exact h
  · split
    · exact h
    · rw [rangeOKL_iff] at h ⊢
      intro y hy
      simp only [List.mem_map] at hy
      obtain ⟨x, hx, rfl⟩ := hy
      exact hashOp_rangeOK cfg x (h x hx)

theorem hasDuplicates_length (cfg : Cfg) (xs : List Val) : (hasDuplicates cfg xs).2.length = xs.length := by
  have := congrArg List.length (hasDuplicates_skv cfg xs)
  simpa using this

/-! ## namespaced-map keys -/

theorem qualifyKey_ok (n : Bytes) (k : Val) (h : RangeOK k) :
    RangeOK (qualifyKey n k) ∧ ((qualifyKey n k).hdr.synth = true ∨ skv (qualifyKey n k) = skv k) := by
  unfold qualifyKey
  split
  · split
    · exact ⟨by simp [RangeOK, Val.hdr, synthHdr], Or.inl rfl⟩
    · split
      · exact ⟨by simp [RangeOK, Val.hdr, synthHdr], Or.inl rfl⟩
      · exact ⟨h, Or.inr rfl⟩
  · split
    · exact ⟨by simp [RangeOK, synthHdr, RangeOKO], Or.inl rfl⟩
    · split
      · exact ⟨by simp [RangeOK, synthHdr, RangeOKO], Or.inl rfl⟩
      · exact ⟨h, Or.inr rfl⟩
  · exact ⟨h, Or.inr rfl⟩

/-! ## metadata merging -/

theorem keepOld_sublist (cfg : Cfg) (nk : List Val) (ks vs : List Val) :
    (keepOld cfg nk ks vs).1.Sublist ks ∧ (keepOld cfg nk ks vs).2.Sublist vs ∧
    (interleave (keepOld cfg nk ks vs).1 (keepOld cfg nk ks vs).2).Sublist (interleave ks vs) := by
  induction ks generalizing vs with
  | nil => simp [keepOld, interleave]
  | cons k ks ih =>
    cases vs with
    | nil => simp [keepOld, interleave]
    | cons v vs =>
      obtain ⟨h1, h2, h3⟩ := ih vs
      simp only [keepOld]
      split
      · exact ⟨h1.cons _, h2.cons _, by simp only [interleave]; exact (h3.cons _).cons _⟩
      · exact ⟨h1.cons_cons _, h2.cons_cons _, by simp only [interleave]; exact (h3.cons_cons _).cons_cons _⟩

theorem rangeOKL_append (a b : List Val) : RangeOKL (a ++ b) ↔ RangeOKL a ∧ RangeOKL b := by
  simp only [rangeOKL_iff, List.mem_append]
  constructor
  · intro h; exact ⟨fun x hx => h x (Or.inl hx), fun x hx => h x (Or.inr hx)⟩
  · intro h x hx; rcases hx with hx | hx
    · exact h.1 x hx
    · exact h.2 x hx

/-! ## what the reader guarantees about a value it returns -/

/-- key and value lists of a map read from the text have the same length -/
def MapLen : Val → Prop
  | .map _ _ ks vs => ks.length = vs.length
  | _ => True

/-- the metadata attached to a value is a synthesised map whose entries start inside the
    value's (extended) range -/
def MdTop (v : Val) : Prop :=
  ∀ mh mmd ks vs, v.md = some (.map mh mmd ks vs) →
    mh.synth = true ∧ ∀ x, x ∈ ks ∨ x ∈ vs → x.hdr.synth = true ∨ x.hdr.s ≤ v.hdr.s

structure OkPost (n : Nat) (v : Val) (st' : St) : Prop where
  rok : RangeOK v
  nsyn : v.hdr.synth = false
  he : v.hdr.e = st'.rest.length
  hlt : st'.rest.length < v.hdr.s
  hs : v.hdr.s ≤ n
  mlen : MapLen v
  mdtop : MdTop v

theorem OkPost.mono {n m : Nat} {v : Val} {st' : St} (h : OkPost n v st') (hnm : n ≤ m) : OkPost m v st' :=
  { h with hs := Nat.le_trans h.hs hnm }

theorem mdTop_of_none {v : Val} (h : v.md = none) : MdTop v := by
  intro mh mmd ks vs hm; rw [h] at hm; cases hm

/-- entries of an annotation: well ranged, in reading order, between `lo` and `hi` -/
structure EntriesOK (lo hi : Nat) (nks nvs : List Val) : Prop where
  len : nks.length = nvs.length
  okk : RangeOKL nks
  okv : RangeOKL nvs
  pw : (interleave nks nvs).Pairwise before
  bnd : ∀ x, x ∈ nks ∨ x ∈ nvs → x.hdr.synth = true ∨ (x.hdr.s ≤ hi ∧ lo ≤ x.hdr.e)

theorem metaEntries_ok {n : Nat} {m : Val} {st' : St} {nks nvs : List Val} (h : OkPost n m st')
    (he : metaEntries m = some (nks, nvs)) : EntriesOK st'.rest.length n nks nvs := by
  have hself : m.hdr.synth = true ∨ (m.hdr.s ≤ n ∧ st'.rest.length ≤ m.hdr.e) :=
    Or.inr ⟨h.hs, by rw [h.he]; exact Nat.le_refl _⟩
  have hsynth : RangeOK (.bool synthHdr true) ∧ ∀ nm, RangeOK (.kw synthHdr none nm) := by
    constructor
    · simp [RangeOK, Val.hdr, synthHdr]
    · intro nm; simp [RangeOK, Val.hdr, synthHdr]
  have one_left : ∀ y : Val, RangeOK y → y.hdr.synth = true → EntriesOK st'.rest.length n [m] [y] := by
    intro y hy hys
    refine ⟨rfl, ⟨h.rok, trivial⟩, ⟨hy, trivial⟩, ?_, ?_⟩
    · simp only [interleave, List.pairwise_cons, List.mem_cons, List.not_mem_nil, or_false, forall_eq,
        false_imp_iff, implies_true, List.Pairwise.nil, and_true]
      exact Or.inr (Or.inl hys)
    · intro x hx
      simp only [List.mem_cons, List.not_mem_nil, or_false] at hx
      rcases hx with rfl | rfl
      · exact hself
      · exact Or.inl hys
  have one_right : ∀ y : Val, RangeOK y → y.hdr.synth = true → EntriesOK st'.rest.length n [y] [m] := by
    intro y hy hys
    refine ⟨rfl, ⟨hy, trivial⟩, ⟨h.rok, trivial⟩, ?_, ?_⟩
    · simp only [interleave, List.pairwise_cons, List.mem_cons, List.not_mem_nil, or_false, forall_eq,
        false_imp_iff, implies_true, List.Pairwise.nil, and_true]
      exact Or.inl hys
    · intro x hx
      simp only [List.mem_cons, List.not_mem_nil, or_false] at hx
      rcases hx with rfl | rfl
      · exact Or.inl hys
      · exact hself
  cases m <;> simp only [metaEntries] at he <;> try (cases he)
  case map mh mmd =>
    have hr := h.rok
    simp only [RangeOK] at hr
    have hns : mh.synth = false := h.nsyn
    refine ⟨h.mlen, hr.2.2.2.2.1, hr.2.2.2.2.2.1, hr.2.2.2.1, ?_⟩
    intro x hx
    have henc : encloses mh x.hdr := by
      rcases hx with hx | hx
      · exact hr.2.1 x hx
      · exact hr.2.2.1 x hx
    rcases henc with h1 | h1 | ⟨h1, h2⟩
    · rw [hns] at h1; cases h1
    · exact Or.inl h1
    · have h3 : mh.s ≤ n := h.hs
      have h4 : mh.e = st'.rest.length := h.he
      exact Or.inr ⟨by omega, by omega⟩
  case kw => exact one_left _ hsynth.1 rfl
  case vec => exact one_right _ (hsynth.2 _) rfl
  case str => exact one_right _ (hsynth.2 _) rfl
  case sym => exact one_right _ (hsynth.2 _) rfl

/-- the metadata map `attachMeta` installs -/
def newMd (cfg : Cfg) (form : Val) (nks nvs : List Val) : Val :=
  match form.md with
  | some (.map h md ks vs) => .map h md (nks ++ (keepOld cfg nks ks vs).1) (nvs ++ (keepOld cfg nks ks vs).2)
  | _ => .map synthHdr none nks nvs

theorem attachMeta_eq (cfg : Cfg) (m form : Val) (nks nvs : List Val) :
    attachMeta cfg m form nks nvs = form.setMd (some (newMd cfg form nks nvs)) := by
  unfold attachMeta newMd
  cases form.md with
  | none => rfl
  | some x => cases x <;> rfl

theorem newMd_ok (cfg : Cfg) {lo hi : Nat} {form : Val} {st'' : St} {nks nvs : List Val}
    (hf : OkPost lo form st'') (he : EntriesOK lo hi nks nvs) (hlo : lo ≤ hi) :
    ∃ mh mmd K V, newMd cfg form nks nvs = .map mh mmd K V ∧ mh.synth = true ∧ RangeOK (.map mh mmd K V) ∧
      ∀ x, x ∈ K ∨ x ∈ V → x.hdr.synth = true ∨ x.hdr.s ≤ hi := by
  have hbn : ∀ x, x ∈ nks ∨ x ∈ nvs → x.hdr.synth = true ∨ x.hdr.s ≤ hi := by
    intro x hx
    rcases he.bnd x hx with h | h
    · exact Or.inl h
    · exact Or.inr h.1
  unfold newMd
  split
  · rename_i mh mmd ks vs hmd
    obtain ⟨hsy, hb⟩ := hf.mdtop mh mmd ks vs hmd
    have hro := rangeOK_md form hf.rok
    rw [hmd] at hro
    simp only [RangeOKO, RangeOK] at hro
    obtain ⟨_, _, _, _, hpw, hokk, hokv, hoo⟩ := hro
    obtain ⟨s1, s2, s3⟩ := keepOld_sublist cfg nks ks vs
    have hbo : ∀ x, x ∈ (keepOld cfg nks ks vs).1 ∨ x ∈ (keepOld cfg nks ks vs).2 →
        x.hdr.synth = true ∨ x.hdr.s ≤ lo := by
      intro x hx
      have : x ∈ ks ∨ x ∈ vs := by
        rcases hx with hx | hx
        · exact Or.inl (s1.subset hx)
        · exact Or.inr (s2.subset hx)
      rcases hb x this with h | h
      · exact Or.inl h
      · exact Or.inr (Nat.le_trans h hf.hs)
    refine ⟨mh, mmd, _, _, rfl, hsy, ?_, ?_⟩
    · simp only [RangeOK]
      refine ⟨Or.inl hsy, fun x _ => Or.inl hsy, fun x _ => Or.inl hsy, ?_, ?_, ?_, hoo⟩
      · rw [interleave_append _ _ _ _ he.len, List.pairwise_append]
        refine ⟨he.pw, hpw.sublist s3, ?_⟩
        intro a ha b hb'
        have ha' := he.bnd a (mem_interleave ha)
        have hb'' := hbo b (mem_interleave hb')
        rcases ha' with ha' | ha'
        · exact Or.inl ha'
        · rcases hb'' with hb'' | hb''
          · exact Or.inr (Or.inl hb'')
          · exact Or.inr (Or.inr (by omega))
      · rw [rangeOKL_append]
        refine ⟨he.okk, ?_⟩
        rw [rangeOKL_iff] at hokk ⊢
        exact fun x hx => hokk x (s1.subset hx)
      · rw [rangeOKL_append]
        refine ⟨he.okv, ?_⟩
        rw [rangeOKL_iff] at hokv ⊢
        exact fun x hx => hokv x (s2.subset hx)
    · intro x hx
      simp only [List.mem_append] at hx
      have : (x ∈ nks ∨ x ∈ nvs) ∨ (x ∈ (keepOld cfg nks ks vs).1 ∨ x ∈ (keepOld cfg nks ks vs).2) := by
        rcases hx with (hx | hx) | (hx | hx)
        · exact Or.inl (Or.inl hx)
        · exact Or.inr (Or.inl hx)
        · exact Or.inl (Or.inr hx)
        · exact Or.inr (Or.inr hx)
      rcases this with h | h
      · exact hbn x h
      · rcases hbo x h with h | h
        · exact Or.inl h
        · exact Or.inr (by omega)
  · refine ⟨synthHdr, none, nks, nvs, rfl, rfl, ?_, hbn⟩
    simp only [RangeOK]
    exact ⟨Or.inl rfl, fun x _ => Or.inl rfl, fun x _ => Or.inl rfl, he.pw, he.okk, he.okv, rangeOKO_none _⟩

theorem mapLen_setHdr (x : Val) (h : Hdr) (hx : MapLen x) : MapLen (x.setHdr h) := by
  cases x <;> exact hx
theorem mapLen_setMd (x : Val) (m : Option Val) (hx : MapLen x) : MapLen (x.setMd m) := by
  cases x <;> exact hx

/-- the value `readMeta` returns -/
theorem attachMeta_ok (cfg : Cfg) {lo hi start : Nat} {m form : Val} {st'' : St} {nks nvs : List Val}
    (hf : OkPost lo form st'') (he : EntriesOK lo hi nks nvs) (hlo : lo ≤ hi) (hhi : hi ≤ start)
    (ht : form.metaTarget = true) :
    OkPost start ((attachMeta cfg m form nks nvs).setHdr { (attachMeta cfg m form nks nvs).hdr with s := start }) st'' := by
  obtain ⟨mh, mmd, K, V, hnew, hsy, hrok, hb⟩ := newMd_ok cfg hf he hlo
  rw [attachMeta_eq, hnew]
  have hfs := hf.hs
  have h1 : RangeOK (form.setMd (some (.map mh mmd K V))) := by
    apply rangeOK_setMd _ _ hf.rok
    simp only [RangeOKO]
    exact ⟨Or.inr (Or.inl hsy), hrok⟩
  refine ⟨?_, ?_, ?_, ?_, ?_, ?_, ?_⟩
  · refine rangeOK_setHdr (form.setMd (some (.map mh mmd K V)))
      { (form.setMd (some (.map mh mmd K V))).hdr with s := start } rfl ?_ rfl h1
    simp only [hdr_setMd]; omega
  · simp only [hdr_setHdr, hdr_setMd]; exact hf.nsyn
  · simp only [hdr_setHdr, hdr_setMd]; exact hf.he
  · simp only [hdr_setHdr]
    have := hf.hlt; omega
  · simp only [hdr_setHdr]; exact Nat.le_refl _
  · exact mapLen_setHdr _ _ (mapLen_setMd _ _ hf.mlen)
  · intro mh' mmd' ks' vs' hmd
    rw [md_setHdr, md_setMd _ _ ht] at hmd
    cases hmd
    refine ⟨hsy, ?_⟩
    intro x hx
    simp only [hdr_setHdr]
    rcases hb x hx with h | h
    · exact Or.inl h
    · exact Or.inr (by omega)

end Edn.Proofs
