/-
  Edn.Proofs.SoundXAux6 — soundness of the element loops (`readSeq`, `readMap` with the optional
  namespace), of `readNsMap`, `readTagged` and `readMeta` in every configuration, given the
  soundness of the functions they call.
-/
import Edn.Proofs.SoundXAux5
import Edn.Proofs.SoundAux5

namespace Edn.Proofs.SndX
open Edn.Model Edn.Spec Edn.Generated Edn.Proofs
open Edn.Proofs.Snd (Fits fits_zero interleaveKV_cons)

variable {N : NumJ} {S : StrJ}

theorem elems_cons {cfg : Cfg} {d : Nat} {v : Val} {acc : List Val}
    (hv : ValOK cfg (d + 1) v) (h : Elems cfg acc) : Elems cfg (v :: acc) := by
  intro x hx
  rcases List.mem_cons.mp hx with rfl | hx
  · obtain ⟨h1, h2, h3⟩ := hv
    refine ⟨?_, h2, h3⟩
    have := nest_le_rec
    show depth x < Tables.maxRecursionDepth + 1
    omega
  · exact h x hx

theorem elems_reverse {cfg : Cfg} {xs : List Val} (h : Elems cfg xs) : Elems cfg xs.reverse :=
  fun x hx => h x (List.mem_reverse.mp hx)

/-- the duplicate check passed: the elements are pairwise distinct, and come back with the same content -/
theorem noDup_facts {cfg : Cfg} {xs ys : List Val} (hel : Elems cfg xs) (h : hasDuplicates cfg xs = (false, ys)) :
    stripML ys = stripML xs ∧ pairwiseDistinct cfg (stripML xs) := by
  obtain ⟨h1, -, -, -, -⟩ := hasDuplicates_iff cfg xs hel
  have e2 := stripML_hasDuplicates cfg xs
  rw [h] at h1 e2
  exact ⟨e2, (pairwiseDistinct_stripML cfg xs).mpr (h1.mp rfl)⟩

theorem rsStep_sound (ctx : Ctx) {RV : RVT} {RS : RST}
    (hV : SV ctx.cfg N S RV) (hI : InvV ctx.cfg RV) (hS : SS ctx.cfg N S RS) : SS ctx.cfg N S (rsStep ctx RV RS) := by
  intro d dm kind start st acc hd hel
  unfold rsStep
  cases h1 : RV (d + 1) dm st with
  | err e st1 =>
    simp only []
    split <;> exact goodS_err _ _ _ _ _ _ _ _ _
  | ok v st1 =>
    simp only []
    obtain ⟨k1, tok, e1, c1, f1, b1, -⟩ := (hV (d + 1) dm st).1 v st1 h1
    have hel' := elems_cons (hI (d + 1) dm st v st1 (by omega) h1) hel
    have ih := hS d dm kind start st1 (v :: acc) hd hel'
    refine ⟨?_, ih.2⟩
    intro w st' e
    obtain ⟨k, xs, body, e2, c2, hseq, hval, hbk⟩ := ih.1 w st' e
    have hb1 := b1 (by omega)
    refine ⟨max k1 k, stripM v :: xs, tok ++ body, ?_, by rw [c2, c1], ?_, ?_, ?_⟩
    · rw [e1, e2]; simp
    · rw [e2] at f1
      exact .cons _ (stripM v) xs tok body _ (formX_mono f1 _ (Nat.le_max_left _ _))
        (formSeqX_mono hseq _ (Nat.le_max_right _ _))
    · rw [stripML_snoc] at hval
      exact hval
    · rcases Nat.le_total k1 k with hle | hle
      · rw [Nat.max_eq_right hle]; exact hbk
      · rw [Nat.max_eq_left hle]; omega
  | closer st1 =>
    simp only []
    obtain ⟨k, tr, e1, c1, t1, bk, -, c, t, hr, -⟩ := (hV (d + 1) dm st).2 st1 h1
    have hbk := bk (by omega)
    rw [hr]
    simp only []
    split
    · exact goodS_err _ _ _ _ _ _ _ _ _
    rename_i hcb
    have hcb' : c = closerByte kind := by simpa using hcb
    subst hcb'
    have hnil : FormSeqX ctx.cfg N S k [] tr (closerByte kind :: t) := .nil k tr _ (by rw [← hr]; exact t1)
    have hbase : ∀ (w : Val), SeqVal ctx.cfg kind (stripML acc.reverse ++ []) (stripM w) →
        GoodS ctx.cfg N S d kind acc st (.ok w { rest := t, calls := st1.calls }) := by
      intro w hw
      refine ⟨?_, fun _ e => by cases e⟩
      intro w' st' e
      simp only [Res.ok.injEq] at e
      obtain ⟨rfl, rfl⟩ := e
      exact ⟨k, [], tr, by rw [e1, hr], c1, hnil, hw, by omega⟩
    by_cases hk0 : kind = 0
    · subst hk0
      simp only [BEq.rfl, if_true]
      apply hbase
      simp [SeqVal, stripM, stripMO_none]
    · have hk0' : (kind == 0) = false := by simpa using hk0
      simp only [hk0', Bool.false_eq_true, if_false]
      by_cases hk1 : kind = 1
      · subst hk1
        simp only [BEq.rfl, if_true]
        apply hbase
        simp [SeqVal, stripM, stripMO_none]
      · have hk1' : (kind == 1) = false := by simpa using hk1
        simp only [hk1', Bool.false_eq_true, if_false]
        cases hh : hasDuplicates ctx.cfg acc.reverse with
        | mk dup ys =>
          simp only []
          cases dup with
          | true => exact goodS_err _ _ _ _ _ _ _ _ _
          | false =>
            simp only [Bool.false_eq_true, if_false]
            obtain ⟨hs1, hs2⟩ := noDup_facts (elems_reverse hel) hh
            apply hbase
            simp only [SeqVal, if_neg hk0, if_neg hk1, stripM, stripMO_none, List.append_nil, hs1]
            exact ⟨trivial, hs2⟩

theorem qualC_nil (ns : Option Bytes) : qualC ns [] = [] := by
  cases ns with
  | none => rfl
  | some n => simp [qualC, qualifyKeysC, stripML_nil]

theorem qualC_cons (ns : Option Bytes) (kv : Val) (ks' : List Val) :
    qualC ns (stripM kv :: ks') =
      stripM (match ns with | some n => qualifyKey n kv | none => kv) :: qualC ns ks' := by
  cases ns with
  | none => rfl
  | some n =>
    simp only [qualC, qualifyKeysC, List.map_cons, stripML_cons]
    rw [← stripM_qualifyKey]

theorem rmStep_sound (ctx : Ctx) {RV : RVT} {RM : RMT}
    (hV : SV ctx.cfg N S RV) (hI : InvV ctx.cfg RV) (hM : SM ctx.cfg N S RM) : SM ctx.cfg N S (rmStep ctx RV RM) := by
  intro d dm start ns st ks vs hd hel hlen
  unfold rmStep
  simp only []
  cases h1 : RV (d + 1) dm st with
  | err e st1 =>
    simp only []
    split <;> exact goodM_err _ _ _ _ _ _ _ _ _ _
  | closer st1 =>
    simp only []
    obtain ⟨k, tr, e1, c1, t1, bk, -, c, t, hr, -⟩ := (hV (d + 1) dm st).2 st1 h1
    have hbk := bk (by omega)
    rw [hr]
    simp only []
    split
    · exact goodM_err _ _ _ _ _ _ _ _ _ _
    rename_i hcb
    have hcb' : c = 0x7D := by simpa using hcb
    subst hcb'
    cases hh : hasDuplicates ctx.cfg ks.reverse with
    | mk dup ys =>
      simp only []
      cases dup with
      | true => exact goodM_err _ _ _ _ _ _ _ _ _ _
      | false =>
        simp only [Bool.false_eq_true, if_false]
        obtain ⟨hs1, hs2⟩ := noDup_facts (elems_reverse hel) hh
        refine ⟨?_, fun _ e => by cases e⟩
        intro w' st' e
        simp only [Res.ok.injEq] at e
        obtain ⟨rfl, rfl⟩ := e
        refine ⟨k, [], [], tr, by rw [e1, hr], c1, ?_, rfl, ?_, ?_, by omega⟩
        · have : interleaveKV [] [] = [] := by simp [interleaveKV]
          rw [this]
          exact .nil k tr _ (by rw [← hr]; exact t1)
        · simp only [stripM, stripMO_none, qualC_nil, List.append_nil, hs1]
        · simp only [qualC_nil, List.append_nil]; exact hs2
  | ok kv st1 =>
    simp only []
    obtain ⟨k1, tok1, e1, c1, f1, b1, -⟩ := (hV (d + 1) dm st).1 kv st1 h1
    have hb1 := b1 (by omega)
    cases h2 : RV (d + 1) dm st1 with
    | err e st2 =>
      simp only []
      split <;> exact goodM_err _ _ _ _ _ _ _ _ _ _
    | closer st2 => exact goodM_err _ _ _ _ _ _ _ _ _ _
    | ok v st2 =>
      simp only []
      obtain ⟨k2, tok2, e2, c2, f2, b2, -⟩ := (hV (d + 1) dm st1).1 v st2 h2
      have hb2 := b2 (by omega)
      have hkv : ValOK ctx.cfg (d + 1) kv := hI (d + 1) dm st kv st1 (by omega) h1
      have hkv' : ValOK ctx.cfg (d + 1) (match ns with | some n => qualifyKey n kv | none => kv) := by
        cases ns with
        | none => exact hkv
        | some n => exact VOK_qualifyKey n (by omega) hkv
      have hel' := elems_cons hkv' hel
      have ih := hM d dm start ns st2 (_ :: ks) (v :: vs) hd hel' (by simp [hlen])
      refine ⟨?_, ih.2⟩
      intro w st' e
      obtain ⟨k, ks', vs', body, e3, c3, hseq, hl, hval, hpd, hbk⟩ := ih.1 w st' e
      refine ⟨max (max k1 k2) k, stripM kv :: ks', stripM v :: vs', tok1 ++ (tok2 ++ body), ?_, by rw [c3, c2, c1], ?_, by simp [hl], ?_, ?_, ?_⟩
      · rw [e1, e2, e3]; simp
      · rw [interleaveKV_cons]
        rw [e2, e3] at f1
        rw [e3] at f2
        have hk1 : k1 ≤ max (max k1 k2) k := Nat.le_trans (Nat.le_max_left _ _) (Nat.le_max_left _ _)
        have hk2 : k2 ≤ max (max k1 k2) k := Nat.le_trans (Nat.le_max_right _ _) (Nat.le_max_left _ _)
        refine .cons _ (stripM kv) _ tok1 (tok2 ++ body) _ (formX_mono (by simpa using f1) _ hk1) ?_
        exact .cons _ (stripM v) _ tok2 body _ (formX_mono f2 _ hk2) (formSeqX_mono hseq _ (Nat.le_max_right _ _))
      · rw [stripML_snoc, stripML_snoc] at hval
        rw [qualC_cons]
        exact hval
      · rw [stripML_snoc] at hpd
        rw [qualC_cons]
        exact hpd
      · have h12 : d + 1 + max k1 k2 ≤ Tables.maxNestingDepth := by
          rcases Nat.le_total k1 k2 with hle | hle
          · rw [Nat.max_eq_right hle]; omega
          · rw [Nat.max_eq_left hle]; omega
        rcases Nat.le_total (max k1 k2) k with hle | hle
        · rw [Nat.max_eq_right hle]; exact hbk
        · rw [Nat.max_eq_left hle]; exact h12

/-- a keyword token without namespace is `:` followed by its name -/
theorem kw_token {tok name : Bytes} (h : IdentDenotes tok (.kw hdr0 none name)) : tok = 0x3A :: name := by
  rcases h with ⟨-, e⟩ | ⟨-, e⟩ | ⟨-, e⟩ | ⟨body, ns, nm, rfl, -, -, -, hsp, e⟩ | ⟨-, -, -, -, ns, nm, -, e⟩
  · cases e
  · cases e
  · cases e
  · simp only [Val.kw.injEq, true_and] at e
    obtain ⟨rfl, rfl⟩ := e
    unfold splitIdent at hsp
    split at hsp
    · simp only [Option.some.injEq, Prod.mk.injEq, true_and] at hsp
      rw [hsp]
    · split at hsp
      · simp only [Option.some.injEq, Prod.mk.injEq, true_and] at hsp
        rw [hsp]
      · split at hsp
        · cases hsp
        · simp at hsp
  · cases e

theorem rnStep_sound (ctx : Ctx) {RV : RVT} {RM : RMT} (hK : KV ctx RV) (hM : SM ctx.cfg N S RM) :
    SN ctx.cfg N S (rnStep ctx RV RM) := by
  intro d dm start cs cl hd
  unfold rnStep
  rcases hK d dm cs cl with e | e
  · rw [e]
    cases hid : readIdentifier ctx { rest := 0x3A :: cs, calls := cl } with
    | closer st' =>
      have := (leaf_not_closer ctx { rest := 0x3A :: cs, calls := cl }).2.2.1
      rw [hid] at this
      cases this
    | err e' st' => exact goodN_err _ _ _ _ _ _ _
    | ok kwv st' =>
      obtain ⟨tok, e1, c1, hl, hds, hden⟩ := readIdentifier_sound ctx _ st' kwv hid
      cases kwv with
      | kw h ns name =>
        cases ns with
        | some x => exact goodN_err _ _ _ _ _ _ _
        | none =>
          simp only []
          have htok : tok = 0x3A :: name := kw_token (by simpa [strip] using hden)
          subst htok
          cases hsk : skipWs st'.rest with
          | nil => exact goodN_err _ _ _ _ _ _ _
          | cons c r =>
            simp only []
            split
            · rename_i hc
              have hc' : c = 0x7B := by simpa using hc
              subst hc'
              obtain ⟨tr, hb, htr⟩ := Snd.skipWs_inv hsk
              have h := hM d dm start (some name) { rest := r, calls := st'.calls } [] [] hd (elems_nil _) rfl
              refine ⟨?_, h.2⟩
              intro v st2 e2
              obtain ⟨k, ks', vs', body, h1, h2, h3, h4, h5, h6, h7⟩ := h.1 v st2 e2
              simp only [List.reverse_nil, stripML_nil, List.nil_append, qualC] at h5 h6
              simp only [] at h1 h2 e1 c1
              refine ⟨k, name, tr, body, ks', vs', ?_, by rw [h2, c1], hl, by simpa [strip] using hden, hb, h3, h4, h6, h5, h7⟩
              show 0x3A :: cs = _
              rw [e1, htr, h1]; simp
            · exact goodN_err _ _ _ _ _ _ _
      | _ => exact goodN_err _ _ _ _ _ _ _
  · rw [e]
    exact goodN_err _ _ _ _ _ _ _

/-- progress of the value reader, as the tag reader needs it -/
def PV (RV : RVT) : Prop := ∀ d dm st v st', RV d dm st = .ok v st' → st'.rest.length < st.rest.length

theorem rtStep_sound (ctx : Ctx) (hreg : ctx.opts.registry = none) {RV : RVT} (hV : SV ctx.cfg N S RV) (hP : PV RV) :
    ST ctx.cfg N S (rtStep ctx RV) := by
  intro d dm start st
  unfold rtStep
  simp only []
  cases hs : st.rest with
  | nil => exact goodT_err _ _ _ _ _ _ _
  | cons c t =>
    simp only []
    split
    · exact goodT_err _ _ _ _ _ _ _
    cases hid : readIdentifier ctx st with
    | err e st1 => exact goodT_err _ _ _ _ _ _ _
    | closer st1 =>
      have := (leaf_not_closer ctx st).2.2.1
      rw [hid] at this
      cases this
    | ok tagv st1 =>
      obtain ⟨tag, e1, c1, hl, hds, hden⟩ := readIdentifier_sound ctx st st1 tagv hid
      cases tagv with
      | sym h md ns nm =>
        simp only []
        cases h2 : RV (d + 1) dm st1 with
        | err e st2 => exact goodT_err _ _ _ _ _ _ _
        | closer st2 => exact goodT_err _ _ _ _ _ _ _
        | ok v st2 =>
          simp only [hreg]
          obtain ⟨k, tok, e2, c2, f2, b2, -⟩ := (hV (d + 1) dm st1).1 v st2 h2
          refine ⟨?_, fun _ e => by cases e⟩
          intro w st' e
          simp only [Res.ok.injEq] at e
          obtain ⟨rfl, rfl⟩ := e
          have htag : slice (c :: t) st1.rest = tag := by
            rw [← hs, e1, slice_append_left]
          refine ⟨k, tag, ns, nm, stripM v, tok, by rw [e1, e2], by rw [c2, c1], hl, by simpa [strip] using hden, ?_, f2, ?_, b2⟩
          · have hlt := hP (d + 1) dm st1 v st2 h2
            cases tok with
            | nil => rw [e2] at hlt; simp at hlt
            | cons t0 tt =>
              refine ⟨t0, tt, rfl, ?_⟩
              rcases hds with h0 | ⟨c', t', h0, hdl⟩
              · rw [h0] at e2; cases e2
              · rw [h0] at e2
                simp only [List.cons_append, List.cons.injEq] at e2
                rw [← e2.1]; exact hdl
          · simp only [stripM, stripMO_none, htag]
      | _ => exact goodT_err _ _ _ _ _ _ _

theorem rmeStep_sound (ctx : Ctx) {RV : RVT} (hV : SV ctx.cfg N S RV) (hI : InvV ctx.cfg RV) :
    SMe ctx.cfg N S (rmeStep ctx RV) := by
  intro d dm start st hd
  unfold rmeStep
  simp only []
  cases h1 : RV (d + 1) dm st with
  | err e st1 => exact goodMe_err _ _ _ _ _ _ _
  | closer st1 => exact goodMe_err _ _ _ _ _ _ _
  | ok m st1 =>
    simp only []
    obtain ⟨k1, tokm, e1, c1, f1, b1, -⟩ := (hV (d + 1) dm st).1 m st1 h1
    have hb1 := b1 (by omega)
    have hm : ValOK ctx.cfg (d + 1) m := hI (d + 1) dm st m st1 (by omega) h1
    cases hme : metaEntries m with
    | none => exact goodMe_err _ _ _ _ _ _ _
    | some p =>
      obtain ⟨nks, nvs⟩ := p
      simp only []
      cases h2 : RV (d + 1) dm st1 with
      | err e st2 => exact goodMe_err _ _ _ _ _ _ _
      | closer st2 => exact goodMe_err _ _ _ _ _ _ _
      | ok form st2 =>
        simp only []
        obtain ⟨k2, tokf, e2, c2, f2, b2, m2⟩ := (hV (d + 1) dm st1).1 form st2 h2
        have hb2 := b2 (by omega)
        split
        · exact goodMe_err _ _ _ _ _ _ _
        · rename_i hmt
          have hmt' : form.metaTarget = true := by simpa using hmt
          have hn := elems_metaEntries hm hme
          refine ⟨?_, fun _ e => by cases e⟩
          intro w st' e
          simp only [Res.ok.injEq] at e
          obtain ⟨rfl, rfl⟩ := e
          rw [e2] at f1
          refine ⟨max k1 k2, stripM m, stripM form, stripML nks, stripML nvs, tokm, tokf, by rw [e1, e2], by rw [c2, c1],
            formX_mono f1 _ (Nat.le_max_left _ _), metaEntriesC_of_some hme, formX_mono f2 _ (Nat.le_max_right _ _),
            by rw [metaTarget_stripM]; exact hmt', ?_, mdOK_attachMeta m form nks nvs _ hn m2 hmt', ?_⟩
          · rw [stripM_setHdr, stripM_attachMeta ctx.cfg m form nks nvs hn m2]
          · rcases Nat.le_total k1 k2 with hle | hle
            · rw [Nat.max_eq_right hle]; omega
            · rw [Nat.max_eq_left hle]; omega

end Edn.Proofs.SndX
