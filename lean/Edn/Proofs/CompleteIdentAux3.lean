/-
  Edn.Proofs.CompleteIdentAux3 — the reserved tokens `nil`, `true`, `false`.
-/
import Edn.Proofs.CompleteIdentAux2

namespace Edn.Proofs
open Edn.Model Edn.Spec

theorem nil_bytes : "nil".toUTF8.toList = [0x6E, 0x69, 0x6C] := by decide +kernel
theorem true_bytes : "true".toUTF8.toList = [0x74, 0x72, 0x75, 0x65] := by decide +kernel
theorem false_bytes : "false".toUTF8.toList = [0x66, 0x61, 0x6C, 0x73, 0x65] := by decide +kernel

/-- `IdentTok` from decidable checks, for tokens whose first byte is neither a sign, a digit
    nor `^` -/
theorem identTok_of_checks (c : UInt8) (t : Bytes)
    (h1 : (c :: t).all (fun x => !isDelim x) = true)
    (h2 : ¬ [0x3A, 0x3A] <:+: (c :: t))
    (h3 : (c != 0x5E && !is09 c && c != 0x2B && c != 0x2D) = true) : IdentTok (c :: t) := by
  refine ⟨by simp, ?_, h2, ?_⟩
  · intro x hx
    have := List.all_eq_true.mp h1 x hx
    simpa using this
  · intro c' t' h
    simp only [List.cons.injEq] at h
    obtain ⟨rfl, rfl⟩ := h
    simp only [Bool.and_eq_true, bne_iff_ne, ne_eq, Bool.not_eq_true'] at h3
    obtain ⟨⟨⟨h5e, h09⟩, hp⟩, hm⟩ := h3
    refine ⟨h5e, ?_, ?_⟩
    · rw [← is09_iff]; simp [h09]
    · rintro (h | h)
      · exact absurd h hp
      · exact absurd h hm

theorem identTok_nil : IdentTok [0x6E, 0x69, 0x6C] :=
  identTok_of_checks _ _ (by decide +kernel) (by decide) (by decide)
theorem identTok_true : IdentTok [0x74, 0x72, 0x75, 0x65] :=
  identTok_of_checks _ _ (by decide +kernel) (by decide) (by decide)
theorem identTok_false : IdentTok [0x66, 0x61, 0x6C, 0x73, 0x65] :=
  identTok_of_checks _ _ (by decide +kernel) (by decide) (by decide)

/-- the identifier reader on a token without `/` that does not start with `:` -/
theorem readIdentifier_plain (ctx : Ctx) (tok rest : Bytes) (cl : List Call)
    (hr : TermD rest) (ht : IdentTok tok) (hc : tok.head? ≠ some 0x3A) (hns : tok.idxOf? 0x2F = none) :
    readIdentifier ctx { rest := tok ++ rest, calls := cl } =
      (let h := mkHdr (tok ++ rest).length rest.length
       let st' : St := { rest := rest, calls := cl }
       if tok == strBytes "nil" then .ok (.nil h) st'
       else if tok == strBytes "true" then .ok (.bool h true) st'
       else if tok == strBytes "false" then .ok (.bool h false) st'
       else .ok (.sym h none none tok) st') := by
  obtain ⟨hne, hnd, hcc, _⟩ := ht
  unfold readIdentifier
  simp only [Ctx.pos]
  rw [scanIdent_tok tok rest hr hnd hcc, hns]
  have hlen : 0 < tok.length := List.length_pos_iff.mpr hne
  have hl0 : (tok.length == 0) = false := by rw [beq_eq_false_iff_ne]; omega
  have hpk := peek_ne_colon hne hc
  simp [identSplit, hl0, hpk]

end Edn.Proofs
