/-
  Edn.Proofs.DispatchClj — C14 at whole-document level for every configuration (Clojure flag
  included): an input that reads without a registry has a syntax tree `t` (`Edn.Spec.Syn`),
  independent of the options, such that
    * the registry-free reading of `t` (`plainS`) is the value the input reads to, without calls;
    * under any options `o1` (any registry or none, any default mode) `read` returns exactly
      `dispatchS cfg o1.registry o1.mode t`: the same value (cache cells included) and the same
      call log, or the same error code with the same range and the calls made until then.
  No hypothesis on the handlers is needed: the dispatch is stated on the syntax tree, whose
  leaves are the scalars as the reader returns them, so both sides hand the handlers the very
  same operands.  The general form `read_determined_by_tree` takes any run that returns a value
  as the witness that the input has a tree (`^#id {:a 1} [2]` reads only with a registry: a
  tagged element is not an annotation, the map a handler returns for it is).

  Why not the statement of `read_with_registry` (dispatch replayed on the registry-free tree
  `v0`) with `cfg.clj = true`: it is false, `v0` does not determine the registry run.  Checked
  by `#eval` on the model (configuration `⟨true, false⟩`, mode 0, `id` the identity handler,
  `ka` the handler returning the keyword `:a`; "same tree" = same canonical dump, ranges
  included):
    * `#:p{#id :a 1}` / `#:q{#id :a 1}`: same `v0` (map 0 13 (tagged 4 10 id (kw 8 10 a)) (int 11 12 1));
      with the registry `{:p/a 1}` / `{:q/a 1}`.
    * `^{#id :a 1,,,#ka :b 2} [3]` / `^{#id :a 1}^{#ka :b 2} [3]`: same `v0`; with the registry
      DUPLICATE_KEY (offsets 1 … 22) / the vector with metadata `{:a 1}`, both with the calls
      id@6:8 ka@17:19.
    * `^{:a #id 1} ^{:a #id 2} [3]`: `v0` has dropped the inner entry, the registry run calls
      `id` at 9:10 and at 21:22.
    * `^:a #fail [1]`: registry run INVALID_SYNTAX 4 … 13; `v0` only has the range 0 … 13.
    * `^ ^{:x #id 1} {:a 1} [2]`: call id@11:12, no trace of `{:x …}` in `v0`.
  The work is in `DispatchCljAux1` (equations of `dispatchS`, accumulator steps),
  `DispatchCljAux2` / `3` (simulation statements; tagged elements, sequences; maps,
  namespaced maps, metadata), `DispatchCljAux4` (first-byte dispatch, induction on the fuel)
  and `DispatchCljAux5` (no registry: no calls, mode irrelevant).
-/
import Edn.Proofs.DispatchCljAux4
import Edn.Proofs.DispatchCljAux5

namespace Edn.Proofs
open Edn.Model Edn.Spec Edn.Generated DClj

/-- `read` against the simulation's post-condition -/
theorem ReadIs_of_PostS (cfg : Cfg) (o1 : Opts) (input : Bytes) (rest' : Bytes) (dr : DOne)
    (h : PostS [] rest' (readValue { cfg := cfg, opts := o1 } (readFuel input) 0 false { rest := input }) dr) :
    ReadIs (read cfg o1 input) input.length dr := by
  obtain ⟨calls, ⟨code, s, e⟩ | v⟩ := dr
  · obtain ⟨hne, st', hr1, hcalls⟩ := h
    unfold Edn.Model.read
    simp only []
    rw [hr1]
    simp only []
    rw [if_neg (by simp [mkErr]), if_neg (by simp [mkErr])]
    exact ⟨⟨_, _, rfl, rfl, rfl⟩, by rw [hcalls]; rfl⟩
  · change _ = _ at h
    unfold Edn.Model.read
    simp only []
    rw [h]
    exact ⟨rfl, rfl⟩

/-- the outcome of the dispatch can be read off the result of `read` -/
theorem dispatch_of_ReadIs {r : Result} {n : Nat} {dr : DOne} {v0 : Val} (h : ReadIs r n dr)
    (hv : r.out = .value v0) : dr = (r.calls, .ok v0) := by
  obtain ⟨calls, ⟨code, s, e⟩ | v⟩ := dr
  · obtain ⟨⟨es, ee, ho, _, _⟩, _⟩ := h
    rw [hv] at ho
    cases ho
  · obtain ⟨ho, hc⟩ := h
    rw [hv] at ho
    cases ho
    rw [hc]

/-- Top level, every configuration, the general form: an input that reads to a value under
    *some* options `o0` (with or without a registry) has a syntax tree whose dispatch is what
    `read` returns under *any* options. -/
theorem read_determined_by_tree (cfg : Cfg) (o0 : Opts) (input : Bytes) (v0 : Val)
    (h0 : (read cfg o0 input).out = .value v0) :
    ∃ t : Syn, ∀ o1 : Opts, ReadIs (read cfg o1 input) input.length (dispatchS cfg o1.registry o1.mode t) := by
  have hsim := (reader_dispatchS cfg o0 (readFuel input)).1 0 { rest := input }
  unfold Edn.Model.read at h0
  simp only [] at h0
  cases hr : readValue { cfg := cfg, opts := o0 } (readFuel input) 0 false { rest := input } with
  | closer st =>
    rw [hr] at h0
    simp only [] at h0
    cases h0
  | err e st =>
    rw [hr] at h0
    simp only [] at h0
    repeat' split at h0
    all_goals cases h0
  | ok v st0 =>
    rw [show readValue (KC cfg o0) (readFuel input) 0 false { rest := input } = .ok v st0 from hr] at hsim
    obtain ⟨t, ht⟩ := hsim
    exact ⟨t, fun o1 => ReadIs_of_PostS cfg o1 input st0.rest _ (ht o1 [])⟩

/-- Top level, every configuration: the driving run is the one without a registry, and the
    registry-free reading of the tree is its value. -/
theorem read_is_dispatchS (cfg : Cfg) (opts : Opts) (input : Bytes) (v0 : Val)
    (h0 : (read cfg { opts with registry := none } input).out = .value v0) :
    ∃ t : Syn, plainS cfg t = ([], .ok v0) ∧
      ∀ o1 : Opts, ReadIs (read cfg o1 input) input.length (dispatchS cfg o1.registry o1.mode t) := by
  obtain ⟨t, ht⟩ := read_determined_by_tree cfg _ input v0 h0
  refine ⟨t, ?_, ht⟩
  have hd : dispatchS cfg none opts.mode t = (_, .ok v0) := dispatch_of_ReadIs (ht { opts with registry := none }) h0
  obtain ⟨hm, hc⟩ := dispatchS_none cfg opts.mode t
  unfold plainS
  rw [← hm]
  rw [hd] at hc
  have hc' : (read cfg { opts with registry := none } input).calls = [] := hc
  rw [hd, hc']

end Edn.Proofs
