/-
  Edn.Proofs.DoubleSpecAux3 — `parseDouble` against `decimalParts`; `ofDec` depends only on
  the decimal value.
-/
import Edn.Proofs.DoubleSpecAux2

namespace Edn.Proofs.DoubleSpecAux
open Edn.Model Edn.Spec

theorem parseDoubleFast_some {m : Nat} {e : Int} {neg : Bool} {r : UInt64}
    (h : parseDoubleFast m e neg = some r) : m ≤ 9007199254740991 ∧ -22 ≤ e ∧ e ≤ 22 := by
  unfold parseDoubleFast at h
  by_cases h1 : (decide (e < -22) || decide (e > 22)) = true
  · rw [if_pos h1] at h; cases h
  · rw [if_neg h1] at h
    by_cases h2 : m > 9007199254740991
    · rw [if_pos h2] at h; cases h
    · simp only [Bool.or_eq_true, decide_eq_true_eq, not_or] at h1
      omega

/-- `parseDouble` returns the correctly rounded double of the exact decimal value of any text
    whose underscores (if any) are skipped by the accumulators -/
theorem parseDouble_of_noUnderscore (cfg : Cfg) (text : Bytes) (h : cfg.exp = false → (0x5F : UInt8) ∉ text) :
    parseDouble cfg text = (let p := decimalParts text; withSign p.1 (ofDec p.2.1 p.2.2)) := by
  have hslow : strtodSpec text = (let p := decimalParts text; withSign p.1 (ofDec p.2.1 p.2.2)) := by
    unfold strtodSpec
    simp only [ofDecC_eq]
  rw [parseDouble_eq]
  by_cases h15 : (pdAcc cfg (pdSign text).2).2.1 ≤ 15
  · rw [if_pos h15]
    cases hf : parseDoubleFast (pdAcc cfg (pdSign text).2).1 (pdAcc cfg (pdSign text).2).2.2 (pdSign text).1 with
    | none => exact hslow
    | some r =>
      simp only []
      obtain ⟨hm, he1, he2⟩ := parseDoubleFast_some hf
      rw [fast_path_correct _ _ _ hm ⟨he1, he2⟩] at hf
      have hus : cfg.exp = false → (0x5F : UInt8) ∉ (pdSign text).2 :=
        fun he hmem => h he (pdSign_mem text _ hmem)
      obtain ⟨a, b⟩ := acc_agree cfg (pdSign text).2 hus h15
      have b' : (pdAcc cfg (pdSign text).2).2.2 = (dpAcc (pdSign text).2).2 := by
        rcases b with b | b | b
        · exact b
        · omega
        · omega
      rw [decimalParts_eq]
      simp only []
      rw [← a, ← b']
      exact (Option.some.inj hf).symm
  · rw [if_neg h15]; exact hslow
/-- moving powers of ten between mantissa and exponent does not change the rounded double -/
theorem ofDec_shift (m k : Nat) (e : Int) : ofDec (m * 10 ^ k) e = ofDec m (e + k) := by
  unfold ofDec
  by_cases he : e ≥ 0
  · have he' : e + (k : Int) ≥ 0 := by omega
    rw [if_pos he, if_pos he']
    have : (e + (k : Int)).toNat = k + e.toNat := by omega
    rw [this, Nat.pow_add, Nat.mul_assoc]
  · rw [if_neg he]
    by_cases he' : e + (k : Int) ≥ 0
    · rw [if_pos he']
      have hk : k = (e + (k : Int)).toNat + (-e).toNat := by omega
      generalize (e + (k : Int)).toNat = a at hk
      generalize (-e).toNat = b at hk
      subst hk
      have := FloatAux.rne_scale (m * 10 ^ a) 1 (10 ^ b) (by decide) (Nat.pow_pos (by decide))
      rw [Nat.one_mul] at this
      rw [← this, Nat.pow_add, Nat.mul_assoc]
    · rw [if_neg he']
      have hk : (-e).toNat = (-(e + (k : Int))).toNat + k := by omega
      rw [hk, Nat.pow_add]
      exact FloatAux.rne_scale m _ (10 ^ k) (Nat.pow_pos (by decide)) (Nat.pow_pos (by decide))
end Edn.Proofs.DoubleSpecAux
