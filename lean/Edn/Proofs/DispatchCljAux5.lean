/-
  Edn.Proofs.DispatchCljAux5 — registry dispatch on syntax trees (C14): without a registry
  the dispatch of a tree makes no call and does not depend on the default mode.
-/
import Edn.Proofs.DispatchCljAux1
namespace Edn.Proofs
open Edn.Model Edn.Spec Edn.Generated

theorem seqR_calls_nil : ∀ (l : List DOne), (∀ d ∈ l, d.1 = []) → (seqR l).1 = []
  | [], _ => by rw [seqR]
  | (c, .error e) :: rest, h => by
    rw [seqR_cons_err]
    exact h (c, .error e) List.mem_cons_self
  | (c, .ok x) :: rest, h => by
    have hc : c = [] := h (c, .ok x) List.mem_cons_self
    have ih := seqR_calls_nil rest fun d hd => h d (List.mem_cons_of_mem _ hd)
    rcases hr : seqR rest with ⟨c2, e | xs⟩
    · rw [seqR_cons_ok_err hr]
      rw [hr] at ih
      show c ++ c2 = []
      rw [hc, show c2 = [] from ih]; rfl
    · rw [seqR_cons_ok_ok hr]
      rw [hr] at ih
      show c ++ c2 = []
      rw [hc, show c2 = [] from ih]; rfl

theorem mem_interleave2 {α : Type} : ∀ (a b : List α) (x : α), x ∈ interleave2 a b → x ∈ a ∨ x ∈ b
  | [], _, x, h => by simp [interleave2] at h
  | _ :: _, [], x, h => by simp [interleave2] at h
  | k :: ks, v :: vs, x, h => by
    rw [interleave2] at h
    rcases List.mem_cons.mp h with rfl | h
    · exact .inl List.mem_cons_self
    rcases List.mem_cons.mp h with rfl | h
    · exact .inr List.mem_cons_self
    rcases mem_interleave2 ks vs x h with h | h
    · exact .inl (List.mem_cons_of_mem _ h)
    · exact .inr (List.mem_cons_of_mem _ h)

theorem closeSeq_calls (cfg : Cfg) (kind s e : Nat) (p : List Call × Except DErr (List Val)) :
    (closeSeq cfg kind s e p).1 = p.1 := by
  obtain ⟨c, er | xs⟩ := p
  · rfl
  · rw [closeSeq_ok]
    repeat' split
    all_goals rfl

theorem closeMap_calls (cfg : Cfg) (s e : Nat) (p : List Call × Except DErr (List Val)) :
    (closeMap cfg s e p).1 = p.1 := by
  obtain ⟨c, er | zs⟩ := p
  · rfl
  · unfold closeMap
    simp only []
    split <;> rfl

theorem qualD_calls (ns : Option Bytes) (d : DOne) : (qualD ns d).1 = d.1 := by
  obtain ⟨c, er | k⟩ := d <;> rfl

theorem tagResult_none (mode s e : Nat) (tag : Bytes) (d : DOne) :
    tagResult none mode s e tag d = tagResult none 0 s e tag d ∧ (tagResult none mode s e tag d).1 = d.1 := by
  obtain ⟨c, er | v⟩ := d <;> exact ⟨rfl, rfl⟩

theorem metaResult_calls (cfg : Cfg) (s me e : Nat) (dm df : DOne) (h1 : dm.1 = []) (h2 : df.1 = []) :
    (metaResult cfg s me e dm df).1 = [] := by
  obtain ⟨c1, er | m⟩ := dm
  · exact h1
  obtain ⟨c2, r2⟩ := df
  have h1' : c1 = [] := h1
  have h2' : c2 = [] := h2
  subst h1' h2'
  unfold metaResult
  simp only []
  split
  · rfl
  · cases r2 with
    | error er => rfl
    | ok form =>
      simp only []
      split <;> rfl

section
variable (cfg : Cfg) (mode : Nat)

mutual
theorem dispatchS_none : ∀ t : Syn,
    dispatchS cfg none mode t = dispatchS cfg none 0 t ∧ (dispatchS cfg none mode t).1 = []
  | .leaf v => by
    rw [dispatchS_leaf, dispatchS_leaf]; exact ⟨rfl, rfl⟩
  | .seq kind s e xs => by
    obtain ⟨h1, h2⟩ := dispatchEachS_none xs
    rw [dispatchS_seq, dispatchS_seq, h1]
    refine ⟨rfl, ?_⟩
    rw [closeSeq_calls]
    exact seqR_calls_nil _ (by rw [← h1]; exact h2)
  | .map s e ns ks vs => by
    obtain ⟨h1, h2⟩ := dispatchEachS_none ks
    obtain ⟨h3, h4⟩ := dispatchEachS_none vs
    rw [dispatchS_map, dispatchS_map, h1, h3]
    refine ⟨rfl, ?_⟩
    rw [closeMap_calls]
    refine seqR_calls_nil _ fun d hd => ?_
    rcases mem_interleave2 _ _ d hd with hd | hd
    · obtain ⟨d', hd', rfl⟩ := List.mem_map.mp hd
      rw [qualD_calls]
      exact h2 d' (by rw [h1]; exact hd')
    · exact h4 d (by rw [h3]; exact hd)
  | .tagged s e tag x => by
    obtain ⟨h1, h2⟩ := dispatchS_none x
    rw [dispatchS_tagged, dispatchS_tagged, h1]
    refine ⟨(tagResult_none mode s e tag _).1, ?_⟩
    rw [(tagResult_none mode s e tag _).2, ← h1]
    exact h2
  | .ann s me e m form => by
    obtain ⟨h1, h2⟩ := dispatchS_none m
    obtain ⟨h3, h4⟩ := dispatchS_none form
    rw [dispatchS_ann, dispatchS_ann, h1, h3]
    refine ⟨rfl, metaResult_calls cfg s me e _ _ ?_ ?_⟩
    · rw [← h1]; exact h2
    · rw [← h3]; exact h4
theorem dispatchEachS_none : ∀ ts : List Syn,
    dispatchEachS cfg none mode ts = dispatchEachS cfg none 0 ts ∧
    ∀ d ∈ dispatchEachS cfg none mode ts, d.1 = []
  | [] => by
    rw [dispatchEachS_nil, dispatchEachS_nil]
    exact ⟨rfl, fun d hd => nomatch hd⟩
  | t :: ts => by
    obtain ⟨h1, h2⟩ := dispatchS_none t
    obtain ⟨h3, h4⟩ := dispatchEachS_none ts
    rw [dispatchEachS_cons, dispatchEachS_cons, h1, h3]
    refine ⟨rfl, fun d hd => ?_⟩
    rcases List.mem_cons.mp hd with rfl | hd
    · rw [← h1]; exact h2
    · exact h4 d (by rw [h3]; exact hd)
end

end
end Edn.Proofs
