/-
  Edn.Proofs.SoundX — in EVERY configuration the reader accepts only the language of
  `Edn.Spec.GrammarX`, and the tree it returns has the content (metadata included) the
  derivation names.  Number and string tokens enter through the abstract judgements `N`, `S`
  with the exactness hypotheses `NumExact`, `StrExact`; they are discharged here for the
  configurations whose leaf theorems exist (core and Clojure numbers; ordinary strings without the
  experimental flag).

  The fuel induction over all six functions of the mutual block is `reader_sound_X`; its step
  lemmas are in `SoundXAux5` (dispatch) and `SoundXAux6` (element loops, namespaced maps, tags,
  metadata), the leaf readers in `SoundXAux4`, the value algebra of `stripM`, the metadata merge and
  the key qualification in `SoundXAux1`/`SoundXAux2`.
-/
import Edn.Spec.GrammarX
import Edn.Proofs.SoundXAux6
import Edn.Proofs.NumberSound
import Edn.Proofs.CljNumberSound
import Edn.Proofs.SoundAux6

namespace Edn.Proofs
open Edn.Model Edn.Spec

/-- the fuel induction behind the soundness theorem: all six reader functions at once -/
theorem reader_sound_X (ctx : Ctx) (hreg : ctx.opts.registry = none) (N : NumJ) (S : StrJ)
    (hN : NumExact ctx.cfg N) (hS : StrExact ctx.cfg S) : ∀ (f : Nat),
    SndX.SV ctx.cfg N S (readValue ctx f) ∧ SndX.SS ctx.cfg N S (readSeq ctx f) ∧
    SndX.SM ctx.cfg N S (readMap ctx f) ∧ SndX.SN ctx.cfg N S (readNsMap ctx f) ∧
    SndX.ST ctx.cfg N S (readTagged ctx f) ∧ SndX.SMe ctx.cfg N S (readMeta ctx f) ∧ SndX.KV ctx (readValue ctx f) := by
  intro f
  induction f with
  | zero =>
    refine ⟨?_, ?_, ?_, ?_, ?_, ?_, ?_⟩
    · intro d dm st; rw [readValue_zero]; exact SndX.goodV_err _ _ _ _ _ _ _
    · intro d dm kind start st acc _ _; rw [readSeq_zero]; exact SndX.goodS_err _ _ _ _ _ _ _ _ _
    · intro d dm start ns st ks vs _ _ _; rw [readMap_zero]; exact SndX.goodM_err _ _ _ _ _ _ _ _ _ _
    · intro d dm start cs cl _; rw [readNsMap_zero]; exact SndX.goodN_err _ _ _ _ _ _ _
    · intro d dm start st; rw [readTagged_zero]; exact SndX.goodT_err _ _ _ _ _ _ _
    · intro d dm start st _; rw [readMeta_zero]; exact SndX.goodMe_err _ _ _ _ _ _ _
    · intro d dm cs cl; right; rw [readValue_zero]
  | succ f ih =>
    obtain ⟨hV, hSS, hM, hNs, hT, hMe, hK⟩ := ih
    have hI : SndX.InvV ctx.cfg (readValue ctx f) :=
      fun d dm st v st' hd h => readValue_inv ctx hreg f d dm st st' v hd h
    have hP : SndX.PV (readValue ctx f) := by
      intro d dm st v st' h
      have := (reader_progress ctx f).1 d dm st
      rw [h] at this
      exact this
    refine ⟨?_, ?_, ?_, ?_, ?_, ?_, ?_⟩
    · intro d dm st
      rw [readValue_succ]
      exact SndX.rvOuter_sound ctx hN hS hV hSS hM hNs hT hMe d dm st
    · intro d dm kind start st acc hd hel
      rw [readSeq_succ]
      exact SndX.rsStep_sound ctx hV hI hSS d dm kind start st acc hd hel
    · intro d dm start ns st ks vs hd hel hl
      rw [readMap_succ]
      exact SndX.rmStep_sound ctx hV hI hM d dm start ns st ks vs hd hel hl
    · intro d dm start cs cl hd
      rw [readNsMap_succ]
      exact SndX.rnStep_sound ctx hK hM d dm start cs cl hd
    · intro d dm start st
      rw [readTagged_succ]
      exact SndX.rtStep_sound ctx hreg hV hP d dm start st
    · intro d dm start st hd
      rw [readMeta_succ]
      exact SndX.rmeStep_sound ctx hV hI d dm start st hd
    · intro d dm cs cl
      left
      rw [readValue_succ]
      exact SndX.rvOuter_colon ctx d dm cs cl

/-- **Soundness in every configuration**: at a depth within the limit, a returned value means that
    a form of the grammar was consumed, exactly its bytes, no reader call was recorded, the form's
    nesting fits the rest of the limit, and the value's content — metadata included — is the
    form's -/
theorem readValue_sound_X (cfg : Cfg) (opts : Opts) (hreg : opts.registry = none) (N : NumJ) (S : StrJ)
    (hN : NumExact cfg N) (hS : StrExact cfg S) (f d : Nat) (dm : Bool) (st st' : St) (v : Val)
    (h : readValue { cfg := cfg, opts := opts } f d dm st = .ok v st') (hd : d ≤ Edn.Generated.Tables.maxNestingDepth) :
    ∃ k tok, d + k ≤ Edn.Generated.Tables.maxNestingDepth ∧ st.rest = tok ++ st'.rest ∧ st'.calls = st.calls ∧
      FormX cfg N S k (stripM v) tok st'.rest := by
  obtain ⟨k, tok, h1, h2, h3, h4, -⟩ := ((reader_sound_X { cfg := cfg, opts := opts } hreg N S hN hS f).1 d dm st).1 v st' h
  exact ⟨k, tok, h4 hd, h1, h2, h3⟩

/-- … and the keys of the metadata map of a returned value satisfy the reader invariant (what the
    metadata merge needs to be the specification's merge) -/
theorem readValue_mdOK (cfg : Cfg) (opts : Opts) (hreg : opts.registry = none) (N : NumJ) (S : StrJ)
    (hN : NumExact cfg N) (hS : StrExact cfg S) (f d : Nat) (dm : Bool) (st st' : St) (v : Val)
    (h : readValue { cfg := cfg, opts := opts } f d dm st = .ok v st') : SndX.MdOK cfg v := by
  obtain ⟨k, tok, -, -, -, -, hm⟩ := ((reader_sound_X { cfg := cfg, opts := opts } hreg N S hN hS f).1 d dm st).1 v st' h
  exact hm

/-- a "closing delimiter seen" outcome means that only blanks and discarded forms were consumed,
    up to a closing delimiter inside a collection -/
theorem readValue_closer_X (cfg : Cfg) (opts : Opts) (hreg : opts.registry = none) (N : NumJ) (S : StrJ)
    (hN : NumExact cfg N) (hS : StrExact cfg S) (f d : Nat) (dm : Bool) (st st' : St)
    (h : readValue { cfg := cfg, opts := opts } f d dm st = .closer st') :
    ∃ k tr, st.rest = tr ++ st'.rest ∧ st'.calls = st.calls ∧ TrailX cfg N S k tr st'.rest ∧ 0 < d ∧
      ∃ c t, st'.rest = c :: t ∧ (c = 0x29 ∨ c = 0x5D ∨ c = 0x7D) := by
  obtain ⟨k, tr, h1, h2, h3, -, h5⟩ := ((reader_sound_X { cfg := cfg, opts := opts } hreg N S hN hS f).1 d dm st).2 st' h
  exact ⟨k, tr, h1, h2, h3, h5⟩

/-! ### the exactness hypotheses, discharged where the leaf theorems exist -/

/-- core numbers -/
theorem numExact_core : NumExact Cfg.core coreNumJ := by
  intro s rest v hs
  exact readNumber_core_iff s rest v hs

/-- numbers with the Clojure flag (either setting of the experimental flag) -/
theorem numExact_clj (cfg : Cfg) (hc : cfg.clj = true) : NumExact cfg (cljNumJ cfg) := by
  intro s rest v hs
  exact readNumber_clj_iff cfg hc s rest v hs

/-- ordinary string literals: without the experimental flag the string reader accepts exactly
    `"`, a raw body, `"` -/
theorem strExact_raw (cfg : Cfg) (he : cfg.exp = false) : StrExact cfg rawStrJ := by
  intro ctx hc s rest cl data esc hq
  have hexp : ctx.cfg.exp = false := by rw [hc]; exact he
  cases s with
  | nil => cases hq
  | cons c cs =>
    simp only [List.head?_cons, Option.some.injEq] at hq
    subst hq
    constructor
    · rintro ⟨hh, hr⟩
      unfold readString at hr
      simp only [hexp, Bool.false_and, Bool.false_eq_true, if_false, List.tail_cons] at hr
      cases hfq : findQuote cs with
      | none => rw [hfq] at hr; cases hr
      | some p =>
        obtain ⟨q, e⟩ := p
        rw [hfq] at hr
        simp only [Res.ok.injEq, Val.str.injEq, St.mk.injEq] at hr
        obtain ⟨⟨-, hdata, hesc⟩, hrest, -⟩ := hr
        obtain ⟨sp, t, rfl, rfl, hraw, rfl⟩ := Snd.findQuote_inv hfq
        rw [slice_append_left] at hdata
        subst hdata
        simp only [List.tail_cons] at hrest
        subst hrest
        exact ⟨0x22 :: (sp ++ [0x22]), by simp, hraw, rfl, hesc.symm⟩
    · rintro ⟨tok, htok, hraw, rfl, rfl⟩
      have hcs : cs = data ++ 0x22 :: rest := by simpa using htok
      subst hcs
      unfold readString
      simp only [hexp, Bool.false_and, Bool.false_eq_true, if_false, List.tail_cons, findQuote_eq,
        Snd.rawStr_findQuoteScalar hraw rest false, Bool.false_or, slice_append_left]
      exact ⟨_, rfl⟩

end Edn.Proofs
