/-
  Edn.Proofs.AllocSimAux8 — fault theorem, part 1: `eraseCache` (Edn.Spec.Eqv: the value with every
  cache cell emptied) commutes with everything the reader does to a value after it has been read —
  header and metadata replacement, the one-entry metadata maps, key qualification — and equality,
  the duplicate check under an allocation outcome and the metadata merge do not depend on cache
  cells (of well-formed values with valid caches).
-/
import Edn.Proofs.FlagIndepAux4
import Edn.Proofs.Faults
import Edn.Proofs.ReaderInv

namespace Edn.Proofs.AllocSim
open Edn.Model Edn.Spec Edn.Proofs

/-! ## `eraseCache` commutes with the reader's value surgery -/

theorem erase_hdr (v : Val) : (eraseCache v).hdr = { v.hdr with hc := 0 } := by cases v <;> rfl

theorem erase_md' (v : Val) : (eraseCache v).md = eraseCacheO v.md := by cases v <;> rfl

theorem erase_metaTarget (v : Val) : (eraseCache v).metaTarget = v.metaTarget := by cases v <;> rfl

theorem erase_setMd (v : Val) (m : Option Val) : eraseCache (v.setMd m) = (eraseCache v).setMd (eraseCacheO m) := by
  cases v <;> rfl

theorem erase_setHdr (v : Val) (h : Hdr) : eraseCache (v.setHdr h) = (eraseCache v).setHdr { h with hc := 0 } := by
  cases v <;> rfl

theorem erase_md {v v0 : Val} (h : eraseCache v = eraseCache v0) : eraseCacheO v.md = eraseCacheO v0.md := by
  have := congrArg Val.md h
  rwa [erase_md', erase_md'] at this

theorem metaTarget_of_erase {v v0 : Val} (h : eraseCache v = eraseCache v0) : v.metaTarget = v0.metaTarget := by
  have := congrArg Val.metaTarget h
  rwa [erase_metaTarget, erase_metaTarget] at this

theorem setMd_of_erase {v v0 : Val} {m m0 : Option Val} (h : eraseCache v = eraseCache v0)
    (hm : eraseCacheO m = eraseCacheO m0) : eraseCache (v.setMd m) = eraseCache (v0.setMd m0) := by
  rw [erase_setMd, erase_setMd, h, hm]

/-- the header replacement of `edn_read_metadata` (new start offset) -/
theorem setStart_of_erase {v v0 : Val} (start : Nat) (h : eraseCache v = eraseCache v0) :
    eraseCache (v.setHdr { v.hdr with s := start }) = eraseCache (v0.setHdr { v0.hdr with s := start }) := by
  have hh := congrArg Val.hdr h
  rw [erase_hdr, erase_hdr] at hh
  have e1 : v.hdr.e = v0.hdr.e := by have := congrArg Hdr.e hh; exact this
  have e2 : v.hdr.synth = v0.hdr.synth := by have := congrArg Hdr.synth hh; exact this
  rw [erase_setHdr, erase_setHdr, h]
  show (eraseCache v0).setHdr ⟨start, v.hdr.e, 0, v.hdr.synth⟩ = (eraseCache v0).setHdr ⟨start, v0.hdr.e, 0, v0.hdr.synth⟩
  rw [e1, e2]

/-- the erased form of the one-entry maps -/
def eraseEntries : Option (List Val × List Val) → Option (List Val × List Val)
  | none => none
  | some (ks, vs) => some (eraseCacheL ks, eraseCacheL vs)

theorem erase_metaEntries (m : Val) : metaEntries (eraseCache m) = eraseEntries (metaEntries m) := by
  cases m <;> rfl

theorem metaEntries_of_erase {m m0 : Val} (h : eraseCache m = eraseCache m0) :
    eraseEntries (metaEntries m) = eraseEntries (metaEntries m0) := by
  have := congrArg metaEntries h
  rwa [erase_metaEntries, erase_metaEntries] at this

theorem erase_qualifyKey (n : Bytes) (k : Val) : eraseCache (qualifyKey n k) = qualifyKey n (eraseCache k) := by
  cases k with
  | kw h ns name => cases ns with
    | none => rfl
    | some n' => unfold qualifyKey; simp only [eraseCache, Val.setHdr, Val.hdr]; split <;> rfl
  | sym h md ns name => cases ns with
    | none => rfl
    | some n' => unfold qualifyKey; simp only [eraseCache]; split <;> rfl
  | _ => rfl

theorem qualifyKey_of_erase (n : Bytes) {k k0 : Val} (h : eraseCache k = eraseCache k0) :
    eraseCache (qualifyKey n k) = eraseCache (qualifyKey n k0) := by
  have := congrArg (qualifyKey n) h
  rwa [← erase_qualifyKey, ← erase_qualifyKey] at this

/-- a plain keyword on one side is the same plain keyword on the other -/
theorem kw_of_erase {h : Hdr} {name : Bytes} {v0 : Val} (he : eraseCache (.kw h none name) = eraseCache v0) :
    ∃ h0, v0 = .kw h0 none name := by
  cases v0 <;> simp only [eraseCache, Val.setHdr, Val.hdr] at he <;> try cases he
  case kw h0 ns0 name0 =>
    simp only [Val.kw.injEq] at he
    obtain ⟨-, rfl, rfl⟩ := he
    exact ⟨h0, rfl⟩

/-- the cases of the kind test of `readNsMap` agree on both sides -/
theorem not_kw_of_erase {v v0 : Val} (he : eraseCache v = eraseCache v0)
    (hv : ∀ h name, v = .kw h none name → False) : ∀ h name, v0 = .kw h none name → False := by
  intro h0 name e
  subst e
  obtain ⟨h, hk⟩ := kw_of_erase he.symm
  exact hv h name hk

/-! ## equality, the duplicate check and the metadata merge do not depend on cache cells -/

theorem Eqv_erase (cfg : Cfg) {a b a0 b0 : Val} (ha : eraseCache a = eraseCache a0) (hb : eraseCache b = eraseCache b0) :
    Eqv cfg a b ↔ Eqv cfg a0 b0 := by
  unfold Eqv
  rw [← eqvF_erase cfg _ a b, ha, hb, eqvF_erase, depth_of_eraseCache ha]

/-- what the value algebra needs of an operand (the pointwise part of `Elems`) -/
def El (cfg : Cfg) (v : Val) : Prop := depth v < maxDepthFuel ∧ WF cfg v ∧ cacheOK cfg v = true

theorem equal_erase (cfg : Cfg) {a b a0 b0 : Val} (ha : eraseCache a = eraseCache a0) (hb : eraseCache b = eraseCache b0)
    (ea : El cfg a) (eb : El cfg b) (ea0 : El cfg a0) (eb0 : El cfg b0) : equal cfg a b = equal cfg a0 b0 := by
  have h1 := equal_iff_Eqv cfg a b ea.1 eb.1 ea.2.1 eb.2.1 ea.2.2 eb.2.2
  have h2 := equal_iff_Eqv cfg a0 b0 ea0.1 eb0.1 ea0.2.1 eb0.2.1 ea0.2.2 eb0.2.2
  have h3 := Eqv_erase cfg ha hb
  cases hx : equal cfg a b <;> cases hy : equal cfg a0 b0 <;> simp_all

theorem pairwiseDistinct_erase (cfg : Cfg) : ∀ (xs xs0 : List Val), eraseCacheL xs = eraseCacheL xs0 →
    (pairwiseDistinct cfg xs ↔ pairwiseDistinct cfg xs0) := by
  have head : ∀ (x x0 : Val), eraseCache x = eraseCache x0 →
      ∀ (xs xs0 : List Val), eraseCacheL xs = eraseCacheL xs0 →
      ((∀ y ∈ xs, ¬ Eqv cfg x y ∧ ¬ Eqv cfg y x) ↔ (∀ y ∈ xs0, ¬ Eqv cfg x0 y ∧ ¬ Eqv cfg y x0)) := by
    intro x x0 hx xs
    induction xs with
    | nil =>
      intro xs0 he
      cases xs0 with
      | nil => exact ⟨fun _ y hy => absurd hy List.not_mem_nil, fun _ y hy => absurd hy List.not_mem_nil⟩
      | cons y0 ys0 => exact absurd (length_eq_of_eraseCacheL he) (by simp)
    | cons y ys ih =>
      intro xs0 he
      cases xs0 with
      | nil => exact absurd (length_eq_of_eraseCacheL he) (by simp)
      | cons y0 ys0 =>
        rw [eraseCacheL_cons, eraseCacheL_cons] at he
        have he' := List.cons.inj he
        rw [List.forall_mem_cons, List.forall_mem_cons, ih ys0 he'.2,
          Eqv_erase cfg hx he'.1, Eqv_erase cfg he'.1 hx]
  intro xs
  induction xs with
  | nil =>
    intro xs0 he
    cases xs0 with
    | nil => exact ⟨fun _ => List.Pairwise.nil, fun _ => List.Pairwise.nil⟩
    | cons y0 ys0 => exact absurd (length_eq_of_eraseCacheL he) (by simp)
  | cons x xs ih =>
    intro xs0 he
    cases xs0 with
    | nil => exact absurd (length_eq_of_eraseCacheL he) (by simp)
    | cons x0 xs0 =>
      rw [eraseCacheL_cons, eraseCacheL_cons] at he
      have he' := List.cons.inj he
      have ih' := ih xs0 he'.2
      unfold pairwiseDistinct at ih' ⊢
      rw [List.pairwise_cons, List.pairwise_cons, ih', head x x0 he'.1 xs xs0 he'.2]

/-- the elements the duplicate check hands back are the elements it was given, up to cache cells -/
theorem hasDuplicatesF_snd (cfg : Cfg) (c m : Bool) (xs : List Val) :
    (hasDuplicatesF cfg c m xs).2 = xs ∨ (hasDuplicatesF cfg c m xs).2 = xs.map (fun v => (hashOp cfg v).2) := by
  unfold hasDuplicatesF hasDupSortedF
  repeat' split
  all_goals first | exact Or.inl rfl | exact Or.inr rfl

theorem eraseCacheL_hasDuplicatesF (cfg : Cfg) (c m : Bool) (xs : List Val) :
    eraseCacheL (hasDuplicatesF cfg c m xs).2 = eraseCacheL xs := by
  rcases hasDuplicatesF_snd cfg c m xs with h | h <;> rw [h]
  exact eraseCacheL_map_hashOp cfg xs

/-- **The duplicate check under faults against the fault-free one on the fault-free elements.**
    Whatever scratch allocations fail (`c`, `m`) and whatever cache cells differ between `xs` and
    `xs0`, the verdict is the same and the elements handed back differ in cache cells only. -/
theorem hasDuplicatesF_erase (cfg : Cfg) (c m : Bool) (xs xs0 : List Val) (he : eraseCacheL xs = eraseCacheL xs0)
    (hE : Elems cfg xs) (hE0 : Elems cfg xs0) :
    (hasDuplicatesF cfg c m xs).1 = (hasDuplicates cfg xs0).1 ∧
    eraseCacheL (hasDuplicatesF cfg c m xs).2 = eraseCacheL (hasDuplicates cfg xs0).2 := by
  obtain ⟨-, v2, -, -⟩ := hasDuplicatesF_verdict cfg c m xs hE
  have e0 := (hasDuplicates_iff cfg xs0 hE0).1
  have e3 := pairwiseDistinct_erase cfg xs xs0 he
  refine ⟨?_, ?_⟩
  · have e : (hasDuplicatesF cfg c m xs).1 = false ↔ (hasDuplicates cfg xs0).1 = false :=
      v2.trans (e3.trans e0.symm)
    cases hx : (hasDuplicatesF cfg c m xs).1 <;> cases hy : (hasDuplicates cfg xs0).1 <;> simp_all
  · rw [eraseCacheL_hasDuplicatesF, ← hasDuplicatesF_nofault, eraseCacheL_hasDuplicatesF, he]

theorem any_equal_erase (cfg : Cfg) {k k0 : Val} (hk : eraseCache k = eraseCache k0) (ek : El cfg k) (ek0 : El cfg k0) :
    ∀ (nks nks0 : List Val), eraseCacheL nks = eraseCacheL nks0 → (∀ y ∈ nks, El cfg y) → (∀ y ∈ nks0, El cfg y) →
    nks.any (fun nk => equal cfg k nk) = nks0.any (fun nk => equal cfg k0 nk) := by
  intro nks
  induction nks with
  | nil =>
    intro nks0 he _ _
    cases nks0 with
    | nil => rfl
    | cons y0 ys0 => exact absurd (length_eq_of_eraseCacheL he) (by simp)
  | cons y ys ih =>
    intro nks0 he h1 h2
    cases nks0 with
    | nil => exact absurd (length_eq_of_eraseCacheL he) (by simp)
    | cons y0 ys0 =>
      rw [eraseCacheL_cons, eraseCacheL_cons] at he
      have he' := List.cons.inj he
      rw [List.any_cons, List.any_cons,
        equal_erase cfg hk he'.1 ek (h1 y List.mem_cons_self) ek0 (h2 y0 List.mem_cons_self),
        ih ys0 he'.2 (fun z hz => h1 z (List.mem_cons_of_mem _ hz)) (fun z hz => h2 z (List.mem_cons_of_mem _ hz))]

/-- the metadata merge on operands that differ in cache cells only -/
theorem keepOld_erase (cfg : Cfg) (nks nks0 : List Val) (hn : eraseCacheL nks = eraseCacheL nks0)
    (en : ∀ y ∈ nks, El cfg y) (en0 : ∀ y ∈ nks0, El cfg y) :
    ∀ (ks vs ks0 vs0 : List Val), eraseCacheL ks = eraseCacheL ks0 → eraseCacheL vs = eraseCacheL vs0 →
    (∀ y ∈ ks, El cfg y) → (∀ y ∈ ks0, El cfg y) →
    eraseCacheL (keepOld cfg nks ks vs).1 = eraseCacheL (keepOld cfg nks0 ks0 vs0).1 ∧
    eraseCacheL (keepOld cfg nks ks vs).2 = eraseCacheL (keepOld cfg nks0 ks0 vs0).2 := by
  intro ks
  induction ks with
  | nil =>
    intro vs ks0 vs0 hk _ _ _
    cases ks0 with
    | nil => cases vs <;> cases vs0 <;> exact ⟨rfl, rfl⟩
    | cons y0 ys0 => exact absurd (length_eq_of_eraseCacheL hk) (by simp)
  | cons k ks ih =>
    intro vs ks0 vs0 hk hv e1 e2
    cases ks0 with
    | nil => exact absurd (length_eq_of_eraseCacheL hk) (by simp)
    | cons k0 ks0 =>
      cases vs with
      | nil =>
        cases vs0 with
        | nil => exact ⟨rfl, rfl⟩
        | cons w0 ws0 => exact absurd (length_eq_of_eraseCacheL hv) (by simp)
      | cons w ws =>
        cases vs0 with
        | nil => exact absurd (length_eq_of_eraseCacheL hv) (by simp)
        | cons w0 ws0 =>
          rw [eraseCacheL_cons, eraseCacheL_cons] at hk hv
          have hk' := List.cons.inj hk
          have hv' := List.cons.inj hv
          obtain ⟨i1, i2⟩ := ih ws ks0 ws0 hk'.2 hv'.2 (fun z hz => e1 z (List.mem_cons_of_mem _ hz))
            (fun z hz => e2 z (List.mem_cons_of_mem _ hz))
          unfold keepOld
          rw [any_equal_erase cfg hk'.1 (e1 k List.mem_cons_self) (e2 k0 List.mem_cons_self) nks nks0 hn en en0]
          simp only
          split
          · exact ⟨i1, i2⟩
          · exact ⟨by rw [eraseCacheL_cons, eraseCacheL_cons, hk'.1, i1], by rw [eraseCacheL_cons, eraseCacheL_cons, hv'.1, i2]⟩

theorem keepOld_mem (cfg : Cfg) (nks : List Val) : ∀ (ks vs : List Val), ∀ y ∈ (keepOld cfg nks ks vs).1, y ∈ ks := by
  intro ks
  induction ks with
  | nil => intro vs y hy; cases vs <;> exact absurd hy List.not_mem_nil
  | cons k ks ih =>
    intro vs y hy
    cases vs with
    | nil => exact absurd hy List.not_mem_nil
    | cons w ws =>
      unfold keepOld at hy
      simp only at hy
      split at hy
      · exact List.mem_cons_of_mem _ (ih ws y hy)
      · rcases List.mem_cons.mp hy with rfl | hy
        · exact List.mem_cons_self
        · exact List.mem_cons_of_mem _ (ih ws y hy)

end Edn.Proofs.AllocSim
