/-
  Edn.Proofs.FloatAux2 — decoding of packed bit patterns, the three ranges of `pack`,
  and the kernel check of the extracted table of powers of ten.
-/
import Edn.Proofs.FloatAux
import Edn.Generated.Tables
open Edn.Spec Edn.Generated
namespace Edn.Proofs.FloatAux

theorem and_two_pow_of_lt {x k : Nat} (h : x < 2 ^ k) : x &&& 2 ^ k = 0 := by
  apply Nat.eq_of_testBit_eq
  intro i
  rw [Nat.testBit_and, Nat.testBit_two_pow, Nat.zero_testBit]
  by_cases hi : k = i
  · subst hi; rw [Nat.testBit_lt_two_pow h]; rfl
  · simp [hi]

theorem decode_of_lt (b : UInt64) (h : b.toNat < 2 ^ 63) :
    decode b =
      if b.toNat / 2 ^ 52 = 0 then (false, b.toNat % 2 ^ 52, 2 ^ 1074)
      else if b.toNat / 2 ^ 52 ≥ 1075 then
        (false, (b.toNat % 2 ^ 52 + 2 ^ 52) * 2 ^ (b.toNat / 2 ^ 52 - 1075), 1)
      else (false, b.toNat % 2 ^ 52 + 2 ^ 52, 2 ^ (1075 - b.toNat / 2 ^ 52)) := by
  have hs : ((b &&& signBit) != 0) = false := by
    have : b &&& signBit = 0 := by
      apply UInt64.toNat_inj.mp
      rw [UInt64.toNat_and]
      show b.toNat &&& 2 ^ 63 = 0
      exact and_two_pow_of_lt h
    rw [this]; rfl
  have hex : ((b >>> 52) &&& 0x7FF).toNat = b.toNat / 2 ^ 52 := by
    rw [UInt64.toNat_and, UInt64.toNat_shiftRight]
    show (b.toNat >>> 52) &&& (2 ^ 11 - 1) = _
    rw [Nat.and_two_pow_sub_one_eq_mod, Nat.shiftRight_eq_div_pow]
    apply Nat.mod_eq_of_lt
    omega
  have hfr : (b &&& 0xFFFFFFFFFFFFF).toNat = b.toNat % 2 ^ 52 := by
    rw [UInt64.toNat_and]
    show b.toNat &&& (2 ^ 52 - 1) = _
    rw [Nat.and_two_pow_sub_one_eq_mod]
  unfold decode
  simp only [hs, hex, hfr]

/-- decoding a packed normal number -/
theorem decode_pack (ex fr : Nat) (h1 : 1 ≤ ex) (h2 : ex ≤ 2046) (hfr : fr < 2 ^ 52) :
    decode (UInt64.ofNat (ex * 2 ^ 52 + fr)) =
      if ex ≥ 1075 then (false, (fr + 2 ^ 52) * 2 ^ (ex - 1075), 1)
      else (false, fr + 2 ^ 52, 2 ^ (1075 - ex)) := by
  have ht : (UInt64.ofNat (ex * 2 ^ 52 + fr)).toNat = ex * 2 ^ 52 + fr := by
    rw [UInt64.toNat_ofNat']
    apply Nat.mod_eq_of_lt
    omega
  have hdiv : (ex * 2 ^ 52 + fr) / 2 ^ 52 = ex := by omega
  have hmod : (ex * 2 ^ 52 + fr) % 2 ^ 52 = fr := by omega
  rw [decode_of_lt _ (by rw [ht]; omega), ht, hdiv, hmod]
  have : ex ≠ 0 := by omega
  simp only [this, if_false]

theorem pack_normal {e : Int} {q : Nat} (h1 : -1022 ≤ e) (h2 : e ≤ 1023) (hq : q < 2 ^ 53) :
    pack e q = UInt64.ofNat ((e + 1023).toNat * 2 ^ 52 + (q - 2 ^ 52)) := by
  unfold pack
  have a : ¬ e < -1022 := by omega
  have b : q ≠ 2 ^ 53 := by omega
  have c : ¬ e > 1023 := by omega
  simp only [a, b, c, if_false]

theorem pack_overflow {e : Int} (q : Nat) (h : 1023 < e) : pack e q = 0x7FF0000000000000 := by
  unfold pack
  have a : ¬ e < -1022 := by omega
  simp only [a, if_false]
  by_cases hq : q = 2 ^ 53
  · simp only [hq, if_true]; exact if_pos (by omega)
  · simp only [hq, if_false]; exact if_pos (by omega)

theorem pack_subnormal {e : Int} (q : Nat) (h : e < -1022) : pack e q = UInt64.ofNat q := by
  unfold pack
  simp only [h, if_true]

theorem roundQ_one (x : Nat) : roundQ x 1 = x := by
  unfold roundQ
  simp only [Nat.div_one, Nat.mod_one]
  rfl

/-! ### the table of powers of ten -/

def pow10Ok (k : Nat) : Bool :=
  let t := decode (UInt64.ofNat (Tables.pow10Positive.getD k 0))
  t.1 == false && t.2.1 == 10 ^ k * t.2.2 && decide (0 < t.2.2)

theorem pow10_all : (List.range 23).all pow10Ok = true := by decide +kernel

theorem pow10_decode (k : Nat) (hk : k ≤ 22) :
    ∃ n d, decode (UInt64.ofNat (Tables.pow10Positive.getD k 0)) = (false, n, d) ∧
      n = 10 ^ k * d ∧ 0 < d := by
  have := List.all_eq_true.mp pow10_all k (by simp; omega)
  unfold pow10Ok at this
  generalize decode (UInt64.ofNat (Tables.pow10Positive.getD k 0)) = t at this
  obtain ⟨s, n, d⟩ := t
  simp only [Bool.and_eq_true, beq_iff_eq, decide_eq_true_eq] at this
  exact ⟨n, d, by rw [this.1.1], this.1.2, this.2⟩

end Edn.Proofs.FloatAux
