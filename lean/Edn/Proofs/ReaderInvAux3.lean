/-
  Edn.Proofs.ReaderInvAux3 — the reader invariant for the step functions of `FuelAux3`
  and the six-fold induction on the fuel.
-/
import Edn.Proofs.ReaderInvAux2

namespace Edn.Proofs
open Edn.Model Edn.Spec Edn.Generated

def IV (cfg : Cfg) (RV : RVT) : Prop :=
  ∀ d dm st, d ≤ Tables.maxNestingDepth → (RV d dm st).okP (VOK cfg d)
def IS (cfg : Cfg) (RS : RST) : Prop :=
  ∀ d dm kind start st acc, d < Tables.maxNestingDepth → (∀ x ∈ acc, VOK cfg (d + 1) x) →
    (RS d dm kind start st acc).okP (VOK cfg d)
def IM (cfg : Cfg) (RM : RMT) : Prop :=
  ∀ d dm start ns st ks vs, d < Tables.maxNestingDepth → (∀ x ∈ ks, VOK cfg (d + 1) x) →
    (∀ x ∈ vs, VOK cfg (d + 1) x) → ks.length = vs.length →
    (RM d dm start ns st ks vs).okP (VOK cfg d)
def I4 (cfg : Cfg) (R : R4T) : Prop :=
  ∀ d dm start st, d < Tables.maxNestingDepth → (R d dm start st).okP (VOK cfg d)
/-- `readTagged` is also entered at the nesting limit, but only on the empty rest -/
def IT (cfg : Cfg) (R : R4T) : Prop :=
  ∀ d dm start st, (d < Tables.maxNestingDepth ∨ st.rest = []) → (R d dm start st).okP (VOK cfg d)

theorem lt_of_not_deep {d : Nat} (h : ¬ (decide (d ≥ Tables.maxNestingDepth) = true)) :
    d < Tables.maxNestingDepth := by
  rw [decide_eq_true_eq] at h; omega

theorem no_mem_nil {P : Val → Prop} : ∀ x ∈ ([] : List Val), P x := fun _ h => nomatch h

theorem mem_cons_VOK {P : Val → Prop} {v : Val} {acc : List Val} (hv : P v) (ha : ∀ x ∈ acc, P x) :
    ∀ x ∈ v :: acc, P x := by
  intro x hx
  rcases List.mem_cons.mp hx with rfl | hx
  · exact hv
  · exact ha x hx

theorem rvStep_inv (ctx : Ctx) {RV : RVT} {RS : RST} {RM : RMT} {RN RT RMe : R4T}
    (hV : IV ctx.cfg RV) (hS : IS ctx.cfg RS) (hM : IM ctx.cfg RM) (hN : I4 ctx.cfg RN) (hT : IT ctx.cfg RT)
    (hMe : I4 ctx.cfg RMe)
    (d : Nat) (dm : Bool) (calls : List Call) (c : UInt8) (cs : Bytes) (hd : d ≤ Tables.maxNestingDepth) :
    (rvStep ctx RV RS RM RN RT RMe d dm calls c cs).okP (VOK ctx.cfg d) := by
  unfold rvStep
  simp only []
  cases hdisp : dispatch ctx.cfg c with
  | string => exact leaf_VOK (readString_leaf ..) hd
  | character => exact leaf_VOK (readCharacter_leaf ..) hd
  | listOpen =>
    simp only []
    split
    · trivial
    · rename_i h; exact hS _ _ _ _ _ _ (lt_of_not_deep h) no_mem_nil
  | vectorOpen =>
    simp only []
    split
    · trivial
    · rename_i h; exact hS _ _ _ _ _ _ (lt_of_not_deep h) no_mem_nil
  | mapOpen =>
    simp only []
    split
    · trivial
    · rename_i h; exact hM _ _ _ _ _ _ _ (lt_of_not_deep h) no_mem_nil no_mem_nil rfl
  | hash =>
    simp only []
    cases cs with
    | nil => exact hT _ _ _ _ (Or.inr rfl)
    | cons nx cs' =>
      simp only []
      split
      · exact leaf_VOK (readSymbolic_leaf ..) hd
      split
      · trivial
      rename_i h
      have hlt := lt_of_not_deep h
      split
      · exact hS _ _ _ _ _ _ hlt no_mem_nil
      split
      · cases hr : RV (d + 1) true { rest := cs', calls := calls } with
        | ok v st' => simp only []; exact hV d dm st' hd
        | closer st' => trivial
        | err e st' => trivial
      split
      · exact hN _ _ _ _ hlt
      · exact hT _ _ _ _ (Or.inl hlt)
  | sign =>
    simp only []
    cases cs with
    | nil => exact leaf_VOK (readIdentifier_leaf ..) hd
    | cons nx t =>
      simp only []
      split
      · exact leaf_VOK (readNumberRes_leaf ..) hd
      · exact leaf_VOK (readIdentifier_leaf ..) hd
  | digit => exact leaf_VOK (readNumberRes_leaf ..) hd
  | delimiter =>
    simp only []
    split
    · trivial
    · trivial
  | metadata =>
    simp only []
    split
    · trivial
    · rename_i h; exact hMe _ _ _ _ (lt_of_not_deep h)
  | identifier => exact leaf_VOK (readIdentifier_leaf ..) hd

theorem rvOuter_inv (ctx : Ctx) {RV : RVT} {RS : RST} {RM : RMT} {RN RT RMe : R4T}
    (hV : IV ctx.cfg RV) (hS : IS ctx.cfg RS) (hM : IM ctx.cfg RM) (hN : I4 ctx.cfg RN) (hT : IT ctx.cfg RT)
    (hMe : I4 ctx.cfg RMe)
    (d : Nat) (dm : Bool) (st : St) (hd : d ≤ Tables.maxNestingDepth) :
    (rvOuter ctx RV RS RM RN RT RMe d dm st).okP (VOK ctx.cfg d) := by
  unfold rvOuter
  cases hs : st.rest with
  | nil => trivial
  | cons c0 t =>
    simp only []
    cases hw : (if isPreWs c0 = true then skipWs (c0 :: t) else c0 :: t) with
    | nil => trivial
    | cons c cs =>
      simp only []
      exact rvStep_inv ctx hV hS hM hN hT hMe d dm st.calls c cs hd

theorem rsStep_inv (ctx : Ctx) {RV : RVT} {RS : RST} (hV : IV ctx.cfg RV) (hS : IS ctx.cfg RS)
    (d : Nat) (dm : Bool) (kind start : Nat) (st : St) (acc : List Val)
    (hd : d < Tables.maxNestingDepth) (hacc : ∀ x ∈ acc, VOK ctx.cfg (d + 1) x) :
    (rsStep ctx RV RS d dm kind start st acc).okP (VOK ctx.cfg d) := by
  unfold rsStep
  have h1 := hV (d + 1) dm st (by omega)
  cases hr : RV (d + 1) dm st with
  | ok v st' =>
    rw [hr] at h1
    simp only []
    exact hS _ _ _ _ _ _ hd (mem_cons_VOK h1 hacc)
  | err e st' =>
    simp only []
    split <;> trivial
  | closer st' =>
    simp only []
    cases hs : st'.rest with
    | nil => trivial
    | cons c r =>
      simp only []
      split
      · trivial
      split
      · exact VOK_list _ _ hd (VOK_reverse hacc)
      split
      · exact VOK_vec _ _ hd (VOK_reverse hacc)
      · have hc := VOK_set_close (cfg := ctx.cfg) start (ctx.pos r) hd (VOK_reverse hacc)
        generalize hasDuplicates ctx.cfg acc.reverse = q at hc
        obtain ⟨dup, ys⟩ := q
        simp only []
        split
        · trivial
        · rename_i hdup
          exact hc (by simpa using hdup)

theorem rmStep_inv (ctx : Ctx) {RV : RVT} {RM : RMT} (hV : IV ctx.cfg RV) (hM : IM ctx.cfg RM)
    (d : Nat) (dm : Bool) (start : Nat) (ns : Option Bytes) (st : St) (ks vs : List Val)
    (hd : d < Tables.maxNestingDepth) (hks : ∀ x ∈ ks, VOK ctx.cfg (d + 1) x)
    (hvs : ∀ x ∈ vs, VOK ctx.cfg (d + 1) x) (hl : ks.length = vs.length) :
    (rmStep ctx RV RM d dm start ns st ks vs).okP (VOK ctx.cfg d) := by
  unfold rmStep
  simp only []
  have h1 := hV (d + 1) dm st (by omega)
  cases hr : RV (d + 1) dm st with
  | ok k st' =>
    rw [hr] at h1
    simp only []
    have h2 := hV (d + 1) dm st' (by omega)
    cases hr2 : RV (d + 1) dm st' with
    | ok v st'' =>
      rw [hr2] at h2
      simp only []
      refine hM _ _ _ _ _ _ _ hd (mem_cons_VOK ?_ hks) (mem_cons_VOK h2 hvs) (by simp [hl])
      cases ns with
      | none => exact h1
      | some n => exact VOK_qualifyKey n (by omega) h1
    | err e st'' =>
      simp only []
      split <;> trivial
    | closer st'' => trivial
  | err e st' =>
    simp only []
    split <;> trivial
  | closer st' =>
    simp only []
    cases hs : st'.rest with
    | nil => trivial
    | cons c r =>
      simp only []
      split
      · trivial
      · have hc := VOK_map_close (cfg := ctx.cfg) start (ctx.pos r) hd (VOK_reverse hks) (VOK_reverse hvs)
          (by simp [hl])
        generalize hasDuplicates ctx.cfg ks.reverse = q at hc
        obtain ⟨dup, ys⟩ := q
        simp only []
        split
        · trivial
        · rename_i hdup
          exact hc (by simpa using hdup)

theorem rnStep_inv (ctx : Ctx) {RV : RVT} {RM : RMT} (hM : IM ctx.cfg RM)
    (d : Nat) (dm : Bool) (start : Nat) (st : St) (hd : d < Tables.maxNestingDepth) :
    (rnStep ctx RV RM d dm start st).okP (VOK ctx.cfg d) := by
  unfold rnStep
  cases hr : RV d dm st with
  | closer st' => trivial
  | err e st' => trivial
  | ok kwv st' =>
    simp only []
    split
    · split
      · split
        · exact hM _ _ _ _ _ _ _ hd no_mem_nil no_mem_nil rfl
        · trivial
      · trivial
    · trivial

theorem rtStep_inv (ctx : Ctx) (hreg : ctx.opts.registry = none) {RV : RVT} (hV : IV ctx.cfg RV)
    (d : Nat) (dm : Bool) (start : Nat) (st : St) (hd : d < Tables.maxNestingDepth ∨ st.rest = []) :
    (rtStep ctx RV d dm start st).okP (VOK ctx.cfg d) := by
  unfold rtStep
  simp only []
  cases hs : st.rest with
  | nil => trivial
  | cons c t =>
    have hlt : d < Tables.maxNestingDepth := by
      rcases hd with h | h
      · exact h
      · rw [hs] at h; cases h
    simp only []
    split
    · trivial
    · cases hr : readIdentifier ctx st with
      | closer st' => trivial
      | err e st' => trivial
      | ok tagv st' =>
        simp only []
        split
        · have h2 := hV (d + 1) dm st' (by omega)
          cases hr2 : RV (d + 1) dm st' with
          | closer st'' => trivial
          | err e st'' => trivial
          | ok v st'' =>
            rw [hr2] at h2
            simp only [hreg]
            exact VOK_tagged _ _ _ h2
        · trivial

theorem rmeStep_inv (ctx : Ctx) {RV : RVT} (hV : IV ctx.cfg RV)
    (d : Nat) (dm : Bool) (start : Nat) (st : St) (hd : d < Tables.maxNestingDepth) :
    (rmeStep ctx RV d dm start st).okP (VOK ctx.cfg d) := by
  unfold rmeStep
  simp only []
  cases hr : RV (d + 1) dm st with
  | closer st' => trivial
  | err e st' => trivial
  | ok m st' =>
    simp only []
    split
    · trivial
    · have h2 := hV (d + 1) dm st' (by omega)
      cases hr2 : RV (d + 1) dm st' with
      | closer st'' => trivial
      | err e st'' => trivial
      | ok form st'' =>
        rw [hr2] at h2
        simp only []
        split
        · trivial
        · exact VOK_meta _ _ _ _ h2

/-- the invariant for all six mutually recursive functions, for every fuel -/
theorem reader_inv (ctx : Ctx) (hreg : ctx.opts.registry = none) : ∀ (f : Nat),
    IV ctx.cfg (readValue ctx f) ∧ IS ctx.cfg (readSeq ctx f) ∧ IM ctx.cfg (readMap ctx f) ∧
    I4 ctx.cfg (readNsMap ctx f) ∧ IT ctx.cfg (readTagged ctx f) ∧ I4 ctx.cfg (readMeta ctx f) := by
  intro f
  induction f with
  | zero =>
    refine ⟨?_, ?_, ?_, ?_, ?_, ?_⟩
    · intro d dm st _; rw [readValue_zero]; trivial
    · intro d dm kind start st acc _ _; rw [readSeq_zero]; trivial
    · intro d dm start ns st ks vs _ _ _ _; rw [readMap_zero]; trivial
    · intro d dm start st _; rw [readNsMap_zero]; trivial
    · intro d dm start st _; rw [readTagged_zero]; trivial
    · intro d dm start st _; rw [readMeta_zero]; trivial
  | succ f ih =>
    obtain ⟨hV, hS, hM, hN, hT, hMe⟩ := ih
    refine ⟨?_, ?_, ?_, ?_, ?_, ?_⟩
    · intro d dm st hd; rw [readValue_succ]; exact rvOuter_inv ctx hV hS hM hN hT hMe d dm st hd
    · intro d dm kind start st acc hd ha; rw [readSeq_succ]; exact rsStep_inv ctx hV hS _ _ _ _ _ _ hd ha
    · intro d dm start ns st ks vs hd hk hv hl; rw [readMap_succ]
      exact rmStep_inv ctx hV hM _ _ _ _ _ _ _ hd hk hv hl
    · intro d dm start st hd; rw [readNsMap_succ]; exact rnStep_inv ctx hM _ _ _ _ hd
    · intro d dm start st hd; rw [readTagged_succ]; exact rtStep_inv ctx hreg hV _ _ _ _ hd
    · intro d dm start st hd; rw [readMeta_succ]; exact rmeStep_inv ctx hV _ _ _ _ hd

end Edn.Proofs
