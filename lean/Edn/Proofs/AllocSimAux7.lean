/-
  Edn.Proofs.AllocSimAux7 — refinement, part 7: the six mutually recursive reader functions.  With
  an oracle that fails nothing and a live parser arena `readValueA` … `readMetaA` return exactly
  what `readValue` … `readMeta` return (same value incl. cache cells, same rest, same call log,
  same error), and the arena is still alive; by induction on the fuel (`reader_nofault`).
-/
import Edn.Proofs.AllocSimAux6
import Edn.Proofs.AllocSimAux4
import Edn.Proofs.FuelAux3
namespace Edn.Proofs.AllocSim
open Edn.Model Edn.Proofs.AllocBasic Edn.Proofs

/-- refinement of one call: same result, arena still alive -/
def NF (r : Res × ASt) (r0 : Res) : Prop := r.1 = r0 ∧ r.2.arena = .alive

def NV (x : ACtx) (f : Nat) : Prop := ∀ d dm st a, a.arena = .alive →
  NF (readValueA x f d dm st a) (readValue x.ctx f d dm st)
def NS (x : ACtx) (f : Nat) : Prop := ∀ d dm kind start st a b acc, a.arena = .alive →
  NF (readSeqA x f d dm kind start st a b acc) (readSeq x.ctx f d dm kind start st acc)
def NM (x : ACtx) (f : Nat) : Prop := ∀ d dm start ns st a b ks vs, a.arena = .alive →
  NF (readMapA x f d dm start ns st a b ks vs) (readMap x.ctx f d dm start ns st ks vs)
def NN (x : ACtx) (f : Nat) : Prop := ∀ d dm start st a, a.arena = .alive →
  NF (readNsMapA x f d dm start st a) (readNsMap x.ctx f d dm start st)
def NT (x : ACtx) (f : Nat) : Prop := ∀ d dm start st a, a.arena = .alive →
  NF (readTaggedA x f d dm start st a) (readTagged x.ctx f d dm start st)
def NMe (x : ACtx) (f : Nat) : Prop := ∀ d dm start st a, a.arena = .alive →
  NF (readMetaA x f d dm start st a) (readMeta x.ctx f d dm start st)

theorem Leaf.nf {x : ACtx} {r : Res × ASt} {a : ASt} {r0 : Res} (h : Leaf x r a r0) (hx : NoFault x)
    (ha : a.arena = .alive) : NF r r0 := ⟨h.exact hx ha, h.fr.arena.trans ha⟩

theorem NF.pure (r0 : Res) {a : ASt} (ha : a.arena = .alive) : NF (r0, a) r0 := ⟨rfl, ha⟩

/-- a value request granted in the no-fault world -/
theorem value_request {x : ACtx} (hx : NoFault x) {a : ASt} (ha : a.arena = .alive) (v : Val) (st : St) :
    NF (if (!(a.request x.orc .arena).1) = true then (.err oomErr st, (a.request x.orc .arena).2)
        else (.ok v st, (a.request x.orc .arena).2)) (.ok v st) := by
  have h := request_nofault x hx .arena a 0 (fun _ => ha)
  simp only [h, Bool.not_true, Bool.false_eq_true, ↓reduceIte]
  exact ⟨rfl, ha⟩

theorem NS_succ {x : ACtx} (hx : NoFault x) (f : Nat) (hV : NV x f) (hS : NS x f) : NS x (f + 1) := by
  intro d dm kind start st a b acc ha
  rw [readSeqA, readSeq_succ]
  unfold rsStep
  obtain ⟨e1, al1⟩ := hV (d + 1) dm st a ha
  rcases hq : readValueA x f (d + 1) dm st a with ⟨r, a'⟩
  rw [hq] at e1 al1
  simp only at e1 al1
  rw [← e1]
  cases r with
  | ok v st' =>
    simp only
    obtain ⟨g, n⟩ := add_step x b a'
    have hn := n hx al1
    rcases hb : b.add x a' with ⟨ob, a1⟩
    rw [hb] at g hn
    cases ob with
    | none => cases hn
    | some b' => exact hS d dm kind start st' a1 b' (v :: acc) (g.arena.trans al1)
  | err e st' =>
    simp only
    split <;> exact ⟨rfl, al1⟩
  | closer st' =>
    simp only
    cases hrest : st'.rest with
    | nil => exact ⟨rfl, al1⟩
    | cons c r =>
      simp only
      by_cases hc : (c != closerByte kind) = true
      · simp only [if_pos hc]; exact ⟨rfl, al1⟩
      · simp only [if_neg hc]
        obtain ⟨g, n⟩ := finish_step x b a'
        have hn := n hx al1
        rcases hb : b.finish x a' with ⟨okF, a1⟩
        rw [hb] at g hn
        simp only at g hn
        subst hn
        have al2 := g.arena.trans al1
        simp only [Bool.not_true, Bool.false_eq_true, ↓reduceIte]
        by_cases h0 : (kind == 0) = true
        · simp only [if_pos h0]; exact value_request hx al2 _ _
        · simp only [if_neg h0]
          by_cases h1 : (kind == 1) = true
          · simp only [if_pos h1]; exact value_request hx al2 _ _
          · simp only [if_neg h1]
            obtain ⟨d1, d2, d3, d4⟩ := hasDuplicatesA_nofault x hx acc.reverse a1 al2
            rcases hd : hasDuplicatesA x acc.reverse a1 with ⟨⟨dup, ys⟩, a2⟩
            rw [hd] at d1 d2 d3 d4
            simp only at d1 d2 d3 d4 ⊢
            have : (a2.failedArena != a1.failedArena) = false := by simp [d4]
            rw [this, ← d1]
            simp only [Bool.false_eq_true, ↓reduceIte]
            cases dup
            · simp only [Bool.false_eq_true, ↓reduceIte]
              rw [← d2 rfl]
              exact value_request hx d3 _ _
            · exact ⟨rfl, d3⟩

theorem NM_succ {x : ACtx} (hx : NoFault x) (f : Nat) (hV : NV x f) (hM : NM x f) : NM x (f + 1) := by
  intro d dm start ns st a b ks vs ha
  rw [readMapA, readMap_succ]
  unfold rmStep
  obtain ⟨e1, al1⟩ := hV (d + 1) dm st a ha
  rcases hq : readValueA x f (d + 1) dm st a with ⟨r, a'⟩
  rw [hq] at e1 al1
  simp only at e1 al1
  rw [← e1]
  cases r with
  | err e st' =>
    simp only
    split <;> exact ⟨rfl, al1⟩
  | closer st' =>
    simp only
    cases hrest : st'.rest with
    | nil => exact ⟨rfl, al1⟩
    | cons c r =>
      simp only
      by_cases hc : (c != 0x7D) = true
      · simp only [if_pos hc]; exact ⟨rfl, al1⟩
      · simp only [if_neg hc]
        obtain ⟨g, n⟩ := finishPair_step x b a'
        have hn := n hx al1
        rcases hb : b.finishPair x a' with ⟨okF, a1⟩
        rw [hb] at g hn
        simp only at g hn
        subst hn
        have al2 := g.arena.trans al1
        simp only [Bool.not_true, Bool.false_eq_true, ↓reduceIte]
        obtain ⟨d1, d2, d3, d4⟩ := hasDuplicatesA_nofault x hx ks.reverse a1 al2
        rcases hd : hasDuplicatesA x ks.reverse a1 with ⟨⟨dup, ys⟩, a2⟩
        rw [hd] at d1 d2 d3 d4
        simp only at d1 d2 d3 d4 ⊢
        have : (a2.failedArena != a1.failedArena) = false := by simp [d4]
        rw [this, ← d1]
        simp only [Bool.false_eq_true, ↓reduceIte]
        cases dup
        · simp only [Bool.false_eq_true, ↓reduceIte]
          rw [← d2 rfl]
          exact value_request hx d3 _ _
        · exact ⟨rfl, d3⟩
  | ok k st' =>
    simp only
    obtain ⟨e2, al2⟩ := hV (d + 1) dm st' a' al1
    rcases hq2 : readValueA x f (d + 1) dm st' a' with ⟨r2, a''⟩
    rw [hq2] at e2 al2
    simp only at e2 al2
    rw [← e2]
    cases r2 with
    | closer st'' => exact ⟨rfl, al2⟩
    | err e st'' =>
      simp only
      split <;> exact ⟨rfl, al2⟩
    | ok v st'' =>
      simp only
      have hk : ∀ (c : Bool), ((if c then a''.request x.orc .arena else (true, a'')) : Bool × ASt).1 = true ∧
          ((if c then a''.request x.orc .arena else (true, a'')) : Bool × ASt).2.arena = .alive := by
        intro c
        cases c
        · exact ⟨rfl, al2⟩
        · exact ⟨request_nofault x hx .arena a'' 0 (fun _ => al2), (request_fr x .arena a'' 0).arena.trans al2⟩
      obtain ⟨k1, k2⟩ := hk (ns.isSome && qualifyAllocs k)
      rcases hqk : (if (ns.isSome && qualifyAllocs k) = true then a''.request x.orc .arena else (true, a'')) with ⟨okK, a1⟩
      rw [hqk] at k1 k2
      simp only at k1 k2 ⊢
      subst k1
      simp only [Bool.not_true, Bool.false_eq_true, ↓reduceIte]
      obtain ⟨g, n⟩ := addPair_step x b a1
      have hn := n hx k2
      rcases hb : b.addPair x a1 with ⟨ob, a2⟩
      rw [hb] at g hn
      cases ob with
      | none => cases hn
      | some b' => exact hM d dm start ns st'' a2 b' _ _ (g.arena.trans k2)

theorem NN_succ {x : ACtx} (f : Nat) (hV : NV x f) (hM : NM x f) : NN x (f + 1) := by
  intro d dm start st a ha
  rw [readNsMapA, readNsMap_succ]
  unfold rnStep
  obtain ⟨e1, al1⟩ := hV d dm st a ha
  rcases hq : readValueA x f d dm st a with ⟨r, a'⟩
  rw [hq] at e1 al1
  simp only at e1 al1
  rw [← e1]
  cases r with
  | closer st' => exact ⟨rfl, al1⟩
  | err e st' => exact ⟨rfl, al1⟩
  | ok kwv st' =>
    simp only
    split
    · next h name =>
      cases hs : skipWs st'.rest with
      | nil => exact ⟨rfl, al1⟩
      | cons c r =>
        simp only
        by_cases hc : (c == 0x7B) = true
        · simp only [if_pos hc]
          exact hM d dm start (some name) _ a' {} [] [] al1
        · simp only [if_neg hc]; exact ⟨rfl, al1⟩
    · next hne =>
      split
      · next h name => exact (hne h name rfl).elim
      · exact ⟨rfl, al1⟩


theorem NT_succ {x : ACtx} (hx : NoFault x) (f : Nat) (hV : NV x f) : NT x (f + 1) := by
  intro d dm start st a ha
  rw [readTaggedA, readTagged_succ]
  unfold rtStep
  simp only
  cases hs : st.rest with
  | nil => exact ⟨rfl, ha⟩
  | cons c cs =>
    simp only
    by_cases hc : (c == 0x20 || c == 0x09 || c == 0x0A || c == 0x0D || c == 0x2C) = true
    · simp only [if_pos hc]; exact ⟨rfl, ha⟩
    · simp only [if_neg hc]
      obtain ⟨e1, al1⟩ := (readIdentifierA_leaf x st a).nf hx ha
      rcases hq : readIdentifierA x st a with ⟨r, a'⟩
      rw [hq] at e1 al1
      simp only at e1 al1
      rw [← e1]
      cases r with
      | closer st' => exact ⟨rfl, al1⟩
      | err e st' => exact ⟨rfl, al1⟩
      | ok tagv st' =>
        simp only
        split
        · obtain ⟨e2, al2⟩ := hV (d + 1) dm st' a' al1
          rcases hq2 : readValueA x f (d + 1) dm st' a' with ⟨r2, a''⟩
          rw [hq2] at e2 al2
          simp only at e2 al2
          rw [← e2]
          cases r2 with
          | closer st'' => exact ⟨rfl, al2⟩
          | err e st'' => exact ⟨rfl, al2⟩
          | ok v st'' =>
            simp only
            have hpass := value_request hx al2 (.tagged (mkHdr start (x.ctx.pos st''.rest)) none (slice (c :: cs) st'.rest) v) st''
            cases hreg : x.ctx.opts.registry with
            | none => exact hpass
            | some reg =>
              simp only
              cases dm
              · simp only [Bool.false_eq_true, ↓reduceIte]
                cases hh : reg (slice (c :: cs) st'.rest) with
                | some h =>
                  simp only
                  have hk : ∀ (c : Bool), ((if c then a''.request x.orc .arena else (true, a'')) : Bool × ASt).1 = true ∧
                      ((if c then a''.request x.orc .arena else (true, a'')) : Bool × ASt).2.arena = .alive := by
                    intro c
                    cases c
                    · exact ⟨rfl, al2⟩
                    · exact ⟨request_nofault x hx .arena a'' 0 (fun _ => al2), (request_fr x .arena a'' 0).arena.trans al2⟩
                  obtain ⟨k1, k2⟩ := hk (x.handlerReq h.name)
                  rcases hqk : (if x.handlerReq h.name = true then a''.request x.orc .arena else (true, a'')) with ⟨okH, a1⟩
                  rw [hqk] at k1 k2
                  simp only at k1 k2 ⊢
                  subst k1
                  simp only [Bool.not_true, Bool.false_eq_true, ↓reduceIte]
                  cases h.run v with
                  | none => exact ⟨rfl, k2⟩
                  | some r =>
                    refine ⟨rfl, ?_⟩
                    show (a1.rekey r.hdr.s start).arena = .alive
                    unfold ASt.rekey
                    split <;> exact k2
                | none =>
                  simp only
                  by_cases hm1 : (x.ctx.opts.mode == 1) = true
                  · simp only [if_pos hm1]; exact ⟨rfl, al2⟩
                  · simp only [if_neg hm1]
                    by_cases hm2 : (x.ctx.opts.mode == 2) = true
                    · simp only [if_pos hm2]; exact ⟨rfl, al2⟩
                    · simp only [if_neg hm2]; exact hpass
              · exact hpass
        · next hne =>
          split
          · next h md ns nm => exact (hne h md ns nm rfl).elim
          · exact ⟨rfl, al1⟩

theorem NMe_succ {x : ACtx} (hx : NoFault x) (f : Nat) (hV : NV x f) : NMe x (f + 1) := by
  intro d dm start st a ha
  rw [readMetaA, readMeta_succ]
  unfold rmeStep
  simp only
  obtain ⟨e1, al1⟩ := hV (d + 1) dm st a ha
  rcases hq : readValueA x f (d + 1) dm st a with ⟨r, a'⟩
  rw [hq] at e1 al1
  simp only at e1 al1
  rw [← e1]
  cases r with
  | closer st' => exact ⟨rfl, al1⟩
  | err e st' => exact ⟨rfl, al1⟩
  | ok m st' =>
    simp only
    cases hme : metaEntries m with
    | none => exact ⟨rfl, al1⟩
    | some p =>
      obtain ⟨nks, nvs⟩ := p
      simp only
      obtain ⟨e2, al2⟩ := hV (d + 1) dm st' a' al1
      rcases hq2 : readValueA x f (d + 1) dm st' a' with ⟨r2, a''⟩
      rw [hq2] at e2 al2
      simp only at e2 al2
      rw [← e2]
      cases r2 with
      | closer st'' => exact ⟨rfl, al2⟩
      | err e st'' => exact ⟨rfl, al2⟩
      | ok form st'' =>
        simp only
        by_cases hmt : (!form.metaTarget) = true
        · simp only [if_pos hmt]; exact ⟨rfl, al2⟩
        · simp only [if_neg hmt]
          obtain ⟨g, n, -⟩ := attachMetaA_spec x m form nks nvs a''
          have hn := n hx al2
          rcases hqa : attachMetaA x m form nks nvs a'' with ⟨o, a1⟩
          rw [hqa] at g hn
          simp only at g hn
          subst hn
          exact ⟨rfl, g.arena.trans al2⟩


theorem NV_succ {x : ACtx} (hx : NoFault x) (f : Nat) (hV : NV x f) (hS : NS x f) (hM : NM x f)
    (hN : NN x f) (hT : NT x f) (hMe : NMe x f) : NV x (f + 1) := by
  intro d dm st a ha
  rw [readValueA, readValue_succ]
  unfold rvOuter
  simp only
  cases hs0 : st.rest with
  | nil => exact ⟨rfl, ha⟩
  | cons c0 t0 =>
    simp only
    cases hs : (if isPreWs c0 = true then skipWs (c0 :: t0) else c0 :: t0) with
    | nil => exact ⟨rfl, ha⟩
    | cons c cs =>
      simp only
      unfold rvStep
      simp only
      have hdeep : ∀ r0 : Res, NF (r0, a) r0 := fun r0 => ⟨rfl, ha⟩
      cases hd : dispatch x.ctx.cfg c <;> simp only
      · exact (readIdentifierA_leaf x _ a).nf hx ha
      · exact (readStringA_leaf x _ a).nf hx ha
      · exact (readCharacterA_leaf x _ a).nf hx ha
      · split
        · exact hdeep _
        · exact hS d dm 0 _ _ a {} [] ha
      · split
        · exact hdeep _
        · exact hS d dm 1 _ _ a {} [] ha
      · split
        · exact hdeep _
        · exact hM d dm _ none _ a {} [] [] ha
      · cases cs with
        | nil => exact hT d dm _ _ a ha
        | cons nx cs' =>
          simp only
          by_cases h1 : (nx == 0x23) = true
          · simp only [if_pos h1]; exact (readSymbolicA_leaf x _ a).nf hx ha
          · simp only [if_neg h1]
            by_cases h2 : decide (d ≥ Generated.Tables.maxNestingDepth) = true
            · simp only [if_pos h2]; exact hdeep _
            · simp only [if_neg h2]
              by_cases h3 : (nx == 0x7B) = true
              · simp only [if_pos h3]; exact hS d dm 2 _ _ a {} [] ha
              · simp only [if_neg h3]
                by_cases h4 : (nx == 0x5F) = true
                · simp only [if_pos h4]
                  obtain ⟨e1, al1⟩ := hV (d + 1) true { rest := cs', calls := st.calls } a ha
                  rcases hq : readValueA x f (d + 1) true { rest := cs', calls := st.calls } a with ⟨r, a'⟩
                  rw [hq] at e1 al1
                  simp only at e1 al1
                  rw [← e1]
                  cases r with
                  | ok v st' => exact hV d dm st' a' al1
                  | closer st' => exact ⟨rfl, al1⟩
                  | err e st' => exact ⟨rfl, al1⟩
                · simp only [if_neg h4]
                  by_cases h5 : (x.ctx.cfg.clj && nx == 0x3A) = true
                  · simp only [if_pos h5]; exact hN d dm _ _ a ha
                  · simp only [if_neg h5]; exact hT d dm _ _ a ha
      · cases cs with
        | nil => exact (readIdentifierA_leaf x _ a).nf hx ha
        | cons nx tl =>
          simp only
          split
          · exact (readNumberResA_leaf x _ a).nf hx ha
          · exact (readIdentifierA_leaf x _ a).nf hx ha
      · exact (readNumberResA_leaf x _ a).nf hx ha
      · split <;> exact hdeep _
      · split
        · exact hdeep _
        · exact hMe d dm _ _ a ha

/-- refinement of the six reader functions, by induction on the fuel -/
theorem reader_nofault {x : ACtx} (hx : NoFault x) : ∀ f, NV x f ∧ NS x f ∧ NM x f ∧ NN x f ∧ NT x f ∧ NMe x f := by
  intro f
  induction f with
  | zero =>
    refine ⟨?_, ?_, ?_, ?_, ?_, ?_⟩
    · intro d dm st a ha; rw [readValueA, readValue_zero]; exact ⟨rfl, ha⟩
    · intro d dm kind start st a b acc ha; rw [readSeqA, readSeq_zero]; exact ⟨rfl, ha⟩
    · intro d dm start ns st a b ks vs ha; rw [readMapA, readMap_zero]; exact ⟨rfl, ha⟩
    · intro d dm start st a ha; rw [readNsMapA, readNsMap_zero]; exact ⟨rfl, ha⟩
    · intro d dm start st a ha; rw [readTaggedA, readTagged_zero]; exact ⟨rfl, ha⟩
    · intro d dm start st a ha; rw [readMetaA, readMeta_zero]; exact ⟨rfl, ha⟩
  | succ f ih =>
    obtain ⟨hV, hS, hM, hN, hT, hMe⟩ := ih
    exact ⟨NV_succ hx f hV hS hM hN hT hMe, NS_succ hx f hV hS, NM_succ hx f hV hM, NN_succ f hV hM,
      NT_succ hx f hV, NMe_succ hx f hV⟩
end Edn.Proofs.AllocSim
