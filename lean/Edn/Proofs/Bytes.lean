/-
  Edn.Proofs.Bytes — lifting 256-case kernel checks to all bytes; facts about the
  extracted tables (re-checked whenever Tables.lean is regenerated).
-/
import Edn.Model.Scan

namespace Edn.Proofs
open Edn.Model

theorem forall_u8 {p : UInt8 → Prop} (h : ∀ n : Fin 256, p (UInt8.ofNat n.val)) : ∀ c, p c := by
  intro c
  have := h ⟨c.toNat, c.toNat_lt⟩
  simpa using this

/-- Bool-valued version, convenient for `decide +kernel` -/
theorem forall_u8_bool (f : UInt8 → Bool) (h : (List.range 256).all (fun n => f (UInt8.ofNat n)) = true) :
    ∀ c, f c = true := by
  apply forall_u8
  intro n
  have := List.all_eq_true.mp h n.val (by simp)
  simpa using this

/-! ### lane predicates versus the scalar classes extracted from the code -/

def wsLaneSound (c : UInt8) : Bool := !wsLane c || (isWs c && c != 0x3B)
theorem wsLane_sound : ∀ c, wsLaneSound c = true :=
  forall_u8_bool _ (by decide +kernel)

theorem wsLane_isWs {c : UInt8} (h : wsLane c = true) : isWs c = true ∧ (c == 0x3B) = false := by
  have := wsLane_sound c
  simp [wsLaneSound, h] at this
  exact ⟨this.1, by simpa using this.2⟩

def digitLaneIff (c : UInt8) : Bool := digitLane c == isDigit c
theorem digitLane_eq : ∀ c, digitLaneIff c = true := forall_u8_bool _ (by decide +kernel)
theorem digitLane_isDigit (c : UInt8) : digitLane c = isDigit c := by
  have := digitLane_eq c; simpa [digitLaneIff] using this

/-- the digit class of the scanner is exactly '0'..'9' -/
def isDigitIff09 (c : UInt8) : Bool := isDigit c == (0x30 ≤ c && c ≤ 0x39)
theorem isDigit_eq_09 : ∀ c, isDigitIff09 c = true := forall_u8_bool _ (by decide +kernel)

/-! ### the whitespace sets of the different components agree where they must -/

/-- dispatcher pre-filter = scanner whitespace class plus `;` -/
def preWsAgree (c : UInt8) : Bool := isPreWs c == (isWs c || c == 0x3B)
theorem preWs_eq : ∀ c, preWsAgree c = true := forall_u8_bool _ (by decide +kernel)
theorem isPreWs_iff (c : UInt8) : isPreWs c = (isWs c || c == 0x3B) := by
  have := preWs_eq c; simpa [preWsAgree] using this

/-- every whitespace byte and `;` terminates numbers, identifiers and characters -/
def wsTerminates (c : UInt8) : Bool := !(isWs c || c == 0x3B) || (isNumTerm c && isDelim c)
theorem ws_terminates : ∀ c, wsTerminates c = true := forall_u8_bool _ (by decide +kernel)

/-- the scanner's whitespace class is exactly the 11 bytes the documentation lists -/
def wsIsEleven (c : UInt8) : Bool :=
  isWs c == ((0x09 ≤ c && c ≤ 0x0D) || (0x1C ≤ c && c ≤ 0x20) || c == 0x2C)
theorem isWs_eq : ∀ c, wsIsEleven c = true := forall_u8_bool _ (by decide +kernel)

/-- number terminators are delimiters of the identifier table -/
def numTermIsDelim (c : UInt8) : Bool := !isNumTerm c || isDelim c
theorem numTerm_isDelim : ∀ c, numTermIsDelim c = true := forall_u8_bool _ (by decide +kernel)

/-- closing delimiters, quotes and `#` are delimiters; digits, letters, `:` `/` `.` are not -/
theorem delim_closers : isDelim 0x29 = true ∧ isDelim 0x5D = true ∧ isDelim 0x7D = true ∧
    isDelim 0x22 = true ∧ isDelim 0x23 = true ∧ isDelim 0x5C = true := by decide +kernel

end Edn.Proofs
