/-
  Edn.Proofs.ReReadAux4 — continuation independence of the number reader: the outcome of
  `readNumber` on `t ++ r`, when it is a success whose rest still contains all of `r`, is the
  outcome on `t` alone (same payload, rest without `r`); lifted to `readNumberRes`, where the
  header positions (remaining-length coordinates) differ by `r.length`.
-/
import Edn.Proofs.ReReadAux4a
import Edn.Proofs.ReReadAux3

set_option linter.unusedSimpArgs false

namespace Edn.Proofs
open Edn.Model Edn.Spec

/-! ## combinators -/

/-- a cursor result followed by a tail function -/
theorem NumCut_bind {r : Bytes} {eb es : Except Bytes Bytes} {big small : NumOut} {fb fs : Bytes → NumOut}
    (hex : ExCut r eb es) (hlen : ∀ s, numLen (fb s) ≤ s.length) (hf : ∀ u, NumCut r (fb (u ++ r)) (fs u))
    (hbigE : ∀ c, eb = .error c → big = .err c) (hbig : ∀ s, eb = .ok s → big = fb s)
    (hsmall : ∀ s, es = .ok s → small = fs s) : NumCut r big small := by
  intro v rest hb hl
  cases heb : eb with
  | error c => rw [hbigE c heb] at hb; cases hb
  | ok s1 =>
    rw [hbig s1 heb] at hb
    have h1 := hlen s1
    rw [hb] at h1
    simp only [numLen] at h1
    obtain ⟨u1, rfl, hs⟩ := hex s1 heb (by omega)
    rw [hsmall u1 hs]
    exact hf u1 v rest hb hl

theorem dropWhile_append_cons {p : UInt8 → Bool} {u w : Bytes} {b : UInt8} (r : Bytes)
    (h : u.dropWhile p = b :: w) : (u ++ r).dropWhile p = b :: (w ++ r) := by
  rw [List.dropWhile_append, h]; rfl

theorem dropWhile_append_nil {p : UInt8 → Bool} {u : Bytes} (r : Bytes)
    (h : u.dropWhile p = []) : (u ++ r).dropWhile p = r.dropWhile p := by
  rw [List.dropWhile_append, h]; rfl

/-! ## the radix digit runs -/

/-- digit loop of a radix / hex / octal literal followed by its tail -/
def radixRun (cfg : Cfg) (neg : Bool) (rv : Nat) (strict allowN : Bool) (ds s : Bytes) : NumOut :=
  match radixDigitsLoop cfg.exp rv strict (s.length + 1) s with
  | .error cur => .err cur
  | .ok s' => radixTail cfg neg rv allowN ds s'

/-- the same with the "first byte must be a digit" test of the radix and hex forms -/
def radixChecked (cfg : Cfg) (neg : Bool) (rv : Nat) (strict allowN : Bool) (ds : Bytes) : NumOut :=
  if !(digitValue (peek ds) rv).isSome then .err ds else radixRun cfg neg rv strict allowN ds ds

theorem radixRun_len (cfg : Cfg) (neg : Bool) (rv : Nat) (strict allowN : Bool) (ds s : Bytes) :
    numLen (radixRun cfg neg rv strict allowN ds s) ≤ s.length := by
  unfold radixRun
  have hl := radixDigitsLoop_len cfg.exp rv strict (s.length + 1) s
  cases h : radixDigitsLoop cfg.exp rv strict (s.length + 1) s with
  | error cur => rw [h] at hl; exact hl
  | ok s' =>
    rw [h] at hl; simp only [exLen] at hl
    have := radixTail_len cfg neg rv allowN ds s'
    simp only []
    omega

theorem radixRun_consume (cfg : Cfg) (neg : Bool) (rv : Nat) (strict allowN : Bool) (ds : Bytes)
    (c : UInt8) (cs : Bytes) (hr : rv ≤ 36) (hd : (digitValue c rv).isSome = true) :
    numLen (radixRun cfg neg rv strict allowN ds (c :: cs)) ≤ cs.length := by
  unfold radixRun
  have hl := radixDigitsLoop_consume cfg.exp rv strict (cs.length + 1) c cs hr (Or.inl hd)
  simp only [List.length_cons]
  cases h : radixDigitsLoop cfg.exp rv strict (cs.length + 1 + 1) (c :: cs) with
  | error cur => rw [h] at hl; exact hl
  | ok s' =>
    rw [h] at hl; simp only [exLen] at hl
    have := radixTail_len cfg neg rv allowN ds s'
    simp only []
    omega

theorem radixRun_cut (cfg : Cfg) (neg : Bool) (rv : Nat) (strict allowN : Bool) (hr : rv ≤ 36) (ds u r : Bytes) :
    NumCut r (radixRun cfg neg rv strict allowN (ds ++ r) (u ++ r)) (radixRun cfg neg rv strict allowN ds u) := by
  unfold radixRun
  refine NumCut_bind (fb := radixTail cfg neg rv allowN (ds ++ r)) (fs := radixTail cfg neg rv allowN ds)
    (radixDigitsLoop_cut cfg.exp rv strict hr r u ((u ++ r).length + 1) (u.length + 1)
      (by simp only [List.length_append]; omega) (by omega))
    (fun s => radixTail_len ..) (fun u1 => radixTail_cut _ _ _ _ _ _ _) ?_ ?_ ?_
  · intro c h; rw [h]
  · intro s h; rw [h]
  · intro s h; rw [h]

theorem radixChecked_cut (cfg : Cfg) (neg : Bool) (rv : Nat) (strict allowN : Bool) (hr : rv ≤ 36) (ds r : Bytes) :
    NumCut r (radixChecked cfg neg rv strict allowN (ds ++ r)) (radixChecked cfg neg rv strict allowN ds) := by
  unfold radixChecked
  cases ds with
  | cons a ds' =>
    simp only [List.cons_append, peek, List.headD_cons]
    by_cases h : (!(digitValue a rv).isSome) = true
    · simp only [h, reduceIte]; exact NumCut_err _ _ _
    · simp only [h, Bool.false_eq_true, reduceIte]
      exact radixRun_cut cfg neg rv strict allowN hr (a :: ds') (a :: ds') r
  | nil =>
    cases r with
    | nil => exact NumCut_nil _
    | cons c r' =>
      simp only [List.nil_append, peek, List.headD_cons]
      by_cases h : (!(digitValue c rv).isSome) = true
      · simp only [h, reduceIte]; exact NumCut_err _ _ _
      · simp only [h, Bool.false_eq_true, reduceIte]
        apply NumCut_of_numLen
        have := radixRun_consume cfg neg rv strict allowN (c :: r') c r' hr (by
          cases hh : (digitValue c rv).isSome with
          | true => rfl
          | false => simp [hh] at h)
        simp only [List.length_cons]
        omega

/-! ## the radix form `NNr…` -/

theorem radixFormOf_nil (cfg : Cfg) (neg : Bool) (s : Bytes) (h : s.dropWhile is09 = []) :
    radixFormOf cfg neg s = none := by
  unfold radixFormOf
  simp only [h]
  split <;> rfl

theorem radixFormOf_cons (cfg : Cfg) (neg : Bool) (s : Bytes) (b : UInt8) (rrest : Bytes)
    (h : s.dropWhile is09 = b :: rrest) :
    radixFormOf cfg neg s =
      if cfg.clj && is09 (peek s) then
        if b == 0x72 || b == 0x52 then
          if 2 ≤ radixPrefixValue 0 (slice s (b :: rrest)) && radixPrefixValue 0 (slice s (b :: rrest)) ≤ 36 then
            some (radixChecked cfg neg (radixPrefixValue 0 (slice s (b :: rrest))) true false rrest)
          else some (.err s)
        else none
      else none := by
  unfold radixFormOf radixChecked radixRun
  simp only [h]
  split
  · split
    · split
      · split
        · rfl
        · split <;> (rename_i heq; rw [heq])
      · rfl
    · rfl
  · rfl

theorem radixChecked_len (cfg : Cfg) (neg : Bool) (rv : Nat) (strict allowN : Bool) (ds : Bytes) :
    numLen (radixChecked cfg neg rv strict allowN ds) ≤ ds.length := by
  unfold radixChecked
  apply numLen_ite
  · exact Nat.le_refl _
  · exact radixRun_len ..

theorem radixFormOf_cut (cfg : Cfg) (neg : Bool) (u r : Bytes) :
    (∃ big small, radixFormOf cfg neg (u ++ r) = some big ∧ radixFormOf cfg neg u = some small ∧
      NumCut r big small) ∨
    (radixFormOf cfg neg u = none ∧
      ∀ big, radixFormOf cfg neg (u ++ r) = some big → ∀ small, NumCut r big small) := by
  cases hdw : u.dropWhile is09 with
  | nil =>
    right
    refine ⟨radixFormOf_nil _ _ _ hdw, ?_⟩
    intro big hbig small
    have hdw2 := dropWhile_append_nil r hdw
    cases hr : r.dropWhile is09 with
    | nil => rw [radixFormOf_nil _ _ _ (hdw2.trans hr)] at hbig; cases hbig
    | cons b rrest =>
      rw [radixFormOf_cons _ _ _ b rrest (hdw2.trans hr)] at hbig
      have hlr : rrest.length < r.length := by
        have := dropWhile_length_le is09 r
        rw [hr] at this
        simp only [List.length_cons] at this
        omega
      split at hbig
      · split at hbig
        · split at hbig
          · cases hbig
            apply NumCut_of_numLen
            have := radixChecked_len cfg neg (radixPrefixValue 0 (slice (u ++ r) (b :: rrest))) true false rrest
            omega
          · cases hbig; exact NumCut_err _ _ _
        · cases hbig
      · cases hbig
  | cons b rrest =>
    cases u with
    | nil => simp at hdw
    | cons a u' =>
      rw [radixFormOf_cons _ _ _ b (rrest ++ r) (dropWhile_append_cons r hdw),
        radixFormOf_cons _ _ _ b rrest hdw]
      have hs : slice (a :: u' ++ r) (b :: (rrest ++ r)) = slice (a :: u') (b :: rrest) :=
        slice_append_right (a :: u') (b :: rrest) r
      rw [hs]
      simp only [List.cons_append, peek, List.headD_cons]
      generalize radixPrefixValue 0 (slice (a :: u') (b :: rrest)) = rv
      by_cases h1 : (cfg.clj && is09 a) = true
      case neg =>
        right
        simp only [h1, Bool.false_eq_true, reduceIte]
        exact ⟨trivial, fun big h => by cases h⟩
      simp only [h1, reduceIte]
      by_cases h2 : (b == 0x72 || b == 0x52) = true
      case neg =>
        right
        simp only [h2, Bool.false_eq_true, reduceIte]
        exact ⟨trivial, fun big h => by cases h⟩
      simp only [h2, reduceIte]
      left
      by_cases h3 : (decide (2 ≤ rv) && decide (rv ≤ 36)) = true
      case neg =>
        simp only [h3, Bool.false_eq_true, reduceIte]
        exact ⟨_, _, rfl, rfl, NumCut_err _ _ _⟩
      simp only [h3, reduceIte]
      have hr36 : rv ≤ 36 := by
        simp only [Bool.and_eq_true, decide_eq_true_eq] at h3
        exact h3.2
      exact ⟨_, _, rfl, rfl, radixChecked_cut cfg neg rv true false hr36 rrest r⟩
/-! ## the decimal path -/

theorem NumCut_ite_left {r : Bytes} (c : Prop) [Decidable c] {a b small : NumOut}
    (h1 : c → NumCut r a small) (h2 : ¬c → NumCut r b small) :
    NumCut r (if c then a else b) small := by
  by_cases hc : c
  · rw [if_pos hc]; exact h1 hc
  · rw [if_neg hc]; exact h2 hc

/-- what follows the integer digits of the main path -/
def afterDigits (cfg : Cfg) (s0 : Bytes) (neg : Bool) (ds s1 : Bytes) : NumOut :=
  if peek s1 == 0x2E then decimalPart cfg s0 neg ds s1 else afterMantissa cfg s0 neg false ds s1

theorem afterDigits_len (cfg : Cfg) (s0 : Bytes) (neg : Bool) (ds s1 : Bytes) :
    numLen (afterDigits cfg s0 neg ds s1) ≤ s1.length :=
  numLen_ite _ _ _ _ (decimalPart_len ..) (afterMantissa_len ..)

theorem afterDigits_cut (cfg : Cfg) (s0 : Bytes) (neg : Bool) (ds u r : Bytes) :
    NumCut r (afterDigits cfg (s0 ++ r) neg (ds ++ r) (u ++ r)) (afterDigits cfg s0 neg ds u) := by
  unfold afterDigits
  cases u with
  | cons a w =>
    simp only [List.cons_append, peek, List.headD_cons]
    exact NumCut_ite _ (fun _ => decimalPart_cut cfg s0 neg ds (a :: w) r)
      (fun _ => afterMantissa_cut cfg s0 neg false ds (a :: w) r)
  | nil =>
    cases r with
    | nil => simp only [List.append_nil]; exact NumCut_nil _
    | cons c r' =>
      have hs : (peek ([] : Bytes) == 0x2E) = false := by decide
      simp only [hs, Bool.false_eq_true, reduceIte]
      apply NumCut_ite_left
      · intro _
        apply NumCut_of_numLen
        have := decimalPart_len_adv cfg (s0 ++ c :: r') neg (ds ++ c :: r') ([] ++ c :: r')
        simp only [List.nil_append, adv, List.tail_cons] at this
        simp only [List.nil_append, List.length_cons]
        omega
      · intro _
        exact afterMantissa_cut cfg s0 neg false ds [] (c :: r')

theorem decPath_eq (cfg : Cfg) (s0 : Bytes) (neg : Bool) (s : Bytes) :
    decPath cfg s0 neg s =
      match decDigitsLoop cfg.exp (s.length + 1) s with
      | .error cur => .err cur
      | .ok s1 => afterDigits cfg s0 neg s s1 := rfl

theorem decPath_cut (cfg : Cfg) (s0 : Bytes) (neg : Bool) (u r : Bytes) :
    NumCut r (decPath cfg (s0 ++ r) neg (u ++ r)) (decPath cfg s0 neg u) := by
  rw [decPath_eq, decPath_eq]
  refine NumCut_bind (fb := afterDigits cfg (s0 ++ r) neg (u ++ r)) (fs := afterDigits cfg s0 neg u)
    (decDigitsLoop_cut cfg.exp r u ((u ++ r).length + 1) (u.length + 1)
      (by simp only [List.length_append]; omega) (by omega))
    (fun s => afterDigits_len ..) (fun u1 => afterDigits_cut cfg s0 neg u u1 r) ?_ ?_ ?_
  · intro c h; rw [h]
  · intro s h; rw [h]
  · intro s h; rw [h]

/-! ## the zero path -/

/-- the part of the zero path after the Clojure extensions -/
def zeroTail (cfg : Cfg) (s0 : Bytes) (neg : Bool) (ds s2 : Bytes) : NumOut :=
  let c2 := peek s2
  if c2 == 0x2E then decimalPart cfg s0 neg ds s2
  else if c2 == 0x4E then finishNum (.bigint neg 10 [0x30]) (adv s2)
  else if c2 == 0x4D then finishNum (.bigdec neg [0x30]) (adv s2)
  else if c2 == 0x65 || c2 == 0x45 then exponentPart cfg s0 neg false ds s2
  else if cfg.clj && c2 == 0x2F then
    match ratioDenominator (adv s2) with
    | .error cur => .err cur
    | .ok s' => .ok (.int 0) s'
  else finishNum (.int 0) s2

theorem zeroRatio_len (s : Bytes) :
    numLen (match ratioDenominator s with
      | .error cur => NumOut.err cur
      | .ok s' => NumOut.ok (.int 0) s') ≤ s.length := by
  have hr := ratioDenominator_len s
  cases hrd : ratioDenominator s with
  | error cur => rw [hrd] at hr; exact hr
  | ok s' => rw [hrd] at hr; exact hr

theorem zeroRatio_cut (u r : Bytes) :
    NumCut r (match ratioDenominator (u ++ r) with
      | .error cur => NumOut.err cur
      | .ok s' => NumOut.ok (.int 0) s')
     (match ratioDenominator u with
      | .error cur => NumOut.err cur
      | .ok s' => NumOut.ok (.int 0) s') := by
  refine NumCut_bind (fb := fun s' => NumOut.ok (.int 0) s') (fs := fun s' => NumOut.ok (.int 0) s')
    (ratioDenominator_cut u r) (fun s => Nat.le_refl _) (fun u1 => NumCut_ok r u1 _) ?_ ?_ ?_
  · intro c h; rw [h]
  · intro s h; rw [h]
  · intro s h; rw [h]

theorem zeroTail_len_adv (cfg : Cfg) (s0 : Bytes) (neg : Bool) (ds : Bytes) (c : UInt8) (cs : Bytes)
    (h : ¬ (finishNum (.int 0) (c :: cs) = zeroTail cfg s0 neg ds (c :: cs))) :
    numLen (zeroTail cfg s0 neg ds (c :: cs)) ≤ cs.length := by
  unfold zeroTail at h ⊢
  simp only [peek, adv, List.headD_cons, List.tail_cons] at h ⊢
  by_cases h1 : (c == 0x2E) = true
  · simp only [h1, reduceIte]
    exact decimalPart_len_adv cfg s0 neg ds (c :: cs)
  simp only [h1, Bool.false_eq_true, reduceIte] at h ⊢
  by_cases h2 : (c == 0x4E) = true
  · simp only [h2, reduceIte]; rw [finishNum_len]; exact Nat.le_refl _
  simp only [h2, Bool.false_eq_true, reduceIte] at h ⊢
  by_cases h3 : (c == 0x4D) = true
  · simp only [h3, reduceIte]; rw [finishNum_len]; exact Nat.le_refl _
  simp only [h3, Bool.false_eq_true, reduceIte] at h ⊢
  by_cases h4 : (c == 0x65 || c == 0x45) = true
  · simp only [h4, reduceIte]
    exact exponentPart_len_adv cfg s0 neg false ds (c :: cs)
  simp only [h4, Bool.false_eq_true, reduceIte] at h ⊢
  by_cases h5 : (cfg.clj && c == 0x2F) = true
  · simp only [h5, reduceIte]
    exact zeroRatio_len cs
  simp only [h5, Bool.false_eq_true, reduceIte] at h ⊢
  exact absurd trivial h

theorem zeroTail_nil (cfg : Cfg) (s0 : Bytes) (neg : Bool) (ds : Bytes) :
    zeroTail cfg s0 neg ds [] = finishNum (.int 0) [] := by
  unfold zeroTail
  have h1 : (peek ([] : Bytes) == 0x2E) = false := by decide
  have h2 : (peek ([] : Bytes) == 0x4E) = false := by decide
  have h3 : (peek ([] : Bytes) == 0x4D) = false := by decide
  have h4 : (peek ([] : Bytes) == 0x65 || peek ([] : Bytes) == 0x45) = false := by decide
  have h5 : (peek ([] : Bytes) == 0x2F) = false := by decide
  simp only [h1, h2, h3, h4, h5, Bool.and_false, Bool.false_eq_true, reduceIte]

theorem zeroTail_len (cfg : Cfg) (s0 : Bytes) (neg : Bool) (ds s2 : Bytes) :
    numLen (zeroTail cfg s0 neg ds s2) ≤ s2.length := by
  cases s2 with
  | nil => rw [zeroTail_nil, finishNum_len]; exact Nat.le_refl _
  | cons c cs =>
    by_cases h : finishNum (.int 0) (c :: cs) = zeroTail cfg s0 neg ds (c :: cs)
    · rw [← h, finishNum_len]; exact Nat.le_refl _
    · have := zeroTail_len_adv cfg s0 neg ds c cs h
      simp only [List.length_cons]; omega

/-- at the boundary: either a byte of `r` is consumed, or the tail only validates the delimiter -/
theorem zeroTail_cut_nil (cfg : Cfg) (s0 : Bytes) (neg : Bool) (ds r : Bytes) :
    NumCut r (zeroTail cfg (s0 ++ r) neg (ds ++ r) r) (zeroTail cfg s0 neg ds []) := by
  cases r with
  | nil => simp only [List.append_nil]; exact NumCut_nil _
  | cons c r' =>
    rw [zeroTail_nil]
    by_cases h : finishNum (.int 0) (c :: r') = zeroTail cfg (s0 ++ c :: r') neg (ds ++ c :: r') (c :: r')
    · rw [← h]; exact finishNum_cut (.int 0) [] (c :: r')
    · apply NumCut_of_numLen
      have := zeroTail_len_adv cfg _ neg _ c r' h
      simp only [List.length_cons]; omega

theorem zeroTail_cut_cons (cfg : Cfg) (s0 : Bytes) (neg : Bool) (ds : Bytes) (a : UInt8) (w r : Bytes) :
    NumCut r (zeroTail cfg (s0 ++ r) neg (ds ++ r) (a :: w ++ r)) (zeroTail cfg s0 neg ds (a :: w)) := by
  unfold zeroTail
  simp only [List.cons_append, peek, adv, List.headD_cons, List.tail_cons]
  refine NumCut_ite _ (fun _ => decimalPart_cut cfg s0 neg ds (a :: w) r) (fun _ => ?_)
  refine NumCut_ite _ (fun _ => finishNum_cut _ w r) (fun _ => ?_)
  refine NumCut_ite _ (fun _ => finishNum_cut _ w r) (fun _ => ?_)
  refine NumCut_ite _ (fun _ => exponentPart_cut cfg s0 neg false ds (a :: w) r) (fun _ => ?_)
  refine NumCut_ite _ (fun _ => zeroRatio_cut w r) (fun _ => ?_)
  exact finishNum_cut _ (a :: w) r

/-! ## the Clojure extensions of the zero path -/

def octalDigitOk (c : UInt8) : Bool := !(0x31 ≤ c && c ≤ 0x37) || (digitValue c 8).isSome
theorem octalDigit_ok : ∀ c, octalDigitOk c = true := forall_u8_bool _ (by decide +kernel)

/-- the zero path with the Clojure extensions, as a function of the position after the zeros -/
def zeroClj (cfg : Cfg) (s0 : Bytes) (neg : Bool) (ds s2 : Bytes) : NumOut :=
  let c2 := peek s2
  if c2 == 0x78 || c2 == 0x58 then radixChecked cfg neg 16 false true (adv s2)
  else if 0x31 ≤ c2 && c2 ≤ 0x37 then radixRun cfg neg 8 false true ds s2
  else if c2 == 0x38 || c2 == 0x39 then .err s2
  else zeroTail cfg s0 neg ds s2

theorem zeroPath_eq (cfg : Cfg) (s0 : Bytes) (neg : Bool) (ds s1 : Bytes) :
    zeroPath cfg s0 neg ds s1 =
      match cljBranchOf cfg neg ds s1 with
      | (some r, _) => r
      | (none, s2) => zeroTail cfg s0 neg ds s2 := rfl

theorem cljBranchOf_clj (cfg : Cfg) (neg : Bool) (ds s1 : Bytes) (h : cfg.clj = true) :
    cljBranchOf cfg neg ds s1 =
      if peek (s1.dropWhile (· == 0x30)) == 0x78 || peek (s1.dropWhile (· == 0x30)) == 0x58 then
        (some (radixChecked cfg neg 16 false true (adv (s1.dropWhile (· == 0x30)))), s1.dropWhile (· == 0x30))
      else if 0x31 ≤ peek (s1.dropWhile (· == 0x30)) && peek (s1.dropWhile (· == 0x30)) ≤ 0x37 then
        (some (radixRun cfg neg 8 false true ds (s1.dropWhile (· == 0x30))), s1.dropWhile (· == 0x30))
      else if peek (s1.dropWhile (· == 0x30)) == 0x38 || peek (s1.dropWhile (· == 0x30)) == 0x39 then
        (some (.err (s1.dropWhile (· == 0x30))), s1.dropWhile (· == 0x30))
      else (none, s1.dropWhile (· == 0x30)) := by
  unfold cljBranchOf radixChecked radixRun
  simp only [h, reduceIte]
  generalize s1.dropWhile (· == 0x30) = s2
  split
  · split
    · rfl
    · split <;> (rename_i heq; rw [heq])
  · split
    · split <;> (rename_i heq; rw [heq])
    · rfl

theorem zeroPath_clj (cfg : Cfg) (s0 : Bytes) (neg : Bool) (ds s1 : Bytes) (h : cfg.clj = true) :
    zeroPath cfg s0 neg ds s1 = zeroClj cfg s0 neg ds (s1.dropWhile (· == 0x30)) := by
  rw [zeroPath_eq, cljBranchOf_clj _ _ _ _ h]
  unfold zeroClj
  generalize s1.dropWhile (· == 0x30) = s2
  simp only []
  by_cases h1 : (peek s2 == 0x78 || peek s2 == 0x58) = true
  · simp only [h1, reduceIte]
  simp only [h1, Bool.false_eq_true, reduceIte]
  by_cases h2 : (decide (0x31 ≤ peek s2) && decide (peek s2 ≤ 0x37)) = true
  · simp only [h2, reduceIte]
  simp only [h2, Bool.false_eq_true, reduceIte]
  by_cases h3 : (peek s2 == 0x38 || peek s2 == 0x39) = true
  · simp only [h3, reduceIte]
  simp only [h3, Bool.false_eq_true, reduceIte]

theorem zeroPath_core (cfg : Cfg) (s0 : Bytes) (neg : Bool) (ds s1 : Bytes) (h : cfg.clj = false) :
    zeroPath cfg s0 neg ds s1 = if is09 (peek s1) then .err s1 else zeroTail cfg s0 neg ds s1 := by
  rw [zeroPath_eq]
  unfold cljBranchOf
  simp only [h, Bool.false_eq_true, reduceIte]
  by_cases h1 : is09 (peek s1) = true
  · simp only [h1, reduceIte]
  · simp only [h1, Bool.false_eq_true, reduceIte]


theorem zeroClj_len (cfg : Cfg) (s0 : Bytes) (neg : Bool) (ds s2 : Bytes) :
    numLen (zeroClj cfg s0 neg ds s2) ≤ s2.length := by
  unfold zeroClj
  simp only []
  apply numLen_ite
  · have := radixChecked_len cfg neg 16 false true (adv s2)
    have := adv_length_le s2
    omega
  apply numLen_ite
  · exact radixRun_len ..
  apply numLen_ite
  · exact Nat.le_refl _
  · exact zeroTail_len ..

theorem zeroClj_cut_cons (cfg : Cfg) (s0 : Bytes) (neg : Bool) (ds : Bytes) (a : UInt8) (w r : Bytes) :
    NumCut r (zeroClj cfg (s0 ++ r) neg (ds ++ r) (a :: w ++ r)) (zeroClj cfg s0 neg ds (a :: w)) := by
  unfold zeroClj
  simp only [List.cons_append, peek, adv, List.headD_cons, List.tail_cons]
  refine NumCut_ite _ (fun _ => radixChecked_cut cfg neg 16 false true (by omega) w r) (fun _ => ?_)
  refine NumCut_ite _ (fun _ => radixRun_cut cfg neg 8 false true (by omega) ds (a :: w) r) (fun _ => ?_)
  refine NumCut_ite _ (fun _ => NumCut_err _ _ _) (fun _ => ?_)
  exact zeroTail_cut_cons cfg s0 neg ds a w r

theorem zeroClj_nil (cfg : Cfg) (s0 : Bytes) (neg : Bool) (ds : Bytes) :
    zeroClj cfg s0 neg ds [] = zeroTail cfg s0 neg ds [] := by
  unfold zeroClj
  have h1 : (peek ([] : Bytes) == 0x78 || peek ([] : Bytes) == 0x58) = false := by decide
  have h2 : (decide (0x31 ≤ peek ([] : Bytes)) && decide (peek ([] : Bytes) ≤ 0x37)) = false := by decide
  have h3 : (peek ([] : Bytes) == 0x38 || peek ([] : Bytes) == 0x39) = false := by decide
  simp only [h1, h2, h3, Bool.false_eq_true, reduceIte]

theorem zeroClj_cut_nil (cfg : Cfg) (s0 : Bytes) (neg : Bool) (ds r : Bytes) :
    NumCut r (zeroClj cfg (s0 ++ r) neg (ds ++ r) r) (zeroClj cfg s0 neg ds []) := by
  rw [zeroClj_nil]
  cases r with
  | nil => simp only [List.append_nil]; rw [zeroClj_nil]; exact NumCut_nil _
  | cons c r' =>
    unfold zeroClj
    simp only [peek, adv, List.headD_cons, List.tail_cons]
    apply NumCut_ite_left
    · intro _
      apply NumCut_of_numLen
      have := radixChecked_len cfg neg 16 false true r'
      simp only [List.length_cons]; omega
    intro _
    apply NumCut_ite_left
    · intro h
      apply NumCut_of_numLen
      have hd : (digitValue c 8).isSome = true := by
        have := octalDigit_ok c
        simp only [octalDigitOk, Bool.or_eq_true, Bool.not_eq_eq_eq_not, Bool.not_true] at this
        rcases this with h' | h'
        · have h2 : (decide (49 ≤ c) && decide (c ≤ 55)) = true := h
          rw [h'] at h2; cases h2
        · exact h'
      have := radixRun_consume cfg neg 8 false true (ds ++ c :: r') c r' (by omega) hd
      simp only [List.length_cons]; omega
    intro _
    apply NumCut_ite_left
    · intro _; exact NumCut_err _ _ _
    intro _
    exact zeroTail_cut_nil cfg s0 neg ds (c :: r')

theorem zeroPath_cut (cfg : Cfg) (s0 : Bytes) (neg : Bool) (ds u r : Bytes) :
    NumCut r (zeroPath cfg (s0 ++ r) neg (ds ++ r) (u ++ r)) (zeroPath cfg s0 neg ds u) := by
  cases hclj : cfg.clj with
  | true =>
    rw [zeroPath_clj _ _ _ _ _ hclj, zeroPath_clj _ _ _ _ _ hclj]
    cases hd : u.dropWhile (· == 0x30) with
    | cons b w =>
      rw [dropWhile_append_cons r hd]
      exact zeroClj_cut_cons cfg s0 neg ds b w r
    | nil =>
      rw [dropWhile_append_nil r hd]
      by_cases hl : r.length ≤ (r.dropWhile (· == 0x30)).length
      · have : r.dropWhile (· == 0x30) = r := (List.dropWhile_suffix _).eq_of_length_le hl
        rw [this]
        exact zeroClj_cut_nil cfg s0 neg ds r
      · apply NumCut_of_numLen
        have := zeroClj_len cfg (s0 ++ r) neg (ds ++ r) (r.dropWhile (· == 0x30))
        omega
  | false =>
    rw [zeroPath_core _ _ _ _ _ hclj, zeroPath_core _ _ _ _ _ hclj]
    cases u with
    | cons a w =>
      simp only [List.cons_append, peek, List.headD_cons]
      exact NumCut_ite _ (fun _ => NumCut_err _ _ _) (fun _ => zeroTail_cut_cons cfg s0 neg ds a w r)
    | nil =>
      have h0 : is09 (peek ([] : Bytes)) = false := by decide
      simp only [h0, Bool.false_eq_true, reduceIte, List.nil_append]
      apply NumCut_ite_left
      · intro _; exact NumCut_err _ _ _
      · intro _; exact zeroTail_cut_nil cfg s0 neg ds r

/-! ## the whole reader -/

theorem decPath_len' (cfg : Cfg) (s0 : Bytes) (neg : Bool) (s : Bytes) :
    numLen (decPath cfg s0 neg s) ≤ s.length := by
  rw [decPath_eq]
  have hl := decDigitsLoop_len cfg.exp (s.length + 1) s
  cases hd : decDigitsLoop cfg.exp (s.length + 1) s with
  | error cur => rw [hd] at hl; exact hl
  | ok s1 =>
    rw [hd] at hl; simp only [exLen] at hl
    have := afterDigits_len cfg s0 neg s s1
    simp only []
    omega

theorem readNumberBody_cut (cfg : Cfg) (s0 : Bytes) (neg : Bool) (u r : Bytes) :
    NumCut r (readNumberBody cfg (s0 ++ r) neg (u ++ r)) (readNumberBody cfg s0 neg u) := by
  unfold readNumberBody
  rcases radixFormOf_cut cfg neg u r with ⟨big, small, hb, hs, hcut⟩ | ⟨hs, hb⟩
  · rw [hb, hs]; exact hcut
  · rw [hs]
    cases hbig : radixFormOf cfg neg (u ++ r) with
    | some big => exact hb big hbig _
    | none =>
      simp only []
      cases u with
      | cons a w =>
        simp only [List.cons_append, peek, adv, List.headD_cons, List.tail_cons]
        exact NumCut_ite _ (fun _ => zeroPath_cut cfg s0 neg (a :: w) w r)
          (fun _ => decPath_cut cfg s0 neg (a :: w) r)
      | nil =>
        have h0 : (peek ([] : Bytes) == 0x30) = false := by decide
        simp only [h0, Bool.false_eq_true, reduceIte]
        apply NumCut_ite_left
        · intro h
          cases r with
          | nil => exact absurd h (by decide)
          | cons c r' =>
            apply NumCut_of_numLen
            have := zeroPath_len cfg (s0 ++ c :: r') neg ([] ++ c :: r') (adv ([] ++ c :: r'))
            simp only [List.nil_append, adv, List.tail_cons] at this
            simp only [List.nil_append, adv, List.tail_cons, List.length_cons]
            omega
        · intro _
          exact decPath_cut cfg s0 neg [] r


theorem radixFormOf_none_of_not09 (cfg : Cfg) (neg : Bool) (s : Bytes) (h : is09 (peek s) = false) :
    radixFormOf cfg neg s = none := by
  unfold radixFormOf
  simp only [h, Bool.and_false, Bool.false_eq_true, reduceIte]

theorem readNumberBody_len (cfg : Cfg) (s0 : Bytes) (neg : Bool) (s : Bytes) :
    numLen (readNumberBody cfg s0 neg s) ≤ s.length := by
  unfold readNumberBody
  cases hrf : radixFormOf cfg neg s with
  | some res =>
    cases h9 : is09 (peek s) with
    | false => rw [radixFormOf_none_of_not09 cfg neg s h9] at hrf; cases hrf
    | true =>
      have := radixFormOf_prog cfg neg s h9 res hrf
      simp only []
      cases res with
      | ok v rest => simp only [numProg] at this; simp only [numLen]; omega
      | err cur => exact this
  | none =>
    simp only []
    apply numLen_ite
    · have := zeroPath_len cfg s0 neg s (adv s)
      have := adv_length_le s
      omega
    · exact decPath_len' ..

/-- continuation independence of `edn_read_number` -/
theorem readNumber_cut (cfg : Cfg) (t r : Bytes) :
    NumCut r (readNumber cfg (t ++ r)) (readNumber cfg t) := by
  rw [readNumber_eq, readNumber_eq]
  cases t with
  | cons a t' =>
    simp only [List.cons_append, peek, adv, List.headD_cons, List.tail_cons]
    exact NumCut_ite _ (fun _ => readNumberBody_cut cfg (a :: t') (a == 0x2D) t' r)
      (fun _ => readNumberBody_cut cfg (a :: t') false (a :: t') r)
  | nil =>
    have h0 : (peek ([] : Bytes) == 0x2D || peek ([] : Bytes) == 0x2B) = false := by decide
    simp only [h0, Bool.false_eq_true, reduceIte, List.nil_append]
    apply NumCut_ite_left
    · intro h
      cases r with
      | nil => exact absurd h (by decide)
      | cons c r' =>
        apply NumCut_of_numLen
        have := readNumberBody_len cfg (c :: r') (peek (c :: r') == 0x2D) (adv (c :: r'))
        simp only [adv, List.tail_cons] at this
        simp only [adv, List.tail_cons, List.length_cons]
        omega
    · intro _
      exact readNumberBody_cut cfg [] false [] r

theorem shiftV_numToVal (k a b : Nat) (x : NumVal) :
    shiftV k (numToVal (mkHdr a b) x) = numToVal (mkHdr (a + k) (b + k)) x := by
  cases x <;> rfl

/-- the same for the reader-protocol wrapper: header positions differ by `r.length` -/
theorem readNumberRes_cut (ctx : Ctx) (t r : Bytes) (cl : List Call) (v : Val) (st' : St)
    (h : readNumberRes ctx { rest := t ++ r, calls := cl } = .ok v st') (hl : r.length ≤ st'.rest.length) :
    ∃ t' v', st' = { rest := t' ++ r, calls := cl } ∧
      readNumberRes ctx { rest := t, calls := cl } = .ok v' { rest := t', calls := cl } ∧
      shiftV r.length v' = v := by
  unfold readNumberRes at h ⊢
  simp only [] at h ⊢
  cases hb : readNumber ctx.cfg (t ++ r) with
  | err cur => rw [hb] at h; cases h
  | ok nv rest =>
    rw [hb] at h
    simp only [Res.ok.injEq] at h
    obtain ⟨hv, hst⟩ := h
    subst hst
    simp only [] at hl
    obtain ⟨t', rfl, hs⟩ := readNumber_cut ctx.cfg t r nv rest hb hl
    refine ⟨t', numToVal (mkHdr (ctx.pos t) (ctx.pos t')) nv, rfl, ?_, ?_⟩
    · rw [hs]
    · rw [shiftV_numToVal, ← hv]
      simp only [Ctx.pos, List.length_append]

end Edn.Proofs
