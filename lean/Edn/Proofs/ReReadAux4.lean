/-
  Edn.Proofs.ReReadAux4 — continuation independence of the number reader: the outcome of
  `readNumber` on `t ++ r`, when it is a success whose rest still contains all of `r`, is the
  outcome on `t` alone (same payload, rest without `r`); lifted to `readNumberRes`, where the
  header positions (remaining-length coordinates) differ by `r.length`.
-/
import Edn.Proofs.ReReadAux4a
import Edn.Proofs.ReReadAux3Stub

set_option linter.unusedSimpArgs false

namespace Edn.Proofs
open Edn.Model Edn.Spec

/-! ## combinators -/

/-- a cursor result followed by a tail function -/
theorem NumCut_bind {r : Bytes} {eb es : Except Bytes Bytes} {big small : NumOut} {fb fs : Bytes → NumOut}
    (hex : ExCut r eb es) (hlen : ∀ s, numLen (fb s) ≤ s.length) (hf : ∀ u, NumCut r (fb (u ++ r)) (fs u))
    (hbigE : ∀ c, eb = .error c → big = .err c) (hbig : ∀ s, eb = .ok s → big = fb s)
    (hsmall : ∀ s, es = .ok s → small = fs s) : NumCut r big small := by
  intro v rest hb hl
  cases heb : eb with
  | error c => rw [hbigE c heb] at hb; cases hb
  | ok s1 =>
    rw [hbig s1 heb] at hb
    have h1 := hlen s1
    rw [hb] at h1
    simp only [numLen] at h1
    obtain ⟨u1, rfl, hs⟩ := hex s1 heb (by omega)
    rw [hsmall u1 hs]
    exact hf u1 v rest hb hl

theorem dropWhile_append_cons {p : UInt8 → Bool} {u w : Bytes} {b : UInt8} (r : Bytes)
    (h : u.dropWhile p = b :: w) : (u ++ r).dropWhile p = b :: (w ++ r) := by
  rw [List.dropWhile_append, h]; rfl

theorem dropWhile_append_nil {p : UInt8 → Bool} {u : Bytes} (r : Bytes)
    (h : u.dropWhile p = []) : (u ++ r).dropWhile p = r.dropWhile p := by
  rw [List.dropWhile_append, h]; rfl

/-! ## strict length bounds of the tails that consume their first byte -/

theorem decimalPart_len_adv (cfg : Cfg) (start : Bytes) (neg : Bool) (ds s : Bytes) :
    numLen (decimalPart cfg start neg ds s) ≤ (adv s).length := by
  unfold decimalPart
  simp only []
  apply numLen_ite
  · exact Nat.le_refl _
  · have := afterMantissa_len cfg start neg true ds (fracDigits cfg.exp (adv s))
    have := fracDigits_len cfg.exp (adv s)
    omega

theorem exponentPart_len_adv (cfg : Cfg) (start : Bytes) (neg hasDec : Bool) (ds s : Bytes) :
    numLen (exponentPart cfg start neg hasDec ds s) ≤ (adv s).length := by
  unfold exponentPart
  simp only []
  have ha2 := adv_length_le (adv s)
  generalize hs2 : (if (peek (adv s) == 43 || peek (adv s) == 45) = true then adv (adv s) else adv s) = s2
  have hl : s2.length ≤ (adv s).length := by subst hs2; split <;> omega
  apply numLen_ite
  · exact hl
  · have := decimalTail_len cfg start neg hasDec true ds (fracDigits cfg.exp s2)
    have := fracDigits_len cfg.exp s2
    omega

/-! ## the radix digit runs -/

/-- digit loop of a radix / hex / octal literal followed by its tail -/
def radixRun (cfg : Cfg) (neg : Bool) (rv : Nat) (strict allowN : Bool) (ds s : Bytes) : NumOut :=
  match radixDigitsLoop cfg.exp rv strict (s.length + 1) s with
  | .error cur => .err cur
  | .ok s' => radixTail cfg neg rv allowN ds s'

/-- the same with the "first byte must be a digit" test of the radix and hex forms -/
def radixChecked (cfg : Cfg) (neg : Bool) (rv : Nat) (strict allowN : Bool) (ds : Bytes) : NumOut :=
  if !(digitValue (peek ds) rv).isSome then .err ds else radixRun cfg neg rv strict allowN ds ds

theorem radixRun_len (cfg : Cfg) (neg : Bool) (rv : Nat) (strict allowN : Bool) (ds s : Bytes) :
    numLen (radixRun cfg neg rv strict allowN ds s) ≤ s.length := by
  unfold radixRun
  have hl := radixDigitsLoop_len cfg.exp rv strict (s.length + 1) s
  cases h : radixDigitsLoop cfg.exp rv strict (s.length + 1) s with
  | error cur => rw [h] at hl; exact hl
  | ok s' =>
    rw [h] at hl; simp only [exLen] at hl
    have := radixTail_len cfg neg rv allowN ds s'
    simp only []
    omega

theorem radixRun_consume (cfg : Cfg) (neg : Bool) (rv : Nat) (strict allowN : Bool) (ds : Bytes)
    (c : UInt8) (cs : Bytes) (hr : rv ≤ 36) (hd : (digitValue c rv).isSome = true) :
    numLen (radixRun cfg neg rv strict allowN ds (c :: cs)) ≤ cs.length := by
  unfold radixRun
  have hl := radixDigitsLoop_consume cfg.exp rv strict (cs.length + 1) c cs hr (Or.inl hd)
  simp only [List.length_cons]
  cases h : radixDigitsLoop cfg.exp rv strict (cs.length + 1 + 1) (c :: cs) with
  | error cur => rw [h] at hl; exact hl
  | ok s' =>
    rw [h] at hl; simp only [exLen] at hl
    have := radixTail_len cfg neg rv allowN ds s'
    simp only []
    omega

theorem radixRun_cut (cfg : Cfg) (neg : Bool) (rv : Nat) (strict allowN : Bool) (hr : rv ≤ 36) (ds u r : Bytes) :
    NumCut r (radixRun cfg neg rv strict allowN (ds ++ r) (u ++ r)) (radixRun cfg neg rv strict allowN ds u) := by
  unfold radixRun
  refine NumCut_bind (fb := radixTail cfg neg rv allowN (ds ++ r)) (fs := radixTail cfg neg rv allowN ds)
    (radixDigitsLoop_cut cfg.exp rv strict hr r u ((u ++ r).length + 1) (u.length + 1)
      (by simp only [List.length_append]; omega) (by omega))
    (fun s => radixTail_len ..) (fun u1 => radixTail_cut ..) ?_ ?_ ?_
  · intro c h; rw [h]
  · intro s h; rw [h]
  · intro s h; rw [h]

theorem radixChecked_cut (cfg : Cfg) (neg : Bool) (rv : Nat) (strict allowN : Bool) (hr : rv ≤ 36) (ds r : Bytes) :
    NumCut r (radixChecked cfg neg rv strict allowN (ds ++ r)) (radixChecked cfg neg rv strict allowN ds) := by
  unfold radixChecked
  cases ds with
  | cons a ds' =>
    simp only [List.cons_append, peek, List.headD_cons]
    by_cases h : (!(digitValue a rv).isSome) = true
    · simp only [h, reduceIte]; exact NumCut_err ..
    · simp only [h, Bool.false_eq_true, reduceIte]
      exact radixRun_cut cfg neg rv strict allowN hr (a :: ds') (a :: ds') r
  | nil =>
    cases r with
    | nil => exact NumCut_nil _
    | cons c r' =>
      simp only [List.nil_append, peek, List.headD_cons]
      by_cases h : (!(digitValue c rv).isSome) = true
      · simp only [h, reduceIte]; exact NumCut_err ..
      · simp only [h, Bool.false_eq_true, reduceIte]
        apply NumCut_of_numLen
        have := radixRun_consume cfg neg rv strict allowN (c :: r') c r' hr (by simpa using h)
        simp only [List.length_cons]
        omega

end Edn.Proofs
