/-
  Edn.Proofs.ReaderInv — what every value returned by the reader satisfies: its nesting depth
  fits the equality budget, sets and map key lists are duplicate-free (hereditarily), and
  every filled cache cell holds that value's hash.  This is the bridge that makes the
  value-algebra theorems (C07, C08, C09) apply to "every tree the reader returns", and it
  contains the reader half of C08: a set or map literal is accepted only if its elements /
  keys are pairwise non-equal.
-/
import Edn.Proofs.Equal
import Edn.Proofs.Fuel
import Edn.Proofs.ReaderInvAux3

namespace Edn.Proofs
open Edn.Model Edn.Spec Edn.Generated

/-- invariant of a value read at nesting depth `d` -/
def ValOK (cfg : Cfg) (d : Nat) (v : Val) : Prop :=
  depth v + d ≤ Tables.maxNestingDepth ∧ WF cfg v ∧ cacheOK cfg v = true

/-- without a handler registry, every value `edn_read_value` returns at depth `d ≤ limit`
    satisfies the invariant -/
theorem readValue_inv (ctx : Ctx) (hreg : ctx.opts.registry = none) (f d : Nat) (dm : Bool) (st st' : St) (v : Val)
    (hd : d ≤ Tables.maxNestingDepth)
    (h : readValue ctx f d dm st = .ok v st') : ValOK ctx.cfg d v :=
  okP_elim ((reader_inv ctx hreg f).1 d dm st hd) h

/-- top level: the tree `edn_read` returns is well-formed, within the depth that equality,
    hashing and lookup handle, and has valid caches — the hypotheses of the C07/C08/C09 theorems -/
theorem read_inv (cfg : Cfg) (opts : Opts) (hreg : opts.registry = none) (input : Bytes) (v : Val)
    (h : (read cfg opts input).out = .value v) :
    depth v < maxDepthFuel ∧ WF cfg v ∧ cacheOK cfg v = true := by
  unfold Edn.Model.read at h
  simp only [] at h
  cases hr : readValue { cfg := cfg, opts := opts } (readFuel input) 0 false { rest := input } with
  | ok v' st =>
    rw [hr] at h
    simp only [] at h
    cases h
    obtain ⟨h1, h2, h3⟩ := readValue_inv { cfg := cfg, opts := opts } hreg _ 0 false _ _ _ (Nat.zero_le _) hr
    refine ⟨?_, h2, h3⟩
    have := nest_le_rec
    show depth v < Tables.maxRecursionDepth + 1
    omega
  | closer st =>
    rw [hr] at h
    simp only [] at h
    cases h
  | err e st =>
    rw [hr] at h
    simp only [] at h
    repeat' split at h
    all_goals cases h

/-- the closing step of `readSeq` for a set, computed -/
theorem readSeq_close_set (ctx : Ctx) (f d : Nat) (dm : Bool) (start : Nat) (st stc : St) (acc : List Val)
    (r : Bytes) (hcl : readValue ctx f (d + 1) dm st = .closer stc) (hr : stc.rest = 0x7D :: r) :
    readSeq ctx (f + 1) d dm 2 start st acc =
      if (hasDuplicates ctx.cfg acc.reverse).1 = true then
        .err (mkErr .duplicateElement (some start) (some (ctx.pos r))) { stc with rest := r }
      else .ok (.set (mkHdr start (ctx.pos r)) none (hasDuplicates ctx.cfg acc.reverse).2)
        { stc with rest := r } := by
  rw [readSeq_succ]
  unfold rsStep
  rw [hcl]
  simp only [hr]
  rw [if_neg (by decide), if_neg (by decide), if_neg (by decide)]

/-- the closing step of `readMap`, computed -/
theorem readMap_close (ctx : Ctx) (f d : Nat) (dm : Bool) (start : Nat) (ns : Option Bytes) (st stc : St)
    (ks vs : List Val) (r : Bytes)
    (hcl : readValue ctx f (d + 1) dm st = .closer stc) (hr : stc.rest = 0x7D :: r) :
    readMap ctx (f + 1) d dm start ns st ks vs =
      if (hasDuplicates ctx.cfg ks.reverse).1 = true then
        .err (mkErr .duplicateKey (some start) (some (ctx.pos r))) { stc with rest := r }
      else .ok (.map (mkHdr start (ctx.pos r)) none (hasDuplicates ctx.cfg ks.reverse).2 vs.reverse)
        { stc with rest := r } := by
  rw [readMap_succ]
  unfold rmStep
  simp only []
  rw [hcl]
  simp only [hr]
  rw [if_neg (by decide)]

/-- C08, reader half: a set literal whose elements have been read as `xs` (in order) is
    rejected as DUPLICATE_ELEMENT exactly when two of them are equal.  Stated on the closing
    step of `readSeq` (kind 2 = set): the closer `}` has been met with accumulated elements
    `acc` (reversed) -/
theorem set_close_verdict (ctx : Ctx) (f d : Nat) (dm : Bool) (start : Nat) (st stc : St) (acc : List Val) (r : Bytes)
    (hel : Elems ctx.cfg acc.reverse)
    (hcl : readValue ctx f (d + 1) dm st = .closer stc) (hr : stc.rest = 0x7D :: r) :
    (pairwiseDistinct ctx.cfg acc.reverse →
        ∃ h ys, readSeq ctx (f + 1) d dm 2 start st acc = .ok (.set h none ys) { stc with rest := r } ∧
          ys.length = acc.length ∧ pairwiseDistinct ctx.cfg ys) ∧
    (¬ pairwiseDistinct ctx.cfg acc.reverse →
        ∃ e, readSeq ctx (f + 1) d dm 2 start st acc = .err e { stc with rest := r } ∧ e.code = .duplicateElement) := by
  rw [readSeq_close_set ctx f d dm start st stc acc r hcl hr]
  obtain ⟨h1, -, h3, h4, -⟩ := hasDuplicates_iff ctx.cfg acc.reverse hel
  constructor
  · intro hp
    rw [if_neg (by rw [h1.mpr hp]; exact Bool.false_ne_true)]
    exact ⟨_, _, rfl, by rw [h3, List.length_reverse], h4 hp⟩
  · intro hp
    have hdup : (hasDuplicates ctx.cfg acc.reverse).1 = true := by
      cases hq : (hasDuplicates ctx.cfg acc.reverse).1 with
      | true => rfl
      | false => exact absurd (h1.mp hq) hp
    rw [if_pos hdup]
    exact ⟨_, rfl, rfl⟩

/-- the same for maps (keys after namespace qualification) -/
theorem map_close_verdict (ctx : Ctx) (f d : Nat) (dm : Bool) (start : Nat) (ns : Option Bytes) (st stc : St)
    (ks vs : List Val) (r : Bytes)
    (hel : Elems ctx.cfg ks.reverse)
    (hcl : readValue ctx f (d + 1) dm st = .closer stc) (hr : stc.rest = 0x7D :: r) :
    (pairwiseDistinct ctx.cfg ks.reverse →
        ∃ h keys, readMap ctx (f + 1) d dm start ns st ks vs = .ok (.map h none keys vs.reverse) { stc with rest := r } ∧
          keys.length = ks.length ∧ pairwiseDistinct ctx.cfg keys) ∧
    (¬ pairwiseDistinct ctx.cfg ks.reverse →
        ∃ e, readMap ctx (f + 1) d dm start ns st ks vs = .err e { stc with rest := r } ∧ e.code = .duplicateKey) := by
  rw [readMap_close ctx f d dm start ns st stc ks vs r hcl hr]
  obtain ⟨h1, -, h3, h4, -⟩ := hasDuplicates_iff ctx.cfg ks.reverse hel
  constructor
  · intro hp
    rw [if_neg (by rw [h1.mpr hp]; exact Bool.false_ne_true)]
    exact ⟨_, _, rfl, by rw [h3, List.length_reverse], h4 hp⟩
  · intro hp
    have hdup : (hasDuplicates ctx.cfg ks.reverse).1 = true := by
      cases hq : (hasDuplicates ctx.cfg ks.reverse).1 with
      | true => rfl
      | false => exact absurd (h1.mp hq) hp
    rw [if_pos hdup]
    exact ⟨_, rfl, rfl⟩

end Edn.Proofs
