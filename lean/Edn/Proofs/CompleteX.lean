/-
  Edn.Proofs.CompleteX — the converse of `Edn.Proofs.SoundX`: in every configuration every form
  of `Edn.Spec.GrammarX` whose nesting fits the limit is read, in every context, as the value it
  denotes (metadata included) — `formX_is_read`; and the two directions composed at top level —
  `read_iff_X`: `edn_read` returns a tree with content `a` exactly when the input starts with a
  form of the grammar that denotes `a` and whose nesting is within the limit.

  Structural recursion over the three mutually inductive judgements, one lemma per constructor in
  `CompleteXAux1` (tokens), `CompleteXAux2` (collections, tags), `CompleteXAux3` (metadata,
  namespaced maps).
-/
import Edn.Proofs.CompleteXAux3
import Edn.Proofs.SoundX

namespace Edn.Proofs
open Edn.Model Edn.Spec

section
variable {cfg : Cfg} {N : NumJ} {S : StrJ}

mutual
/-- forms of the grammar are read, at every depth that leaves room for their nesting -/
theorem formX_reads (opts : Opts) (hreg : opts.registry = none) (hN : NumExact cfg N) (hS : StrExact cfg S) :
    ∀ {k : Nat} {a : Val} {tok rest : Bytes}, FormX cfg N S k a tok rest →
      ∀ d, d + k ≤ Edn.Generated.Tables.maxNestingDepth → CmplX.ReadsX cfg opts d a tok rest
  | _, _, _, _, .blank k a tr tok rest ht h, d, hd =>
    CmplX.readsX_blank cfg opts d a tr tok rest ht (formX_reads opts hreg hN hS h d hd)
  | _, _, _, _, .discard k a b tok1 tok2 rest hdisc h, d, hd =>
    CmplX.readsX_discard cfg opts d a b tok1 tok2 rest (by omega) (formX_reads opts hreg hN hS hdisc (d + 1) (by omega))
      (formX_reads opts hreg hN hS h d hd)
  | _, _, _, _, .number k tok rest v hs hn, d, _ => CmplX.readsX_number hN opts d tok rest v hs hn
  | _, _, _, _, .ident k tok rest a hl hs hden ht, d, _ => CmplX.readsX_ident cfg opts d tok rest a hl hs hden ht
  | _, _, _, _, .str k tok rest data esc hq hs, d, _ => CmplX.readsX_str hS opts d tok rest data esc hq hs
  | _, _, _, _, .char k body rest cp h hcp ht, d, _ => CmplX.readsX_char cfg opts d body rest cp h hcp ht
  | _, _, _, _, .symbolic k tok rest bits h, d, _ => CmplX.readsX_symbolic cfg opts d tok rest bits h
  | _, _, _, _, .list k xs body rest h, d, hd =>
    CmplX.readsX_list cfg opts d xs body rest (by omega)
      (formSeqX_reads opts hreg hN hS h 0x29 rest rfl (.inl rfl) d (by omega))
  | _, _, _, _, .vec k xs body rest h, d, hd =>
    CmplX.readsX_vec cfg opts d xs body rest (by omega)
      (formSeqX_reads opts hreg hN hS h 0x5D rest rfl (.inr (.inl rfl)) d (by omega))
  | _, _, _, _, .set k xs body rest h hpd, d, hd =>
    CmplX.readsX_set cfg opts hreg d xs body rest (by omega)
      (formSeqX_reads opts hreg hN hS h 0x7D rest rfl (.inr (.inr rfl)) d (by omega)) hpd
  | _, _, _, _, .map k ks vs body rest h hl hpd, d, hd =>
    CmplX.readsX_map cfg opts hreg d ks vs body rest (by omega)
      (formSeqX_reads opts hreg hN hS h 0x7D rest rfl (.inr (.inr rfl)) d (by omega)) hl hpd
  | _, _, _, _, .tagged k tag ns nm a tok rest hl hden hu hsep h, d, hd =>
    CmplX.readsX_tagged cfg opts hreg d tag ns nm a tok rest (by omega) hl hden hu hsep
      (formX_reads opts hreg hN hS h (d + 1) (by omega))
  | _, _, _, _, .withMeta k am af nks nvs tokm tokf rest hc hm he hf ht, d, hd =>
    CmplX.readsX_meta hN hS opts hreg hc d am af nks nvs tokm tokf rest (by omega)
      (formX_reads opts hreg hN hS hm (d + 1) (by omega)) he (formX_reads opts hreg hN hS hf (d + 1) (by omega)) ht
  | _, _, _, _, .nsmap k name tr body rest ks vs hc hl hden ht h hlen hpd, d, hd =>
    CmplX.readsX_nsmap cfg opts hreg hc d name tr body rest ks vs (by omega) hl hden ht
      (formSeqX_reads opts hreg hN hS h 0x7D rest rfl (.inr (.inr rfl)) d (by omega)) hlen hpd

/-- collection bodies in front of a closing delimiter -/
theorem formSeqX_reads (opts : Opts) (hreg : opts.registry = none) (hN : NumExact cfg N) (hS : StrExact cfg S) :
    ∀ {k : Nat} {xs : List Val} {body after : Bytes}, FormSeqX cfg N S k xs body after →
      ∀ (c : UInt8) (rest : Bytes), after = c :: rest → Cmpl.IsCloser c →
      ∀ d, d + 1 + k ≤ Edn.Generated.Tables.maxNestingDepth → CmplX.SeqRX cfg opts d xs body after
  | _, _, _, _, .nil k tr after ht, c, rest, he, hc, d, hd =>
    CmplX.seqRX_nil cfg opts d tr after (trailX_reads opts hreg hN hS ht c rest he hc d hd)
  | _, _, _, _, .cons k a xs tok body after h hr, c, rest, he, hc, d, hd =>
    CmplX.seqRX_cons cfg opts d a xs tok body after (formX_reads opts hreg hN hS h (d + 1) (by omega))
      (formSeqX_reads opts hreg hN hS hr c rest he hc d hd)

/-- blanks and discarded forms in front of a closing delimiter -/
theorem trailX_reads (opts : Opts) (hreg : opts.registry = none) (hN : NumExact cfg N) (hS : StrExact cfg S) :
    ∀ {k : Nat} {tr after : Bytes}, TrailX cfg N S k tr after →
      ∀ (c : UInt8) (rest : Bytes), after = c :: rest → Cmpl.IsCloser c →
      ∀ d, d + 1 + k ≤ Edn.Generated.Tables.maxNestingDepth → CmplX.TrailRX cfg opts d tr after
  | _, _, _, .blank k tr after ht, c, rest, he, hc, d, _ => by
    subst he
    exact CmplX.trailRX_blank cfg opts d tr c rest ht hc
  | _, _, _, .discard k b tr tok tr' after ht hdisc hr, c, rest, he, hc, d, hd =>
    CmplX.trailRX_discard cfg opts d b tr tok tr' after (by omega) ht (formX_reads opts hreg hN hS hdisc (d + 2) (by omega))
      (trailX_reads opts hreg hN hS hr c rest he hc d hd)
end

end

/-- **Completeness in every configuration**: a form whose nesting fits the limit is read, in every
    context (depth, discard mode, call log, sufficient fuel), as the value it denotes -/
theorem formX_is_read (cfg : Cfg) (opts : Opts) (hreg : opts.registry = none) (N : NumJ) (S : StrJ)
    (hN : NumExact cfg N) (hS : StrExact cfg S) (k : Nat) (a : Val) (tok rest : Bytes)
    (h : FormX cfg N S k a tok rest) (d : Nat) (hd : d + k ≤ Edn.Generated.Tables.maxNestingDepth) (dm : Bool) (cl : List Call) (f : Nat)
    (hf : 2 * (tok.length + rest.length) + 2 ≤ f) :
    ∃ v, readValue { cfg := cfg, opts := opts } f d dm { rest := tok ++ rest, calls := cl }
          = .ok v { rest := rest, calls := cl } ∧ stripM v = a :=
  formX_reads opts hreg hN hS h d hd dm cl f hf

/-- top level, both directions, every configuration: `edn_read` (no registry) returns a tree with
    content `a` (metadata included) exactly when the input starts with a form of the grammar that
    denotes `a` and whose nesting is within the limit -/
theorem read_iff_X (cfg : Cfg) (opts : Opts) (hreg : opts.registry = none) (N : NumJ) (S : StrJ)
    (hN : NumExact cfg N) (hS : StrExact cfg S) (input : Bytes) (a : Val) :
    (∃ v, (read cfg opts input).out = .value v ∧ stripM v = a) ↔
    ∃ k tok rest, k ≤ Edn.Generated.Tables.maxNestingDepth ∧ input = tok ++ rest ∧ FormX cfg N S k a tok rest := by
  constructor
  · rintro ⟨v, h, rfl⟩
    unfold Edn.Model.read at h
    simp only [] at h
    cases hr : readValue { cfg := cfg, opts := opts } (readFuel input) 0 false { rest := input } with
    | ok v' st =>
      rw [hr] at h
      simp only [Outcome.value.injEq] at h
      subst h
      obtain ⟨k, tok, hk, h1, -, h2⟩ := readValue_sound_X cfg opts hreg N S hN hS _ 0 false _ st v' hr (Nat.zero_le _)
      exact ⟨k, tok, st.rest, by omega, h1, h2⟩
    | closer st =>
      rw [hr] at h
      simp only [] at h
      cases h
    | err e st =>
      rw [hr] at h
      simp only [] at h
      repeat' split at h
      all_goals cases h
  · rintro ⟨k, tok, rest, hk, rfl, h⟩
    obtain ⟨v, hv, hs⟩ := formX_is_read cfg opts hreg N S hN hS k a tok rest h 0 (by omega) false [] (readFuel (tok ++ rest))
      (by simp only [readFuel, List.length_append]; omega)
    refine ⟨v, ?_, hs⟩
    unfold Edn.Model.read
    simp only []
    rw [hv]

end Edn.Proofs
