/-
  Edn.Proofs.AllocBoundQ3 — the leaf readers (string, text block, character, identifier, symbolic
  value, number) maintain the relation `RelV` of the unconditional bound (Edn.Proofs.AllocBoundQ1):
  a leaf is one node, costs at most two requests (a text block two per line and three more), and
  every byte consumed releases at least four units of the potential `Pot`.
  Port of the leaf-reader part of Edn.Proofs.AllocBoundAux4.
-/
import Edn.Proofs.AllocBoundQ1
import Edn.Proofs.AllocBoundAux4
import Edn.Proofs.RangesAux2

namespace Edn.Proofs.AllocBoundQ
open Edn.Model Edn.Proofs Edn.Proofs.AllocBasic Edn.Proofs.AllocNumber Edn.Proofs.AllocBound

/-- a leaf is a single node -/
theorem sz_of_leaf {v : Val} (hl : isLeaf v = true) : sz v = 1 := by
  cases v <;> simp only [isLeaf] at hl <;> try (simp only [sz])
  case sym h md ns nm =>
    cases md with
    | none => simp only [szO]
    | some m => cases hl
  all_goals exact Bool.noConfusion hl

/-- four units of potential for every byte still to be read -/
theorem four_le_Pot (L : Nat) : 4 * L ≤ Pot L := by
  have := Pot_step (Nat.zero_le L)
  omega

theorem RelV.err_of_stp {c : Nat} {st st' : St} {a a' : ASt} {e : ErrInfo} (h : StpQ c a a')
    (hc : c ≤ 4 * st.rest.length + 2) : RelV st a (.err e st', a') :=
  ⟨h.1, by have := h.2; have := four_le_Pot st.rest.length; simp only; omega⟩

/-! ## Leaf readers -/

section
variable {x : ACtx} (H : HypQ x)
include H

/-- a value of a leaf reader: one request, one node, at least one byte -/
theorem leaf_value_rel (st st' : St) (v : Val) (a : ASt) (ha : a.arena = .alive)
    (hlen : st'.rest.length < st.rest.length) (hsz : sz v = 1) (stE : St) :
    RelV st a
      (let (ok, a1) := a.request x.orc .arena
       if ok then (.ok v st', a1) else (.err oomErr stE, a1)) := by
  have hr := requestQ H.orc .arena a 0 ha
  rcases hq : a.request x.orc .arena with ⟨ok, a1⟩
  rw [hq] at hr
  obtain ⟨hok, hst⟩ := hr
  dsimp only at hok hst ⊢
  subst hok
  simp only [↓reduceIte]
  refine ⟨hst.1, ?_, ?_⟩
  · somega
  · have := hst.2
    have := Pot_step (Nat.le_of_lt hlen)
    simp only
    omega

omit H in
theorem pass_rel (st : St) (a : ASt) (ha : a.arena = .alive) (r : Res) (hp : Progress st r)
    (hnok : ∀ v st', r ≠ .ok v st') : RelV st a (r, a) := by
  refine ⟨ha, ?_⟩
  cases r with
  | ok v st' => exact absurd rfl (hnok v st')
  | closer st' =>
    simp only [Progress] at hp ⊢
    have := Pot_mono hp
    omega
  | err e st' => simp only; omega

theorem readCharacterA_rel (st : St) (a : ASt) (ha : a.arena = .alive)
    (hp : Progress st (readCharacter x.ctx st)) : RelV st a (readCharacterA x st a) := by
  unfold readCharacterA
  have hl := readCharacter_leaf x.ctx st
  cases hrd : readCharacter x.ctx st with
  | ok v st' =>
    rw [hrd] at hl hp
    simp only [LeafPost] at hl
    simp only [Progress] at hp
    exact leaf_value_rel H st st' v a ha hp (sz_of_leaf hl.1) st
  | closer st' => rw [hrd] at hp; exact pass_rel st a ha _ hp (fun _ _ h => by cases h)
  | err e st' => rw [hrd] at hp; exact pass_rel st a ha _ hp (fun _ _ h => by cases h)

theorem readIdentifierA_rel (st : St) (a : ASt) (ha : a.arena = .alive) :
    RelV st a (readIdentifierA x st a) := by
  unfold readIdentifierA
  have hl := readIdentifier_leaf x.ctx st
  have hp := readIdentifier_progress x.ctx st
  cases hrd : readIdentifier x.ctx st with
  | ok v st' =>
    rw [hrd] at hl hp
    simp only [LeafPost] at hl
    simp only [Progress] at hp
    exact leaf_value_rel H st st' v a ha hp (sz_of_leaf hl.1) st'
  | closer st' => rw [hrd] at hp; exact pass_rel st a ha _ hp (fun _ _ h => by cases h)
  | err e st' => rw [hrd] at hp; exact pass_rel st a ha _ hp (fun _ _ h => by cases h)

theorem readSymbolicA_rel (st : St) (a : ASt) (ha : a.arena = .alive)
    (hp : Progress st (readSymbolic x.ctx st)) : RelV st a (readSymbolicA x st a) := by
  unfold readSymbolicA
  have hl := readSymbolic_leaf x.ctx st
  cases hrd : readSymbolic x.ctx st with
  | ok v st' =>
    rw [hrd] at hl hp
    simp only [LeafPost] at hl
    simp only [Progress] at hp
    exact leaf_value_rel H st st' v a ha hp (sz_of_leaf hl.1) st
  | closer st' => rw [hrd] at hp; exact pass_rel st a ha _ hp (fun _ _ h => by cases h)
  | err e st' => rw [hrd] at hp; exact pass_rel st a ha _ hp (fun _ _ h => by cases h)

/-! ### numbers -/

theorem floatHeapA_stp (heap : Bool) (a : ASt) (ha : a.arena = .alive) :
    StpQ 1 a (floatHeapA x heap a).2 := by
  unfold floatHeapA
  have h := (rawAllocQ H.orc .malloc a ha).2
  split
  · split
    · next i a' e => rw [e] at h; exact h.trans (freeQ i a' h.1)
    · next a' e => rw [e] at h; exact h
  · exact StpQ.zero ha

theorem numCreateA_stp (st : St) (a : ASt) (ha : a.arena = .alive) (v : NumVal) (p : Bytes) (validate : Bool) :
    StpQ 2 a (numCreateA x st a v p validate).2 := by
  unfold numCreateA
  have h1 := (requestQ H.orc .arena a 0 ha).2
  have h2 := floatHeapA_stp H (numNeedsHeap x.ctx.cfg v (slice st.rest p)) (a.request x.orc .arena).2 h1.1
  simp only []
  repeat' split
  all_goals first | exact h1.mono (by omega) | exact h1.trans h2

theorem readNumberResA_rel (st : St) (a : ASt) (ha : a.arena = .alive)
    (hp : Progress st (readNumberRes x.ctx st)) : RelV st a (readNumberResA x st a) := by
  have hstp : StpQ 2 a (readNumberResA x st a).2 := by
    unfold readNumberResA
    apply readNumberK_pred (fun r : Res × ASt => StpQ 2 a r.2)
    · intro v p validate; exact numCreateA_stp H st a ha v p validate
    · intro cur; exact StpQ.zero ha
  have hres := readNumberResA_granted x st a (requestQ H.orc .arena a 0 ha).1 (H.orc _)
  have hl := readNumberRes_leaf x.ctx st
  rcases hq : readNumberResA x st a with ⟨r, a'⟩
  rw [hq] at hstp hres
  dsimp only at hstp hres
  refine ⟨hstp.1, ?_⟩
  have hc := hstp.2
  have h4 := four_le_Pot st.rest.length
  cases r with
  | ok v st' =>
    rw [← hres] at hl hp
    simp only [LeafPost] at hl
    simp only [Progress] at hp
    have hs := sz_of_leaf hl.1
    have := Pot_step (Nat.le_of_lt hp)
    refine ⟨?_, ?_⟩
    · somega
    · somega
  | closer st' => exact absurd hres.symm (readNumberRes_notCloser _ _ _)
  | err e st' => simp only; omega

/-! ### strings and text blocks -/

/-- the line loop: two requests per line at most (the line record, the doubled pointer array),
    and every line has at least one byte -/
theorem tbLinesA_rel (start : Nat) (f : Nat) (s : Bytes) (acc : List TbLine) (buf : TbBuf) (a : ASt)
    (ha : a.arena = .alive) :
    (tbLinesA x start f s acc buf a).2.arena = .alive ∧
    match (tbLinesA x start f s acc buf a).1 with
    | .lines _ rest _ => rest.length ≤ s.length ∧
        (tbLinesA x start f s acc buf a).2.reqs + 2 * rest.length ≤ a.reqs + 2 * s.length
    | .fail _ _ => (tbLinesA x start f s acc buf a).2.reqs ≤ a.reqs + 2 * s.length := by
  induction f generalizing s acc buf a with
  | zero =>
    unfold tbLinesA
    have h := releaseQ buf a ha
    exact ⟨h.1, by have := h.2; somega⟩
  | succ f ih =>
    unfold tbLinesA
    split
    · have h := releaseQ buf a ha
      exact ⟨h.1, by have := h.2; somega⟩
    · next hs =>
      have hne : s.length ≠ 0 := by
        intro h0
        exact hs (by rw [List.isEmpty_iff]; exact List.eq_nil_of_length_eq_zero h0)
      -- the pointer array
      have hg : StpQ 1 a (buf.grow x acc.length a).2 := by
        unfold TbBuf.grow
        split
        · have h := (reallocQ H.orc buf.arr a ha).2
          rcases hq : a.realloc x.orc buf.arr with ⟨o, a1⟩
          rw [hq] at h
          cases o <;> exact h
        · exact StpQ.zero ha
      rcases hgq : buf.grow x acc.length a with ⟨ob, a1⟩
      rw [hgq] at hg
      dsimp only at hg
      cases ob with
      | none =>
        dsimp only
        have h := hg.trans (releaseQ buf a1 hg.1)
        exact ⟨h.1, by have := h.2; somega⟩
      | some buf1 =>
        dsimp only
        split
        · have h := hg.trans (releaseQ buf1 a1 hg.1)
          exact ⟨h.1, by have := h.2; somega⟩
        · next ln rest hln =>
          have hlt := tbLine_lt s ln rest hln
          have h2 := (rawAllocQ H.orc .malloc a1 hg.1).2
          rcases hq : a1.rawAlloc x.orc .malloc with ⟨o, a2⟩
          rw [hq] at h2
          dsimp only at h2
          have h12 := hg.trans h2
          cases o with
          | none =>
            dsimp only
            have h := h12.trans (releaseQ buf1 a2 h2.1)
            exact ⟨h.1, by have := h.2; somega⟩
          | some i =>
            dsimp only
            split
            · exact ⟨h12.1, by have := h12.2; somega⟩
            · have h3 := ih rest (ln :: acc) { buf1 with ids := i :: buf1.ids } a2 h2.1
              refine ⟨h3.1, ?_⟩
              have hc := h12.2
              have h3' := h3.2
              revert h3'
              cases (tbLinesA x start f rest (ln :: acc) { buf1 with ids := i :: buf1.ids } a2).1 with
              | lines ls rest' buf' => intro h3'; first | omega | (simp only at h3' ⊢; omega)
              | fail e rest' => intro h3'; first | omega | (simp only at h3' ⊢; omega)

theorem readTextBlockA_rel (st : St) (a : ASt) (ha : a.arena = .alive) (h4 : 4 ≤ st.rest.length) :
    RelV st a (readTextBlockA x st a) := by
  unfold readTextBlockA
  dsimp only
  have h0 := (rawAllocQ H.orc .malloc a ha).2
  rcases hq0 : a.rawAlloc x.orc .malloc with ⟨o, a1⟩
  rw [hq0] at h0
  dsimp only at h0
  cases o with
  | none => exact RelV.err_of_stp h0 (by omega)
  | some arr =>
    dsimp only
    have h1 := tbLinesA_rel H (x.ctx.pos st.rest) ((st.rest.drop 4).length + 2) (st.rest.drop 4) [] { arr := arr } a1 h0.1
    rcases hq1 : tbLinesA x (x.ctx.pos st.rest) ((st.rest.drop 4).length + 2) (st.rest.drop 4) [] { arr := arr } a1 with ⟨out, a2⟩
    rw [hq1] at h1
    have hdl : (st.rest.drop 4).length = st.rest.length - 4 := List.length_drop ..
    have hc0 := h0.2
    have hP := four_le_Pot st.rest.length
    cases out with
    | fail e rest =>
      dsimp only at h1 ⊢
      exact ⟨h1.1, by have := h1.2; simp only; omega⟩
    | lines ls rest buf =>
      dsimp only at h1 ⊢
      obtain ⟨ha2, hrl, hc1⟩ := h1
      have h2 := requestQ H.orc .arena a2 0 ha2
      rcases hq2 : a2.request x.orc .arena with ⟨okT, a3⟩
      rw [hq2] at h2
      obtain ⟨hokT, hst2⟩ := h2
      dsimp only at hokT hst2 ⊢
      subst hokT
      simp only [Bool.not_true, Bool.false_eq_true, ↓reduceIte]
      have h3 := releaseQ buf a3 hst2.1
      have h4' := requestQ H.orc .arena (buf.release a3) 0 h3.1
      rcases hq4 : (buf.release a3).request x.orc .arena with ⟨okV, a5⟩
      rw [hq4] at h4'
      obtain ⟨hokV, hst4⟩ := h4'
      dsimp only at hokV hst4 ⊢
      subst hokV
      simp only [Bool.not_true, Bool.false_eq_true, ↓reduceIte]
      have hc2 := hst2.2
      have hc3 := h3.2
      have hc4 := hst4.2
      have hps := Pot_step (L' := rest.length) (L := st.rest.length) (by omega)
      refine ⟨hst4.1, ?_, ?_⟩
      · simp only [sz]; omega
      · simp only at hc2 hc3 hc4 ⊢
        omega

theorem readStringA_rel (st : St) (a : ASt) (ha : a.arena = .alive) (r : Bytes) (hr : st.rest = 0x22 :: r) :
    RelV st a (readStringA x st a) := by
  unfold readStringA
  split
  · next hc =>
    simp only [Bool.and_eq_true] at hc
    exact readTextBlockA_rel H st a ha (startsWith4_length _ _ _ _ _ hc.2)
  · next hc =>
    have hp := readString_progress x.ctx st (by rw [hr]; exact List.cons_ne_nil _ _)
    have hl := readString_leaf x.ctx st
    cases hrd : readString x.ctx st with
    | ok v st' =>
      rw [hrd] at hp hl
      simp only [Progress] at hp
      simp only [LeafPost] at hl
      exact leaf_value_rel H st st' v a ha hp (sz_of_leaf hl.1) st
    | closer st' => rw [hrd] at hp; exact pass_rel st a ha _ hp (fun _ _ h => by cases h)
    | err e st' => rw [hrd] at hp; exact pass_rel st a ha _ hp (fun _ _ h => by cases h)

end

end Edn.Proofs.AllocBoundQ
