/-
  Edn.Proofs.SoundAux4 — soundness of the dispatch step of `readValue` (core configuration),
  given the soundness of the functions it calls.
-/
import Edn.Proofs.SoundAux3

namespace Edn.Proofs.Snd
open Edn.Model Edn.Spec Edn.Generated Edn.Proofs

theorem elems_nil : Elems Cfg.core [] := fun _ h => by cases h

theorem closerByte_0 : closerByte 0 = 0x29 := rfl
theorem closerByte_1 : closerByte 1 = 0x5D := rfl
theorem closerByte_2 : closerByte 2 = 0x7D := rfl

/-- a sequence collection: from the element loop to the form -/
theorem goodV_of_seq {d : Nat} {cl : List Call} {open_ cs : Bytes} {kind : Nat} {r : Res}
    (h : GoodS d kind [] { rest := cs, calls := cl } r)
    (hform : ∀ k xs body rest a, FormSeq k xs body (closerByte kind :: rest) → SeqVal kind xs a →
      Form (k + 1) a (open_ ++ (body ++ [closerByte kind])) rest) :
    GoodV d { rest := open_ ++ cs, calls := cl } r := by
  refine ⟨?_, fun st' e => absurd e (h.2 st')⟩
  intro v st' e
  obtain ⟨k, xs, body, h1, h2, h3, h4, h5⟩ := h.1 v st' e
  refine ⟨k + 1, open_ ++ (body ++ [closerByte kind]), ?_, h2, ?_, fun _ => by omega⟩
  · show open_ ++ cs = _
    simp only [] at h1
    rw [h1]; simp
  · simp only [List.reverse_nil, stripL_nil', List.nil_append] at h4
    exact hform k xs body st'.rest (strip v) h3 h4
where stripL_nil' : stripL [] = [] := by rw [stripL]

theorem rvStep_sound (ctx : Ctx) (hc : ctx.cfg = Cfg.core) {RV : RVT} {RS : RST} {RM : RMT} {RN RT RMe : R4T}
    (hV : SV RV) (hS : SS RS) (hM : SM RM) (hT : ST RT) (d : Nat) (dm : Bool) (cl : List Call) (c : UInt8) (cs : Bytes) :
    GoodV d { rest := c :: cs, calls := cl } (rvStep ctx RV RS RM RN RT RMe d dm cl c cs) := by
  have hclj : Cfg.core.clj = false := rfl
  unfold rvStep
  simp only [hc]
  cases hd : dispatch Cfg.core c with
  | string =>
    simp only []
    exact goodV_leaf (leaf_not_closer ctx _).1 (fun v st' h => string_ok d ctx hc c cs cl v st' hd h)
  | character =>
    simp only []
    exact goodV_leaf (leaf_not_closer ctx _).2.1 (fun v st' h => character_ok d ctx hc c cs cl v st' hd h)
  | listOpen =>
    simp only []
    have hcc := disp_listOpen hd
    subst hcc
    split
    · exact goodV_err _ _ _ _
    · rename_i hdeep
      have hdd : d < Tables.maxNestingDepth := by simpa using hdeep
      refine goodV_of_seq (open_ := [0x28]) (hS d dm 0 _ { rest := cs, calls := cl } [] hdd elems_nil) ?_
      intro k xs body rest a hseq hval
      simp only [SeqVal, if_true] at hval
      subst hval
      exact .list k xs body rest hseq
  | vectorOpen =>
    simp only []
    have hcc := disp_vectorOpen hd
    subst hcc
    split
    · exact goodV_err _ _ _ _
    · rename_i hdeep
      have hdd : d < Tables.maxNestingDepth := by simpa using hdeep
      refine goodV_of_seq (open_ := [0x5B]) (hS d dm 1 _ { rest := cs, calls := cl } [] hdd elems_nil) ?_
      intro k xs body rest a hseq hval
      simp only [SeqVal, Nat.one_ne_zero, if_false, if_true] at hval
      subst hval
      exact .vec k xs body rest hseq
  | mapOpen =>
    simp only []
    have hcc := disp_mapOpen hd
    subst hcc
    split
    · exact goodV_err _ _ _ _
    · rename_i hdeep
      have hdd : d < Tables.maxNestingDepth := by simpa using hdeep
      have h := hM d dm (Ctx.pos ctx (0x7B :: cs)) { rest := cs, calls := cl } [] [] hdd elems_nil rfl
      refine ⟨?_, fun st' e => absurd e (h.2 st')⟩
      intro v st' e
      obtain ⟨k, ks', vs', body, h1, h2, h3, h4, h5, h6, h7⟩ := h.1 v st' e
      refine ⟨k + 1, 0x7B :: (body ++ [0x7D]), ?_, h2, ?_, fun _ => by omega⟩
      · show 0x7B :: cs = _
        simp only [] at h1
        rw [h1]; simp
      · have e0 : stripL [] = [] := by rw [stripL]
        simp only [List.reverse_nil, e0, List.nil_append] at h5 h6
        rw [h5]
        exact .map k ks' vs' body st'.rest h3 h4 h6
  | hash =>
    simp only []
    have hcc := disp_hash hd
    subst hcc
    cases cs with
    | nil =>
      simp only []
      have h := hT d dm (Ctx.pos ctx [0x23]) { rest := [], calls := cl }
      refine ⟨?_, fun st' e => absurd e (h.2 st')⟩
      intro v st' e
      obtain ⟨k, tag, ns, nm, a, tok, h1, -, hl, -⟩ := h.1 v st' e
      exfalso
      simp only [] at h1
      have := hl.1
      cases tag with
      | nil => exact this rfl
      | cons _ _ => cases h1
    | cons nx cs' =>
      simp only []
      split
      · rename_i hnx
        have : nx = 0x23 := by simpa using hnx
        subst this
        exact goodV_leaf (leaf_not_closer ctx _).2.2.2.1 (fun v st' h => symbolic_ok d ctx cs' cl v st' h)
      split
      · exact goodV_err _ _ _ _
      rename_i hnx1 hdeep
      have hdd : d < Tables.maxNestingDepth := by simpa using hdeep
      split
      · rename_i hnx
        have : nx = 0x7B := by simpa using hnx
        subst this
        refine goodV_of_seq (open_ := [0x23, 0x7B]) (hS d dm 2 _ { rest := cs', calls := cl } [] hdd elems_nil) ?_
        intro k xs body rest a hseq hval
        simp only [SeqVal] at hval
        rw [if_neg (by decide), if_neg (by decide)] at hval
        obtain ⟨rfl, hpd⟩ := hval
        exact .set k xs body rest hseq hpd
      rename_i hnx2
      split
      · rename_i hnx
        have : nx = 0x5F := by simpa using hnx
        subst this
        -- a discarded form, then the form (or the closing delimiter)
        cases h1 : RV (d + 1) true { rest := cs', calls := cl } with
        | err e st1 => exact goodV_err _ _ _ _
        | closer st1 => exact goodV_err _ _ _ _
        | ok b st1 =>
          simp only []
          obtain ⟨k1, tok1, e1, c1, f1, b1⟩ := (hV (d + 1) true { rest := cs', calls := cl }).1 b st1 h1
          simp only [] at e1 c1
          have hb1 : d + (k1 + 1) ≤ Tables.maxNestingDepth := by
            have := b1 (by omega)
            omega
          have h2 := hV d dm st1
          constructor
          · intro v st' e
            obtain ⟨k2, tok2, e2, c2, f2, b2⟩ := h2.1 v st' e
            refine ⟨max k1 (k2 - 1) + 1, 0x23 :: 0x5F :: (tok1 ++ tok2), ?_, by rw [c2, c1], ?_, ?_⟩
            · show 0x23 :: 0x5F :: cs' = _
              rw [e1, e2]; simp
            · rw [e2] at f1
              exact .discard (max k1 (k2 - 1)) (strip v) (strip b) tok1 tok2 st'.rest
                (form_mono f1 _ (Nat.le_max_left _ _)) (form_mono f2 _ (by have := Nat.le_max_right k1 (k2 - 1); omega))
            · intro hdm
              have := b2 hdm
              rcases Nat.le_total k1 (k2 - 1) with hle | hle
              · rw [Nat.max_eq_right hle]; omega
              · rw [Nat.max_eq_left hle]; omega
          · intro st' e
            obtain ⟨k2, tr2, e2, c2, t2, b2, hpos, hcl⟩ := h2.2 st' e
            refine ⟨max k1 (k2 - 1) + 1, [] ++ 0x23 :: 0x5F :: (tok1 ++ tr2), ?_, by rw [c2, c1], ?_, ?_, hpos, hcl⟩
            · show 0x23 :: 0x5F :: cs' = _
              rw [e1, e2]; simp
            · rw [e2] at f1
              exact .discard (max k1 (k2 - 1)) (strip b) [] tok1 tr2 st'.rest .nil
                (form_mono f1 _ (Nat.le_max_left _ _)) (trail_mono t2 _ (by have := Nat.le_max_right k1 (k2 - 1); omega))
            · intro hdm
              have := b2 hdm
              rcases Nat.le_total k1 (k2 - 1) with hle | hle
              · rw [Nat.max_eq_right hle]; omega
              · rw [Nat.max_eq_left hle]; omega
      rename_i hnx3
      simp only [hclj, Bool.false_and, Bool.false_eq_true, if_false]
      -- a tagged element
      have h := hT d dm (Ctx.pos ctx (0x23 :: nx :: cs')) { rest := nx :: cs', calls := cl }
      refine ⟨?_, fun st' e => absurd e (h.2 st')⟩
      intro v st' e
      obtain ⟨k, tag, ns, nm, a, tok, h1, h2, hl, hden, hsep, hf, hv, hb⟩ := h.1 v st' e
      simp only [] at h1 h2
      refine ⟨k + 1, 0x23 :: (tag ++ tok), ?_, h2, ?_, fun _ => by have := hb (by omega); omega⟩
      · show 0x23 :: nx :: cs' = _
        rw [h1]; simp
      · rw [hv]
        refine .tagged k tag ns nm a tok st'.rest hl hden ?_ hsep hf
        cases tag with
        | nil => exact absurd rfl hl.1
        | cons t0 tt =>
          simp only [List.cons_append, List.cons.injEq] at h1
          simp only [List.head?_cons, ne_eq, Option.some.injEq]
          intro ht0
          rw [h1.1, ht0] at hnx3
          simp at hnx3
  | sign =>
    simp only []
    have hsg : c = 0x2B ∨ c = 0x2D := by simpa using dispatch_sign (cfg := Cfg.core) hd
    have hnd : is09 c = false := by rcases hsg with rfl | rfl <;> decide
    cases cs with
    | nil =>
      simp only []
      exact goodV_leaf (leaf_not_closer ctx _).2.2.1
        (fun v st' h => identifier_ok d ctx c [] cl v st' ⟨hnd, fun _ nx t' e => by cases e⟩ h)
    | cons nx t =>
      simp only []
      split
      · rename_i hnx
        exact goodV_leaf (leaf_not_closer ctx _).2.2.2.2
          (fun v st' h => number_ok d ctx hc c (nx :: t) cl v st' (.inr ⟨hsg, nx, t, rfl, hnx⟩) h)
      · rename_i hnx
        refine goodV_leaf (leaf_not_closer ctx _).2.2.1
          (fun v st' h => identifier_ok d ctx c (nx :: t) cl v st' ⟨hnd, fun _ nx' t' e => ?_⟩ h)
        simp only [List.cons.injEq] at e
        rw [← e.1]
        simpa using hnx
  | digit =>
    simp only []
    exact goodV_leaf (leaf_not_closer ctx _).2.2.2.2
      (fun v st' h => number_ok d ctx hc c cs cl v st' (.inl (dispatch_digit (cfg := Cfg.core) hd)) h)
  | delimiter =>
    simp only []
    split
    · exact goodV_err _ _ _ _
    · rename_i hd0
      refine ⟨fun _ _ e => (by cases e), ?_⟩
      intro st' e
      simp only [Res.closer.injEq] at e
      subst e
      have hpos : 0 < d := by
        have : d ≠ 0 := by simpa using hd0
        omega
      exact ⟨0, [], rfl, rfl, .blank 0 [] _ .nil, fits_zero d, hpos, c, cs, rfl, disp_delimiter hd⟩
  | metadata => exact absurd hd (disp_not_metadata c)
  | identifier =>
    simp only []
    obtain ⟨h1, h2, h3⟩ := disp_identifier hd
    exact goodV_leaf (leaf_not_closer ctx _).2.2.1
      (fun v st' h => identifier_ok d ctx c cs cl v st' ⟨h3, fun hsg => by rcases hsg with e | e <;> contradiction⟩ h)

/-- `readValue` with positive fuel -/
theorem rvOuter_sound (ctx : Ctx) (hc : ctx.cfg = Cfg.core) {RV : RVT} {RS : RST} {RM : RMT} {RN RT RMe : R4T}
    (hV : SV RV) (hS : SS RS) (hM : SM RM) (hT : ST RT) : SV (rvOuter ctx RV RS RM RN RT RMe) := by
  intro d dm st
  unfold rvOuter
  cases hs : st.rest with
  | nil => exact goodV_err _ _ _ _
  | cons c0 t =>
    simp only []
    cases hw : (if isPreWs c0 = true then skipWs (c0 :: t) else c0 :: t) with
    | nil => exact goodV_err _ _ _ _
    | cons c cs =>
      simp only []
      obtain ⟨tr, hb, htr⟩ := preSkip_inv hw
      have h := rvStep_sound ctx hc (RN := RN) (RMe := RMe) hV hS hM hT d dm st.calls c cs
      constructor
      · intro v st' e
        obtain ⟨k, tok, e1, c1, f1, b1⟩ := h.1 v st' e
        simp only [] at e1 c1
        refine ⟨k, tr ++ tok, ?_, c1, .blank k _ tr tok st'.rest hb f1, b1⟩
        rw [hs, htr, e1]; simp
      · intro st' e
        obtain ⟨k, tr2, e1, c1, t1, b1, hpos, hcl⟩ := h.2 st' e
        simp only [] at e1 c1
        refine ⟨k, tr ++ tr2, ?_, c1, trail_blank hb t1, b1, hpos, hcl⟩
        rw [hs, htr, e1]; simp

end Edn.Proofs.Snd
