/-
  Edn.Proofs.AllocSimAux11 — fault theorem, part 4: the induction steps for `#:ns{…}`, tagged
  elements, metadata and `edn_read_value` itself, and the induction on the fuel (`reader_fault`).
-/
import Edn.Proofs.AllocSimAux10

namespace Edn.Proofs.AllocSim
open Edn.Model Edn.Spec Edn.Proofs Edn.Generated Edn.Proofs.AllocBasic

section
variable {x : ACtx}

def FN (x : ACtx) (f : Nat) : Prop := ∀ d dm start st a, d < Tables.maxNestingDepth →
  RelF x.ctx.cfg d (readNsMapA x f d dm start st a).1 (readNsMap x.ctx f d dm start st)

def FMe (x : ACtx) (f : Nat) : Prop := ∀ d dm start st a, d < Tables.maxNestingDepth →
  RelF x.ctx.cfg d (readMetaA x f d dm start st a).1 (readMeta x.ctx f d dm start st)

theorem no_mem {P : Val → Prop} : ∀ y ∈ ([] : List Val), P y := fun _ h => nomatch h

theorem FN_succ (f : Nat) (hV : FV x f) (hM : FM x f) : FN x (f + 1) := by
  intro d dm start st a hd
  rw [readNsMapA, readNsMap_succ]
  unfold rnStep
  have hrel := hV d dm st a (by omega)
  rcases hq : readValueA x f d dm st a with ⟨r, a'⟩
  rw [hq] at hrel
  simp only at hrel ⊢
  cases r with
  | closer st' =>
    have hrel' : readValue x.ctx f d dm st = .closer st' := hrel
    rw [hrel']
    rfl
  | err e st' =>
    refine ⟨fun ht => ?_, fun hf => ?_⟩
    · obtain ⟨h0, hr⟩ := hrel.1 ht
      rw [hr]
      exact ⟨h0, rfl⟩
    · obtain ⟨e0, s0, hr, hf0⟩ := hrel.2 hf
      rw [hr]
      exact ⟨_, _, rfl, hf0⟩
  | ok kwv st' =>
    obtain ⟨kwv0, hr0, g⟩ := hrel
    rw [hr0]
    simp only
    split
    · next h name =>
      obtain ⟨h0, rfl⟩ := kw_of_erase g.er
      simp only
      cases hs : skipWs st'.rest with
      | nil => exact RelF_nt rfl rfl
      | cons c r =>
        simp only
        by_cases hc : (c == 0x7B) = true
        · simp only [if_pos hc]
          exact hM d dm start (some name) _ a' {} [] [] [] [] hd rfl rfl no_mem no_mem no_mem no_mem rfl rfl
        · simp only [if_neg hc]; exact RelF_nt rfl rfl
    · exact RelF_nt rfl rfl

theorem FT_succ (hR : RegistryOK x.ctx.cfg x.ctx.opts) (f : Nat) (hV : FV x f) : FT x (f + 1) := by
  intro d dm start st a hd
  rw [readTaggedA, readTagged_succ]
  unfold rtStep
  simp only
  cases hs : st.rest with
  | nil => exact RelF_nt rfl rfl
  | cons c cs =>
    have hlt : d < Tables.maxNestingDepth := by
      rcases hd with h | h
      · exact h
      · rw [hs] at h; cases h
    simp only
    by_cases hc : (c == 0x20 || c == 0x09 || c == 0x0A || c == 0x0D || c == 0x2C) = true
    · simp only [if_pos hc]; exact RelF_nt rfl rfl
    · simp only [if_neg hc]
      have hl := readIdentifierA_leaf x st a
      rcases hq : readIdentifierA x st a with ⟨r, a'⟩
      rw [hq] at hl
      rcases hl.fault with e | e
      · simp only at e
        rw [← e]
        cases r with
        | closer st' => rfl
        | err e' st' =>
          have hnt := readIdentifier_ntop x.ctx st
          rw [← e] at hnt
          exact RelF_nt hnt.1 hnt.2
        | ok tagv st' =>
          simp only
          split
          · have hrel := hV (d + 1) dm st' a' (by omega)
            rcases hq2 : readValueA x f (d + 1) dm st' a' with ⟨r2, a''⟩
            rw [hq2] at hrel
            simp only at hrel ⊢
            cases r2 with
            | closer st'' => exact RelF_nt rfl rfl
            | err e st'' =>
              refine RelF_pass hrel (fun e0 s0 hr hf => ?_)
              rw [hr]
              exact ⟨_, _, rfl, hf⟩
            | ok v st'' =>
              obtain ⟨v0, hr2, g⟩ := hrel
              rw [hr2]
              simp only
              have hpass : RelF x.ctx.cfg d
                  (if (!(a''.request x.orc .arena).1) = true then (Res.err oomErr st'', (a''.request x.orc .arena).2)
                   else (Res.ok (.tagged (mkHdr start (x.ctx.pos st''.rest)) none (slice (c :: cs) st'.rest) v) st'',
                         (a''.request x.orc .arena).2)).1
                  (Res.ok (.tagged (mkHdr start (x.ctx.pos st''.rest)) none (slice (c :: cs) st'.rest) v0) st'') :=
                RelF_value ⟨erase_tagged _ _ g.er, VOK_tagged _ _ _ g.ok, VOK_tagged _ _ _ g.ok0,
                  MdOK_of_none rfl, MdOK_of_none rfl⟩
              cases hregc : x.ctx.opts.registry with
              | none => exact hpass
              | some reg =>
                simp only
                cases dm
                · simp only [Bool.false_eq_true, ↓reduceIte]
                  cases hh : reg (slice (c :: cs) st'.rest) with
                  | some h =>
                    simp only
                    obtain ⟨rs, re⟩ := range_of_erase g.er
                    rw [rs, re]
                    rcases hqk : (if x.handlerReq h.name = true then a''.request x.orc .arena else (true, a'')) with ⟨okH, a1⟩
                    simp only
                    cases okH
                    · exact RelF_nt rfl rfl
                    · simp only [Bool.not_true, Bool.false_eq_true, ↓reduceIte]
                      have hok := hR reg hregc _ h hh d v v0 g
                      cases hrun : h.run v with
                      | none =>
                        rw [hrun] at hok
                        exact RelF_nt rfl rfl
                      | some r =>
                        rw [hrun] at hok
                        cases hrun0 : h.run v0 with
                        | none => rw [hrun0] at hok; exact hok.elim
                        | some r0 =>
                          rw [hrun0] at hok
                          simp only at hok ⊢
                          exact ⟨_, rfl, hok.setRange start (x.ctx.pos st''.rest)⟩
                  | none =>
                    simp only
                    by_cases hm1 : (x.ctx.opts.mode == 1) = true
                    · simp only [if_pos hm1]; exact ⟨v0, rfl, g.weaken⟩
                    · simp only [if_neg hm1]
                      by_cases hm2 : (x.ctx.opts.mode == 2) = true
                      · simp only [if_pos hm2]; exact RelF_nt rfl rfl
                      · simp only [if_neg hm2]; exact hpass
                · exact hpass
          · exact RelF_nt rfl rfl
      · simp only at e
        cases r with
        | closer st' => exact e.elim
        | ok v st' => exact e.elim
        | err e' st' => exact RelF_nt e.1 e.2

theorem FMe_succ (f : Nat) (hV : FV x f) : FMe x (f + 1) := by
  intro d dm start st a hd
  rw [readMetaA, readMeta_succ]
  unfold rmeStep
  simp only
  have hrel := hV (d + 1) dm st a (by omega)
  rcases hq : readValueA x f (d + 1) dm st a with ⟨r, a'⟩
  rw [hq] at hrel
  simp only at hrel ⊢
  cases r with
  | closer st' => exact RelF_nt rfl rfl
  | err e st' =>
    refine RelF_pass hrel (fun e0 s0 hr hf => ?_)
    rw [hr]
    exact ⟨_, _, rfl, hf⟩
  | ok m st' =>
    obtain ⟨m0, hr0, gm⟩ := hrel
    rw [hr0]
    simp only
    have hm0 := gm.ok0
    cases hme : metaEntries m with
    | none => exact RelF_nt rfl rfl
    | some p =>
      obtain ⟨nks, nvs⟩ := p
      have hme0 := metaEntries_of_erase gm.er
      rw [hme] at hme0
      cases hme0' : metaEntries m0 with
      | none => rw [hme0'] at hme0; cases hme0
      | some p0 =>
        obtain ⟨nks0, nvs0⟩ := p0
        rw [hme0'] at hme0
        simp only [eraseEntries, Option.some.injEq, Prod.mk.injEq] at hme0
        obtain ⟨hk, hv⟩ := hme0
        simp only
        have hrel2 := hV (d + 1) dm st' a' (by omega)
        rcases hq2 : readValueA x f (d + 1) dm st' a' with ⟨r2, a''⟩
        rw [hq2] at hrel2
        simp only at hrel2 ⊢
        cases r2 with
        | closer st'' => exact RelF_nt rfl rfl
        | err e st'' =>
          refine RelF_pass hrel2 (fun e0 s0 hr hf => ?_)
          rw [hr]
          exact ⟨_, _, rfl, hf⟩
        | ok form st'' =>
          obtain ⟨form0, hr2, gf⟩ := hrel2
          rw [hr2]
          simp only
          have hf0 := gf.ok0
          by_cases hmt : (!form.metaTarget) = true
          · simp only [if_pos hmt]; exact RelF_nt rfl rfl
          · have hmt0 : ¬ (!form0.metaTarget) = true := by rw [← metaTarget_of_erase gf.er]; exact hmt
            simp only [if_neg hmt, if_neg hmt0]
            have ht : form.metaTarget = true := by simpa using hmt
            have ht0 : form0.metaTarget = true := by simpa using hmt0
            obtain ⟨-, -, hsome⟩ := attachMetaA_spec x m form nks nvs a''
            rcases hqa : attachMetaA x m form nks nvs a'' with ⟨o, a1⟩
            rw [hqa] at hsome
            cases o with
            | none => exact RelF_nt rfl rfl
            | some form' =>
              have ef := hsome form' rfl
              subst ef
              simp only
              have en := El_metaEntries gm.ok hme
              have en0 := El_metaEntries hm0 hme0'
              have ea := attachMeta_erase x.ctx.cfg (m := m) (m0 := m0) gf.er hk hv en en0 gf.md gf.md0
              exact ⟨_, rfl, setStart_of_erase start ea, VOK_meta m nks nvs start gf.ok, VOK_meta m0 nks0 nvs0 start hf0,
                MdOK_setHdr _ (MdOK_attachMeta ht en gf.md), MdOK_setHdr _ (MdOK_attachMeta ht0 en0 gf.md0)⟩

theorem FV_succ (f : Nat) (hV : FV x f) (hS : FS x f) (hM : FM x f)
    (hN : FN x f) (hT : FT x f) (hMe : FMe x f) : FV x (f + 1) := by
  intro d dm st a hd
  rw [readValueA, readValue_succ]
  unfold rvOuter
  simp only
  have heof : ∀ (s : St), RelF x.ctx.cfg d
      (Res.err { code := .unexpectedEof, es := none, ee := none, eofTop := d == 0 } s) (eofErrOf d s) :=
    fun s => ⟨fun h => ⟨by simpa using h, rfl⟩, fun h => by cases h⟩
  cases hs0 : st.rest with
  | nil => exact heof _
  | cons c0 t0 =>
    simp only
    cases hs : (if isPreWs c0 = true then skipWs (c0 :: t0) else c0 :: t0) with
    | nil => exact heof _
    | cons c cs =>
      simp only
      unfold rvStep
      simp only
      cases hdisp : dispatch x.ctx.cfg c <;> simp only
      · exact RelF_leaf (readIdentifierA_leaf x _ a) (readIdentifier_leaf _ _) (readIdentifier_noMd _ _) (readIdentifier_ntop _ _) hd
      · exact RelF_leaf (readStringA_leaf x _ a) (readString_leaf _ _) (readString_noMd _ _) (readString_ntop _ _) hd
      · exact RelF_leaf (readCharacterA_leaf x _ a) (readCharacter_leaf _ _) (readCharacter_noMd _ _) (readCharacter_ntop _ _) hd
      · by_cases h2 : decide (d ≥ Tables.maxNestingDepth) = true
        · simp only [if_pos h2]; exact RelF_nt rfl rfl
        · simp only [if_neg h2]
          exact hS d dm 0 _ _ a {} [] [] (lt_of_not_deep h2) rfl no_mem no_mem
      · by_cases h2 : decide (d ≥ Tables.maxNestingDepth) = true
        · simp only [if_pos h2]; exact RelF_nt rfl rfl
        · simp only [if_neg h2]
          exact hS d dm 1 _ _ a {} [] [] (lt_of_not_deep h2) rfl no_mem no_mem
      · by_cases h2 : decide (d ≥ Tables.maxNestingDepth) = true
        · simp only [if_pos h2]; exact RelF_nt rfl rfl
        · simp only [if_neg h2]
          exact hM d dm _ none _ a {} [] [] [] [] (lt_of_not_deep h2) rfl rfl no_mem no_mem no_mem no_mem rfl rfl
      · cases cs with
        | nil => exact hT d dm _ _ a (Or.inr rfl)
        | cons nx cs' =>
          simp only
          by_cases h1 : (nx == 0x23) = true
          · simp only [if_pos h1]
            exact RelF_leaf (readSymbolicA_leaf x _ a) (readSymbolic_leaf _ _) (readSymbolic_noMd _ _) (readSymbolic_ntop _ _) hd
          · simp only [if_neg h1]
            by_cases h2 : decide (d ≥ Tables.maxNestingDepth) = true
            · simp only [if_pos h2]; exact RelF_nt rfl rfl
            · simp only [if_neg h2]
              have hlt := lt_of_not_deep h2
              by_cases h3 : (nx == 0x7B) = true
              · simp only [if_pos h3]; exact hS d dm 2 _ _ a {} [] [] hlt rfl no_mem no_mem
              · simp only [if_neg h3]
                by_cases h4 : (nx == 0x5F) = true
                · simp only [if_pos h4]
                  have hrel := hV (d + 1) true { rest := cs', calls := st.calls } a (by omega)
                  rcases hq : readValueA x f (d + 1) true { rest := cs', calls := st.calls } a with ⟨r, a'⟩
                  rw [hq] at hrel
                  simp only at hrel ⊢
                  cases r with
                  | ok v st' =>
                    obtain ⟨v0, hr0, -⟩ := hrel
                    rw [hr0]
                    exact hV d dm st' a' hd
                  | closer st' => exact RelF_nt rfl rfl
                  | err e st' =>
                    refine RelF_pass hrel (fun e0 s0 hr hf => ?_)
                    rw [hr]
                    exact ⟨_, _, rfl, hf⟩
                · simp only [if_neg h4]
                  by_cases h5 : (x.ctx.cfg.clj && nx == 0x3A) = true
                  · simp only [if_pos h5]; exact hN d dm _ _ a hlt
                  · simp only [if_neg h5]; exact hT d dm _ _ a (Or.inl hlt)
      · cases cs with
        | nil => exact RelF_leaf (readIdentifierA_leaf x _ a) (readIdentifier_leaf _ _) (readIdentifier_noMd _ _) (readIdentifier_ntop _ _) hd
        | cons nx tl =>
          simp only
          split
          · exact RelF_leaf (readNumberResA_leaf x _ a) (readNumberRes_leaf _ _) (readNumberRes_noMd _ _) (readNumberRes_ntop _ _) hd
          · exact RelF_leaf (readIdentifierA_leaf x _ a) (readIdentifier_leaf _ _) (readIdentifier_noMd _ _) (readIdentifier_ntop _ _) hd
      · exact RelF_leaf (readNumberResA_leaf x _ a) (readNumberRes_leaf _ _) (readNumberRes_noMd _ _) (readNumberRes_ntop _ _) hd
      · split
        · exact RelF_nt rfl rfl
        · rfl
      · by_cases h2 : decide (d ≥ Tables.maxNestingDepth) = true
        · simp only [if_pos h2]; exact RelF_nt rfl rfl
        · simp only [if_neg h2]
          exact hMe d dm _ _ a (lt_of_not_deep h2)

theorem RelF_fuelOut {cfg : Cfg} {d : Nat} (st : St) : RelF cfg d (fuelOut st) (fuelOut st) := by
  constructor
  · intro h; cases h
  · intro _; exact ⟨_, _, rfl, rfl⟩

/-- the fault relation for the six reader functions, by induction on the fuel -/
theorem reader_fault (hR : RegistryOK x.ctx.cfg x.ctx.opts) :
    ∀ f, FV x f ∧ FS x f ∧ FM x f ∧ FN x f ∧ FT x f ∧ FMe x f := by
  intro f
  induction f with
  | zero =>
    refine ⟨?_, ?_, ?_, ?_, ?_, ?_⟩
    · intro d dm st a _; rw [readValueA, readValue_zero]; exact RelF_fuelOut _
    · intro d dm kind start st a b acc acc0 _ _ _ _; rw [readSeqA, readSeq_zero]; exact RelF_fuelOut _
    · intro d dm start ns st a b ks vs ks0 vs0 _ _ _ _ _ _ _ _ _; rw [readMapA, readMap_zero]; exact RelF_fuelOut _
    · intro d dm start st a _; rw [readNsMapA, readNsMap_zero]; exact RelF_fuelOut _
    · intro d dm start st a _; rw [readTaggedA, readTagged_zero]; exact RelF_fuelOut _
    · intro d dm start st a _; rw [readMetaA, readMeta_zero]; exact RelF_fuelOut _
  | succ f ih =>
    obtain ⟨hV, hS, hM, hN, hT, hMe⟩ := ih
    exact ⟨FV_succ f hV hS hM hN hT hMe, FS_succ f hV hS, FM_succ f hV hM, FN_succ f hV hM,
      FT_succ hR f hV, FMe_succ f hV⟩

end
end Edn.Proofs.AllocSim
