/-
  Edn.Proofs.CljNumberSoundAux4 — the number reader with the Clojure flag: soundness of the body
  of `edn_read_number` (after the sign): an `.ok` answer forces a `CljNum` token.
-/
import Edn.Spec.CljNumLit
import Edn.Proofs.NumberReader
import Edn.Proofs.CljNumberSoundAux1
import Edn.Proofs.CljNumberSoundAux2
import Edn.Proofs.CljNumberSoundAux3

namespace Edn.Proofs.CljN
open Edn.Model Edn.Spec Edn.Proofs Edn.Proofs.CNum

/-! ## bytes of token parts -/

/-- neither `r`, `R` nor `/` -/
def OkB (c : UInt8) : Prop := c ≠ 0x72 ∧ c ≠ 0x52 ∧ c ≠ 0x2F

theorem okB_digit {c : UInt8} (h : is09 c = true) : OkB c := by
  have hp := dec_props h
  have h36 : isRadixDigit 36 c = true := hp.2.1
  have := radix_props (Nat.le_refl 36) h36
  exact ⟨hp.2.2.1, hp.2.2.2.1, this.2.2.2.1⟩

theorem okB_U : OkB 0x5F := ⟨by decide, by decide, by decide⟩

theorem uRun09_okB {exp : Bool} {l : Bytes} (h : URun exp is09 l) : ∀ c ∈ l, OkB c := by
  intro c hc
  rcases h c hc with h | ⟨-, rfl⟩
  · exact okB_digit h
  · exact okB_U

theorem cljInt_okB {exp : Bool} {ip : Bytes} (h : CljInt exp ip) : ∀ c ∈ ip, OkB c := by
  rcases h with h | h
  · intro c hc
    exact okB_digit (zeroRun_all09 h c hc)
  · exact uRun09_okB (nzRun_uRun h)

theorem cljFrac_okB {exp : Bool} {fr : Bytes} (h : CljFrac exp fr) : ∀ c ∈ fr, OkB c := by
  rcases h with rfl | ⟨fd, rfl, hfd, -⟩
  · intro c hc; simp at hc
  · intro c hc
    rcases List.mem_cons.mp hc with rfl | hc
    · exact ⟨by decide, by decide, by decide⟩
    · exact uRun09_okB hfd c hc

theorem digRun_uRun {exp : Bool} {p : UInt8 → Bool} {l : Bytes} (h : DigRun exp p l) : URun exp p l := by
  obtain ⟨d, t, rfl, hd, ht⟩ := h
  exact uRun_cons (Or.inl hd) ht

theorem cljExp_okB {exp : Bool} {ex : Bytes} (h : CljExp exp ex) : ∀ c ∈ ex, OkB c := by
  rcases h with rfl | ⟨e, es, ed, rfl, he, hes, hed⟩
  · intro c hc; simp at hc
  · intro c hc
    rcases List.mem_cons.mp hc with rfl | hc
    · rcases he with rfl | rfl <;> exact ⟨by decide, by decide, by decide⟩
    · rcases List.mem_append.mp hc with hc | hc
      · rcases hes with rfl | rfl | rfl
        · simp at hc
        · simp only [List.mem_singleton] at hc; subst hc; exact ⟨by decide, by decide, by decide⟩
        · simp only [List.mem_singleton] at hc; subst hc; exact ⟨by decide, by decide, by decide⟩
      · exact uRun09_okB (digRun_uRun hed) c hc

theorem sign_okB {sg : Bytes} {neg : Bool} (h : SignTok sg neg) : ∀ c ∈ sg, OkB c := by
  rcases h with ⟨rfl, -⟩ | ⟨rfl, -⟩ | ⟨rfl, -⟩
  · intro c hc; simp at hc
  · intro c hc; simp only [List.mem_singleton] at hc; subst hc; exact ⟨by decide, by decide, by decide⟩
  · intro c hc; simp only [List.mem_singleton] at hc; subst hc; exact ⟨by decide, by decide, by decide⟩

theorem suffix_okB (suf : NumSuffix) : ∀ c ∈ suf.bytes, OkB c := by
  cases suf
  · intro c hc; simp [NumSuffix.bytes] at hc
  · intro c hc; simp only [NumSuffix.bytes, List.mem_singleton] at hc; subst hc; exact ⟨by decide, by decide, by decide⟩
  · intro c hc; simp only [NumSuffix.bytes, List.mem_singleton] at hc; subst hc; exact ⟨by decide, by decide, by decide⟩

theorem hexRun_okB {exp : Bool} {l : Bytes} (h : URun exp (isRadixDigit 16) l) : ∀ c ∈ l, OkB c := by
  intro c hc
  rcases h c hc with h | ⟨-, rfl⟩
  · have hp := hex_props h
    have := radix_props (r := 16) (by omega) h
    exact ⟨hp.1, hp.2.1, this.2.2.2.1⟩
  · exact okB_U

theorem octRun_hex {exp : Bool} {l : Bytes} (h : URun exp (isRadixDigit 8) l) : URun exp (isRadixDigit 16) l := by
  intro c hc
  rcases h c hc with h | h
  · exact Or.inl (isRadixDigit_of_le h (by omega))
  · exact Or.inr h

/-! ## without the experimental flag there are no separators -/

theorem uRun09_noU {exp : Bool} {l : Bytes} (he : exp = false) (h : URun exp is09 l) : (0x5F : UInt8) ∉ l := by
  subst he
  exact uRun_false_noU (by decide) h

theorem cljInt_noU {exp : Bool} {ip : Bytes} (he : exp = false) (h : CljInt exp ip) : (0x5F : UInt8) ∉ ip := by
  rcases h with h | h
  · exact zeroRun_noU h
  · exact uRun09_noU he (nzRun_uRun h)

theorem cljFrac_noU {exp : Bool} {fr : Bytes} (he : exp = false) (h : CljFrac exp fr) : (0x5F : UInt8) ∉ fr := by
  rcases h with rfl | ⟨fd, rfl, hfd, -⟩
  · simp
  · intro hm
    rcases List.mem_cons.mp hm with hm | hm
    · exact absurd hm (by decide)
    · exact uRun09_noU he hfd hm

theorem cljExp_noU {exp : Bool} {ex : Bytes} (he : exp = false) (h : CljExp exp ex) : (0x5F : UInt8) ∉ ex := by
  rcases h with rfl | ⟨e, es, ed, rfl, hee, hes, hed⟩
  · simp
  · intro hm
    rcases List.mem_cons.mp hm with hm | hm
    · rcases hee with rfl | rfl <;> exact absurd hm (by decide)
    · rcases List.mem_append.mp hm with hm | hm
      · rcases hes with rfl | rfl | rfl
        · simp at hm
        · simp at hm
        · simp at hm
      · exact uRun09_noU he (digRun_uRun hed) hm

/-- the separator rules, whichever way the flag is set -/
theorem noTrail_of_flag {exp : Bool} {l : Bytes} (h1 : exp = true → NoTrailU l)
    (h2 : exp = false → (0x5F : UInt8) ∉ l) : NoTrailU l := by
  cases he : exp
  · exact noTrailU_of_not_mem (h2 he)
  · exact h1 he

theorem noTrailU_of_append {a b : Bytes} (h : NoTrailU (a ++ b)) : NoTrailU b := by
  by_cases hb : b = []
  · subst hb; exact noTrailU_nil
  · exact (noTrailU_append hb).mp h

theorem noTrailU_append_of {a b : Bytes} (ha : NoTrailU a) (hb : NoTrailU b) : NoTrailU (a ++ b) := by
  by_cases hb0 : b = []
  · subst hb0; simpa using ha
  · exact (noTrailU_append hb0).mpr hb

/-! ## decimal forms -/

theorem zeroNorm_body {exp : Bool} {ip fr ex : Bytes} (hfr : CljFrac exp fr) (hex : CljExp exp ex)
    (hnz : fr = [] → ex = [] → NzRun exp ip) : zeroNorm (ip ++ fr ++ ex) = ip ++ fr ++ ex := by
  rcases hfr with rfl | ⟨fd, rfl, -, -⟩
  · rcases hex with rfl | ⟨e, es, ed, rfl, hee, -, -⟩
    · obtain ⟨d, t, rfl, -, hd0, -⟩ := nzRun_cons (hnz rfl rfl)
      exact zeroNorm_of_mem (c := d) (by simp) hd0
    · exact zeroNorm_of_mem (c := e) (by simp) (by rcases hee with rfl | rfl <;> decide)
  · exact zeroNorm_of_mem (c := 0x2E) (by simp) (by decide)

theorem nzRun_digRun {exp : Bool} {ip : Bytes} (h : NzRun exp ip) : DigRun exp (isRadixDigit 10) ip :=
  digRun_ten h.1

theorem ratioDen_noSlash {dd : Bytes} (h : RatioDen dd) : ∀ c ∈ dd, OkB c :=
  fun c hc => okB_digit (h.2.1 c hc)

/-- the ratio branch, inverted -/
theorem ratioBranch_sound (cfg : Cfg) (neg : Bool) (nd Y : Bytes) (v : NumVal) (rest : Bytes)
    (hn : NzRun cfg.exp nd) (h : ratioBranch cfg neg nd Y = .ok v rest) :
    ∃ dd, Y = dd ++ rest ∧ RatioDen dd ∧ v = ratioValue cfg neg nd dd ∧
      (TermStart rest ∨ ((∃ i, v = .int i) ∧ DelimStart rest)) := by
  unfold ratioBranch at h
  cases hrd : ratioDenominator Y with
  | error cur =>
    rw [hrd] at h
    exact NumOut.noConfusion h
  | ok s' =>
    rw [hrd] at h
    simp only [] at h
    obtain ⟨dd, rfl, hdd, hdl⟩ := ratioDen_inv Y s' hrd
    rw [slice_append] at h
    have hpn : ∃ V, parseInt64 cfg nd 10 neg = inRange neg V :=
      ⟨_, parseInt64_run cfg 10 (by omega) nd neg (nzRun_digRun hn)⟩
    rcases ratioOut_eq cfg neg nd dd s' hpn hdd with ⟨i, hv, ho⟩ | ⟨-, ho⟩
    · rw [ho] at h
      injection h with h1 h2
      subst h1 h2
      exact ⟨dd, rfl, hdd, hv.symm, Or.inr ⟨⟨i, rfl⟩, hdl⟩⟩
    · rw [ho] at h
      obtain ⟨rfl, rfl, ht⟩ := NSnd.finishNum_ok h
      exact ⟨dd, rfl, hdd, rfl, Or.inl ht⟩

theorem isEmpty_not_false {l : Bytes} (h : (!l.isEmpty) = false) : l = [] := by
  cases l with
  | nil => rfl
  | cons _ _ => exact Bool.noConfusion h

theorem decimal_sound (cfg : Cfg) (hc : cfg.clj = true) (sg : Bytes) (neg : Bool) (ip X : Bytes) (v : NumVal)
    (rest : Bytes) (hs : SignTok sg neg) (hip : CljInt cfg.exp ip)
    (hz : ZeroRun ip → (peek X == 0x2E || (peek X == 0x65 || peek X == 0x45)) = true)
    (h : afterIp cfg (sg ++ (ip ++ X)) neg (ip ++ X) X = .ok v rest) :
    ∃ tok, sg ++ (ip ++ X) = tok ++ rest ∧ CljNum cfg tok v ∧ CljNumEnd tok v rest := by
  obtain ⟨fr, ex, T, rfl, hfr, hex, hsep, hfr0, hex0, h2⟩ := afterIp_inv cfg _ neg ip X v rest h
  have hbody : ip ++ (fr ++ (ex ++ T)) = (ip ++ fr ++ ex) ++ T := by simp
  rw [hbody] at h2
  -- separator facts
  have hnoU : cfg.exp = false → (0x5F : UInt8) ∉ ip ++ fr ++ ex := by
    intro he hm
    simp only [List.mem_append] at hm
    rcases hm with (hm | hm) | hm
    · exact cljInt_noU he hip hm
    · exact cljFrac_noU he hfr hm
    · exact cljExp_noU he hex hm
  have hsepM : ex ≠ [] → NoTrailU fr := by
    intro hne
    refine noTrail_of_flag (fun he => noTrailU_of_append (hsep hne he)) (fun he => cljFrac_noU he hfr)
  have hm : CljMantissa cfg.exp ip fr ex := ⟨hip, hfr, hex, hsepM⟩
  have hnz : fr = [] → ex = [] → NzRun cfg.exp ip := by
    intro hf0 he0
    rcases hip with hzr | hn
    · exfalso
      have := hz hzr
      subst hf0 he0
      have e1 := hfr0 rfl
      have e2 := hex0 rfl
      simp only [List.nil_append] at e1 e2 this
      rw [e1, e2] at this
      exact Bool.noConfusion this
    · exact hn
  rcases decimalTail_inv cfg hc _ neg _ _ (ip ++ fr ++ ex) T v rest h2 with
    ⟨h3, h4, hT, hv, ht, hu⟩ | ⟨hT, hv, ht, hu⟩ | ⟨h3, h4, hu, Y, hT, hr⟩ | ⟨hf, hT, hv, ht⟩ | ⟨h3, h4, hT, hv, ht⟩
  · -- `N`
    have hfr1 := isEmpty_not_false h3
    have hex1 := isEmpty_not_false h4
    subst hfr1 hex1 hT hv
    have hn := hnz rfl rfl
    obtain ⟨d, t, rfl, -, hd0, -⟩ := nzRun_cons hn
    refine ⟨sg ++ (d :: t) ++ [0x4E], by simp, ?_, Or.inl ht⟩
    have := CljNum.decN (cfg := cfg) sg (d :: t) neg hs hip
    rw [zeroNorm_of_mem (c := d) (by simp) hd0] at this
    simpa using this
  · -- `M`
    subst hT hv
    refine ⟨sg ++ ip ++ fr ++ ex ++ [0x4D], by simp, ?_, Or.inl ht⟩
    have := CljNum.decM (cfg := cfg) sg ip fr ex neg hs hm (noTrail_of_flag hu hnoU)
    rw [zeroNorm_body hfr hex hnz] at this
    exact this
  · -- ratio
    have hfr1 := isEmpty_not_false h3
    have hex1 := isEmpty_not_false h4
    subst hfr1 hex1 hT
    have hn := hnz rfl rfl
    simp only [List.append_nil] at hr
    obtain ⟨dd, rfl, hdd, rfl, hend⟩ := ratioBranch_sound cfg neg ip Y v rest hn hr
    refine ⟨sg ++ ip ++ [0x2F] ++ dd, by simp, CljNum.ratio sg ip dd neg hs hn hdd, ?_⟩
    rcases hend with ht | ⟨hi, hdl⟩
    · exact Or.inl ht
    · exact Or.inr ⟨by simp, hi, hdl⟩
  · -- float
    subst hT
    have hsl : slice (sg ++ (ip ++ fr ++ ex ++ rest)) rest = sg ++ ip ++ fr ++ ex := by
      have := slice_append (sg ++ ip ++ fr ++ ex) rest
      simpa only [List.append_assoc] using this
    rw [hsl] at hv
    subst hv
    refine ⟨sg ++ ip ++ fr ++ ex, by simp, CljNum.float sg ip fr ex neg hs hm ?_, Or.inl ht⟩
    cases fr with
    | nil =>
      cases ex with
      | nil => exact Bool.noConfusion hf
      | cons _ _ => exact Or.inr (by simp)
    | cons _ _ => exact Or.inl (by simp)
  · -- integer
    have hfr1 := isEmpty_not_false h3
    have hex1 := isEmpty_not_false h4
    subst hfr1 hex1 hT
    have hn := hnz rfl rfl
    simp only [List.append_nil] at hv
    rw [intOrBig_run cfg 10 (by omega) ip neg (nzRun_digRun hn)] at hv
    subst hv
    exact ⟨sg ++ ip, by simp, CljNum.dec sg ip neg hs hip, Or.inl ht⟩

/-! ## the zero path -/

def octFirst (c : UInt8) : Bool := !(0x31 ≤ c && c ≤ 0x37) || ((digitValue c 8).isSome && c != 0x30)
theorem octFirst_all : ∀ c, octFirst c = true := forall_u8_bool _ (by decide +kernel)

theorem octFirst_props {c : UInt8} (h : (decide (0x31 ≤ c) && decide (c ≤ 0x37)) = true) :
    isRadixDigit 8 c = true ∧ c ≠ 0x30 := by
  have := octFirst_all c
  simpa [octFirst, h, isRadixDigit] using this

theorem uRun_append {exp : Bool} {p : UInt8 → Bool} {a b : Bytes} (ha : URun exp p a) (hb : URun exp p b) :
    URun exp p (a ++ b) := by
  intro c hc
  rcases List.mem_append.mp hc with hc | hc
  · exact ha c hc
  · exact hb c hc

theorem zeroRest_sound (cfg : Cfg) (hc : cfg.clj = true) (sg : Bytes) (neg : Bool) (zs X : Bytes) (v : NumVal)
    (rest : Bytes) (hs : SignTok sg neg) (hz : ZeroRun zs)
    (h : zeroRest cfg (sg ++ (zs ++ X)) neg (zs ++ X) X = .ok v rest) :
    ∃ tok, sg ++ (zs ++ X) = tok ++ rest ∧ CljNum cfg tok v ∧ CljNumEnd tok v rest := by
  have hzi : CljInt cfg.exp zs := Or.inl hz
  unfold zeroRest at h
  by_cases hp : (peek X == 0x2E) = true
  · simp only [hp, ↓reduceIte] at h
    refine decimal_sound cfg hc sg neg zs X v rest hs hzi (fun _ => by simp [hp]) ?_
    unfold afterIp
    rw [if_pos hp]
    exact h
  · simp only [hp, Bool.false_eq_true, ↓reduceIte] at h
    by_cases hN : (peek X == 0x4E) = true
    · simp only [hN, ↓reduceIte] at h
      simp only [beq_iff_eq] at hN
      obtain ⟨t, rfl⟩ := NSnd.of_peek hN (by decide)
      obtain ⟨rfl, rfl, ht⟩ := NSnd.finishNum_ok h
      refine ⟨sg ++ zs ++ [0x4E], by simp, ?_, Or.inl ht⟩
      have := CljNum.decN (cfg := cfg) sg zs neg hs hzi
      rw [zeroNorm_zeros hz] at this
      exact this
    · simp only [hN, Bool.false_eq_true, ↓reduceIte] at h
      by_cases hM : (peek X == 0x4D) = true
      · simp only [hM, ↓reduceIte] at h
        simp only [beq_iff_eq] at hM
        obtain ⟨t, rfl⟩ := NSnd.of_peek hM (by decide)
        obtain ⟨rfl, rfl, ht⟩ := NSnd.finishNum_ok h
        refine ⟨sg ++ zs ++ [0x4D], by simp, ?_, Or.inl ht⟩
        have := CljNum.decM (cfg := cfg) sg zs [] [] neg hs
          ⟨hzi, Or.inl rfl, Or.inl rfl, fun _ => noTrailU_nil⟩
          (by simpa using cljInt_noTrail hzi)
        simp only [List.append_nil] at this
        rw [zeroNorm_zeros hz] at this
        exact this
      · simp only [hM, Bool.false_eq_true, ↓reduceIte] at h
        by_cases hE : (peek X == 0x65 || peek X == 0x45) = true
        · simp only [hE, ↓reduceIte] at h
          refine decimal_sound cfg hc sg neg zs X v rest hs hzi (fun _ => by simp [hE]) ?_
          unfold afterIp
          rw [if_neg hp]
          unfold afterMantissa
          have hl : lastIsUnderscore (zs ++ X) X = false :=
            (lastIsUnderscore_iff zs X).mpr (cljInt_noTrail hzi)
          simp only [hE, ↓reduceIte, hl, Bool.and_false, Bool.false_eq_true]
          exact h
        · simp only [hE, Bool.false_eq_true, ↓reduceIte] at h
          by_cases hR : (peek X == 0x2F) = true
          · simp only [hc, hR, Bool.and_self, ↓reduceIte] at h
            simp only [beq_iff_eq] at hR
            obtain ⟨Y, rfl⟩ := NSnd.of_peek hR (by decide)
            cases hrd : ratioDenominator (adv (0x2F :: Y)) with
            | error cur =>
              rw [hrd] at h
              exact NumOut.noConfusion h
            | ok s' =>
              rw [hrd] at h
              simp only [] at h
              injection h with h1 h2
              subst h1 h2
              obtain ⟨dd, hY, hdd, hdl⟩ := ratioDen_inv _ _ hrd
              have hY' : Y = dd ++ s' := hY
              subst hY'
              exact ⟨sg ++ zs ++ [0x2F] ++ dd, by simp, CljNum.zeroRatio sg zs dd neg hs hz hdd,
                Or.inr ⟨by simp, ⟨0, rfl⟩, hdl⟩⟩
          · simp only [hR, Bool.and_false, Bool.false_eq_true, ↓reduceIte] at h
            obtain ⟨rfl, rfl, ht⟩ := NSnd.finishNum_ok h
            refine ⟨sg ++ zs, by simp, ?_, Or.inl ht⟩
            have := CljNum.dec (cfg := cfg) sg zs neg hs hzi
            rw [intPayload_zeros neg zs hz] at this
            exact this

/-- from the stop information of a loop: the run is not empty when the loop started at a digit -/
theorem run_head {exp : Bool} {p : UInt8 → Bool} {run T : Bytes} (hrun : URun exp p run)
    (hT : p (peek T) = false) (hpk : p (peek (run ++ T)) = true) : DigRun exp p run := by
  cases run with
  | nil =>
    rw [List.nil_append, hT] at hpk
    exact Bool.noConfusion hpk
  | cons d t => exact ⟨d, t, rfl, hpk, uRun_tail hrun⟩

/-! ## the body of `edn_read_number` -/

theorem numBody_sound (cfg : Cfg) (hc : cfg.clj = true) (sg : Bytes) (neg : Bool) (body : Bytes) (v : NumVal)
    (rest : Bytes) (hs : SignTok sg neg) (hb : is09 (peek body) = true)
    (h : numBody cfg (sg ++ body) neg body = .ok v rest) :
    ∃ tok, sg ++ body = tok ++ rest ∧ CljNum cfg tok v ∧ CljNumEnd tok v rest := by
  rw [numBody_stages] at h
  obtain ⟨rp, X, hbody, hne, hall, hX⟩ := NSnd.span_digits_ne hb
  by_cases hr : (peek X == 0x72 || peek X == 0x52) = true
  · -- radix form
    have hx : ∃ r Y, X = r :: Y ∧ (r = 0x72 ∨ r = 0x52) := by
      simp only [Bool.or_eq_true, beq_iff_eq] at hr
      rcases hr with hr | hr
      · obtain ⟨t, rfl⟩ := NSnd.of_peek hr (by decide)
        exact ⟨_, t, rfl, Or.inl rfl⟩
      · obtain ⟨t, rfl⟩ := NSnd.of_peek hr (by decide)
        exact ⟨_, t, rfl, Or.inr rfl⟩
    obtain ⟨r, Y, rfl, hrr⟩ := hx
    subst hbody
    rw [radixPart_some cfg hc neg rp r Y hne hall hrr] at h
    simp only [] at h
    by_cases hrange : 2 ≤ radixPrefixValue 0 rp ∧ radixPrefixValue 0 rp ≤ 36
    · rw [if_pos hrange] at h
      have hrv := radixPrefix_of_range hrange
      rw [hrv] at h hrange
      by_cases hdg : (digitValue (peek Y) (natOfDigits rp)).isSome = true
      · rw [if_pos hdg] at h
        have h' : loopTail cfg neg (natOfDigits rp) true false ([] ++ Y) Y = .ok v rest := h
        obtain ⟨run, suf, rfl, hrun, hnt, ht, hsN, hsM, hstop, hv⟩ :=
          loopTail_inv cfg neg (natOfDigits rp) hrange.2 true false [] Y v rest h'
        have hdr : DigRun cfg.exp (isRadixDigit (natOfDigits rp)) run := run_head hrun hstop hdg
        simp only [List.nil_append] at hv
        rw [radixOut_run cfg suf neg _ hrange run hdr] at hv
        subst hv
        refine ⟨sg ++ rp ++ [r] ++ run ++ suf.bytes, by simp,
          CljNum.radix sg rp run r neg suf hs ⟨hne, hall⟩ hrange hrr hdr (hnt rfl) ?_, Or.inl ht⟩
        cases suf with
        | none => exact Or.inl rfl
        | N => exact absurd (hsN rfl) (by decide)
        | M => exact Or.inr ⟨rfl, hsM rfl⟩
      · rw [if_neg hdg] at h
        exact NumOut.noConfusion h
    · rw [if_neg hrange] at h
      exact NumOut.noConfusion h
  · have hr' : (peek X == 0x72 || peek X == 0x52) = false := by simpa using hr
    have hnone : radixPart cfg neg body = none := by
      rw [hbody]
      exact radixPart_none cfg neg rp X hall hX hr'
    rw [hnone] at h
    simp only [] at h
    by_cases h0 : (peek body == 0x30) = true
    · -- zero path
      rw [if_pos h0] at h
      obtain ⟨zs, X', hb', hzs, hX', -⟩ := dropWhile_split (· == 0x30) (by decide) body
      have hz : ZeroRun zs := by
        refine ⟨?_, fun c hc => by simpa using hzs c hc⟩
        rintro rfl
        rw [hb', List.nil_append, hX'] at h0
        exact Bool.noConfusion h0
      subst hb'
      rw [zeroPart_eq cfg hc _ neg zs X' hz hX'] at h
      by_cases hx : (peek X' == 0x78 || peek X' == 0x58) = true
      · -- hexadecimal
        rw [if_pos hx] at h
        have hxx : ∃ x Y, X' = x :: Y ∧ (x = 0x78 ∨ x = 0x58) := by
          simp only [Bool.or_eq_true, beq_iff_eq] at hx
          rcases hx with hx | hx
          · obtain ⟨t, rfl⟩ := NSnd.of_peek hx (by decide)
            exact ⟨_, t, rfl, Or.inl rfl⟩
          · obtain ⟨t, rfl⟩ := NSnd.of_peek hx (by decide)
            exact ⟨_, t, rfl, Or.inr rfl⟩
        obtain ⟨x, Y, rfl, hx'⟩ := hxx
        have h : (if (digitValue (peek Y) 16).isSome = true then loopTail cfg neg 16 false true Y Y
            else NumOut.err Y) = .ok v rest := h
        by_cases hdg : (digitValue (peek Y) 16).isSome = true
        · rw [if_pos hdg] at h
          have h' : loopTail cfg neg 16 false true ([] ++ Y) Y = .ok v rest := h
          obtain ⟨run, suf, rfl, hrun, -, ht, -, -, hstop, hv⟩ :=
            loopTail_inv cfg neg 16 (by omega) false true [] Y v rest h'
          have hdr : DigRun cfg.exp (isRadixDigit 16) run := run_head hrun hstop hdg
          simp only [List.nil_append] at hv
          rw [radixOut_run cfg suf neg 16 (by omega) run hdr] at hv
          subst hv
          exact ⟨sg ++ zs ++ [x] ++ run ++ suf.bytes, by simp,
            CljNum.hex sg zs run x neg suf hs hz hx' hdr, Or.inl ht⟩
        · rw [if_neg hdg] at h
          exact NumOut.noConfusion h
      · rw [if_neg hx] at h
        by_cases ho : (decide (0x31 ≤ peek X') && decide (peek X' ≤ 0x37)) = true
        · -- octal
          rw [if_pos ho] at h
          have hof := octFirst_props ho
          obtain ⟨run, suf, rfl, hrun, -, ht, -, -, hstop, hv⟩ :=
            loopTail_inv cfg neg 8 (by omega) false true zs X' v rest h
          have hdr : DigRun cfg.exp (isRadixDigit 8) run := run_head hrun hstop hof.1
          have hfirst : run.head? ≠ some 0x30 := by
            obtain ⟨d, t, rfl, -, -⟩ := hdr
            intro hd
            simp only [List.head?_cons, Option.some.injEq] at hd
            subst hd
            exact hof.2 rfl
          have hdr' : DigRun cfg.exp (isRadixDigit 8) (zs ++ run) := by
            obtain ⟨t, rfl, ht0⟩ := zeroRun_cons hz
            refine ⟨0x30, t ++ run, rfl, by decide, uRun_append ?_ hrun⟩
            intro c hc
            rw [ht0 c hc]
            exact Or.inl (by decide)
          rw [radixOut_run cfg suf neg 8 (by omega) _ hdr'] at hv
          subst hv
          exact ⟨sg ++ zs ++ run ++ suf.bytes, by simp,
            CljNum.octal sg zs run neg suf hs hz hdr hfirst, Or.inl ht⟩
        · rw [if_neg ho] at h
          by_cases h89 : (peek X' == 0x38 || peek X' == 0x39) = true
          · rw [if_pos h89] at h
            exact NumOut.noConfusion h
          · rw [if_neg h89] at h
            exact zeroRest_sound cfg hc sg neg zs X' v rest hs hz h
    · -- non-zero path
      rw [if_neg h0] at h
      rcases decLoop_split cfg.exp body (body.length + 1) (Nat.le_refl _) with
        ⟨cur, he⟩ | ⟨run, X', hb', hrun, hnt, hT, hT2, hl⟩
      · unfold nonzeroPart at h
        rw [he] at h
        exact NumOut.noConfusion h
      · rw [nonzeroPart_eq cfg _ neg body X' hl] at h
        subst hb'
        have hdr : DigRun cfg.exp is09 run := run_head hrun hT hb
        have hn : NzRun cfg.exp run := by
          refine ⟨hdr, ?_, hnt⟩
          obtain ⟨d, t, rfl, -, -⟩ := hdr
          intro hd
          simp only [List.head?_cons, Option.some.injEq] at hd
          subst hd
          exact h0 rfl
        refine decimal_sound cfg hc sg neg run X' v rest hs (Or.inr hn) ?_ h
        intro hz
        exfalso
        obtain ⟨t, rfl, -⟩ := zeroRun_cons hz
        exact h0 rfl

end Edn.Proofs.CljN
