/-
  Edn.Proofs.EqualAux4 — the collection kinds, for an abstract recursive call `p`:
  element-wise comparison (`allZip`), the one-sided set comparison, and the map comparison
  through `findKey`, each turned into statements about membership and matchings.
-/
import Edn.Proofs.EqualAux3

namespace Edn.Proofs
open Edn.Model Edn.Spec

/-! ### sequences -/

theorem allZip_iff_all₂ {p : Val → Val → Bool} : ∀ (xs ys : List Val),
    allZip p xs ys = true ↔ All₂ (fun x y => p x y = true) xs ys := by
  intro xs
  induction xs with
  | nil =>
    intro ys
    cases ys with
    | nil => exact ⟨fun _ => All₂.nil, fun _ => rfl⟩
    | cons y ys => exact ⟨fun h => absurd h Bool.false_ne_true, fun h => nomatch h⟩
  | cons x xs ih =>
    intro ys
    cases ys with
    | nil => exact ⟨fun h => absurd h Bool.false_ne_true, fun h => nomatch h⟩
    | cons y ys =>
      show (p x y && allZip p xs ys) = true ↔ _
      rw [Bool.and_eq_true, ih ys]
      constructor
      · intro h; exact All₂.cons h.1 h.2
      · intro h; cases h with | cons h1 h2 => exact ⟨h1, h2⟩

theorem All₂.symm' {α : Type} {R : α → α → Prop} {xs ys : List α} (h : All₂ R xs ys)
    (hs : ∀ x ∈ xs, ∀ y ∈ ys, R x y → R y x) : All₂ R ys xs := by
  induction h with
  | nil => exact All₂.nil
  | cons hr _ ih =>
    exact All₂.cons (hs _ List.mem_cons_self _ List.mem_cons_self hr)
      (ih fun x hx y hy => hs x (List.mem_cons_of_mem _ hx) y (List.mem_cons_of_mem _ hy))

theorem All₂.trans' {α : Type} {R : α → α → Prop} {xs ys : List α} (h : All₂ R xs ys) :
    ∀ {zs : List α}, All₂ R ys zs →
    (∀ x ∈ xs, ∀ y ∈ ys, ∀ z ∈ zs, R x y → R y z → R x z) → All₂ R xs zs := by
  induction h with
  | nil => intro zs h' _; cases h'; exact All₂.nil
  | cons hr _ ih =>
    intro zs h' ht
    cases h' with
    | cons hr' hrest' =>
      exact All₂.cons (ht _ List.mem_cons_self _ List.mem_cons_self _ List.mem_cons_self hr hr')
        (ih hrest' fun x hx y hy z hz =>
          ht x (List.mem_cons_of_mem _ hx) y (List.mem_cons_of_mem _ hy) z (List.mem_cons_of_mem _ hz))

theorem All₂.refl' {α : Type} {R : α → α → Prop} : ∀ (xs : List α), (∀ x ∈ xs, R x x) → All₂ R xs xs := by
  intro xs
  induction xs with
  | nil => intro _; exact All₂.nil
  | cons x xs ih =>
    intro h
    exact All₂.cons (h x List.mem_cons_self) (ih fun y hy => h y (List.mem_cons_of_mem _ hy))

theorem seqBody_iff {p : Val → Val → Bool} (xs ys : List Val) :
    seqBody p xs ys = true ↔ All₂ (fun x y => p x y = true) xs ys := by
  unfold seqBody
  rw [Bool.and_eq_true, allZip_iff_all₂, beq_iff_eq]
  exact ⟨fun h => h.2, fun h => ⟨h.length_eq, h⟩⟩

/-! ### sets -/

theorem setBody_iff {p : Val → Val → Bool} (xs ys : List Val) :
    setBody p xs ys = true ↔ xs.length = ys.length ∧ ∀ x ∈ xs, ∃ y ∈ ys, p x y = true := by
  unfold setBody
  rw [Bool.and_eq_true, beq_iff_eq, List.all_eq_true]
  simp only [List.any_eq_true]

/-! ### maps -/

theorem allZip_iff_zip {g : Val → Val → Bool} : ∀ (ks vs : List Val), ks.length = vs.length →
    (allZip g ks vs = true ↔ ∀ q ∈ ks.zip vs, g q.1 q.2 = true) := by
  intro ks
  induction ks with
  | nil =>
    intro vs hl
    cases vs with
    | nil => exact ⟨fun _ q hq => (nomatch hq), fun _ => rfl⟩
    | cons v vs => simp at hl
  | cons k ks ih =>
    intro vs hl
    cases vs with
    | nil => simp at hl
    | cons v vs =>
      show (g k v && allZip g ks vs) = true ↔ _
      rw [Bool.and_eq_true, ih vs (by simpa using hl), List.zip_cons_cons]
      constructor
      · intro h q hq
        rcases List.mem_cons.mp hq with rfl | hq
        · exact h.1
        · exact h.2 q hq
      · intro h
        exact ⟨h (k, v) List.mem_cons_self, fun q hq => h q (List.mem_cons_of_mem _ hq)⟩

/-- with pairwise different keys (as far as `p` and the probe can tell) `findKey` returns the
    value of any entry whose key the probe is related to -/
theorem findKey_of_mem {p : Val → Val → Bool} (k : Val) : ∀ (ks' vs' : List Val),
    ks'.Pairwise (fun a b => ¬ p a b = true) →
    (∀ k1 ∈ ks', ∀ k2 ∈ ks', p k k1 = true → p k k2 = true → p k1 k2 = true) →
    ∀ (k' v' : Val), (k', v') ∈ ks'.zip vs' → p k k' = true → findKey p k ks' vs' = some v' := by
  intro ks'
  induction ks' with
  | nil => intro vs' _ _ k' v' hm _; simp at hm
  | cons k1 ks' ih =>
    intro vs' hpw hinj k' v' hm hk
    cases vs' with
    | nil => simp at hm
    | cons v1 vs' =>
      rw [List.pairwise_cons] at hpw
      rw [List.zip_cons_cons] at hm
      show (if p k k1 = true then some v1 else findKey p k ks' vs') = some v'
      rcases List.mem_cons.mp hm with heq | hm
      · cases heq
        rw [if_pos hk]
      · have hk' : k' ∈ ks' := (List.of_mem_zip hm).1
        by_cases h1 : p k k1 = true
        · exact absurd (hinj k1 List.mem_cons_self k' (List.mem_cons_of_mem _ hk') h1 hk)
            (hpw.1 k' hk')
        · rw [if_neg h1]
          exact ih vs' hpw.2
            (fun a ha b hb => hinj a (List.mem_cons_of_mem _ ha) b (List.mem_cons_of_mem _ hb))
            k' v' hm hk

/-- the relation on entries that the map comparison establishes -/
def EntryRel (p : Val → Val → Bool) (q q' : Val × Val) : Prop :=
  p q.1 q'.1 = true ∧ p q.2 q'.2 = true

theorem mapBody_elim {p : Val → Val → Bool} (ks vs ks' vs' : List Val) (hl : ks.length = vs.length)
    (h : mapBody p ks vs ks' vs' = true) :
    ks.length = ks'.length ∧ ∀ q ∈ ks.zip vs, ∃ q' ∈ ks'.zip vs', EntryRel p q q' := by
  unfold mapBody at h
  rw [Bool.and_eq_true, beq_iff_eq, allZip_iff_zip ks vs hl] at h
  refine ⟨h.1, ?_⟩
  intro q hq
  have := h.2 q hq
  cases hf : findKey p q.1 ks' vs' with
  | none => rw [hf] at this; exact absurd this Bool.false_ne_true
  | some v' =>
    rw [hf] at this
    obtain ⟨k', hm, hk⟩ := findKey_mem_right q.1 ks' vs' v' hf
    exact ⟨(k', v'), hm, hk, this⟩

theorem mapBody_intro {p : Val → Val → Bool} (ks vs ks' vs' : List Val) (hl : ks.length = vs.length)
    (hl' : ks.length = ks'.length)
    (hpw : ks'.Pairwise (fun a b => ¬ p a b = true))
    (hinj : ∀ k ∈ ks, ∀ k1 ∈ ks', ∀ k2 ∈ ks', p k k1 = true → p k k2 = true → p k1 k2 = true)
    (h : ∀ q ∈ ks.zip vs, ∃ q' ∈ ks'.zip vs', EntryRel p q q') :
    mapBody p ks vs ks' vs' = true := by
  unfold mapBody
  rw [Bool.and_eq_true, beq_iff_eq, allZip_iff_zip ks vs hl]
  refine ⟨hl', ?_⟩
  intro q hq
  obtain ⟨q', hq', hk, hv⟩ := h q hq
  have hkm : q.1 ∈ ks := (List.of_mem_zip (a := q.1) (b := q.2) hq).1
  rw [findKey_of_mem q.1 ks' vs' hpw (hinj q.1 hkm) q'.1 q'.2 hq' hk]
  exact hv

/-- matching of the entries of two maps that compare equal -/
theorem mapBody_matching {p : Val → Val → Bool} (ks vs ks' vs' : List Val)
    (hl : ks.length = vs.length) (hl2 : ks'.length = vs'.length)
    (hpw : ks.Pairwise (fun a b => ¬ p a b = true))
    (hinj : ∀ k1 ∈ ks, ∀ k2 ∈ ks, ∀ k' ∈ ks', p k1 k' = true → p k2 k' = true → p k1 k2 = true)
    (h : mapBody p ks vs ks' vs' = true) :
    ∃ qs, qs.Perm (ks'.zip vs') ∧ All₂ (EntryRel p) (ks.zip vs) qs := by
  obtain ⟨hl', hall⟩ := mapBody_elim ks vs ks' vs' hl h
  refine exists_matching (EntryRel p) (fun q1 q2 => p q1.1 q2.1 = true) (ks.zip vs) (ks'.zip vs')
    ?_ (pairwise_zip_left ks vs hpw) ?_ hall
  · rw [List.length_zip, List.length_zip]; omega
  · intro q1 h1 q2 h2 q' h' r1 r2
    exact hinj q1.1 (List.of_mem_zip (a := q1.1) (b := q1.2) h1).1 q2.1
      (List.of_mem_zip (a := q2.1) (b := q2.2) h2).1 q'.1
      (List.of_mem_zip (a := q'.1) (b := q'.2) h').1 r1.1 r2.1

/-- matching of the elements of two sets that compare equal -/
theorem setBody_matching {p : Val → Val → Bool} (xs ys : List Val)
    (hpw : xs.Pairwise (fun a b => ¬ p a b = true))
    (hinj : ∀ x1 ∈ xs, ∀ x2 ∈ xs, ∀ y ∈ ys, p x1 y = true → p x2 y = true → p x1 x2 = true)
    (h : setBody p xs ys = true) :
    ∃ ys', ys'.Perm ys ∧ All₂ (fun x y => p x y = true) xs ys' := by
  rw [setBody_iff] at h
  exact exists_matching (fun x y => p x y = true) (fun x1 x2 => p x1 x2 = true) xs ys h.1 hpw hinj h.2

end Edn.Proofs
