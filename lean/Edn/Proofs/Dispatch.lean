/-
  Edn.Proofs.Dispatch — C14 at whole-document level: reading with a handler registry is the
  declarative dispatch (`Edn.Spec.dispatchV`) applied to the tree the same input reads to
  without a registry: same value, same call log in the same order, same error with the same
  range when a handler fails, a tag is unknown in error mode, or handler results collide.

  The work is in `DispatchAux1` (call log and discard mode), `DispatchAux2` (equations of the
  declarative side, cache erasure, shape of the collections the reader builds) and
  `DispatchAux3` (hypotheses on handlers `NiceHandler` / `NiceRegistry`, `SameUpToCache`, and
  the simulation `reader_dispatch` by induction on the fuel).

  Statement change against the skeleton (needed, see the counterexample): `dispatchV` is
  applied to `eraseCache v0`, not to `v0`.  The registry-free tree `v0` of a set or map with
  more than `linearThreshold` (16) elements carries the hash caches the duplicate check
  filled in; `dispatchV` rebuilds a collection around the handler results *with the old
  header*, i.e. with the cached hash of the collection before dispatch, and the hashed
  duplicate strategy (and the cached-hash short circuit of `equal`) then compares stale
  hashes.  Concretely (checked by `#eval`, configuration `⟨false, false⟩`, mode 0, `foo` and
  `bar` both the constant handler returning the integer 7):

      #{[#foo 1] [#bar 1] 3 4 5 6 7 8 9 10 11 12 13 14 15 16 17 18}

  * read with the registry: error DUPLICATE_ELEMENT, offsets 0 … 61, two calls
    (the two elements `[7]` collide);
  * `dispatchV cfg reg 0 v0`: `(2 calls, .ok _)` — the two vectors keep the cached hashes of
    `[#foo 1]` and `[#bar 1]`, which differ, so `hasDupHashed` never compares them;
  * `dispatchV cfg reg 0 (eraseCache v0)`: `(2 calls, .error (.duplicateElement, 61, 0))`,
    which is the read's answer (remaining-length coordinates 61, 0 = offsets 0, 61).

  This is an artefact of replaying the dispatch on a finished tree, not a property of the C
  code (there the handlers run during the read, before any cache is filled).
-/
import Edn.Spec.Dispatch
import Edn.Spec.Eqv
import Edn.Proofs.Fuel
import Edn.Proofs.ReaderInv
import Edn.Proofs.Equal
import Edn.Proofs.DispatchAux3

namespace Edn.Proofs
open Edn.Model Edn.Spec Edn.Generated

/-- the identity handler is nice -/
example (cfg : Cfg) (nm : String) : NiceHandler cfg ⟨nm, fun v => some v⟩ where
  cacheBlind := fun v w h => by
    show some (eraseCache v) = some (eraseCache w)
    rw [h]
  wellFormed := fun v r hw hcv hr => by
    have : v = r := Option.some.inj hr
    subst this
    exact ⟨hw, hcv, Nat.le_succ _⟩

/-- a handler returning a constant scalar is nice -/
example (cfg : Cfg) (nm : String) (i : Int) : NiceHandler cfg ⟨nm, fun _ => some (.int (mkHdr 0 0) i)⟩ where
  cacheBlind := fun _ _ _ => rfl
  wellFormed := fun v r _ _ hr => by
    have : Val.int (mkHdr 0 0) i = r := Option.some.inj hr
    subst this
    exact ⟨trivial, rfl, Nat.zero_le _⟩

/-- a handler that always fails is nice -/
example (cfg : Cfg) (nm : String) : NiceHandler cfg ⟨nm, fun _ => none⟩ where
  cacheBlind := fun _ _ _ => rfl
  wellFormed := fun _ _ _ _ hr => by cases hr

/-- Top level.  If the input reads to `v0` without a registry, then with the registry `reg`
    and default mode `opts.mode` the read returns what `dispatchV` computes from `v0` (with
    its cache cells emptied, see the file header): the value (up to cache cells) and exactly
    the calls, or the error with its range and the calls made until then. -/
theorem read_with_registry (cfg : Cfg) (hc : cfg.clj = false) (opts : Opts) (reg : Bytes → Option Handler)
    (hn : NiceRegistry cfg reg) (input : Bytes) (v0 : Val)
    (h0 : (read cfg { opts with registry := none } input).out = .value v0) :
    match dispatchV cfg reg opts.mode (eraseCache v0) with
    | (calls, .ok v) =>
      ∃ v', (read cfg { opts with registry := some reg } input).out = .value v' ∧ SameUpToCache v' v ∧
        (read cfg { opts with registry := some reg } input).calls = calls
    | (calls, .error (code, s, e)) =>
      (∃ es ee, (read cfg { opts with registry := some reg } input).out = .error code es ee ∧
        es.offset = input.length - s ∧ ee.offset = input.length - e) ∧
      (read cfg { opts with registry := some reg } input).calls = calls := by
  have hsim := (reader_dispatch cfg opts reg hc hn (readFuel input)).1 0 { rest := input } [] (Nat.zero_le _)
  unfold Edn.Model.read at h0 ⊢
  simp only [] at h0 ⊢
  cases hr : readValue { cfg := cfg, opts := { opts with registry := none } } (readFuel input) 0 false
      { rest := input } with
  | closer st =>
    rw [hr] at h0
    simp only [] at h0
    cases h0
  | err e st =>
    rw [hr] at h0
    simp only [] at h0
    repeat' split at h0
    all_goals cases h0
  | ok v st0 =>
    rw [hr] at h0
    simp only [] at h0
    cases h0
    rw [show readValue (R0 cfg opts) (readFuel input) 0 false { rest := input } = .ok v0 st0 from hr] at hsim
    change PostR cfg 0 [] st0.rest _ (dispatchV cfg reg opts.mode (eraseCache v0)) at hsim
    rcases hdv : dispatchV cfg reg opts.mode (eraseCache v0) with ⟨calls, ⟨code, s, e⟩ | v⟩
    · rw [hdv] at hsim
      obtain ⟨hne, st', hr1, hcalls⟩ := hsim
      simp only []
      rw [show readValue { cfg := cfg, opts := { opts with registry := some reg } } (readFuel input) 0 false
        { rest := input } = .err (mkErr code (some s) (some e)) st' from hr1]
      simp only []
      rw [if_neg (by simp [mkErr]), if_neg (by simp [mkErr])]
      exact ⟨⟨_, _, rfl, rfl, rfl⟩, by rw [hcalls]; rfl⟩
    · rw [hdv] at hsim
      obtain ⟨_, v', hr1, hex, _⟩ := hsim
      simp only []
      rw [show readValue { cfg := cfg, opts := { opts with registry := some reg } } (readFuel input) 0 false
        { rest := input } = .ok v' { rest := st0.rest, calls := [] ++ calls } from hr1]
      exact ⟨v', rfl, hex, rfl⟩

end Edn.Proofs
