/-
  Edn.Proofs.Dispatch — C14 at whole-document level: reading with a handler registry is the
  declarative dispatch (`Edn.Spec.dispatchV`) applied to the tree the same input reads to
  without a registry: same value, same call log in the same order, same error with the same
  range when a handler fails, a tag is unknown in error mode, or handler results collide.
-/
import Edn.Spec.Dispatch
import Edn.Spec.Eqv
import Edn.Proofs.Fuel
import Edn.Proofs.ReaderInv
import Edn.Proofs.Equal

namespace Edn.Proofs
open Edn.Model Edn.Spec

/-- what is assumed of a handler function: it does not look at hash-cache cells (they record
    only whether somebody asked for a hash before), and it returns well-formed values with
    valid caches of bounded depth when given such values.  (The C handlers build their results
    through the public constructors, which start with an empty cache.) -/
structure NiceHandler (cfg : Cfg) (hd : Handler) : Prop where
  cacheBlind : ∀ v w, eraseCache v = eraseCache w →
    (hd.run v).map eraseCache = (hd.run w).map eraseCache
  wellFormed : ∀ v r, WF cfg v → cacheOK cfg v = true → hd.run v = some r →
    WF cfg r ∧ cacheOK cfg r = true ∧ depth r ≤ depth v + 1

def NiceRegistry (cfg : Cfg) (reg : Bytes → Option Handler) : Prop :=
  ∀ tag hd, reg tag = some hd → NiceHandler cfg hd

/-- values equal up to cache cells -/
def SameUpToCache (a b : Val) : Prop := eraseCache a = eraseCache b

/-- Top level.  If the input reads to `v0` without a registry, then with the registry `reg`
    and default mode `opts.mode` the read returns what `dispatchV` computes from `v0`: the
    value (up to cache cells) and exactly the calls, or the error with its range and the calls
    made until then. -/
theorem read_with_registry (cfg : Cfg) (hc : cfg.clj = false) (opts : Opts) (reg : Bytes → Option Handler)
    (hn : NiceRegistry cfg reg) (input : Bytes) (v0 : Val)
    (h0 : (read cfg { opts with registry := none } input).out = .value v0) :
    match dispatchV cfg reg opts.mode v0 with
    | (calls, .ok v) =>
      ∃ v', (read cfg { opts with registry := some reg } input).out = .value v' ∧ SameUpToCache v' v ∧
        (read cfg { opts with registry := some reg } input).calls = calls
    | (calls, .error (code, s, e)) =>
      (∃ es ee, (read cfg { opts with registry := some reg } input).out = .error code es ee ∧
        es.offset = input.length - s ∧ ee.offset = input.length - e) ∧
      (read cfg { opts with registry := some reg } input).calls = calls := by
  sorry

end Edn.Proofs
